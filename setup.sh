#!/bin/bash
# Run once after a fresh restore (offline): builds the harness against /repo, regenerates Gen,
# writes the reference tables, builds every Lean module (proofs + driver).
set -e
cd "$(dirname "$0")"
export GOFLAGS=-mod=mod GOPROXY=off GOSUMDB=off GOTOOLCHAIN=local CGO_ENABLED=0
mkdir -p work evidence replays
cp /repo/go.sum harness/go.sum
(cd harness && go build -tags verif -o ../work/harness .)
./work/harness translate /repo lean/RosedVerif/Gen
python3 tools/ucd/mkref.py
(cd lean && lake build driver RosedVerif.Model.GenCodeEq RosedVerif.Model.GenCodeEqA RosedVerif.Props.C01 RosedVerif.Props.C02 RosedVerif.Props.C03 RosedVerif.Props.C04 RosedVerif.Props.C05 RosedVerif.Props.C06 RosedVerif.Props.C07 RosedVerif.Props.C08 RosedVerif.Props.C09 RosedVerif.Props.C10 RosedVerif.Props.C11 RosedVerif.Props.C12 RosedVerif.Props.C13 RosedVerif.Props.C14 RosedVerif.Props.C15 RosedVerif.Props.C16 RosedVerif.Props.C17 RosedVerif.Props.C18 RosedVerif.Props.C19 RosedVerif.Props.C20)
echo setup-ok
