#!/bin/bash
# Run once after a fresh restore (offline): builds the harness against /repo, regenerates Gen,
# writes the reference tables, builds every Lean module (proofs + driver).
set -e
cd "$(dirname "$0")"
export GOFLAGS=-mod=mod GOPROXY=off GOSUMDB=off GOTOOLCHAIN=local CGO_ENABLED=0
mkdir -p work evidence replays
cp /repo/go.sum harness/go.sum
(cd harness && go build -tags verif -o ../work/harness .)
./work/harness translate /repo lean/RosedVerif/Gen
python3 tools/ucd/mkref.py
(cd lean && lake build driver RosedVerif)
echo setup-ok
