"""Per-property configuration of ./check (which theorem modules, which theorems are audited,
which correspondence groups tie them to the code, whether an oracle exists)."""
import json, os, re, subprocess

TRUSTED_BASE = [
    "Lean 4.33.0 kernel; axioms allowed: propext, Classical.choice, Quot.sound (audited per theorem by #print axioms)",
    "no sorry/admit/native_decide/bv_decide/implemented_by/unsafe/own axioms (grep on every run)",
    "harness translate (Go, go/ast): /repo -> lean/RosedVerif/Gen/*.lean, validated by execution against the real predicates",
    "harness/gofn.go (typed Go -> Lean translator for 65 function bodies: every public operation of package rosed, internal/manip, internal/tb, Gen/Code.lean) and Model/GoPrims.lean (one-line map Go primitive -> model primitive, loop combinators): trusted; each generated definition is PROVED equal to the hand model (Model/GenEq/*), unbounded Int instead of 64-bit wrap-around, value-level (no aliasing)",
    "harness/goheap.go (pointer-level Go -> Lean translator for internal/gem, Gen/GemCode.lean) and Heap/GoHeapPrims.lean (heap monad, cell load/store/alloc, loop combinators): trusted; each generated definition is PROVED equal to the layer-H function (Model/GenEq/Gem*.lean); slices are values (no backing-array aliasing), element writes through a cell leave no event, allocations that are dead from birth are not modelled",
    "hand-written Lean model of the Go code (lean/RosedVerif/Model, Gem/Rules.lean), tied by the correspondence check; behaviour no generated case exercises is not covered",
    "compiled driver (Lean compiler + C toolchain) computes what the kernel-checked definitions denote",
    "Go semantics modelled, not verified: strings as UTF-8, []rune conversion, slices, strings.*, regexp ' +', fmt %s, float64 multiply",
]

PROPS = {
    "C01": {
        "lean_modules": ["RosedVerif.Props.C01"],
        "theorems": "auto",
        "groups": ["G-split", "G-probe", "A-chars", "H-hist"],
        "oracle": True,
        "tie": "tables regenerated from source (translator, validated by execution on 1.25M rune values); "
               "rule chain regenerated as data (Gen/Rules.lean) and proved equal to the model's chain (C01_rule_chain); model also tied by G-split (exhaustive class strings + random)",
        "assumptions": ["UAX #29 rules transcribed by hand in Gem/Spec.lean (kept short; run against the repository's 602 official vectors by the oracle group)"],
    },
    "C02": {
        "lean_modules": ["RosedVerif.Props.C02"],
        "theorems": "auto",
        "groups": ["G-class", "G-probe", "G-split"],
        "oracle": True,
        "tie": "REGENERATED: the 14 range tables are re-extracted from graphemeclusters.go on every run and "
               "every theorem is re-checked against them; extraction validated by executing the real predicates",
        "assumptions": ["reference = authentic emoji-data 13.0 + GraphemeBreakProperty 13.0.0 reconstructed from UAX #29 Table 2 over Python 3.9 unicodedata (DESIGN.md section 5)"],
    },
    "C03": {
        "lean_modules": ["RosedVerif.Props.C03"],
        "theorems": "auto",
        "groups": ["A-rel", "A-wrap", "A-justify", "A-chars"],
        "oracle": True,
        "tie": "relational run on the real code: the same operation on a stable text and on its cluster-for-cluster substitution (precomposed/decomposed, emoji ZWJ, flags, jamo), both also run on the model",
    },
    "C04": {
        "lean_modules": ["RosedVerif.Props.C04"],
        "theorems": "auto",
        "groups": ["A-range", "A-chars"],
        "oracle": True,
        "tie": "hand-written model (Model/Editor.lean: Chars, subEd, RangeToIndexes) tied by A-range (exhaustive small) and A-chars",
    },
    "C05": {
        "lean_modules": ["RosedVerif.Props.C05"],
        "theorems": "auto",
        "groups": ["A-commit", "A-chars", "POOL"],
        "oracle": True,
        "tie": "hand-written model (Model/Editor.lean: subEd, Commit, CommitAll, String) tied by A-commit, A-chars, POOL",
    },
    "C09": {
        "lean_modules": ["RosedVerif.Props.C09"],
        "theorems": "auto",
        "groups": ["A-edit", "X-misc"],
        "oracle": True,
        "tie": "hand-written model (Model/Ops.lean: Insert, Delete, Overtype) tied by A-edit (exhaustive small sizes x positions + random)",
    },
    "C10": {
        "lean_modules": ["RosedVerif.Props.C10"],
        "theorems": "auto",
        "groups": ["A-lines", "A-apply", "X-misc"],
        "oracle": True,
        "tie": "hand-written model (Model/Ops.lean: lines, Lines*, ApplyOpts) tied by A-lines, A-apply",
    },
    "C06": {
        "lean_modules": ["RosedVerif.Props.C06"],
        "theorems": "auto",
        "groups": ["A-wrap", "A-manip", "A-commit", "X-wrap"],
        "oracle": True,
        "tie": "hand-written model (Model/Manip.lean Wrap, appendWordToWrappedLine, CollapseSpace; Model/Ops.lean WrapOpts) tied by A-wrap, A-manip; Spec.wrapLines tied directly to the real code on stable vocabularies by the oracle",
    },
    "C07": {
        "lean_modules": ["RosedVerif.Props.C07"],
        "theorems": "auto",
        "groups": ["A-collapse", "A-wrap", "A-justify", "A-align", "A-indent", "A-commit", "X-wrap", "X-justify", "X-align", "X-misc"],
        "oracle": True,
        "tie": "hand-written model tied by A-collapse, A-wrap, A-justify, A-align, A-indent",
    },
    "C11": {
        "lean_modules": ["RosedVerif.Props.C11"],
        "theorems": "auto",
        "groups": ["A-para", "A-wrap", "A-justify", "A-align", "A-indent", "A-commit", "X-wrap", "X-justify", "X-align"],
        "oracle": True,
        "tie": "hand-written model (Model/Ops.lean applyGParagraphsOpts and the paragraph branches of Wrap/Justify/Align/Indent) tied by A-para and the layout groups",
    },
    "C12": {
        "lean_modules": ["RosedVerif.Props.C12"],
        "theorems": "auto",
        "groups": ["A-justify", "A-manip", "A-commit", "X-justify"],
        "oracle": True,
        "tie": "hand-written model (Model/Manip.lean JustifyLine; Model/Ops.lean JustifyOpts) tied by A-justify, A-manip",
    },
    "C13": {
        "lean_modules": ["RosedVerif.Props.C13"],
        "theorems": "auto",
        "groups": ["A-align", "A-manip", "A-commit", "X-align"],
        "oracle": True,
        "tie": "hand-written model (Model/Manip.lean AlignLine*; Model/Ops.lean AlignOpts) tied by A-align, A-manip",
    },
    "C08": {
        "lean_modules": ["RosedVerif.Props.C08"],
        "theorems": "auto",
        "groups": ["POOL"],
        "oracle": True,
        "tie": "POOL histories: every editor of a growing pool is fully re-read after every step on the real code and on the model",
    },
    "C14": {
        "lean_modules": ["RosedVerif.Props.C14"],
        "theorems": "auto",
        "groups": ["A-twocol"],
        "oracle": True,
        "tie": "hand-written model (Model/Ops.lean InsertTwoColumnsOpts, Model/Manip.lean CombineColumnBlocks, Wrap) tied by A-twocol; cluster-level instance tied directly on stable vocabularies",
    },
    "C15": {
        "lean_modules": ["RosedVerif.Props.C15"],
        "theorems": "auto",
        "groups": ["A-deftable"],
        "oracle": True,
        "tie": "hand-written model (Model/Ops.lean InsertDefinitionsTableOpts) tied by A-deftable; cluster-level instance tied directly on stable vocabularies",
    },
    "C16": {
        "lean_modules": ["RosedVerif.Props.C16"],
        "theorems": "auto",
        "groups": ["A-table"],
        "oracle": True,
        "tie": "hand-written model (Model/Table.lean MakeTable, buildTable) tied by A-table; cluster-level instance tied directly on stable vocabularies",
    },
    "C17": {
        "lean_modules": ["RosedVerif.Props.C17"],
        "theorems": "auto",
        "groups": ["A-options", "A-options2"],
        "oracle": True,
        "tie": "hand-written model (Model/Editor.lean Options.withDefaults; every XOpts in Model/Ops.lean) tied by A-options, A-options2",
    },
    "C18": {
        "lean_modules": ["RosedVerif.Props.C18"],
        "theorems": "auto",
        "groups": ["A-chars", "A-commit", "A-edit", "A-lines", "A-apply", "A-para", "A-collapse", "A-wrap",
                   "A-justify", "A-align", "A-indent", "A-twocol", "A-deftable", "A-table", "A-options", "POOL",
                   "X-wrap", "X-justify", "X-align", "X-misc"],
        "oracle": True,
        "tie": "every group's cases run under recover + watchdog + utf8.ValidString on the real code and compared with the model's Except result",
    },
    "C19": {
        "lean_modules": ["RosedVerif.Props.C19"],
        "theorems": "auto",
        "groups": ["H-hist", "H-all"],
        "oracle": True,
        "tie": "layer H heap model (Heap/Model.lean) of gem.String with cache cells, tied by H-hist/H-all: after every step the hooks read runes, cache and cell identity of every pool value",
    },
    "C20": {
        "lean_modules": ["RosedVerif.Props.C20"],
        "theorems": "auto",
        "groups": ["H-all", "Z-prog", "POOL"],
        "race_groups": ["Z-prog", "POOL"],
        "oracle": True,
        "tie": "layer H heap model tied by H-all; package-level cell monitored after every public operation (Z-prog); regenerated fact zeroCachePrefilled",
    },
}


# ---- regenerated tie (harness/gofn.go -> Gen/Code.lean; Model/GenEq/*.lean) ------------------------
# For each property: the proof modules whose theorems `<fn>_regenerated` state that the Lean definition
# TRANSLATED FROM THE GO SOURCE ON THIS RUN equals the hand-written model function the property's
# theorems are about. They are proof obligations of the property like the theorems in Props/<id>.lean:
# if one no longer checks, the property is no longer shown to hold for the code as it is now.
# A function the translator refuses (outside its Go subset) makes its theorem vacuous; the tie for that
# function then rests on the correspondence groups alone (reported in the evidence).
GENEQ = "RosedVerif.Model.GenEq."
REGEN = {
    "Block": ["blockLen", "blockLine", "blockCharCount", "blockSet", "blockAppend", "blockJoin"],
    "Align": ["countLeadingWhitespace", "countTrailingWhitespace", "alignLineLeft", "alignLineRight", "alignLineCenter"],
    "Collapse": ["collapseSpace", "editorCollapseSpaceOpts", "editorCollapseSpace"],
    "Wrap": ["appendWordToWrappedLine", "wrap"],
    "Justify": ["justifyLine"],
    "Combine": ["combineColumnBlocks"],
    "Table": ["parseTableCharSet", "buildTable", "makeTable"],
    "Options": ["optionsWithDefaults", "edit", "editorWithOptions", "editorIsSubEditor"],
    "Chars": ["editorCharCount", "editorSubEd", "editorChars", "editorCharsFrom", "editorCharsTo"],
    "Lines": ["editorLinesSep", "editorLines", "editorLineCount", "editorLinesSel", "editorLinesFrom", "editorLinesTo"],
    "Commit": ["editorCommit", "editorCommitAll", "editorString"],
    "Edit": ["editorInsert", "editorDelete", "editorOvertype"],
    "Apply": ["editorApplyOpts", "editorApply"],
    "Paras": ["editorApplyGParagraphsOpts", "editorApplyParagraphsOpts", "editorApplyParagraphs"],
    "WrapOpts": ["editorWrapOpts", "editorWrap"],
    "IndentOpts": ["editorIndentOpts", "editorIndent"],
    "InsertTable": ["editorInsertTableOpts", "editorInsertTable"],
    # T2
    "BlockOps": ["blockAppendBlock", "blockRemove"],
    "TwoCol": ["editorInsertTwoColumnsOpts", "editorInsertTwoColumns"],
    "DefTable": ["editorInsertDefinitionsTableOpts", "editorInsertDefinitionsTable"],
    # internal/gem at pointer level (harness/goheap.go -> Gen/GemCode.lean, layer H)
    "GemSplit": ["gemSplit"],
    "Gem": ["gemInitialized", "gemNew", "gemClone", "gemRunes", "gemString", "gemIsEmpty", "gemAdd", "gemLen",
            "gemCharAt", "gemGraphemeIndexes"],
    "GemOps": ["gemSub", "gemSetCharAt", "gemRepeat", "gemRepeatStr", "gemIndexFunc"],
    "GemInv": [],
    "GemRev": ["gemReverse", "gemLastIndexFunc"],
}
REGEN_OF = {
    "C04": ["Chars"], "C05": ["Chars", "Commit"], "C06": ["Collapse", "Wrap", "WrapOpts"],
    "C07": ["Collapse", "Wrap", "Justify", "Align", "IndentOpts", "WrapOpts"], "C08": ["Options"],
    "C09": ["Edit"], "C10": ["Lines", "Apply"], "C11": ["Paras", "WrapOpts", "IndentOpts"], "C12": ["Justify"],
    "C13": ["Align"], "C14": ["Combine", "Wrap"], "C15": ["Combine", "Wrap"], "C16": ["Table", "InsertTable", "Block"],
    "C17": ["Options", "WrapOpts", "IndentOpts", "Collapse", "Apply", "Paras", "InsertTable"],
    "C18": ["Block", "Chars", "Lines", "Commit", "Edit"],
    "C19": ["GemSplit", "Gem", "GemOps", "GemInv", "GemRev"], "C20": ["Gem", "GemOps", "GemInv", "GemRev"],
    "C01": ["GemSplit"],
}
# T2: two-column layout (C14), definitions table (C15), both also delegation (C17) and totality (C18)
for _p, _gs in (("C14", ["TwoCol"]), ("C15", ["BlockOps", "DefTable"]), ("C17", ["TwoCol", "BlockOps", "DefTable"]),
                ("C18", ["TwoCol", "BlockOps", "DefTable"])):
    REGEN_OF[_p] = REGEN_OF.get(_p, []) + _gs


# LARGE-input groups (harness/gen.go groupBig), see ./check: thorough tier, or quick tier on a tree that differs from
# the pinned fingerprint
for _pid, _bg in (("C04", ["L-pos"]), ("C05", ["L-pos"]), ("C09", ["L-pos"]), ("C06", ["L-wrap"]), ("C07", ["L-wrap", "L-align", "L-lines"]),
                  ("C12", ["L-wrap"]), ("C13", ["L-align", "L-lines"]), ("C10", ["L-lines"]), ("C11", ["L-lines"]), ("C17", ["L-lines"]),
                  ("C14", ["L-comp"]), ("C15", ["L-comp"]), ("C16", ["L-comp"]), ("C03", ["L-pos"]),
                  ("C18", ["L-pos", "L-wrap", "L-align", "L-lines", "L-comp"])):
    PROPS[_pid]["big_groups"] = _bg


def regen_modules(root, pid):
    """proof modules of the regenerated tie for this property (empty until Model/GenEq exists)"""
    mods = []
    for g in REGEN_OF.get(pid, []):
        if os.path.exists(os.path.join(root, "lean", "RosedVerif", "Model", "GenEq", g + ".lean")):
            mods.append(GENEQ + g)
    if REGEN_OF.get(pid) and not mods and os.path.exists(os.path.join(root, "lean", "RosedVerif", "Model", "GenCodeEqA.lean")):
        mods = ["RosedVerif.Model.GenCodeEqA"]
    return mods


# corollaries at the real instance cxA (hypotheses cx.WF / DefaultsOk / positive byte lengths discharged)
REGEN_CXA = {"Chars": ["editorChars_cxA"], "Lines": ["editorLinesSel_cxA"], "Edit": ["editorInsert_cxA", "editorDelete_cxA"],
             "WrapOpts": ["editorWrapOpts_cxA"], "IndentOpts": ["editorIndentOpts_cxA"],
             "Paras": ["editorApplyGParagraphsOpts_cxA", "defaultsOk_cxA", "literal_map_cxA"],
             "InsertTable": ["editorInsertTableOpts_cxA"],
             # hypotheses CellAlloc / GemOK discharged from the pool invariant H.Inv and for every history
             "GemInv": ["gemOK_of_inv", "gemOK_histories", "gemLen_inv", "gemCharAt_inv", "gemGraphemeIndexes_inv", "gemSub_inv",
                        "gemSetCharAt_inv", "gemIndexFunc_inv"],
             "GemRev": ["gemReverse_inv", "gemLastIndexFunc_inv", "reverse_gemOK"]}
REGEN_CXA.update({  # T2
    "TwoCol": ["editorInsertTwoColumnsOpts_cxA", "editorInsertTwoColumns_cxA"],
    "DefTable": ["editorInsertDefinitionsTableOpts_cxA", "editorInsertDefinitionsTable_cxA"]})

# T1: Editor.AlignOpts / Align / JustifyOpts / Justify, tb.New, tb.Block.Apply
REGEN["Block"] += ["blockNew", "blockApply"]
REGEN.update({"AlignOpts": ["editorAlignOpts", "editorAlign"], "JustifyOpts": ["editorJustifyOpts", "editorJustify"]})
for _pid, _groups in (("C13", ["AlignOpts"]), ("C12", ["JustifyOpts"]), ("C07", ["AlignOpts", "JustifyOpts"]),
                      ("C11", ["AlignOpts", "JustifyOpts"]), ("C17", ["AlignOpts", "JustifyOpts"])):
    REGEN_OF.setdefault(_pid, []).extend(_groups)
REGEN_CXA.update({"AlignOpts": ["editorAlignOpts_cxA", "editorAlign_cxA"],
                  "JustifyOpts": ["editorJustifyOpts_cxA", "editorJustify_cxA"]})

# T4 (repair of D18): affixPlaceholder, the stand-in WrapOpts / JustifyOpts pad paragraphs with; the hypothesis
# PhFresh of its theorem (and of the two callers') is discharged at cxA by pigeonhole (phFresh_cxA)
REGEN["AffixPlaceholder"] = ["affixPlaceholder"]
for _pid in ("C06", "C07", "C11", "C12", "C17"):
    REGEN_OF.setdefault(_pid, []).append("AffixPlaceholder")
REGEN_CXA["AffixPlaceholder"] = ["affixPlaceholder_cxA", "phFresh_cxA"]


# ---- transitive closure over the call graph (round 7 of seeded changes) -----------------------------
# A property about Align also rests on what AlignLine* CALL: CountTrailingWhitespace -> gem.String.LastIndexFunc ->
# Reverse ...  A change in a callee (seeded changes C13m: LastIndexFunc in blocks of 4096; C03m: CollapseSpace; C02m /
# C01m: gem.Split) used to alarm only the properties that listed the callee's own group.  Now the groups of a property
# are closed under "calls a function of group".
REGEN_CALLS = {
    "Gem": ["GemSplit"], "GemOps": ["Gem"], "GemRev": ["Gem", "GemOps"], "GemInv": ["Gem", "GemOps"],
    "Block": ["Gem", "GemOps"], "BlockOps": ["Block"], "Align": ["Gem", "GemOps", "GemRev"],
    "Collapse": ["Gem", "GemOps"], "Wrap": ["Collapse", "Block", "Gem", "GemOps"], "Justify": ["Collapse", "Gem", "GemOps"],
    "Combine": ["Block", "Gem", "GemOps"], "Table": ["Align", "Block", "Gem", "GemOps"], "Options": ["Gem", "GemOps"],
    "Chars": ["Gem"], "Edit": ["Chars", "Gem"], "Apply": ["Lines"], "Paras": ["Lines"],
    "WrapOpts": ["Wrap", "Paras", "Options", "Block", "AffixPlaceholder"], "IndentOpts": ["Apply", "Paras", "Options"],
    "InsertTable": ["Table", "Edit", "Options"], "AlignOpts": ["Align", "Apply", "Paras", "Block", "Options"],
    "JustifyOpts": ["Justify", "Apply", "Paras", "Block", "Lines", "Commit", "Chars", "Options", "AffixPlaceholder"],
    "TwoCol": ["Wrap", "Combine", "Edit", "Options", "Block"], "DefTable": ["Wrap", "Combine", "BlockOps", "Edit", "Options"],
}
# C02: the class a code point "effectively" carries is the one gem.Split uses; C03: every counting, indexing and
# layout operation; C13 / C12: the Opts operations themselves were added by T1
REGEN_OF.setdefault("C02", []).append("GemSplit")
REGEN_OF.setdefault("C03", []).extend(["Chars", "Edit", "Collapse", "Wrap", "Justify", "Align", "Combine", "Table", "WrapOpts",
                                       "AlignOpts", "JustifyOpts", "TwoCol", "DefTable", "InsertTable"])


# C18: every public operation is total - all of them
REGEN_OF["C18"] = REGEN_OF.get("C18", []) + [g for g in REGEN if g not in REGEN_OF.get("C18", []) and g != "GemInv"]


def _close(groups):
    out, todo = [], list(groups)
    while todo:
        g = todo.pop(0)
        if g in out or g not in REGEN:
            continue
        out.append(g)
        todo.extend(REGEN_CALLS.get(g, []))
    return out


for _pid in list(REGEN_OF):
    REGEN_OF[_pid] = _close(REGEN_OF[_pid])


def regen_theorems(pid):
    return (["RosedVerif.GenCodeEq.%s_regenerated" % f for g in REGEN_OF.get(pid, []) for f in REGEN[g]] +
            ["RosedVerif.GenCodeEq." + t for g in REGEN_OF.get(pid, []) for t in REGEN_CXA.get(g, [])])


def theorems_of(root, pid):
    """every theorem declared in lean/RosedVerif/Props/<pid>.lean (property theorems only live there)"""
    path = os.path.join(root, "lean", "RosedVerif", "Props", pid + ".lean")
    try:
        txt = open(path).read()
    except OSError:
        return []
    txt = re.sub(r"/-.*?-/", "", txt, flags=re.S)
    return ["RosedVerif.Props." + n for n in re.findall(r"^theorem\s+([A-Za-z_][A-Za-z0-9_']*)", txt, flags=re.M)]


def result_tag(go):
    if go is None:
        return "missing"
    if "X~panic" in go:
        return "panic"
    if "X~invalid" in go:
        return "invalid-utf8"
    if "X~timeout" in go or "X~crash" in go:
        return "timeout"
    return "ok"


def load_known(root, pid):
    p = os.path.join(root, "known_findings.json")
    if not os.path.exists(p):
        return []
    return [k for k in json.load(open(p))["findings"] if k["property"] == pid]


def match_known(kf, case, go, verdict):
    """A failure is covered by a known finding when the finding's scope predicate matches:
    scope = {"clause": regex on the oracle's failing clause, "case": regex on the case line}."""
    for k in kf:
        if k.get("kind") != "known":
            continue
        sc = k.get("scope", {})
        if "clause" in sc and not re.search(sc["clause"], verdict or ""):
            continue
        if "case" in sc and not re.search(sc["case"], case or ""):
            continue
        return k
    return None


def replay_witness(k, work, lean, pid, wdir, run_go, run_driver):
    """Does the known finding's own witness still fail on the real code?"""
    cpath = os.path.join(wdir, "known_%s.cases" % k["id"])
    open(cpath, "w").write(k["witness_case"] + "\n")
    go = run_go(cpath, cpath + ".go")
    gomap = dict(l.split("|", 1) for l in go if "|" in l)
    cid, rest = k["witness_case"].split("|", 1)
    opath = cpath + ".oin"
    open(opath, "w").write("%s|oracle|%s|%s|=>|%s\n" % (cid, pid, rest, gomap.get(cid, "X~missing")))
    v = run_driver(opath, cpath + ".oout")
    vmap = dict(l.split("|", 1) for l in v if "|" in l)
    verdict = vmap.get(cid, "")
    return verdict.startswith("fail")
