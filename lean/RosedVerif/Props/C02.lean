/-
C02 — Every code point carries its Unicode 13.0.0 break class.
All statements are about the tables REGENERATED from /repo on every run.
-/
import RosedVerif.Gem.TableProofs
import RosedVerif.Gem.Probes
namespace RosedVerif.Props
open RosedVerif Cls
set_option maxRecDepth 1000000

/-- each of the 14 Go predicates is true exactly on the Unicode 13.0.0 set of its class -/
theorem C02_tables (X : Cls) (r : Int) : isCb (goTable X) r = isCb (refTable X) r :=
  isCb_of_sameRanges (tables_eq_ref X) r

theorem classOf_ref (X : Cls) (hX : X ≠ other) (r : Int) :
    (classOf r == X) = isCb (refTable X) r := by
  rw [classOf_table X hX, C02_tables]

/-- **C02**: the class the segmenter uses equals the Unicode 13.0.0 class, for every rune value
(negative and out-of-range included) -/
theorem C02 (r : Int) : classOf r = ref13 r := by
  unfold ref13
  simp only [← classOf_ref _ (by decide : cr ≠ other), ← classOf_ref _ (by decide : lf ≠ other),
    ← classOf_ref _ (by decide : control ≠ other), ← classOf_ref _ (by decide : extend ≠ other),
    ← classOf_ref _ (by decide : zwj ≠ other), ← classOf_ref _ (by decide : ri ≠ other),
    ← classOf_ref _ (by decide : prepend ≠ other), ← classOf_ref _ (by decide : spacing ≠ other),
    ← classOf_ref _ (by decide : l ≠ other), ← classOf_ref _ (by decide : v ≠ other),
    ← classOf_ref _ (by decide : t ≠ other), ← classOf_ref _ (by decide : lv ≠ other),
    ← classOf_ref _ (by decide : lvt ≠ other), ← classOf_ref _ (by decide : extpict ≠ other)]
  cases classOf r <;> rfl

/-- exactly one class: the Go predicates are pairwise exclusive and each equals "class is X" -/
theorem C02_exclusive (r : Int) :
    goPreds.prepend r = (ref13 r == prepend) ∧ goPreds.cr r = (ref13 r == cr) ∧
    goPreds.lf r = (ref13 r == lf) ∧ goPreds.control r = (ref13 r == control) ∧
    goPreds.extend r = (ref13 r == extend) ∧ goPreds.ri r = (ref13 r == ri) ∧
    goPreds.spacing r = (ref13 r == spacing) ∧ goPreds.l r = (ref13 r == l) ∧
    goPreds.v r = (ref13 r == v) ∧ goPreds.t r = (ref13 r == t) ∧
    goPreds.lv r = (ref13 r == lv) ∧ goPreds.lvt r = (ref13 r == lvt) ∧
    goPreds.zwj r = (ref13 r == zwj) ∧ goPreds.extpict r = (ref13 r == extpict) := by
  rw [← C02]; exact goPreds_eq_cls r

/-- every reference range lies inside the Unicode code space -/
theorem ref_in_codespace :
    (Cls.all.all fun X => (refTable X).all fun p => decide (p.2 ≤ 0x10FFFF)) = true := by
  decide +kernel

theorem inRanges_false_of_gt (l : List (Nat × Nat)) (b x : Nat)
    (h : (l.all fun p => decide (p.2 ≤ b)) = true) (hx : b < x) : inRanges l x = false := by
  induction l with
  | nil => rfl
  | cons p t ih =>
    simp only [List.all_cons, Bool.and_eq_true, decide_eq_true_eq] at h
    rw [inRanges_cons, ih h.2]
    have : ¬ x ≤ p.2 := by omega
    simp [this]

/-- negative and out-of-range rune values behave as Other -/
theorem C02_out_of_range (r : Int) (h : r < 0 ∨ 0x10FFFF < r) : classOf r = other := by
  rw [C02]
  have key : ∀ X, isCb (refTable X) r = false := by
    intro X
    rcases h with h | h
    · have : ¬ 0 ≤ r := by omega
      simp [isCb, this]
    · have hall := ref_in_codespace
      rw [List.all_eq_true] at hall
      have := inRanges_false_of_gt (refTable X) 0x10FFFF r.toNat (hall X (Cls.mem_all X)) (by omega)
      simp [isCb, this]
  simp [ref13, key]

/-- Hangul LV syllables follow the arithmetic syllable structure -/
theorem lv_table : Ref.lvRanges = (List.range 399).map fun k => (0xAC00 + 28 * k, 0xAC00 + 28 * k) := by
  decide +kernel

theorem C02_hangul_lv (r : Int) :
    goPreds.lv r = true ↔ (0xAC00 ≤ r ∧ r ≤ 0xD7A3 ∧ (r - 0xAC00) % 28 = 0) := by
  show isCb (goTable lv) r = true ↔ _
  rw [C02_tables]
  show isCb Ref.lvRanges r = true ↔ _
  rw [lv_table]
  simp only [isCb, inRanges, Bool.and_eq_true, decide_eq_true_eq, List.any_map, List.any_eq_true,
    List.mem_range, Function.comp]
  constructor
  · rintro ⟨h0, k, hk, h1, h2⟩
    omega
  · rintro ⟨h1, h2, h3⟩
    refine ⟨by omega, ((r - 0xAC00) / 28).toNat, ?_, ?_, ?_⟩ <;> omega

/-- Hangul LVT = the syllable block minus LV -/
theorem lvt_cover :
    sameRanges (Ref.lvtRanges ++ Ref.lvRanges) [(0xAC00, 0xD7A3)] = true := by decide +kernel

theorem C02_hangul_lvt (r : Int) :
    goPreds.lvt r = true ↔ (0xAC00 ≤ r ∧ r ≤ 0xD7A3 ∧ (r - 0xAC00) % 28 ≠ 0) := by
  have hlv := C02_hangul_lv r
  have hex := C02_exclusive r
  have hcov := isCb_of_sameRanges lvt_cover r
  have h1 : goPreds.lvt r = isCb Ref.lvtRanges r := C02_tables lvt r
  have h2 : goPreds.lv r = isCb Ref.lvRanges r := C02_tables lv r
  have hsplit : isCb (Ref.lvtRanges ++ Ref.lvRanges) r = (isCb Ref.lvtRanges r || isCb Ref.lvRanges r) := by
    simp only [isCb, RTree.inRanges_append]
    cases decide (0 ≤ r) <;> simp
  have hblock : isCb [(0xAC00, 0xD7A3)] r = true ↔ (0xAC00 ≤ r ∧ r ≤ 0xD7A3) := by
    simp only [isCb, inRanges, List.any_cons, List.any_nil, Bool.or_false, Bool.and_eq_true,
      decide_eq_true_eq]
    omega
  -- exclusivity: lv and lvt are never both true
  have hnot : ¬ (goPreds.lv r = true ∧ goPreds.lvt r = true) := by
    rw [hex.2.2.2.2.2.2.2.2.2.2.1, hex.2.2.2.2.2.2.2.2.2.2.2.1]
    cases ref13 r <;> simp
  rw [hsplit] at hcov
  constructor
  · intro h
    have hb : isCb [(0xAC00, 0xD7A3)] r = true := by rw [← hcov, ← h1, h]; rfl
    have := hblock.mp hb
    refine ⟨this.1, this.2, ?_⟩
    intro h0
    exact hnot ⟨hlv.mpr ⟨this.1, this.2, h0⟩, h⟩
  · rintro ⟨a, b, c⟩
    have hb := hblock.mpr ⟨a, b⟩
    rw [← hcov, ← h1, ← h2] at hb
    cases hl : goPreds.lvt r
    · rw [hl] at hb
      simp only [Bool.false_or] at hb
      have := hlv.mp hb
      exact absurd this.2.2 c
    · rfl

/-! ### non-vacuity -/
example : classOf 0x1F468 = extpict ∧ classOf 0x0301 = extend ∧ classOf 0xAC00 = lv ∧
    classOf 0xAC01 = lvt ∧ classOf (-5) = other ∧ classOf 0x110000 = other ∧ classOf 0x41 = other := by
  decide +kernel

/-! ### observational / named-corollary restatements -/


/-- **C02, observational form** (13 probes: the original nine followed by CR·c, c·LF, ExtPict·c·ExtPict,
V·c): for EVERY rune value, what is observed on the probes is the class-level signature of its
Unicode 13.0.0 class -/
theorem C02_probe (c : Int) : probeSig13 c = sigOf13 (ref13 c) := probeSig13_eq c

/-- "each code point behaves as exactly one class" -/
theorem C02_probe_determines_class (c : Int) (X : Cls) : probeSig13 c = sigOf13 X ↔ ref13 c = X :=
  probe13_determines_class c X

/-- the thirteen probes tell all fifteen classes apart (ExtPict included) -/
theorem C02_probes_distinguish : ∀ X Y : Cls, sigOf13 X = sigOf13 Y → X = Y := sigOf13_injective

/-- FINDING: the original nine probes do NOT; they coincide exactly on {CR, LF, Control},
{ZWJ, SpacingMark}, {V, LV} (`probeRep` maps each class to the representative of its group) -/
theorem C02_nine_probes_coincide (X Y : Cls) : sigOf X = sigOf Y ↔ probeRep X = probeRep Y :=
  sigOf_eq_iff X Y

theorem C02_nine_probes_not_injective :
    sigOf cr = sigOf lf ∧ sigOf cr = sigOf control ∧ sigOf zwj = sigOf spacing ∧ sigOf v = sigOf lv :=
  sigOf_not_injective

/-- the nine-probe observation is nevertheless the signature of the Unicode 13.0.0 class … -/
theorem C02_probe9 (c : Int) : probeSig c = sigOf (ref13 c) := probeSig_eq c

/-- … and determines the class up to the three groups -/
theorem C02_probe9_determines_class_partial (c : Int) (X : Cls) :
    probeSig c = sigOf X ↔ probeRep (ref13 c) = probeRep X := probe_determines_class_partial c X


end RosedVerif.Props
