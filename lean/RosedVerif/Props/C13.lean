/-
C13 — Align pads every line to the exact width on the correct side.   (layer B: one token per cluster)
Per-line statements for the specification functions; the editor-level statement (line count
unchanged) is `Spec.apply` over the lines (C10).  The cluster-level functions are tied to the real
code on stable vocabularies by the oracle of ./check C13.
-/
import RosedVerif.Spec.AlignLemmas
import RosedVerif.Model.AlignRefine
import RosedVerif.Model.BridgeAlign
import RosedVerif.Model.OpsStructure
import RosedVerif.Model.BridgeEditorOps
import RosedVerif.Model.BridgeEditorParas
namespace RosedVerif.Props
open RosedVerif.Spec
variable {α : Type} (tk : Toks α)

/-- Left: leading whitespace stripped (exactly the maximal whitespace prefix), padded on the right only -/
theorem C13_left_shape (w : Int) (l : List α) :
    (∃ n, Spec.alignLeft tk w l = stripLeft tk l ++ List.replicate n tk.sp) ∧
    (∃ p, l = p ++ stripLeft tk l ∧ (∀ c ∈ p, tk.ws c = true) ∧
      (∀ c, (stripLeft tk l).head? = some c → tk.ws c = false)) :=
  ⟨alignLeft_shape tk w l, stripLeft_spec tk l⟩

/-- … exactly w clusters wide when the kept text is at most w; longer lines keep their text -/
theorem C13_left_width (w : Int) (l : List α) (h : ((stripLeft tk l).length : Int) ≤ w) :
    ((Spec.alignLeft tk w l).length : Int) = w := alignLeft_length tk w l h
theorem C13_left_long (w : Int) (l : List α) (h : w ≤ (stripLeft tk l).length) :
    Spec.alignLeft tk w l = stripLeft tk l := alignLeft_long tk w l h

/-- Right: trailing whitespace stripped, padded on the left only -/
theorem C13_right_shape (w : Int) (l : List α) :
    (∃ n, Spec.alignRight tk w l = List.replicate n tk.sp ++ stripRight tk l) ∧
    (∃ q, l = stripRight tk l ++ q ∧ (∀ c ∈ q, tk.ws c = true) ∧
      (∀ c, (stripRight tk l).getLast? = some c → tk.ws c = false)) :=
  ⟨alignRight_shape tk w l, stripRight_spec tk l⟩
theorem C13_right_width (w : Int) (l : List α) (h : ((stripRight tk l).length : Int) ≤ w) :
    ((Spec.alignRight tk w l).length : Int) = w := alignRight_length tk w l h
theorem C13_right_long (w : Int) (l : List α) (h : w ≤ (stripRight tk l).length) :
    Spec.alignRight tk w l = stripRight tk l := alignRight_long tk w l h

/-- Center: both sides stripped, padded on both sides with the left pad equal to or one more than the right -/
theorem C13_center_shape (w : Int) (l : List α) :
    ∃ a b, Spec.alignCenter tk w l =
        List.replicate a tk.sp ++ stripRight tk (stripLeft tk l) ++ List.replicate b tk.sp ∧
      (a = b ∨ a = b + 1) := alignCenter_shape tk w l
theorem C13_center_width (w : Int) (l : List α) (h : ((stripRight tk (stripLeft tk l)).length : Int) ≤ w) :
    ((Spec.alignCenter tk w l).length : Int) = w := alignCenter_length tk w l h
theorem C13_center_long (w : Int) (l : List α) (h : w ≤ (stripRight tk (stripLeft tk l)).length) :
    Spec.alignCenter tk w l = stripRight tk (stripLeft tk l) := alignCenter_long tk w l h

/-- **refinement**: for every context in which each atom is its own cluster, the models of
manip.AlignLineLeft/Right/Center (IndexFunc / LastIndexFunc / Reverse / Sub / RepeatStr, transliterated)
compute exactly the specification above — every width, every line -/
theorem C13_refines [DecidableEq α] (cx : RosedVerif.Ctx α) (htriv : ∀ s, cx.ends s = List.range' 1 s.length)
    (s : List α) (w : Int) :
    RosedVerif.alignLeft cx s w = Spec.alignLeft ⟨cx.isSpace, cx.sp, cx.hy⟩ w s ∧
    RosedVerif.alignRight cx s w = Spec.alignRight ⟨cx.isSpace, cx.sp, cx.hy⟩ w s ∧
    RosedVerif.alignCenter cx s w = Spec.alignCenter ⟨cx.isSpace, cx.sp, cx.hy⟩ w s :=
  ⟨RosedVerif.alignLeft_triv cx htriv s w, RosedVerif.alignRight_triv cx htriv s w, RosedVerif.alignCenter_triv cx htriv s w⟩

/-! non-vacuity: widths ≤ 0, whitespace-only line, odd padding -/
example : Spec.alignCenter ⟨(· == 0), 0, 99⟩ 6 [0, 1, 2, 3, 0] = [0, 0, 1, 2, 3, 0] := by decide
example : Spec.alignLeft ⟨(· == 0), 0, 99⟩ (-2) [0, 0] = [] := by decide

/-- **bridge to code points**: on a stable vocabulary containing the space, the model of
AlignLineLeft/Right/Center run on CODE POINTS with the real UAX #29 segmentation returns a text
whose clusters are exactly the specification's result on the input's clusters — so the shape,
exact-width and long-line clauses above hold for code-point text, whatever the encoding of its
clusters.  (No side condition on hidden spaces is needed here.) -/
theorem C13_code_points {V : List (List Int)} (hV : VocabStable V = true) (hsp : [0x20] ∈ V)
    (toks : List (List Int)) (ht : ∀ t ∈ toks, t ∈ V) (w : Int) :
    clusters cxA (RosedVerif.alignLeft cxA toks.flatten w) =
      Spec.alignLeft ⟨cxB.isSpace, cxB.sp, cxB.hy⟩ w toks ∧
    clusters cxA (RosedVerif.alignRight cxA toks.flatten w) =
      Spec.alignRight ⟨cxB.isSpace, cxB.sp, cxB.hy⟩ w toks ∧
    clusters cxA (RosedVerif.alignCenter cxA toks.flatten w) =
      Spec.alignCenter ⟨cxB.isSpace, cxB.sp, cxB.hy⟩ w toks :=
  ⟨alignLeft_bridge_clusters hV hsp toks ht w, alignRight_bridge_clusters hV hsp toks ht w,
   alignCenter_bridge_clusters hV hsp toks ht w⟩

open RosedVerif.OpsStructure

/-- alignment None or an unknown value returns the editor unchanged (any context, any editor, paragraph mode too) -/
theorem C13_none_unchanged {α : Type} [DecidableEq α] (cx : Ctx α) (ed : Editor α)
    (align width : Int)
    (o : Options α)
    (hal : align = Gen.alignNone ∨
      (align ≠ Gen.alignLeft ∧ align ≠ Gen.alignRight ∧ align ≠ Gen.alignCenter)) :
    ed.alignOpts cx align width o = .ok ed :=
  alignOpts_none cx ed align width o hal

/-- Align leaves the number of lines unchanged, and output line i is the aligned input line i (any context and editor, non-paragraph mode; for an unbordered separator that no aligned line contains — both conditions are needed, `OpsStructure` has the counterexamples); the Options on the result are the receiver's -/
theorem C13_line_count {α : Type} [DecidableEq α] (cx : Ctx α) (ed : Editor α)
    (align width : Int)
    (o : Options α)
    (hal : align = Gen.alignLeft ∨ align = Gen.alignRight ∨ align = Gen.alignCenter)
    (hpp : (o.withDefaults cx).preservePara = false)
    (hsep : (o.withDefaults cx).lineSep ≠ [])
    (hu : Unbordered (o.withDefaults cx).lineSep)
    (hfree : ∀ l ∈ inLines cx ed o,
      indexOf (o.withDefaults cx).lineSep (alignFn cx align l width) = none) :
    ∃ r, ed.alignOpts cx align width o = .ok r ∧ r.opts = ed.opts ∧
      (splitOn r.text (o.withDefaults cx).lineSep).length =
        (splitOn ed.text (o.withDefaults cx).lineSep).length ∧
      ∀ i, i < (inLines cx ed o).length →
        (splitOn r.text (o.withDefaults cx).lineSep).getD i [] =
          alignFn cx align ((inLines cx ed o).getD i []) width ∧
        (splitOn ed.text (o.withDefaults cx).lineSep).getD i [] = (inLines cx ed o).getD i [] :=
  alignOpts_lines cx ed align width o hal hpp hsep hu hfree

open RosedVerif.BridgeOps RosedVerif.BridgeEditorOps RosedVerif.BridgeEditorParas RosedVerif.OpsStructure

/-- the PUBLIC operation AlignOpts on code points, non-paragraph mode, any editor (sub-editors included), every value of the alignment: the code-point run of the model is the flattening of the cluster run (`GoodSep`: the line separator cannot be found across cluster boundaries) -/
theorem C13_alignOpts_code_points {V : List (List Int)} (hV : VocabStable V = true)
    (ed : Editor (List Int))
    (ht : ∀ t ∈ ed.text, t ∈ V)
    (align width : Int)
    (o : Options (List Int))
    (hpp : o.preservePara = false)
    (hS : GoodSep V (o.withDefaults cxB).lineSep) :
    Editor.alignOpts cxA ed.flat align width o.flat =
      (Editor.alignOpts cxB ed align width o).map Editor.flat :=
  alignOpts_bridge hV ed ht align width o hpp hS

/-- … in closed form: the result is the specification's alignment of every input line (on clusters), joined by the separator, with the trailing-separator rule -/
theorem C13_alignOpts_code_points_closed {V : List (List Int)} (hV : VocabStable V = true)
    (ed : Editor (List Int))
    (ht : ∀ t ∈ ed.text, t ∈ V)
    (align width : Int)
    (o : Options (List Int))
    (hal : align = Gen.alignLeft ∨ align = Gen.alignRight ∨ align = Gen.alignCenter)
    (hpp : o.preservePara = false)
    (hS : GoodSep V (o.withDefaults cxB).lineSep) :
    Editor.alignOpts cxA ed.flat align width o.flat =
      .ok (ed.withText (joinWith (o.withDefaults cxB).lineSep
        ((inLines cxB ed o).map (specAlign align width) ++ trailing cxB ed o))).flat :=
  alignOpts_bridge_closed hV ed ht align width o hal hpp hS

/-- the same in paragraph mode (`GoodPara`: neither separator can be found across cluster boundaries) -/
theorem C13_alignOpts_code_points_para {V : List (List Int)} (hV : VocabStable V = true)
    (hsp : [0x20] ∈ V)
    (ed : Editor (List Int))
    (ht : ∀ t ∈ ed.text, t ∈ V)
    (align width : Int)
    (o : Options (List Int))
    (hpp : o.preservePara = true)
    (hG : GoodPara V (o.withDefaults cxB).lineSep (o.withDefaults cxB).paraSep) :
    Editor.alignOpts cxA ed.flat align width o.flat =
      (Editor.alignOpts cxB ed align width o).map Editor.flat :=
  alignOpts_bridge_para hV hsp ed ht align width o hpp hG

end RosedVerif.Props
