/-
C13 — Align pads every line to the exact width on the correct side.   (layer B: one token per cluster)
Per-line statements for the specification functions; the editor-level statement (line count
unchanged) is `Spec.apply` over the lines (C10).  The cluster-level functions are tied to the real
code on stable vocabularies by the oracle of ./check C13.
-/
import RosedVerif.Spec.AlignLemmas
namespace RosedVerif.Props
open RosedVerif.Spec
variable {α : Type} (tk : Toks α)

/-- Left: leading whitespace stripped (exactly the maximal whitespace prefix), padded on the right only -/
theorem C13_left_shape (w : Int) (l : List α) :
    (∃ n, alignLeft tk w l = stripLeft tk l ++ List.replicate n tk.sp) ∧
    (∃ p, l = p ++ stripLeft tk l ∧ (∀ c ∈ p, tk.ws c = true) ∧
      (∀ c, (stripLeft tk l).head? = some c → tk.ws c = false)) :=
  ⟨alignLeft_shape tk w l, stripLeft_spec tk l⟩

/-- … exactly w clusters wide when the kept text is at most w; longer lines keep their text -/
theorem C13_left_width (w : Int) (l : List α) (h : ((stripLeft tk l).length : Int) ≤ w) :
    ((alignLeft tk w l).length : Int) = w := alignLeft_length tk w l h
theorem C13_left_long (w : Int) (l : List α) (h : w ≤ (stripLeft tk l).length) :
    alignLeft tk w l = stripLeft tk l := alignLeft_long tk w l h

/-- Right: trailing whitespace stripped, padded on the left only -/
theorem C13_right_shape (w : Int) (l : List α) :
    (∃ n, alignRight tk w l = List.replicate n tk.sp ++ stripRight tk l) ∧
    (∃ q, l = stripRight tk l ++ q ∧ (∀ c ∈ q, tk.ws c = true) ∧
      (∀ c, (stripRight tk l).getLast? = some c → tk.ws c = false)) :=
  ⟨alignRight_shape tk w l, stripRight_spec tk l⟩
theorem C13_right_width (w : Int) (l : List α) (h : ((stripRight tk l).length : Int) ≤ w) :
    ((alignRight tk w l).length : Int) = w := alignRight_length tk w l h
theorem C13_right_long (w : Int) (l : List α) (h : w ≤ (stripRight tk l).length) :
    alignRight tk w l = stripRight tk l := alignRight_long tk w l h

/-- Center: both sides stripped, padded on both sides with the left pad equal to or one more than the right -/
theorem C13_center_shape (w : Int) (l : List α) :
    ∃ a b, alignCenter tk w l =
        List.replicate a tk.sp ++ stripRight tk (stripLeft tk l) ++ List.replicate b tk.sp ∧
      (a = b ∨ a = b + 1) := alignCenter_shape tk w l
theorem C13_center_width (w : Int) (l : List α) (h : ((stripRight tk (stripLeft tk l)).length : Int) ≤ w) :
    ((alignCenter tk w l).length : Int) = w := alignCenter_length tk w l h
theorem C13_center_long (w : Int) (l : List α) (h : w ≤ (stripRight tk (stripLeft tk l)).length) :
    alignCenter tk w l = stripRight tk (stripLeft tk l) := alignCenter_long tk w l h

/-! non-vacuity: widths ≤ 0, whitespace-only line, odd padding -/
example : alignCenter ⟨(· == 0), 0, 99⟩ 6 [0, 1, 2, 3, 0] = [0, 0, 1, 2, 3, 0] := by decide
example : alignLeft ⟨(· == 0), 0, 99⟩ (-2) [0, 0] = [] := by decide

end RosedVerif.Props
