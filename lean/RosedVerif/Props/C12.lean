/-
C12 — Justify fills lines to the exact width with even gaps.
The space-distribution loop of JustifyLine (model: `distribute`, a transliteration of the Go loop
including its index arithmetic) never indexes out of range, adds exactly the missing spaces, and
leaves gap sizes that differ by at most one — for every number of gaps and every deficit.
-/
import RosedVerif.Model.JustifyLemmas
import RosedVerif.Model.InstAFacts
import RosedVerif.Model.AlignRefine
import RosedVerif.Model.BridgeAlignCRLF
import RosedVerif.Model.OpsStructure
import RosedVerif.Model.BridgeEditorOps
import RosedVerif.Model.BridgeEditorParas
namespace RosedVerif.Props
open RosedVerif

/-- the loop is total (the odd-gap correction keeps the index in range) and adds exactly `n` spaces -/
theorem C12_distribute_total (g : Nat) (hg : 0 < g) (n : Nat) :
    ∃ r, distribute (g : Int) (if g % 2 == 0 then 0 else 1) n 0 false (List.replicate g 0) = .ok r ∧
      r.length = g ∧ r.sum = n := distribute_total g hg n

/-- runs of spaces differ by at most one -/
theorem C12_even_gaps (g : Nat) (hg : 0 < g) (n : Nat) (r : List Nat)
    (h : distribute (g : Int) (if g % 2 == 0 then 0 else 1) n 0 false (List.replicate g 0) = .ok r) :
    ∀ x ∈ r, ∀ y ∈ r, x ≤ y + 1 := distribute_even g hg n r h

/-- exact width: words interleaved with gaps of 1 + extra[i] spaces have length
Σ|word| + gaps + Σ extra — with Σ extra = w − len this is exactly w -/
theorem C12_exact_width {α : Type} [DecidableEq α] (cx : Ctx α) (ws : List (List α)) (extra : List Nat)
    (h1 : ws ≠ []) (h2 : extra.length = ws.length - 1) :
    (interleave cx ws extra).length = (ws.map List.length).sum + (ws.length - 1) + extra.sum :=
  interleave_length cx ws extra h1 h2

/-- the same words, in order -/
theorem C12_words {α : Type} [DecidableEq α] (cx : Ctx α) (ws : List (List α)) (extra : List Nat)
    (h : ∀ w ∈ ws, cx.sp ∉ w) : (interleave cx ws extra).filter (fun a => a != cx.sp) = ws.flatten :=
  interleave_words cx ws extra h

/-- **C12, per line, at cluster level**: with c the space-collapsed line — if c has no space or is already
at least w wide the result is c; otherwise the result is exactly w wide, has the same words in order,
and is the words interleaved with gaps whose sizes differ by at most one (leading and trailing runs
count as gaps, as in the code) -/
theorem C12_line {α : Type} [DecidableEq α] (cx : Ctx α) (htriv : ∀ s, cx.ends s = List.range' 1 s.length)
    (hsp : cx.isSpace cx.sp = true) (hnl : cx.isSpace cx.nl = true) (line : List α) (w : Int) :
    ∃ r, justifyLine cx line w = .ok r ∧
      JustifyPost cx (Spec.collapse ⟨cx.isSpace, cx.sp, cx.hy⟩ line) w r :=
  justifyLine_triv_nl cx htriv hsp hnl line w _ rfl

/-- JustifyLine on arbitrary code-point text returns normally -/
theorem C12_total (text : List Int) (w : Int) : ∃ r, justifyLine cxA text w = .ok r :=
  justifyLine_total cxA_Sane text w

/-! non-vacuity: odd and even gap counts, deficit larger than the number of gaps -/
example : distribute 3 1 5 0 false [0, 0, 0] = .ok [1, 2, 2] := rfl
example : distribute 4 0 6 0 false [0, 0, 0, 0] = .ok [2, 1, 1, 2] := rfl

/-- **bridge to code points**: on a stable vocabulary (space included, no U+0020 hidden inside a
cluster; CR LF clusters allowed) the model of JustifyLine on CODE POINTS with the real segmentation
returns normally, and the clusters of its output satisfy the per-line statement `JustifyPost`
(unchanged when too long or gap-less, otherwise exactly `w` clusters wide, same words, gaps
differing by at most one) with respect to the space-collapsed clusters of the input. -/
theorem C12_code_points {V : List (List Int)} (hV : VocabStable V = true) (hsp : [0x20] ∈ V)
    (hspTail : ∀ t ∈ V, (0x20 : Int) ∉ t.tail) (toks : List (List Int)) (ht : ∀ t ∈ toks, t ∈ V)
    (w : Int) :
    ∃ out, justifyLine cxA toks.flatten w = .ok out ∧
      JustifyPost cxB (Spec.collapse ⟨cxB.isSpace, cxB.sp, cxB.hy⟩ toks) w (clusters cxA out) :=
  justifyLine_bridge_general_post hV hsp hspTail toks ht w

/-- the side condition is needed (Prepend + space is one cluster hiding a U+0020) -/
theorem C12_code_points_needs_spTail :
    VocabStable [[0x61], [0x20], [0x600, 0x20]] = true ∧
    justifyLine cxA ([[0x600, 0x20], [0x20], [0x61]] : List (List Int)).flatten 0 =
      .ok [0x600, 0x20, 0x61] ∧
    justifyLine cxB [[0x600, 0x20], [0x20], [0x61]] 0 = .ok [[0x600, 0x20], [0x20], [0x61]] :=
  BridgeAlignCRLF.spTail_needed_justify

open RosedVerif.OpsStructure

/-- JustifyLastLine off (the default), non-paragraph mode, any well-formed context (arbitrary code points included) and any editor, sub-editors too: every line but the last is replaced by its justification, and the last line WITH EVERYTHING AFTER IT (its terminator, the trailing separator) is byte-for-byte the input's tail; the result carries the receiver's Options -/
theorem C12_last_line_untouched {α : Type} [DecidableEq α] (cx : Ctx α) (hs : cx.Sane)
    (hd : cx.dLineSep ≠ [])
    (ed : Editor α)
    (width : Int)
    (o : Options α)
    (hpp : (o.withDefaults cx).preservePara = false)
    (hjl : (o.withDefaults cx).justifyLast = false) :
    ed.justifyOpts cx width o =
        .ok (ed.withText
          ((((inLines cx ed o).dropLast).map
              (fun l => justified cx l width ++ (o.withDefaults cx).lineSep)).flatten ++
            ed.text.drop (headText (o.withDefaults cx).lineSep (inLines cx ed o)).length)) ∧
      ed.text = headText (o.withDefaults cx).lineSep (inLines cx ed o) ++
        ed.text.drop (headText (o.withDefaults cx).lineSep (inLines cx ed o)).length :=
  justifyOpts_notLast_sane cx hs hd ed width o hpp hjl

/-- Justify leaves the number of lines unchanged: output line i is the justified input line i, the last line is the input's last line (unbordered separator that no justified line contains) -/
theorem C12_line_count {α : Type} [DecidableEq α] (cx : Ctx α) (hb : ∀ a, 0 < cx.blen a)
    (hd : cx.dLineSep ≠ [])
    (ed : Editor α)
    (width : Int)
    (o : Options α)
    (J : List α → List α)
    (hpp : (o.withDefaults cx).preservePara = false)
    (hjl : (o.withDefaults cx).justifyLast = false)
    (hJ : ∀ l ∈ (inLines cx ed o).dropLast, justifyLine cx l width = .ok (J l))
    (hnil : (o.withDefaults cx).noTrailing = true → justifyLine cx [] width = .ok [])
    (hu : Unbordered (o.withDefaults cx).lineSep)
    (hfree : ∀ l ∈ (inLines cx ed o).dropLast, indexOf (o.withDefaults cx).lineSep (J l) = none) :
    ∃ r, ed.justifyOpts cx width o = .ok r ∧ r.opts = ed.opts ∧
      (splitOn r.text (o.withDefaults cx).lineSep).length =
        (splitOn ed.text (o.withDefaults cx).lineSep).length ∧
      ∀ i, i < (inLines cx ed o).length →
        (splitOn r.text (o.withDefaults cx).lineSep).getD i [] =
          (if i + 1 < (inLines cx ed o).length then J ((inLines cx ed o).getD i [])
           else (inLines cx ed o).getD i []) ∧
        (splitOn ed.text (o.withDefaults cx).lineSep).getD i [] = (inLines cx ed o).getD i [] :=
  justifyOpts_notLast_lines cx hb hd ed width o J hpp hjl hJ hnil hu hfree

/-- the same with JustifyLastLine on: every line, the last included, is replaced by its justification and the line count is unchanged -/
theorem C12_line_count_justifyLast {α : Type} [DecidableEq α] (cx : Ctx α) (ed : Editor α)
    (width : Int)
    (o : Options α)
    (J : List α → List α)
    (hpp : (o.withDefaults cx).preservePara = false)
    (hjl : (o.withDefaults cx).justifyLast = true)
    (hJ : ∀ l ∈ inLines cx ed o, justifyLine cx l width = .ok (J l))
    (hsep : (o.withDefaults cx).lineSep ≠ [])
    (hu : Unbordered (o.withDefaults cx).lineSep)
    (hfree : ∀ l ∈ inLines cx ed o, indexOf (o.withDefaults cx).lineSep (J l) = none) :
    ∃ r, ed.justifyOpts cx width o = .ok r ∧ r.opts = ed.opts ∧
      (splitOn r.text (o.withDefaults cx).lineSep).length =
        (splitOn ed.text (o.withDefaults cx).lineSep).length ∧
      ∀ i, i < (inLines cx ed o).length →
        (splitOn r.text (o.withDefaults cx).lineSep).getD i [] = J ((inLines cx ed o).getD i []) ∧
        (splitOn ed.text (o.withDefaults cx).lineSep).getD i [] = (inLines cx ed o).getD i [] :=
  justifyOpts_all_lines cx ed width o J hpp hjl hJ hsep hu hfree

open RosedVerif.BridgeOps RosedVerif.BridgeEditorOps RosedVerif.BridgeEditorParas RosedVerif.OpsStructure

/-- the PUBLIC operation JustifyOpts on code points, non-paragraph mode, JustifyLastLine on or off, any editor (sub-editors included): the code-point run of the model (LinesTo(-1), per-line JustifyLine, Commit — byte offsets included) is the flattening of the cluster run -/
theorem C12_justifyOpts_code_points {V : List (List Int)} (hV : VocabStable V = true)
    (hsp : [0x20] ∈ V)
    (hspTail : ∀ t ∈ V, (0x20 : Int) ∉ t.tail)
    (ed : Editor (List Int))
    (ht : ∀ t ∈ ed.text, t ∈ V)
    (width : Int)
    (o : Options (List Int))
    (hpp : o.preservePara = false)
    (hS : GoodSep V (o.withDefaults cxB).lineSep) :
    Editor.justifyOpts cxA ed.flat width o.flat =
      (Editor.justifyOpts cxB ed width o).map Editor.flat :=
  justifyOpts_bridge hV hsp hspTail ed ht width o hpp hS

/- `hAL` (the letter `A` is not a rune of the line separator) was added with the repair of defect D18:
JustifyOpts pads a paragraph with stand-ins for the paragraph separator's affixes — the letter `A`,
since the repair another letter (`cxA.placeholder`, `C07_wrapOpts_para_placeholder_fresh`) when the
line separator contains `A` — and the other letter need not be a cluster of `V`.  Before the repair
the theorem held for such separators too, but only because both levels ran the same defective
algorithm (the stand-ins were split off as lines of their own, so the last line of a paragraph was
justified although JustifyLastLine was off). -/
/-- the same in paragraph mode (vocabulary also contains the placeholder `A` the code pads paragraphs with) -/
theorem C12_justifyOpts_code_points_para {V : List (List Int)} (hV : VocabStable V = true)
    (hsp : [0x20] ∈ V)
    (hA : [0x41] ∈ V)
    (hspTail : ∀ t ∈ V, (0x20 : Int) ∉ t.tail)
    (ed : Editor (List Int))
    (ht : ∀ t ∈ ed.text, t ∈ V)
    (width : Int)
    (o : Options (List Int))
    (hpp : o.preservePara = true)
    (hG : GoodPara V (o.withDefaults cxB).lineSep (o.withDefaults cxB).paraSep)
    (hAL : (0x41 : Int) ∉ ((o.withDefaults cxB).lineSep).flatten) :
    Editor.justifyOpts cxA ed.flat width o.flat =
      (Editor.justifyOpts cxB ed width o).map Editor.flat :=
  justifyOpts_bridge_para hV hsp hA hspTail ed ht width o hpp hG hAL

open RosedVerif.BridgeEditorParas in
/-- the hypotheses are satisfiable: the default separators, any text over `demoVocabA` -/
example (toks : List (List Int)) (ht : ∀ t ∈ toks, t ∈ demoVocabA) (width : Int)
    (o0 o : Options (List Int)) (hpp : o.preservePara = true) (hl : o.lineSep = [])
    (hp : o.paraSep = []) :
    Editor.justifyOpts cxA (.root toks.flatten o0.flat) width o.flat =
      (Editor.justifyOpts cxB (.root toks o0) width o).map Editor.flat :=
  C12_justifyOpts_code_points_para demoVocabA_stable (by decide) (by decide)
    (BridgeWrap.spTail_of_spOnly (by decide)) (.root toks o0) ht width o hpp
    (by rw [(default_seps o hl hp).1, (default_seps o hl hp).2]; exact demoVocabA_goodPara)
    (by rw [(default_seps o hl hp).1]; decide)

/-- the witness of D18's second site: `"x y\n\nz w"` justified to width 5 in paragraph mode with the line
separator `"A"` is unchanged (each paragraph's only line is its last line; stand-in `B`); before the repair
the first paragraph came out as `"x   y"` -/
theorem C12_justifyOpts_para_D18_witness :
    (Editor.justifyOpts cxA (.root [0x78, 0x20, 0x79, 0x0A, 0x0A, 0x7A, 0x20, 0x77] {}) 5
        { preservePara := true, lineSep := [0x41] }).map Editor.text =
      .ok [0x78, 0x20, 0x79, 0x0A, 0x0A, 0x7A, 0x20, 0x77] :=
  BridgeWrap.of_okEq (by decide +kernel)

end RosedVerif.Props
