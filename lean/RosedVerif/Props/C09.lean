/-
C09 — Insert, Delete and Overtype edit exactly the addressed clusters.
-/
import RosedVerif.Model.InstAFacts
namespace RosedVerif.Props
open RosedVerif

/-- Insert yields clusters[0:p] + new + clusters[p:] for every integer p -/
theorem C09_insert (ed : Editor Int) (p : Int) (x : List Int) :
    ed.insert cxA p x = .ok (ed.withText (Spec.insert cxA ed.text p x)) :=
  Editor.insert_eq_spec cxA_WF ed p x

/-- Delete yields clusters[0:s] + clusters[e:] for every pair of integers -/
theorem C09_delete (ed : Editor Int) (s e : Int) :
    ed.delete cxA s e = .ok (ed.withText (Spec.delete cxA ed.text s e)) :=
  Editor.delete_eq_spec cxA_WF ed s e

/-- Overtype yields clusters[0:p] + new + clusters[min(p + len(new), n):].  The only proviso is that
the 64-bit sum p + len(new) does not wrap, i.e. the two texts together have fewer than 2^63 clusters. -/
theorem C09_overtype (ed : Editor Int) (p : Int) (x : List Int)
    (hno : (gLen cxA ed.text : Int) + (gLen cxA x : Int) < 2 ^ 63) :
    ed.overtype cxA p x = .ok (ed.withText (Spec.overtype cxA ed.text p x)) :=
  Editor.overtype_eq_spec cxA_WF ed p x hno

/-- deleting what was just inserted restores the text, whenever the insertion creates no junction
effect (the inserted clusters stay what they are next to their new neighbours) -/
theorem C09_roundtrip (t : List Int) (p : Int) (x : List Int)
    (h : clusters cxA (Spec.insert cxA t p x) =
      (clusters cxA t).take (Spec.posNat cxA t p) ++ clusters cxA x ++
        (clusters cxA t).drop (Spec.posNat cxA t p)) :
    Spec.delete cxA (Spec.insert cxA t p x) (Spec.posNat cxA t p : Nat)
      ((Spec.posNat cxA t p + (clusters cxA x).length : Nat) : Int) = t :=
  Spec.delete_insert_wf cxA_WF t p x h

/-! non-vacuity (the inputs on which the unrepaired code failed) -/
example : Spec.delete cxA [0x61, 0x62, 0x63, 0x64, 0x65, 0x66] (-2) 1 = [0x61, 0x62, 0x63, 0x64, 0x65, 0x66] := by
  decide +kernel
example : Spec.overtype cxA [0x61, 0x62, 0x63, 0x64, 0x65, 0x66] (-3) [0x77, 0x78, 0x79, 0x7a] =
    [0x61, 0x62, 0x63, 0x77, 0x78, 0x79, 0x7a] := by decide +kernel

end RosedVerif.Props
