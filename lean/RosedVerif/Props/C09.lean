/-
C09 — Insert, Delete and Overtype edit exactly the addressed clusters.
-/
import RosedVerif.Model.InstAFacts
import RosedVerif.Model.BridgeEdit
namespace RosedVerif.Props
open RosedVerif

/-- Insert yields clusters[0:p] + new + clusters[p:] for every integer p -/
theorem C09_insert (ed : Editor Int) (p : Int) (x : List Int) :
    ed.insert cxA p x = .ok (ed.withText (Spec.insert cxA ed.text p x)) :=
  Editor.insert_eq_spec cxA_WF ed p x

/-- Delete yields clusters[0:s] + clusters[e:] for every pair of integers -/
theorem C09_delete (ed : Editor Int) (s e : Int) :
    ed.delete cxA s e = .ok (ed.withText (Spec.delete cxA ed.text s e)) :=
  Editor.delete_eq_spec cxA_WF ed s e

/-- Overtype yields clusters[0:p] + new + clusters[min(p + len(new), n):].  The only proviso is that
the 64-bit sum p + len(new) does not wrap, i.e. the two texts together have fewer than 2^63 clusters. -/
theorem C09_overtype (ed : Editor Int) (p : Int) (x : List Int)
    (hno : (gLen cxA ed.text : Int) + (gLen cxA x : Int) < 2 ^ 63) :
    ed.overtype cxA p x = .ok (ed.withText (Spec.overtype cxA ed.text p x)) :=
  Editor.overtype_eq_spec cxA_WF ed p x hno

/-- deleting what was just inserted restores the text, whenever the insertion creates no junction
effect (the inserted clusters stay what they are next to their new neighbours) -/
theorem C09_roundtrip (t : List Int) (p : Int) (x : List Int)
    (h : clusters cxA (Spec.insert cxA t p x) =
      (clusters cxA t).take (Spec.posNat cxA t p) ++ clusters cxA x ++
        (clusters cxA t).drop (Spec.posNat cxA t p)) :
    Spec.delete cxA (Spec.insert cxA t p x) (Spec.posNat cxA t p : Nat)
      ((Spec.posNat cxA t p + (clusters cxA x).length : Nat) : Int) = t :=
  Spec.delete_insert_wf cxA_WF t p x h

/-! non-vacuity (the inputs on which the unrepaired code failed) -/
example : Spec.delete cxA [0x61, 0x62, 0x63, 0x64, 0x65, 0x66] (-2) 1 = [0x61, 0x62, 0x63, 0x64, 0x65, 0x66] := by
  decide +kernel
example : Spec.overtype cxA [0x61, 0x62, 0x63, 0x64, 0x65, 0x66] (-3) [0x77, 0x78, 0x79, 0x7a] =
    [0x61, 0x62, 0x63, 0x77, 0x78, 0x79, 0x7a] := by decide +kernel

/-- on code points over a stable vocabulary Insert has NO junction effect: the clusters of the result are clusters[0:p] ++ new ++ clusters[p:] (so the hypothesis of `C09_roundtrip` holds) -/
theorem C09_insert_code_points {V : List (List Int)} (hV : VocabStable V = true)
    (toks ins : List (List Int))
    (ht : ∀ t ∈ toks, t ∈ V)
    (hi : ∀ t ∈ ins, t ∈ V)
    (p : Int) :
    clusters cxA (Spec.insert cxA toks.flatten p ins.flatten) =
      toks.take (Spec.posNat cxA toks.flatten p) ++ ins ++
        toks.drop (Spec.posNat cxA toks.flatten p) :=
  insert_clusters_stable hV toks ins ht hi p

/-- **deleting what was just inserted restores the text**, for the model on code points with the real segmentation, any editor (root or sub-editor) whose text and the inserted text are over a stable vocabulary, every integer position -/
theorem C09_roundtrip_code_points {V : List (List Int)} (hV : VocabStable V = true)
    (ed : Editor Int)
    (toks ins : List (List Int))
    (hed : ed.text = toks.flatten)
    (ht : ∀ t ∈ toks, t ∈ V)
    (hi : ∀ t ∈ ins, t ∈ V)
    (p : Int) :
    (ed.insert cxA p ins.flatten >>= fun e =>
        e.delete cxA (Spec.posNat cxA toks.flatten p : Nat)
          ((Spec.posNat cxA toks.flatten p + ins.length : Nat) : Int)) = .ok ed :=
  editor_delete_insert_stable_gen hV ed toks ins hed ht hi p

/-- Overtype on code points over a stable vocabulary: the clusters of the result are clusters[0:p] ++ new ++ clusters[min(p+len(new), n):] -/
theorem C09_overtype_code_points {V : List (List Int)} (hV : VocabStable V = true)
    (toks ins : List (List Int))
    (ht : ∀ t ∈ toks, t ∈ V)
    (hi : ∀ t ∈ ins, t ∈ V)
    (p : Int) :
    clusters cxA (Spec.overtype cxA toks.flatten p ins.flatten) =
      toks.take (Spec.posNat cxA toks.flatten p) ++ ins ++
        toks.drop (min (Spec.posNat cxA toks.flatten p + ins.length) toks.length) :=
  overtype_clusters_stable hV toks ins ht hi p

end RosedVerif.Props
