/-
C10 — Line count, per-line callbacks and line selection agree and round-trip.
The line separator of an editor is `(ed.opts.withDefaults cxA).lineSep`; the decomposition is
`Spec.linePieces` (each line with its terminator).
-/
import RosedVerif.Model.InstAFacts
import RosedVerif.Model.LinesLemmas
namespace RosedVerif.Props
open RosedVerif

theorem dLineSep_ne : cxA.dLineSep ≠ [] := by decide

/-- the pieces — each line with its terminator — concatenate back to the original text, for every
non-empty separator and both trailing-separator policies -/
theorem C10_pieces_roundtrip (text sep : List Int) (nt : Bool) (h : sep ≠ []) :
    (Spec.linePieces text sep nt).flatten = text := Spec.linePieces_flatten text sep nt h

/-- LineCount = number of pieces; the lines an Apply callback sees are the pieces without terminators -/
theorem C10_lineCount (ed : Editor Int) :
    ed.lineCount cxA = (Spec.linePieces ed.text (ed.opts.withDefaults cxA).lineSep ed.opts.noTrailing).length :=
  lineCount_eq_linePieces_length cxA dLineSep_ne ed

theorem C10_lines (ed : Editor Int) :
    ed.lines cxA = Spec.bareLines ed.text (ed.opts.withDefaults cxA).lineSep ed.opts.noTrailing :=
  lines_eq_bareLines cxA ed

/-- Apply: callbacks run over the lines in order with indexes 0..n-1, returned line lists are spliced
in place, the trailing separator is kept exactly when the input had one (default policy) -/
theorem C10_apply (ed : Editor Int) (f : Nat → List Int → List (List Int)) (o : Options Int) :
    ed.applyOpts cxA f o = .ok (ed.withText
      (Spec.apply ed.text (o.withDefaults cxA).lineSep (o.withDefaults cxA).noTrailing f)) :=
  applyOpts_eq_spec cxA ed f o

/-- a callback returning its argument reproduces the text exactly, for EVERY separator (the defaulted
separator is never empty) — also a self-overlapping one such as "aa" or "--" -/
theorem C10_apply_identity (ed : Editor Int) (o : Options Int) :
    ed.applyOpts cxA (fun _ l => [l]) o = .ok ed :=
  applyOpts_id cxA dLineSep_ne ed o

/-- the same at the specification level, for every non-empty separator and both policies -/
theorem C10_apply_identity_spec (text sep : List Int) (nt : Bool) (h : sep ≠ []) :
    Spec.apply text sep nt (fun _ l => [l]) = text := Spec.apply_id text sep nt h

/-- the former counterexample (D-fix): with the self-overlapping separator "aa" the identity callback
now reproduces "aaa" (the split is ["", "a"]: the last line "a" is unterminated although the text
ends with the characters of the separator) … -/
example : Spec.apply [0x61, 0x61, 0x61] [0x61, 0x61] false (fun _ l => [l]) = [0x61, 0x61, 0x61] := by
  decide
/-- … also through the model's `ApplyOpts`, … -/
example : (Editor.root [0x61, 0x61, 0x61] {}).applyOpts cxA (fun _ l => [l])
    { lineSep := [0x61, 0x61] } = .ok (Editor.root [0x61, 0x61, 0x61] {}) :=
  C10_apply_identity _ _
/-- … and "a---" with separator "--" ("a", "-": the `-` is an unterminated last line) -/
example : Spec.apply [0x61, 0x2d, 0x2d, 0x2d] [0x2d, 0x2d] false (fun _ l => [l]) =
    [0x61, 0x2d, 0x2d, 0x2d] := by decide
/-- a text that really ends with a terminated line keeps its separator: "a--" ↦ "a--" -/
example : Spec.apply [0x61, 0x2d, 0x2d] [0x2d, 0x2d] false (fun _ l => l :: []) =
    [0x61, 0x2d, 0x2d] := by decide

/-- Lines / LinesFrom / LinesTo select exactly the pieces of the documented normalised range, as a
sub-editor whose byte range is [|before|, |before ++ selected|) -/
theorem C10_lines_select (ed : Editor Int) (s e : Int) :
    ed.linesSel cxA s e =
      .ok (.sub
        (Spec.selectLines ed.text (ed.opts.withDefaults cxA).lineSep ed.opts.noTrailing s e).2.1
        ed.opts ed
        (byteLen cxA
          (Spec.selectLines ed.text (ed.opts.withDefaults cxA).lineSep ed.opts.noTrailing s e).1)
        (byteLen cxA
          ((Spec.selectLines ed.text (ed.opts.withDefaults cxA).lineSep ed.opts.noTrailing s e).1 ++
           (Spec.selectLines ed.text (ed.opts.withDefaults cxA).lineSep ed.opts.noTrailing s e).2.1))) :=
  linesSel_eq_spec cxA utf8Len_pos dLineSep_ne ed s e

theorem C10_select_concat (text sep : List Int) (nt : Bool) (s e : Int) (h : sep ≠ []) :
    (Spec.selectLines text sep nt s e).1 ++ (Spec.selectLines text sep nt s e).2.1 ++
      (Spec.selectLines text sep nt s e).2.2 = text :=
  Spec.selectLines_concat text sep nt s e h

/-! non-vacuity: "\r\n" separator, unterminated last line, negative position -/
example : Spec.linePieces [0x61, 0xd, 0xa, 0xd, 0xa, 0x62] [0xd, 0xa] false = [[0x61, 0xd, 0xa], [0xd, 0xa], [0x62]] := by
  decide
example : (Spec.selectLines [0x61, 0xa, 0x62, 0xa] [0xa] false (-1) Gen.endSentinel) = ([0x61, 0xa], [0x62, 0xa], []) := by
  decide

end RosedVerif.Props
