/-
C08 — Editors are immutable values; operations are deterministic.
In the functional model immutability and determinism hold by construction (operations are functions
from values to values); it is stated as the specification the POOL refinement check compares the real
code against.  What carries content here are (a) the frame facts regenerated from the typed source —
no function of package rosed assigns through a pointer, all its methods have value receivers — and
(b) the layer-H theorem that the only shared mutable state (gem.String cache cells) never changes an
observable of any existing value.
-/
import RosedVerif.Model.InstAFacts
import RosedVerif.Gen.Facts
import RosedVerif.Model.EditorHistories
namespace RosedVerif.Props
open RosedVerif

/-- the pool machine: a step appends its result and leaves every earlier member as it was -/
def poolStep {σ : Type} (pool : List σ) (op : List σ → σ) : List σ := pool ++ [op pool]

theorem C08_pool_frame {σ : Type} (pool : List σ) (ops : List (List σ → σ)) (i : Nat) (hi : i < pool.length) :
    (ops.foldl poolStep pool)[i]? = pool[i]? := by
  induction ops generalizing pool with
  | nil => rfl
  | cons op rest ih =>
    have : (poolStep pool op)[i]? = pool[i]? := by
      unfold poolStep; rw [List.getElem?_append_left hi]
    rw [List.foldl_cons, ih (poolStep pool op) (by unfold poolStep; simp; omega), this]

/-- all receivers in package rosed and gem are value receivers -/
theorem C08_value_receivers :
    (Gen.pointerReceiverMethods.filter fun m => m.1 == "rosed" || m.1 == "gem") = [] := by decide

/-- no function of package rosed writes through a pointer or into a caller-visible slice element -/
theorem C08_rosed_writes_nothing :
    (Gen.heapWrites.filter fun w => w.1 == "rosed") = [] := by decide

/-- a sub-editor holds a snapshot: Commit builds a NEW parent value, the stored one is only read
(model: `Editor.commit` is a function of the sub-editor value) — and is a pure function -/
theorem C08_commit_deterministic (e : Editor Int) : ∀ r₁ r₂, e.commit cxA = r₁ → e.commit cxA = r₂ → r₁ = r₂ :=
  fun _ _ h₁ h₂ => h₁ ▸ h₂

/-- shared cache cells never change what an existing value reports (C19's frame theorem) -/
theorem C08_cache_frame (k : H.Call) (h : H.Heap) (c : Nat) (x : List Nat) (hx : h.get c = some x) :
    (k.run h).1.get c = some x := H.frame k h c x hx

end RosedVerif.Props

namespace RosedVerif.Props
open RosedVerif

/-- one more call — any operation, any arguments, failing or not — leaves the pool of previously
obtained Editors a prefix of the new pool: same values at the same indexes -/
theorem C08_pool_prefix (ops : List (EdOp Int)) (op : EdOp Int) :
    runEd cxA ops <+: runEd cxA (ops ++ [op]) := runEd_prefix_snoc ops op

/-- … and so does any sequence of calls -/
theorem C08_pool_prefix_any (ops more : List (EdOp Int)) :
    runEd cxA ops <+: runEd cxA (ops ++ more) := runEd_prefix ops more

/-- every previously obtained Editor still reports the same text, options, counts, `String()`,
`Commit()` and ancestors as when it was obtained -/
theorem C08_pool_observables (ops more : List (EdOp Int)) (i : Nat) (ed : Editor Int)
    (h : (runEd cxA ops)[i]? = some ed) :
    ∃ ed', (runEd cxA (ops ++ more))[i]? = some ed' ∧ ed'.text = ed.text ∧ ed'.opts = ed.opts ∧
      ed'.charCount cxA = ed.charCount cxA ∧ ed'.lineCount cxA = ed.lineCount cxA ∧
      ed'.string cxA = ed.string cxA ∧ ed'.commit cxA = ed.commit cxA ∧ ed'.ancestry = ed.ancestry :=
  runEd_observables ops more i ed h

/-- the program semantics is a function: same pool, same call, same result -/
theorem C08_step_deterministic (pool : List (Editor Int)) (op : EdOp Int) :
    ∀ p₁ p₂, stepEd cxA pool op = p₁ → stepEd cxA pool op = p₂ → p₁ = p₂ :=
  stepEd_deterministic pool op

/-- a text-changing operation returns its receiver with another text: options, parent snapshot,
byte range and the whole ancestor chain are the receiver's -/
theorem C08_ancestors_untouched (pool : List (Editor Int)) (op : EdOp Int) (i : Nat) (r : Editor Int)
    (hop : op.textChange = some i) (h : evalEd cxA pool op = some r) :
    ∃ ed, pool[i]? = some ed ∧ ed.SameBut r ∧ r.opts = ed.opts ∧ r.link = ed.link ∧
      r.ancestry = ed.ancestry := evalEd_textChange hop h

/-- `WithOptions` changes the options and nothing else -/
theorem C08_withOptions_untouched (pool : List (Editor Int)) (i : Nat) (o : Options Int)
    (r : Editor Int) (h : evalEd cxA pool (.withOptions i o) = some r) :
    ∃ ed, pool[i]? = some ed ∧ r = ed.withOpts o ∧ r.text = ed.text ∧ r.opts = o ∧
      r.link = ed.link ∧ r.ancestry = ed.ancestry := evalEd_withOptions h

end RosedVerif.Props
