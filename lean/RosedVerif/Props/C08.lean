/-
C08 — Editors are immutable values; operations are deterministic.
In the functional model immutability and determinism hold by construction (operations are functions
from values to values); it is stated as the specification the POOL refinement check compares the real
code against.  What carries content here are (a) the frame facts regenerated from the typed source —
no function of package rosed assigns through a pointer, all its methods have value receivers — and
(b) the layer-H theorem that the only shared mutable state (gem.String cache cells) never changes an
observable of any existing value.
-/
import RosedVerif.Model.InstAFacts
import RosedVerif.Gen.Facts
namespace RosedVerif.Props
open RosedVerif

/-- the pool machine: a step appends its result and leaves every earlier member as it was -/
def poolStep {σ : Type} (pool : List σ) (op : List σ → σ) : List σ := pool ++ [op pool]

theorem C08_pool_frame {σ : Type} (pool : List σ) (ops : List (List σ → σ)) (i : Nat) (hi : i < pool.length) :
    (ops.foldl poolStep pool)[i]? = pool[i]? := by
  induction ops generalizing pool with
  | nil => rfl
  | cons op rest ih =>
    have : (poolStep pool op)[i]? = pool[i]? := by
      unfold poolStep; rw [List.getElem?_append_left hi]
    rw [List.foldl_cons, ih (poolStep pool op) (by unfold poolStep; simp; omega), this]

/-- all receivers in package rosed and gem are value receivers -/
theorem C08_value_receivers :
    (Gen.pointerReceiverMethods.filter fun m => m.1 == "rosed" || m.1 == "gem") = [] := by decide

/-- no function of package rosed writes through a pointer or into a caller-visible slice element -/
theorem C08_rosed_writes_nothing :
    (Gen.heapWrites.filter fun w => w.1 == "rosed") = [] := by decide

/-- a sub-editor holds a snapshot: Commit builds a NEW parent value, the stored one is only read
(model: `Editor.commit` is a function of the sub-editor value) — and is a pure function -/
theorem C08_commit_deterministic (e : Editor Int) : ∀ r₁ r₂, e.commit cxA = r₁ → e.commit cxA = r₂ → r₁ = r₂ :=
  fun _ _ h₁ h₂ => h₁ ▸ h₂

/-- shared cache cells never change what an existing value reports (C19's frame theorem) -/
theorem C08_cache_frame (k : H.Call) (h : H.Heap) (c : Nat) (x : List Nat) (hx : h.get c = some x) :
    (k.run h).1.get c = some x := H.frame k h c x hx

end RosedVerif.Props
