/-
C04 — Character selection and counting are grapheme-exact for all positions.
Property theorems only (helpers: Model/PosLemmas.lean, Gem/Theory.lean).  Stated for instance A:
code points + the real segmentation (`cxA`), whose well-formedness comes from the finite-state theory.
-/
import RosedVerif.Model.InstAFacts
import RosedVerif.Gen.IntFns
namespace RosedVerif.Props
open RosedVerif

/-- util.RangeToIndexes is the documented normalisation: negative positions count from the end,
out-of-range positions clamp, an end before the start gives the empty range at the start —
for ALL integers -/
theorem C04_range (n s e : Int) (hn : 0 ≤ n) : rangeToIndexes n s e = Spec.normRangeRaw n s e :=
  rangeToIndexes_eq n s e hn

/-- **C04**: for every text (any code points, any cluster ordering) and every pair of integer
positions (negative, End, out of range, reversed), `Chars` returns exactly the clusters of the
documented normalised range, as a sub-editor whose byte range is [|before|, |before ++ selected|) -/
theorem C04 (ed : Editor Int) (s e : Int) :
    ed.chars cxA s e =
      .ok (.sub (Spec.selectClusters cxA ed.text s e).2.1 ed.opts ed
        (byteLen cxA (Spec.selectClusters cxA ed.text s e).1)
        (byteLen cxA ((Spec.selectClusters cxA ed.text s e).1 ++
          (Spec.selectClusters cxA ed.text s e).2.1))) :=
  Editor.chars_eq_spec cxA_WF ed s e

/-- the parts before, inside and after a selection concatenate to the original text (so a
selection never splits a cluster or a UTF-8 sequence: the three parts are whole clusters) -/
theorem C04_concat (t : List Int) (s e : Int) :
    (Spec.selectClusters cxA t s e).1 ++ (Spec.selectClusters cxA t s e).2.1 ++
      (Spec.selectClusters cxA t s e).2.2 = t :=
  selectClusters_concat cxA_WF t s e

/-- CharCount is the number of clusters -/
theorem C04_charCount (ed : Editor Int) : ed.charCount cxA = (clusters cxA ed.text).length :=
  Editor.charCount_eq cxA ed

/-- CharsFrom(s) = Chars(s, End), CharsTo(e) = Chars(0, e) -/
theorem C04_charsFrom (ed : Editor Int) (s : Int) : ed.charsFrom cxA s = ed.chars cxA s Gen.endSentinel :=
  Editor.charsFrom_eq_chars_end cxA_WF ed s

theorem C04_charsTo (ed : Editor Int) (e : Int) : ed.charsTo cxA e = ed.chars cxA 0 e := rfl

/-- cluster boundaries partition the code points: strictly increasing, ending at the length,
no empty cluster — for arbitrary rune values -/
theorem C04_partition (s : List Int) : Part (splitRunes s) s.length := part_splitRunes s

/-! non-vacuity: a decomposed é, a flag and a lone mark; negative, End and reversed positions -/
example : (Spec.selectClusters cxA [0x65, 0x301, 0x1F1E9, 0x1F1EA, 0x301, 0x61] (-2) Gen.endSentinel) =
    ([0x65, 0x301], [0x1F1E9, 0x1F1EA, 0x301, 0x61], []) := by decide +kernel
example : (Spec.selectClusters cxA [0x65, 0x301, 0x61, 0x62] 2 1) = ([0x65, 0x301, 0x61], [], [0x62]) := by
  decide +kernel

/-- **regenerated tie**: `Gen.rangeToIndexes` is translated from the source text of
`util.RangeToIndexes` (and of any helper it calls) on every run (harness/intfn.go: go/ast → Lean,
unbounded `Int`); for every size ≥ 0 and ALL integer positions it equals the documented
normalisation `Spec.normRangeRaw` (negative from the end, clamping, reversed ⇒ empty at start) and
the hand-written model.  The proof is a decision procedure (`grind` over the if-chains), so an
equivalent rewrite of the Go function re-proves by itself and a wrong one does not.  When the
function leaves the translator's Go subset, `intFnsExtracted = false` and the statement is vacuous
(the tie then rests on the correspondence groups alone). -/
theorem C04_rangeToIndexes_regenerated (_h : Gen.intFnsExtracted = true) (n s e : Int) (_hn : 0 ≤ n) :
    Gen.rangeToIndexes n s e = Spec.normRangeRaw n s e ∧
    Gen.rangeToIndexes n s e = rangeToIndexes n s e := by
  have key : Gen.rangeToIndexes n s e = rangeToIndexes n s e := by
    first
      | exact absurd _h (by decide)
      | (unfold rangeToIndexes; unfold_gen_intfns; grind)
  exact ⟨key.trans (rangeToIndexes_eq n s e _hn), key⟩

end RosedVerif.Props
