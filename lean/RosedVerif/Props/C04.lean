import RosedVerif.Spec.Pos
