/-
C15 — Definitions table aligns all definitions at one cluster column.
(first instalment; the per-paragraph shape follows in CompositeLemmas)
-/
import RosedVerif.Model.InstAFacts
namespace RosedVerif.Props
open RosedVerif

/-- an empty definitions list produces no output: the editor is returned unchanged -/
theorem C15_empty {α : Type} [DecidableEq α] (cx : Ctx α) (ed : Editor α) (p w : Int) (o : Options α) :
    ed.insertDefTableOpts cx p [] w o = .ok ed := by
  simp [Editor.insertDefTableOpts, List.foldlM]
  rfl

/-- the Options stored on the result are the receiver's -/
theorem C15_opts (ed r : Editor Int) (p : Int) (d : List (List Int × List Int)) (w : Int) (o : Options Int)
    (h : ed.insertDefTableOpts cxA p d w o = .ok r) : r.opts = ed.opts :=
  insertDefTableOpts_opts cxA ed r p d w o h

end RosedVerif.Props
