/-
C15 — Definitions table aligns all definitions at one cluster column.
(a) clauses proved of the SPECIFICATION `Spec.defTable` (every token type); (b) the shape of the MODEL of
InsertDefinitionsTableOpts at cluster level.
-/
import RosedVerif.Model.InstAFacts
import RosedVerif.Model.CompositeLemmas
import RosedVerif.Spec.CompositeLemmas
import RosedVerif.Model.Totality2
import RosedVerif.Model.BridgeComposite
import RosedVerif.Model.NoLossModel
namespace RosedVerif.Props
open RosedVerif

/-- in every line of every paragraph the definition text starts at cluster column T + 6, T = the
longest term: line 0 is `··term<pad to T>··-·first`, continuation lines are T + 6 spaces + line -/
theorem C15_column {α : Type} (tk : Spec.Toks α) (T : Nat) (w : Int) (term defn : List α) (ht : term.length ≤ T)
    (i : Nat) (hi : i < (Spec.defParagraph tk T w term defn).length) :
    ∃ pre, (Spec.defParagraph tk T w term defn)[i] = pre ++ (Spec.defLines tk T w defn).getD i [] ∧
      pre.length = T + 6 ∧
      (i = 0 → pre = [tk.sp, tk.sp] ++ Spec.padTo tk T term ++ [tk.sp, tk.sp, tk.hy, tk.sp]) ∧
      (i ≠ 0 → pre = List.replicate (T + 6) tk.sp) :=
  Spec.defParagraph_column tk T w term defn ht i hi

/-- every term is at most T wide, so the clause applies to every paragraph -/
theorem C15_terms_fit {α : Type} (defs : List (List α × List α)) :
    ∀ d ∈ defs, d.1.length ≤ defs.foldl (fun m d => max m d.1.length) 0 := Spec.term_le_T defs

/-- paragraphs appear in input order, one per definition; an empty list produces none -/
theorem C15_paragraphs {α : Type} (tk : Spec.Toks α) (defs : List (List α × List α)) (w : Int) :
    (Spec.defTable tk defs w).length = defs.length := Spec.defTable_length tk defs w

/-- **the model** at cluster level: the inserted text is the paragraph-separator join of the
paragraphs, each the line-separator join of its lines, plus the trailing separator policy; the
wrapped lines of a definition are `defRc (colLines …)`: a whitespace-only definition (no wrapped
line) is treated like the empty one (one empty line) … -/
theorem C15_model {α : Type} [DecidableEq α] (cx : Ctx α) (htriv : ∀ s, cx.ends s = List.range' 1 s.length)
    (hsp : cx.isSpace cx.sp = true) (ed : Editor α) (pos : Int) (defs : List (List α × List α)) (width : Int)
    (o : Options α) (hne : defs ≠ []) :
    ed.insertDefTableOpts cx pos defs width o =
      ed.insert cx pos
        (joinWith (o.withDefaults cx).paraSep (defs.map fun item =>
          joinWith (o.withDefaults cx).lineSep
            (defParaLines cx (maxLineLen (defs.map (·.1))) item.1
              (defRc (colLines cx item.2
                (max (width - ((maxLineLen (defs.map (·.1)) : Int) + 2) - 2 - 2) 2)
                (o.withDefaults cx).lineSep)))) ++
          (if (o.withDefaults cx).noTrailing = true then [] else (o.withDefaults cx).lineSep)) :=
  insertDefTableOpts_triv_text cx htriv hsp ed pos defs width o hne

/-- … and in every line of a model paragraph the definition text starts at column T + 6 -/
theorem C15_model_column {α : Type} [DecidableEq α] (cx : Ctx α) (T : Nat) (term : List α) (hT : term.length ≤ T)
    (rc : List (List α)) (i : Nat) (hi : i < rc.length) (h : i < (defParaLines cx T term rc).length) :
    (defParaLines cx T term rc)[i].drop (T + 6) = rc.getD i [] := defParaLines_drop cx T term hT rc i hi h

/-- … and with the model's `defRc` this holds for EVERY definition (no `rc ≠ []` needed): the
wrapped lines are never empty, the paragraph has one line per wrapped line, its first line carries
the `- ` marker, and the definition text starts at column T + 6 on every line -/
theorem C15_marker_always {α : Type} [DecidableEq α] (cx : Ctx α) (T : Nat) (term : List α)
    (rc : List (List α)) :
    defRc rc ≠ [] ∧
    (defParaLines cx T term (defRc rc)).length = (defRc rc).length ∧
    (∀ h0 : 0 < (defParaLines cx T term (defRc rc)).length,
      (defParaLines cx T term (defRc rc))[0] =
        [cx.sp, cx.sp] ++ term ++ List.replicate (T - term.length) cx.sp ++ [cx.sp, cx.sp] ++
          [cx.hy, cx.sp] ++ (defRc rc).getD 0 []) ∧
    (term.length ≤ T → ∀ (i : Nat) (_ : i < (defRc rc).length)
        (h : i < (defParaLines cx T term (defRc rc)).length),
      (defParaLines cx T term (defRc rc))[i].drop (T + 6) = (defRc rc).getD i []) :=
  ⟨defRc_ne_nil rc, defParaLines_defRc_length cx T term rc,
    fun h0 => defParaLines_defRc_first cx T term rc h0,
    fun hT i hi h => defParaLines_drop cx T term hT (defRc rc) i hi h⟩

/-- an empty definitions list produces no output: the editor is returned unchanged -/
theorem C15_empty {α : Type} [DecidableEq α] (cx : Ctx α) (ed : Editor α) (p w : Int) (o : Options α) :
    ed.insertDefTableOpts cx p [] w o = .ok ed := by
  simp [Editor.insertDefTableOpts, Editor.insertDefTableOptsCore, List.foldlM]
  rfl

/-- total on arbitrary code-point input -/
theorem C15_total (ed : Editor Int) (p : Int) (d : List (List Int × List Int)) (w : Int) (o : Options Int) :
    ∃ r, ed.insertDefTableOpts cxA p d w o = .ok r := insertDefTableOpts_total cxA_Sane ed p d w o

/-- **bridge to code points**: on a stable vocabulary the model of InsertDefinitionsTableOpts run on CODE POINTS with the real segmentation returns the flattening of the cluster-level text of `C15_model`; every paragraph line re-segments to its cluster line and the definition text starts at real-cluster column T + 6 (T = longest term in clusters) on every line -/
theorem C15_code_points {V : List (List Int)} (hV : VocabStable V = true)
    (hsp : [0x20] ∈ V)
    (hhy : [0x2D] ∈ V)
    (hspTail : ∀ t ∈ V, (0x20 : Int) ∉ t.tail)
    (toks : List (List Int))
    (ht : ∀ t ∈ toks, t ∈ V)
    (o0 : Options (List Int))
    (pos : Int)
    (defs : List (List (List Int) × List (List Int)))
    (hd1 : ∀ d ∈ defs, ∀ t ∈ d.1, t ∈ V)
    (hd2 : ∀ d ∈ defs, ∀ t ∈ d.2, t ∈ V)
    (width : Int)
    (o : Options (List Int))
    (hS : BridgeOps.GoodSep V (o.withDefaults cxB).lineSep)
    (hP : ∀ t ∈ (o.withDefaults cxB).paraSep, t ≠ [])
    (hne : defs ≠ []) :
    Editor.insertDefTableOpts cxA (.root toks.flatten o0.flat) pos
        (defs.map fun d => (d.1.flatten, d.2.flatten)) width o.flat =
      .ok (.root (toks.take (Spec.normPos toks.length pos).toNat ++
        (joinWith (o.withDefaults cxB).paraSep (defs.map fun item =>
          joinWith (o.withDefaults cxB).lineSep
            (defParaLines cxB (maxLineLen (defs.map (·.1))) item.1
              (defRc (colLines cxB item.2
                (max (width - ((maxLineLen (defs.map (·.1)) : Int) + 2) - 2 - 2) 2)
                (o.withDefaults cxB).lineSep)))) ++
          (if (o.withDefaults cxB).noTrailing = true then [] else (o.withDefaults cxB).lineSep)) ++
        toks.drop (Spec.normPos toks.length pos).toNat).flatten o0.flat) ∧
    ∀ item ∈ defs, ∀ (rc : List (List (List Int))),
      rc = defRc (colLines cxB item.2
        (max (width - ((maxLineLen (defs.map (·.1)) : Int) + 2) - 2 - 2) 2)
        (o.withDefaults cxB).lineSep) →
      (defParaLines cxB (maxLineLen (defs.map (·.1))) item.1 rc).length = rc.length ∧
      ∀ (i : Nat) (hi : i < (defParaLines cxB (maxLineLen (defs.map (·.1))) item.1 rc).length),
        clusters cxA ((defParaLines cxB (maxLineLen (defs.map (·.1))) item.1 rc)[i]).flatten =
          (defParaLines cxB (maxLineLen (defs.map (·.1))) item.1 rc)[i] ∧
        (clusters cxA ((defParaLines cxB (maxLineLen (defs.map (·.1))) item.1 rc)[i]).flatten).drop
          (maxLineLen (defs.map (·.1)) + 6) = rc.getD i [] :=
  insertDefTableOpts_bridge_C15 hV hsp hhy hspTail toks ht o0 pos defs hd1 hd2 width o hS hP hne

open RosedVerif.Spec RosedVerif.Spec.NoLoss RosedVerif.NoLossModel RosedVerif.WrapRefine

/-- no term or definition word is lost, paragraphs in input order: paragraph j has defs[j]'s term verbatim at offset 2 of its first line and the definition's words, in order, after column T + 6; a definition without a word still has its term line -/
theorem C15_no_loss {α : Type} (tk : Spec.Toks α) (hsp : tk.ws tk.sp = true)
    (hhy : tk.ws tk.hy = false)
    (defs : List (List α × List α))
    (w : Int) :
    (defTable tk defs w).length = defs.length ∧
    ∀ (j : Nat) (hj : j < defs.length) (hj' : j < (defTable tk defs w).length),
      ∃ h0 : 0 < ((defTable tk defs w)[j]).length,
        ((((defTable tk defs w)[j])[0]).drop 2).take defs[j].1.length = defs[j].1 ∧
        (((defTable tk defs w)[j]).map (List.drop (termWidth defs + 6))).flatMap (words tk) =
          units tk (defWidth (termWidth defs) w) defs[j].2 ∧
        (words tk defs[j].2 = [] → ((defTable tk defs w)[j]).length = 1) :=
  C15_no_loss_m tk hsp hhy defs w

/-- the MODEL of InsertDefinitionsTableOpts at cluster level inserts exactly the specification's table (`Spec.defTable`), joined by the separators -/
theorem C15_model_spec {α : Type} [DecidableEq α] (cx : Ctx α) (htriv : ∀ s, cx.ends s = List.range' 1 s.length)
    (hsp : cx.isSpace cx.sp = true)
    (ed : Editor α)
    (pos : Int)
    (defs : List (List α × List α))
    (width : Int)
    (o : Options α)
    (hne : defs ≠ []) :
    ed.insertDefTableOpts cx pos defs width o =
      ed.insert cx pos
        (joinWith (o.withDefaults cx).paraSep
          ((defTable (toks cx)
            (defs.map fun d => (d.1, replaceAll' cx d.2 (o.withDefaults cx).lineSep)) width).map
            (joinWith (o.withDefaults cx).lineSep)) ++
          (if (o.withDefaults cx).noTrailing = true then [] else (o.withDefaults cx).lineSep)) :=
  C15_model_spec_m cx htriv hsp ed pos defs width o hne

/-- … hence no term or definition word is lost by the model -/
theorem C15_model_no_loss {α : Type} [DecidableEq α] (cx : Ctx α) (htriv : ∀ s, cx.ends s = List.range' 1 s.length)
    (hsp : cx.isSpace cx.sp = true)
    (hhy : cx.isSpace cx.hy = false)
    (ed : Editor α)
    (pos : Int)
    (defs : List (List α × List α))
    (width : Int)
    (o : Options α)
    (hne : defs ≠ []) :
    ∃ paras : List (List (List α)),
      ed.insertDefTableOpts cx pos defs width o =
        ed.insert cx pos
          (joinWith (o.withDefaults cx).paraSep (paras.map (joinWith (o.withDefaults cx).lineSep)) ++
            (if (o.withDefaults cx).noTrailing = true then [] else (o.withDefaults cx).lineSep)) ∧
      paras.length = defs.length ∧
      ∀ (j : Nat) (hj : j < defs.length) (hj' : j < paras.length),
        let T := maxLineLen (defs.map (·.1))
        let W := defWidth T width
        let defn := replaceAll' cx defs[j].2 (o.withDefaults cx).lineSep
        ∃ h0 : 0 < (paras[j]).length,
          (((paras[j])[0]).drop 2).take defs[j].1.length = defs[j].1 ∧
          ((paras[j]).map (List.drop (T + 6))).flatMap (words (toks cx)) = units (toks cx) W defn ∧
          (HyOK (toks cx) W defn →
            dehyphen (toks cx) W ((paras[j]).map (List.drop (T + 6))) = words (toks cx) defn) ∧
          (words (toks cx) defn = [] → (paras[j]).length = 1) :=
  C15_model_no_loss_m cx htriv hsp hhy ed pos defs width o hne

end RosedVerif.Props
