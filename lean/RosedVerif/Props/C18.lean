/-
C18 — Every public operation is total: no panics, terminates, valid UTF-8 out.
In the model Go panics are `Except.error` values and every loop is structural or carries fuel, so
"returns normally" is `∃ r, op … = .ok r`; termination of the model functions is accepted by Lean's
termination checker (fuel exhaustion would be the error `.fuel`, excluded by these theorems); a
result is a list of code points, i.e. valid UTF-8, and sub-editor byte offsets are proved to lie on
code-point boundaries (`CutAtAtoms`).  Instance A: real segmentation (`cxA_Sane` from the finite-state
theory).
-/
import RosedVerif.Model.InstAFacts
import RosedVerif.Model.LinesLemmas
import RosedVerif.Model.Totality2
import RosedVerif.Model.WrapFits
namespace RosedVerif.Props
open RosedVerif

theorem C18_collapseSpace (text sep : List Int) : ∃ r, collapseSpace cxA text sep = .ok r :=
  collapseSpace_total cxA_Sane text sep
theorem C18_wrapLines (text : List Int) (w : Int) (sep : List Int) : ∃ r, wrapLines cxA text w sep = .ok r :=
  wrapLines_total cxA_Sane text w sep
theorem C18_justifyLine (text : List Int) (w : Int) : ∃ r, justifyLine cxA text w = .ok r :=
  justifyLine_total cxA_Sane text w
theorem C18_combineColumns (l r : List (List Int)) (gap : Int) (hg : 0 ≤ gap) :
    ∃ x, combineColumns cxA l r gap = .ok x := combineColumns_total cxA l r gap hg

theorem C18_chars (ed : Editor Int) (s e : Int) : ∃ r, ed.chars cxA s e = .ok r ∧ ed.CutAtAtoms cxA r :=
  chars_total' cxA_Sane ed s e
theorem C18_lines (ed : Editor Int) (s e : Int) : ∃ r, ed.linesSel cxA s e = .ok r ∧ ed.CutAtAtoms cxA r :=
  linesSel_total' cxA_Sane ed s e
theorem C18_commit (ed r : Editor Int) (h : ed.CutAtAtoms cxA r) (t : List Int) (o : Options Int) :
    ∃ r', ((r.withText t).withOpts o).commit cxA = .ok r' := commit_total_of_cut cxA_Sane ed r h t o
theorem C18_insert (ed : Editor Int) (p : Int) (t : List Int) : ∃ r, ed.insert cxA p t = .ok r :=
  insert_total cxA_Sane ed p t
theorem C18_delete (ed : Editor Int) (s e : Int) : ∃ r, ed.delete cxA s e = .ok r := delete_total cxA_Sane ed s e
theorem C18_overtype (ed : Editor Int) (p : Int) (t : List Int) : ∃ r, ed.overtype cxA p t = .ok r :=
  overtype_total cxA_Sane ed p t
theorem C18_collapseSpaceOpts (ed : Editor Int) (o : Options Int) : ∃ r, ed.collapseSpaceOpts cxA o = .ok r :=
  collapseSpaceOpts_total cxA_Sane ed o
theorem C18_insertTable (ed : Editor Int) (p : Int) (d : List (List (List Int))) (w : Int) (o : Options Int) :
    ∃ r, ed.insertTableOpts cxA p d w o = .ok r := insertTableOpts_total cxA_Sane ed p d w o
theorem C18_apply (ed : Editor Int) (f : Nat → List Int → List (List Int)) (o : Options Int) :
    ∃ r, ed.applyOpts cxA f o = .ok r := ⟨_, applyOpts_eq_spec cxA ed f o⟩

/-! the public layout operations, every argument tuple, every option combination -/
theorem C18_wrapOpts (ed : Editor Int) (w : Int) (o : Options Int) : ∃ r, ed.wrapOpts cxA w o = .ok r :=
  wrapOpts_total cxA_Sane ed w o
theorem C18_justifyOpts (ed : Editor Int) (w : Int) (o : Options Int) : ∃ r, ed.justifyOpts cxA w o = .ok r :=
  justifyOpts_total cxA_Sane ed w o
/-- AlignOpts, paragraph mode included (where the unrepaired code panicked on an empty paragraph) -/
theorem C18_alignOpts (ed : Editor Int) (al w : Int) (o : Options Int) : ∃ r, ed.alignOpts cxA al w o = .ok r :=
  alignOpts_total ed al w o
theorem C18_indentOpts (ed : Editor Int) (lv : Int) (o : Options Int) : ∃ r, ed.indentOpts cxA lv o = .ok r :=
  indentOpts_total ed lv o
theorem C18_insertDefTable (ed : Editor Int) (p : Int) (d : List (List Int × List Int)) (w : Int)
    (o : Options Int) : ∃ r, ed.insertDefTableOpts cxA p d w o = .ok r :=
  insertDefTableOpts_total cxA_Sane ed p d w o
theorem C18_applyParas (ed : Editor Int) (op : Nat → List Int → List Int → List Int → R (List (List Int)))
    (o : Options Int) (hop : ∀ i p a b, ∃ r, op i p a b = .ok r) : ∃ r, ed.applyParasM cxA op o = .ok r :=
  applyParasM_total ed op o hop

/-- String / CommitAll on sub-editors of any nesting depth obtained by Chars* / Lines* (and edited
in between): every link of the parent chain is cut on code-point boundaries (`WellCut`) -/
theorem C18_string (ed : Editor Int) (h : ed.WellCut cxA) : ∃ s, ed.string cxA = .ok s := string_total cxA_Sane h
theorem C18_chars_wellCut {ed r : Editor Int} (h : ed.WellCut cxA) (s e : Int) (hr : ed.chars cxA s e = .ok r) :
    r.WellCut cxA := chars_wellCut cxA_Sane h s e hr
theorem C18_lines_wellCut {ed r : Editor Int} (h : ed.WellCut cxA) (s e : Int) (hr : ed.linesSel cxA s e = .ok r) :
    r.WellCut cxA := linesSel_wellCut cxA_Sane h s e hr

/-- the explicit panic of InsertTwoColumnsOpts is unreachable for EVERY percentage, width and gap
(both columns are at least 2 wide); the only other failure the model admits is a negative
`strings.Repeat` count, excluded when wrapped lines fit their width -/
theorem C18_twoColumns_no_explicit_panic (ed : Editor Int) (p : Int) (l r : List Int) (g w : Int) (pct : Pct)
    (o : Options Int) : ed.insertTwoColumnsOpts cxA p l r g w pct o ≠ .error .explicit :=
  insertTwoColumnsOpts_ne_explicit cxA_Sane ed p l r g w pct o

theorem C18_twoColumns_partial (ed : Editor Int) (p : Int) (l r : List Int) (g w : Int) (pct : Pct)
    (o : Options Int) :
    (∃ x, ed.insertTwoColumnsOpts cxA p l r g w pct o = .ok x) ∨
      ed.insertTwoColumnsOpts cxA p l r g w pct o = .error .repeatNeg :=
  insertTwoColumnsOpts_ok_or cxA_Sane ed p l r g w pct o

/-- InsertTwoColumnsOpts is total on arbitrary code-point texts for EVERY minimum distance (a negative
one is taken as 0 — before repair D17 it panicked with a negative `strings.Repeat` count, and this
theorem was provable only under `0 ≤ g`), every width, every percentage, every position, every
option combination -/
theorem C18_twoColumns (ed : Editor Int) (p : Int) (l r : List Int) (g w : Int) (pct : Pct) (o : Options Int) :
    ∃ x, ed.insertTwoColumnsOpts cxA p l r g w pct o = .ok x :=
  insertTwoColumnsOpts_total_A_any ed p l r g w pct o

/-- at cluster level (one token per cluster) two-column layout is total outright -/
theorem C18_twoColumns_clusters {α : Type} [DecidableEq α] (cx : Ctx α)
    (htriv : ∀ s, cx.ends s = List.range' 1 s.length) (hb : ∀ a, 0 < cx.blen a) (ed : Editor α) (p : Int)
    (l r : List α) (g w : Int) (pct : Pct) (o : Options α) (hg : 0 ≤ g) :
    ∃ x, ed.insertTwoColumnsOpts cx p l r g w pct o = .ok x :=
  insertTwoColumnsOpts_total_triv cx htriv hb ed p l r g w pct o hg

/-! ### D20: a negative width pads nothing, exactly like 0

Before repair D20 `AlignLineLeft/Right/Center` and `MakeTable` computed `width - len` on the raw
width; in Go's 64-bit `int` that difference wraps around to a huge positive number for a width within
`len` of `math.MinInt`, and `gem.RepeatStr` / the distribution loop ran practically for ever.  The
repaired functions (and the model, `Model/Manip.lean`, `Model/Table.lean`) clamp a negative width to 0
first, so that every subtraction is `w' - len` with `0 ≤ w'` and `0 ≤ len`, which cannot leave the
`int` range; the theorems below say that the clamp changes no result (`…Core_clamp`: the unclamped
ideal-integer functions agree with the clamped ones), i.e. every negative width behaves as 0. -/

theorem C18_align_negative_width_is_zero {α : Type} (cx : Ctx α) (t : List α) (w : Int) (hw : w < 0) :
    alignLeft cx t w = alignLeft cx t 0 ∧ alignRight cx t w = alignRight cx t 0 ∧
      alignCenter cx t w = alignCenter cx t 0 := by
  unfold alignLeft alignRight alignCenter
  rw [if_pos hw, if_neg (by decide)]
  exact ⟨rfl, rfl, rfl⟩

theorem C18_makeTable_negative_width_is_zero {α : Type} (cx : Ctx α) (d : List (List (List α))) (w : Int)
    (hdr brd : Bool) (cs : List α) (hw : w < 0) :
    makeTable cx d w hdr brd cs = makeTable cx d 0 hdr brd cs := by
  unfold makeTable
  rw [if_pos hw, if_neg (by decide)]

/-- D21, the same for InsertDefinitionsTableOpts (`width - leftWidth - minBetween` wrapped around
and the definitions were not wrapped at all): every negative width behaves as 0 … -/
theorem C18_defTable_negative_width_is_zero {α : Type} [DecidableEq α] (cx : Ctx α) (ed : Editor α) (p : Int)
    (defs : List (List α × List α)) (w : Int) (o : Options α) (hw : w < 0) :
    ed.insertDefTableOpts cx p defs w o = ed.insertDefTableOpts cx p defs 0 o := by
  unfold Editor.insertDefTableOpts
  rw [if_pos hw, if_neg (by decide)]

/-- … and on ideal integers the unclamped function gives the same result (Wrap takes every width
below 2 as 2) -/
theorem C18_defTable_clamp_conservative {α : Type} [DecidableEq α] (cx : Ctx α) (ed : Editor α) (p : Int)
    (defs : List (List α × List α)) (w : Int) (o : Options α) :
    ed.insertDefTableOpts cx p defs w o = ed.insertDefTableOptsCore cx p defs w o :=
  Editor.insertDefTableOptsCore_clamp cx ed p defs w o

/-- the clamp is not a change of behaviour where nothing overflows: on ideal integers the unclamped
functions give the same results -/
theorem C18_align_clamp_conservative {α : Type} (cx : Ctx α) (t : List α) (w : Int) :
    alignLeft cx t w = alignLeftCore cx t w ∧ alignRight cx t w = alignRightCore cx t w ∧
      alignCenter cx t w = alignCenterCore cx t w :=
  ⟨alignLeftCore_clamp cx t w, alignRightCore_clamp cx t w, alignCenterCore_clamp cx t w⟩

theorem C18_makeTable_clamp_conservative {α : Type} (cx : Ctx α) (d : List (List (List α))) (w : Int)
    (hdr brd : Bool) (cs : List α) : makeTable cx d w hdr brd cs = makeTableCore cx d w hdr brd cs :=
  makeTableCore_clamp cx d w hdr brd cs

/-- "  one" aligned to the width `math.MinInt` (and `math.MinInt + 3`, the width at which the
unrepaired `width - len` wrapped around to `math.MaxInt`) -/
example : alignLeft cxA [0x20, 0x20, 0x6f, 0x6e, 0x65] (-9223372036854775808) = [0x6f, 0x6e, 0x65] ∧
    alignRight cxA [0x6f, 0x6e, 0x65, 0x20] (-9223372036854775806) = [0x6f, 0x6e, 0x65] ∧
    alignCenter cxA [0x20, 0x6f, 0x6e, 0x65, 0x20] (-9223372036854775805) = [0x6f, 0x6e, 0x65] := by decide
/-- the table of the D20 witness: [[a, b], [c, d]] at the width `math.MinInt` -/
example : makeTable cxA [[[0x61], [0x62]], [[0x63], [0x64]]] (-9223372036854775808) false false [] =
    [[0x61, 0x20, 0x20, 0x62], [0x63, 0x20, 0x20, 0x64]] := by decide

/-! non-vacuity: the inputs on which the unrepaired code panicked -/
example : ∃ r, (Editor.root ([] : List Int) {}).alignOpts cxA 1 8 { preservePara := true } = .ok r := ⟨_, rfl⟩

end RosedVerif.Props
