/-
C16 — Tables are rectangular with aligned columns.
(first instalment; rectangularity at cluster level follows in CompositeLemmas)
-/
import RosedVerif.Model.InstAFacts
namespace RosedVerif.Props
open RosedVerif

/-- empty data, or only empty rows, produce no table lines -/
theorem C16_empty {α : Type} [DecidableEq α] (cx : Ctx α) (w : Int) (h b : Bool) (cs : List α) :
    makeTable cx [] w h b cs = [] ∧ makeTable cx [[], []] w h b cs = [] := by
  constructor <;> simp [makeTable]

/-- InsertTable is total on arbitrary code-point data -/
theorem C16_total (ed : Editor Int) (p : Int) (d : List (List (List Int))) (w : Int) (o : Options Int) :
    ∃ r, ed.insertTableOpts cxA p d w o = .ok r := insertTableOpts_total cxA_Sane ed p d w o

end RosedVerif.Props
