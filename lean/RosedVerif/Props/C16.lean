/-
C16 — Tables are rectangular with aligned columns.   (cluster level: every atom is a cluster)
The model of manip.MakeTable / buildTable (width arithmetic, per/rem distribution, border and header
bars, AlignLineLeft / AlignLineCenter per cell) is proved rectangular for ALL ragged data, all integer
widths, borders × headers, any three-token character set — no hypothesis on whitespace in cells.
-/
import RosedVerif.Model.InstAFacts
import RosedVerif.Model.CompositeLemmas
import RosedVerif.Model.BridgeComposite
import RosedVerif.Model.TableShape
namespace RosedVerif.Props
open RosedVerif
variable {α : Type} [DecidableEq α] (cx : Ctx α)

/-- every output line has the same number of clusters: the requested width, or the minimum the
content needs when that is larger -/
theorem C16_rectangular (htriv : ∀ s, cx.ends s = List.range' 1 s.length)
    (data : List (List (List α))) (width : Int) (header border : Bool) (charSet : List α)
    (h3 : charSet.length = 3) :
    ∀ line ∈ makeTable cx data width header border charSet,
      (line.length : Int) = max width (tableMinWidth data border) :=
  makeTable_rect cx htriv data width header border charSet h3

/-- … also for the block InsertTableOpts actually inserts (the defaulted character set always has
three tokens at cluster level) -/
theorem C16_rectangular_op (htriv : ∀ s, cx.ends s = List.range' 1 s.length) (h3 : cx.dCharset.length = 3)
    (data : List (List (List α))) (width : Int) (o : Options α) :
    ∀ line ∈ makeTable cx data width (o.withDefaults cx).headers (o.withDefaults cx).borders
        (o.withDefaults cx).charset,
      (line.length : Int) = max width (tableMinWidth data o.borders) :=
  insertTableOpts_lines_rect cx htriv h3 data width o

/-- the minimum width the content needs (the model's own formula, in closed form) -/
theorem C16_min_width_border (data : List (List (List α))) :
    tableMinWidth data true =
      1 + sumTo (fun i => (colContent data i : Int) + 2 + 1) (tableColCount data) :=
  tableMinWidth_border data
theorem C16_min_width_noBorder (data : List (List (List α))) (hk : tableColCount data ≠ 0) :
    tableMinWidth data false =
      sumTo (fun i => (colContent data i : Int)) (tableColCount data) + 2 * ((tableColCount data : Int) - 1) :=
  tableMinWidth_noBorder data hk

/-- rows appear in order: data rows + 2 border lines + the header rule -/
theorem C16_line_count (data : List (List (List α))) (width : Int) (header border : Bool) (charSet : List α)
    (hd : data ≠ []) (hk : tableColCount data ≠ 0) :
    (makeTable cx data width header border charSet).length =
      data.length + (if border = true then 2 else 0) +
        (if header = true then (if border = true then (if data.length > 1 then 1 else 0) else 1) else 0) :=
  makeTable_length cx data width header border charSet hd hk

/-- empty data, or only empty rows, produce no output -/
theorem C16_empty (width : Int) (header border : Bool) (charSet : List α) :
    makeTable cx [] width header border charSet = [] := makeTable_nil cx width header border charSet
theorem C16_only_empty_rows (data : List (List (List α))) (width : Int) (header border : Bool)
    (charSet : List α) (h : ∀ r ∈ data, r = []) : makeTable cx data width header border charSet = [] :=
  makeTable_of_rows_empty cx data width header border charSet h

/-- InsertTable is total on arbitrary code-point data -/
theorem C16_total (ed : Editor Int) (p : Int) (d : List (List (List Int))) (w : Int) (o : Options Int) :
    ∃ r, ed.insertTableOpts cxA p d w o = .ok r := insertTableOpts_total cxA_Sane ed p d w o

/-- **bridge to code points**: on a stable vocabulary (closed under upper-casing when headers are on — necessary: U+0345 upper-cases out of its cluster, `BridgeComposite.hup_needed`) the model of InsertTableOpts run on CODE POINTS with the real segmentation returns the flattening of the cluster-level table, and every line has exactly max(W, minimum width) REAL grapheme clusters: the table is rectangular -/
theorem C16_code_points {V : List (List Int)} (hV : VocabStable V = true)
    (hsp : [0x20] ∈ V)
    (toks : List (List Int))
    (ht : ∀ t ∈ toks, t ∈ V)
    (o0 : Options (List Int))
    (pos : Int)
    (data : List (List (List (List Int))))
    (hdata : ∀ row ∈ data, ∀ cell ∈ row, ∀ t ∈ cell, t ∈ V)
    (width : Int)
    (o : Options (List Int))
    (hL : ∀ t ∈ (o.withDefaults cxB).lineSep, t ≠ [])
    (hc : ∀ t ∈ o.charset, t ∈ V)
    (hcd : ∀ t ∈ (o.withDefaults cxB).charset, t ∈ V)
    (hup : o.headers = true → ∀ t ∈ V, t.map upperRune ∈ V) :
    ∃ ls : List (List (List Int)),
      ls = makeTable cxB data width (o.withDefaults cxB).headers (o.withDefaults cxB).borders
        (o.withDefaults cxB).charset ∧
      Editor.insertTableOpts cxA (.root toks.flatten o0.flat) pos
          (data.map (List.map List.flatten)) width o.flat =
        .ok (.root (toks.take (Spec.normPos toks.length pos).toNat ++
          (if (!(o.withDefaults cxB).noTrailing) = true ∧
              (!(Block.mk ls (o.withDefaults cxB).lineSep false).join.isEmpty) = true then
            (Block.mk ls (o.withDefaults cxB).lineSep false).join ++ (o.withDefaults cxB).lineSep
          else (Block.mk ls (o.withDefaults cxB).lineSep false).join) ++
          toks.drop (Spec.normPos toks.length pos).toNat).flatten o0.flat) ∧
      ∀ line ∈ ls, clusters cxA line.flatten = line ∧
        (gLen cxA line.flatten : Int) = max width (tableMinWidth data o.borders) :=
  insertTableOpts_bridge_C16 hV hsp toks ht o0 pos data hdata width o hL hc hcd hup

/-- **the shape of the table** at cluster level, for ALL ragged data, widths, headers × borders and any character set: `MakeTableShape` (Model/TableShape.lean, 25 documented fields) — rows in input order at line `rowLine`; every row is its column segments, segment k exactly `colW k` long and starting at the same offset `colOffset k` in every row; a body cell is its left-stripped text (after one space with borders) padded with spaces, a header cell the UPPER-CASED text (centred with borders), a missing cell all spaces; the non-whitespace tokens of a segment are exactly its cell's; the header is followed by a rule (`h`^width without borders, the bar with borders when there is a body); with borders the first and last lines are the bar `c h^{w0} c h^{w1} c …` with corners exactly at the column boundaries, every row starts with `v` and has `v` after every segment; without borders and headers the character set is not used at all -/
theorem C16_shape {α : Type} [DecidableEq α] (cx : Ctx α) (htriv : ∀ s, cx.ends s = List.range' 1 s.length)
    (h3 : 3 ≤ cx.dCharset.length)
    (data : List (List (List α)))
    (width : Int)
    (header border : Bool)
    (charSet : List α)
    (hd : data ≠ [])
    (hk : tableColCount data ≠ 0) :
    ∃ c v h, parseTableCharSet cx charSet = ⟨[c], [v], [h]⟩ ∧
      makeTable cx data width header border charSet =
        makeTable cx data width header border [c, v, h] ∧
      MakeTableShape cx data width header border c v h :=
  makeTable_shape_charSet cx htriv h3 data width header border charSet hd hk

/-- … and the block InsertTableOpts inserts is that table (defaulted three-token character set), joined by the line separator with the trailing-separator policy -/
theorem C16_shape_op {α : Type} [DecidableEq α] (cx : Ctx α) (htriv : ∀ s, cx.ends s = List.range' 1 s.length)
    (h3 : cx.dCharset.length = 3)
    (ed : Editor α)
    (pos : Int)
    (data : List (List (List α)))
    (width : Int)
    (o : Options α)
    (hd : data ≠ [])
    (hk : tableColCount data ≠ 0) :
    ∃ c v h ls, (o.withDefaults cx).charset = [c, v, h] ∧
      ls = makeTable cx data width o.headers o.borders [c, v, h] ∧
      MakeTableShape cx data width o.headers o.borders c v h ∧
      ed.insertTableOpts cx pos data width o =
        ed.insert cx pos
          (if (!(o.withDefaults cx).noTrailing) = true ∧
              (!(Block.mk ls (o.withDefaults cx).lineSep false).join.isEmpty) = true then
            (Block.mk ls (o.withDefaults cx).lineSep false).join ++ (o.withDefaults cx).lineSep
          else (Block.mk ls (o.withDefaults cx).lineSep false).join) :=
  insertTableOpts_tableShape cx htriv h3 ed pos data width o hd hk

end RosedVerif.Props
