/-
C05 — Committing a sub-editor rewrites exactly the selected region.
-/
import RosedVerif.Model.InstAFacts
import RosedVerif.Model.LinesLemmas
namespace RosedVerif.Props
open RosedVerif

/-- Commit of a sub-editor cut at atoms [i, j) of its parent replaces exactly that region with the
sub-editor's CURRENT text `t`, whatever it has become: everything before and after is unchanged and
in place (hence valid UTF-8 out whenever the inputs are) -/
theorem C05_commit (t : List Int) (o : Options Int) (parent : Editor Int) (i j : Nat)
    (hij : i ≤ j) (hj : j ≤ parent.text.length) :
    (Editor.sub t o parent (byteLen cxA (parent.text.take i)) (byteLen cxA (parent.text.take j))).commit cxA =
      .ok (parent.withText (parent.text.take i ++ t ++ parent.text.drop j)) :=
  Editor.commit_sub utf8Len_pos t o parent i j hij hj

/-- committing a root Editor is the identity -/
theorem C05_commit_root (t : List Int) (o : Options Int) :
    (Editor.root t o).commit cxA = .ok (Editor.root t o) := rfl

/-- character selection followed by ANY change of the selection's text and Commit: the parent's text
with exactly the selected clusters replaced — for all positions, including empty selections at or
beyond the end -/
theorem C05_chars_commit (ed : Editor Int) (s e : Int) (t' : List Int) :
    ∃ sub, ed.chars cxA s e = .ok sub ∧
      (sub.withText t').commit cxA =
        .ok (ed.withText ((Spec.selectClusters cxA ed.text s e).1 ++ t' ++
          (Spec.selectClusters cxA ed.text s e).2.2)) :=
  Editor.chars_commit cxA_WF ed s e t'

/-- every sub-editor produced by Chars or Lines is cut at atom (hence UTF-8 and, for Chars, cluster)
boundaries of its parent, and committing it with any text and options is total -/
theorem C05_chars_cut (ed : Editor Int) (s e : Int) :
    ∃ r, ed.chars cxA s e = .ok r ∧ ed.CutAtAtoms cxA r := chars_total' cxA_Sane ed s e

theorem C05_lines_cut (ed : Editor Int) (s e : Int) :
    ∃ r, ed.linesSel cxA s e = .ok r ∧ ed.CutAtAtoms cxA r := linesSel_total' cxA_Sane ed s e

theorem C05_commit_total (ed r : Editor Int) (h : ed.CutAtAtoms cxA r) (t' : List Int) (o' : Options Int) :
    ∃ r', ((r.withText t').withOpts o').commit cxA = .ok r' := commit_total_of_cut cxA_Sane ed r h t' o'

/-- an unedited selection commits back to the original text -/
theorem C05_unedited (ed : Editor Int) (s e : Int) :
    ∃ sub, ed.chars cxA s e = .ok sub ∧ sub.commit cxA = .ok ed := by
  obtain ⟨sub, h1, h2⟩ := Editor.chars_commit cxA_WF ed s e (Spec.selectClusters cxA ed.text s e).2.1
  refine ⟨sub, h1, ?_⟩
  have hsub : sub.withText (Spec.selectClusters cxA ed.text s e).2.1 = sub := by
    rw [Editor.chars_eq_spec cxA_WF ed s e] at h1
    cases h1; rfl
  rw [hsub, selectClusters_concat cxA_WF] at h2
  rw [h2]
  cases ed <;> rfl

end RosedVerif.Props
