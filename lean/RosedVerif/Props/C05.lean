/-
C05 — Committing a sub-editor rewrites exactly the selected region.
-/
import RosedVerif.Model.InstAFacts
import RosedVerif.Model.LinesLemmas
import RosedVerif.Model.EditorHistories
namespace RosedVerif.Props
open RosedVerif

/-- Commit of a sub-editor cut at atoms [i, j) of its parent replaces exactly that region with the
sub-editor's CURRENT text `t`, whatever it has become: everything before and after is unchanged and
in place (hence valid UTF-8 out whenever the inputs are) -/
theorem C05_commit (t : List Int) (o : Options Int) (parent : Editor Int) (i j : Nat)
    (hij : i ≤ j) (hj : j ≤ parent.text.length) :
    (Editor.sub t o parent (byteLen cxA (parent.text.take i)) (byteLen cxA (parent.text.take j))).commit cxA =
      .ok (parent.withText (parent.text.take i ++ t ++ parent.text.drop j)) :=
  Editor.commit_sub utf8Len_pos t o parent i j hij hj

/-- committing a root Editor is the identity -/
theorem C05_commit_root (t : List Int) (o : Options Int) :
    (Editor.root t o).commit cxA = .ok (Editor.root t o) := rfl

/-- character selection followed by ANY change of the selection's text and Commit: the parent's text
with exactly the selected clusters replaced — for all positions, including empty selections at or
beyond the end -/
theorem C05_chars_commit (ed : Editor Int) (s e : Int) (t' : List Int) :
    ∃ sub, ed.chars cxA s e = .ok sub ∧
      (sub.withText t').commit cxA =
        .ok (ed.withText ((Spec.selectClusters cxA ed.text s e).1 ++ t' ++
          (Spec.selectClusters cxA ed.text s e).2.2)) :=
  Editor.chars_commit cxA_WF ed s e t'

/-- every sub-editor produced by Chars or Lines is cut at atom (hence UTF-8 and, for Chars, cluster)
boundaries of its parent, and committing it with any text and options is total -/
theorem C05_chars_cut (ed : Editor Int) (s e : Int) :
    ∃ r, ed.chars cxA s e = .ok r ∧ ed.CutAtAtoms cxA r := chars_total' cxA_Sane ed s e

theorem C05_lines_cut (ed : Editor Int) (s e : Int) :
    ∃ r, ed.linesSel cxA s e = .ok r ∧ ed.CutAtAtoms cxA r := linesSel_total' cxA_Sane ed s e

theorem C05_commit_total (ed r : Editor Int) (h : ed.CutAtAtoms cxA r) (t' : List Int) (o' : Options Int) :
    ∃ r', ((r.withText t').withOpts o').commit cxA = .ok r' := commit_total_of_cut cxA_Sane ed r h t' o'

/-- an unedited selection commits back to the original text -/
theorem C05_unedited (ed : Editor Int) (s e : Int) :
    ∃ sub, ed.chars cxA s e = .ok sub ∧ sub.commit cxA = .ok ed := by
  obtain ⟨sub, h1, h2⟩ := Editor.chars_commit cxA_WF ed s e (Spec.selectClusters cxA ed.text s e).2.1
  refine ⟨sub, h1, ?_⟩
  have hsub : sub.withText (Spec.selectClusters cxA ed.text s e).2.1 = sub := by
    rw [Editor.chars_eq_spec cxA_WF ed s e] at h1
    cases h1; rfl
  rw [hsub, selectClusters_concat cxA_WF] at h2
  rw [h2]
  cases ed <;> rfl

end RosedVerif.Props

namespace RosedVerif.Props
open RosedVerif

/-- `String()` / `CommitAll()` on a well-cut Editor at ANY nesting depth equal committing through all
ancestors (`Editor.fullText`); `CommitAll` returns the root carrying the ROOT's options -/
theorem C05_string_all_ancestors (ed : Editor Int) (h : ed.WellCut cxA) :
    ed.string cxA = .ok (ed.fullText cxA) ∧
      ed.commitAll cxA = .ok (.root (ed.fullText cxA) ed.rootOpts) :=
  ⟨string_eq_fullText cxA_Sane h, commitAll_eq_fullText cxA_Sane h⟩

/-- without any hypothesis: whenever `String()` returns, it returns `fullText` -/
theorem C05_string_only_fullText (ed : Editor Int) (s : List Int) (h : ed.string cxA = .ok s) :
    s = ed.fullText cxA := string_ok_eq_fullText h

/-- the defining equation of `fullText`: the parent's, with bytes `[a, b)` replaced -/
theorem C05_fullText_sub (t : List Int) (o : Options Int) (p : Editor Int) (i j : Nat) :
    (Editor.sub t o p (byteOff cxA p.text i : Nat) (byteOff cxA p.text j : Nat)).fullText cxA =
      (p.withText (p.text.take i ++ t ++ p.text.drop j)).fullText cxA :=
  Editor.fullText_sub_byteOff cxA_Sane t o p i j

/-- nested regions: whatever text and options a well-cut sub-editor has acquired, `String()` returns
normally (no `Err.invalidUtf8`, no panic) and the result is that text between surroundings that do
not depend on it — every byte of every ancestor outside the selected regions is unchanged and in
place -/
theorem C05_nested_regions (ed : Editor Int) (h : ed.WellCut cxA) :
    ∃ pre suf : List Int, ∀ (t' : List Int) (o' : Options Int),
      ((ed.withText t').withOpts o').string cxA = .ok (pre ++ t' ++ suf) :=
  string_region cxA_Sane h

/-- … with the surroundings named: `outerPre`/`outerSuf` are functions of the ancestor chain only -/
theorem C05_nested_regions_explicit (ed : Editor Int) (h : ed.WellCut cxA) (t' : List Int) :
    (ed.withText t').fullText cxA = ed.outerPre cxA ++ t' ++ ed.outerSuf cxA :=
  fullText_nested cxA_Sane h t'

/-- an unedited selection (`Chars*`, `Lines*`; all positions; receiver at any depth, well-cut or
not) commits to the very Editor it was cut from and converts back to the same text -/
theorem C05_unedited_any_depth (ed r : Editor Int) (h : ed.Selects cxA r) :
    r.commit cxA = .ok ed ∧ r.fullText cxA = ed.fullText cxA ∧ r.string cxA = ed.string cxA :=
  ⟨h.commit_eq, h.fullText_eq, h.string_eq⟩

/-- … through any number of nested selections -/
theorem C05_unedited_nested (ed r : Editor Int) (h : Editor.SelectsStar cxA ed r) :
    r.fullText cxA = ed.fullText cxA ∧ r.string cxA = ed.string cxA := h.fullText_eq

/-- after ANY program over the public operations every Editor in the pool is well-cut, so `String()`
is total on it and equals committing through all ancestors -/
theorem C05_reachable_wellcut (ops : List (EdOp Int)) :
    ∀ ed ∈ runEd cxA ops, ed.WellCut cxA ∧ ed.string cxA = .ok (ed.fullText cxA) :=
  fun ed h => ⟨runEd_wellCut cxA_Sane ops ed h, (runEd_string cxA_Sane ops ed h).1⟩

/-- every reachable sub-editor, whatever has been done to it, commits into exactly its region
`[i, j)`, `i ≤ j ≤ length`, of the stored parent -/
theorem C05_reachable_commit_region (ops : List (EdOp Int)) (t : List Int) (o : Options Int)
    (p : Editor Int) (a b : Int) (h : Editor.sub t o p a b ∈ runEd cxA ops) :
    ∃ i j : Nat, i ≤ j ∧ j ≤ p.text.length ∧ a = (byteOff cxA p.text i : Nat) ∧
      b = (byteOff cxA p.text j : Nat) ∧
      ∀ (t' : List Int) (o' : Options Int),
        (Editor.sub t' o' p a b).commit cxA =
          .ok (p.withText (p.text.take i ++ t' ++ p.text.drop j)) :=
  runEd_commit_region cxA_Sane ops t o p a b h

end RosedVerif.Props
