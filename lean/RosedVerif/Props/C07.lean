/-
C07 — Whitespace operations never lose, invent or reorder text.   (layer B: one token per cluster)
For every token type: the sequence of non-whitespace tokens is preserved by collapse, align and
justify, and by wrap up to the continuation hyphens (whose positions are given by `pieces`).
Known findings outside the cluster-level domain (DESIGN.md section 8): D9 (text that is not
WsStable), D4r (paragraph mode with visible separator affixes and an over-long neighbouring word).
-/
import RosedVerif.Spec.AlignLemmas
import RosedVerif.Spec.WrapLemmas
import RosedVerif.Model.JustifyLemmas
import RosedVerif.Model.BridgeWrap
import RosedVerif.Model.BridgeOps
import RosedVerif.Model.BridgeEditorOps
import RosedVerif.Model.BridgeEditorParas
import RosedVerif.Model.NoLossModel
namespace RosedVerif.Props
open RosedVerif RosedVerif.Spec
variable {α : Type} (tk : Toks α)

/-- CollapseSpace: non-whitespace tokens unchanged and in order … -/
theorem C07_collapse (hsp : tk.ws tk.sp = true) (l : List α) :
    (collapse tk l).filter (fun c => !tk.ws c) = l.filter (fun c => !tk.ws c) := collapse_nonws tk hsp l
/-- … single spaces are the only whitespace left, never two adjacent, and it is idempotent -/
theorem C07_collapse_only_space (l : List α) : ∀ c ∈ collapse tk l, tk.ws c = true → c = tk.sp :=
  collapse_only_sp' tk l
theorem C07_collapse_no_double (l : List α) :
    ∀ (i : Nat) (h : i + 1 < (collapse tk l).length),
      ¬(tk.ws (collapse tk l)[i] = true ∧ tk.ws (collapse tk l)[i + 1] = true) := collapse_no_double tk l
theorem C07_collapse_idempotent (l : List α) : collapse tk (collapse tk l) = collapse tk l := collapse_idem' tk l

/-- Align (all three kinds) -/
theorem C07_align (hsp : tk.ws tk.sp = true) (w : Int) (l : List α) :
    (Spec.alignLeft tk w l).filter (fun c => !tk.ws c) = l.filter (fun c => !tk.ws c) ∧
    (Spec.alignRight tk w l).filter (fun c => !tk.ws c) = l.filter (fun c => !tk.ws c) ∧
    (Spec.alignCenter tk w l).filter (fun c => !tk.ws c) = l.filter (fun c => !tk.ws c) :=
  ⟨alignLeft_nonws tk hsp w l, alignRight_nonws tk hsp w l, alignCenter_nonws tk hsp w l⟩

/-- Wrap: the words of the text are exactly its non-whitespace tokens in order; the lines partition
the units; a unit is a word or a piece of an over-long word, and removing the continuation hyphens
(the last token of every non-final piece) gives back the word: nothing is lost, invented or reordered -/
theorem C07_wrap_words (l : List α) : (words tk l).flatten = l.filter (fun c => !tk.ws c) := words_flatten tk l
theorem C07_wrap_units {w : Nat} (hw : 2 ≤ w) (l : List α) (h : l ≠ []) :
    ∃ groups : List (List (List α)), groups.flatten = units tk w l ∧
      Spec.wrapLines tk w l = groups.map (joinSp tk) := by
  obtain ⟨g, h1, _, h3, _⟩ := wrapLines_partition tk hw l h
  exact ⟨g, h1, h3⟩
theorem C07_wrap_unhyphen (w : Nat) (word : List α) (f : Nat) : unhyphen (pieces tk w f word) = word :=
  pieces_unhyphen' tk w word f

/-- Justify: the justified line is the words interleaved with runs of spaces — removing the spaces
gives back the words -/
theorem C07_justify [DecidableEq α] (cx : Ctx α) (ws : List (List α)) (extra : List Nat)
    (h : ∀ w ∈ ws, cx.sp ∉ w) : (interleave cx ws extra).filter (fun a => a != cx.sp) = ws.flatten :=
  interleave_words cx ws extra h

/-- **bridge to code points**: on a stable vocabulary (see `C06_code_points`) the model of
CollapseSpace run on CODE POINTS with the real segmentation returns the flattening of the
specification's result on clusters; segmenting that output gives those clusters back, and its
non-whitespace clusters are exactly the input's, in order. -/
theorem C07_collapse_code_points {V : List (List Int)} (hV : VocabStable V = true)
    (hsp : [0x20] ∈ V) (hspTail : ∀ t ∈ V, (0x20 : Int) ∉ t.tail)
    (toks : List (List Int)) (ht : ∀ t ∈ toks, t ∈ V) :
    ∃ out, collapseSpace cxA toks.flatten [] = .ok out ∧
      clusters cxA out = Spec.collapse ⟨cxB.isSpace, cxB.sp, cxB.hy⟩ toks ∧
      (clusters cxA out).filter (fun c => !cxB.isSpace c) = toks.filter (fun c => !cxB.isSpace c) := by
  obtain ⟨r, _, h2, h3, h4, _⟩ := BridgeWrap.collapseSpace_bridge_full hV hsp hspTail toks ht
  have hc : clusters cxA r.flatten = r := clusters_flatten_stable r (stableRunes_of_vocab V hV r h4)
  refine ⟨r.flatten, h2, ?_, ?_⟩
  · rw [hc, h3]
  · rw [hc, h3]
    exact collapse_nonws ⟨cxB.isSpace, cxB.sp, cxB.hy⟩ BridgeWrap.cxB_sp_space toks

/-- the public operation CollapseSpaceOpts on code points, any options, any editor (sub-editors
included): the code-point run of the model is the flattening of the cluster run (`GoodSep`: the line
separator cannot be found across cluster boundaries — see `C06_wrapOpts_code_points`). -/
theorem C07_collapseSpaceOpts_code_points {V : List (List Int)} (hV : VocabStable V = true)
    (hsp : [0x20] ∈ V) (hspTail : ∀ t ∈ V, (0x20 : Int) ∉ t.tail)
    (ed : Editor (List Int)) (ht : ∀ t ∈ ed.text, t ∈ V) (o' : Options (List Int))
    (hS : BridgeOps.GoodSep V (o'.withDefaults cxB).lineSep) :
    Editor.collapseSpaceOpts cxA ed.flat o'.flat = (Editor.collapseSpaceOpts cxB ed o').map Editor.flat :=
  BridgeOps.collapseSpaceOpts_bridge_good hV hsp hspTail ed ht o' hS

open RosedVerif.BridgeOps RosedVerif.BridgeEditorOps RosedVerif.BridgeEditorParas RosedVerif.OpsStructure

/-- the PUBLIC operation IndentOpts on code points, any editor, any level: flattening of the cluster run (indent tokens non-empty: necessary, `BridgeEditorOps.indentOpts_needs_ne`) -/
theorem C07_indentOpts_code_points {V : List (List Int)} (hV : VocabStable V = true)
    (ed : Editor (List Int))
    (ht : ∀ t ∈ ed.text, t ∈ V)
    (level : Int)
    (o : Options (List Int))
    (hpp : o.preservePara = false)
    (hS : GoodSep V (o.withDefaults cxB).lineSep)
    (hi : ∀ t ∈ o.indentStr, t ≠ []) :
    Editor.indentOpts cxA ed.flat level o.flat =
      (Editor.indentOpts cxB ed level o).map Editor.flat :=
  indentOpts_bridge hV ed ht level o hpp hS hi

open RosedVerif.NoLossModel

/-- **Wrap loses no text** (exact form): splitting the output lines at whitespace gives, in order, the pieces of the input's words; un-hyphenating the pieces of each word gives the word back; every non-final piece is exactly `w` tokens ending in the hyphen -/
theorem C07_wrap_no_loss {α : Type} (tk : Spec.Toks α) {w : Nat}
    (hw : 2 ≤ w)
    (hsp : tk.ws tk.sp = true)
    (hhy : tk.ws tk.hy = false)
    (l : List α) :
    ∃ pss : List (List (List α)),
      (Spec.wrapLines tk w l).flatMap (words tk) = pss.flatten ∧
      pss.map unhyphen = words tk l ∧
      (∀ ps ∈ pss, ps ≠ [] ∧ ∀ p ∈ ps.dropLast, p.length = w ∧ p.getLast? = some tk.hy) ∧
      (l ≠ [] → ∃ groups : List (List (List α)), groups.flatten = pss.flatten ∧
        (∀ g ∈ groups, g ≠ []) ∧ Spec.wrapLines tk w l = groups.map (joinSp tk)) :=
  C07_wrap_no_loss_m tk hw hsp hhy l

/-- … as a function of the output alone: `dehyphen` (split at whitespace, glue every run of exactly `w` tokens ending in the hyphen to the next) recovers the input's word list, provided no word of exactly `w` tokens ends in a hyphen (`HyOK` — necessary: `NoLoss.dehyphen_impossible`, two different texts with the same wrap) -/
theorem C07_wrap_dehyphen {α : Type} (tk : Spec.Toks α) [DecidableEq α]
    {w : Nat}
    (hw : 2 ≤ w)
    (hsp : tk.ws tk.sp = true)
    (hhy : tk.ws tk.hy = false)
    (l : List α)
    (h : HyOK tk w l) :
    dehyphen tk w (Spec.wrapLines tk w l) = words tk l :=
  C07_wrap_dehyphen_m tk hw hsp hhy l h

end RosedVerif.Props
