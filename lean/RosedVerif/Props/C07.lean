/-
C07 — Whitespace operations never lose, invent or reorder text.   (layer B: one token per cluster)
For every token type: the sequence of non-whitespace tokens is preserved by collapse, align and
justify, and by wrap up to the continuation hyphens (whose positions are given by `pieces`).
Known findings outside the cluster-level domain (DESIGN.md section 8): D9 (text that is not
WsStable), D4r (paragraph mode with visible separator affixes and an over-long neighbouring word).
-/
import RosedVerif.Spec.AlignLemmas
import RosedVerif.Spec.WrapLemmas
import RosedVerif.Model.JustifyLemmas
import RosedVerif.Model.BridgeWrap
import RosedVerif.Model.BridgeOps
import RosedVerif.Model.BridgeEditorOps
import RosedVerif.Model.BridgeEditorParas
import RosedVerif.Model.NoLossModel
import RosedVerif.Model.NoLossOps
import RosedVerif.Model.Placeholder
namespace RosedVerif.Props
open RosedVerif RosedVerif.Spec
variable {α : Type} (tk : Toks α)

/-- CollapseSpace: non-whitespace tokens unchanged and in order … -/
theorem C07_collapse (hsp : tk.ws tk.sp = true) (l : List α) :
    (collapse tk l).filter (fun c => !tk.ws c) = l.filter (fun c => !tk.ws c) := collapse_nonws tk hsp l
/-- … single spaces are the only whitespace left, never two adjacent, and it is idempotent -/
theorem C07_collapse_only_space (l : List α) : ∀ c ∈ collapse tk l, tk.ws c = true → c = tk.sp :=
  collapse_only_sp' tk l
theorem C07_collapse_no_double (l : List α) :
    ∀ (i : Nat) (h : i + 1 < (collapse tk l).length),
      ¬(tk.ws (collapse tk l)[i] = true ∧ tk.ws (collapse tk l)[i + 1] = true) := collapse_no_double tk l
theorem C07_collapse_idempotent (l : List α) : collapse tk (collapse tk l) = collapse tk l := collapse_idem' tk l

/-- Align (all three kinds) -/
theorem C07_align (hsp : tk.ws tk.sp = true) (w : Int) (l : List α) :
    (Spec.alignLeft tk w l).filter (fun c => !tk.ws c) = l.filter (fun c => !tk.ws c) ∧
    (Spec.alignRight tk w l).filter (fun c => !tk.ws c) = l.filter (fun c => !tk.ws c) ∧
    (Spec.alignCenter tk w l).filter (fun c => !tk.ws c) = l.filter (fun c => !tk.ws c) :=
  ⟨alignLeft_nonws tk hsp w l, alignRight_nonws tk hsp w l, alignCenter_nonws tk hsp w l⟩

/-- Wrap: the words of the text are exactly its non-whitespace tokens in order; the lines partition
the units; a unit is a word or a piece of an over-long word, and removing the continuation hyphens
(the last token of every non-final piece) gives back the word: nothing is lost, invented or reordered -/
theorem C07_wrap_words (l : List α) : (words tk l).flatten = l.filter (fun c => !tk.ws c) := words_flatten tk l
theorem C07_wrap_units {w : Nat} (hw : 2 ≤ w) (l : List α) (h : l ≠ []) :
    ∃ groups : List (List (List α)), groups.flatten = units tk w l ∧
      Spec.wrapLines tk w l = groups.map (joinSp tk) := by
  obtain ⟨g, h1, _, h3, _⟩ := wrapLines_partition tk hw l h
  exact ⟨g, h1, h3⟩
theorem C07_wrap_unhyphen (w : Nat) (word : List α) (f : Nat) : unhyphen (pieces tk w f word) = word :=
  pieces_unhyphen' tk w word f

/-- Justify: the justified line is the words interleaved with runs of spaces — removing the spaces
gives back the words -/
theorem C07_justify [DecidableEq α] (cx : Ctx α) (ws : List (List α)) (extra : List Nat)
    (h : ∀ w ∈ ws, cx.sp ∉ w) : (interleave cx ws extra).filter (fun a => a != cx.sp) = ws.flatten :=
  interleave_words cx ws extra h

/-- **bridge to code points**: on a stable vocabulary (see `C06_code_points`) the model of
CollapseSpace run on CODE POINTS with the real segmentation returns the flattening of the
specification's result on clusters; segmenting that output gives those clusters back, and its
non-whitespace clusters are exactly the input's, in order. -/
theorem C07_collapse_code_points {V : List (List Int)} (hV : VocabStable V = true)
    (hsp : [0x20] ∈ V) (hspTail : ∀ t ∈ V, (0x20 : Int) ∉ t.tail)
    (toks : List (List Int)) (ht : ∀ t ∈ toks, t ∈ V) :
    ∃ out, collapseSpace cxA toks.flatten [] = .ok out ∧
      clusters cxA out = Spec.collapse ⟨cxB.isSpace, cxB.sp, cxB.hy⟩ toks ∧
      (clusters cxA out).filter (fun c => !cxB.isSpace c) = toks.filter (fun c => !cxB.isSpace c) := by
  obtain ⟨r, _, h2, h3, h4, _⟩ := BridgeWrap.collapseSpace_bridge_full hV hsp hspTail toks ht
  have hc : clusters cxA r.flatten = r := clusters_flatten_stable r (stableRunes_of_vocab V hV r h4)
  refine ⟨r.flatten, h2, ?_, ?_⟩
  · rw [hc, h3]
  · rw [hc, h3]
    exact collapse_nonws ⟨cxB.isSpace, cxB.sp, cxB.hy⟩ BridgeWrap.cxB_sp_space toks

/-- the public operation CollapseSpaceOpts on code points, any options, any editor (sub-editors
included): the code-point run of the model is the flattening of the cluster run (`GoodSep`: the line
separator cannot be found across cluster boundaries — see `C06_wrapOpts_code_points`). -/
theorem C07_collapseSpaceOpts_code_points {V : List (List Int)} (hV : VocabStable V = true)
    (hsp : [0x20] ∈ V) (hspTail : ∀ t ∈ V, (0x20 : Int) ∉ t.tail)
    (ed : Editor (List Int)) (ht : ∀ t ∈ ed.text, t ∈ V) (o' : Options (List Int))
    (hS : BridgeOps.GoodSep V (o'.withDefaults cxB).lineSep) :
    Editor.collapseSpaceOpts cxA ed.flat o'.flat = (Editor.collapseSpaceOpts cxB ed o').map Editor.flat :=
  BridgeOps.collapseSpaceOpts_bridge_good hV hsp hspTail ed ht o' hS

open RosedVerif.BridgeOps RosedVerif.BridgeEditorOps RosedVerif.BridgeEditorParas RosedVerif.OpsStructure

/-- the PUBLIC operation IndentOpts on code points, any editor, any level: flattening of the cluster run (indent tokens non-empty: necessary, `BridgeEditorOps.indentOpts_needs_ne`) -/
theorem C07_indentOpts_code_points {V : List (List Int)} (hV : VocabStable V = true)
    (ed : Editor (List Int))
    (ht : ∀ t ∈ ed.text, t ∈ V)
    (level : Int)
    (o : Options (List Int))
    (hpp : o.preservePara = false)
    (hS : GoodSep V (o.withDefaults cxB).lineSep)
    (hi : ∀ t ∈ o.indentStr, t ≠ []) :
    Editor.indentOpts cxA ed.flat level o.flat =
      (Editor.indentOpts cxB ed level o).map Editor.flat :=
  indentOpts_bridge hV ed ht level o hpp hS hi

open RosedVerif.NoLossModel

/-- **Wrap loses no text** (exact form): splitting the output lines at whitespace gives, in order, the pieces of the input's words; un-hyphenating the pieces of each word gives the word back; every non-final piece is exactly `w` tokens ending in the hyphen -/
theorem C07_wrap_no_loss {α : Type} (tk : Spec.Toks α) {w : Nat}
    (hw : 2 ≤ w)
    (hsp : tk.ws tk.sp = true)
    (hhy : tk.ws tk.hy = false)
    (l : List α) :
    ∃ pss : List (List (List α)),
      (Spec.wrapLines tk w l).flatMap (words tk) = pss.flatten ∧
      pss.map unhyphen = words tk l ∧
      (∀ ps ∈ pss, ps ≠ [] ∧ ∀ p ∈ ps.dropLast, p.length = w ∧ p.getLast? = some tk.hy) ∧
      (l ≠ [] → ∃ groups : List (List (List α)), groups.flatten = pss.flatten ∧
        (∀ g ∈ groups, g ≠ []) ∧ Spec.wrapLines tk w l = groups.map (joinSp tk)) :=
  C07_wrap_no_loss_m tk hw hsp hhy l

/-- … as a function of the output alone: `dehyphen` (split at whitespace, glue every run of exactly `w` tokens ending in the hyphen to the next) recovers the input's word list, provided no word of exactly `w` tokens ends in a hyphen (`HyOK` — necessary: `NoLoss.dehyphen_impossible`, two different texts with the same wrap) -/
theorem C07_wrap_dehyphen {α : Type} (tk : Spec.Toks α) [DecidableEq α]
    {w : Nat}
    (hw : 2 ≤ w)
    (hsp : tk.ws tk.sp = true)
    (hhy : tk.ws tk.hy = false)
    (l : List α)
    (h : HyOK tk w l) :
    dehyphen tk w (Spec.wrapLines tk w l) = words tk l :=
  C07_wrap_dehyphen_m tk hw hsp hhy l h

section C07_public
open RosedVerif.NoLossOps RosedVerif.ParaStructure

/-- **AlignOpts on code points, whole text**: the sequence of non-whitespace grapheme clusters of the
result equals that of the input (non-paragraph mode, any editor, any good separator whose clusters are
in the vocabulary) -/
theorem C07_alignOpts_code_points_text {V : List (List Int)} (hV : VocabStable V = true)
    (hsp : [0x20] ∈ V)
    (ed : Editor (List Int)) (ht : ∀ t ∈ ed.text, t ∈ V) (align width : Int)
    (o : Options (List Int))
    (hal : align = Gen.alignLeft ∨ align = Gen.alignRight ∨ align = Gen.alignCenter)
    (hpp : o.preservePara = false) (hS : GoodSep V (o.withDefaults cxB).lineSep)
    (hSV : ∀ t ∈ (o.withDefaults cxB).lineSep, t ∈ V) :
    ∃ e, Editor.alignOpts cxA ed.flat align width o.flat = .ok e ∧ e.opts = ed.flat.opts ∧
      nonws (clusters cxA e.text) = nonws (clusters cxA ed.flat.text) :=
  alignOpts_nonws_text hV hsp ed ht align width o hal hpp hS hSV

/-- **AlignOpts on code points, line by line**: result and input, split at the line separator and
segmented, have the same non-whitespace clusters line for line, and the number of line separators
is unchanged (unbordered separator that no aligned line contains: both needed, see `C13_line_count`) -/
theorem C07_alignOpts_code_points {V : List (List Int)} (hV : VocabStable V = true)
    (hsp : [0x20] ∈ V)
    (ed : Editor (List Int)) (ht : ∀ t ∈ ed.text, t ∈ V) (align width : Int)
    (o : Options (List Int))
    (hal : align = Gen.alignLeft ∨ align = Gen.alignRight ∨ align = Gen.alignCenter)
    (hpp : o.preservePara = false) (hS : GoodSep V (o.withDefaults cxB).lineSep)
    (hSV : ∀ t ∈ (o.withDefaults cxB).lineSep, t ∈ V)
    (hu : Unbordered (o.withDefaults cxB).lineSep)
    (hfree : ∀ l ∈ inLines cxB ed o,
      indexOf (o.withDefaults cxB).lineSep (specAlign align width l) = none) :
    ∃ e, Editor.alignOpts cxA ed.flat align width o.flat = .ok e ∧ e.opts = ed.flat.opts ∧
      (splitOn e.text (o.flat.withDefaults cxA).lineSep).map (fun l => nonws (clusters cxA l)) =
        (splitOn ed.flat.text (o.flat.withDefaults cxA).lineSep).map
          (fun l => nonws (clusters cxA l)) ∧
      (splitOn e.text (o.flat.withDefaults cxA).lineSep).length =
        (splitOn ed.flat.text (o.flat.withDefaults cxA).lineSep).length :=
  alignOpts_nonws_lines hV hsp ed ht align width o hal hpp hS hSV hu hfree

/-- … for a line separator that is one cluster other than the space (`"\n"`, CR LF): no side
condition left -/
theorem C07_alignOpts_code_points_tok {V : List (List Int)} (hV : VocabStable V = true)
    (hsp : [0x20] ∈ V)
    (ed : Editor (List Int)) (ht : ∀ t ∈ ed.text, t ∈ V) (align width : Int)
    (o : Options (List Int))
    (hal : align = Gen.alignLeft ∨ align = Gen.alignRight ∨ align = Gen.alignCenter)
    (hpp : o.preservePara = false) (s : List Int) (hs : (o.withDefaults cxB).lineSep = [s])
    (hsV : s ∈ V) (hsne : s ≠ [0x20]) (hS : GoodSep V [s]) :
    ∃ e, Editor.alignOpts cxA ed.flat align width o.flat = .ok e ∧ e.opts = ed.flat.opts ∧
      (splitOn e.text (o.flat.withDefaults cxA).lineSep).map (fun l => nonws (clusters cxA l)) =
        (splitOn ed.flat.text (o.flat.withDefaults cxA).lineSep).map
          (fun l => nonws (clusters cxA l)) ∧
      (splitOn e.text (o.flat.withDefaults cxA).lineSep).length =
        (splitOn ed.flat.text (o.flat.withDefaults cxA).lineSep).length :=
  alignOpts_nonws_lines_tok hV hsp ed ht align width o hal hpp s hs hsV hsne hS

/-- **JustifyOpts on code points** (JustifyLastLine on and off), whole text -/
theorem C07_justifyOpts_code_points_text {V : List (List Int)} (hV : VocabStable V = true)
    (hsp : [0x20] ∈ V)
    (hspTail : ∀ t ∈ V, (0x20 : Int) ∉ t.tail) (ed : Editor (List Int))
    (ht : ∀ t ∈ ed.text, t ∈ V) (width : Int) (o : Options (List Int))
    (hpp : o.preservePara = false) (hS : GoodSep V (o.withDefaults cxB).lineSep)
    (hSV : ∀ t ∈ (o.withDefaults cxB).lineSep, t ∈ V) :
    ∃ e, Editor.justifyOpts cxA ed.flat width o.flat = .ok e ∧ e.opts = ed.flat.opts ∧
      nonws (clusters cxA e.text) = nonws (clusters cxA ed.flat.text) :=
  justifyOpts_nonws_text hV hsp hspTail ed ht width o hpp hS hSV

/-- **JustifyOpts on code points**, line by line (`justLines`: every line justified with
JustifyLastLine, every line but the last without) -/
theorem C07_justifyOpts_code_points {V : List (List Int)} (hV : VocabStable V = true)
    (hsp : [0x20] ∈ V)
    (hspTail : ∀ t ∈ V, (0x20 : Int) ∉ t.tail) (ed : Editor (List Int))
    (ht : ∀ t ∈ ed.text, t ∈ V) (width : Int) (o : Options (List Int))
    (hpp : o.preservePara = false) (hS : GoodSep V (o.withDefaults cxB).lineSep)
    (hSV : ∀ t ∈ (o.withDefaults cxB).lineSep, t ∈ V)
    (hu : Unbordered (o.withDefaults cxB).lineSep)
    (hfree : ∀ l ∈ justLines ed o width, indexOf (o.withDefaults cxB).lineSep l = none) :
    ∃ e, Editor.justifyOpts cxA ed.flat width o.flat = .ok e ∧ e.opts = ed.flat.opts ∧
      (splitOn e.text (o.flat.withDefaults cxA).lineSep).map (fun l => nonws (clusters cxA l)) =
        (splitOn ed.flat.text (o.flat.withDefaults cxA).lineSep).map
          (fun l => nonws (clusters cxA l)) ∧
      (splitOn e.text (o.flat.withDefaults cxA).lineSep).length =
        (splitOn ed.flat.text (o.flat.withDefaults cxA).lineSep).length :=
  justifyOpts_nonws_lines hV hsp hspTail ed ht width o hpp hS hSV hu hfree

theorem C07_justifyOpts_code_points_tok {V : List (List Int)} (hV : VocabStable V = true)
    (hsp : [0x20] ∈ V)
    (hspTail : ∀ t ∈ V, (0x20 : Int) ∉ t.tail) (ed : Editor (List Int))
    (ht : ∀ t ∈ ed.text, t ∈ V) (width : Int) (o : Options (List Int))
    (hpp : o.preservePara = false) (s : List Int) (hs : (o.withDefaults cxB).lineSep = [s])
    (hsV : s ∈ V) (hsne : s ≠ [0x20]) (hS : GoodSep V [s]) :
    ∃ e, Editor.justifyOpts cxA ed.flat width o.flat = .ok e ∧ e.opts = ed.flat.opts ∧
      (splitOn e.text (o.flat.withDefaults cxA).lineSep).map (fun l => nonws (clusters cxA l)) =
        (splitOn ed.flat.text (o.flat.withDefaults cxA).lineSep).map
          (fun l => nonws (clusters cxA l)) ∧
      (splitOn e.text (o.flat.withDefaults cxA).lineSep).length =
        (splitOn ed.flat.text (o.flat.withDefaults cxA).lineSep).length :=
  justifyOpts_nonws_lines_tok hV hsp hspTail ed ht width o hpp s hs hsV hsne hS

/-- **WrapOpts on code points, closed form** (any good separator): the new text is the flattening of
the wrapped cluster lines `wrapLinesB` joined by the separator (plus the trailing one); splitting
those lines at whitespace gives the pieces of the words of the input (line separators read as
whitespace: `wrapIn`), un-hyphenating the pieces of a word gives the word back, every non-final
piece is a full line-width ending in the continuation hyphen; `dehyphen` recovers the words from the
lines alone when no word can be mistaken for a continuation piece -/
theorem C07_wrapOpts_code_points {V : List (List Int)} (hV : VocabStable V = true)
    (hsp : [0x20] ∈ V)
    (hspTail : ∀ t ∈ V, (0x20 : Int) ∉ t.tail)
    (ed : Editor (List Int)) (ht : ∀ t ∈ ed.text, t ∈ V) (w : Int) (o : Options (List Int))
    (hpp : o.preservePara = false) (hS : GoodSep V (o.withDefaults cxB).lineSep) :
    ∃ e, Editor.wrapOpts cxA ed.flat w o.flat = .ok e ∧ e.opts = ed.flat.opts ∧
      e.text = (wrapTextB ed w o).flatten ∧
      clusters cxA (replaceAll' cxA ed.flat.text (o.flat.withDefaults cxA).lineSep) = wrapIn ed o ∧
      (∃ pss : List (List (List (List Int))),
        (wrapLinesB ed w o).flatMap (words tkB) = pss.flatten ∧
        pss.map unhyphen = words tkB (wrapIn ed o) ∧
        (∀ ps ∈ pss, ps ≠ [] ∧
          ∀ p ∈ ps.dropLast, p.length = wid w ∧ p.getLast? = some tkB.hy)) ∧
      (HyOK tkB (wid w) (wrapIn ed o) →
        dehyphen tkB (wid w) (wrapLinesB ed w o) = words tkB (wrapIn ed o)) :=
  wrapOpts_no_loss hV hsp hspTail ed ht w o hpp hS

/-- **WrapOpts on code points, from the output alone** (separator = one cluster other than space and
hyphen): split the result at the separator, segment, split at whitespace, undo the continuation
hyphens — the words, hence the non-whitespace clusters, of the input with its line separators read
as whitespace -/
theorem C07_wrapOpts_code_points_dehyphen {V : List (List Int)} (hV : VocabStable V = true)
    (hsp : [0x20] ∈ V) (hhy : [0x2D] ∈ V)
    (hspTail : ∀ t ∈ V, (0x20 : Int) ∉ t.tail)
    (ed : Editor (List Int)) (ht : ∀ t ∈ ed.text, t ∈ V) (w : Int) (o : Options (List Int))
    (hpp : o.preservePara = false) (s : List Int) (hs : (o.withDefaults cxB).lineSep = [s])
    (hsV : s ∈ V) (hsne : s ≠ [0x20]) (hshy : s ≠ [0x2D]) (hS : GoodSep V [s])
    (hok : HyOK tkB (wid w) (wrapIn ed o)) :
    ∃ e, Editor.wrapOpts cxA ed.flat w o.flat = .ok e ∧ e.opts = ed.flat.opts ∧
      dehyphen tkB (wid w)
          ((splitOn e.text (o.flat.withDefaults cxA).lineSep).map (clusters cxA)) =
        words tkB (clusters cxA (replaceAll' cxA ed.flat.text (o.flat.withDefaults cxA).lineSep)) ∧
      (dehyphen tkB (wid w)
          ((splitOn e.text (o.flat.withDefaults cxA).lineSep).map (clusters cxA))).flatten =
        nonws (clusters cxA (replaceAll' cxA ed.flat.text (o.flat.withDefaults cxA).lineSep)) :=
  wrapOpts_dehyphen_tok hV hsp hhy hspTail ed ht w o hpp s hs hsV hsne hshy hS hok

/-- **WrapOpts on code points, whole text** (separator = one whitespace cluster, e.g. the default
`"\n"`): the non-whitespace clusters of the output, continuation hyphens removed, equal those of the
input -/
theorem C07_wrapOpts_code_points_text {V : List (List Int)} (hV : VocabStable V = true)
    (hsp : [0x20] ∈ V) (hhy : [0x2D] ∈ V)
    (hspTail : ∀ t ∈ V, (0x20 : Int) ∉ t.tail)
    (ed : Editor (List Int)) (ht : ∀ t ∈ ed.text, t ∈ V) (w : Int) (o : Options (List Int))
    (hpp : o.preservePara = false) (s : List Int) (hs : (o.withDefaults cxB).lineSep = [s])
    (hsV : s ∈ V) (hsws : cxB.isSpace s = true) (hS : GoodSep V [s])
    (hok : HyOK tkB (wid w) (clusters cxA ed.flat.text)) :
    ∃ e, Editor.wrapOpts cxA ed.flat w o.flat = .ok e ∧ e.opts = ed.flat.opts ∧
      dehyphen tkB (wid w) [clusters cxA e.text] = words tkB (clusters cxA ed.flat.text) ∧
      (dehyphen tkB (wid w) [clusters cxA e.text]).flatten = nonws (clusters cxA ed.flat.text) :=
  wrapOpts_dehyphen_text hV hsp hhy hspTail ed ht w o hpp s hs hsV hsws hS hok

/-- **paragraph mode, Align** (affix-free paragraph separator): every paragraph separator is kept in
place, every piece is the non-paragraph `AlignOpts` of its paragraph (so the statements above hold
paragraph by paragraph), and the non-whitespace clusters of the whole text are unchanged -/
theorem C07_alignOpts_para {V : List (List Int)} (hV : VocabStable V = true) (hsp : [0x20] ∈ V)
    (ed : Editor (List Int)) (ht : ∀ t ∈ ed.text, t ∈ V) (align width : Int)
    (o : Options (List Int))
    (hal : align = Gen.alignLeft ∨ align = Gen.alignRight ∨ align = Gen.alignCenter)
    (hpp : o.preservePara = true)
    (hG : GoodPara V (o.withDefaults cxB).lineSep (o.withDefaults cxB).paraSep)
    (haf : AffixFree (o.flat.withDefaults cxA)) :
    ∃ (e : Editor Int) (G : List (List Int) → List (List Int)),
      Editor.alignOpts cxA ed.flat align width o.flat = .ok e ∧ e.opts = ed.flat.opts ∧
      ed.flat.text = joinWith (o.flat.withDefaults cxA).paraSep
        ((paragraphsOf ed.text (o.withDefaults cxB)).map List.flatten) ∧
      e.text = joinWith (o.flat.withDefaults cxA).paraSep
        ((paragraphsOf ed.text (o.withDefaults cxB)).map (fun p => (G p).flatten)) ∧
      (∀ p ∈ paragraphsOf ed.text (o.withDefaults cxB),
        (∀ t ∈ p, t ∈ V) ∧ (∀ t ∈ G p, t ∈ V) ∧ nonws (G p) = nonws p ∧
        Editor.alignOpts cxA (Editor.root p (single o)).flat align width (single o).flat =
          .ok (Editor.root (G p) (single o)).flat) ∧
      nonws (clusters cxA e.text) = nonws (clusters cxA ed.flat.text) :=
  alignOpts_para_no_loss hV hsp ed ht align width o hal hpp hG haf

/-- **paragraph mode, Justify** -/
theorem C07_justifyOpts_para {V : List (List Int)} (hV : VocabStable V = true) (hsp : [0x20] ∈ V)
    (hspTail : ∀ t ∈ V, (0x20 : Int) ∉ t.tail)
    (ed : Editor (List Int)) (ht : ∀ t ∈ ed.text, t ∈ V) (width : Int)
    (o : Options (List Int)) (hpp : o.preservePara = true)
    (hG : GoodPara V (o.withDefaults cxB).lineSep (o.withDefaults cxB).paraSep)
    (haf : AffixFree (o.flat.withDefaults cxA)) :
    ∃ (e : Editor Int) (G : List (List Int) → List (List Int)),
      Editor.justifyOpts cxA ed.flat width o.flat = .ok e ∧ e.opts = ed.flat.opts ∧
      ed.flat.text = joinWith (o.flat.withDefaults cxA).paraSep
        ((paragraphsOf ed.text (o.withDefaults cxB)).map List.flatten) ∧
      e.text = joinWith (o.flat.withDefaults cxA).paraSep
        ((paragraphsOf ed.text (o.withDefaults cxB)).map (fun p => (G p).flatten)) ∧
      (∀ p ∈ paragraphsOf ed.text (o.withDefaults cxB),
        (∀ t ∈ p, t ∈ V) ∧ (∀ t ∈ G p, t ∈ V) ∧ nonws (G p) = nonws p ∧
        Editor.justifyOpts cxA (Editor.root p (single o)).flat width (single o).flat =
          .ok (Editor.root (G p) (single o)).flat) ∧
      nonws (clusters cxA e.text) = nonws (clusters cxA ed.flat.text) :=
  justifyOpts_para_no_loss hV hsp hspTail ed ht width o hpp hG haf

/-- **paragraph mode, Wrap**: every paragraph separator is kept in place and every piece is the
non-paragraph `WrapOpts` of its paragraph (`wrapTextB`), so `C07_wrapOpts_code_points*` hold
paragraph by paragraph; the last clause is the whole-paragraph form for a whitespace separator -/
theorem C07_wrapOpts_para {V : List (List Int)} (hV : VocabStable V = true) (hsp : [0x20] ∈ V)
    (hspTail : ∀ t ∈ V, (0x20 : Int) ∉ t.tail)
    (ed : Editor (List Int)) (ht : ∀ t ∈ ed.text, t ∈ V) (w : Int)
    (o : Options (List Int)) (hpp : o.preservePara = true)
    (hG : GoodPara V (o.withDefaults cxB).lineSep (o.withDefaults cxB).paraSep)
    (haf : AffixFree (o.flat.withDefaults cxA)) :
    ∃ e : Editor Int, Editor.wrapOpts cxA ed.flat w o.flat = .ok e ∧ e.opts = ed.flat.opts ∧
      ed.flat.text = joinWith (o.flat.withDefaults cxA).paraSep
        ((paragraphsOf ed.text (o.withDefaults cxB)).map List.flatten) ∧
      e.text = joinWith (o.flat.withDefaults cxA).paraSep
        ((paragraphsOf ed.text (o.withDefaults cxB)).map
          (fun p => (wrapTextB (Editor.root p (single o)) w (single o)).flatten)) ∧
      (∀ p ∈ paragraphsOf ed.text (o.withDefaults cxB),
        (∀ t ∈ p, t ∈ V) ∧
        Editor.wrapOpts cxA (Editor.root p (single o)).flat w (single o).flat =
          .ok (Editor.root (wrapTextB (Editor.root p (single o)) w (single o)) (single o)).flat ∧
        (∀ s, (o.withDefaults cxB).lineSep = [s] → cxB.isSpace s = true →
          HyOK tkB (wid w) p →
          dehyphen tkB (wid w) [wrapTextB (Editor.root p (single o)) w (single o)] =
            words tkB p)) :=
  wrapOpts_para_no_loss hV hsp hspTail ed ht w o hpp hG haf

/-- **CollapseSpaceOpts is idempotent at the public level**, on code points over a stable
vocabulary (`SepCollapseOK`: the separator is one cluster, or contains a whitespace cluster other
than the space) -/
theorem C07_collapseSpaceOpts_idempotent {V : List (List Int)} (hV : VocabStable V = true)
    (hsp : [0x20] ∈ V)
    (hspTail : ∀ t ∈ V, (0x20 : Int) ∉ t.tail)
    (ed : Editor (List Int)) (ht : ∀ t ∈ ed.text, t ∈ V) (o : Options (List Int))
    (hS : GoodSep V (o.withDefaults cxB).lineSep)
    (hok : SepCollapseOK (o.withDefaults cxB).lineSep) :
    (Editor.collapseSpaceOpts cxA ed.flat o.flat >>= fun e => Editor.collapseSpaceOpts cxA e o.flat) =
      Editor.collapseSpaceOpts cxA ed.flat o.flat :=
  collapseSpaceOpts_idem_code_points hV hsp hspTail ed ht o hS hok

/-- … but NOT for arbitrary code points (FINDING): `"\t" ++ U+0301` → `" " ++ U+0301` → `" "` -/
theorem C07_collapseSpaceOpts_not_idempotent_all :
    (Editor.collapseSpaceOpts cxA (.root [0x09, 0x301] {}) {}).map Editor.text =
      .ok [0x20, 0x301] ∧
    (Editor.collapseSpaceOpts cxA (.root [0x09, 0x301] {}) {} >>=
        fun e => Editor.collapseSpaceOpts cxA e {}).map Editor.text = .ok [0x20] :=
  collapseSpaceOpts_not_idem_all

/-- … and not for a separator that contains a space between other clusters (FINDING): separator
`"a b"`, text `"a  b"` → `"a b"` → `" "` -/
theorem C07_collapseSpaceOpts_idempotent_needs_sep :
    VocabStable [[0x61], [0x20], [0x62]] = true ∧
    (Editor.collapseSpaceOpts cxA (.root [0x61, 0x20, 0x20, 0x62] {})
        { lineSep := [0x61, 0x20, 0x62] }).map Editor.text = .ok [0x61, 0x20, 0x62] ∧
    (Editor.collapseSpaceOpts cxA (.root [0x61, 0x20, 0x20, 0x62] {})
        { lineSep := [0x61, 0x20, 0x62] } >>=
      fun e => Editor.collapseSpaceOpts cxA e { lineSep := [0x61, 0x20, 0x62] }).map Editor.text =
        .ok [0x20] :=
  collapseSpaceOpts_idem_needs_sep

/-! ### the stand-in of paragraph-mode Wrap (repair of defect D18)

`WrapOpts` with PreserveParagraphs pads each paragraph with runs of a stand-in letter in place of
the parts of the paragraph separator that share a line with it, wraps, and removes the runs again BY
COUNT.  Wrap turns every occurrence of the line separator into a space first, so a stand-in that
occurs in the line separator is eaten and the removal by count deletes real text instead
(D18: `Edit("x\n\ny").WrapOpts(20, {PreserveParagraphs, LineSeparator: "A"})` gave `"\n\ny"`).
Since the repair the stand-in is `cxA.placeholder sep`: the first of `A`, `B`, `C`, … that is not
a rune of the line separator.

Limit of the repair (recorded, not proved away): the candidates are consecutive code points, so a
line separator that contains every rune U+0041..U+0084 gets the stand-in U+0085, which is white
space (collapsed by Wrap), and one that contains every rune U+0041..U+02FF gets U+0300, class
Extend (a run of them is ONE cluster, so the count is off).  No separator of fewer than 68 runes
is affected. -/

/-- for EVERY line separator the stand-in does not occur in it (so no stand-in is turned into a
space as part of a line separator) -/
theorem C07_wrapOpts_para_placeholder_fresh (sep : List Int) : cxA.placeholder sep ∉ sep :=
  phFresh_cxA sep

/-- it is the first such letter: `A + k` with `k ≤ |sep|`, and every letter before it is a rune of
the separator -/
theorem C07_wrapOpts_para_placeholder_first (sep : List Int) :
    ∃ k : Nat, k ≤ sep.length ∧ cxA.placeholder sep = 0x41 + (k : Int) ∧
      ∀ j : Nat, j < k → (0x41 + (j : Int)) ∈ sep :=
  placeholder_cxA_first sep

/-- a line separator without the letter `A` is padded with `A`, as before the repair -/
theorem C07_wrapOpts_para_placeholder_default (sep : List Int) (h : (0x41 : Int) ∉ sep) :
    cxA.placeholder sep = 0x41 :=
  Ctx.placeholder_eq_phA cxA h

/-- the witnesses of D18 keep their text: `"x\n\ny"` with the line separator `"A"` (the whole
paragraph separator `"\n\n"` shares a line with the first paragraph, which is padded with two
stand-ins `B`), `"bx\n\ny"` with the line separator `"xA"` (stand-in `B`), `"x\n\nyz"` with the
line separator `"AB"` (stand-in `C`) -/
theorem C07_wrapOpts_para_D18_witness :
    (Editor.wrapOpts cxA (.root [0x78, 0x0A, 0x0A, 0x79] {}) 20
        { preservePara := true, lineSep := [0x41] }).map Editor.text =
      .ok [0x78, 0x0A, 0x0A, 0x79] ∧
    (Editor.wrapOpts cxA (.root [0x62, 0x78, 0x0A, 0x0A, 0x79] {}) 20
        { preservePara := true, lineSep := [0x78, 0x41] }).map Editor.text =
      .ok [0x62, 0x78, 0x0A, 0x0A, 0x79] ∧
    (Editor.wrapOpts cxA (.root [0x78, 0x0A, 0x0A, 0x79, 0x7A] {}) 20
        { preservePara := true, lineSep := [0x41, 0x42] }).map Editor.text =
      .ok [0x78, 0x0A, 0x0A, 0x79, 0x7A] ∧
    cxA.placeholder [0x41] = 0x42 ∧ cxA.placeholder [0x78, 0x41] = 0x42 ∧
    cxA.placeholder [0x41, 0x42] = 0x43 ∧ cxA.placeholder [0x42, 0x41] = 0x43 ∧
    cxA.placeholder [0x0A] = 0x41 :=
  ⟨BridgeWrap.of_okEq (by decide +kernel), BridgeWrap.of_okEq (by decide +kernel),
    BridgeWrap.of_okEq (by decide +kernel), by decide, by decide, by decide, by decide, by decide⟩

/-- the limit of the repair, as a checked fact (FINDING, residual of D18): for the 68-rune line
separator U+0041 … U+0084 the stand-in is U+0085 (NEL), which is white space; Wrap collapses the
stand-ins and the removal by count deletes the paragraph `"x"` as before the repair -/
theorem C07_wrapOpts_para_placeholder_limit :
    cxA.placeholder ((List.range 68).map fun (i : Nat) => (0x41 + (i : Int))) = 0x85 ∧
    cxA.isSpace 0x85 = true ∧
    (Editor.wrapOpts cxA (.root [0x78, 0x0A, 0x0A, 0x79] {}) 20
        { preservePara := true, lineSep := (List.range 68).map fun (i : Nat) => (0x41 + (i : Int)) }).map
      Editor.text = .ok [0x0A, 0x0A, 0x79] :=
  ⟨by decide +kernel, by decide +kernel, BridgeWrap.of_okEq (by decide +kernel)⟩

/-- FINDING D19 (known, not repaired), as a checked fact about the model that the correspondence ties to the
code: with `PreserveParagraphs` and the line separator `"  "` (two spaces) the placeholder SPACES that stand in
for the paragraph separator's part on the paragraph's last line are taken for a trailing line separator, and
the removal by count deletes text: `"ab cd\n\nef gh"` aligned Left to width 3 comes out as `"ab   \n\nef gh"` —
`cd` is lost.  The same witness is replayed against the real code on every run of `./check C07`
(`known_findings.json`, entry D19).  The no-loss theorems above therefore cannot be stated for ALL separators;
they carry their `GoodSep` / vocabulary hypotheses for a reason. -/
theorem C07_alignOpts_para_D19_counterexample :
    (Editor.alignOpts cxA (.root [0x61, 0x62, 0x20, 0x63, 0x64, 0x0A, 0x0A, 0x65, 0x66, 0x20, 0x67, 0x68] {}) Gen.alignLeft 3
        { preservePara := true, lineSep := [0x20, 0x20] }).map Editor.text =
      .ok [0x61, 0x62, 0x20, 0x20, 0x20, 0x0A, 0x0A, 0x65, 0x66, 0x20, 0x67, 0x68] :=
  BridgeWrap.of_okEq (by decide +kernel)

end C07_public

end RosedVerif.Props
