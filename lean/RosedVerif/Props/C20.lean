/-
C20 — Concurrent use of Editors is race-free and equals sequential use.   (PARTIAL, see below)

What is proved: (i) on layer H, in every call — Reverse/IndexFunc/LastIndexFunc included — every
write goes to a cell allocated by the same call, or is the first fill of the receiver's own cell; a
filled cell is never written; (ii) the only package-level cache cell (gem.Zero's) starts filled
(regenerated fact) and is therefore never written; (iii) structural facts regenerated from the
typed source: the package-level variables are exactly gem.Zero and manip.spaceCollapser, no method
of package rosed or gem has a pointer receiver, and every assignment that goes through a pointer or into a
caller-visible slice element stores into a gem.String's cache cell (inside a function whose pointer-level
behaviour is proved equal to layer H) or into a tb.Block's own line list (none in package rosed).
What is NOT a Lean theorem: the step from (i)–(iii) to the Go memory model. The model cannot exhibit
interleavings; the check therefore also runs the real code from 8 goroutines under the Go race
detector and compares parallel with sequential results.
-/
import RosedVerif.Model.InstAFacts
import RosedVerif.Heap.Histories
import RosedVerif.Gen.Facts
import RosedVerif.Heap.WriteSites
namespace RosedVerif.Props
open RosedVerif RosedVerif.H

/-- (ii) regenerated from the source on every run: gem.Zero's cache cell is filled at start-up -/
theorem C20_zero_prefilled : Gen.zeroCachePrefilled = true := rfl

/-- (i) footprint of every gem.String operation -/
theorem C20_footprint (k : Call) (h : Heap) : ∀ w ∈ (k.run h).2, Footprint h k.recv w := footprint k h

/-- the write events are complete: a cell no event mentions is untouched -/
theorem C20_writes_complete (k : Call) (h : Heap) (c : Nat) (hm : ¬ Mentions (k.run h).2 c) :
    (k.run h).1.cells[c]? = h.cells[c]? := writes_complete k h c hm

/-- a filled cell is never written by any call -/
theorem C20_filled_never_written (k : Call) (h : Heap) (c : Nat) (x : List Nat) (hx : h.get c = some x) :
    (k.run h).1.get c = some x ∧ ¬ Mentions (k.run h).2 c :=
  ⟨frame k h c x hx, filled_not_written k h c x hx⟩

/-- hence the package-level cell is never written, in any reachable state, by any operation -/
theorem C20_package_state_never_written (k : Call) {h : Heap} {pool : List GStr} (hi : Inv h pool) :
    (k.run h).1.get 0 = some [] ∧ ¬ Mentions (k.run h).2 0 :=
  zero_never_written_inv C20_zero_prefilled k hi

/-- no operand is altered by any call: the old pool stays valid -/
theorem C20_operands_unchanged (k : Call) {h : Heap} {pool : List GStr} (hi : Inv h pool)
    (hr : ∀ s, k.recv = some s → s ∈ zero :: pool) : Inv (k.run h).1 pool := inv_call k hi hr

/-! (iii) structural facts, regenerated from /repo with full type information -/

theorem C20_package_vars : Gen.packageVars = ["gem.Zero", "manip.spaceCollapser"] := by decide

theorem C20_pointer_receivers :
    Gen.pointerReceiverMethods = [("tb", "Block.Append"), ("tb", "Block.AppendBlock"), ("tb", "Block.AppendEmpty"),
      ("tb", "Block.Apply"), ("tb", "Block.Remove"), ("tb", "Block.Set")] := by decide

/-- every assignment in the library that goes through a pointer or into an element of a parameter / receiver /
package-level slice (the list is regenerated from the typed source on every run) is one of two kinds
(`H.writeSiteOK`, Heap/WriteSites.lean): in package `gem` a store into a String's cache cell (`*x.gc`, `(*x.gc)[…]`)
inside a function whose pointer-level behaviour is the subject of the regenerated tie with layer H
(`Gen.GemCode.tiedFunctions`: the functions harness/goheap.go translates — proved equal to layer H in heap, result and
write events by the `gem…_regenerated` theorems, which are proof obligations of this property — and helpers inlined
into them); in package `tb` a store into a Block's own line list inside a method of `Block`.  The sites are not
enumerated: moving a store into a helper that is inlined back re-proves; a store anywhere else, or in a function of
`gem` outside the tie, does not. -/
theorem C20_heap_writes : ∀ w ∈ Gen.heapWrites, H.writeSiteOK w = true := by decide

/-- the kinds are told apart correctly: the predicate rejects a store into another field, through another pointer,
into a package-level variable, in a function outside the tie, and in another package -/
theorem C20_heap_writes_rejects :
    H.writeSiteOK ("gem", "String.Add", "ptr", "*r2.r") = false ∧
    H.writeSiteOK ("gem", "String.Add", "ptr", "*p") = false ∧
    H.writeSiteOK ("gem", "String.Add", "ptr", "Zero.gc") = false ∧
    H.writeSiteOK ("gem", "String.Add", "elem-param", "s2.r[i]") = false ∧
    H.writeSiteOK ("gem", "String.notInTheTie", "ptr", "*str.gc") = false ∧
    H.writeSiteOK ("rosed", "Editor.Commit", "ptr", "*parent") = false ∧
    H.writeSiteOK ("tb", "Block.Set", "ptr", "tb.LineSeparator") = false ∧
    H.writeSiteOK ("manip", "Wrap", "elem-param", "lines[i]") = false := by decide

/-- in particular no function of package rosed (Editor, Options, sub-editors) writes through a pointer -/
theorem C20_rosed_writes_nothing :
    (Gen.heapWrites.filter fun w => w.1 == "rosed") = [] := by decide


/-! ### C20 over ALL histories -/

/-- in the state reached by any history the package-level cell is filled, the next call leaves it
equal to `some []`, and no write event of that call mentions it -/
theorem C20_histories_zero_never_written (ops : List H.Op) (op : H.Op) :
    (H.run ops).1.get 0 = some [] ∧ (H.step (H.run ops) op).1.get 0 = some [] ∧ ¬ Mentions (H.writes (H.run ops) op) 0 :=
  H.histories_zero_never_written C20_zero_prefilled ops op

/-- a cell filled at any point of a history has the same content at every later point and is never
mentioned by a later write event -/
theorem C20_histories_filled_never_written (ops ops' : List H.Op) (c : Nat) (x : List Nat)
    (hx : (H.run ops).1.get c = some x) :
    (H.run (ops ++ ops')).1.get c = some x ∧ ∀ op, ¬ Mentions (H.writes (H.run (ops ++ ops')) op) c :=
  H.histories_filled_never_written ops ops' c x hx

/-- footprint of every call of every history; the receiver is a pool value or the zero value -/
theorem C20_histories_footprint (ops : List H.Op) (op : H.Op) :
    (∀ w ∈ H.writes (H.run ops) op, Footprint (H.run ops).1 (op.call (H.run ops).2).recv w) ∧
    (∀ r, (op.call (H.run ops).2).recv = some r → r ∈ zero :: (H.run ops).2) := H.histories_footprint ops op

end RosedVerif.Props
