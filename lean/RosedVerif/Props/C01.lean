/-
C01 — Grapheme segmentation obeys the UAX #29 extended-cluster rules.
Property theorems only; helpers live in Gem/SpecProof.lean, Gem/RulesLemmas.lean.
-/
import RosedVerif.Gem.SpecProof
import RosedVerif.Gem.RulesLemmas
import RosedVerif.Gen.Rules
namespace RosedVerif.Props
open RosedVerif Cls Spec

/-- class level: for EVERY class string (any length, any order) the transliterated Go rule
chain yields exactly the cluster ends that GB1–GB999 specify -/
theorem C01_class (cs : List Cls) : split cs = specSplit cs := split_eq_specSplit cs

/-- code-point level, source-faithful form: `gem.Split` over the 14 Go predicates with the
REGENERATED tables equals the specification applied to the classes of the code points -/
theorem C01 (rs : List Int) : splitGo rs = specSplit (rs.map classOf) := by
  rw [splitGo_eq_splitRunes]; exact split_eq_specSplit _

/-- the executable model used by the driver and by every other layer is the same function -/
theorem C01_model (rs : List Int) : splitRunes rs = specSplit (rs.map classOf) :=
  split_eq_specSplit _

/-- **regenerated tie of the rule chain**: the ordered guards of `shouldBreakAfter`, re-extracted from
the source on every run (Gen/Rules.lean), evaluate to the model's rule chain `brkCore` for every class
pair and both context bits (GB11 scan result, RI parity).  A harmless reordering of independent rules
re-proves by itself; a harmful edit fails here with the offending case.  When the function no longer
has the shape the extractor knows, `Gen.rulesExtracted = false` and the rule chain is tied by the
G-split correspondence alone (the check's evidence says which). -/
def ruleChainAgrees : Bool :=
  Cls.all.all fun r => Cls.all.all fun nx => [true, false].all fun ep => [true, false].all fun re =>
    evalRules Gen.rulesDefault r nx ep re Gen.rules == brkCore r nx ep re

theorem C01_rule_chain (hx : Gen.rulesExtracted = true) (r nx : Cls) (ep re : Bool) :
    evalRules Gen.rulesDefault r nx ep re Gen.rules = brkCore r nx ep re := by
  have h : (!Gen.rulesExtracted || ruleChainAgrees) = true := by decide +kernel
  rw [hx] at h
  simp only [Bool.not_true, Bool.false_or, ruleChainAgrees, List.all_eq_true] at h
  have := h r (Cls.mem_all r) nx (Cls.mem_all nx) ep (by cases ep <;> simp) re (by cases re <;> simp)
  simpa using this

/-! ### corollaries named in the property -/

/-- GB3: CR LF is never split -/
theorem C01_crlf (pre : List Cls) : ¬ Boundary pre cr lf := fun h => h.1 ⟨rfl, rfl⟩

/-- GB4/GB5: a control (or CR, or LF) is always separated from what follows (except CR LF)
and from what precedes -/
theorem C01_control_after (pre : List Cls) (r nx : Cls) (h : isCtl r) (h3 : ¬ (r = cr ∧ nx = lf)) :
    Boundary pre r nx := ⟨h3, Or.inl h⟩

theorem C01_control_before (pre : List Cls) (r nx : Cls) (h : isCtl nx) (h3 : ¬ (r = cr ∧ nx = lf)) :
    Boundary pre r nx := ⟨h3, Or.inr (Or.inl h)⟩

/-- GB9/GB9a: nothing is split before Extend, ZWJ or SpacingMark unless a control precedes -/
theorem C01_no_break_before_mark (pre : List Cls) (r nx : Cls)
    (hn : nx = extend ∨ nx = zwj ∨ nx = spacing) (hr : ¬ isCtl r) : ¬ Boundary pre r nx := by
  rintro ⟨_, h | h | h⟩
  · exact hr h
  · rcases hn with rfl | rfl | rfl <;> simp [isCtl] at h
  · apply h
    unfold NoBreakRule
    rcases hn with rfl | rfl | rfl <;> simp

/-- GB12/13: within a run of regional indicators that starts the text or follows a non-RI,
there is no break after an odd number of them and a break after an even number -/
theorem C01_ri_pairs (p : List Cls) (hp : p = [] ∨ ∃ q x, p = q ++ [x] ∧ x ≠ ri) (n : Nat) :
    Boundary (p ++ List.replicate (n + 1) ri) ri ri ↔ n % 2 = 1 := by
  have key : GB1213ctx (p ++ List.replicate (n + 1) ri) ↔ n % 2 = 0 := by
    have := gb1213ctx_iff (List.replicate n ri ++ p.reverse) ri
    have e : (List.replicate n ri ++ p.reverse).reverse ++ [ri] = p ++ List.replicate (n + 1) ri := by
      simp [List.replicate_succ']
    rw [e] at this
    rw [this, countRI_replicate_append]
    · simp
    · rcases hp with hp | ⟨q, x, hp, hx⟩
      · left; simp [hp]
      · right; exact ⟨x, q.reverse, by simp [hp], hx⟩
  unfold Boundary NoBreakRule isCtl
  rw [key]
  simp [GB11ctx]

/-! ### non-vacuity: concrete strings exercising the unbounded look-behinds -/

-- GB9b before GB11, Extend* look-behind, odd RI run: Prepend ExtPict Extend Extend ZWJ ExtPict RI RI RI
example : split [prepend, extpict, extend, extend, zwj, extpict, ri, ri, ri] = [6, 8, 9] := by decide
-- lone marks and a lone ZWJ at the start of text, CR LF, control
example : split [extend, zwj, spacing, cr, lf, control, extend] = [3, 5, 6, 7] := by decide
-- Hangul syllable sequences
example : split [l, l, v, t, t, lv, t, lvt, t, l] = [5, 7, 9, 10] := by decide

end RosedVerif.Props
