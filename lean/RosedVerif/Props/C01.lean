/-
C01 — Grapheme segmentation obeys the UAX #29 extended-cluster rules.
Property theorems only; helpers live in Gem/SpecProof.lean, Gem/RulesLemmas.lean.
-/
import RosedVerif.Gem.SpecProof
import RosedVerif.Gem.RulesLemmas
import RosedVerif.Gen.Rules
import RosedVerif.Gem.Corollaries
namespace RosedVerif.Props
open RosedVerif Cls Spec

/-- class level: for EVERY class string (any length, any order) the transliterated Go rule
chain yields exactly the cluster ends that GB1–GB999 specify -/
theorem C01_class (cs : List Cls) : split cs = specSplit cs := split_eq_specSplit cs

/-- code-point level, source-faithful form: `gem.Split` over the 14 Go predicates with the
REGENERATED tables equals the specification applied to the classes of the code points -/
theorem C01 (rs : List Int) : splitGo rs = specSplit (rs.map classOf) := by
  rw [splitGo_eq_splitRunes]; exact split_eq_specSplit _

/-- the executable model used by the driver and by every other layer is the same function -/
theorem C01_model (rs : List Int) : splitRunes rs = specSplit (rs.map classOf) :=
  split_eq_specSplit _

/-- **regenerated tie of the rule chain**: the ordered guards of `shouldBreakAfter`, re-extracted from
the source on every run (Gen/Rules.lean), evaluate to the model's rule chain `brkCore` for every class
pair and both context bits (GB11 scan result, RI parity).  A harmless reordering of independent rules
re-proves by itself; a harmful edit fails here with the offending case.  When the function no longer
has the shape the extractor knows, `Gen.rulesExtracted = false` and the rule chain is tied by the
G-split correspondence alone (the check's evidence says which). -/
def ruleChainAgrees : Bool :=
  Cls.all.all fun r => Cls.all.all fun nx => [true, false].all fun ep => [true, false].all fun re =>
    evalRules Gen.rulesDefault r nx ep re Gen.rules == brkCore r nx ep re

theorem C01_rule_chain (hx : Gen.rulesExtracted = true) (r nx : Cls) (ep re : Bool) :
    evalRules Gen.rulesDefault r nx ep re Gen.rules = brkCore r nx ep re := by
  have h : (!Gen.rulesExtracted || ruleChainAgrees) = true := by decide +kernel
  rw [hx] at h
  simp only [Bool.not_true, Bool.false_or, ruleChainAgrees, List.all_eq_true] at h
  have := h r (Cls.mem_all r) nx (Cls.mem_all nx) ep (by cases ep <;> simp) re (by cases re <;> simp)
  simpa using this

/-! ### corollaries named in the property -/

/-- GB3: CR LF is never split -/
theorem C01_crlf (pre : List Cls) : ¬ Boundary pre cr lf := fun h => h.1 ⟨rfl, rfl⟩

/-- GB4/GB5: a control (or CR, or LF) is always separated from what follows (except CR LF)
and from what precedes -/
theorem C01_control_after (pre : List Cls) (r nx : Cls) (h : isCtl r) (h3 : ¬ (r = cr ∧ nx = lf)) :
    Boundary pre r nx := ⟨h3, Or.inl h⟩

theorem C01_control_before (pre : List Cls) (r nx : Cls) (h : isCtl nx) (h3 : ¬ (r = cr ∧ nx = lf)) :
    Boundary pre r nx := ⟨h3, Or.inr (Or.inl h)⟩

/-- GB9/GB9a: nothing is split before Extend, ZWJ or SpacingMark unless a control precedes -/
theorem C01_no_break_before_mark (pre : List Cls) (r nx : Cls)
    (hn : nx = extend ∨ nx = zwj ∨ nx = spacing) (hr : ¬ isCtl r) : ¬ Boundary pre r nx := by
  rintro ⟨_, h | h | h⟩
  · exact hr h
  · rcases hn with rfl | rfl | rfl <;> simp [isCtl] at h
  · apply h
    unfold NoBreakRule
    rcases hn with rfl | rfl | rfl <;> simp

/-- GB12/13: within a run of regional indicators that starts the text or follows a non-RI,
there is no break after an odd number of them and a break after an even number -/
theorem C01_ri_pairs (p : List Cls) (hp : p = [] ∨ ∃ q x, p = q ++ [x] ∧ x ≠ ri) (n : Nat) :
    Boundary (p ++ List.replicate (n + 1) ri) ri ri ↔ n % 2 = 1 := by
  have key : GB1213ctx (p ++ List.replicate (n + 1) ri) ↔ n % 2 = 0 := by
    have := gb1213ctx_iff (List.replicate n ri ++ p.reverse) ri
    have e : (List.replicate n ri ++ p.reverse).reverse ++ [ri] = p ++ List.replicate (n + 1) ri := by
      simp [List.replicate_succ']
    rw [e] at this
    rw [this, countRI_replicate_append]
    · simp
    · rcases hp with hp | ⟨q, x, hp, hx⟩
      · left; simp [hp]
      · right; exact ⟨x, q.reverse, by simp [hp], hx⟩
  unfold Boundary NoBreakRule isCtl
  rw [key]
  simp [GB11ctx]

/-! ### non-vacuity: concrete strings exercising the unbounded look-behinds -/

-- GB9b before GB11, Extend* look-behind, odd RI run: Prepend ExtPict Extend Extend ZWJ ExtPict RI RI RI
example : split [prepend, extpict, extend, extend, zwj, extpict, ri, ri, ri] = [6, 8, 9] := by decide
-- lone marks and a lone ZWJ at the start of text, CR LF, control
example : split [extend, zwj, spacing, cr, lf, control, extend] = [3, 5, 6, 7] := by decide
-- Hangul syllable sequences
example : split [l, l, v, t, t, lv, t, lvt, t, l] = [5, 7, 9, 10] := by decide

/-! ### observational / named-corollary restatements -/


/-- a Control, CR or LF that is not half of a CR LF pair is a cluster by itself, and CR LF is a
cluster (never split, separated on both sides); `IsCluster cs a b`: `[a, b)` is a cluster of `cs` -/
theorem C01_controls_alone (cs : List Cls) (i : Nat) (c : Cls) (hi : cs[i]? = some c) (hc : isCtl c) :
    (¬ (c = cr ∧ cs[i + 1]? = some lf) → ¬ (c = lf ∧ ∃ k, i = k + 1 ∧ cs[k]? = some cr) →
        IsCluster cs i (i + 1)) ∧
    (c = cr → cs[i + 1]? = some lf → IsCluster cs i (i + 2)) :=
  ⟨controls_alone cs i c hi hc, fun h h1 => crlf_cluster cs i (h ▸ hi) h1⟩

/-- `L* (V | LV) V* T*`, `L* LVT T*`, `L+` are ONE cluster, for all repetition counts -/
theorem C01_hangul_syllable (s : List Cls) (h : IsHangulSyllable s) : split s = [s.length] :=
  hangul_syllable s h

/-- a non-control base followed by any Extend / ZWJ / SpacingMark in any order is one cluster -/
theorem C01_marks_attach (x : Cls) (marks : List Cls) (hx : ¬ isCtl x)
    (hm : ∀ m ∈ marks, m = extend ∨ m = zwj ∨ m = spacing) : split (x :: marks) = [marks.length + 1] :=
  marks_attach x marks hx hm

/-- `Prepend^n x` (and with trailing marks) is one cluster for a non-control `x` -/
theorem C01_prepend_attaches (n : Nat) (x : Cls) (hx : ¬ isCtl x) :
    split (List.replicate n prepend ++ [x]) = [n + 1] := prepend_attaches n x hx

theorem C01_prepend_attaches_marks (n : Nat) (x : Cls) (marks : List Cls) (hx : ¬ isCtl x)
    (hm : ∀ m ∈ marks, m = extend ∨ m = zwj ∨ m = spacing) :
    split (List.replicate n prepend ++ x :: marks) = [n + 1 + marks.length] :=
  prepend_attaches_marks n x marks hx hm

/-- ill-formed: marks without a base at the very start of the text are one cluster -/
theorem C01_leading_marks (marks : List Cls) (hne : marks ≠ [])
    (hm : ∀ m ∈ marks, m = extend ∨ m = zwj ∨ m = spacing) : split marks = [marks.length] :=
  leading_marks marks hne hm

/-- `ExtPict Extend^k ZWJ ExtPict` is one cluster for every `k`, and so is the iterated sequence
`(ExtPict Extend* ZWJ)^m ExtPict` for every number of links and of Extend in each link -/
theorem C01_emoji_zwj (k : Nat) (ks : List Nat) :
    split ([extpict] ++ List.replicate k extend ++ [zwj, extpict]) = [k + 3] ∧
    split (emojiSeq ks) = [(emojiSeq ks).length] := ⟨emoji_zwj k, emoji_zwj_seq ks⟩

/-- two ZWJs in a row: a boundary before the following ExtPict, whatever precedes -/
theorem C01_double_zwj_breaks :
    split [extpict, zwj, zwj, extpict] = [3, 4] ∧
    (∀ pre : List Cls, Boundary (pre ++ [zwj, zwj]) zwj extpict) ∧
    (∀ (cs : List Cls) (i : Nat), cs[i]? = some zwj → cs[i + 1]? = some zwj →
      cs[i + 2]? = some extpict → i + 2 ∈ split cs) :=
  ⟨double_zwj_breaks, double_zwj_boundary, double_zwj_end⟩

/-- a run of `n` regional indicators at the start of the text or after a non-RI: cluster ends
`2, 4, …` and a final `n` when `n` is odd (`riEnds n`), i.e. `⌈n/2⌉` clusters; and in any continuation
of the text the ends strictly inside the run are the even positions -/
theorem C01_ri_run (p : List Cls) (hp : p = [] ∨ ∃ q x, p = q ++ [x] ∧ x ≠ ri) (n : Nat) :
    split (List.replicate n ri) = riEnds n ∧
    (split (p ++ List.replicate n ri)).filter (fun j => decide (p.length < j)) =
      (riEnds n).map (· + p.length) ∧
    riEnds n = (List.range (n / 2)).map (fun k => 2 * k + 2) ++ (if n % 2 = 1 then [n] else []) ∧
    (riEnds n).length = (n + 1) / 2 ∧
    (∀ (s : List Cls) (k : Nat), k + 1 < n →
      (p.length + (k + 1) ∈ split (p ++ List.replicate n ri ++ s) ↔ (k + 1) % 2 = 0)) :=
  ⟨ri_run_start n, ri_run_after p hp n, riEnds_eq n, riEnds_length n,
    fun s k hk => ri_run_inside p s hp n k hk⟩

/-- nothing else joined: two neighbours `r`, `nx` inside one cluster are joined by a context-free rule
(`joins`: GB3, GB6–GB9b), by GB11 or by GB12/13; and conversely -/
theorem C01_nothing_else_joined (p : List Cls) (r nx : Cls) :
    ¬ Boundary (p ++ [r]) r nx ↔
      (joins r nx = true ∨ (GB11ctx (p ++ [r]) ∧ nx = extpict) ∨ (GB1213ctx (p ++ [r]) ∧ nx = ri)) :=
  no_boundary_iff p r nx

theorem C01_nothing_else_joined_split (cs : List Cls) (i : Nat) (r nx : Cls) (h0 : cs[i]? = some r)
    (h1 : cs[i + 1]? = some nx) (h : i + 1 ∉ split cs) :
    joins r nx = true ∨ (GB11ctx (cs.take (i + 1)) ∧ nx = extpict) ∨
      (GB1213ctx (cs.take (i + 1)) ∧ nx = ri) := joined_only_by_rule cs i r nx h0 h1 h

/-- Other·Other, Other·ExtPict, ExtPict·ExtPict, Hangul·Other, … (`plainBreak`, a decidable table):
always a boundary, whatever precedes -/
theorem C01_plain_pairs_break (p : List Cls) (r nx : Cls) (h : plainBreak r nx = true) :
    Boundary (p ++ [r]) r nx := boundary_of_plainBreak p r nx h

end RosedVerif.Props
