/-
C11 — Paragraphs are split, transformed independently and rejoined losslessly.
-/
import RosedVerif.Model.InstAFacts
import RosedVerif.Model.ParaLemmas
namespace RosedVerif.Props
open RosedVerif

/-- returning each piece unchanged reproduces the editor exactly — for ALL separator pairs,
including the ambiguous case where paragraph and line separators overlap -/
theorem C11_identity (ed : Editor Int) (o : Options Int) :
    ed.applyParasM cxA (fun _ p _ _ => pure [p]) o = .ok ed := applyParas_id' cxA ed o

/-- the pieces handed to the callback rejoin to the text -/
theorem C11_pieces_rejoin (text : List Int) (o : Options Int) :
    joinWith o.paraSep (paragraphsOf text o) = text := joinWith_paragraphsOf text o

/-- the callback is invoked exactly once per piece — k+1 times for k separators —, in order, with
indexes 0..k, with the documented separator prefix/suffix (none before the first / after the last) -/
theorem C11_calls (ed : Editor Int)
    (op : Nat → List Int → List Int → List Int → R (List (List Int))) (o : Options Int) :
    ed.applyParasM cxA op o =
      ((paraCallsOf ed.text (o.withDefaults cxA)).mapM (fun c => op c.1 c.2.1 c.2.2.1 c.2.2.2) >>=
        fun outs => pure (ed.withText (joinWith (o.withDefaults cxA).paraSep outs.flatten))) :=
  applyParasM_eq_mapM cxA ed op o

theorem C11_call_count (text : List Int) (o : Options Int) :
    (paraCallsOf text o).length = (splitOn text o.paraSep).length := paraCallsOf_length text o

theorem C11_call_indexes (lineSep prevSuffix nextPrefix : List Int) (ambig : Bool) (cur : List Int)
    (rest : List (List Int)) :
    (paraCalls lineSep prevSuffix nextPrefix ambig 0 cur rest).map (·.1) = List.range' 0 (rest.length + 1) :=
  paraCalls_indexes lineSep prevSuffix nextPrefix ambig 0 cur rest

theorem C11_call_affixes (lineSep prevSuffix nextPrefix : List Int) (ambig : Bool) (cur : List Int)
    (rest : List (List Int)) :
    (paraCalls lineSep prevSuffix nextPrefix ambig 0 cur rest).map (·.2.2.1) =
        (List.range' 0 (rest.length + 1)).map (fun i => if i = 0 then [] else nextPrefix) ∧
    (paraCalls lineSep prevSuffix nextPrefix ambig 0 cur rest).map (·.2.2.2) =
        List.replicate rest.length prevSuffix ++ [[]] :=
  ⟨paraCalls_prefixes _ _ _ _ _ _ _, paraCalls_suffixes _ _ _ _ _ _ _⟩

/-- homomorphism skeleton: a per-paragraph operation `f` applied in paragraph mode yields the
separator-join of the per-paragraph results; every paragraph separator stays in place -/
theorem C11_homomorphism (ed : Editor Int) (f : List Int → R (List Int)) (o : Options Int) :
    ed.applyParasM cxA (fun _ p _ _ => do pure [← f p]) o =
      ((paragraphsOf ed.text (o.withDefaults cxA)).mapM f >>=
        fun rs => pure (ed.withText (joinWith (o.withDefaults cxA).paraSep rs))) :=
  applyParasM_single cxA ed f o

/-! non-vacuity: the ambiguous sequence paraSep·lineSep with the default separators -/
example : paragraphsOf [0x61, 0xa, 0xa, 0xa, 0x62] { lineSep := [0xa], paraSep := [0xa, 0xa] } =
    [[0x61, 0xa], [0x62]] := by decide

end RosedVerif.Props
