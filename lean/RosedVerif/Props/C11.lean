/-
C11 — Paragraphs are split, transformed independently and rejoined losslessly.
-/
import RosedVerif.Model.InstAFacts
import RosedVerif.Model.ParaLemmas
import RosedVerif.Model.BridgeEditorOps
import RosedVerif.Model.BridgeEditorParas
import RosedVerif.Model.ParaStructure
namespace RosedVerif.Props
open RosedVerif

/-- returning each piece unchanged reproduces the editor exactly — for ALL separator pairs,
including the ambiguous case where paragraph and line separators overlap -/
theorem C11_identity (ed : Editor Int) (o : Options Int) :
    ed.applyParasM cxA (fun _ p _ _ => pure [p]) o = .ok ed := applyParas_id' cxA ed o

/-- the pieces handed to the callback rejoin to the text -/
theorem C11_pieces_rejoin (text : List Int) (o : Options Int) :
    joinWith o.paraSep (paragraphsOf text o) = text := joinWith_paragraphsOf text o

/-- the callback is invoked exactly once per piece — k+1 times for k separators —, in order, with
indexes 0..k, with the documented separator prefix/suffix (none before the first / after the last) -/
theorem C11_calls (ed : Editor Int)
    (op : Nat → List Int → List Int → List Int → R (List (List Int))) (o : Options Int) :
    ed.applyParasM cxA op o =
      ((paraCallsOf ed.text (o.withDefaults cxA)).mapM (fun c => op c.1 c.2.1 c.2.2.1 c.2.2.2) >>=
        fun outs => pure (ed.withText (joinWith (o.withDefaults cxA).paraSep outs.flatten))) :=
  applyParasM_eq_mapM cxA ed op o

theorem C11_call_count (text : List Int) (o : Options Int) :
    (paraCallsOf text o).length = (splitOn text o.paraSep).length := paraCallsOf_length text o

theorem C11_call_indexes (lineSep prevSuffix nextPrefix : List Int) (ambig : Bool) (cur : List Int)
    (rest : List (List Int)) :
    (paraCalls lineSep prevSuffix nextPrefix ambig 0 cur rest).map (·.1) = List.range' 0 (rest.length + 1) :=
  paraCalls_indexes lineSep prevSuffix nextPrefix ambig 0 cur rest

theorem C11_call_affixes (lineSep prevSuffix nextPrefix : List Int) (ambig : Bool) (cur : List Int)
    (rest : List (List Int)) :
    (paraCalls lineSep prevSuffix nextPrefix ambig 0 cur rest).map (·.2.2.1) =
        (List.range' 0 (rest.length + 1)).map (fun i => if i = 0 then [] else nextPrefix) ∧
    (paraCalls lineSep prevSuffix nextPrefix ambig 0 cur rest).map (·.2.2.2) =
        List.replicate rest.length prevSuffix ++ [[]] :=
  ⟨paraCalls_prefixes _ _ _ _ _ _ _, paraCalls_suffixes _ _ _ _ _ _ _⟩

/-- homomorphism skeleton: a per-paragraph operation `f` applied in paragraph mode yields the
separator-join of the per-paragraph results; every paragraph separator stays in place -/
theorem C11_homomorphism (ed : Editor Int) (f : List Int → R (List Int)) (o : Options Int) :
    ed.applyParasM cxA (fun _ p _ _ => do pure [← f p]) o =
      ((paragraphsOf ed.text (o.withDefaults cxA)).mapM f >>=
        fun rs => pure (ed.withText (joinWith (o.withDefaults cxA).paraSep rs))) :=
  applyParasM_single cxA ed f o

/-! non-vacuity: the ambiguous sequence paraSep·lineSep with the default separators -/
example : paragraphsOf [0x61, 0xa, 0xa, 0xa, 0x62] { lineSep := [0xa], paraSep := [0xa, 0xa] } =
    [[0x61, 0xa], [0x62]] := by decide

open RosedVerif.BridgeOps RosedVerif.BridgeEditorOps RosedVerif.BridgeEditorParas RosedVerif.OpsStructure

/- `hAL` (the letter `A` is not a rune of the line separator) was added with the repair of defect D18:
WrapOpts pads a paragraph with stand-ins for the paragraph separator's affixes — the letter `A`,
since the repair another letter (`cxA.placeholder`, `C07_wrapOpts_para_placeholder_fresh`) when the
line separator contains `A` — and the other letter need not be a cluster of `V`.  Before the repair
the theorem held for such separators too, but only because both levels ran the same defective
algorithm (the stand-ins were read as line separators and real text was deleted in their place). -/
/-- **paragraph mode on code points**: WrapOpts with PreserveParagraphs on a text over a stable vocabulary (with space, hyphen and the placeholder `A`), separators that cannot be found across cluster boundaries (`GoodPara`): the code-point run of the model — paragraph splitting with its look-ahead, affix placeholders, per-paragraph wrap, re-join — is the flattening of the cluster run, for any editor -/
theorem C11_wrapOpts_code_points_para {V : List (List Int)} (hV : VocabStable V = true)
    (hsp : [0x20] ∈ V)
    (hhy : [0x2D] ∈ V)
    (hA : [0x41] ∈ V)
    (hspTail : ∀ t ∈ V, (0x20 : Int) ∉ t.tail)
    (ed : Editor (List Int))
    (ht : ∀ t ∈ ed.text, t ∈ V)
    (width : Int)
    (o : Options (List Int))
    (hpp : o.preservePara = true)
    (hG : GoodPara V (o.withDefaults cxB).lineSep (o.withDefaults cxB).paraSep)
    (hAL : (0x41 : Int) ∉ ((o.withDefaults cxB).lineSep).flatten) :
    Editor.wrapOpts cxA ed.flat width o.flat = (Editor.wrapOpts cxB ed width o).map Editor.flat :=
  wrapOpts_bridge_para hV hsp hhy hA hspTail ed ht width o hpp hG hAL

/-- the hypotheses are satisfiable: the default separators, any text over `demoVocabA` (ASCII
letters, space, hyphen, tab, a decomposed `é`, a flag, newline, `A`), any editor options -/
example (toks : List (List Int)) (ht : ∀ t ∈ toks, t ∈ demoVocabA) (width : Int)
    (o0 o : Options (List Int)) (hpp : o.preservePara = true) (hl : o.lineSep = [])
    (hp : o.paraSep = []) :
    Editor.wrapOpts cxA (.root toks.flatten o0.flat) width o.flat =
      (Editor.wrapOpts cxB (.root toks o0) width o).map Editor.flat :=
  C11_wrapOpts_code_points_para demoVocabA_stable (by decide) (by decide) (by decide)
    (BridgeWrap.spTail_of_spOnly (by decide)) (.root toks o0) ht width o hpp
    (by rw [(default_seps o hl hp).1, (default_seps o hl hp).2]; exact demoVocabA_goodPara)
    (by rw [(default_seps o hl hp).1]; decide)

/-- the same for IndentOpts in paragraph mode -/
theorem C11_indentOpts_code_points_para {V : List (List Int)} (hV : VocabStable V = true)
    (ed : Editor (List Int))
    (ht : ∀ t ∈ ed.text, t ∈ V)
    (level : Int)
    (o : Options (List Int))
    (hpp : o.preservePara = true)
    (hG : GoodPara V (o.withDefaults cxB).lineSep (o.withDefaults cxB).paraSep)
    (hi : ∀ t ∈ o.indentStr, t ≠ []) :
    Editor.indentOpts cxA ed.flat level o.flat =
      (Editor.indentOpts cxB ed level o).map Editor.flat :=
  indentOpts_bridge_para hV ed ht level o hpp hG hi

open RosedVerif.ParaStructure

/-- **PreserveParagraphs, separator without visible affixes** (`AffixFree`: decidable; holds for `\n\n` with `\n`, for any repetition of the line separator, and for an unbordered line separator that is prefix and suffix of the paragraph separator), any well-formed context — arbitrary code points included — and any editor: Wrap returns the paragraph-separator join of `wrapPara` applied to each paragraph; every paragraph separator stays in place (same number of pieces), each piece depends on its own paragraph only, the Options are the receiver's -/
theorem C11_wrap_paragraphwise {α : Type} [DecidableEq α] (cx : Ctx α) (hs : cx.Sane)
    (ed : Editor α)
    (width : Int)
    (o : Options α)
    (hpp : (o.withDefaults cx).preservePara = true)
    (haf : AffixFree (o.withDefaults cx)) :
    ParagraphWise ed (o.withDefaults cx) (wrapPara cx width (o.withDefaults cx).lineSep)
      (ed.wrapOpts cx width o) :=
  wrapOpts_paragraphWise cx hs ed width o hpp haf

/-- the same for Justify -/
theorem C11_justify_paragraphwise {α : Type} [DecidableEq α] (cx : Ctx α) (hs : cx.Sane)
    (ed : Editor α)
    (width : Int)
    (o : Options α)
    (hpp : (o.withDefaults cx).preservePara = true)
    (haf : AffixFree (o.withDefaults cx)) :
    ParagraphWise ed (o.withDefaults cx)
      (justifyParaWith (fun l => justified cx l width) (o.withDefaults cx).lineSep
        (o.withDefaults cx).justifyLast)
      (ed.justifyOpts cx width o) :=
  justifyOpts_paragraphWise cx hs ed width o hpp haf

/-- the same for Align (Left, Right, Center) -/
theorem C11_align_paragraphwise {α : Type} [DecidableEq α] (cx : Ctx α) (hs : cx.Sane)
    (ed : Editor α)
    (align width : Int)
    (o : Options α)
    (hal : align = Gen.alignLeft ∨ align = Gen.alignRight ∨ align = Gen.alignCenter)
    (hpp : (o.withDefaults cx).preservePara = true)
    (haf : AffixFree (o.withDefaults cx)) :
    ParagraphWise ed (o.withDefaults cx)
      (alignParaWith (fun l => alignFn cx align l width) (o.withDefaults cx).lineSep)
      (ed.alignOpts cx align width o) :=
  alignOpts_paragraphWise cx hs ed align width o hal hpp haf

/-- the same for Indent — for EVERY separator pair (the Indent callback ignores the affixes) -/
theorem C11_indent_paragraphwise {α : Type} [DecidableEq α] (cx : Ctx α) (ed : Editor α)
    (level : Int)
    (o : Options α)
    (hl : 1 ≤ level)
    (hpp : (o.withDefaults cx).preservePara = true) :
    ParagraphWise ed (o.withDefaults cx)
      (indentPara (List.replicate level.toNat (o.withDefaults cx).indentStr).flatten
        (o.withDefaults cx).lineSep (o.withDefaults cx).noTrailing)
      (ed.indentOpts cx level o) :=
  indentOpts_paragraphWise cx ed level o hl hpp

/-- … and the per-paragraph result IS the result for the single paragraph: `wrapPara` of a paragraph is the text of the non-paragraph Wrap of that paragraph as an editor of its own (trailing-separator rule included; this is what defect D15 violated) -/
theorem C11_wrap_single {α : Type} [DecidableEq α] (cx : Ctx α) (hs : cx.Sane)
    (width : Int)
    (o : Options α)
    (p : List α) :
    (Editor.root p (single o)).wrapOpts cx width (single o) =
      .ok (Editor.root (wrapPara cx width (o.withDefaults cx).lineSep p) (single o)) :=
  wrapOpts_single cx hs width o p

/-- the same link for Align — for EVERY non-empty line separator, also a self-overlapping one -/
theorem C11_align_single {α : Type} [DecidableEq α] (cx : Ctx α) (align width : Int)
    (o : Options α)
    (hal : align = Gen.alignLeft ∨ align = Gen.alignRight ∨ align = Gen.alignCenter)
    (hsep : (o.withDefaults cx).lineSep ≠ [])
    (p : List α) :
    (Editor.root p (single o)).alignOpts cx align width (single o) =
      .ok (Editor.root (alignParaWith (fun l => alignFn cx align l width)
        (o.withDefaults cx).lineSep p) (single o)) :=
  alignOpts_single cx align width o hal hsep p

/-- the same link for Justify — for EVERY line separator, also a self-overlapping one -/
theorem C11_justify_single {α : Type} [DecidableEq α] (cx : Ctx α) (hs : cx.Sane)
    (hd : cx.dLineSep ≠ [])
    (width : Int)
    (o : Options α)
    (p : List α) :
    (Editor.root p (single o)).justifyOpts cx width (single o) =
      .ok (Editor.root (justifyParaWith (fun l => justified cx l width)
        (o.withDefaults cx).lineSep (o.withDefaults cx).justifyLast p) (single o)) :=
  justifyOpts_single cx hs hd width o p

/-- the same link for Indent -/
theorem C11_indent_single {α : Type} [DecidableEq α] (cx : Ctx α) (level : Int)
    (o : Options α)
    (hl : 1 ≤ level)
    (p : List α) :
    (Editor.root p { o with preservePara := false }).indentOpts cx level
        { o with preservePara := false } =
      .ok (Editor.root (indentPara (List.replicate level.toNat (o.withDefaults cx).indentStr).flatten
        (o.withDefaults cx).lineSep (o.withDefaults cx).noTrailing p)
        { o with preservePara := false }) :=
  indentOpts_single cx level o hl p

end RosedVerif.Props
