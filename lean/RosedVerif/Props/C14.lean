/-
C14 — Two-column layout is the aligned juxtaposition of two wrapped texts.
(a) clauses proved of the SPECIFICATION `Spec.twoColumns` (written from the property statement, every
token type); (b) the MODEL of InsertTwoColumnsOpts at cluster level has exactly that shape
(CombineColumnBlocks, the float percentage arithmetic and both Wrap calls included).
-/
import RosedVerif.Model.InstAFacts
import RosedVerif.Model.CompositeLemmas
import RosedVerif.Spec.CompositeLemmas
import RosedVerif.Model.WrapFits
import RosedVerif.Model.BridgeComposite
import RosedVerif.Model.NoLossModel
namespace RosedVerif.Props
open RosedVerif

/-- both columns are at least 2 wide and, with the gap, fill exactly the minimum-clamped width, for
every percentage from below 0 to above 1, every width, every gap ≥ 0 -/
theorem C14_widths (gap width : Int) (pct : Pct) (hg : 0 ≤ gap) :
    2 ≤ (Spec.colWidths gap width pct).1 ∧ 2 ≤ (Spec.colWidths gap width pct).2 ∧
    ((Spec.colWidths gap width pct).1 : Int) + gap + (Spec.colWidths gap width pct).2 = max width (gap + 4) :=
  Spec.colWidths_spec gap width pct hg

/-- line i is the i-th wrapped left line padded to the left width plus the gap, followed by the i-th
wrapped right line; the right column starts at the same cluster offset on every line; no line exceeds
the total width; max(left, right) lines -/
theorem C14_lines {α : Type} (tk : Spec.Toks α) (left right : List α) (gap width : Int) (pct : Pct)
    (hg : 0 ≤ gap) (i : Nat) (hi : i < (Spec.twoColumns tk left right gap width pct).length) :
    let lw := (Spec.colWidths gap width pct).1
    let rw := (Spec.colWidths gap width pct).2
    let wl := Spec.wrapLines tk lw left
    let wr := Spec.wrapLines tk rw right
    (Spec.twoColumns tk left right gap width pct)[i] =
        Spec.padTo tk (lw + gap.toNat) (wl.getD i []) ++ wr.getD i [] ∧
    ((Spec.twoColumns tk left right gap width pct)[i]).take (lw + gap.toNat) =
        Spec.padTo tk (lw + gap.toNat) (wl.getD i []) ∧
    (Spec.padTo tk (lw + gap.toNat) (wl.getD i [])).length = lw + gap.toNat ∧
    (((Spec.twoColumns tk left right gap width pct)[i]).length : Int) ≤ max width (gap + 4) :=
  Spec.twoColumns_line tk left right gap width pct hg i hi

theorem C14_line_count {α : Type} (tk : Spec.Toks α) (left right : List α) (gap width : Int) (pct : Pct) :
    (Spec.twoColumns tk left right gap width pct).length =
      max (Spec.wrapLines tk (Spec.colWidths gap width pct).1 left).length
          (Spec.wrapLines tk (Spec.colWidths gap width pct).2 right).length :=
  Spec.twoColumns_length tk left right gap width pct

/-- **the model** at cluster level: for every percentage, width, gap ≥ 0 the operation inserts (at the
normalised position, C09) a block whose line i is `left_i ++ spaces up to leftW+gap ++ right_i`, with
both widths ≥ 2 summing to the clamped total, no line longer than the total, trailing separator
exactly when trailing separators are on (`Block.join` with `!noTrailing`) -/
theorem C14_model {α : Type} [DecidableEq α] (cx : Ctx α) (htriv : ∀ s, cx.ends s = List.range' 1 s.length)
    (hsp : cx.isSpace cx.sp = true) (ed : Editor α) (pos : Int) (l r : List α) (gap width : Int) (pct : Pct)
    (o : Options α) (hne : ¬(l.isEmpty ∧ r.isEmpty)) (hg : 0 ≤ gap) :
    ∃ (leftW rightW : Int) (ls : List (List α)), 2 ≤ leftW ∧ 2 ≤ rightW ∧
      leftW + gap + rightW = max width (gap + 4) ∧
      ed.insertTwoColumnsOpts cx pos l r gap width pct o =
        ed.insert cx pos (Block.mk ls (o.withDefaults cx).lineSep (!(o.withDefaults cx).noTrailing)).join ∧
      ls.length = max (colLines cx l leftW (o.withDefaults cx).lineSep).length
        (colLines cx r rightW (o.withDefaults cx).lineSep).length ∧
      (∀ line ∈ ls, (line.length : Int) ≤ max width (gap + 4)) ∧
      ∀ (i : Nat) (hi : i < ls.length),
        ls[i] = (colLines cx l leftW (o.withDefaults cx).lineSep).getD i [] ++
          List.replicate ((leftW + gap).toNat -
            ((colLines cx l leftW (o.withDefaults cx).lineSep).getD i []).length) cx.sp ++
          (colLines cx r rightW (o.withDefaults cx).lineSep).getD i [] ∧
        (ls[i].take (leftW + gap).toNat).length = (leftW + gap).toNat ∧
        ls[i].drop (leftW + gap).toNat = (colLines cx r rightW (o.withDefaults cx).lineSep).getD i [] :=
  insertTwoColumnsOpts_triv_width cx htriv hsp ed pos l r gap width pct o hne hg

/-- on arbitrary code-point texts the operation returns normally (any gap) and never reaches the
explicit panic of the source, whatever the percentage -/
theorem C14_total (ed : Editor Int) (p : Int) (l r : List Int) (g w : Int) (pct : Pct) (o : Options Int) :
    ∃ x, ed.insertTwoColumnsOpts cxA p l r g w pct o = .ok x :=
  insertTwoColumnsOpts_total_A_any ed p l r g w pct o

/-- both texts empty: nothing is inserted -/
theorem C14_empty {α : Type} [DecidableEq α] (cx : Ctx α) (ed : Editor α) (p g w : Int) (pct : Pct)
    (o : Options α) : ed.insertTwoColumnsOpts cx p [] [] g w pct o = .ok ed := by
  simp [Editor.insertTwoColumnsOpts]
  rfl

/-- **bridge to code points** (the public operation, root editor, any options in which the line separator cannot be found across cluster boundaries, `GoodSep`): on a stable vocabulary containing the space and the hyphen, the model of InsertTwoColumnsOpts run on CODE POINTS with the real UAX #29 segmentation returns the flattening of the cluster-level block; every line re-segments to its cluster line, is at most the clamped width in real clusters, has the shape left ++ padding ++ right, and the re-segmented right column starts at cluster `leftW + gap` on every line -/
theorem C14_code_points {V : List (List Int)} (hV : VocabStable V = true)
    (hsp : [0x20] ∈ V)
    (hhy : [0x2D] ∈ V)
    (hspTail : ∀ t ∈ V, (0x20 : Int) ∉ t.tail)
    (toks : List (List Int))
    (ht : ∀ t ∈ toks, t ∈ V)
    (o0 : Options (List Int))
    (pos : Int)
    (l r : List (List Int))
    (hl : ∀ t ∈ l, t ∈ V)
    (hr : ∀ t ∈ r, t ∈ V)
    (gap width : Int)
    (pct : Pct)
    (o : Options (List Int))
    (hS : BridgeOps.GoodSep V (o.withDefaults cxB).lineSep)
    (hne : ¬(l.isEmpty ∧ r.isEmpty))
    (hg : 0 ≤ gap) :
    ∃ (leftW rightW : Int) (ls : List (List (List Int))), 2 ≤ leftW ∧ 2 ≤ rightW ∧
      leftW + gap + rightW = max width (gap + 4) ∧
      Editor.insertTwoColumnsOpts cxA (.root toks.flatten o0.flat) pos l.flatten r.flatten gap width
          pct o.flat =
        .ok (.root (toks.take (Spec.normPos toks.length pos).toNat ++
          (Block.mk ls (o.withDefaults cxB).lineSep (!(o.withDefaults cxB).noTrailing)).join ++
          toks.drop (Spec.normPos toks.length pos).toNat).flatten o0.flat) ∧
      ls.length = max (colLines cxB l leftW (o.withDefaults cxB).lineSep).length
        (colLines cxB r rightW (o.withDefaults cxB).lineSep).length ∧
      (∀ line ∈ ls, clusters cxA line.flatten = line ∧
        (gLen cxA line.flatten : Int) ≤ max width (gap + 4)) ∧
      ∀ (i : Nat) (hi : i < ls.length),
        ls[i] = (colLines cxB l leftW (o.withDefaults cxB).lineSep).getD i [] ++
          List.replicate ((leftW + gap).toNat -
            ((colLines cxB l leftW (o.withDefaults cxB).lineSep).getD i []).length) cxB.sp ++
          (colLines cxB r rightW (o.withDefaults cxB).lineSep).getD i [] ∧
        ((clusters cxA ls[i].flatten).take (leftW + gap).toNat).length = (leftW + gap).toNat ∧
        (clusters cxA ls[i].flatten).drop (leftW + gap).toNat =
          (colLines cxB r rightW (o.withDefaults cxB).lineSep).getD i [] :=
  insertTwoColumnsOpts_bridge_C14 hV hsp hhy hspTail toks ht o0 pos l r hl hr gap width pct o hS hne hg

open RosedVerif.Spec RosedVerif.Spec.NoLoss RosedVerif.NoLossModel RosedVerif.WrapRefine

/-- no text is lost: the words (units) of the left text are recovered in order from the left parts of the lines, those of the right text from the parts after column leftW + gap -/
theorem C14_no_loss {α : Type} (tk : Spec.Toks α) (hsp : tk.ws tk.sp = true)
    (hhy : tk.ws tk.hy = false)
    (left right : List α)
    (gap width : Int)
    (pct : Pct)
    (hg : 0 ≤ gap) :
    let lw := (colWidths gap width pct).1
    let rw := (colWidths gap width pct).2
    let cols := twoColumns tk left right gap width pct
    (cols.map (List.take (lw + gap.toNat))).flatMap (words tk) = units tk lw left ∧
    (cols.map (List.drop (lw + gap.toNat))).flatMap (words tk) = units tk rw right :=
  C14_no_loss_m tk hsp hhy left right gap width pct hg

/-- the same for the MODEL of InsertTwoColumnsOpts at cluster level -/
theorem C14_model_no_loss {α : Type} [DecidableEq α] (cx : Ctx α) (htriv : ∀ s, cx.ends s = List.range' 1 s.length)
    (hsp : cx.isSpace cx.sp = true)
    (hhy : cx.isSpace cx.hy = false)
    (ed : Editor α)
    (pos : Int)
    (l r : List α)
    (gap width : Int)
    (pct : Pct)
    (o : Options α)
    (hne : ¬(l.isEmpty ∧ r.isEmpty))
    (hg : 0 ≤ gap) :
    ∃ (leftW rightW : Int) (ls : List (List α)), 2 ≤ leftW ∧ 2 ≤ rightW ∧
      leftW + gap + rightW = max width (gap + 4) ∧
      ed.insertTwoColumnsOpts cx pos l r gap width pct o =
        ed.insert cx pos (Block.mk ls (o.withDefaults cx).lineSep (!(o.withDefaults cx).noTrailing)).join ∧
      (ls.map (List.take (leftW + gap).toNat)).flatMap (words (toks cx)) =
        units (toks cx) leftW.toNat (replaceAll' cx l (o.withDefaults cx).lineSep) ∧
      (ls.map (List.drop (leftW + gap).toNat)).flatMap (words (toks cx)) =
        units (toks cx) rightW.toNat (replaceAll' cx r (o.withDefaults cx).lineSep) ∧
      (HyOK (toks cx) leftW.toNat (replaceAll' cx l (o.withDefaults cx).lineSep) →
        dehyphen (toks cx) leftW.toNat (ls.map (List.take (leftW + gap).toNat)) =
          words (toks cx) (replaceAll' cx l (o.withDefaults cx).lineSep)) ∧
      (HyOK (toks cx) rightW.toNat (replaceAll' cx r (o.withDefaults cx).lineSep) →
        dehyphen (toks cx) rightW.toNat (ls.map (List.drop (leftW + gap).toNat)) =
          words (toks cx) (replaceAll' cx r (o.withDefaults cx).lineSep)) :=
  C14_model_no_loss_m cx htriv hsp hhy ed pos l r gap width pct o hne hg

end RosedVerif.Props
