/-
C14 — Two-column layout is the aligned juxtaposition of two wrapped texts.
(first instalment: column widths and totality; the juxtaposition clauses follow in CompositeLemmas)
-/
import RosedVerif.Model.InstAFacts
namespace RosedVerif.Props
open RosedVerif

/-- for EVERY percentage (below 0, above 1, anything between), every width and every gap both
columns are at least 2 wide and the operation continues with the wrap-and-combine body — the
explicit panic of the source is unreachable -/
theorem C14_columns_at_least_two {α : Type} [DecidableEq α] (cx : Ctx α) (ed : Editor α) (pos : Int)
    (l r : List α) (gap width : Int) (pct : Pct) (o : Options α) (hne : ¬(l.isEmpty ∧ r.isEmpty)) :
    ∃ leftW rightW, 2 ≤ leftW ∧ 2 ≤ rightW ∧
      ed.insertTwoColumnsOpts cx pos l r gap width pct o = twoColBody cx ed pos l r gap leftW rightW o :=
  insertTwoColumnsOpts_eq cx ed pos l r gap width pct o hne

/-- at cluster level the whole operation is total for every gap ≥ 0 -/
theorem C14_total_clusters {α : Type} [DecidableEq α] (cx : Ctx α)
    (htriv : ∀ s, cx.ends s = List.range' 1 s.length) (hb : ∀ a, 0 < cx.blen a) (ed : Editor α) (p : Int)
    (l r : List α) (g w : Int) (pct : Pct) (o : Options α) (hg : 0 ≤ g) :
    ∃ x, ed.insertTwoColumnsOpts cx p l r g w pct o = .ok x :=
  insertTwoColumnsOpts_total_triv cx htriv hb ed p l r g w pct o hg

/-- both texts empty: nothing is inserted -/
theorem C14_empty {α : Type} [DecidableEq α] (cx : Ctx α) (ed : Editor α) (p g w : Int) (pct : Pct)
    (o : Options α) : ed.insertTwoColumnsOpts cx p [] [] g w pct o = .ok ed := by
  simp [Editor.insertTwoColumnsOpts]
  rfl

end RosedVerif.Props
