/-
C19 — Grapheme strings are pure values: cached boundaries never go stale.
Layer H (Heap/Model.lean) models gem.String with its shared, lazily filled cache cells; the
invariant `Inv` says every cell is either empty or holds exactly the boundaries of its value's
content.  The only non-trivial step (Sub: slice + rebase of cached ends) is discharged by the
context-freeness of the segmentation at boundaries (`sliceOK`, from Gem/Theory.lean).
-/
import RosedVerif.Model.InstAFacts
namespace RosedVerif.Props
open RosedVerif RosedVerif.H

/-- the invariant holds initially … -/
theorem C19_init : Inv Heap.init [] := inv_init

/-- … and is preserved by every operation the property quantifies over, with the result appended to
the pool (so: in every history) -/
theorem C19_new (h pool rs) (hi : Inv h pool) : Inv (new rs h).1 ((new rs h).2.1 :: pool) := inv_new h pool rs hi
theorem C19_add (h pool v w) (hi : Inv h pool) : Inv (add v w h).1 ((add v w h).2.1 :: pool) := inv_add h pool v w hi
theorem C19_sub (h pool v st en) (hi : Inv h pool) (hv : v ∈ pool) :
    Inv (sub v st en h).1 ((sub v st en h).2.1 :: pool) := inv_sub sliceOK h pool v st en hi hv
theorem C19_setCharAt (h pool v i r) (hi : Inv h pool) :
    match (setCharAt v i r h).2.1 with
    | .ok res => Inv (setCharAt v i r h).1 (res :: pool)
    | .error _ => Inv (setCharAt v i r h).1 pool := inv_setCharAt h pool v i r hi
theorem C19_repeat (h pool v count) (hi : Inv h pool) :
    Inv («repeat» v count h).1 ((«repeat» v count h).2.1 :: pool) := inv_repeat h pool v count hi
theorem C19_len (h pool v) (hi : Inv h pool) (hv : v ∈ pool) : Inv (len v h).1 pool := inv_len h pool v hi hv
theorem C19_charAt (h pool v i) (hi : Inv h pool) (hv : v ∈ pool) : Inv (charAt v i h).1 pool :=
  inv_charAt h pool v i hi hv
theorem C19_graphemeIndexes (h pool v) (hi : Inv h pool) (hv : v ∈ pool) :
    Inv (graphemeIndexes v h).1 pool := inv_graphemeIndexes h pool v hi hv
theorem C19_runes (h pool v) (hi : Inv h pool) : Inv (runes v h).1 pool := inv_runes h pool v hi

/-- under the invariant every observer answers exactly as a value freshly built from the same content
would (`cxA.ends = splitRunes` is the fresh segmentation) -/
theorem C19_len_pure {h pool v} (hi : Inv h pool) (hv : v ∈ zero :: pool) :
    (len v h).2.1 = gLen cxA v.runes := len_pure cxA cxA_ends hi hv
theorem C19_boundaries_pure {h pool v} (hi : Inv h pool) (hv : v ∈ zero :: pool) :
    (graphemeIndexes v h).2.1 = splitRunes v.runes := graphemeIndexes_pure cxA cxA_ends hi hv
theorem C19_charAt_pure {h pool v} (i : Int) (hi : Inv h pool) (hv : v ∈ zero :: pool) :
    (charAt v i h).2.1 = gCharAt cxA v.runes i := charAt_pure cxA cxA_ends i hi hv
theorem C19_sub_pure {h pool v} (st en : Int) (hi : Inv h pool) (hv : v ∈ zero :: pool) :
    (sub v st en h).2.1.runes = gSub cxA v.runes st en := sub_pure cxA cxA_ends st en hi hv
theorem C19_setCharAt_pure {h pool v} (i : Int) (r : List Int) (hi : Inv h pool) (hv : v ∈ zero :: pool) :
    (setCharAt v i r h).2.1.map GStr.runes = gSetCharAt cxA v.runes i r :=
  setCharAt_pure cxA cxA_ends i r hi hv
theorem C19_add_pure (v w : GStr) (h : Heap) : (add v w h).2.1.runes = v.runes ++ w.runes := add_pure v w h
theorem C19_repeat_pure (v : GStr) (count : Int) (h : Heap) :
    («repeat» v count h).2.1.runes = gRepeat v.runes count := repeat_pure v count h

/-- no operand is altered: a filled cache cell never changes, under ANY call -/
theorem C19_frame (k : Call) (h : Heap) (c : Nat) (x : List Nat) (hx : h.get c = some x) :
    (k.run h).1.get c = some x := frame k h c x hx

/-- boundaries always partition the code points — strictly increasing, ending at the length, no
empty cluster — for arbitrary rune values -/
theorem C19_partition (s : List Int) : Part (splitRunes s) s.length := part_splitRunes s

/-- the context-freeness that makes `Sub` correct, for strings of any length -/
theorem C19_slice : SliceOK := sliceOK

/-! non-vacuity: a concrete reachable history keeps the invariant and fills a cache -/
example : (sub ⟨[0x65, 0x301, 0x61, 0x62], none⟩ 1 3 Heap.init).2.1.runes = [0x61, 0x62] := by decide +kernel

end RosedVerif.Props
