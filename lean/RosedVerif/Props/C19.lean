/-
C19 — Grapheme strings are pure values: cached boundaries never go stale.
Layer H (Heap/Model.lean) models gem.String with its shared, lazily filled cache cells; the
invariant `Inv` says every cell is either empty or holds exactly the boundaries of its value's
content.  The only non-trivial step (Sub: slice + rebase of cached ends) is discharged by the
context-freeness of the segmentation at boundaries (`sliceOK`, from Gem/Theory.lean).
-/
import RosedVerif.Model.InstAFacts
import RosedVerif.Heap.Histories
namespace RosedVerif.Props
open RosedVerif RosedVerif.H

/-- the invariant holds initially … -/
theorem C19_init : Inv Heap.init [] := inv_init

/-- … and is preserved by every operation the property quantifies over, with the result appended to
the pool (so: in every history) -/
theorem C19_new (h pool rs) (hi : Inv h pool) : Inv (new rs h).1 ((new rs h).2.1 :: pool) := inv_new h pool rs hi
theorem C19_add (h pool v w) (hi : Inv h pool) : Inv (add v w h).1 ((add v w h).2.1 :: pool) := inv_add h pool v w hi
theorem C19_sub (h pool v st en) (hi : Inv h pool) (hv : v ∈ pool) :
    Inv (sub v st en h).1 ((sub v st en h).2.1 :: pool) := inv_sub sliceOK h pool v st en hi hv
theorem C19_setCharAt (h pool v i r) (hi : Inv h pool) :
    match (setCharAt v i r h).2.1 with
    | .ok res => Inv (setCharAt v i r h).1 (res :: pool)
    | .error _ => Inv (setCharAt v i r h).1 pool := inv_setCharAt h pool v i r hi
theorem C19_repeat (h pool v count) (hi : Inv h pool) :
    Inv («repeat» v count h).1 ((«repeat» v count h).2.1 :: pool) := inv_repeat h pool v count hi
theorem C19_len (h pool v) (hi : Inv h pool) (hv : v ∈ pool) : Inv (len v h).1 pool := inv_len h pool v hi hv
theorem C19_charAt (h pool v i) (hi : Inv h pool) (hv : v ∈ pool) : Inv (charAt v i h).1 pool :=
  inv_charAt h pool v i hi hv
theorem C19_graphemeIndexes (h pool v) (hi : Inv h pool) (hv : v ∈ pool) :
    Inv (graphemeIndexes v h).1 pool := inv_graphemeIndexes h pool v hi hv
theorem C19_runes (h pool v) (hi : Inv h pool) : Inv (runes v h).1 pool := inv_runes h pool v hi

/-- under the invariant every observer answers exactly as a value freshly built from the same content
would (`cxA.ends = splitRunes` is the fresh segmentation) -/
theorem C19_len_pure {h pool v} (hi : Inv h pool) (hv : v ∈ zero :: pool) :
    (len v h).2.1 = gLen cxA v.runes := len_pure cxA cxA_ends hi hv
theorem C19_boundaries_pure {h pool v} (hi : Inv h pool) (hv : v ∈ zero :: pool) :
    (graphemeIndexes v h).2.1 = splitRunes v.runes := graphemeIndexes_pure cxA cxA_ends hi hv
theorem C19_charAt_pure {h pool v} (i : Int) (hi : Inv h pool) (hv : v ∈ zero :: pool) :
    (charAt v i h).2.1 = gCharAt cxA v.runes i := charAt_pure cxA cxA_ends i hi hv
theorem C19_sub_pure {h pool v} (st en : Int) (hi : Inv h pool) (hv : v ∈ zero :: pool) :
    (sub v st en h).2.1.runes = gSub cxA v.runes st en := sub_pure cxA cxA_ends st en hi hv
theorem C19_setCharAt_pure {h pool v} (i : Int) (r : List Int) (hi : Inv h pool) (hv : v ∈ zero :: pool) :
    (setCharAt v i r h).2.1.map GStr.runes = gSetCharAt cxA v.runes i r :=
  setCharAt_pure cxA cxA_ends i r hi hv
theorem C19_add_pure (v w : GStr) (h : Heap) : (add v w h).2.1.runes = v.runes ++ w.runes := add_pure v w h
theorem C19_repeat_pure (v : GStr) (count : Int) (h : Heap) :
    («repeat» v count h).2.1.runes = gRepeat v.runes count := repeat_pure v count h

/-- no operand is altered: a filled cache cell never changes, under ANY call -/
theorem C19_frame (k : Call) (h : Heap) (c : Nat) (x : List Nat) (hx : h.get c = some x) :
    (k.run h).1.get c = some x := frame k h c x hx

/-- boundaries always partition the code points — strictly increasing, ending at the length, no
empty cluster — for arbitrary rune values -/
theorem C19_partition (s : List Int) : Part (splitRunes s) s.length := part_splitRunes s

/-- the context-freeness that makes `Sub` correct, for strings of any length -/
theorem C19_slice : SliceOK := sliceOK

/-! non-vacuity: a concrete reachable history keeps the invariant and fills a cache -/
example : (sub ⟨[0x65, 0x301, 0x61, 0x62], none⟩ 1 3 Heap.init).2.1.runes = [0x61, 0x62] := by decide +kernel


/-! ### C19 over ALL histories (pool machine `H.Op` / `H.step` / `H.run`, Heap/Histories.lean) -/

/-- after any sequence of New/Add/Sub/SetCharAt/Repeat/Len/CharAt/GraphemeIndexes/Runes over a pool of
values including the shared zero value, the invariant holds -/
theorem C19_histories (ops : List H.Op) : Inv (H.run ops).1 (H.run ops).2 := H.histories_inv ops

/-- … also when the history starts from any state satisfying the invariant (e.g. a pool holding
never-initialized `gem.String{}` values) -/
theorem C19_histories_from (s : Heap × List GStr) (ops : List H.Op) (hi : Inv s.1 s.2) :
    Inv (H.runFrom s ops).1 (H.runFrom s ops).2 := H.runFrom_inv s ops hi

/-- every value of every history observes exactly as a value freshly built from the same content -/
theorem C19_histories_pure (ops : List H.Op) : ∀ v ∈ zero :: (H.run ops).2,
    (len v (H.run ops).1).2.1 = gLen cxA v.runes ∧
    (graphemeIndexes v (H.run ops).1).2.1 = splitRunes v.runes ∧
    (∀ i : Int, (charAt v i (H.run ops).1).2.1 = gCharAt cxA v.runes i) ∧
    (runes v (H.run ops).1).2.1 = v.runes := H.histories_pure ops

/-- … literally: as `New(v.runes)` executed at the end of any other history `ops'` observes -/
theorem C19_histories_pure_fresh (ops ops' : List H.Op) : ∀ v ∈ zero :: (H.run ops).2,
    (len v (H.run ops).1).2.1 = (len (new v.runes (H.run ops').1).2.1 (new v.runes (H.run ops').1).1).2.1 ∧
    (graphemeIndexes v (H.run ops).1).2.1 =
      (graphemeIndexes (new v.runes (H.run ops').1).2.1 (new v.runes (H.run ops').1).1).2.1 ∧
    (∀ i : Int, (charAt v i (H.run ops).1).2.1 =
      (charAt (new v.runes (H.run ops').1).2.1 i (new v.runes (H.run ops').1).1).2.1) ∧
    (runes v (H.run ops).1).2.1 = (runes (new v.runes (H.run ops').1).2.1 (new v.runes (H.run ops').1).1).2.1 :=
  H.histories_pure_fresh ops ops'

/-- no operand is altered by the next step of any history -/
theorem C19_histories_operands_unchanged (ops : List H.Op) (op : H.Op) :
    ((H.step (H.run ops) op).2 = (H.run ops).2 ∨ ∃ r, (H.step (H.run ops) op).2 = r :: (H.run ops).2) ∧
    (∀ i, i < (H.run ops).2.length → H.pick (H.step (H.run ops) op).2 i = H.pick (H.run ops).2 i) ∧
    (∀ v ∈ zero :: (H.run ops).2,
      (len v (H.step (H.run ops) op).1).2.1 = (len v (H.run ops).1).2.1 ∧
      (graphemeIndexes v (H.step (H.run ops) op).1).2.1 = (graphemeIndexes v (H.run ops).1).2.1 ∧
      (∀ i : Int, (charAt v i (H.step (H.run ops) op).1).2.1 = (charAt v i (H.run ops).1).2.1) ∧
      (runes v (H.step (H.run ops) op).1).2.1 = (runes v (H.run ops).1).2.1 ∧
      (∀ c x, v.cell = some c → (H.run ops).1.get c = some x → (H.step (H.run ops) op).1.get c = some x)) :=
  H.histories_operands_unchanged ops op

/-- boundaries of every value of every history partition its code points -/
theorem C19_histories_partition (ops : List H.Op) :
    ∀ v ∈ (H.run ops).2, Part (splitRunes v.runes) v.runes.length := H.histories_partition ops

/-- … including what the cache cell actually holds and what `GraphemeIndexes` actually returns -/
theorem C19_histories_partition_cached (ops : List H.Op) : ∀ v ∈ zero :: (H.run ops).2,
    Part (graphemeIndexes v (H.run ops).1).2.1 v.runes.length ∧
    ∀ c e, v.cell = some c → (H.run ops).1.get c = some e → Part e v.runes.length :=
  H.histories_partition_cached ops

end RosedVerif.Props
