import RosedVerif.Heap.Model
