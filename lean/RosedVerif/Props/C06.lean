import RosedVerif.Spec.Layout
