/-
C06 — Wrap: no line exceeds the width; breaking is greedy and stable.

Layer B: a text is a list of tokens, one per grapheme cluster (`tk.ws` marks whitespace).  The
clauses are proved for the greedy-wrap specification `Spec.wrapLines`, for every token type; and the
MODEL of manip.Wrap (the transliterated Go loops with their fuel) is proved to BE that specification
whenever every atom is its own cluster (`C06_refines`).  The step from code points to clusters is
tied by the correspondence check on stable vocabularies (DESIGN.md section 3, bridge A→B).
-/
import RosedVerif.Spec.WrapLemmas
import RosedVerif.Model.WrapRefine
import RosedVerif.Model.WrapFits
import RosedVerif.Model.BridgeWrap
import RosedVerif.Model.BridgeOps
import RosedVerif.Model.OpsStructure
import RosedVerif.Model.NoLossOps
import RosedVerif.Model.BridgeEditorOps
namespace RosedVerif.Props
open RosedVerif RosedVerif.Spec

variable {α : Type} (tk : Toks α)

/-- (1) after wrapping to width w ≥ 2 every line holds at most w clusters -/
theorem C06_width {w : Nat} (hw : 2 ≤ w) (l : List α) : ∀ line ∈ Spec.wrapLines tk w l, line.length ≤ w :=
  wrapLines_width tk hw l

/-- (2) no line is empty when the text has any word -/
theorem C06_no_empty_line {w : Nat} (hw : 2 ≤ w) (l : List α) (h : words tk l ≠ []) :
    ∀ line ∈ Spec.wrapLines tk w l, line ≠ [] := wrapLines_nonempty tk hw l h

/-- (2,3) the lines are an ordered partition of the units (words, or pieces of over-long words), each
line being its units joined by exactly ONE space — so no line starts or ends with a space —, and
breaking is greedy: the first unit of a line would not have fitted on the previous line -/
theorem C06_greedy {w : Nat} (hw : 2 ≤ w) (l : List α) (h : l ≠ []) :
    ∃ groups : List (List (List α)), groups.flatten = units tk w l ∧ (∀ g ∈ groups, g ≠ []) ∧
      Spec.wrapLines tk w l = groups.map (joinSp tk) ∧ Greedy tk w groups ∧
      (∀ g ∈ groups, (joinSp tk g).length ≤ w) := wrapLines_partition tk hw l h

/-- (4) a word is split only when it is longer than w … -/
theorem C06_split_only_long {w : Nat} (word : List α) (f : Nat) (h : word.length ≤ w) :
    pieces tk w f word = [word] := pieces_single tk word f h

/-- … every non-final piece is exactly w-1 clusters plus a hyphen, and removing those hyphens gives
back the word -/
theorem C06_piece_shape {w : Nat} (hw : 2 ≤ w) (word : List α) (f : Nat) (hf : word.length ≤ f) :
    ∀ p ∈ (pieces tk w f word).dropLast, p.length = w ∧ p.getLast? = some tk.hy :=
  pieces_shape tk hw word f hf

theorem C06_unhyphen {w : Nat} (hw : 2 ≤ w) (word : List α) (f : Nat) (hf : word.length ≤ f) :
    unhyphen (pieces tk w f word) = word := pieces_unhyphen tk hw word f hf

/-- (5) wrapping already wrapped text (lines rejoined by a separator, which acts as a space) to the
same width changes nothing -/
theorem C06_idempotent {w : Nat} (hw : 2 ≤ w) (hsp : tk.ws tk.sp = true) (hhy : tk.ws tk.hy = false)
    (l : List α) (h : words tk l ≠ []) :
    Spec.wrapLines tk w (List.intercalate [tk.sp] (Spec.wrapLines tk w l)) = Spec.wrapLines tk w l :=
  wrapLines_idem tk hw hsp hhy l h

/-- **refinement**: for every context in which each atom is its own cluster, the model of manip.Wrap
(CollapseSpace + the character loop + appendWordToWrappedLine, all widths incl. the clamp to 2, all
separators) computes exactly the specification above -/
theorem C06_refines [DecidableEq α] (cx : Ctx α) (htriv : ∀ s, cx.ends s = List.range' 1 s.length)
    (hsp : cx.isSpace cx.sp = true) (text : List α) (w : Int) (sep : List α) :
    RosedVerif.wrapLines cx text w sep =
      .ok (Spec.wrapLines ⟨cx.isSpace, cx.sp, cx.hy⟩ (max w 2).toNat (replaceAll' cx text sep)) :=
  wrapLines_triv cx htriv hsp text w sep

/-- **(1) for ALL texts**: on arbitrary code points — lone marks, Prepend characters, odd flag halves,
any whitespace — with the real segmentation, no line produced by the model of manip.Wrap exceeds the
(clamped) width.  Uses sub-additivity of the cluster count, `len (a ++ b) ≤ len a + len b`, itself
proved from the finite-state form of the rule chain. -/
theorem C06_width_all (text : List Int) (w : Int) (sep : List Int) (r : List (List Int))
    (h : RosedVerif.wrapLines cxA text w sep = .ok r) : ∀ l ∈ r, (gLen cxA l : Int) ≤ max w 2 :=
  wrapLines_width_all text w sep r h

theorem C06_subadditive (a b : List Int) :
    (splitRunes (a ++ b)).length ≤ (splitRunes a).length + (splitRunes b).length :=
  splitRunes_length_append_le a b

/-- **bridge to code points**: on a stable vocabulary `V` (decidable: every concatenation of
vocabulary clusters segments back into those clusters, `VocabStable`), containing the space and the
hyphen and with no U+0020 hidden in a non-head position of a cluster, the model of manip.Wrap run
on CODE POINTS with the real UAX #29 segmentation succeeds, and segmenting its lines gives back
exactly the greedy specification on clusters.  Hence every clause above (width, single spaces,
greedy, hyphenation shape, idempotence) holds for such code-point text — precomposed or
decomposed accents, flags, ZWJ sequences, jamo alike. -/
theorem C06_code_points {V : List (List Int)} (hV : VocabStable V = true) (hsp : [0x20] ∈ V)
    (hhy : [0x2D] ∈ V) (hspTail : ∀ t ∈ V, (0x20 : Int) ∉ t.tail)
    (toks : List (List Int)) (ht : ∀ t ∈ toks, t ∈ V) (w : Int) :
    ∃ r, RosedVerif.wrapLines cxA toks.flatten w [] = .ok r ∧
      r.map (clusters cxA) = Spec.wrapLines ⟨cxB.isSpace, cxB.sp, cxB.hy⟩ (max w 2).toNat toks ∧
      r.map (gLen cxA) =
        (Spec.wrapLines ⟨cxB.isSpace, cxB.sp, cxB.hy⟩ (max w 2).toNat toks).map List.length :=
  wrapLines_bridge_clusters hV hsp hhy hspTail toks ht w

/-- the side condition is needed: with the cluster ⟨U+0600 U+0020⟩ (Prepend + space) in the
vocabulary the rune-level space collapsing merges a space INSIDE a cluster with the next one -/
theorem C06_code_points_needs_spTail :
    VocabStable [[0x61], [0x20], [0x600, 0x20]] = true ∧
    collapseSpace cxA ([[0x600, 0x20], [0x20], [0x61]] : List (List Int)).flatten [] =
      .ok [0x600, 0x20, 0x61] := by
  exact ⟨BridgeWrap.spTail_needed.1, BridgeWrap.spTail_needed.2.1⟩

/-- non-vacuity of the bridge: a vocabulary with a decomposed accent, a flag and a tab -/
example : VocabStable BridgeWrap.demoVocab2 = true ∧ [0x20] ∈ BridgeWrap.demoVocab2 ∧
    [0x2D] ∈ BridgeWrap.demoVocab2 ∧ ∀ t ∈ BridgeWrap.demoVocab2, (0x20 : Int) ∉ t.tail :=
  ⟨BridgeWrap.demoVocab2_stable, by decide, by decide, BridgeWrap.demoVocab2_spTail⟩

/-- **the public operation on code points**: `Edit(text).Wrap(w)` with default options, `text` any
concatenation of clusters of a stable vocabulary (space, hyphen included; U+0020 and U+000A in no
other cluster) that is empty or has a non-whitespace cluster.  The model of Editor.WrapOpts — line
separator pre-pass, CollapseSpace, the wrap loop, Block.Join, trailing-separator rule — run on
the CODE POINTS with the real segmentation returns a text whose lines (split at U+000A), each
re-segmented, are exactly the greedy specification's lines on the clusters, followed by one empty
line exactly when the input ended with the separator ("ends with a line separator exactly when
the input did"). -/
theorem C06_wrap_default_code_points {V : List (List Int)} (hV : VocabStable V = true)
    (hsp : [0x20] ∈ V) (hhy : [0x2D] ∈ V)
    (hspTail : ∀ t ∈ V, (0x20 : Int) ∉ t.tail) (hnl : ∀ t ∈ V, (0x0A : Int) ∈ t → t = [0x0A])
    (toks : List (List Int)) (ht : ∀ t ∈ toks, t ∈ V) (w : Int)
    (hne : toks = [] ∨ ∃ t ∈ toks, cxB.isSpace t = false) :
    ∃ e, Editor.wrapOpts cxA (.root toks.flatten {}) w {} = .ok e ∧
      (splitOn e.text [0x0A]).map (clusters cxA) =
        Spec.wrapLines ⟨cxB.isSpace, cxB.sp, cxB.hy⟩ (max w 2).toNat
            (replaceAll' cxB toks [[0x0A]]) ++
          (if ([[0x0A]] : List (List Int)).isSuffixOf toks then [[]] else []) :=
  wrapOpts_default_bridge_lines' hV hsp hhy hspTail hnl toks ht w hne

/-- the same bridge for ANY options in non-paragraph mode and any editor (sub-editors included),
as an equation between the two instances of the model: the code-point run is the flattening of
the cluster run.  `GoodSep` (decidable-in-practice side condition on the line separator: single
rune, single multi-rune cluster such as CR LF, or a list of marker clusters such as "\n\n") says
the separator cannot be found across cluster boundaries. -/
theorem C06_wrapOpts_code_points {V : List (List Int)} (hV : VocabStable V = true) (hsp : [0x20] ∈ V)
    (hspTail : ∀ t ∈ V, (0x20 : Int) ∉ t.tail)
    (ed : Editor (List Int)) (ht : ∀ t ∈ ed.text, t ∈ V) (w : Int) (o' : Options (List Int))
    (hpp : o'.preservePara = false) (hS : BridgeOps.GoodSep V (o'.withDefaults cxB).lineSep) :
    Editor.wrapOpts cxA ed.flat w o'.flat = (Editor.wrapOpts cxB ed w o').map Editor.flat :=
  BridgeOps.wrapOpts_bridge_good hV hsp hspTail ed ht w o' hpp hS

/-! non-vacuity -/
example : Spec.wrapLines ⟨(· == 0), 0, 99⟩ 5 [1, 2, 3, 0, 4, 5, 6, 7, 8, 9, 0, 1] =
    [[1, 2, 3], [4, 5, 6, 7, 99], [8, 9, 0, 1]] := by decide

open RosedVerif.OpsStructure

/-- (6) the public operation, any well-formed context (so: arbitrary code points with the real segmentation, `cxA_Sane`), any editor, non-paragraph mode: the result is the wrapped lines joined by the line separator, plus ONE more separator exactly when the input ended with one — "the result ends with a line separator exactly when the input did" (up to a last wrapped line that itself spells the separator, e.g. separator "-" and a hyphenated break) -/
theorem C06_trailing_separator {α : Type} [DecidableEq α] (cx : Ctx α) (hs : cx.Sane)
    (ed : Editor α)
    (width : Int)
    (o : Options α)
    (hpp : (o.withDefaults cx).preservePara = false) :
    ∃ lines', wrapLines cx ed.text (max width 2) (o.withDefaults cx).lineSep = .ok lines' ∧
      ed.wrapOpts cx width o =
        .ok (ed.withText (joinWith (o.withDefaults cx).lineSep lines' ++
          (if (o.withDefaults cx).lineSep.isSuffixOf ed.text then (o.withDefaults cx).lineSep
           else []))) :=
  wrapOpts_structure_sane cx hs ed width o hpp

section C06_public
open RosedVerif.NoLossOps RosedVerif.BridgeOps

/-- **(5) at the public level**: wrapping already wrapped text to the same width with the same
options changes nothing — code points over a stable vocabulary with space and hyphen,
non-paragraph mode, any editor, line separator = ONE vocabulary cluster other than the hyphen.
(The trailing-separator clause is `C06_trailing_separator`.) -/
theorem C06_wrapOpts_idempotent_code_points {V : List (List Int)} (hV : VocabStable V = true)
    (hsp : [0x20] ∈ V) (hhy : [0x2D] ∈ V) (hspTail : ∀ t ∈ V, (0x20 : Int) ∉ t.tail)
    (ed : Editor (List Int)) (ht : ∀ t ∈ ed.text, t ∈ V) (w : Int) (o : Options (List Int))
    (hpp : o.preservePara = false) (s : List Int) (hs : (o.withDefaults cxB).lineSep = [s])
    (hsV : s ∈ V) (hshy : s ≠ [0x2D]) (hS : GoodSep V [s]) :
    (Editor.wrapOpts cxA ed.flat w o.flat >>= fun e => Editor.wrapOpts cxA e w o.flat) =
      Editor.wrapOpts cxA ed.flat w o.flat :=
  wrapOpts_idempotent_code_points hV hsp hhy hspTail ed ht w o hpp s hs hsV hshy hS

/-- the separator must not be the hyphen (FINDING, documented caveat of `C06_trailing_separator`):
`"abcd"`, width 3, separator `"-"` → `"ab--cd"` → `"ab-cd"` -/
theorem C06_wrapOpts_idempotent_needs_not_hyphen :
    VocabStable [[0x61], [0x62], [0x63], [0x64], [0x20], [0x2D]] = true ∧
    (Editor.wrapOpts cxA (.root [0x61, 0x62, 0x63, 0x64] {}) 3 { lineSep := [0x2D] }).map
        Editor.text = .ok [0x61, 0x62, 0x2D, 0x2D, 0x63, 0x64] ∧
    (Editor.wrapOpts cxA (.root [0x61, 0x62, 0x63, 0x64] {}) 3 { lineSep := [0x2D] } >>=
      fun e => Editor.wrapOpts cxA e 3 { lineSep := [0x2D] }).map Editor.text =
        .ok [0x61, 0x62, 0x2D, 0x63, 0x64] :=
  wrapOpts_idem_needs_not_hyphen

/-- `[0x2D] ∈ V` restricts no text: the hyphen can be added to every stable vocabulary with the space -/
theorem C06_hyphen_can_be_added {V : List (List Int)} (hV : VocabStable V = true)
    (hsp : [0x20] ∈ V) : VocabStable ([0x2D] :: V) = true :=
  vocabStable_cons_hyphen hV hsp

end C06_public

end RosedVerif.Props
