/-
C17 — Unset options equal their defaults; XOpts equals WithOptions(o).X.
-/
import RosedVerif.Model.InstAFacts
import RosedVerif.Model.OptionsLemmas
import RosedVerif.Gen.Facts
import RosedVerif.Model.ReceiverOptions
namespace RosedVerif.Props
open RosedVerif

/-- WithDefaults is idempotent whenever the completed table character set has three clusters —
the decidable side condition `CharsetOK` (it fails only when a Prepend-class character swallows the
default character appended after it: known finding D10) -/
def CharsetOK (o : Options Int) : Prop := gLen cxA (o.withDefaults cxA).charset = gLen cxA cxA.dCharset

theorem C17_idempotent (o : Options Int) (h : CharsetOK o) :
    (o.withDefaults cxA).withDefaults cxA = o.withDefaults cxA := withDefaults_idem' cxA o h

theorem C17_three_clusters (o : Options Int) (h : CharsetOK o) : gLen cxA (o.withDefaults cxA).charset = 3 := by
  rw [h]; decide +kernel

/-- at cluster level (one token per cluster) no side condition is needed -/
theorem C17_idempotent_clusters {α : Type} (cx : Ctx α) (htriv : ∀ s, cx.ends s = List.range' 1 s.length)
    (h3 : cx.dCharset.length = 3) (o : Options α) :
    (o.withDefaults cx).withDefaults cx = o.withDefaults cx ∧ ((o.withDefaults cx).charset).length = 3 :=
  withDefaults_idem_triv cx htriv h3 o

/-- unset string fields behave as their documented defaults -/
theorem C17_fields (o : Options Int) :
    (o.withDefaults cxA).lineSep = (if o.lineSep.isEmpty then cxA.dLineSep else o.lineSep) ∧
    (o.withDefaults cxA).indentStr = (if o.indentStr.isEmpty then cxA.dIndent else o.indentStr) ∧
    (o.withDefaults cxA).paraSep = (if o.paraSep.isEmpty then cxA.dParaSep else o.paraSep) ∧
    (o.withDefaults cxA).noTrailing = o.noTrailing ∧
    (o.withDefaults cxA).preservePara = o.preservePara ∧
    (o.withDefaults cxA).justifyLast = o.justifyLast ∧
    (o.withDefaults cxA).borders = o.borders ∧
    (o.withDefaults cxA).headers = o.headers := withDefaults_fields cxA o

/-- every XOpts depends on its Options only through their defaulted form: a zero Options value, its
WithDefaults() form and any mixture of explicitly default fields give identical results -/
theorem C17_wrap (ed : Editor Int) (w : Int) (o : Options Int) (h : CharsetOK o) :
    ed.wrapOpts cxA w o = ed.wrapOpts cxA w (o.withDefaults cxA) := wrapOpts_defaults cxA ed w o (C17_idempotent o h)
theorem C17_justify (ed : Editor Int) (w : Int) (o : Options Int) (h : CharsetOK o) :
    ed.justifyOpts cxA w o = ed.justifyOpts cxA w (o.withDefaults cxA) := justifyOpts_defaults cxA ed w o (C17_idempotent o h)
theorem C17_align (ed : Editor Int) (a w : Int) (o : Options Int) (h : CharsetOK o) :
    ed.alignOpts cxA a w o = ed.alignOpts cxA a w (o.withDefaults cxA) := alignOpts_defaults cxA ed a w o (C17_idempotent o h)
theorem C17_collapse (ed : Editor Int) (o : Options Int) (h : CharsetOK o) :
    ed.collapseSpaceOpts cxA o = ed.collapseSpaceOpts cxA (o.withDefaults cxA) :=
  collapseSpaceOpts_defaults cxA ed o (C17_idempotent o h)
theorem C17_indent (ed : Editor Int) (l : Int) (o : Options Int) (h : CharsetOK o) :
    ed.indentOpts cxA l o = ed.indentOpts cxA l (o.withDefaults cxA) := indentOpts_defaults cxA ed l o (C17_idempotent o h)
theorem C17_apply (ed : Editor Int) (f : Nat → List Int → List (List Int)) (o : Options Int) (h : CharsetOK o) :
    ed.applyOpts cxA f o = ed.applyOpts cxA f (o.withDefaults cxA) := applyOpts_defaults cxA ed f o (C17_idempotent o h)
theorem C17_applyParas (ed : Editor Int) (op : Nat → List Int → List Int → List Int → R (List (List Int)))
    (o : Options Int) (h : CharsetOK o) :
    ed.applyParasM cxA op o = ed.applyParasM cxA op (o.withDefaults cxA) :=
  applyParasM_defaults cxA ed op o (C17_idempotent o h)
theorem C17_defTable (ed : Editor Int) (p : Int) (d : List (List Int × List Int)) (w : Int) (o : Options Int)
    (h : CharsetOK o) :
    ed.insertDefTableOpts cxA p d w o = ed.insertDefTableOpts cxA p d w (o.withDefaults cxA) :=
  insertDefTableOpts_defaults cxA ed p d w o (C17_idempotent o h)
theorem C17_table (ed : Editor Int) (p : Int) (d : List (List (List Int))) (w : Int) (o : Options Int)
    (h : CharsetOK o) :
    ed.insertTableOpts cxA p d w o = ed.insertTableOpts cxA p d w (o.withDefaults cxA) :=
  insertTableOpts_defaults cxA ed p d w o (C17_idempotent o h)
theorem C17_twoColumns (ed : Editor Int) (p : Int) (l r : List Int) (g w : Int) (pct : Pct) (o : Options Int)
    (h : CharsetOK o) :
    ed.insertTwoColumnsOpts cxA p l r g w pct o = ed.insertTwoColumnsOpts cxA p l r g w pct (o.withDefaults cxA) :=
  insertTwoColumnsOpts_defaults cxA ed p l r g w pct o (C17_idempotent o h)

/-- XOpts leaves the Options stored on the returned Editor as they were on the receiver -/
theorem C17_opts_wrap (ed r : Editor Int) (w : Int) (o : Options Int) (h : ed.wrapOpts cxA w o = .ok r) :
    r.opts = ed.opts := wrapOpts_opts cxA ed r w o h
theorem C17_opts_justify (ed r : Editor Int) (w : Int) (o : Options Int) (h : ed.justifyOpts cxA w o = .ok r) :
    r.opts = ed.opts := justifyOpts_opts cxA ed r w o h
theorem C17_opts_align (ed r : Editor Int) (a w : Int) (o : Options Int) (h : ed.alignOpts cxA a w o = .ok r) :
    r.opts = ed.opts := alignOpts_opts cxA ed r a w o h
theorem C17_opts_collapse (ed r : Editor Int) (o : Options Int) (h : ed.collapseSpaceOpts cxA o = .ok r) :
    r.opts = ed.opts := collapseSpaceOpts_opts cxA ed r o h
theorem C17_opts_indent (ed r : Editor Int) (l : Int) (o : Options Int) (h : ed.indentOpts cxA l o = .ok r) :
    r.opts = ed.opts := indentOpts_opts cxA ed r l o h
theorem C17_opts_defTable (ed r : Editor Int) (p : Int) (d : List (List Int × List Int)) (w : Int)
    (o : Options Int) (h : ed.insertDefTableOpts cxA p d w o = .ok r) : r.opts = ed.opts :=
  insertDefTableOpts_opts cxA ed r p d w o h
theorem C17_opts_table (ed r : Editor Int) (p : Int) (d : List (List (List Int))) (w : Int) (o : Options Int)
    (h : ed.insertTableOpts cxA p d w o = .ok r) : r.opts = ed.opts := insertTableOpts_opts cxA ed r p d w o h
theorem C17_opts_twoColumns (ed r : Editor Int) (p : Int) (l rt : List Int) (g w : Int) (pct : Pct)
    (o : Options Int) (h : ed.insertTwoColumnsOpts cxA p l rt g w pct o = .ok r) : r.opts = ed.opts :=
  insertTwoColumnsOpts_opts cxA ed r p l rt g w pct o h

/-! structural facts regenerated from the typed source: every X is `return ed.XOpts(<params>, ed.Options)`
(so X args = XOpts args ed.Options, i.e. XOpts args o = WithOptions(o).X args in text), and every XOpts
defaults its options before the first use (ApplyParagraphsOpts hands them to applyGParagraphsOpts, which does) -/
theorem C17_delegation : Gen.delegation = [("Align", true), ("Apply", true), ("ApplyParagraphs", true),
    ("CollapseSpace", true), ("Indent", true), ("InsertDefinitionsTable", true), ("InsertTable", true),
    ("InsertTwoColumns", true), ("Justify", true), ("Wrap", true)] := by decide

theorem C17_defaults_first : Gen.defaultsFirst = [("AlignOpts", true), ("ApplyOpts", true),
    ("ApplyParagraphsOpts", false), ("CollapseSpaceOpts", true), ("IndentOpts", true),
    ("InsertDefinitionsTableOpts", true), ("InsertTableOpts", true), ("InsertTwoColumnsOpts", true),
    ("JustifyOpts", true), ("WrapOpts", true)] := by decide

/-! non-vacuity and the known finding D10 as a machine-checked counterexample -/
example : CharsetOK ({ charset := [0x23] } : Options Int) := by unfold CharsetOK; decide +kernel
/-- D10: a Prepend character in the set: not three clusters, not idempotent -/
theorem C17_counterexample_D10 :
    ¬ CharsetOK ({ charset := [0x61, 0x600] } : Options Int) ∧
    (({ charset := [0x61, 0x600] } : Options Int).withDefaults cxA).withDefaults cxA ≠
      ({ charset := [0x61, 0x600] } : Options Int).withDefaults cxA := by
  unfold CharsetOK; decide +kernel

/-- `XOpts(args, o)` returns the same text as `WithOptions(o).X(args)` (X delegates to XOpts with the Editor's own Options — regenerated fact `C17_delegation`): the Options stored on the receiver play no role, any context, any editor (sub-editors included), errors included -/
theorem C17_withOptions_wrap {α : Type} [DecidableEq α] (cx : Ctx α) (ed : Editor α)
    (width : Int)
    (o : Options α) :
    ((ed.withOpts o).wrapOpts cx width o).map Editor.text = (ed.wrapOpts cx width o).map Editor.text :=
  wrapOpts_text cx ed width o

/-- `XOpts(args, o)` returns the same text as `WithOptions(o).X(args)` (X delegates to XOpts with the Editor's own Options — regenerated fact `C17_delegation`): the Options stored on the receiver play no role, any context, any editor (sub-editors included), errors included -/
theorem C17_withOptions_justify {α : Type} [DecidableEq α] (cx : Ctx α) (ed : Editor α)
    (width : Int)
    (o : Options α) :
    ((ed.withOpts o).justifyOpts cx width o).map Editor.text = (ed.justifyOpts cx width o).map Editor.text :=
  justifyOpts_text cx ed width o

/-- `XOpts(args, o)` returns the same text as `WithOptions(o).X(args)` (X delegates to XOpts with the Editor's own Options — regenerated fact `C17_delegation`): the Options stored on the receiver play no role, any context, any editor (sub-editors included), errors included -/
theorem C17_withOptions_align {α : Type} [DecidableEq α] (cx : Ctx α) (ed : Editor α)
    (align width : Int)
    (o : Options α) :
    ((ed.withOpts o).alignOpts cx align width o).map Editor.text = (ed.alignOpts cx align width o).map Editor.text :=
  alignOpts_text cx ed align width o

/-- `XOpts(args, o)` returns the same text as `WithOptions(o).X(args)` (X delegates to XOpts with the Editor's own Options — regenerated fact `C17_delegation`): the Options stored on the receiver play no role, any context, any editor (sub-editors included), errors included -/
theorem C17_withOptions_indent {α : Type} [DecidableEq α] (cx : Ctx α) (ed : Editor α)
    (level : Int)
    (o : Options α) :
    ((ed.withOpts o).indentOpts cx level o).map Editor.text = (ed.indentOpts cx level o).map Editor.text :=
  indentOpts_text cx ed level o

/-- `XOpts(args, o)` returns the same text as `WithOptions(o).X(args)` (X delegates to XOpts with the Editor's own Options — regenerated fact `C17_delegation`): the Options stored on the receiver play no role, any context, any editor (sub-editors included), errors included -/
theorem C17_withOptions_collapse {α : Type} [DecidableEq α] (cx : Ctx α) (ed : Editor α)
    (o : Options α) :
    ((ed.withOpts o).collapseSpaceOpts cx o).map Editor.text = (ed.collapseSpaceOpts cx o).map Editor.text :=
  collapseSpaceOpts_text cx ed o

/-- `XOpts(args, o)` returns the same text as `WithOptions(o).X(args)` (X delegates to XOpts with the Editor's own Options — regenerated fact `C17_delegation`): the Options stored on the receiver play no role, any context, any editor (sub-editors included), errors included -/
theorem C17_withOptions_apply {α : Type} [DecidableEq α] (cx : Ctx α) (ed : Editor α)
    (op : Nat → List α → List (List α))
    (o : Options α) :
    ((ed.withOpts o).applyOpts cx op o).map Editor.text = (ed.applyOpts cx op o).map Editor.text :=
  applyOpts_text cx ed op o

/-- `XOpts(args, o)` returns the same text as `WithOptions(o).X(args)` (X delegates to XOpts with the Editor's own Options — regenerated fact `C17_delegation`): the Options stored on the receiver play no role, any context, any editor (sub-editors included), errors included -/
theorem C17_withOptions_applyParas {α : Type} [DecidableEq α] (cx : Ctx α) (ed : Editor α)
    (op : Nat → List α → List α → List α → R (List (List α)))
    (o : Options α) :
    ((ed.withOpts o).applyParasM cx op o).map Editor.text = (ed.applyParasM cx op o).map Editor.text :=
  applyParasM_text cx ed op o

/-- `XOpts(args, o)` returns the same text as `WithOptions(o).X(args)` (X delegates to XOpts with the Editor's own Options — regenerated fact `C17_delegation`): the Options stored on the receiver play no role, any context, any editor (sub-editors included), errors included -/
theorem C17_withOptions_defTable {α : Type} [DecidableEq α] (cx : Ctx α) (ed : Editor α)
    (pos : Int)
    (defs : List (List α × List α))
    (width : Int)
    (o : Options α) :
    ((ed.withOpts o).insertDefTableOpts cx pos defs width o).map Editor.text = (ed.insertDefTableOpts cx pos defs width o).map Editor.text :=
  insertDefTableOpts_text cx ed pos defs width o

/-- `XOpts(args, o)` returns the same text as `WithOptions(o).X(args)` (X delegates to XOpts with the Editor's own Options — regenerated fact `C17_delegation`): the Options stored on the receiver play no role, any context, any editor (sub-editors included), errors included -/
theorem C17_withOptions_table {α : Type} [DecidableEq α] (cx : Ctx α) (ed : Editor α)
    (pos : Int)
    (data : List (List (List α)))
    (width : Int)
    (o : Options α) :
    ((ed.withOpts o).insertTableOpts cx pos data width o).map Editor.text = (ed.insertTableOpts cx pos data width o).map Editor.text :=
  insertTableOpts_text cx ed pos data width o

/-- `XOpts(args, o)` returns the same text as `WithOptions(o).X(args)` (X delegates to XOpts with the Editor's own Options — regenerated fact `C17_delegation`): the Options stored on the receiver play no role, any context, any editor (sub-editors included), errors included -/
theorem C17_withOptions_twoColumns {α : Type} [DecidableEq α] (cx : Ctx α) (ed : Editor α)
    (pos : Int)
    (leftText rightText : List α)
    (minSpaceBetween width : Int)
    (pct : Pct)
    (o : Options α) :
    ((ed.withOpts o).insertTwoColumnsOpts cx pos leftText rightText minSpaceBetween width pct o).map Editor.text = (ed.insertTwoColumnsOpts cx pos leftText rightText minSpaceBetween width pct o).map Editor.text :=
  insertTwoColumnsOpts_text cx ed pos leftText rightText minSpaceBetween width pct o

/-- the strongest form, shown for the operation that handles options most delicately (JustifyOpts overwrites them, selects lines, commits and restores): replacing the receiver's stored Options changes nothing but the Options stored on the result -/
theorem C17_receiver_options_irrelevant_justify {α : Type} [DecidableEq α] (cx : Ctx α) (ed : Editor α)
    (o' : Options α)
    (width : Int)
    (o : Options α) :
    (ed.withOpts o').justifyOpts cx width o =
      (ed.justifyOpts cx width o).map (fun r => r.withOpts o') :=
  justifyOpts_withOpts cx ed o' width o

end RosedVerif.Props
