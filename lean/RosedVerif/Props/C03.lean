/-
C03 — Layout depends on grapheme clusters only, not on their encoding.
Naturality: every layer-B layout function commutes with ANY map on tokens that preserves
whitespace-ness and the structural tokens (space, hyphen) — the map need not be injective.  Hence
break positions, padding and line lengths are identical for texts that differ only in how their
clusters are encoded.  The rune-level statement is tied by the relational run of ./check C03
(the same operation on a text and on its cluster-for-cluster substitution, on the real code).
-/
import RosedVerif.Spec.Naturality
import RosedVerif.Model.BridgeWrap
import RosedVerif.Model.BridgeAlign
import RosedVerif.Model.BridgeNatural
import RosedVerif.Model.BridgeNatural2
namespace RosedVerif.Props
open RosedVerif.Spec
variable {α β : Type} {tk : Toks α} {tk' : Toks β} {g : α → β}

theorem C03_wrap (h : TokMap tk tk' g) (w : Nat) (l : List α) :
    Spec.wrapLines tk' w (l.map g) = (Spec.wrapLines tk w l).map (List.map g) := wrapLines_map h w l
theorem C03_wrap_breaks (h : TokMap tk tk' g) (w : Nat) (l : List α) :
    (Spec.wrapLines tk' w (l.map g)).map List.length = (Spec.wrapLines tk w l).map List.length :=
  wrapLines_map_lengths h w l
theorem C03_collapse (h : TokMap tk tk' g) (l : List α) : Spec.collapse tk' (l.map g) = (Spec.collapse tk l).map g :=
  collapse_map h l
theorem C03_alignLeft (h : TokMap tk tk' g) (w : Int) (l : List α) :
    Spec.alignLeft tk' w (l.map g) = (Spec.alignLeft tk w l).map g := alignLeft_map h w l
theorem C03_alignRight (h : TokMap tk tk' g) (w : Int) (l : List α) :
    Spec.alignRight tk' w (l.map g) = (Spec.alignRight tk w l).map g := alignRight_map h w l
theorem C03_alignCenter (h : TokMap tk tk' g) (w : Int) (l : List α) :
    Spec.alignCenter tk' w (l.map g) = (Spec.alignCenter tk w l).map g := alignCenter_map h w l
theorem C03_words (h : TokMap tk tk' g) (l : List α) : Spec.words tk' (l.map g) = (Spec.words tk l).map (List.map g) :=
  words_map h l

open RosedVerif in
/-- **on code points**: take two stable vocabularies `V`, `V'` (any encodings: precomposed or
decomposed accents, ZWJ sequences, flags, jamo …) and ANY cluster-for-cluster substitution `g`
from `V` into `V'` that keeps whitespace clusters whitespace, non-whitespace clusters
non-whitespace, and fixes the space and the hyphen.  Then the model of manip.Wrap on the CODE
POINTS of a text and of its substituted text (real UAX #29 segmentation on both) produce line lists
that are the same cluster-for-cluster substitution of one another: same breaks, same hyphens. -/
theorem C03_wrap_code_points {V V' : List (List Int)}
    (hV : VocabStable V = true) (hsp : [0x20] ∈ V) (hspTail : ∀ t ∈ V, (0x20 : Int) ∉ t.tail)
    (hV' : VocabStable V' = true) (hsp' : [0x20] ∈ V') (hspTail' : ∀ t ∈ V', (0x20 : Int) ∉ t.tail)
    (g : List Int → List Int) (hg : ∀ t ∈ V, g t ∈ V')
    (hws : ∀ t, cxB.isSpace (g t) = cxB.isSpace t) (hgsp : g [0x20] = [0x20]) (hghy : g [0x2D] = [0x2D])
    (toks : List (List Int)) (ht : ∀ t ∈ toks, t ∈ V) (w : Int) :
    ∃ r : List (List (List Int)),
      RosedVerif.wrapLines cxA toks.flatten w [] = .ok (r.map List.flatten) ∧
      RosedVerif.wrapLines cxA (toks.map g).flatten w [] = .ok ((r.map (List.map g)).map List.flatten) := by
  have hmap : TokMap ⟨cxB.isSpace, cxB.sp, cxB.hy⟩ ⟨cxB.isSpace, cxB.sp, cxB.hy⟩ g := ⟨hws, hgsp, hghy⟩
  refine ⟨Spec.wrapLines ⟨cxB.isSpace, cxB.sp, cxB.hy⟩ (max w 2).toNat toks,
    wrapLines_bridge_spec hV hsp hspTail toks ht w, ?_⟩
  have ht' : ∀ t ∈ toks.map g, t ∈ V' := by
    intro t h
    obtain ⟨u, hu, rfl⟩ := List.mem_map.1 h
    exact hg u (ht u hu)
  rw [wrapLines_bridge_spec hV' hsp' hspTail' (toks.map g) ht' w, wrapLines_map hmap]

open RosedVerif in
/-- the same for CollapseSpace -/
theorem C03_collapse_code_points {V V' : List (List Int)}
    (hV : VocabStable V = true) (hsp : [0x20] ∈ V) (hspTail : ∀ t ∈ V, (0x20 : Int) ∉ t.tail)
    (hV' : VocabStable V' = true) (hsp' : [0x20] ∈ V') (hspTail' : ∀ t ∈ V', (0x20 : Int) ∉ t.tail)
    (g : List Int → List Int) (hg : ∀ t ∈ V, g t ∈ V')
    (hws : ∀ t, cxB.isSpace (g t) = cxB.isSpace t) (hgsp : g [0x20] = [0x20]) (hghy : g [0x2D] = [0x2D])
    (toks : List (List Int)) (ht : ∀ t ∈ toks, t ∈ V) :
    ∃ r : List (List Int),
      collapseSpace cxA toks.flatten [] = .ok r.flatten ∧
      collapseSpace cxA (toks.map g).flatten [] = .ok (r.map g).flatten := by
  have hmap : TokMap ⟨cxB.isSpace, cxB.sp, cxB.hy⟩ ⟨cxB.isSpace, cxB.sp, cxB.hy⟩ g := ⟨hws, hgsp, hghy⟩
  refine ⟨Spec.collapse ⟨cxB.isSpace, cxB.sp, cxB.hy⟩ toks,
    collapseSpace_bridge_spec hV hsp hspTail toks ht, ?_⟩
  have ht' : ∀ t ∈ toks.map g, t ∈ V' := by
    intro t h
    obtain ⟨u, hu, rfl⟩ := List.mem_map.1 h
    exact hg u (ht u hu)
  rw [collapseSpace_bridge_spec hV' hsp' hspTail' (toks.map g) ht', collapse_map hmap]

open RosedVerif in
/-- the same for AlignLineLeft / Right / Center: padding and stripping positions are identical for a
text and its cluster-for-cluster substitution, on code points with the real segmentation -/
theorem C03_align_code_points {V V' : List (List Int)}
    (hV : VocabStable V = true) (hV' : VocabStable V' = true)
    (g : List Int → List Int) (hg : ∀ t ∈ V, g t ∈ V')
    (hws : ∀ t, cxB.isSpace (g t) = cxB.isSpace t) (hgsp : g [0x20] = [0x20]) (hghy : g [0x2D] = [0x2D])
    (toks : List (List Int)) (ht : ∀ t ∈ toks, t ∈ V) (w : Int) :
    (∃ r : List (List Int), RosedVerif.alignLeft cxA toks.flatten w = r.flatten ∧
          RosedVerif.alignLeft cxA (toks.map g).flatten w = (r.map g).flatten) ∧
    (∃ r : List (List Int), RosedVerif.alignRight cxA toks.flatten w = r.flatten ∧
          RosedVerif.alignRight cxA (toks.map g).flatten w = (r.map g).flatten) ∧
    (∃ r : List (List Int), RosedVerif.alignCenter cxA toks.flatten w = r.flatten ∧
          RosedVerif.alignCenter cxA (toks.map g).flatten w = (r.map g).flatten) := by
  have hmap : TokMap ⟨cxB.isSpace, cxB.sp, cxB.hy⟩ ⟨cxB.isSpace, cxB.sp, cxB.hy⟩ g := ⟨hws, hgsp, hghy⟩
  have ht' : ∀ t ∈ toks.map g, t ∈ V' := by
    intro t h
    obtain ⟨u, hu, rfl⟩ := List.mem_map.1 h
    exact hg u (ht u hu)
  refine ⟨⟨_, alignLeft_bridge_spec hV toks ht w, ?_⟩, ⟨_, alignRight_bridge_spec hV toks ht w, ?_⟩,
    ⟨_, alignCenter_bridge_spec hV toks ht w, ?_⟩⟩
  · rw [alignLeft_bridge_spec hV' (toks.map g) ht' w, alignLeft_map hmap]
  · rw [alignRight_bridge_spec hV' (toks.map g) ht' w, alignRight_map hmap]
  · rw [alignCenter_bridge_spec hV' (toks.map g) ht' w, alignCenter_map hmap]

open RosedVerif RosedVerif.BridgeOps RosedVerif.BridgeNatural

/-- **the PUBLIC operation on code points**: Editor.WrapOpts (non-paragraph mode, any options whose line separator is fixed by `g` and not produced by `g` from another cluster — necessary, `BridgeNatural.hinv_needed`) on a text and on its cluster-for-cluster substitution `g` (any whitespace-preserving map between two stable vocabularies, not necessarily injective) returns texts whose REAL grapheme clusters are `r` and `r.map g` -/
theorem C03_wrapOpts_code_points {V V' : List (List Int)} (hV : VocabStable V = true)
    (hsp : [0x20] ∈ V)
    (hhy : [0x2D] ∈ V)
    (hspTail : ∀ t ∈ V, (0x20 : Int) ∉ t.tail)
    (hV' : VocabStable V' = true)
    (hsp' : [0x20] ∈ V')
    (hspTail' : ∀ t ∈ V', (0x20 : Int) ∉ t.tail)
    (g : List Int → List Int)
    (hg : ∀ t ∈ V, g t ∈ V')
    (hws : ∀ t, cxB.isSpace (g t) = cxB.isSpace t)
    (hgsp : g [0x20] = [0x20])
    (hghy : g [0x2D] = [0x2D])
    (toks : List (List Int))
    (ht : ∀ t ∈ toks, t ∈ V)
    (w : Int)
    (o0 o : Options (List Int))
    (hpp : o.preservePara = false)
    (hS : GoodSep V (o.withDefaults cxB).lineSep)
    (hS' : GoodSep V' (o.withDefaults cxB).lineSep)
    (hSV : ∀ s ∈ (o.withDefaults cxB).lineSep, s ∈ V)
    (hfix : ∀ s ∈ (o.withDefaults cxB).lineSep, g s = s)
    (hinv : ∀ t ∈ V, g t ∈ (o.withDefaults cxB).lineSep → t ∈ (o.withDefaults cxB).lineSep) :
    ∃ r : List (List Int),
      Editor.wrapOpts cxA (.root toks.flatten o0.flat) w o.flat = .ok (.root r.flatten o0.flat) ∧
      Editor.wrapOpts cxA (.root (toks.map g).flatten o0.flat) w o.flat =
        .ok (.root (r.map g).flatten o0.flat) ∧
      clusters cxA r.flatten = r ∧ clusters cxA (r.map g).flatten = r.map g ∧
      r = wrapText (o.withDefaults cxB).lineSep toks w :=
  wrapOpts_natural_clusters hV hsp hhy hspTail hV' hsp' hspTail' g hg hws hgsp hghy toks ht w o0 o hpp hS hS' hSV hfix hinv

/-- the same for Editor.AlignOpts, every alignment value -/
theorem C03_alignOpts_code_points {V V' : List (List Int)} (hV : VocabStable V = true)
    (hsp : [0x20] ∈ V)
    (hV' : VocabStable V' = true)
    (g : List Int → List Int)
    (hg : ∀ t ∈ V, g t ∈ V')
    (hws : ∀ t, cxB.isSpace (g t) = cxB.isSpace t)
    (hgsp : g [0x20] = [0x20])
    (hghy : g [0x2D] = [0x2D])
    (toks : List (List Int))
    (ht : ∀ t ∈ toks, t ∈ V)
    (align width : Int)
    (o0 o : Options (List Int))
    (hal : align = Gen.alignLeft ∨ align = Gen.alignRight ∨ align = Gen.alignCenter)
    (hpp : o.preservePara = false)
    (hS : GoodSep V (o.withDefaults cxB).lineSep)
    (hS' : GoodSep V' (o.withDefaults cxB).lineSep)
    (hSV : ∀ s ∈ (o.withDefaults cxB).lineSep, s ∈ V)
    (hfix : ∀ s ∈ (o.withDefaults cxB).lineSep, g s = s)
    (hinv : ∀ t ∈ V, g t ∈ (o.withDefaults cxB).lineSep → t ∈ (o.withDefaults cxB).lineSep) :
    ∃ r : List (List Int),
      Editor.alignOpts cxA (.root toks.flatten o0.flat) align width o.flat =
        .ok (.root r.flatten o0.flat) ∧
      Editor.alignOpts cxA (.root (toks.map g).flatten o0.flat) align width o.flat =
        .ok (.root (r.map g).flatten o0.flat) ∧
      clusters cxA r.flatten = r ∧ clusters cxA (r.map g).flatten = r.map g ∧
      r = alignText (.root toks o0) align width o :=
  alignOpts_natural_clusters hV hsp hV' g hg hws hgsp hghy toks ht align width o0 o hal hpp hS hS' hSV hfix hinv

/-- the same for Editor.CollapseSpaceOpts -/
theorem C03_collapseSpaceOpts_code_points {V V' : List (List Int)} (hV : VocabStable V = true)
    (hsp : [0x20] ∈ V)
    (hspTail : ∀ t ∈ V, (0x20 : Int) ∉ t.tail)
    (hV' : VocabStable V' = true)
    (hsp' : [0x20] ∈ V')
    (hspTail' : ∀ t ∈ V', (0x20 : Int) ∉ t.tail)
    (g : List Int → List Int)
    (hg : ∀ t ∈ V, g t ∈ V')
    (hws : ∀ t, cxB.isSpace (g t) = cxB.isSpace t)
    (hgsp : g [0x20] = [0x20])
    (hghy : g [0x2D] = [0x2D])
    (toks : List (List Int))
    (ht : ∀ t ∈ toks, t ∈ V)
    (o0 o : Options (List Int))
    (hS : GoodSep V (o.withDefaults cxB).lineSep)
    (hS' : GoodSep V' (o.withDefaults cxB).lineSep)
    (hfix : ∀ s ∈ (o.withDefaults cxB).lineSep, g s = s)
    (hinv : ∀ t ∈ V, g t ∈ (o.withDefaults cxB).lineSep → t ∈ (o.withDefaults cxB).lineSep) :
    ∃ r : List (List Int),
      Editor.collapseSpaceOpts cxA (.root toks.flatten o0.flat) o.flat =
        .ok (.root r.flatten o0.flat) ∧
      Editor.collapseSpaceOpts cxA (.root (toks.map g).flatten o0.flat) o.flat =
        .ok (.root (r.map g).flatten o0.flat) ∧
      clusters cxA r.flatten = r ∧ clusters cxA (r.map g).flatten = r.map g ∧
      r = collapseText (o.withDefaults cxB).lineSep toks :=
  collapseSpaceOpts_natural_clusters hV hsp hspTail hV' hsp' hspTail' g hg hws hgsp hghy toks ht o0 o hS hS' hfix hinv

/-- counting: CharCount of a text and of its substitution are both the number of clusters -/
theorem C03_charCount_code_points {V V' : List (List Int)} (hV : VocabStable V = true)
    (hV' : VocabStable V' = true)
    (g : List Int → List Int)
    (hg : ∀ t ∈ V, g t ∈ V')
    (toks : List (List Int))
    (ht : ∀ t ∈ toks, t ∈ V)
    (o0 o0' : Options Int) :
    Editor.charCount cxA (.root (toks.map g).flatten o0') = toks.length ∧
      Editor.charCount cxA (.root toks.flatten o0) = toks.length :=
  charCount_natural hV hV' g hg toks ht o0 o0'

/-- counting: LineCount is unchanged by the substitution -/
theorem C03_lineCount_code_points {V V' : List (List Int)} (hV : VocabStable V = true)
    (hV' : VocabStable V' = true)
    (g : List Int → List Int)
    (hg : ∀ t ∈ V, g t ∈ V')
    (toks : List (List Int))
    (ht : ∀ t ∈ toks, t ∈ V)
    (o0 : Options (List Int))
    (hS : GoodSep V (o0.withDefaults cxB).lineSep)
    (hS' : GoodSep V' (o0.withDefaults cxB).lineSep)
    (hfix : ∀ s ∈ (o0.withDefaults cxB).lineSep, g s = s)
    (hinv : ∀ t ∈ V, g t ∈ (o0.withDefaults cxB).lineSep → t ∈ (o0.withDefaults cxB).lineSep) :
    Editor.lineCount cxA (.root (toks.map g).flatten o0.flat) =
        Editor.lineCount cxA (.root toks.flatten o0.flat) ∧
      Editor.lineCount cxA (.root toks.flatten o0.flat) =
        (Spec.bareLines toks (o0.withDefaults cxB).lineSep o0.noTrailing).length :=
  lineCount_natural hV hV' g hg toks ht o0 hS hS' hfix hinv

end RosedVerif.Props

/-
APPEND to RosedVerif/Props/C03.lean (after its final `end RosedVerif.Props`), and add
    import RosedVerif.Model.BridgeNatural2
to the imports at the top of that file.

C03 on CODE POINTS for the remaining public operations: Chars / CharsFrom / CharsTo, Insert, Delete,
Overtype, JustifyOpts, IndentOpts (non-paragraph mode), InsertTwoColumnsOpts,
InsertDefinitionsTableOpts, InsertTableOpts, and the paragraph mode of WrapOpts / JustifyOpts /
AlignOpts / IndentOpts.  Each statement is an application of the lemma of the same shape in
`Model/BridgeNatural2.lean`; `insertToks`, `deleteToks`, `overtypeToks`, `selRange`, `posOf`,
`justifyText`, `indentText`, `twoColText`, `defTableText`, `tableText` are the closed forms on
cluster tokens defined there.
-/
namespace RosedVerif.Props
open RosedVerif RosedVerif.BridgeOps RosedVerif.BridgeNatural RosedVerif.BridgeNatural2
open RosedVerif.BridgeEditorParas (GoodPara)

/-- **Chars on code points**: `Chars(s, e)` — any integers, `End`, negative positions — on a text
and on its cluster-for-cluster substitution selects the same cluster range `[a, b)`; the selected
text of the second is the substitution of the selected text of the first, and each sub-editor
records the byte range of that cluster range in its own parent text.  Only `g : V → V'` between
stable vocabularies is needed (no whitespace or separator hypothesis). -/
theorem C03_chars_code_points {V V' : List (List Int)}
    (hV : VocabStable V = true) (hV' : VocabStable V' = true)
    (g : List Int → List Int) (hg : ∀ t ∈ V, g t ∈ V')
    (toks : List (List Int)) (ht : ∀ t ∈ toks, t ∈ V) (o0 o0' : Options Int) (s e : Int) :
    ∃ (sel : List (List Int)) (a b : Nat),
      Editor.chars cxA (.root toks.flatten o0) s e =
        .ok (.sub sel.flatten o0 (.root toks.flatten o0)
          (byteLen cxA (toks.take a).flatten) (byteLen cxA (toks.take b).flatten)) ∧
      Editor.chars cxA (.root (toks.map g).flatten o0') s e =
        .ok (.sub (sel.map g).flatten o0' (.root (toks.map g).flatten o0')
          (byteLen cxA ((toks.map g).take a).flatten)
          (byteLen cxA ((toks.map g).take b).flatten)) ∧
      clusters cxA sel.flatten = sel ∧ clusters cxA (sel.map g).flatten = sel.map g ∧
      a ≤ b ∧ b ≤ toks.length ∧ sel = (toks.drop a).take (b - a) ∧
      (a, b) = selRange toks.length s e :=
  chars_natural hV hV' g hg toks ht o0 o0' s e

/-- the same for CharsFrom (which passes the BYTE length of the text as end position: a different
number on the two sides, the same clusters `[a, n)`) -/
theorem C03_charsFrom_code_points {V V' : List (List Int)}
    (hV : VocabStable V = true) (hV' : VocabStable V' = true)
    (g : List Int → List Int) (hg : ∀ t ∈ V, g t ∈ V')
    (toks : List (List Int)) (ht : ∀ t ∈ toks, t ∈ V) (o0 o0' : Options Int) (s : Int) :
    ∃ (sel : List (List Int)) (a b : Nat),
      Editor.charsFrom cxA (.root toks.flatten o0) s =
        .ok (.sub sel.flatten o0 (.root toks.flatten o0)
          (byteLen cxA (toks.take a).flatten) (byteLen cxA (toks.take b).flatten)) ∧
      Editor.charsFrom cxA (.root (toks.map g).flatten o0') s =
        .ok (.sub (sel.map g).flatten o0' (.root (toks.map g).flatten o0')
          (byteLen cxA ((toks.map g).take a).flatten)
          (byteLen cxA ((toks.map g).take b).flatten)) ∧
      clusters cxA sel.flatten = sel ∧ clusters cxA (sel.map g).flatten = sel.map g ∧
      a ≤ b ∧ b = toks.length ∧ sel = toks.drop a ∧ a = posOf toks.length s :=
  charsFrom_natural hV hV' g hg toks ht o0 o0' s

/-- the same for CharsTo: the clusters `[0, b)` -/
theorem C03_charsTo_code_points {V V' : List (List Int)}
    (hV : VocabStable V = true) (hV' : VocabStable V' = true)
    (g : List Int → List Int) (hg : ∀ t ∈ V, g t ∈ V')
    (toks : List (List Int)) (ht : ∀ t ∈ toks, t ∈ V) (o0 o0' : Options Int) (e : Int) :
    ∃ (sel : List (List Int)) (b : Nat),
      Editor.charsTo cxA (.root toks.flatten o0) e =
        .ok (.sub sel.flatten o0 (.root toks.flatten o0) (0 : Nat)
          (byteLen cxA (toks.take b).flatten)) ∧
      Editor.charsTo cxA (.root (toks.map g).flatten o0') e =
        .ok (.sub (sel.map g).flatten o0' (.root (toks.map g).flatten o0') (0 : Nat)
          (byteLen cxA ((toks.map g).take b).flatten)) ∧
      clusters cxA sel.flatten = sel ∧ clusters cxA (sel.map g).flatten = sel.map g ∧
      b ≤ toks.length ∧ sel = toks.take b ∧ b = posOf toks.length e :=
  charsTo_natural hV hV' g hg toks ht o0 o0' e

/-- **Insert on code points**, every integer position; the inserted text is substituted too; `r` and
`r.map g` are the REAL cluster lists of the two results -/
theorem C03_insert_code_points {V V' : List (List Int)}
    (hV : VocabStable V = true) (hV' : VocabStable V' = true)
    (g : List Int → List Int) (hg : ∀ t ∈ V, g t ∈ V')
    (toks : List (List Int)) (ht : ∀ t ∈ toks, t ∈ V) (o0 o0' : Options Int)
    (p : Int) (ins : List (List Int)) (hi : ∀ t ∈ ins, t ∈ V) :
    ∃ r : List (List Int),
      Editor.insert cxA (.root toks.flatten o0) p ins.flatten = .ok (.root r.flatten o0) ∧
      Editor.insert cxA (.root (toks.map g).flatten o0') p (ins.map g).flatten =
        .ok (.root (r.map g).flatten o0') ∧
      clusters cxA r.flatten = r ∧ clusters cxA (r.map g).flatten = r.map g ∧
      r = insertToks toks p ins :=
  insert_natural hV hV' g hg toks ht o0 o0' p ins hi

/-- **Delete on code points**, every integer range -/
theorem C03_delete_code_points {V V' : List (List Int)}
    (hV : VocabStable V = true) (hV' : VocabStable V' = true)
    (g : List Int → List Int) (hg : ∀ t ∈ V, g t ∈ V')
    (toks : List (List Int)) (ht : ∀ t ∈ toks, t ∈ V) (o0 o0' : Options Int) (s e : Int) :
    ∃ r : List (List Int),
      Editor.delete cxA (.root toks.flatten o0) s e = .ok (.root r.flatten o0) ∧
      Editor.delete cxA (.root (toks.map g).flatten o0') s e = .ok (.root (r.map g).flatten o0') ∧
      clusters cxA r.flatten = r ∧ clusters cxA (r.map g).flatten = r.map g ∧
      r = deleteToks toks s e :=
  delete_natural hV hV' g hg toks ht o0 o0' s e

/-- **Overtype on code points**, every integer position, no bound on the lengths (Go's 64-bit
wrap-around of `pos + len(text)` is modelled and happens at the same cluster count on both sides) -/
theorem C03_overtype_code_points {V V' : List (List Int)}
    (hV : VocabStable V = true) (hV' : VocabStable V' = true)
    (g : List Int → List Int) (hg : ∀ t ∈ V, g t ∈ V')
    (toks : List (List Int)) (ht : ∀ t ∈ toks, t ∈ V) (o0 o0' : Options Int)
    (p : Int) (ins : List (List Int)) (hi : ∀ t ∈ ins, t ∈ V) :
    ∃ r : List (List Int),
      Editor.overtype cxA (.root toks.flatten o0) p ins.flatten = .ok (.root r.flatten o0) ∧
      Editor.overtype cxA (.root (toks.map g).flatten o0') p (ins.map g).flatten =
        .ok (.root (r.map g).flatten o0') ∧
      clusters cxA r.flatten = r ∧ clusters cxA (r.map g).flatten = r.map g ∧
      r = overtypeToks toks p ins :=
  overtype_natural hV hV' g hg toks ht o0 o0' p ins hi

/-- **Editor.JustifyOpts on code points** (non-paragraph mode, `JustifyLastLine` on or off):
hypotheses as for `C03_wrapOpts_code_points` -/
theorem C03_justifyOpts_code_points {V V' : List (List Int)}
    (hV : VocabStable V = true) (hsp : [0x20] ∈ V)
    (hspTail : ∀ t ∈ V, (0x20 : Int) ∉ t.tail)
    (hV' : VocabStable V' = true) (hsp' : [0x20] ∈ V') (hspTail' : ∀ t ∈ V', (0x20 : Int) ∉ t.tail)
    (g : List Int → List Int) (hg : ∀ t ∈ V, g t ∈ V')
    (hws : ∀ t, cxB.isSpace (g t) = cxB.isSpace t) (hgsp : g [0x20] = [0x20])
    (hghy : g [0x2D] = [0x2D])
    (toks : List (List Int)) (ht : ∀ t ∈ toks, t ∈ V) (width : Int) (o0 o : Options (List Int))
    (hpp : o.preservePara = false)
    (hS : GoodSep V (o.withDefaults cxB).lineSep) (hS' : GoodSep V' (o.withDefaults cxB).lineSep)
    (hSV : ∀ s ∈ (o.withDefaults cxB).lineSep, s ∈ V)
    (hfix : ∀ s ∈ (o.withDefaults cxB).lineSep, g s = s)
    (hinv : ∀ t ∈ V, g t ∈ (o.withDefaults cxB).lineSep → t ∈ (o.withDefaults cxB).lineSep) :
    ∃ r : List (List Int),
      Editor.justifyOpts cxA (.root toks.flatten o0.flat) width o.flat =
        .ok (.root r.flatten o0.flat) ∧
      Editor.justifyOpts cxA (.root (toks.map g).flatten o0.flat) width o.flat =
        .ok (.root (r.map g).flatten o0.flat) ∧
      clusters cxA r.flatten = r ∧ clusters cxA (r.map g).flatten = r.map g ∧
      r = justifyText (.root toks o0) width o :=
  justifyOpts_natural_clusters hV hsp hspTail hV' hsp' hspTail' g hg hws hgsp hghy toks ht width
    o0 o hpp hS hS' hSV hfix hinv

/-- **Editor.IndentOpts on code points** (non-paragraph mode, every level): the indent string comes
from the options, which are the same in both calls, so `g` fixes its tokens -/
theorem C03_indentOpts_code_points {V V' : List (List Int)}
    (hV : VocabStable V = true) (hV' : VocabStable V' = true)
    (g : List Int → List Int) (hg : ∀ t ∈ V, g t ∈ V')
    (toks : List (List Int)) (ht : ∀ t ∈ toks, t ∈ V) (level : Int) (o0 o : Options (List Int))
    (hpp : o.preservePara = false)
    (hS : GoodSep V (o.withDefaults cxB).lineSep) (hS' : GoodSep V' (o.withDefaults cxB).lineSep)
    (hSV : ∀ s ∈ (o.withDefaults cxB).lineSep, s ∈ V)
    (hfix : ∀ s ∈ (o.withDefaults cxB).lineSep, g s = s)
    (hinv : ∀ t ∈ V, g t ∈ (o.withDefaults cxB).lineSep → t ∈ (o.withDefaults cxB).lineSep)
    (hIV : ∀ s ∈ (o.withDefaults cxB).indentStr, s ∈ V)
    (hfixI : ∀ s ∈ (o.withDefaults cxB).indentStr, g s = s) :
    ∃ r : List (List Int),
      Editor.indentOpts cxA (.root toks.flatten o0.flat) level o.flat =
        .ok (.root r.flatten o0.flat) ∧
      Editor.indentOpts cxA (.root (toks.map g).flatten o0.flat) level o.flat =
        .ok (.root (r.map g).flatten o0.flat) ∧
      clusters cxA r.flatten = r ∧ clusters cxA (r.map g).flatten = r.map g ∧
      r = indentText (.root toks o0) level o :=
  indentOpts_natural_clusters hV hV' g hg toks ht level o0 o hpp hS hS' hSV hfix hinv hIV hfixI

/-- **Editor.InsertTwoColumnsOpts on code points**: every position, gap, width, percentage; both
column texts are substituted together with the receiver -/
theorem C03_twoColumns_code_points {V V' : List (List Int)}
    (hV : VocabStable V = true) (hsp : [0x20] ∈ V)
    (hhy : [0x2D] ∈ V) (hspTail : ∀ t ∈ V, (0x20 : Int) ∉ t.tail)
    (hV' : VocabStable V' = true) (hsp' : [0x20] ∈ V') (hspTail' : ∀ t ∈ V', (0x20 : Int) ∉ t.tail)
    (g : List Int → List Int) (hg : ∀ t ∈ V, g t ∈ V')
    (hws : ∀ t, cxB.isSpace (g t) = cxB.isSpace t) (hgsp : g [0x20] = [0x20])
    (hghy : g [0x2D] = [0x2D])
    (toks : List (List Int)) (ht : ∀ t ∈ toks, t ∈ V) (o0 : Options (List Int)) (pos : Int)
    (l r : List (List Int)) (hl : ∀ t ∈ l, t ∈ V) (hr : ∀ t ∈ r, t ∈ V) (gap width : Int)
    (pct : Pct) (o : Options (List Int))
    (hS : GoodSep V (o.withDefaults cxB).lineSep) (hS' : GoodSep V' (o.withDefaults cxB).lineSep)
    (hSV : ∀ s ∈ (o.withDefaults cxB).lineSep, s ∈ V)
    (hfix : ∀ s ∈ (o.withDefaults cxB).lineSep, g s = s)
    (hinv : ∀ t ∈ V, g t ∈ (o.withDefaults cxB).lineSep → t ∈ (o.withDefaults cxB).lineSep) :
    ∃ x : List (List Int),
      Editor.insertTwoColumnsOpts cxA (.root toks.flatten o0.flat) pos l.flatten r.flatten gap
        width pct o.flat = .ok (.root x.flatten o0.flat) ∧
      Editor.insertTwoColumnsOpts cxA (.root (toks.map g).flatten o0.flat) pos (l.map g).flatten
        (r.map g).flatten gap width pct o.flat = .ok (.root (x.map g).flatten o0.flat) ∧
      clusters cxA x.flatten = x ∧ clusters cxA (x.map g).flatten = x.map g ∧
      x = twoColText toks pos l r gap width pct o :=
  insertTwoColumnsOpts_natural_clusters hV hsp hhy hspTail hV' hsp' hspTail' g hg hws hgsp hghy
    toks ht o0 pos l r hl hr gap width pct o hS hS' hSV hfix hinv

/-- **Editor.InsertDefinitionsTableOpts on code points**: terms and definitions are substituted; the
paragraph separator (from the options) is fixed by `g` -/
theorem C03_defTable_code_points {V V' : List (List Int)}
    (hV : VocabStable V = true) (hsp : [0x20] ∈ V)
    (hhy : [0x2D] ∈ V) (hspTail : ∀ t ∈ V, (0x20 : Int) ∉ t.tail)
    (hV' : VocabStable V' = true) (hsp' : [0x20] ∈ V') (hspTail' : ∀ t ∈ V', (0x20 : Int) ∉ t.tail)
    (g : List Int → List Int) (hg : ∀ t ∈ V, g t ∈ V')
    (hws : ∀ t, cxB.isSpace (g t) = cxB.isSpace t) (hgsp : g [0x20] = [0x20])
    (hghy : g [0x2D] = [0x2D])
    (toks : List (List Int)) (ht : ∀ t ∈ toks, t ∈ V) (o0 : Options (List Int)) (pos : Int)
    (defs : List (List (List Int) × List (List Int)))
    (hd1 : ∀ d ∈ defs, ∀ t ∈ d.1, t ∈ V) (hd2 : ∀ d ∈ defs, ∀ t ∈ d.2, t ∈ V) (width : Int)
    (o : Options (List Int))
    (hS : GoodSep V (o.withDefaults cxB).lineSep) (hS' : GoodSep V' (o.withDefaults cxB).lineSep)
    (hSV : ∀ s ∈ (o.withDefaults cxB).lineSep, s ∈ V)
    (hfix : ∀ s ∈ (o.withDefaults cxB).lineSep, g s = s)
    (hinv : ∀ t ∈ V, g t ∈ (o.withDefaults cxB).lineSep → t ∈ (o.withDefaults cxB).lineSep)
    (hPV : ∀ s ∈ (o.withDefaults cxB).paraSep, s ∈ V)
    (hfixP : ∀ s ∈ (o.withDefaults cxB).paraSep, g s = s) :
    ∃ x : List (List Int),
      Editor.insertDefTableOpts cxA (.root toks.flatten o0.flat) pos
        (defs.map fun d => (d.1.flatten, d.2.flatten)) width o.flat =
          .ok (.root x.flatten o0.flat) ∧
      Editor.insertDefTableOpts cxA (.root (toks.map g).flatten o0.flat) pos
        (defs.map fun d => ((d.1.map g).flatten, (d.2.map g).flatten)) width o.flat =
          .ok (.root (x.map g).flatten o0.flat) ∧
      clusters cxA x.flatten = x ∧ clusters cxA (x.map g).flatten = x.map g ∧
      x = defTableText toks pos defs width o :=
  insertDefTableOpts_natural_clusters hV hsp hhy hspTail hV' hsp' hspTail' g hg hws hgsp hghy toks
    ht o0 pos defs hd1 hd2 width o hS hS' hSV hfix hinv hPV hfixP

/-- **Editor.InsertTableOpts on code points**: the cells are substituted; the character set (from
the options) is fixed by `g`; with a header row both vocabularies are closed under upper-casing and
`g` commutes with it -/
theorem C03_table_code_points {V V' : List (List Int)}
    (hV : VocabStable V = true) (hsp : [0x20] ∈ V)
    (hV' : VocabStable V' = true)
    (g : List Int → List Int) (hg : ∀ t ∈ V, g t ∈ V')
    (hws : ∀ t, cxB.isSpace (g t) = cxB.isSpace t) (hgsp : g [0x20] = [0x20])
    (hghy : g [0x2D] = [0x2D])
    (toks : List (List Int)) (ht : ∀ t ∈ toks, t ∈ V) (o0 : Options (List Int)) (pos : Int)
    (data : List (List (List (List Int))))
    (hdata : ∀ row ∈ data, ∀ cell ∈ row, ∀ t ∈ cell, t ∈ V) (width : Int)
    (o : Options (List Int)) (hSV : ∀ s ∈ (o.withDefaults cxB).lineSep, s ∈ V)
    (hfix : ∀ s ∈ (o.withDefaults cxB).lineSep, g s = s)
    (hc : ∀ t ∈ o.charset, t ∈ V) (hcd : ∀ t ∈ (o.withDefaults cxB).charset, t ∈ V)
    (hfixC0 : ∀ t ∈ o.charset, g t = t) (hfixC : ∀ t ∈ (o.withDefaults cxB).charset, g t = t)
    (hup : o.headers = true → ∀ t ∈ V, t.map upperRune ∈ V)
    (hup' : o.headers = true → ∀ t ∈ V', t.map upperRune ∈ V')
    (hupg : o.headers = true → ∀ t ∈ V, g (t.map upperRune) = (g t).map upperRune) :
    ∃ x : List (List Int),
      Editor.insertTableOpts cxA (.root toks.flatten o0.flat) pos
        (data.map (List.map List.flatten)) width o.flat = .ok (.root x.flatten o0.flat) ∧
      Editor.insertTableOpts cxA (.root (toks.map g).flatten o0.flat) pos
        ((data.map (List.map (List.map g))).map (List.map List.flatten)) width o.flat =
          .ok (.root (x.map g).flatten o0.flat) ∧
      clusters cxA x.flatten = x ∧ clusters cxA (x.map g).flatten = x.map g ∧
      x = tableText toks pos data width o :=
  insertTableOpts_natural_clusters hV hsp hV' g hg hws hgsp hghy toks ht o0 pos data hdata width o
    hSV hfix hc hcd hfixC0 hfixC hup hup' hupg

/- `hAL` (the letter `A` is not a rune of the line separator) was added with the repair of defect D18:
a line separator that contains `A` is padded with another letter (`cxA.placeholder`), which need not
be a cluster of `V` fixed by `g`.  Before the repair the theorem held for such separators too, but
only because all three runs used the same defective algorithm (stand-ins read as line separators,
real text deleted in their place). -/
/-- **paragraph mode** (`preservePara = true`), Editor.WrapOpts: the line and paragraph separators
form a `BridgeEditorParas.GoodPara` pair for both vocabularies and are fixed by `g`; the placeholder
letter `A` the implementation pads paragraphs with is a cluster of `V` fixed by `g`.  `r` is the
result of the operation on cluster tokens. -/
theorem C03_wrapOpts_para_code_points {V V' : List (List Int)}
    (hV : VocabStable V = true)
    (hsp : [0x20] ∈ V) (hhy : [0x2D] ∈ V) (hA : [0x41] ∈ V)
    (hspTail : ∀ t ∈ V, (0x20 : Int) ∉ t.tail)
    (hV' : VocabStable V' = true) (hspTail' : ∀ t ∈ V', (0x20 : Int) ∉ t.tail)
    (g : List Int → List Int) (hg : ∀ t ∈ V, g t ∈ V')
    (hws : ∀ t, cxB.isSpace (g t) = cxB.isSpace t) (hgsp : g [0x20] = [0x20])
    (hghy : g [0x2D] = [0x2D]) (hgA : g [0x41] = [0x41])
    (toks : List (List Int)) (ht : ∀ t ∈ toks, t ∈ V) (width : Int) (o0 o : Options (List Int))
    (hpp : o.preservePara = true)
    (hG : GoodPara V (o.withDefaults cxB).lineSep (o.withDefaults cxB).paraSep)
    (hG' : GoodPara V' (o.withDefaults cxB).lineSep (o.withDefaults cxB).paraSep)
    (hfix : ∀ s ∈ (o.withDefaults cxB).lineSep, g s = s)
    (hinv : ∀ t ∈ V, g t ∈ (o.withDefaults cxB).lineSep → t ∈ (o.withDefaults cxB).lineSep)
    (hfixP : ∀ s ∈ (o.withDefaults cxB).paraSep, g s = s)
    (hinvP : ∀ t ∈ V, g t ∈ (o.withDefaults cxB).paraSep → t ∈ (o.withDefaults cxB).paraSep)
    (hAL : (0x41 : Int) ∉ ((o.withDefaults cxB).lineSep).flatten) :
    ∃ r : List (List Int),
      Editor.wrapOpts cxA (.root toks.flatten o0.flat) width o.flat =
        .ok (.root r.flatten o0.flat) ∧
      Editor.wrapOpts cxA (.root (toks.map g).flatten o0.flat) width o.flat =
        .ok (.root (r.map g).flatten o0.flat) ∧
      Editor.wrapOpts cxB (.root toks o0) width o = .ok (.root r o0) :=
  wrapOpts_natural_para hV hsp hhy hA hspTail hV' hspTail' g hg hws hgsp hghy hgA toks ht width o0
    o hpp hG hG' hfix hinv hfixP hinvP hAL

open RosedVerif.BridgeEditorParas in
/-- the hypotheses are satisfiable: the default separators, any text over `demoVocabA`, the
identity substitution -/
example (toks : List (List Int)) (ht : ∀ t ∈ toks, t ∈ demoVocabA) (width : Int)
    (o0 o : Options (List Int)) (hpp : o.preservePara = true) (hl : o.lineSep = [])
    (hp : o.paraSep = []) :
    ∃ r : List (List Int),
      Editor.wrapOpts cxA (.root toks.flatten o0.flat) width o.flat =
        .ok (.root r.flatten o0.flat) ∧
      Editor.wrapOpts cxA (.root (toks.map id).flatten o0.flat) width o.flat =
        .ok (.root (r.map id).flatten o0.flat) ∧
      Editor.wrapOpts cxB (.root toks o0) width o = .ok (.root r o0) :=
  have hG : GoodPara demoVocabA (o.withDefaults cxB).lineSep (o.withDefaults cxB).paraSep := by
    rw [(default_seps o hl hp).1, (default_seps o hl hp).2]; exact demoVocabA_goodPara
  C03_wrapOpts_para_code_points demoVocabA_stable (by decide) (by decide) (by decide)
    (BridgeWrap.spTail_of_spOnly (by decide)) demoVocabA_stable
    (BridgeWrap.spTail_of_spOnly (by decide)) id (fun _ h => h) (fun _ => rfl) rfl rfl rfl toks ht
    width o0 o hpp hG hG (fun _ _ => rfl) (fun _ _ h => h) (fun _ _ => rfl) (fun _ _ h => h)
    (by rw [(default_seps o hl hp).1]; decide)

/- `hAL` as in `C03_wrapOpts_para_code_points`: JustifyOpts pads with the same stand-in (repair of D18) -/
/-- paragraph mode, Editor.JustifyOpts (`JustifyLastLine` on or off) -/
theorem C03_justifyOpts_para_code_points {V V' : List (List Int)}
    (hV : VocabStable V = true)
    (hsp : [0x20] ∈ V) (hA : [0x41] ∈ V) (hspTail : ∀ t ∈ V, (0x20 : Int) ∉ t.tail)
    (hV' : VocabStable V' = true) (hspTail' : ∀ t ∈ V', (0x20 : Int) ∉ t.tail)
    (g : List Int → List Int) (hg : ∀ t ∈ V, g t ∈ V')
    (hws : ∀ t, cxB.isSpace (g t) = cxB.isSpace t) (hgsp : g [0x20] = [0x20])
    (hghy : g [0x2D] = [0x2D]) (hgA : g [0x41] = [0x41])
    (toks : List (List Int)) (ht : ∀ t ∈ toks, t ∈ V) (width : Int) (o0 o : Options (List Int))
    (hpp : o.preservePara = true)
    (hG : GoodPara V (o.withDefaults cxB).lineSep (o.withDefaults cxB).paraSep)
    (hG' : GoodPara V' (o.withDefaults cxB).lineSep (o.withDefaults cxB).paraSep)
    (hfix : ∀ s ∈ (o.withDefaults cxB).lineSep, g s = s)
    (hinv : ∀ t ∈ V, g t ∈ (o.withDefaults cxB).lineSep → t ∈ (o.withDefaults cxB).lineSep)
    (hfixP : ∀ s ∈ (o.withDefaults cxB).paraSep, g s = s)
    (hinvP : ∀ t ∈ V, g t ∈ (o.withDefaults cxB).paraSep → t ∈ (o.withDefaults cxB).paraSep)
    (hAL : (0x41 : Int) ∉ ((o.withDefaults cxB).lineSep).flatten) :
    ∃ r : List (List Int),
      Editor.justifyOpts cxA (.root toks.flatten o0.flat) width o.flat =
        .ok (.root r.flatten o0.flat) ∧
      Editor.justifyOpts cxA (.root (toks.map g).flatten o0.flat) width o.flat =
        .ok (.root (r.map g).flatten o0.flat) ∧
      Editor.justifyOpts cxB (.root toks o0) width o = .ok (.root r o0) :=
  justifyOpts_natural_para hV hsp hA hspTail hV' hspTail' g hg hws hgsp hghy hgA toks ht width o0
    o hpp hG hG' hfix hinv hfixP hinvP hAL

open RosedVerif.BridgeEditorParas in
/-- the hypotheses are satisfiable: the default separators, any text over `demoVocabA`, the
identity substitution -/
example (toks : List (List Int)) (ht : ∀ t ∈ toks, t ∈ demoVocabA) (width : Int)
    (o0 o : Options (List Int)) (hpp : o.preservePara = true) (hl : o.lineSep = [])
    (hp : o.paraSep = []) :
    ∃ r : List (List Int),
      Editor.justifyOpts cxA (.root toks.flatten o0.flat) width o.flat =
        .ok (.root r.flatten o0.flat) ∧
      Editor.justifyOpts cxA (.root (toks.map id).flatten o0.flat) width o.flat =
        .ok (.root (r.map id).flatten o0.flat) ∧
      Editor.justifyOpts cxB (.root toks o0) width o = .ok (.root r o0) :=
  have hG : GoodPara demoVocabA (o.withDefaults cxB).lineSep (o.withDefaults cxB).paraSep := by
    rw [(default_seps o hl hp).1, (default_seps o hl hp).2]; exact demoVocabA_goodPara
  C03_justifyOpts_para_code_points demoVocabA_stable (by decide) (by decide)
    (BridgeWrap.spTail_of_spOnly (by decide)) demoVocabA_stable
    (BridgeWrap.spTail_of_spOnly (by decide)) id (fun _ h => h) (fun _ => rfl) rfl rfl rfl toks ht
    width o0 o hpp hG hG (fun _ _ => rfl) (fun _ _ h => h) (fun _ _ => rfl) (fun _ _ h => h)
    (by rw [(default_seps o hl hp).1]; decide)

/-- paragraph mode, Editor.AlignOpts, every alignment value (no placeholder letter involved) -/
theorem C03_alignOpts_para_code_points {V V' : List (List Int)}
    (hV : VocabStable V = true)
    (hsp : [0x20] ∈ V) (hV' : VocabStable V' = true)
    (g : List Int → List Int) (hg : ∀ t ∈ V, g t ∈ V')
    (hws : ∀ t, cxB.isSpace (g t) = cxB.isSpace t) (hgsp : g [0x20] = [0x20])
    (hghy : g [0x2D] = [0x2D])
    (toks : List (List Int)) (ht : ∀ t ∈ toks, t ∈ V) (align width : Int)
    (o0 o : Options (List Int)) (hpp : o.preservePara = true)
    (hG : GoodPara V (o.withDefaults cxB).lineSep (o.withDefaults cxB).paraSep)
    (hG' : GoodPara V' (o.withDefaults cxB).lineSep (o.withDefaults cxB).paraSep)
    (hfix : ∀ s ∈ (o.withDefaults cxB).lineSep, g s = s)
    (hinv : ∀ t ∈ V, g t ∈ (o.withDefaults cxB).lineSep → t ∈ (o.withDefaults cxB).lineSep)
    (hfixP : ∀ s ∈ (o.withDefaults cxB).paraSep, g s = s)
    (hinvP : ∀ t ∈ V, g t ∈ (o.withDefaults cxB).paraSep → t ∈ (o.withDefaults cxB).paraSep) :
    ∃ r : List (List Int),
      Editor.alignOpts cxA (.root toks.flatten o0.flat) align width o.flat =
        .ok (.root r.flatten o0.flat) ∧
      Editor.alignOpts cxA (.root (toks.map g).flatten o0.flat) align width o.flat =
        .ok (.root (r.map g).flatten o0.flat) ∧
      Editor.alignOpts cxB (.root toks o0) align width o = .ok (.root r o0) :=
  alignOpts_natural_para hV hsp hV' g hg hws hgsp hghy toks ht align width o0 o hpp hG hG' hfix
    hinv hfixP hinvP

/-- paragraph mode, Editor.IndentOpts, every level -/
theorem C03_indentOpts_para_code_points {V V' : List (List Int)}
    (hV : VocabStable V = true)
    (hV' : VocabStable V' = true)
    (g : List Int → List Int) (hg : ∀ t ∈ V, g t ∈ V')
    (toks : List (List Int)) (ht : ∀ t ∈ toks, t ∈ V) (level : Int) (o0 o : Options (List Int))
    (hpp : o.preservePara = true)
    (hG : GoodPara V (o.withDefaults cxB).lineSep (o.withDefaults cxB).paraSep)
    (hG' : GoodPara V' (o.withDefaults cxB).lineSep (o.withDefaults cxB).paraSep)
    (hfix : ∀ s ∈ (o.withDefaults cxB).lineSep, g s = s)
    (hinv : ∀ t ∈ V, g t ∈ (o.withDefaults cxB).lineSep → t ∈ (o.withDefaults cxB).lineSep)
    (hfixP : ∀ s ∈ (o.withDefaults cxB).paraSep, g s = s)
    (hinvP : ∀ t ∈ V, g t ∈ (o.withDefaults cxB).paraSep → t ∈ (o.withDefaults cxB).paraSep)
    (hI : ∀ s ∈ (o.withDefaults cxB).indentStr, s ≠ [])
    (hfixI : ∀ s ∈ (o.withDefaults cxB).indentStr, g s = s) :
    ∃ r : List (List Int),
      Editor.indentOpts cxA (.root toks.flatten o0.flat) level o.flat =
        .ok (.root r.flatten o0.flat) ∧
      Editor.indentOpts cxA (.root (toks.map g).flatten o0.flat) level o.flat =
        .ok (.root (r.map g).flatten o0.flat) ∧
      Editor.indentOpts cxB (.root toks o0) level o = .ok (.root r o0) :=
  indentOpts_natural_para hV hV' g hg toks ht level o0 o hpp hG hG' hfix hinv hfixP hinvP hI hfixI

/-- **precomposed ↔ decomposed**: `BridgeOps.demoVocab3` has `é` decomposed (`e` + U+0301, two code
points) and the flag 🇩🇪; `BridgeNatural.demoG` sends `e` + U+0301 to the precomposed U+00E9 of
`BridgeNatural.demoVocabNFC` (and, non-injectively, the flag to `a`).  For EVERY text over
`demoVocab3`, every position and every inserted text over it: `Insert` on the decomposed code points
and on the precomposed code points give results whose real UAX #29 clusters are `r` and
`r.map demoG`; `Delete` likewise. -/
example (toks ins : List (List Int)) (ht : ∀ t ∈ toks, t ∈ BridgeOps.demoVocab3)
    (hi : ∀ t ∈ ins, t ∈ BridgeOps.demoVocab3) (o0 o0' : Options Int) (p s e : Int) :
    (∃ r : List (List Int),
      Editor.insert cxA (.root toks.flatten o0) p ins.flatten = .ok (.root r.flatten o0) ∧
      Editor.insert cxA (.root (toks.map demoG).flatten o0') p (ins.map demoG).flatten =
        .ok (.root (r.map demoG).flatten o0') ∧
      clusters cxA r.flatten = r ∧ clusters cxA (r.map demoG).flatten = r.map demoG ∧
      r = insertToks toks p ins) ∧
    (∃ r : List (List Int),
      Editor.delete cxA (.root toks.flatten o0) s e = .ok (.root r.flatten o0) ∧
      Editor.delete cxA (.root (toks.map demoG).flatten o0') s e =
        .ok (.root (r.map demoG).flatten o0') ∧
      clusters cxA r.flatten = r ∧ clusters cxA (r.map demoG).flatten = r.map demoG ∧
      r = deleteToks toks s e) :=
  ⟨C03_insert_code_points BridgeOps.demoVocab3_stable demoVocabNFC_stable demoG demoG_hg toks ht o0
      o0' p ins hi,
    C03_delete_code_points BridgeOps.demoVocab3_stable demoVocabNFC_stable demoG demoG_hg toks ht o0
      o0' s e⟩

/-- the same pair of vocabularies for a layout operation: `JustifyOpts` with the default options
(line separator U+000A), every text over `demoVocab3`, every width -/
example (toks : List (List Int)) (ht : ∀ t ∈ toks, t ∈ BridgeOps.demoVocab3) (w : Int)
    (o0 : Options (List Int)) :
    ∃ r : List (List Int),
      Editor.justifyOpts cxA (.root toks.flatten o0.flat) w ({} : Options (List Int)).flat =
        .ok (.root r.flatten o0.flat) ∧
      Editor.justifyOpts cxA (.root (toks.map demoG).flatten o0.flat) w
        ({} : Options (List Int)).flat = .ok (.root (r.map demoG).flatten o0.flat) ∧
      clusters cxA r.flatten = r ∧ clusters cxA (r.map demoG).flatten = r.map demoG ∧
      r = justifyText (.root toks o0) w {} :=
  C03_justifyOpts_code_points BridgeOps.demoVocab3_stable BridgeOps.demoVocab3_sp
    BridgeOps.demoVocab3_spTail demoVocabNFC_stable (by decide) (by decide) demoG demoG_hg demoG_ws
    rfl rfl toks ht w o0 {} rfl
    (by rw [default_lineSep_B]; exact BridgeEditorOps.demo3_good_nl)
    (by rw [default_lineSep_B]; exact goodSep_rune demoVocabNFC_stable (by decide))
    (by rw [default_lineSep_B]; decide) (by rw [default_lineSep_B]; decide)
    (by rw [default_lineSep_B]; decide)

end RosedVerif.Props
