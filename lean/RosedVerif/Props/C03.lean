/-
C03 — Layout depends on grapheme clusters only, not on their encoding.
Naturality: every layer-B layout function commutes with ANY map on tokens that preserves
whitespace-ness and the structural tokens (space, hyphen) — the map need not be injective.  Hence
break positions, padding and line lengths are identical for texts that differ only in how their
clusters are encoded.  The rune-level statement is tied by the relational run of ./check C03
(the same operation on a text and on its cluster-for-cluster substitution, on the real code).
-/
import RosedVerif.Spec.Naturality
namespace RosedVerif.Props
open RosedVerif.Spec
variable {α β : Type} {tk : Toks α} {tk' : Toks β} {g : α → β}

theorem C03_wrap (h : TokMap tk tk' g) (w : Nat) (l : List α) :
    wrapLines tk' w (l.map g) = (wrapLines tk w l).map (List.map g) := wrapLines_map h w l
theorem C03_wrap_breaks (h : TokMap tk tk' g) (w : Nat) (l : List α) :
    (wrapLines tk' w (l.map g)).map List.length = (wrapLines tk w l).map List.length :=
  wrapLines_map_lengths h w l
theorem C03_collapse (h : TokMap tk tk' g) (l : List α) : collapse tk' (l.map g) = (collapse tk l).map g :=
  collapse_map h l
theorem C03_alignLeft (h : TokMap tk tk' g) (w : Int) (l : List α) :
    alignLeft tk' w (l.map g) = (alignLeft tk w l).map g := alignLeft_map h w l
theorem C03_alignRight (h : TokMap tk tk' g) (w : Int) (l : List α) :
    alignRight tk' w (l.map g) = (alignRight tk w l).map g := alignRight_map h w l
theorem C03_alignCenter (h : TokMap tk tk' g) (w : Int) (l : List α) :
    alignCenter tk' w (l.map g) = (alignCenter tk w l).map g := alignCenter_map h w l
theorem C03_words (h : TokMap tk tk' g) (l : List α) : words tk' (l.map g) = (words tk l).map (List.map g) :=
  words_map h l

end RosedVerif.Props
