/-
C03 — Layout depends on grapheme clusters only, not on their encoding.
Naturality: every layer-B layout function commutes with ANY map on tokens that preserves
whitespace-ness and the structural tokens (space, hyphen) — the map need not be injective.  Hence
break positions, padding and line lengths are identical for texts that differ only in how their
clusters are encoded.  The rune-level statement is tied by the relational run of ./check C03
(the same operation on a text and on its cluster-for-cluster substitution, on the real code).
-/
import RosedVerif.Spec.Naturality
import RosedVerif.Model.BridgeWrap
import RosedVerif.Model.BridgeAlign
import RosedVerif.Model.BridgeNatural
namespace RosedVerif.Props
open RosedVerif.Spec
variable {α β : Type} {tk : Toks α} {tk' : Toks β} {g : α → β}

theorem C03_wrap (h : TokMap tk tk' g) (w : Nat) (l : List α) :
    Spec.wrapLines tk' w (l.map g) = (Spec.wrapLines tk w l).map (List.map g) := wrapLines_map h w l
theorem C03_wrap_breaks (h : TokMap tk tk' g) (w : Nat) (l : List α) :
    (Spec.wrapLines tk' w (l.map g)).map List.length = (Spec.wrapLines tk w l).map List.length :=
  wrapLines_map_lengths h w l
theorem C03_collapse (h : TokMap tk tk' g) (l : List α) : Spec.collapse tk' (l.map g) = (Spec.collapse tk l).map g :=
  collapse_map h l
theorem C03_alignLeft (h : TokMap tk tk' g) (w : Int) (l : List α) :
    Spec.alignLeft tk' w (l.map g) = (Spec.alignLeft tk w l).map g := alignLeft_map h w l
theorem C03_alignRight (h : TokMap tk tk' g) (w : Int) (l : List α) :
    Spec.alignRight tk' w (l.map g) = (Spec.alignRight tk w l).map g := alignRight_map h w l
theorem C03_alignCenter (h : TokMap tk tk' g) (w : Int) (l : List α) :
    Spec.alignCenter tk' w (l.map g) = (Spec.alignCenter tk w l).map g := alignCenter_map h w l
theorem C03_words (h : TokMap tk tk' g) (l : List α) : Spec.words tk' (l.map g) = (Spec.words tk l).map (List.map g) :=
  words_map h l

open RosedVerif in
/-- **on code points**: take two stable vocabularies `V`, `V'` (any encodings: precomposed or
decomposed accents, ZWJ sequences, flags, jamo …) and ANY cluster-for-cluster substitution `g`
from `V` into `V'` that keeps whitespace clusters whitespace, non-whitespace clusters
non-whitespace, and fixes the space and the hyphen.  Then the model of manip.Wrap on the CODE
POINTS of a text and of its substituted text (real UAX #29 segmentation on both) produce line lists
that are the same cluster-for-cluster substitution of one another: same breaks, same hyphens. -/
theorem C03_wrap_code_points {V V' : List (List Int)}
    (hV : VocabStable V = true) (hsp : [0x20] ∈ V) (hspTail : ∀ t ∈ V, (0x20 : Int) ∉ t.tail)
    (hV' : VocabStable V' = true) (hsp' : [0x20] ∈ V') (hspTail' : ∀ t ∈ V', (0x20 : Int) ∉ t.tail)
    (g : List Int → List Int) (hg : ∀ t ∈ V, g t ∈ V')
    (hws : ∀ t, cxB.isSpace (g t) = cxB.isSpace t) (hgsp : g [0x20] = [0x20]) (hghy : g [0x2D] = [0x2D])
    (toks : List (List Int)) (ht : ∀ t ∈ toks, t ∈ V) (w : Int) :
    ∃ r : List (List (List Int)),
      RosedVerif.wrapLines cxA toks.flatten w [] = .ok (r.map List.flatten) ∧
      RosedVerif.wrapLines cxA (toks.map g).flatten w [] = .ok ((r.map (List.map g)).map List.flatten) := by
  have hmap : TokMap ⟨cxB.isSpace, cxB.sp, cxB.hy⟩ ⟨cxB.isSpace, cxB.sp, cxB.hy⟩ g := ⟨hws, hgsp, hghy⟩
  refine ⟨Spec.wrapLines ⟨cxB.isSpace, cxB.sp, cxB.hy⟩ (max w 2).toNat toks,
    wrapLines_bridge_spec hV hsp hspTail toks ht w, ?_⟩
  have ht' : ∀ t ∈ toks.map g, t ∈ V' := by
    intro t h
    obtain ⟨u, hu, rfl⟩ := List.mem_map.1 h
    exact hg u (ht u hu)
  rw [wrapLines_bridge_spec hV' hsp' hspTail' (toks.map g) ht' w, wrapLines_map hmap]

open RosedVerif in
/-- the same for CollapseSpace -/
theorem C03_collapse_code_points {V V' : List (List Int)}
    (hV : VocabStable V = true) (hsp : [0x20] ∈ V) (hspTail : ∀ t ∈ V, (0x20 : Int) ∉ t.tail)
    (hV' : VocabStable V' = true) (hsp' : [0x20] ∈ V') (hspTail' : ∀ t ∈ V', (0x20 : Int) ∉ t.tail)
    (g : List Int → List Int) (hg : ∀ t ∈ V, g t ∈ V')
    (hws : ∀ t, cxB.isSpace (g t) = cxB.isSpace t) (hgsp : g [0x20] = [0x20]) (hghy : g [0x2D] = [0x2D])
    (toks : List (List Int)) (ht : ∀ t ∈ toks, t ∈ V) :
    ∃ r : List (List Int),
      collapseSpace cxA toks.flatten [] = .ok r.flatten ∧
      collapseSpace cxA (toks.map g).flatten [] = .ok (r.map g).flatten := by
  have hmap : TokMap ⟨cxB.isSpace, cxB.sp, cxB.hy⟩ ⟨cxB.isSpace, cxB.sp, cxB.hy⟩ g := ⟨hws, hgsp, hghy⟩
  refine ⟨Spec.collapse ⟨cxB.isSpace, cxB.sp, cxB.hy⟩ toks,
    collapseSpace_bridge_spec hV hsp hspTail toks ht, ?_⟩
  have ht' : ∀ t ∈ toks.map g, t ∈ V' := by
    intro t h
    obtain ⟨u, hu, rfl⟩ := List.mem_map.1 h
    exact hg u (ht u hu)
  rw [collapseSpace_bridge_spec hV' hsp' hspTail' (toks.map g) ht', collapse_map hmap]

open RosedVerif in
/-- the same for AlignLineLeft / Right / Center: padding and stripping positions are identical for a
text and its cluster-for-cluster substitution, on code points with the real segmentation -/
theorem C03_align_code_points {V V' : List (List Int)}
    (hV : VocabStable V = true) (hV' : VocabStable V' = true)
    (g : List Int → List Int) (hg : ∀ t ∈ V, g t ∈ V')
    (hws : ∀ t, cxB.isSpace (g t) = cxB.isSpace t) (hgsp : g [0x20] = [0x20]) (hghy : g [0x2D] = [0x2D])
    (toks : List (List Int)) (ht : ∀ t ∈ toks, t ∈ V) (w : Int) :
    (∃ r : List (List Int), RosedVerif.alignLeft cxA toks.flatten w = r.flatten ∧
          RosedVerif.alignLeft cxA (toks.map g).flatten w = (r.map g).flatten) ∧
    (∃ r : List (List Int), RosedVerif.alignRight cxA toks.flatten w = r.flatten ∧
          RosedVerif.alignRight cxA (toks.map g).flatten w = (r.map g).flatten) ∧
    (∃ r : List (List Int), RosedVerif.alignCenter cxA toks.flatten w = r.flatten ∧
          RosedVerif.alignCenter cxA (toks.map g).flatten w = (r.map g).flatten) := by
  have hmap : TokMap ⟨cxB.isSpace, cxB.sp, cxB.hy⟩ ⟨cxB.isSpace, cxB.sp, cxB.hy⟩ g := ⟨hws, hgsp, hghy⟩
  have ht' : ∀ t ∈ toks.map g, t ∈ V' := by
    intro t h
    obtain ⟨u, hu, rfl⟩ := List.mem_map.1 h
    exact hg u (ht u hu)
  refine ⟨⟨_, alignLeft_bridge_spec hV toks ht w, ?_⟩, ⟨_, alignRight_bridge_spec hV toks ht w, ?_⟩,
    ⟨_, alignCenter_bridge_spec hV toks ht w, ?_⟩⟩
  · rw [alignLeft_bridge_spec hV' (toks.map g) ht' w, alignLeft_map hmap]
  · rw [alignRight_bridge_spec hV' (toks.map g) ht' w, alignRight_map hmap]
  · rw [alignCenter_bridge_spec hV' (toks.map g) ht' w, alignCenter_map hmap]

open RosedVerif RosedVerif.BridgeOps RosedVerif.BridgeNatural

/-- **the PUBLIC operation on code points**: Editor.WrapOpts (non-paragraph mode, any options whose line separator is fixed by `g` and not produced by `g` from another cluster — necessary, `BridgeNatural.hinv_needed`) on a text and on its cluster-for-cluster substitution `g` (any whitespace-preserving map between two stable vocabularies, not necessarily injective) returns texts whose REAL grapheme clusters are `r` and `r.map g` -/
theorem C03_wrapOpts_code_points {V V' : List (List Int)} (hV : VocabStable V = true)
    (hsp : [0x20] ∈ V)
    (hhy : [0x2D] ∈ V)
    (hspTail : ∀ t ∈ V, (0x20 : Int) ∉ t.tail)
    (hV' : VocabStable V' = true)
    (hsp' : [0x20] ∈ V')
    (hspTail' : ∀ t ∈ V', (0x20 : Int) ∉ t.tail)
    (g : List Int → List Int)
    (hg : ∀ t ∈ V, g t ∈ V')
    (hws : ∀ t, cxB.isSpace (g t) = cxB.isSpace t)
    (hgsp : g [0x20] = [0x20])
    (hghy : g [0x2D] = [0x2D])
    (toks : List (List Int))
    (ht : ∀ t ∈ toks, t ∈ V)
    (w : Int)
    (o0 o : Options (List Int))
    (hpp : o.preservePara = false)
    (hS : GoodSep V (o.withDefaults cxB).lineSep)
    (hS' : GoodSep V' (o.withDefaults cxB).lineSep)
    (hSV : ∀ s ∈ (o.withDefaults cxB).lineSep, s ∈ V)
    (hfix : ∀ s ∈ (o.withDefaults cxB).lineSep, g s = s)
    (hinv : ∀ t ∈ V, g t ∈ (o.withDefaults cxB).lineSep → t ∈ (o.withDefaults cxB).lineSep) :
    ∃ r : List (List Int),
      Editor.wrapOpts cxA (.root toks.flatten o0.flat) w o.flat = .ok (.root r.flatten o0.flat) ∧
      Editor.wrapOpts cxA (.root (toks.map g).flatten o0.flat) w o.flat =
        .ok (.root (r.map g).flatten o0.flat) ∧
      clusters cxA r.flatten = r ∧ clusters cxA (r.map g).flatten = r.map g ∧
      r = wrapText (o.withDefaults cxB).lineSep toks w :=
  wrapOpts_natural_clusters hV hsp hhy hspTail hV' hsp' hspTail' g hg hws hgsp hghy toks ht w o0 o hpp hS hS' hSV hfix hinv

/-- the same for Editor.AlignOpts, every alignment value -/
theorem C03_alignOpts_code_points {V V' : List (List Int)} (hV : VocabStable V = true)
    (hsp : [0x20] ∈ V)
    (hV' : VocabStable V' = true)
    (g : List Int → List Int)
    (hg : ∀ t ∈ V, g t ∈ V')
    (hws : ∀ t, cxB.isSpace (g t) = cxB.isSpace t)
    (hgsp : g [0x20] = [0x20])
    (hghy : g [0x2D] = [0x2D])
    (toks : List (List Int))
    (ht : ∀ t ∈ toks, t ∈ V)
    (align width : Int)
    (o0 o : Options (List Int))
    (hal : align = Gen.alignLeft ∨ align = Gen.alignRight ∨ align = Gen.alignCenter)
    (hpp : o.preservePara = false)
    (hS : GoodSep V (o.withDefaults cxB).lineSep)
    (hS' : GoodSep V' (o.withDefaults cxB).lineSep)
    (hSV : ∀ s ∈ (o.withDefaults cxB).lineSep, s ∈ V)
    (hfix : ∀ s ∈ (o.withDefaults cxB).lineSep, g s = s)
    (hinv : ∀ t ∈ V, g t ∈ (o.withDefaults cxB).lineSep → t ∈ (o.withDefaults cxB).lineSep) :
    ∃ r : List (List Int),
      Editor.alignOpts cxA (.root toks.flatten o0.flat) align width o.flat =
        .ok (.root r.flatten o0.flat) ∧
      Editor.alignOpts cxA (.root (toks.map g).flatten o0.flat) align width o.flat =
        .ok (.root (r.map g).flatten o0.flat) ∧
      clusters cxA r.flatten = r ∧ clusters cxA (r.map g).flatten = r.map g ∧
      r = alignText (.root toks o0) align width o :=
  alignOpts_natural_clusters hV hsp hV' g hg hws hgsp hghy toks ht align width o0 o hal hpp hS hS' hSV hfix hinv

/-- the same for Editor.CollapseSpaceOpts -/
theorem C03_collapseSpaceOpts_code_points {V V' : List (List Int)} (hV : VocabStable V = true)
    (hsp : [0x20] ∈ V)
    (hspTail : ∀ t ∈ V, (0x20 : Int) ∉ t.tail)
    (hV' : VocabStable V' = true)
    (hsp' : [0x20] ∈ V')
    (hspTail' : ∀ t ∈ V', (0x20 : Int) ∉ t.tail)
    (g : List Int → List Int)
    (hg : ∀ t ∈ V, g t ∈ V')
    (hws : ∀ t, cxB.isSpace (g t) = cxB.isSpace t)
    (hgsp : g [0x20] = [0x20])
    (hghy : g [0x2D] = [0x2D])
    (toks : List (List Int))
    (ht : ∀ t ∈ toks, t ∈ V)
    (o0 o : Options (List Int))
    (hS : GoodSep V (o.withDefaults cxB).lineSep)
    (hS' : GoodSep V' (o.withDefaults cxB).lineSep)
    (hfix : ∀ s ∈ (o.withDefaults cxB).lineSep, g s = s)
    (hinv : ∀ t ∈ V, g t ∈ (o.withDefaults cxB).lineSep → t ∈ (o.withDefaults cxB).lineSep) :
    ∃ r : List (List Int),
      Editor.collapseSpaceOpts cxA (.root toks.flatten o0.flat) o.flat =
        .ok (.root r.flatten o0.flat) ∧
      Editor.collapseSpaceOpts cxA (.root (toks.map g).flatten o0.flat) o.flat =
        .ok (.root (r.map g).flatten o0.flat) ∧
      clusters cxA r.flatten = r ∧ clusters cxA (r.map g).flatten = r.map g ∧
      r = collapseText (o.withDefaults cxB).lineSep toks :=
  collapseSpaceOpts_natural_clusters hV hsp hspTail hV' hsp' hspTail' g hg hws hgsp hghy toks ht o0 o hS hS' hfix hinv

/-- counting: CharCount of a text and of its substitution are both the number of clusters -/
theorem C03_charCount_code_points {V V' : List (List Int)} (hV : VocabStable V = true)
    (hV' : VocabStable V' = true)
    (g : List Int → List Int)
    (hg : ∀ t ∈ V, g t ∈ V')
    (toks : List (List Int))
    (ht : ∀ t ∈ toks, t ∈ V)
    (o0 o0' : Options Int) :
    Editor.charCount cxA (.root (toks.map g).flatten o0') = toks.length ∧
      Editor.charCount cxA (.root toks.flatten o0) = toks.length :=
  charCount_natural hV hV' g hg toks ht o0 o0'

/-- counting: LineCount is unchanged by the substitution -/
theorem C03_lineCount_code_points {V V' : List (List Int)} (hV : VocabStable V = true)
    (hV' : VocabStable V' = true)
    (g : List Int → List Int)
    (hg : ∀ t ∈ V, g t ∈ V')
    (toks : List (List Int))
    (ht : ∀ t ∈ toks, t ∈ V)
    (o0 : Options (List Int))
    (hS : GoodSep V (o0.withDefaults cxB).lineSep)
    (hS' : GoodSep V' (o0.withDefaults cxB).lineSep)
    (hfix : ∀ s ∈ (o0.withDefaults cxB).lineSep, g s = s)
    (hinv : ∀ t ∈ V, g t ∈ (o0.withDefaults cxB).lineSep → t ∈ (o0.withDefaults cxB).lineSep) :
    Editor.lineCount cxA (.root (toks.map g).flatten o0.flat) =
        Editor.lineCount cxA (.root toks.flatten o0.flat) ∧
      Editor.lineCount cxA (.root toks.flatten o0.flat) =
        (Spec.bareLines toks (o0.withDefaults cxB).lineSep o0.noTrailing).length :=
  lineCount_natural hV hV' g hg toks ht o0 hS hS' hfix hinv

end RosedVerif.Props
