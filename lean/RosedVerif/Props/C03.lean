/-
C03 — Layout depends on grapheme clusters only, not on their encoding.
Naturality: every layer-B layout function commutes with ANY map on tokens that preserves
whitespace-ness and the structural tokens (space, hyphen) — the map need not be injective.  Hence
break positions, padding and line lengths are identical for texts that differ only in how their
clusters are encoded.  The rune-level statement is tied by the relational run of ./check C03
(the same operation on a text and on its cluster-for-cluster substitution, on the real code).
-/
import RosedVerif.Spec.Naturality
import RosedVerif.Model.BridgeWrap
import RosedVerif.Model.BridgeAlign
namespace RosedVerif.Props
open RosedVerif.Spec
variable {α β : Type} {tk : Toks α} {tk' : Toks β} {g : α → β}

theorem C03_wrap (h : TokMap tk tk' g) (w : Nat) (l : List α) :
    Spec.wrapLines tk' w (l.map g) = (Spec.wrapLines tk w l).map (List.map g) := wrapLines_map h w l
theorem C03_wrap_breaks (h : TokMap tk tk' g) (w : Nat) (l : List α) :
    (Spec.wrapLines tk' w (l.map g)).map List.length = (Spec.wrapLines tk w l).map List.length :=
  wrapLines_map_lengths h w l
theorem C03_collapse (h : TokMap tk tk' g) (l : List α) : Spec.collapse tk' (l.map g) = (Spec.collapse tk l).map g :=
  collapse_map h l
theorem C03_alignLeft (h : TokMap tk tk' g) (w : Int) (l : List α) :
    Spec.alignLeft tk' w (l.map g) = (Spec.alignLeft tk w l).map g := alignLeft_map h w l
theorem C03_alignRight (h : TokMap tk tk' g) (w : Int) (l : List α) :
    Spec.alignRight tk' w (l.map g) = (Spec.alignRight tk w l).map g := alignRight_map h w l
theorem C03_alignCenter (h : TokMap tk tk' g) (w : Int) (l : List α) :
    Spec.alignCenter tk' w (l.map g) = (Spec.alignCenter tk w l).map g := alignCenter_map h w l
theorem C03_words (h : TokMap tk tk' g) (l : List α) : Spec.words tk' (l.map g) = (Spec.words tk l).map (List.map g) :=
  words_map h l

open RosedVerif in
/-- **on code points**: take two stable vocabularies `V`, `V'` (any encodings: precomposed or
decomposed accents, ZWJ sequences, flags, jamo …) and ANY cluster-for-cluster substitution `g`
from `V` into `V'` that keeps whitespace clusters whitespace, non-whitespace clusters
non-whitespace, and fixes the space and the hyphen.  Then the model of manip.Wrap on the CODE
POINTS of a text and of its substituted text (real UAX #29 segmentation on both) produce line lists
that are the same cluster-for-cluster substitution of one another: same breaks, same hyphens. -/
theorem C03_wrap_code_points {V V' : List (List Int)}
    (hV : VocabStable V = true) (hsp : [0x20] ∈ V) (hspTail : ∀ t ∈ V, (0x20 : Int) ∉ t.tail)
    (hV' : VocabStable V' = true) (hsp' : [0x20] ∈ V') (hspTail' : ∀ t ∈ V', (0x20 : Int) ∉ t.tail)
    (g : List Int → List Int) (hg : ∀ t ∈ V, g t ∈ V')
    (hws : ∀ t, cxB.isSpace (g t) = cxB.isSpace t) (hgsp : g [0x20] = [0x20]) (hghy : g [0x2D] = [0x2D])
    (toks : List (List Int)) (ht : ∀ t ∈ toks, t ∈ V) (w : Int) :
    ∃ r : List (List (List Int)),
      RosedVerif.wrapLines cxA toks.flatten w [] = .ok (r.map List.flatten) ∧
      RosedVerif.wrapLines cxA (toks.map g).flatten w [] = .ok ((r.map (List.map g)).map List.flatten) := by
  have hmap : TokMap ⟨cxB.isSpace, cxB.sp, cxB.hy⟩ ⟨cxB.isSpace, cxB.sp, cxB.hy⟩ g := ⟨hws, hgsp, hghy⟩
  refine ⟨Spec.wrapLines ⟨cxB.isSpace, cxB.sp, cxB.hy⟩ (max w 2).toNat toks,
    wrapLines_bridge_spec hV hsp hspTail toks ht w, ?_⟩
  have ht' : ∀ t ∈ toks.map g, t ∈ V' := by
    intro t h
    obtain ⟨u, hu, rfl⟩ := List.mem_map.1 h
    exact hg u (ht u hu)
  rw [wrapLines_bridge_spec hV' hsp' hspTail' (toks.map g) ht' w, wrapLines_map hmap]

open RosedVerif in
/-- the same for CollapseSpace -/
theorem C03_collapse_code_points {V V' : List (List Int)}
    (hV : VocabStable V = true) (hsp : [0x20] ∈ V) (hspTail : ∀ t ∈ V, (0x20 : Int) ∉ t.tail)
    (hV' : VocabStable V' = true) (hsp' : [0x20] ∈ V') (hspTail' : ∀ t ∈ V', (0x20 : Int) ∉ t.tail)
    (g : List Int → List Int) (hg : ∀ t ∈ V, g t ∈ V')
    (hws : ∀ t, cxB.isSpace (g t) = cxB.isSpace t) (hgsp : g [0x20] = [0x20]) (hghy : g [0x2D] = [0x2D])
    (toks : List (List Int)) (ht : ∀ t ∈ toks, t ∈ V) :
    ∃ r : List (List Int),
      collapseSpace cxA toks.flatten [] = .ok r.flatten ∧
      collapseSpace cxA (toks.map g).flatten [] = .ok (r.map g).flatten := by
  have hmap : TokMap ⟨cxB.isSpace, cxB.sp, cxB.hy⟩ ⟨cxB.isSpace, cxB.sp, cxB.hy⟩ g := ⟨hws, hgsp, hghy⟩
  refine ⟨Spec.collapse ⟨cxB.isSpace, cxB.sp, cxB.hy⟩ toks,
    collapseSpace_bridge_spec hV hsp hspTail toks ht, ?_⟩
  have ht' : ∀ t ∈ toks.map g, t ∈ V' := by
    intro t h
    obtain ⟨u, hu, rfl⟩ := List.mem_map.1 h
    exact hg u (ht u hu)
  rw [collapseSpace_bridge_spec hV' hsp' hspTail' (toks.map g) ht', collapse_map hmap]

open RosedVerif in
/-- the same for AlignLineLeft / Right / Center: padding and stripping positions are identical for a
text and its cluster-for-cluster substitution, on code points with the real segmentation -/
theorem C03_align_code_points {V V' : List (List Int)}
    (hV : VocabStable V = true) (hV' : VocabStable V' = true)
    (g : List Int → List Int) (hg : ∀ t ∈ V, g t ∈ V')
    (hws : ∀ t, cxB.isSpace (g t) = cxB.isSpace t) (hgsp : g [0x20] = [0x20]) (hghy : g [0x2D] = [0x2D])
    (toks : List (List Int)) (ht : ∀ t ∈ toks, t ∈ V) (w : Int) :
    (∃ r : List (List Int), RosedVerif.alignLeft cxA toks.flatten w = r.flatten ∧
          RosedVerif.alignLeft cxA (toks.map g).flatten w = (r.map g).flatten) ∧
    (∃ r : List (List Int), RosedVerif.alignRight cxA toks.flatten w = r.flatten ∧
          RosedVerif.alignRight cxA (toks.map g).flatten w = (r.map g).flatten) ∧
    (∃ r : List (List Int), RosedVerif.alignCenter cxA toks.flatten w = r.flatten ∧
          RosedVerif.alignCenter cxA (toks.map g).flatten w = (r.map g).flatten) := by
  have hmap : TokMap ⟨cxB.isSpace, cxB.sp, cxB.hy⟩ ⟨cxB.isSpace, cxB.sp, cxB.hy⟩ g := ⟨hws, hgsp, hghy⟩
  have ht' : ∀ t ∈ toks.map g, t ∈ V' := by
    intro t h
    obtain ⟨u, hu, rfl⟩ := List.mem_map.1 h
    exact hg u (ht u hu)
  refine ⟨⟨_, alignLeft_bridge_spec hV toks ht w, ?_⟩, ⟨_, alignRight_bridge_spec hV toks ht w, ?_⟩,
    ⟨_, alignCenter_bridge_spec hV toks ht w, ?_⟩⟩
  · rw [alignLeft_bridge_spec hV' (toks.map g) ht' w, alignLeft_map hmap]
  · rw [alignRight_bridge_spec hV' (toks.map g) ht' w, alignRight_map hmap]
  · rw [alignCenter_bridge_spec hV' (toks.map g) ht' w, alignCenter_map hmap]

end RosedVerif.Props
