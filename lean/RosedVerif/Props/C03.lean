import RosedVerif.Model.Ops
