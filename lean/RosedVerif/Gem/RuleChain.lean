/-
The rule chain of `shouldBreakAfter` as DATA (regenerated from the source into Gen/Rules.lean) and its
evaluation over classes.  `Props/C01.lean` proves that evaluating the regenerated list equals the
model's `brkCore` for every class pair and both context bits.
-/
import RosedVerif.Gem.Cls
namespace RosedVerif

/-- guards: `p k onNext` = k-th predicate (order of gem.VerifPreds) applied to `r` or to `nextR` -/
inductive BExp
  | p (k : Nat) (onNext : Bool)
  | and (a b : BExp)
  | or (a b : BExp)
  | not (a : BExp)
  | hasPrev          -- `i-1 >= 0`
  deriving Repr

inductive Rule
  | simple (guard : BExp) (res : Bool)      -- if guard { return res }
  | scanEP (guard : BExp) (res : Bool)      -- if guard { backward loop: skip Extend, hit ExtPict ⇒ return res }
  | riEven (guard : BExp) (res : Bool)      -- if guard { count preceding RI; even ⇒ return res }
  deriving Repr

def predClass : Nat → Cls
  | 0 => .prepend | 1 => .cr | 2 => .lf | 3 => .control | 4 => .extend | 5 => .ri | 6 => .spacing
  | 7 => .l | 8 => .v | 9 => .t | 10 => .lv | 11 => .lvt | 12 => .zwj | 13 => .extpict
  | _ => .other

/-- `ep`: the GB11 backward scan succeeds (which already implies there is a previous element) -/
def BExp.eval (r nx : Cls) : BExp → Bool
  | .p k onNext => (if onNext then nx else r) == predClass k
  | .and a b => a.eval r nx && b.eval r nx
  | .or a b => a.eval r nx || b.eval r nx
  | .not a => !a.eval r nx
  | .hasPrev => true     -- only ever a conjunct of the scan guard; the scan itself fails on an empty prefix

def evalRules (dflt : Bool) (r nx : Cls) (ep re : Bool) : List Rule → Bool
  | [] => dflt
  | .simple g res :: rest => if g.eval r nx then res else evalRules dflt r nx ep re rest
  | .scanEP g res :: rest => if g.eval r nx && ep then res else evalRules dflt r nx ep re rest
  | .riEven g res :: rest => if g.eval r nx && re then res else evalRules dflt r nx ep re rest

end RosedVerif
