/-
Break classes (the 13 Grapheme_Cluster_Break values in use + Other +
Extended_Pictographic) and the lookup tree type used for fast classification.
-/
import RosedVerif.Gem.Ranges
namespace RosedVerif

inductive Cls
  | other | cr | lf | control | extend | zwj | ri | prepend
  | spacing | l | v | t | lv | lvt | extpict
  deriving DecidableEq, Repr, Inhabited

def Cls.all : List Cls :=
  [.other, .cr, .lf, .control, .extend, .zwj, .ri, .prepend, .spacing, .l, .v, .t, .lv, .lvt, .extpict]

theorem Cls.mem_all (c : Cls) : c ∈ Cls.all := by cases c <;> decide

def Cls.toNat : Cls → Nat
  | .other => 0 | .cr => 1 | .lf => 2 | .control => 3 | .extend => 4 | .zwj => 5 | .ri => 6
  | .prepend => 7 | .spacing => 8 | .l => 9 | .v => 10 | .t => 11 | .lv => 12 | .lvt => 13
  | .extpict => 14

/-- binary search tree of disjoint closed ranges, each carrying a class -/
inductive RTree
  | L
  | N (l : RTree) (lo hi : Nat) (c : Cls) (r : RTree)

namespace RTree

def lookup : RTree → Nat → Cls
  | L, _ => .other
  | N l lo hi c r, x => if x < lo then l.lookup x else if hi < x then r.lookup x else c

/-- search-tree invariant: every range is valid, inside `[lb, ub)`, and ordered -/
def ok : RTree → Nat → Option Nat → Bool
  | L, _, _ => true
  | N l lo hi c r, lb, ub =>
    decide (lb ≤ lo) && decide (lo ≤ hi) && (match ub with | none => true | some u => decide (hi < u))
      && l.ok lb (some lo) && r.ok (hi + 1) ub && (c != .other)

/-- the ranges carrying class `X`, in order -/
def ranges (X : Cls) : RTree → List (Nat × Nat)
  | L => []
  | N l lo hi c r => l.ranges X ++ (if c == X then [(lo, hi)] else []) ++ r.ranges X

theorem inRanges_append (a b : List (Nat × Nat)) (x : Nat) :
    inRanges (a ++ b) x = (inRanges a x || inRanges b x) := by
  simp [inRanges, List.any_append]

def ltUb (x : Nat) : Option Nat → Prop
  | none => True
  | some u => x < u

theorem ranges_bounds (X : Cls) (t : RTree) (lb : Nat) (ub : Option Nat) (h : t.ok lb ub = true)
    (x : Nat) (hx : inRanges (t.ranges X) x = true) : lb ≤ x ∧ ltUb x ub := by
  induction t generalizing lb ub with
  | L => simp [ranges, inRanges] at hx
  | N l lo hi c r ihl ihr =>
    simp only [ok, Bool.and_eq_true, decide_eq_true_eq] at h
    obtain ⟨⟨⟨⟨⟨h1, h2⟩, h3⟩, h4⟩, h5⟩, _⟩ := h
    simp only [ranges, inRanges_append, Bool.or_eq_true] at hx
    rcases hx with (hx | hx) | hx
    · have := ihl lb (some lo) h4 hx
      refine ⟨this.1, ?_⟩
      have t2 : x < lo := this.2
      cases ub with
      | none => trivial
      | some u => simp only [decide_eq_true_eq] at h3; show x < u; omega
    · split at hx
      · simp only [inRanges, List.any_cons, List.any_nil, Bool.or_false, Bool.and_eq_true,
          decide_eq_true_eq] at hx
        refine ⟨by omega, ?_⟩
        cases ub with
        | none => trivial
        | some u => simp only [decide_eq_true_eq] at h3; show x < u; omega
      · simp [inRanges] at hx
    · have := ihr (hi + 1) ub h5 hx
      exact ⟨by omega, this.2⟩

theorem inRanges_mid (c X : Cls) (lo hi x : Nat) :
    inRanges (if c == X then [(lo, hi)] else []) x = ((c == X) && (decide (lo ≤ x) && decide (x ≤ hi))) := by
  cases h : (c == X) <;> simp [inRanges]

theorem lookup_eq (X : Cls) (hX : X ≠ .other) (t : RTree) (lb : Nat) (ub : Option Nat)
    (h : t.ok lb ub = true) (x : Nat) :
    (t.lookup x == X) = inRanges (t.ranges X) x := by
  induction t generalizing lb ub with
  | L =>
    simp only [lookup, ranges, inRanges_nil]
    cases X <;> first | exact absurd rfl hX | rfl
  | N l lo hi c r ihl ihr =>
    simp only [ok, Bool.and_eq_true, decide_eq_true_eq] at h
    obtain ⟨⟨⟨⟨⟨h1, h2⟩, h3⟩, h4⟩, h5⟩, h6⟩ := h
    simp only [lookup, ranges, inRanges_append, inRanges_mid]
    have hl : ∀ y, inRanges (l.ranges X) y = true → y < lo := fun y hy =>
      (ranges_bounds X l lb (some lo) h4 y hy).2
    have hr : ∀ y, inRanges (r.ranges X) y = true → hi + 1 ≤ y := fun y hy =>
      (ranges_bounds X r (hi + 1) ub h5 y hy).1
    have a : ¬ x < lo → inRanges (l.ranges X) x = false := by
      intro hh
      cases h' : inRanges (l.ranges X) x
      · rfl
      · have := hl x h'; omega
    have b : ¬ hi < x → inRanges (r.ranges X) x = false := by
      intro hh
      cases h' : inRanges (r.ranges X) x
      · rfl
      · have := hr x h'; omega
    by_cases c1 : x < lo
    · have c3 : ¬ lo ≤ x := by omega
      have c4 : ¬ hi < x := by omega
      simp only [c1, if_true, c3, decide_false, Bool.false_and, Bool.and_false, Bool.or_false,
        b c4]
      exact ihl lb (some lo) h4
    · by_cases c2 : hi < x
      · have c3 : ¬ x ≤ hi := by omega
        simp only [c1, c2, if_true, if_false, c3, decide_false, Bool.and_false, Bool.or_false,
          a c1, Bool.false_or]
        exact ihr (hi + 1) ub h5
      · have p1 : lo ≤ x := by omega
        have p2 : x ≤ hi := by omega
        simp only [c1, c2, if_false, a c1, b c2, p1, p2, decide_true, Bool.and_true,
          Bool.false_or, Bool.or_false]

end RTree
end RosedVerif
