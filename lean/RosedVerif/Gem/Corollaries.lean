/-
The corollaries the text of C01 names, over class strings of ANY length:
CR LF stays together, controls stand alone, Hangul syllables, extending / spacing / prepended
marks, emoji ZWJ sequences and regional-indicator pairs are each kept whole, nothing else is
joined; including the ill-formed orderings (leading marks, doubled ZWJ, odd runs of flag halves).

Everything is stated about `split` (the transliterated Go rule chain), or about `Spec.Boundary`
(equal by `split_eq_specSplit`); proofs go through the finite-state form (`Gem/Dfa.lean`).
-/
import RosedVerif.Gem.Theory
namespace RosedVerif
open Cls Spec

/-! ### membership in `split` as the boundary predicate -/

theorem mem_split_iff (cs : List Cls) (j : Nat) :
    j ∈ split cs ↔ 1 ≤ j ∧ j ≤ cs.length ∧ IsEnd cs j := by
  rw [split_eq_specSplit]
  unfold specSplit
  simp only [List.mem_filter, List.mem_range'_1, decide_eq_true_eq]
  constructor
  · rintro ⟨⟨a, b⟩, c⟩; exact ⟨a, by omega, c⟩
  · rintro ⟨a, b, c⟩; exact ⟨⟨a, by omega⟩, c⟩

/-- between two elements of the text, `i + 1` is a cluster end iff the boundary predicate holds -/
theorem end_iff_boundary (cs : List Cls) (i : Nat) (r nx : Cls) (h0 : cs[i]? = some r)
    (h1 : cs[i + 1]? = some nx) : i + 1 ∈ split cs ↔ Boundary (cs.take (i + 1)) r nx := by
  have hlt : i + 1 < cs.length := by
    rcases Nat.lt_or_ge (i + 1) cs.length with h | h
    · exact h
    · rw [List.getElem?_eq_none h] at h1; cases h1
  rw [mem_split_iff]
  constructor
  · rintro ⟨_, _, h | ⟨r', nx', e0, e1, hb⟩⟩
    · omega
    · rw [Nat.add_sub_cancel, h0] at e0; rw [h1] at e1
      cases e0; cases e1; exact hb
  · intro hb
    exact ⟨by omega, by omega, Or.inr ⟨r, nx, by rw [Nat.add_sub_cancel]; exact h0, h1, hb⟩⟩

/-- the same in the form `a ++ [r]` · `nx :: b` -/
theorem end_append_iff (a b : List Cls) (r nx : Cls) :
    a.length + 1 ∈ split (a ++ [r] ++ nx :: b) ↔ Boundary (a ++ [r]) r nx := by
  have h0 : (a ++ [r] ++ nx :: b)[a.length]? = some r := by simp
  have h1 : (a ++ [r] ++ nx :: b)[a.length + 1]? = some nx := by
    rw [List.getElem?_append_right (by simp)]; simp
  rw [end_iff_boundary _ a.length r nx h0 h1]
  have : (a ++ [r] ++ nx :: b).take (a.length + 1) = a ++ [r] := by
    rw [List.take_append_of_le_length (by simp)]
    exact List.take_of_length_le (by simp)
  rw [this]

theorem end_of_last (cs : List Cls) (h : cs ≠ []) : cs.length ∈ split cs := by
  rw [mem_split_iff]
  have : 0 < cs.length := List.length_pos_iff.mpr h
  exact ⟨by omega, by omega, Or.inl rfl⟩

theorem take_succ_of_getElem? (cs : List Cls) (i : Nat) (r : Cls) (h : cs[i]? = some r) :
    cs.take (i + 1) = cs.take i ++ [r] := by
  rw [List.take_add_one, h]; rfl

/-- `[a, b)` is a cluster of `cs` -/
def IsCluster (cs : List Cls) (a b : Nat) : Prop :=
  (a = 0 ∨ a ∈ split cs) ∧ b ∈ split cs ∧ ∀ j, a < j → j < b → j ∉ split cs

/-! ### GB3, GB4, GB5: controls stand alone, CR LF stays together -/

theorem end_after_ctl (cs : List Cls) (i : Nat) (c : Cls) (hi : cs[i]? = some c) (hc : isCtl c)
    (h3 : ¬ (c = cr ∧ cs[i + 1]? = some lf)) : i + 1 ∈ split cs := by
  have hlt : i < cs.length := by
    rcases Nat.lt_or_ge i cs.length with h | h
    · exact h
    · rw [List.getElem?_eq_none h] at hi; cases hi
  rcases Nat.lt_or_ge (i + 1) cs.length with h | h
  · have h1 : cs[i + 1]? = some cs[i + 1] := List.getElem?_eq_getElem h
    rw [end_iff_boundary cs i c _ hi h1]
    exact ⟨fun ⟨a, b⟩ => h3 ⟨a, by rw [h1, b]⟩, Or.inl hc⟩
  · have : i + 1 = cs.length := by omega
    rw [this]; apply end_of_last; intro h; rw [h] at hlt; simp at hlt

theorem end_before_ctl (cs : List Cls) (k : Nat) (c : Cls) (hi : cs[k + 1]? = some c) (hc : isCtl c)
    (h3 : ¬ (cs[k]? = some cr ∧ c = lf)) : k + 1 ∈ split cs := by
  have hlt : k + 1 < cs.length := by
    rcases Nat.lt_or_ge (k + 1) cs.length with h | h
    · exact h
    · rw [List.getElem?_eq_none h] at hi; cases hi
  have h0 : cs[k]? = some cs[k] := List.getElem?_eq_getElem (by omega)
  rw [end_iff_boundary cs k _ c h0 hi]
  exact ⟨fun ⟨a, b⟩ => h3 ⟨by rw [h0, a], b⟩, Or.inr (Or.inl hc)⟩

/-- a Control, CR or LF that is not half of a CR LF pair is a cluster by itself -/
theorem controls_alone (cs : List Cls) (i : Nat) (c : Cls) (hi : cs[i]? = some c) (hc : isCtl c)
    (hnext : ¬ (c = cr ∧ cs[i + 1]? = some lf))
    (hprev : ¬ (c = lf ∧ ∃ k, i = k + 1 ∧ cs[k]? = some cr)) : IsCluster cs i (i + 1) := by
  refine ⟨?_, end_after_ctl cs i c hi hc hnext, fun j h1 h2 => by omega⟩
  cases i with
  | zero => exact Or.inl rfl
  | succ k =>
    right
    exact end_before_ctl cs k c hi hc fun ⟨a, b⟩ => hprev ⟨b, k, rfl, a⟩

/-- CR LF is a cluster: never split, and separated from both sides -/
theorem crlf_cluster (cs : List Cls) (i : Nat) (h0 : cs[i]? = some cr) (h1 : cs[i + 1]? = some lf) :
    IsCluster cs i (i + 2) := by
  refine ⟨?_, ?_, ?_⟩
  · cases i with
    | zero => exact Or.inl rfl
    | succ k =>
      right
      exact end_before_ctl cs k cr h0 (Or.inr (Or.inl rfl)) fun ⟨_, b⟩ => by cases b
  · exact end_after_ctl cs (i + 1) lf h1 (Or.inr (Or.inr rfl)) fun ⟨a, _⟩ => by cases a
  · intro j h2 h3
    have : j = i + 1 := by omega
    subst this
    rw [end_iff_boundary cs i cr lf h0 h1]
    exact fun h => h.1 ⟨rfl, rfl⟩

/-! ### one-cluster criterion in the finite-state form -/

/-- no break between the prefix summarised by `q` and `l`, nor inside `l` -/
def noBrk (q : St) : List Cls → Bool
  | [] => true
  | c :: rest => !brkDfa q c && noBrk (δ q c) rest

theorem noBrk_cons (q : St) (c : Cls) (rest : List Cls) :
    noBrk q (c :: rest) = (!brkDfa q c && noBrk (δ q c) rest) := rfl

theorem splitQ_one (q : St) (i : Nat) (r : Cls) (rest : List Cls)
    (h : noBrk (δ q r) rest = true) : splitQ q i none (r :: rest) = [i + 1 + rest.length] := by
  induction rest generalizing q i r with
  | nil => simp [splitQ, brkD]
  | cons x xs ih =>
    simp only [noBrk_cons, Bool.and_eq_true, Bool.not_eq_true'] at h
    rw [splitQ_cons, look_cons, ih (δ q r) (i + 1) x h.2]
    simp only [brkD, h.1, Bool.false_eq_true, if_false, List.nil_append, List.length_cons]
    congr 1; omega

/-- a non-empty string with no inner break is ONE cluster -/
theorem one_cluster (r : Cls) (rest : List Cls) (h : noBrk (δ St.init r) rest = true) :
    split (r :: rest) = [(r :: rest).length] := by
  rw [split_eq_splitQ, splitQ_one _ _ _ _ h]
  simp only [List.length_cons]; congr 1; omega

/-- the state after a class that carries no GB11 / GB12 context -/
def st (c : Cls) : St := ⟨some c, false, false, false⟩

theorem noBrk_rep (q : St) (x : Cls) (h1 : brkDfa q x = false) (h2 : δ q x = q) (n : Nat)
    (rest : List Cls) : noBrk q (List.replicate n x ++ rest) = noBrk q rest := by
  induction n with
  | zero => rfl
  | succ n ih => rw [List.replicate_succ, List.cons_append, noBrk_cons, h1, h2, ih]; rfl

/-! ### the context-free joins (GB3, GB6 – GB9b) as a table -/

def notCtl (c : Cls) : Bool := !(c == control || c == cr || c == lf)

def isMark (c : Cls) : Bool := c == extend || c == zwj || c == spacing

/-- the rules that need only the two neighbours: GB3, and (no control on either side) GB6, GB7,
GB8, GB9, GB9a, GB9b -/
def joins (r nx : Cls) : Bool :=
  (r == cr && nx == lf) ||
  (notCtl r && notCtl nx &&
    ((r == l && (nx == l || nx == v || nx == lv || nx == lvt)) ||
     ((r == lv || r == v) && (nx == v || nx == t)) ||
     ((r == lvt || r == t) && nx == t) ||
     isMark nx || r == prepend))

theorem notCtl_iff (c : Cls) : notCtl c = true ↔ ¬ isCtl c := by
  cases c <;> simp [notCtl, isCtl]

theorem isMark_iff (c : Cls) : isMark c = true ↔ (c = extend ∨ c = zwj ∨ c = spacing) := by
  cases c <;> simp [isMark]

theorem notCtl_of_isMark (c : Cls) (h : isMark c = true) : notCtl c = true := by
  cases c <;> first | rfl | cases h

theorem brkDfa_of_joins_all :
    (allSt.all fun q => Cls.all.all fun nx =>
      match q.last with
      | none => true
      | some r => !joins r nx || !brkDfa q nx) = true := by
  decide +kernel

theorem brkDfa_of_joins (q : St) (r nx : Cls) (hq : q.last = some r) (h : joins r nx = true) :
    brkDfa q nx = false := by
  have := brkDfa_of_joins_all
  rw [List.all_eq_true] at this
  have := this q (mem_allSt q)
  rw [List.all_eq_true] at this
  have := this nx (Cls.mem_all nx)
  rw [hq] at this
  simpa [h] using this

theorem joins_mark (r m : Cls) (hr : notCtl r = true) (hm : isMark m = true) : joins r m = true := by
  simp [joins, hr, hm, notCtl_of_isMark m hm]

theorem joins_prepend (x : Cls) (hx : notCtl x = true) : joins prepend x = true := by
  have h : notCtl prepend = true := rfl
  simp [joins, hx, h]

/-! ### GB9, GB9a, GB9b: marks attach, also ill-formed leading marks -/

theorem noBrk_marks (q : St) (r : Cls) (marks : List Cls) (hq : q.last = some r)
    (hr : notCtl r = true) (hm : ∀ m ∈ marks, isMark m = true) : noBrk q marks = true := by
  induction marks generalizing q r with
  | nil => rfl
  | cons m ms ih =>
    have hm1 : isMark m = true := hm m List.mem_cons_self
    rw [noBrk_cons, brkDfa_of_joins q r m hq (joins_mark r m hr hm1),
      ih (δ q m) m rfl (notCtl_of_isMark m hm1) fun m' h => hm m' (List.mem_cons_of_mem _ h)]
    rfl

/-- any non-control base followed by any number of Extend / ZWJ / SpacingMark, in any order, is one
cluster -/
theorem marks_attach (x : Cls) (marks : List Cls) (hx : ¬ isCtl x)
    (hm : ∀ m ∈ marks, m = extend ∨ m = zwj ∨ m = spacing) :
    split (x :: marks) = [marks.length + 1] :=
  one_cluster x marks
    (noBrk_marks _ x marks rfl ((notCtl_iff x).mpr hx) fun m h => (isMark_iff m).mpr (hm m h))

/-- ill-formed: marks with no base at the very start of the text are one cluster -/
theorem leading_marks (marks : List Cls) (hne : marks ≠ [])
    (hm : ∀ m ∈ marks, m = extend ∨ m = zwj ∨ m = spacing) : split marks = [marks.length] := by
  cases marks with
  | nil => exact absurd rfl hne
  | cons m ms =>
    have h1 : ¬ isCtl m := by
      rcases hm m List.mem_cons_self with h | h | h <;> subst h <;> simp [isCtl]
    exact marks_attach m ms h1 fun m' h => hm m' (List.mem_cons_of_mem _ h)

/-- any number of Prepend, then a non-control base, then any marks: one cluster -/
theorem prepend_attaches_marks (n : Nat) (x : Cls) (marks : List Cls) (hx : ¬ isCtl x)
    (hm : ∀ m ∈ marks, m = extend ∨ m = zwj ∨ m = spacing) :
    split (List.replicate n prepend ++ x :: marks) = [n + 1 + marks.length] := by
  have hx' := (notCtl_iff x).mpr hx
  have hm' : ∀ m ∈ marks, isMark m = true := fun m h => (isMark_iff m).mpr (hm m h)
  cases n with
  | zero =>
    rw [List.replicate_zero, List.nil_append, marks_attach x marks hx hm]
    congr 1; omega
  | succ n =>
    rw [List.replicate_succ, List.cons_append, one_cluster]
    · simp only [List.length_cons, List.length_append, List.length_replicate]; congr 1; omega
    · show noBrk (st prepend) _ = true
      rw [noBrk_rep (st prepend) prepend rfl rfl, noBrk_cons,
        brkDfa_of_joins (st prepend) prepend x rfl (joins_prepend x hx'),
        noBrk_marks _ x marks rfl hx' hm']
      rfl

theorem prepend_attaches (n : Nat) (x : Cls) (hx : ¬ isCtl x) :
    split (List.replicate n prepend ++ [x]) = [n + 1] := by
  have := prepend_attaches_marks n x [] hx (by simp)
  simpa using this

/-! ### GB6, GB7, GB8: Hangul syllables -/

theorem noBrk_ts (y : Cls) (hy : y = v ∨ y = lv ∨ y = lvt ∨ y = t) (c : Nat) :
    noBrk (st y) (List.replicate c t) = true := by
  cases c with
  | zero => rfl
  | succ c =>
    have h : noBrk (st t) (List.replicate c t ++ []) = true := by
      rw [noBrk_rep (st t) t rfl rfl]; rfl
    rw [List.append_nil] at h
    rcases hy with rfl | rfl | rfl | rfl <;> exact h

theorem noBrk_vs_ts (x : Cls) (hx : x = v ∨ x = lv) (b c : Nat) :
    noBrk (st x) (List.replicate b v ++ List.replicate c t) = true := by
  cases b with
  | zero =>
    rw [List.replicate_zero, List.nil_append]
    exact noBrk_ts x (by rcases hx with h | h <;> simp [h]) c
  | succ b =>
    have h : noBrk (st v) (List.replicate b v ++ List.replicate c t) = true := by
      rw [noBrk_rep (st v) v rfl rfl]; exact noBrk_ts v (Or.inl rfl) c
    rcases hx with rfl | rfl <;> exact h

/-- `L* (V | LV) V* T*` is one cluster, for all repetition counts -/
theorem hangul_lv (a b c : Nat) (x : Cls) (hx : x = v ∨ x = lv) :
    split (List.replicate a l ++ x :: (List.replicate b v ++ List.replicate c t)) =
      [a + 1 + b + c] := by
  have key := noBrk_vs_ts x hx b c
  cases a with
  | zero =>
    rw [List.replicate_zero, List.nil_append, one_cluster]
    · simp only [List.length_cons, List.length_append, List.length_replicate]; congr 1; omega
    · rcases hx with rfl | rfl <;> exact key
  | succ a =>
    rw [List.replicate_succ, List.cons_append, one_cluster]
    · simp only [List.length_cons, List.length_append, List.length_replicate]; congr 1; omega
    · show noBrk (st l) _ = true
      rw [noBrk_rep (st l) l rfl rfl]
      rcases hx with rfl | rfl <;> exact key

/-- `L* LVT T*` is one cluster -/
theorem hangul_lvt (a c : Nat) :
    split (List.replicate a l ++ lvt :: List.replicate c t) = [a + 1 + c] := by
  have key := noBrk_ts lvt (by simp) c
  cases a with
  | zero =>
    rw [List.replicate_zero, List.nil_append, one_cluster]
    · simp only [List.length_cons, List.length_replicate]; congr 1; omega
    · exact key
  | succ a =>
    rw [List.replicate_succ, List.cons_append, one_cluster]
    · simp only [List.length_cons, List.length_append, List.length_replicate]; congr 1; omega
    · show noBrk (st l) _ = true
      rw [noBrk_rep (st l) l rfl rfl]; exact key

/-- `L+` is one cluster -/
theorem hangul_l (a : Nat) : split (List.replicate (a + 1) l) = [a + 1] := by
  rw [List.replicate_succ, one_cluster]
  · simp
  · show noBrk (st l) _ = true
    have := noBrk_rep (st l) l rfl rfl a []
    rw [List.append_nil] at this
    rw [this]; rfl

/-- a Hangul syllable sequence in the sense of UAX #29 Table 1b/1c -/
def IsHangulSyllable (s : List Cls) : Prop :=
  (∃ a b c x, (x = v ∨ x = lv) ∧ s = List.replicate a l ++ x :: (List.replicate b v ++ List.replicate c t)) ∨
  (∃ a c, s = List.replicate a l ++ lvt :: List.replicate c t) ∨
  (∃ a, s = List.replicate (a + 1) l)

theorem hangul_syllable (s : List Cls) (h : IsHangulSyllable s) : split s = [s.length] := by
  rcases h with ⟨a, b, c, x, hx, rfl⟩ | ⟨a, c, rfl⟩ | ⟨a, rfl⟩
  · rw [hangul_lv a b c x hx]
    simp only [List.length_cons, List.length_append, List.length_replicate]; congr 1; omega
  · rw [hangul_lvt]
    simp only [List.length_cons, List.length_append, List.length_replicate]; congr 1; omega
  · rw [hangul_l]; simp

/-! ### GB11: emoji ZWJ sequences -/

/-- what follows the first ExtPict in `(ExtPict Extend^k ZWJ)* ExtPict`; `ks` are the numbers of
Extend in each link -/
def emojiTail : List Nat → List Cls
  | [] => []
  | k :: ks => List.replicate k extend ++ zwj :: extpict :: emojiTail ks

/-- `ExtPict (Extend^k₁ ZWJ ExtPict) (Extend^k₂ ZWJ ExtPict) …` -/
def emojiSeq (ks : List Nat) : List Cls := extpict :: emojiTail ks

/-- the state after `… ExtPict` when the ExtPict started a cluster or followed a ZWJ link -/
def stEP : St := ⟨some extpict, true, false, false⟩

theorem noBrk_link (k : Nat) (x : Cls) (hx : x = extpict ∨ x = extend) (b c : Bool) (tl : List Cls) :
    noBrk ⟨some x, true, b, c⟩ (List.replicate k extend ++ zwj :: extpict :: tl) = noBrk stEP tl := by
  induction k generalizing x b c with
  | zero => rcases hx with rfl | rfl <;> cases b <;> cases c <;> rfl
  | succ k ih =>
    rw [List.replicate_succ, List.cons_append, noBrk_cons]
    have h1 : brkDfa ⟨some x, true, b, c⟩ extend = false := by
      rcases hx with rfl | rfl <;> cases b <;> cases c <;> rfl
    have h2 : δ ⟨some x, true, b, c⟩ extend = ⟨some extend, true, false, false⟩ := by
      cases c <;> rfl
    rw [h1, h2, ih extend (Or.inr rfl)]; rfl

theorem noBrk_emojiTail (ks : List Nat) : noBrk stEP (emojiTail ks) = true := by
  induction ks with
  | nil => rfl
  | cons k ks ih => rw [emojiTail, show stEP = ⟨some extpict, true, false, false⟩ from rfl,
      noBrk_link k extpict (Or.inl rfl)]; exact ih

/-- iterated emoji ZWJ sequence `(ExtPict Extend* ZWJ)^m ExtPict` is one cluster, for every number
of links and every number of Extend in each link -/
theorem emoji_zwj_seq (ks : List Nat) : split (emojiSeq ks) = [(emojiSeq ks).length] :=
  one_cluster extpict (emojiTail ks) (noBrk_emojiTail ks)

/-- `ExtPict Extend^k ZWJ ExtPict` is one cluster for every `k` -/
theorem emoji_zwj (k : Nat) :
    split ([extpict] ++ List.replicate k extend ++ [zwj, extpict]) = [k + 3] := by
  have h := emoji_zwj_seq [k]
  have e : (emojiSeq [k]).length = k + 3 := by simp [emojiSeq, emojiTail]
  rw [e] at h; exact h

/-- with TWO ZWJs in a row GB11 does not apply, whatever precedes: there is a boundary before the
ExtPict -/
theorem double_zwj_boundary (pre : List Cls) : Boundary (pre ++ [zwj, zwj]) zwj extpict := by
  have h := brk_iff (zwj :: pre.reverse) zwj extpict
  have e : (zwj :: pre.reverse).reverse ++ [zwj] = pre ++ [zwj, zwj] := by simp
  rw [e] at h
  rw [← h, brk_eq_core]
  have : scanEP clsPreds (zwj :: pre.reverse) = false := by simp [scanEP]
  rw [this]
  cases (countRI clsPreds (zwj :: pre.reverse) % 2 == 0) <;> rfl

/-- … as a cluster end in any text -/
theorem double_zwj_end (cs : List Cls) (i : Nat) (h0 : cs[i]? = some zwj) (h1 : cs[i + 1]? = some zwj)
    (h2 : cs[i + 2]? = some extpict) : i + 2 ∈ split cs := by
  rw [end_iff_boundary cs (i + 1) zwj extpict h1 h2, take_succ_of_getElem? cs (i + 1) zwj h1,
    take_succ_of_getElem? cs i zwj h0, List.append_assoc]
  exact double_zwj_boundary _

theorem double_zwj_breaks : split [extpict, zwj, zwj, extpict] = [3, 4] := by decide

/-! ### GB12, GB13: runs of regional indicators -/

/-- cluster ends inside a run of `n` regional indicators: `2, 4, …` and a final `n` when `n` is odd -/
def riEnds : Nat → List Nat
  | 0 => []
  | 1 => [1]
  | n + 2 => 2 :: (riEnds n).map (· + 2)

theorem riEnds_length : ∀ n, (riEnds n).length = (n + 1) / 2
  | 0 => rfl
  | 1 => rfl
  | n + 2 => by rw [riEnds, List.length_cons, List.length_map, riEnds_length n]; omega

/-- closed form -/
theorem riEnds_eq : ∀ n, riEnds n =
    (List.range (n / 2)).map (fun k => 2 * k + 2) ++ (if n % 2 = 1 then [n] else [])
  | 0 => rfl
  | 1 => rfl
  | n + 2 => by
    have e1 : (n + 2) / 2 = n / 2 + 1 := by omega
    have e2 : (n + 2) % 2 = n % 2 := by omega
    rw [riEnds, riEnds_eq n, e1, e2, List.range_succ_eq_map]
    simp only [List.map_cons, List.map_map, List.map_append, List.cons_append, Nat.mul_zero,
      Nat.zero_add]
    congr 1
    congr 1
    split <;> simp

theorem splitQ_ri_run : ∀ (n : Nat) (q : St) (i : Nat), q.riOdd = false →
    splitQ q i none (List.replicate n ri) = (riEnds n).map (· + i)
  | 0, _, _, _ => rfl
  | 1, q, i, _ => by simp [splitQ, brkD, riEnds]; omega
  | n + 2, q, i, hq => by
    have h1 : δ q ri = ⟨some ri, false, false, true⟩ := by simp [δ, hq]
    have h2 : δ (δ q ri) ri = ⟨some ri, false, false, false⟩ := by rw [h1]; rfl
    have h3 : brkD (δ (δ q ri) ri) (look (List.replicate n ri) none) = true := by
      rw [h2]; cases n <;> rfl
    rw [List.replicate_succ, List.replicate_succ, splitQ_cons, look_cons, splitQ_cons, h3, h1]
    rw [← h1, h2, splitQ_ri_run n _ (i + 1 + 1) rfl, h1]
    have hb : brkD ⟨some ri, false, false, true⟩ (some ri) = false := rfl
    simp only [hb, riEnds, List.map_cons, List.map_map, Bool.false_eq_true, if_false, if_true,
      List.nil_append, List.singleton_append]
    congr 1
    · omega
    · apply List.map_congr_left; intro k _; simp only [Function.comp]; omega

/-- a run of `n` regional indicators at the start of the text: pairs from the start, `⌈n/2⌉` clusters -/
theorem ri_run_start (n : Nat) : split (List.replicate n ri) = riEnds n := by
  rw [split_eq_splitQ, splitQ_ri_run n _ 0 rfl]; simp

theorem run_riOdd_false (p : List Cls) (hp : p = [] ∨ ∃ q x, p = q ++ [x] ∧ x ≠ ri) :
    (run St.init p).riOdd = false := by
  rcases hp with rfl | ⟨q, x, rfl, hx⟩
  · rfl
  · rw [run_append]
    show (δ (run St.init q) x).riOdd = false
    have : (x == ri) = false := by simpa using hx
    simp [δ, this]

/-- a run of `n` regional indicators after any text that does not end in one (or at the start):
the cluster ends inside the run are exactly `|p| + 2, |p| + 4, …`, and `|p| + n` when `n` is odd -/
theorem ri_run_after (p : List Cls) (hp : p = [] ∨ ∃ q x, p = q ++ [x] ∧ x ≠ ri) (n : Nat) :
    (split (p ++ List.replicate n ri)).filter (fun j => decide (p.length < j)) =
      (riEnds n).map (· + p.length) := by
  rw [split_eq_splitQ, splitQ_append, splitQ_ri_run n _ _ (run_riOdd_false p hp), List.filter_append]
  have e1 : (splitQ St.init 0 (look (List.replicate n ri) none) p).filter
      (fun j => decide (p.length < j)) = [] := by
    rw [List.filter_eq_nil_iff]
    intro j hj
    have := splitQ_bounds _ _ _ _ j hj
    simp only [decide_eq_true_eq]; omega
  have e2 : ∀ (L : List Nat), (∀ j ∈ L, 0 < j) →
      (L.map (· + (0 + p.length))).filter (fun j => decide (p.length < j)) = L.map (· + p.length) := by
    intro L hL
    rw [Nat.zero_add, List.filter_eq_self]
    intro j hj
    obtain ⟨k, hk, rfl⟩ := List.mem_map.mp hj
    have := hL k hk
    simp only [decide_eq_true_eq]; omega
  rw [e1, e2, List.nil_append]
  intro j hj
  have h := ri_run_start n
  rw [← h] at hj
  exact (split_bounds _ j hj).1

/-- GB12/13 as a boundary statement (as `C01_ri_pairs`): inside a run of RI that starts the text
or follows a non-RI, no boundary after an odd number of them, a boundary after an even number -/
theorem ri_pairs_boundary (p : List Cls) (hp : p = [] ∨ ∃ q x, p = q ++ [x] ∧ x ≠ ri) (k : Nat) :
    Boundary (p ++ List.replicate (k + 1) ri) ri ri ↔ k % 2 = 1 := by
  have key : GB1213ctx (p ++ List.replicate (k + 1) ri) ↔ k % 2 = 0 := by
    have := gb1213ctx_iff (List.replicate k ri ++ p.reverse) ri
    have e : (List.replicate k ri ++ p.reverse).reverse ++ [ri] = p ++ List.replicate (k + 1) ri := by
      simp [List.replicate_succ']
    rw [e] at this
    rw [this, countRI_replicate_append]
    · simp
    · rcases hp with hp | ⟨q, x, hp, hx⟩
      · left; simp [hp]
      · right; exact ⟨x, q.reverse, by simp [hp], hx⟩
  unfold Boundary NoBreakRule isCtl
  rw [key]
  simp [GB11ctx]

/-- … in ANY continuation `s` of the text: strictly inside the run, `|p| + j` is a cluster end
exactly for even `j` (pairs from the start of the run, whatever follows the run) -/
theorem ri_run_inside (p s : List Cls) (hp : p = [] ∨ ∃ q x, p = q ++ [x] ∧ x ≠ ri) (n k : Nat)
    (hk : k + 1 < n) :
    p.length + (k + 1) ∈ split (p ++ List.replicate n ri ++ s) ↔ (k + 1) % 2 = 0 := by
  have e : p ++ List.replicate n ri ++ s =
      (p ++ List.replicate k ri) ++ [ri] ++ ri :: (List.replicate (n - k - 2) ri ++ s) := by
    have : n = k + (1 + (1 + (n - k - 2))) := by omega
    conv => lhs; rw [this]
    simp only [← List.replicate_append_replicate, List.replicate_one, List.append_assoc,
      List.cons_append, List.nil_append]
  have hl : p.length + (k + 1) = (p ++ List.replicate k ri).length + 1 := by simp; omega
  rw [e, hl, end_append_iff, List.append_assoc, ← List.replicate_succ', ri_pairs_boundary p hp k]
  omega

/-- the run splits into `⌈n/2⌉` clusters -/
theorem ri_run_count (p : List Cls) (hp : p = [] ∨ ∃ q x, p = q ++ [x] ∧ x ≠ ri) (n : Nat) :
    ((split (p ++ List.replicate n ri)).filter (fun j => decide (p.length < j))).length = (n + 1) / 2 := by
  rw [ri_run_after p hp, List.length_map, riEnds_length]

/-! ### GB999: nothing else is joined -/

theorem brkCore_false_all :
    (Cls.all.all fun r => Cls.all.all fun nx => [true, false].all fun ep => [true, false].all fun re =>
      (!brkCore r nx ep re) ==
        (joins r nx || ((r == zwj && ep && nx == extpict) || (r == ri && re && nx == ri)))) = true := by
  decide +kernel

/-- the rule chain says "no break" exactly when a context-free rule, GB11 or GB12/13 applies -/
theorem brkCore_false_eq (r nx : Cls) (ep re : Bool) :
    (!brkCore r nx ep re) =
      (joins r nx || ((r == zwj && ep && nx == extpict) || (r == ri && re && nx == ri))) := by
  have h := brkCore_false_all
  simp only [List.all_eq_true] at h
  have := h r (Cls.mem_all r) nx (Cls.mem_all nx) ep (by cases ep <;> simp) re (by cases re <;> simp)
  simpa using this

/-- no boundary ⇒ one of the context-free rules joins the two neighbours, or the GB11 context, or the
GB12/13 context holds; and conversely -/
theorem no_boundary_iff (p : List Cls) (r nx : Cls) :
    ¬ Boundary (p ++ [r]) r nx ↔
      (joins r nx = true ∨ (GB11ctx (p ++ [r]) ∧ nx = extpict) ∨ (GB1213ctx (p ++ [r]) ∧ nx = ri)) := by
  have e : p.reverse.reverse ++ [r] = p ++ [r] := by simp
  have h11 := gb11ctx_iff p.reverse r
  have h12 : GB1213ctx (p.reverse.reverse ++ [r]) ↔
      (r = ri ∧ (countRI clsPreds p.reverse % 2 == 0) = true) := by rw [gb1213ctx_iff]; simp
  rw [e] at h11 h12
  rw [← core_iff (p ++ [r]) r nx _ _ h11 h12, h11, h12]
  have hn : ∀ b : Bool, ¬ (b = true) ↔ (!b) = true := by intro b; cases b <;> simp
  rw [hn, brkCore_false_eq]
  simp only [Bool.or_eq_true, Bool.and_eq_true, beq_iff_eq]

/-- **nothing else joined**, over `split`: two neighbours inside one cluster are joined by a named rule -/
theorem joined_only_by_rule (cs : List Cls) (i : Nat) (r nx : Cls) (h0 : cs[i]? = some r)
    (h1 : cs[i + 1]? = some nx) (h : i + 1 ∉ split cs) :
    joins r nx = true ∨ (GB11ctx (cs.take (i + 1)) ∧ nx = extpict) ∨
      (GB1213ctx (cs.take (i + 1)) ∧ nx = ri) := by
  rw [end_iff_boundary cs i r nx h0 h1, take_succ_of_getElem? cs i r h0] at h
  rw [take_succ_of_getElem? cs i r h0]
  exact (no_boundary_iff _ r nx).mp h

/-- if no context-free rule joins `r` and `nx`, and the pair is neither ZWJ × ExtPict nor RI × RI,
there IS a boundary, whatever precedes -/
theorem boundary_of_not_joins (p : List Cls) (r nx : Cls) (hj : joins r nx = false)
    (h11 : ¬ (r = zwj ∧ nx = extpict)) (h12 : ¬ (r = ri ∧ nx = ri)) : Boundary (p ++ [r]) r nx := by
  apply Classical.byContradiction
  intro h
  rcases (no_boundary_iff p r nx).mp h with h | ⟨h, hn⟩ | ⟨h, hn⟩
  · rw [hj] at h; cases h
  · have e : p.reverse.reverse ++ [r] = p ++ [r] := by simp
    have := gb11ctx_iff p.reverse r
    rw [e] at this
    exact h11 ⟨(this.mp h).1, hn⟩
  · have e : p.reverse.reverse ++ [r] = p ++ [r] := by simp
    have := gb1213ctx_iff p.reverse r
    rw [e] at this
    exact h12 ⟨(this.mp h).1, hn⟩

/-- the plain pairs: any of Other, ExtPict, L, V, T, LV, LVT, RI, Extend, SpacingMark, ZWJ followed by
Other; Other / ExtPict / Hangul followed by ExtPict (no ZWJ) or by RI; … — the full table -/
def plainBreak (r nx : Cls) : Bool :=
  !joins r nx && !(r == zwj && nx == extpict) && !(r == ri && nx == ri)

theorem boundary_of_plainBreak (p : List Cls) (r nx : Cls) (h : plainBreak r nx = true) :
    Boundary (p ++ [r]) r nx := by
  simp only [plainBreak, Bool.and_eq_true, Bool.not_eq_true', Bool.and_eq_false_iff,
    beq_eq_false_iff_ne] at h
  apply boundary_of_not_joins p r nx h.1.1
  · rintro ⟨a, b⟩; rcases h.1.2 with h | h <;> contradiction
  · rintro ⟨a, b⟩; rcases h.2 with h | h <;> contradiction

/-! ### non-vacuity -/

example : IsCluster [other, control, other] 1 2 :=
  controls_alone _ 1 control rfl (Or.inl rfl) (by simp) (by simp)
example : IsCluster [other, cr, lf, lf] 1 3 := crlf_cluster _ 1 rfl rfl
example : IsHangulSyllable [l, l, lv, v, t, t] := Or.inl ⟨2, 1, 2, lv, Or.inr rfl, rfl⟩
example : split [l, l, lv, v, t, t] = [6] := hangul_syllable _ (Or.inl ⟨2, 1, 2, lv, Or.inr rfl, rfl⟩)
example : split [extpict, zwj, extend, spacing, zwj] = [5] :=
  marks_attach extpict [zwj, extend, spacing, zwj] (by simp [isCtl]) (by simp)
example : split [zwj, extend, spacing] = [3] := leading_marks _ (by simp) (by simp)
example : split [prepend, prepend, other] = [3] := prepend_attaches 2 other (by simp [isCtl])
example : emojiSeq [2, 0, 1] =
    [extpict, extend, extend, zwj, extpict, zwj, extpict, extend, zwj, extpict] := rfl
example : split (emojiSeq [2, 0, 1]) = [10] := emoji_zwj_seq _
example : riEnds 5 = [2, 4, 5] ∧ riEnds 4 = [2, 4] := ⟨rfl, rfl⟩
example : split (List.replicate 5 ri) = [2, 4, 5] := ri_run_start 5
example : 2 + (1 + 1) ∈ split ([other, prepend] ++ List.replicate 5 ri ++ [extend, other]) :=
  (ri_run_inside [other, prepend] [extend, other] (Or.inr ⟨[other], prepend, rfl, by decide⟩) 5 1
    (by omega)).mpr rfl
example : (split ([other, prepend] ++ List.replicate 3 ri)).filter (fun j => decide (2 < j)) = [4, 5] :=
  ri_run_after [other, prepend] (Or.inr ⟨[other], prepend, rfl, by decide⟩) 3
example : plainBreak other other = true ∧ plainBreak other extpict = true ∧
    plainBreak extpict extpict = true ∧ plainBreak l other = true ∧ plainBreak v other = true ∧
    plainBreak t other = true ∧ plainBreak lv other = true ∧ plainBreak lvt other = true ∧
    plainBreak extend other = true ∧ plainBreak zwj other = true ∧ plainBreak other ri = true ∧
    plainBreak t v = true ∧ plainBreak lvt v = true ∧ plainBreak v l = true := by decide
example (p : List Cls) : Boundary (p ++ [extpict]) extpict extpict := boundary_of_plainBreak p _ _ rfl

end RosedVerif
