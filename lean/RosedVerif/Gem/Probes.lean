/-
C02, observational form.  The class of a code point is not observable directly from outside the
library; what IS observable is how the code point joins with fixed probe characters.  `probes c`
is the exact list of nine probe strings the differential harness runs on the real code.

Results:
 * `probeSig_eq`      : what is observed on the nine probes around ANY `c : Int` is the class-level
                        signature of its Unicode 13.0.0 class;
 * FINDING            : the nine probes do NOT distinguish all fifteen classes.  They confuse exactly
                        {CR, LF, Control}, {ZWJ, SpacingMark} and {V, LV} (`sigOf_eq_iff`,
                        `sigOf_not_injective`) and nothing else;
 * `probe_determines_class_partial` : the nine probes determine the class up to these three groups;
 * `probes13`         : four more probes (CR·c, c·LF, ExtPict·c·ExtPict, V·c) make the signature
                        injective (`sigOf13_injective`), and the full-strength statement
                        `probe13_determines_class` holds for the thirteen probes.
-/
import RosedVerif.Gem.Rules
import RosedVerif.Gem.TableProofs
namespace RosedVerif
open Cls
set_option maxRecDepth 1000000

/-! ### the probes -/

/-- the nine probe strings around a code point (the harness list, verbatim) -/
def probes (c : Int) : List (List Int) :=
  [[0x61, c], [c, 0x61], [c, 0x308], [0x1F468, 0x200D, c], [0x1F468, c, 0x200D, 0x1F469],
   [0x1F1E9, c], [0x1100, c], [c, 0x1161], [c, 0x11A8]]

/-- what is observed: the cluster ends of every probe string -/
def probeSig (c : Int) : List (List Nat) := (probes c).map splitRunes

/-- the same nine probes at class level, the class of `c` replaced by `X` -/
def clsProbes (X : Cls) : List (List Cls) :=
  [[other, X], [X, other], [X, extend], [extpict, zwj, X], [extpict, X, zwj, extpict],
   [ri, X], [l, X], [X, v], [X, t]]

def sigOf (X : Cls) : List (List Nat) := (clsProbes X).map split

/-- four more probes: CR·c, c·LF, ExtPict·c·ExtPict, V·c -/
def extraProbes (c : Int) : List (List Int) :=
  [[0x0D, c], [c, 0x0A], [0x1F468, c, 0x1F469], [0x1161, c]]

def probes13 (c : Int) : List (List Int) := probes c ++ extraProbes c

def probeSig13 (c : Int) : List (List Nat) := (probes13 c).map splitRunes

def clsExtraProbes (X : Cls) : List (List Cls) :=
  [[cr, X], [X, lf], [extpict, X, extpict], [v, X]]

def sigOf13 (X : Cls) : List (List Nat) := (clsProbes X ++ clsExtraProbes X).map split

/-! ### the classes of the ten fixed probe characters (one kernel evaluation) -/

theorem probe_chars :
    classOf 0x61 = other ∧ classOf 0x308 = extend ∧ classOf 0x1F468 = extpict ∧
    classOf 0x200D = zwj ∧ classOf 0x1F469 = extpict ∧ classOf 0x1F1E9 = ri ∧
    classOf 0x1100 = l ∧ classOf 0x1161 = v ∧ classOf 0x11A8 = t ∧
    classOf 0x0D = cr ∧ classOf 0x0A = lf := by
  decide +kernel

/-! ### `classOf = ref13` (as in `Props/C02.lean`, which imports this file) -/

theorem classOf_eq_ref13 (r : Int) : classOf r = ref13 r := by
  have key : ∀ X, X ≠ other → (classOf r == X) = isCb (refTable X) r := fun X hX => by
    rw [classOf_table X hX]; exact isCb_of_sameRanges (tables_eq_ref X) r
  unfold ref13
  simp only [← key cr (by decide), ← key lf (by decide), ← key control (by decide),
    ← key extend (by decide), ← key zwj (by decide), ← key ri (by decide),
    ← key prepend (by decide), ← key spacing (by decide), ← key l (by decide),
    ← key v (by decide), ← key t (by decide), ← key lv (by decide), ← key lvt (by decide),
    ← key extpict (by decide)]
  cases classOf r <;> rfl

/-! ### what is observed is the signature of the class -/

theorem probeSig_classOf (c : Int) : probeSig c = sigOf (classOf c) := by
  obtain ⟨h1, h2, h3, h4, h5, h6, h7, h8, h9, _, _⟩ := probe_chars
  simp only [probeSig, probes, sigOf, clsProbes, splitRunes, List.map_cons, List.map_nil,
    h1, h2, h3, h4, h5, h6, h7, h8, h9]

/-- **C02 observationally**: for EVERY rune value (negative and > 0x10FFFF included) the cluster
ends observed on the nine probes are those of its Unicode 13.0.0 class -/
theorem probeSig_eq (c : Int) : probeSig c = sigOf (ref13 c) := by
  rw [probeSig_classOf, classOf_eq_ref13]

theorem probeSig13_classOf (c : Int) : probeSig13 c = sigOf13 (classOf c) := by
  obtain ⟨h1, h2, h3, h4, h5, h6, h7, h8, h9, h10, h11⟩ := probe_chars
  simp only [probeSig13, probes13, probes, extraProbes, sigOf13, clsProbes, clsExtraProbes,
    splitRunes, List.map_cons, List.map_nil, List.cons_append, List.nil_append,
    h1, h2, h3, h4, h5, h6, h7, h8, h9, h10, h11]

theorem probeSig13_eq (c : Int) : probeSig13 c = sigOf13 (ref13 c) := by
  rw [probeSig13_classOf, classOf_eq_ref13]

/-! ### which classes the probes distinguish -/

/-- representative of the group of classes the nine probes cannot tell apart -/
def probeRep : Cls → Cls
  | cr => control | lf => control | spacing => zwj | lv => v | X => X

theorem sigOf_eq_iff_all :
    (Cls.all.all fun X => Cls.all.all fun Y =>
      decide (sigOf X = sigOf Y) == decide (probeRep X = probeRep Y)) = true := by
  decide +kernel

/-- the nine probes separate two classes exactly when they are not in the same group among
{CR, LF, Control}, {ZWJ, SpacingMark}, {V, LV} -/
theorem sigOf_eq_iff (X Y : Cls) : sigOf X = sigOf Y ↔ probeRep X = probeRep Y := by
  have := sigOf_eq_iff_all
  rw [List.all_eq_true] at this
  have := this X (Cls.mem_all X)
  rw [List.all_eq_true] at this
  have := this Y (Cls.mem_all Y)
  simpa using this

/-- **the full-strength `sigOf_injective` is FALSE**: concrete counterexamples -/
theorem sigOf_not_injective :
    sigOf cr = sigOf lf ∧ sigOf cr = sigOf control ∧ sigOf zwj = sigOf spacing ∧ sigOf v = sigOf lv := by
  decide

/-- … and these are the only confusions: outside the seven confusable classes the nine probes
identify the class -/
theorem sigOf_injective_partial (X Y : Cls) (hX : probeRep X = X) (hY : probeRep Y = Y)
    (h : sigOf X = sigOf Y) : X = Y := by
  rw [← hX, ← hY]; exact (sigOf_eq_iff X Y).mp h

/-- the eight classes that are alone in their group are identified by the nine probes against ANY
other class -/
theorem sigOf_injective_partial' (X Y : Cls)
    (hX : X ≠ cr ∧ X ≠ lf ∧ X ≠ control ∧ X ≠ zwj ∧ X ≠ spacing ∧ X ≠ v ∧ X ≠ lv)
    (h : sigOf X = sigOf Y) : X = Y := by
  have := (sigOf_eq_iff X Y).mp h
  obtain ⟨h1, h2, h3, h4, h5, h6, h7⟩ := hX
  cases X <;> cases Y <;> first | rfl | (exfalso; revert this; decide) | contradiction

/-- the nine probes determine the class up to the three groups -/
theorem probe_determines_class_partial (c : Int) (X : Cls) :
    probeSig c = sigOf X ↔ probeRep (ref13 c) = probeRep X := by
  rw [probeSig_eq, sigOf_eq_iff]

/-- for the eight classes alone in their group: exactly the statement asked for -/
theorem probe_determines_class_partial' (c : Int) (X : Cls)
    (hX : X ≠ cr ∧ X ≠ lf ∧ X ≠ control ∧ X ≠ zwj ∧ X ≠ spacing ∧ X ≠ v ∧ X ≠ lv) :
    probeSig c = sigOf X ↔ ref13 c = X := by
  rw [probeSig_eq]
  constructor
  · intro h; exact (sigOf_injective_partial' X (ref13 c) hX h.symm).symm
  · intro h; rw [h]

/-! ### thirteen probes: full strength -/

theorem sigOf13_injective_all :
    (Cls.all.all fun X => Cls.all.all fun Y => !decide (sigOf13 X = sigOf13 Y) || decide (X = Y)) = true := by
  decide +kernel

/-- with the four extra probes all fifteen classes (ExtPict included) are told apart -/
theorem sigOf13_injective : ∀ X Y : Cls, sigOf13 X = sigOf13 Y → X = Y := by
  intro X Y h
  have := sigOf13_injective_all
  rw [List.all_eq_true] at this
  have := this X (Cls.mem_all X)
  rw [List.all_eq_true] at this
  have := this Y (Cls.mem_all Y)
  simpa [h] using this

/-- "each code point behaves as exactly one class": the observation on the thirteen probes is the
signature of `X` iff `X` is the Unicode 13.0.0 class -/
theorem probe13_determines_class (c : Int) (X : Cls) :
    probeSig13 c = sigOf13 X ↔ ref13 c = X := by
  rw [probeSig13_eq]
  exact ⟨fun h => sigOf13_injective _ _ h, fun h => by rw [h]⟩

/-- the thirteen-probe observation refines the nine-probe one -/
theorem probeSig13_prefix (c : Int) : (probeSig13 c).take 9 = probeSig c := by
  simp [probeSig13, probes13, probeSig, probes, extraProbes]

/-! ### non-vacuity -/

-- a man emoji, a Hangul LVT syllable, a negative and an out-of-range rune value
example : probeSig 0x1F468 = sigOf extpict ∧ probeSig 0xAC01 = sigOf lvt ∧
    probeSig (-7) = sigOf other ∧ probeSig 0x110000 = sigOf other := by
  simp only [probeSig_classOf]
  have : classOf 0x1F468 = extpict ∧ classOf 0xAC01 = lvt ∧ classOf (-7) = other ∧
      classOf 0x110000 = other := by decide +kernel
  simp only [this]
  trivial

example : sigOf extpict = [[1, 2], [1, 2], [2], [3], [1, 4], [1, 2], [1, 2], [1, 2], [1, 2]] := by decide

-- the hypotheses of the partial forms are satisfiable (ExtPict is alone in its group) …
example : probeSig 0x1F468 = sigOf extpict ↔ ref13 0x1F468 = extpict :=
  probe_determines_class_partial' _ _ (by decide)

-- … and the confusion is real on actual characters: U+000D observes as Control (and as LF) does
example : probeSig 0x0D = sigOf control ∧ probeSig 0x0D = sigOf lf ∧ probeSig 0x0D = sigOf cr := by
  simp only [probeSig_classOf, probe_chars.2.2.2.2.2.2.2.2.2.1]
  decide

-- the extra probes separate them
example : sigOf13 cr ≠ sigOf13 lf ∧ sigOf13 cr ≠ sigOf13 control ∧ sigOf13 lf ≠ sigOf13 control ∧
    sigOf13 zwj ≠ sigOf13 spacing ∧ sigOf13 v ≠ sigOf13 lv := by decide

end RosedVerif
