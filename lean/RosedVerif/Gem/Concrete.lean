/-
Source-faithful predicates over the regenerated tables and the fast classifier.
Executable, core-only.
-/
import RosedVerif.Gem.Cls
import RosedVerif.Gen.Tables
namespace RosedVerif
open Gen

/-- the 14 Go predicates, each over its own regenerated table (source order) -/
structure Preds (ρ : Type) where
  prepend : ρ → Bool
  cr : ρ → Bool
  lf : ρ → Bool
  control : ρ → Bool
  extend : ρ → Bool
  ri : ρ → Bool
  spacing : ρ → Bool
  l : ρ → Bool
  v : ρ → Bool
  t : ρ → Bool
  lv : ρ → Bool
  lvt : ρ → Bool
  zwj : ρ → Bool
  extpict : ρ → Bool

/-- the predicates exactly as the Go source defines them -/
def goPreds : Preds Int where
  prepend := isCb isCbPrependRanges
  cr := isCb isCbCRRanges
  lf := isCb isCbLFRanges
  control := isCb isCbControlRanges
  extend := isCb isCbExtendRanges
  ri := isCb isCbRegionalIndicatorRanges
  spacing := isCb isCbSpacingMarkRanges
  l := isCb isCbLRanges
  v := isCb isCbVRanges
  t := isCb isCbTRanges
  lv := isCb isCbLVRanges
  lvt := isCb isCbLVTRanges
  zwj := isCb isCbZWJRanges
  extpict := isCb isExtPictoRanges

/-- predicates over classes -/
def clsPreds : Preds Cls where
  prepend := (· == .prepend)
  cr := (· == .cr)
  lf := (· == .lf)
  control := (· == .control)
  extend := (· == .extend)
  ri := (· == .ri)
  spacing := (· == .spacing)
  l := (· == .l)
  v := (· == .v)
  t := (· == .t)
  lv := (· == .lv)
  lvt := (· == .lvt)
  zwj := (· == .zwj)
  extpict := (· == .extpict)

@[simp] theorem clsPreds_prepend (c : Cls) : clsPreds.prepend c = (c == .prepend) := rfl
@[simp] theorem clsPreds_cr (c : Cls) : clsPreds.cr c = (c == .cr) := rfl
@[simp] theorem clsPreds_lf (c : Cls) : clsPreds.lf c = (c == .lf) := rfl
@[simp] theorem clsPreds_control (c : Cls) : clsPreds.control c = (c == .control) := rfl
@[simp] theorem clsPreds_extend (c : Cls) : clsPreds.extend c = (c == .extend) := rfl
@[simp] theorem clsPreds_ri (c : Cls) : clsPreds.ri c = (c == .ri) := rfl
@[simp] theorem clsPreds_spacing (c : Cls) : clsPreds.spacing c = (c == .spacing) := rfl
@[simp] theorem clsPreds_l (c : Cls) : clsPreds.l c = (c == .l) := rfl
@[simp] theorem clsPreds_v (c : Cls) : clsPreds.v c = (c == .v) := rfl
@[simp] theorem clsPreds_t (c : Cls) : clsPreds.t c = (c == .t) := rfl
@[simp] theorem clsPreds_lv (c : Cls) : clsPreds.lv c = (c == .lv) := rfl
@[simp] theorem clsPreds_lvt (c : Cls) : clsPreds.lvt c = (c == .lvt) := rfl
@[simp] theorem clsPreds_zwj (c : Cls) : clsPreds.zwj c = (c == .zwj) := rfl
@[simp] theorem clsPreds_extpict (c : Cls) : clsPreds.extpict c = (c == .extpict) := rfl

/-- the table of class `X` as written in the Go source -/
def goTable : Cls → List (Nat × Nat)
  | .other => []
  | .cr => isCbCRRanges | .lf => isCbLFRanges | .control => isCbControlRanges
  | .extend => isCbExtendRanges | .zwj => isCbZWJRanges | .ri => isCbRegionalIndicatorRanges
  | .prepend => isCbPrependRanges | .spacing => isCbSpacingMarkRanges
  | .l => isCbLRanges | .v => isCbVRanges | .t => isCbTRanges
  | .lv => isCbLVRanges | .lvt => isCbLVTRanges | .extpict => isExtPictoRanges

/-- fast classifier used by the executable model -/
def classOf (r : Int) : Cls := if r < 0 then .other else Gen.tree.lookup r.toNat

end RosedVerif
