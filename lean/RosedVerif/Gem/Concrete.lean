/-
Source-faithful predicates over the regenerated tables and the fast classifier.
Executable, core-only.
-/
import RosedVerif.Gem.Cls
import RosedVerif.Gen.Tables
namespace RosedVerif
open Gen

/-- the 14 Go predicates, each over its own regenerated table (source order) -/
structure Preds (ρ : Type) where
  prepend : ρ → Bool
  cr : ρ → Bool
  lf : ρ → Bool
  control : ρ → Bool
  extend : ρ → Bool
  ri : ρ → Bool
  spacing : ρ → Bool
  l : ρ → Bool
  v : ρ → Bool
  t : ρ → Bool
  lv : ρ → Bool
  lvt : ρ → Bool
  zwj : ρ → Bool
  extpict : ρ → Bool

/-- the predicates exactly as the Go source defines them -/
def goPreds : Preds Int where
  prepend := isCb isCbPrependRanges
  cr := isCb isCbCRRanges
  lf := isCb isCbLFRanges
  control := isCb isCbControlRanges
  extend := isCb isCbExtendRanges
  ri := isCb isCbRegionalIndicatorRanges
  spacing := isCb isCbSpacingMarkRanges
  l := isCb isCbLRanges
  v := isCb isCbVRanges
  t := isCb isCbTRanges
  lv := isCb isCbLVRanges
  lvt := isCb isCbLVTRanges
  zwj := isCb isCbZWJRanges
  extpict := isCb isExtPictoRanges

/-- predicates over classes -/
def clsPreds : Preds Cls where
  prepend := (· == .prepend)
  cr := (· == .cr)
  lf := (· == .lf)
  control := (· == .control)
  extend := (· == .extend)
  ri := (· == .ri)
  spacing := (· == .spacing)
  l := (· == .l)
  v := (· == .v)
  t := (· == .t)
  lv := (· == .lv)
  lvt := (· == .lvt)
  zwj := (· == .zwj)
  extpict := (· == .extpict)

/-- the table of class `X` as written in the Go source -/
def goTable : Cls → List (Nat × Nat)
  | .other => []
  | .cr => isCbCRRanges | .lf => isCbLFRanges | .control => isCbControlRanges
  | .extend => isCbExtendRanges | .zwj => isCbZWJRanges | .ri => isCbRegionalIndicatorRanges
  | .prepend => isCbPrependRanges | .spacing => isCbSpacingMarkRanges
  | .l => isCbLRanges | .v => isCbVRanges | .t => isCbTRanges
  | .lv => isCbLVRanges | .lvt => isCbLVTRanges | .extpict => isExtPictoRanges

/-- fast classifier used by the executable model -/
def classOf (r : Int) : Cls := if r < 0 then .other else Gen.tree.lookup r.toNat

end RosedVerif
