/-
UAX #29 (rev. 37, Unicode 13.0.0) extended grapheme cluster boundary rules
GB1–GB999, transcribed declaratively.  Kept short and free of any reference to
the implementation: contexts are existential decompositions of the text before
the candidate boundary, read off the standard's rule table.
-/
import RosedVerif.Gem.Cls
namespace RosedVerif.Spec
open Cls

/-- Control | CR | LF -/
def isCtl (c : Cls) : Prop := c = control ∨ c = cr ∨ c = lf

/-- GB11 left context:  … \p{Extended_Pictographic} Extend* ZWJ  × -/
def GB11ctx (pre : List Cls) : Prop :=
  ∃ p ext, pre = p ++ [extpict] ++ ext ++ [zwj] ∧ ∀ e ∈ ext, e = extend

/-- GB12 / GB13 left context:  (sot | [^RI]) (RI RI)* RI  × -/
def GB1213ctx (pre : List Cls) : Prop :=
  ∃ p k, pre = p ++ List.replicate (2 * k + 1) ri ∧ (p = [] ∨ ∃ q x, p = q ++ [x] ∧ x ≠ ri)

/-- some "do not break" rule among GB6–GB13 applies; `pre` is the whole text before
the candidate boundary, `r` its last element, `nx` the first element after it -/
def NoBreakRule (pre : List Cls) (r nx : Cls) : Prop :=
  (r = l ∧ (nx = l ∨ nx = v ∨ nx = lv ∨ nx = lvt)) ∨        -- GB6
  ((r = lv ∨ r = v) ∧ (nx = v ∨ nx = t)) ∨                  -- GB7
  ((r = lvt ∨ r = t) ∧ nx = t) ∨                            -- GB8
  (nx = extend ∨ nx = zwj) ∨                                -- GB9
  nx = spacing ∨                                            -- GB9a
  r = prepend ∨                                             -- GB9b
  (GB11ctx pre ∧ nx = extpict) ∨                            -- GB11
  (GB1213ctx pre ∧ nx = ri)                                 -- GB12, GB13

/-- There is a boundary between `pre` (ending in `r`) and what follows (starting with `nx`):
GB3 forbids it first; otherwise GB4/GB5 demand it; otherwise it exists unless one of
GB6–GB13 forbids it (GB999). -/
def Boundary (pre : List Cls) (r nx : Cls) : Prop :=
  ¬ (r = cr ∧ nx = lf) ∧ (isCtl r ∨ isCtl nx ∨ ¬ NoBreakRule pre r nx)

/-- `j` (1 ≤ j ≤ length) is the exclusive end of a cluster of `cs`: GB2 at the end of text,
otherwise the boundary predicate between positions `j-1` and `j`. (GB1, the boundary at
0, is the implicit start of the first cluster.) -/
def IsEnd (cs : List Cls) (j : Nat) : Prop :=
  j = cs.length ∨ ∃ r nx, cs[j - 1]? = some r ∧ cs[j]? = some nx ∧ Boundary (cs.take j) r nx

open Classical in
/-- the specified segmentation: all cluster ends in increasing order -/
noncomputable def specSplit (cs : List Cls) : List Nat :=
  (List.range' 1 cs.length).filter fun j => decide (IsEnd cs j)

end RosedVerif.Spec
