/-
Obligations re-checked against the REGENERATED tables on every run:
 * the lookup tree is a valid search tree and carries exactly the source tables
   (so `classOf` agrees with each Go predicate, and the predicates are exclusive);
 * every source table equals the Unicode 13.0.0 reference table.
All by kernel evaluation (`decide +kernel`), no axioms beyond the usual three.
-/
import RosedVerif.Gem.Concrete
import RosedVerif.Gem.Ref13
namespace RosedVerif
open Gen
set_option maxRecDepth 1000000

theorem tree_ok : Gen.tree.ok 0 none = true := by decide +kernel

theorem tree_tables : (Cls.all.all fun X => X == .other || sameRanges (Gen.tree.ranges X) (goTable X)) = true := by
  decide +kernel

theorem classOf_table (X : Cls) (hX : X ≠ .other) (r : Int) :
    (classOf r == X) = isCb (goTable X) r := by
  have h2 : sameRanges (Gen.tree.ranges X) (goTable X) = true := by
    have := tree_tables
    rw [List.all_eq_true] at this
    have := this X (Cls.mem_all X)
    simp only [Bool.or_eq_true, beq_iff_eq] at this
    rcases this with h | h
    · exact absurd h hX
    · exact h
  unfold classOf isCb
  by_cases hr : r < 0
  · have : ¬ (0 ≤ r) := by omega
    simp only [hr, if_true, this, decide_false, Bool.false_and]
    cases X <;> first | exact absurd rfl hX | rfl
  · have : 0 ≤ r := by omega
    simp only [hr, if_false, this, decide_true, Bool.true_and]
    rw [RTree.lookup_eq X hX Gen.tree 0 none tree_ok, inRanges_of_sameRanges h2]

/-- each Go predicate is exactly "the class is X": in particular the 14 predicates are
pairwise exclusive (a code point has one class) -/
theorem goPreds_eq_cls (r : Int) :
    goPreds.prepend r = (classOf r == .prepend) ∧ goPreds.cr r = (classOf r == .cr) ∧
    goPreds.lf r = (classOf r == .lf) ∧ goPreds.control r = (classOf r == .control) ∧
    goPreds.extend r = (classOf r == .extend) ∧ goPreds.ri r = (classOf r == .ri) ∧
    goPreds.spacing r = (classOf r == .spacing) ∧ goPreds.l r = (classOf r == .l) ∧
    goPreds.v r = (classOf r == .v) ∧ goPreds.t r = (classOf r == .t) ∧
    goPreds.lv r = (classOf r == .lv) ∧ goPreds.lvt r = (classOf r == .lvt) ∧
    goPreds.zwj r = (classOf r == .zwj) ∧ goPreds.extpict r = (classOf r == .extpict) := by
  refine ⟨?_, ?_, ?_, ?_, ?_, ?_, ?_, ?_, ?_, ?_, ?_, ?_, ?_, ?_⟩ <;>
    (rw [classOf_table _ (by decide)]; rfl)

theorem tables_eq_ref_prepend : sameRanges (goTable .prepend) (refTable .prepend) = true := by decide +kernel
theorem tables_eq_ref_cr : sameRanges (goTable .cr) (refTable .cr) = true := by decide +kernel
theorem tables_eq_ref_lf : sameRanges (goTable .lf) (refTable .lf) = true := by decide +kernel
theorem tables_eq_ref_control : sameRanges (goTable .control) (refTable .control) = true := by decide +kernel
theorem tables_eq_ref_extend : sameRanges (goTable .extend) (refTable .extend) = true := by decide +kernel
theorem tables_eq_ref_ri : sameRanges (goTable .ri) (refTable .ri) = true := by decide +kernel
theorem tables_eq_ref_spacing : sameRanges (goTable .spacing) (refTable .spacing) = true := by decide +kernel
theorem tables_eq_ref_l : sameRanges (goTable .l) (refTable .l) = true := by decide +kernel
theorem tables_eq_ref_v : sameRanges (goTable .v) (refTable .v) = true := by decide +kernel
theorem tables_eq_ref_t : sameRanges (goTable .t) (refTable .t) = true := by decide +kernel
theorem tables_eq_ref_lv : sameRanges (goTable .lv) (refTable .lv) = true := by decide +kernel
theorem tables_eq_ref_lvt : sameRanges (goTable .lvt) (refTable .lvt) = true := by decide +kernel
theorem tables_eq_ref_zwj : sameRanges (goTable .zwj) (refTable .zwj) = true := by decide +kernel
theorem tables_eq_ref_extpict : sameRanges (goTable .extpict) (refTable .extpict) = true := by decide +kernel

theorem tables_eq_ref (X : Cls) : sameRanges (goTable X) (refTable X) = true := by
  cases X
  · decide
  · exact tables_eq_ref_cr
  · exact tables_eq_ref_lf
  · exact tables_eq_ref_control
  · exact tables_eq_ref_extend
  · exact tables_eq_ref_zwj
  · exact tables_eq_ref_ri
  · exact tables_eq_ref_prepend
  · exact tables_eq_ref_spacing
  · exact tables_eq_ref_l
  · exact tables_eq_ref_v
  · exact tables_eq_ref_t
  · exact tables_eq_ref_lv
  · exact tables_eq_ref_lvt
  · exact tables_eq_ref_extpict

end RosedVerif
