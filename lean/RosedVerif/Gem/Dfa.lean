/-
The break decision is a function of a FINITE state of the prefix.  After every
boundary the automaton is exactly in its fresh state (checked by kernel
evaluation over all states × classes), which gives context-freeness of the
segmentation at boundaries for strings of any length by plain induction.
-/
import RosedVerif.Gem.SpecProof
namespace RosedVerif
open Cls

structure St where
  last : Option Cls
  epx : Bool      -- prefix ends with  ExtPict Extend*
  epz : Bool      -- prefix ends with  ExtPict Extend* ZWJ
  riOdd : Bool    -- odd number of trailing RI
  deriving DecidableEq, Repr

def St.init : St := ⟨none, false, false, false⟩

def δ (q : St) (c : Cls) : St :=
  ⟨some c, c == extpict || (c == extend && q.epx), c == zwj && q.epx, c == ri && !q.riOdd⟩

/-- state after reading a prefix given in REVERSED order (as `shouldBreakAfter` sees it) -/
def stateOf : List Cls → St
  | [] => St.init
  | c :: tl => δ (stateOf tl) c

/-- decision between the prefix summarised by `q` (whose last element is `q.last`) and `nx` -/
def brkDfa (q : St) (nx : Cls) : Bool :=
  match q.last with
  | none => true
  | some r =>
    if r == cr && nx == lf then false
    else if r == control || r == cr || r == lf then true
    else if nx == control || nx == cr || nx == lf then true
    else if r == l && (nx == l || nx == v || nx == lv || nx == lvt) then false
    else if (r == lv || r == v) && (nx == v || nx == t) then false
    else if (r == lvt || r == t) && nx == t then false
    else if nx == extend || nx == zwj then false
    else if nx == spacing then false
    else if r == prepend then false
    else if q.epz && nx == extpict then false
    else if q.riOdd && nx == ri then false
    else true

theorem stateOf_epx (l : List Cls) : (stateOf l).epx = scanEP clsPreds l := by
  induction l with
  | nil => rfl
  | cons c tl ih =>
    simp only [stateOf, δ, scanEP, clsPreds_extend, clsPreds_extpict, ih]
    cases c <;> simp

theorem stateOf_riOdd (l : List Cls) : (stateOf l).riOdd = (countRI clsPreds l % 2 == 1) := by
  induction l with
  | nil => rfl
  | cons c tl ih =>
    simp only [stateOf, δ, countRI, clsPreds_ri, ih]
    by_cases h : c = ri
    · subst h
      have : countRI clsPreds tl % 2 = 0 ∨ countRI clsPreds tl % 2 = 1 := by omega
      rcases this with h | h <;> simp [h] <;> omega
    · have : (c == ri) = false := by simpa using h
      simp [this]

theorem stateOf_last (c : Cls) (tl : List Cls) : (stateOf (c :: tl)).last = some c := rfl

theorem stateOf_epz (c : Cls) (tl : List Cls) :
    (stateOf (c :: tl)).epz = (c == zwj && scanEP clsPreds tl) := by
  simp only [stateOf, δ, stateOf_epx]

theorem brk_eq_dfa (before : List Cls) (r nx : Cls) :
    brk clsPreds before r (some nx) = brkDfa (stateOf (r :: before)) nx := by
  rw [brk_eq_core]
  have h1 : (stateOf (r :: before)).epz = (r == zwj && scanEP clsPreds before) := stateOf_epz r before
  have h2 : (stateOf (r :: before)).riOdd = (r == ri && (countRI clsPreds before % 2 == 0)) := by
    simp only [stateOf, δ, stateOf_riOdd]
    have : countRI clsPreds before % 2 = 0 ∨ countRI clsPreds before % 2 = 1 := by omega
    rcases this with h | h <;> simp [h]
  unfold brkDfa
  rw [stateOf_last, h1, h2]
  simp only [brkCore]
  cases r <;> cases nx <;> cases scanEP clsPreds before <;>
    cases (countRI clsPreds before % 2 == 0) <;> rfl

/-! ### reachable-state invariant and the reset lemma, by kernel evaluation -/

def allSt : List St :=
  (none :: Cls.all.map some).flatMap fun l =>
    [true, false].flatMap fun a => [true, false].flatMap fun b => [true, false].map fun c => ⟨l, a, b, c⟩

theorem mem_allSt (q : St) : q ∈ allSt := by
  obtain ⟨l, a, b, c⟩ := q
  cases l with
  | none => cases a <;> cases b <;> cases c <;> decide
  | some x => cases x <;> cases a <;> cases b <;> cases c <;> decide

/-- invariant of reachable states -/
def good (q : St) : Bool :=
  (!q.epx || q.last == some extpict || q.last == some extend) &&
  (!q.epz || q.last == some zwj) && (!q.riOdd || q.last == some ri)

theorem good_init : good St.init = true := rfl

theorem good_step_all : (allSt.all fun q => Cls.all.all fun c => !good q || good (δ q c)) = true := by
  decide +kernel

theorem good_step (q : St) (c : Cls) (h : good q = true) : good (δ q c) = true := by
  have := good_step_all
  rw [List.all_eq_true] at this
  have := this q (mem_allSt q)
  rw [List.all_eq_true] at this
  have := this c (Cls.mem_all c)
  simpa [h] using this

theorem good_stateOf (l : List Cls) : good (stateOf l) = true := by
  induction l with
  | nil => rfl
  | cons c tl ih => exact good_step _ c ih

/-- after every boundary the automaton is exactly in the state a fresh text would be in -/
theorem reset_all :
    (allSt.all fun q => Cls.all.all fun c => !(good q && brkDfa q c) || (δ q c == δ St.init c)) = true := by
  decide +kernel

theorem reset (q : St) (c : Cls) (hg : good q = true) (hb : brkDfa q c = true) : δ q c = δ St.init c := by
  have := reset_all
  rw [List.all_eq_true] at this
  have := this q (mem_allSt q)
  rw [List.all_eq_true] at this
  have := this c (Cls.mem_all c)
  simpa [hg, hb] using this

end RosedVerif
