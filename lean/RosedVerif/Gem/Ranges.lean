/-
Range tables: membership, a linear canonicaliser, and its soundness.
Core-only (imported by the driver).  Proofs are kept here because they are
short and core-only; property theorems live in `Props/`.
-/
namespace RosedVerif

/-- `r` lies in one of the closed ranges of `l` (source order, as written in Go). -/
def inRanges (l : List (Nat × Nat)) (r : Nat) : Bool :=
  l.any fun p => decide (p.1 ≤ r) && decide (r ≤ p.2)

/-- Go predicate on `rune` (`int32`): negative values fail every `lo <= r`. -/
def isCb (tbl : List (Nat × Nat)) (r : Int) : Bool :=
  decide (0 ≤ r) && inRanges tbl r.toNat

def validRanges (l : List (Nat × Nat)) : Bool := l.all fun p => decide (p.1 ≤ p.2)

/-- insert a range into a sorted, separated list, merging what touches or overlaps -/
def insertMerge (x : Nat × Nat) : List (Nat × Nat) → List (Nat × Nat)
  | [] => [x]
  | y :: t =>
    if x.2 + 1 < y.1 then x :: y :: t
    else if y.2 + 1 < x.1 then y :: insertMerge x t
    else insertMerge (min x.1 y.1, max x.2 y.2) t

def canon (l : List (Nat × Nat)) : List (Nat × Nat) := l.foldr insertMerge []

theorem inRanges_nil (r : Nat) : inRanges [] r = false := rfl

theorem inRanges_cons (p : Nat × Nat) (l : List (Nat × Nat)) (r : Nat) :
    inRanges (p :: l) r = ((decide (p.1 ≤ r) && decide (r ≤ p.2)) || inRanges l r) := by
  simp [inRanges]

theorem validRanges_cons (p : Nat × Nat) (l : List (Nat × Nat)) :
    validRanges (p :: l) = (decide (p.1 ≤ p.2) && validRanges l) := by
  simp [validRanges]

theorem insertMerge_valid (x : Nat × Nat) (l : List (Nat × Nat))
    (hx : x.1 ≤ x.2) (hl : validRanges l = true) : validRanges (insertMerge x l) = true := by
  induction l generalizing x with
  | nil => simp [insertMerge, validRanges, hx]
  | cons y t ih =>
    rw [validRanges_cons] at hl
    simp only [Bool.and_eq_true, decide_eq_true_eq] at hl
    unfold insertMerge
    split
    · simp [validRanges_cons, hx, hl.1, hl.2]
    · split
      · rw [validRanges_cons]; simp [hl.1, ih x hx hl.2]
      · apply ih
        · simp only; omega
        · exact hl.2

theorem inRanges_insertMerge (x : Nat × Nat) (l : List (Nat × Nat)) (r : Nat)
    (hx : x.1 ≤ x.2) (hl : validRanges l = true) :
    inRanges (insertMerge x l) r = ((decide (x.1 ≤ r) && decide (r ≤ x.2)) || inRanges l r) := by
  induction l generalizing x with
  | nil => simp [insertMerge, inRanges]
  | cons y t ih =>
    rw [validRanges_cons] at hl
    simp only [Bool.and_eq_true, decide_eq_true_eq] at hl
    unfold insertMerge
    split
    · simp [inRanges_cons]
    · split
      · rw [inRanges_cons, ih x hx hl.2, inRanges_cons]
        cases (decide (y.1 ≤ r) && decide (r ≤ y.2)) <;>
          cases (decide (x.1 ≤ r) && decide (r ≤ x.2)) <;> simp
      · rename_i h1 h2
        have hm : (min x.1 y.1, max x.2 y.2).1 ≤ (min x.1 y.1, max x.2 y.2).2 := by
          simp only; omega
        rw [ih _ hm hl.2, inRanges_cons]
        have hy := hl.1
        have key : (decide (min x.1 y.1 ≤ r) && decide (r ≤ max x.2 y.2)) =
            ((decide (x.1 ≤ r) && decide (r ≤ x.2)) || (decide (y.1 ≤ r) && decide (r ≤ y.2))) := by
          by_cases a1 : x.1 ≤ r <;> by_cases a2 : r ≤ x.2 <;>
            by_cases a3 : y.1 ≤ r <;> by_cases a4 : r ≤ y.2 <;>
            simp [a1, a2, a3, a4] <;> omega
        simp only [] at key ⊢
        rw [key]
        cases (decide (x.1 ≤ r) && decide (r ≤ x.2)) <;>
          cases (decide (y.1 ≤ r) && decide (r ≤ y.2)) <;> simp

theorem canon_valid (l : List (Nat × Nat)) (hl : validRanges l = true) :
    validRanges (canon l) = true := by
  induction l with
  | nil => rfl
  | cons p t ih =>
    rw [validRanges_cons] at hl
    simp only [Bool.and_eq_true, decide_eq_true_eq] at hl
    exact insertMerge_valid p _ hl.1 (ih hl.2)

theorem inRanges_canon (l : List (Nat × Nat)) (hl : validRanges l = true) (r : Nat) :
    inRanges (canon l) r = inRanges l r := by
  induction l with
  | nil => rfl
  | cons p t ih =>
    rw [validRanges_cons] at hl
    simp only [Bool.and_eq_true, decide_eq_true_eq] at hl
    show inRanges (insertMerge p (canon t)) r = _
    rw [inRanges_insertMerge p _ r hl.1 (canon_valid t hl.2), ih hl.2, inRanges_cons]

/-- the decidable certificate used for every table -/
def sameRanges (a b : List (Nat × Nat)) : Bool :=
  validRanges a && validRanges b && (canon a == canon b)

theorem inRanges_of_sameRanges {a b : List (Nat × Nat)} (h : sameRanges a b = true) (r : Nat) :
    inRanges a r = inRanges b r := by
  simp only [sameRanges, Bool.and_eq_true, beq_iff_eq] at h
  rw [← inRanges_canon a h.1.1, ← inRanges_canon b h.1.2, h.2]

theorem isCb_of_sameRanges {a b : List (Nat × Nat)} (h : sameRanges a b = true) (r : Int) :
    isCb a r = isCb b r := by
  simp only [isCb, inRanges_of_sameRanges h]

end RosedVerif
