/-
Proof that the class-level transliteration of the Go rule chain equals the
UAX #29 specification (`Spec`), for every class string.
-/
import RosedVerif.Gem.Rules
import RosedVerif.Gem.Spec
namespace RosedVerif
open Cls Spec

/-! ### the GB11 backward scan -/

theorem scanEP_iff (before : List Cls) :
    scanEP clsPreds before = true ↔
      ∃ ext p, before = ext ++ extpict :: p ∧ ∀ e ∈ ext, e = extend := by
  induction before with
  | nil =>
    simp only [scanEP, Bool.false_eq_true, false_iff]
    rintro ⟨ext, p, h, _⟩
    cases ext <;> simp at h
  | cons c t ih =>
    by_cases hc : c = extend
    · subst hc
      have : scanEP clsPreds (extend :: t) = scanEP clsPreds t := by simp [scanEP]
      rw [this, ih]
      constructor
      · rintro ⟨ext, p, h, he⟩
        refine ⟨extend :: ext, p, by simp [h], ?_⟩
        intro e hm
        rcases List.mem_cons.mp hm with h1 | h1
        · exact h1
        · exact he e h1
      · rintro ⟨ext, p, h, he⟩
        cases ext with
        | nil => simp at h
        | cons e ext' =>
          simp only [List.cons_append, List.cons.injEq] at h
          exact ⟨ext', p, h.2, fun e' hm => he e' (List.mem_cons_of_mem _ hm)⟩
    · have : scanEP clsPreds (c :: t) = (c == extpict) := by
        have : (c == extend) = false := by simpa using hc
        simp [scanEP, this]
      rw [this]
      constructor
      · intro h
        have : c = extpict := by simpa using h
        exact ⟨[], t, by simp [this], by simp⟩
      · rintro ⟨ext, p, h, he⟩
        cases ext with
        | nil => simp at h; simp [h.1]
        | cons e ext' =>
          simp only [List.cons_append, List.cons.injEq] at h
          exact absurd (h.1 ▸ he e (List.mem_cons_self)) hc

theorem gb11ctx_iff (before : List Cls) (r : Cls) :
    GB11ctx (before.reverse ++ [r]) ↔ (r = zwj ∧ scanEP clsPreds before = true) := by
  rw [scanEP_iff]
  constructor
  · rintro ⟨p, ext, h, he⟩
    have h' : before.reverse ++ [r] = (p ++ [extpict] ++ ext) ++ [zwj] := by simpa using h
    have := List.append_inj' h' rfl
    refine ⟨by simpa using this.2, ext.reverse, p.reverse, ?_, ?_⟩
    · have h1 := congrArg List.reverse this.1
      simpa using h1
    · intro e hm; exact he e (List.mem_reverse.mp hm)
  · rintro ⟨hr, ext, p, h, he⟩
    refine ⟨p.reverse, ext.reverse, ?_, ?_⟩
    · subst hr; subst h; simp
    · intro e hm; exact he e (List.mem_reverse.mp hm)

/-! ### the GB12/13 backward count -/

theorem countRI_replicate_append (n : Nat) (rest : List Cls)
    (h : rest = [] ∨ ∃ x t, rest = x :: t ∧ x ≠ ri) :
    countRI clsPreds (List.replicate n ri ++ rest) = n := by
  induction n with
  | zero =>
    rcases h with h | ⟨x, t, h, hx⟩
    · subst h; rfl
    · subst h
      have : (x == ri) = false := by simpa using hx
      simp [countRI, this]
  | succ n ih =>
    simp only [List.replicate_succ, List.cons_append, countRI, clsPreds_ri]
    simpa using ih

theorem countRI_spec (before : List Cls) :
    ∃ rest, before = List.replicate (countRI clsPreds before) ri ++ rest ∧
      (rest = [] ∨ ∃ x t, rest = x :: t ∧ x ≠ ri) := by
  induction before with
  | nil => exact ⟨[], rfl, Or.inl rfl⟩
  | cons c t ih =>
    by_cases hc : c = ri
    · subst hc
      obtain ⟨rest, h1, h2⟩ := ih
      refine ⟨rest, ?_, h2⟩
      have : countRI clsPreds (ri :: t) = countRI clsPreds t + 1 := by simp [countRI]
      rw [this, List.replicate_succ, List.cons_append, ← h1]
    · have : (c == ri) = false := by simpa using hc
      refine ⟨c :: t, ?_, Or.inr ⟨c, t, rfl, hc⟩⟩
      simp [countRI, this]

theorem gb1213ctx_iff (before : List Cls) (r : Cls) :
    GB1213ctx (before.reverse ++ [r]) ↔ (r = ri ∧ countRI clsPreds before % 2 = 0) := by
  constructor
  · rintro ⟨p, k, h, hp⟩
    have h' : before.reverse ++ [r] = (p ++ List.replicate (2 * k) ri) ++ [ri] := by
      rw [h, List.replicate_succ', List.append_assoc]
    have := List.append_inj' h' rfl
    have hr : r = ri := by simpa using this.2
    refine ⟨hr, ?_⟩
    have hb : before = List.replicate (2 * k) ri ++ p.reverse := by
      have h1 := congrArg List.reverse this.1
      simpa using h1
    rw [hb, countRI_replicate_append]
    · omega
    · rcases hp with hp | ⟨q, x, hp, hx⟩
      · left; simp [hp]
      · right; exact ⟨x, q.reverse, by simp [hp], hx⟩
  · rintro ⟨hr, hk⟩
    obtain ⟨rest, h1, h2⟩ := countRI_spec before
    obtain ⟨k, hk'⟩ : ∃ k, countRI clsPreds before = 2 * k := ⟨countRI clsPreds before / 2, by omega⟩
    refine ⟨rest.reverse, k, ?_, ?_⟩
    · subst hr
      rw [List.replicate_succ', ← List.append_assoc]
      congr 1
      conv => lhs; rw [h1]
      simp [hk']
    · rcases h2 with h2 | ⟨x, t, h2, hx⟩
      · left; simp [h2]
      · right; exact ⟨t.reverse, x, by simp [h2], hx⟩

/-! ### the rule chain -/

/-- the chain with the two context scans abstracted to Booleans -/
def brkCore (r nx : Cls) (ep re : Bool) : Bool :=
  if r == cr && nx == lf then false
  else if r == control || r == cr || r == lf then true
  else if nx == control || nx == cr || nx == lf then true
  else if r == l && (nx == l || nx == v || nx == lv || nx == lvt) then false
  else if (r == lv || r == v) && (nx == v || nx == t) then false
  else if (r == lvt || r == t) && nx == t then false
  else if nx == extend || nx == zwj then false
  else if nx == spacing then false
  else if r == prepend then false
  else if r == zwj && nx == extpict && ep then false
  else if r == ri && nx == ri && re then false
  else true

theorem brk_eq_core (before : List Cls) (r nx : Cls) :
    brk clsPreds before r (some nx) =
      brkCore r nx (scanEP clsPreds before) (countRI clsPreds before % 2 == 0) := by
  have : (!before.isEmpty && scanEP clsPreds before) = scanEP clsPreds before := by
    cases before <;> simp [scanEP]
  simp only [brk, brkCore, clsPreds_prepend, clsPreds_cr, clsPreds_lf, clsPreds_control,
    clsPreds_extend, clsPreds_ri, clsPreds_spacing, clsPreds_l, clsPreds_v, clsPreds_t,
    clsPreds_lv, clsPreds_lvt, clsPreds_zwj, clsPreds_extpict, Bool.and_assoc, this]

theorem core_iff (pre : List Cls) (r nx : Cls) (ep re : Bool)
    (hep : GB11ctx pre ↔ (r = zwj ∧ ep = true)) (hre : GB1213ctx pre ↔ (r = ri ∧ re = true)) :
    brkCore r nx ep re = true ↔ Boundary pre r nx := by
  unfold Boundary NoBreakRule isCtl
  rw [hep, hre]
  cases r <;> cases nx <;> cases ep <;> cases re <;> simp [brkCore]

theorem brk_iff (before : List Cls) (r nx : Cls) :
    brk clsPreds before r (some nx) = true ↔ Boundary (before.reverse ++ [r]) r nx := by
  rw [brk_eq_core]
  apply core_iff
  · exact gb11ctx_iff before r
  · rw [gb1213ctx_iff]; simp

end RosedVerif

namespace RosedVerif
open Cls Spec

theorem brk_isEnd (before : List Cls) (r : Cls) (rest : List Cls) :
    brk clsPreds before r rest.head? = true ↔
      IsEnd (before.reverse ++ r :: rest) (before.length + 1) := by
  cases rest with
  | nil =>
    simp only [List.head?_nil, brk, true_iff]
    left; simp
  | cons nx rest' =>
    simp only [List.head?_cons, brk_iff]
    have hlen : before.reverse.length = before.length := List.length_reverse
    have h0 : (before.reverse ++ r :: nx :: rest')[before.length + 1 - 1]? = some r := by
      rw [Nat.add_sub_cancel, List.getElem?_append_right (by omega)]
      simp [hlen]
    have h1 : (before.reverse ++ r :: nx :: rest')[before.length + 1]? = some nx := by
      rw [List.getElem?_append_right (by omega)]
      simp [hlen]
    have h2 : (before.reverse ++ r :: nx :: rest').take (before.length + 1) = before.reverse ++ [r] := by
      rw [List.take_append]
      simp [hlen, List.take_of_length_le]
    constructor
    · intro h
      right
      exact ⟨r, nx, h0, h1, h2 ▸ h⟩
    · rintro (h | ⟨r', nx', e0, e1, hb⟩)
      · simp at h
      · rw [h0] at e0; rw [h1] at e1
        cases e0; cases e1
        rw [h2] at hb; exact hb

open Classical in
theorem splitAux_spec (before : List Cls) (rs : List Cls) :
    splitAux clsPreds before before.length rs =
      (List.range' (before.length + 1) rs.length).filter
        fun j => decide (IsEnd (before.reverse ++ rs) j) := by
  induction rs generalizing before with
  | nil => simp [splitAux]
  | cons r rest ih =>
    have ih' := ih (r :: before)
    simp only [List.length_cons, List.reverse_cons, List.append_assoc, List.singleton_append] at ih'
    simp only [splitAux, List.length_cons, List.range'_succ, List.filter_cons]
    by_cases hb : brk clsPreds before r rest.head? = true
    · have := (brk_isEnd before r rest).mp hb
      simp only [hb, if_true, this, decide_true, ih']
    · have : ¬ IsEnd (before.reverse ++ r :: rest) (before.length + 1) :=
        fun h => hb ((brk_isEnd before r rest).mpr h)
      simp only [hb, this, decide_false, ih']

/-- **C01, class level**: the Go rule chain yields exactly the UAX #29 cluster ends. -/
theorem split_eq_specSplit (cs : List Cls) : split cs = specSplit cs := by
  exact splitAux_spec [] cs

end RosedVerif
