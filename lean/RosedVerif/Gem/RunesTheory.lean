/-
The segmentation facts at code-point level (`splitRunes`), in the form the
model layers use them.
-/
import RosedVerif.Gem.Theory
import RosedVerif.Model.Basic
namespace RosedVerif

theorem splitRunes_sorted (s : List Int) : (splitRunes s).Pairwise (· < ·) := split_sorted _

theorem splitRunes_bounds (s : List Int) : ∀ j ∈ splitRunes s, 0 < j ∧ j ≤ s.length := by
  intro j hj
  have := split_bounds (s.map classOf) j hj
  simpa using this

theorem splitRunes_last (s : List Int) (h : s ≠ []) : (splitRunes s).getLast? = some s.length := by
  obtain ⟨ini, hi⟩ := split_last (s.map classOf) (by simpa using h)
  unfold splitRunes
  rw [hi]; simp

theorem splitRunes_nil : splitRunes [] = [] := rfl

/-- a slice between two cluster boundaries segments exactly as inside the whole string -/
theorem splitRunes_slice (s : List Int) (st en : Int) (h0 : 0 ≤ st) (h1 : st < en)
    (h2 : en ≤ (splitRunes s).length) :
    splitRunes (sliceRunes s (if st > 0 then (splitRunes s).getD (st.toNat - 1) 0 else 0)
        ((splitRunes s).getD (en.toNat - 1) 0)) =
      (((splitRunes s).drop st.toNat).take (en - st).toNat).map
        (· - (if st > 0 then (splitRunes s).getD (st.toNat - 1) 0 else 0)) := by
  have key := split_slice (s.map classOf) st.toNat en.toNat (by omega) (by
    have : (en.toNat : Int) = en := Int.toNat_of_nonneg (by omega)
    unfold splitRunes at h2; omega)
  unfold splitRunes sliceRunes
  rw [List.map_take, List.map_drop]
  have c1 : (st > 0) = (st.toNat > 0) := by
    apply propext; constructor <;> intro h <;> omega
  have c2 : (en - st).toNat = en.toNat - st.toNat := by omega
  simp only [c1, c2]
  exact key

end RosedVerif
