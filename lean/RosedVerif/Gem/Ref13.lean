/-
Unicode 13.0.0 as a function from rune values to classes, over the committed
reference tables (core-only, executable; used by C02's statement and by the oracles).
-/
import RosedVerif.Gem.Cls
import RosedVerif.Ref.Tables
namespace RosedVerif
open Cls

/-- reference table of class `X` (Unicode 13.0.0) -/
def refTable : Cls → List (Nat × Nat)
  | .other => []
  | .cr => Ref.crRanges | .lf => Ref.lfRanges | .control => Ref.controlRanges
  | .extend => Ref.extendRanges | .zwj => Ref.zwjRanges | .ri => Ref.riRanges
  | .prepend => Ref.prependRanges | .spacing => Ref.spacingRanges
  | .l => Ref.lRanges | .v => Ref.vRanges | .t => Ref.tRanges
  | .lv => Ref.lvRanges | .lvt => Ref.lvtRanges | .extpict => Ref.extpictRanges

/-- Unicode 13.0.0 as a FUNCTION from rune values to classes (first match in a fixed order over
the reference tables; Extended_Pictographic folded in last; everything else is Other). -/
def ref13 (r : Int) : Cls :=
  if isCb (refTable cr) r then cr else if isCb (refTable lf) r then lf
  else if isCb (refTable control) r then control else if isCb (refTable extend) r then extend
  else if isCb (refTable zwj) r then zwj else if isCb (refTable ri) r then ri
  else if isCb (refTable prepend) r then prepend else if isCb (refTable spacing) r then spacing
  else if isCb (refTable l) r then l else if isCb (refTable v) r then v
  else if isCb (refTable t) r then t else if isCb (refTable lv) r then lv
  else if isCb (refTable lvt) r then lvt else if isCb (refTable extpict) r then extpict
  else other

end RosedVerif
