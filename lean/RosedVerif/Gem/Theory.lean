/-
Consequences of the finite-state form used everywhere else: boundaries
partition the string; segmentation is context-free at boundaries (a slice
between two boundaries segments exactly as it does inside the whole string).
-/
import RosedVerif.Gem.Dfa
namespace RosedVerif
open Cls

def brkD (q : St) : Option Cls → Bool
  | none => true
  | some nx => brkDfa q nx

def run (q : St) (l : List Cls) : St := l.foldl δ q

/-- the element that follows: head of `rest`, or `after` when `rest` is exhausted -/
def look (rest : List Cls) (after : Option Cls) : Option Cls :=
  match rest with
  | [] => after
  | x :: _ => some x

@[simp] theorem look_nil (a : Option Cls) : look [] a = a := rfl
@[simp] theorem look_cons (x : Cls) (xs : List Cls) (a : Option Cls) : look (x :: xs) a = some x := rfl
theorem look_append (l1 l2 : List Cls) (a : Option Cls) : look (l1 ++ l2) a = look l1 (look l2 a) := by
  cases l1 <;> rfl
theorem look_none (rest : List Cls) : look rest none = rest.head? := by cases rest <;> rfl

/-- state-based splitter with an explicit look-ahead `after` for the last element -/
def splitQ (q : St) (i : Nat) (after : Option Cls) : List Cls → List Nat
  | [] => []
  | r :: rest =>
    if brkD (δ q r) (look rest after) then (i + 1) :: splitQ (δ q r) (i + 1) after rest
    else splitQ (δ q r) (i + 1) after rest

theorem splitAux_eq_splitQ (before : List Cls) (i : Nat) (rs : List Cls) :
    splitAux clsPreds before i rs = splitQ (stateOf before) i none rs := by
  induction rs generalizing before i with
  | nil => rfl
  | cons r rest ih =>
    have hb : brk clsPreds before r rest.head? = brkD (δ (stateOf before) r) (look rest none) := by
      cases rest with
      | nil => rfl
      | cons x xs => exact brk_eq_dfa before r x
    simp only [splitAux, splitQ, hb]
    rw [ih (r :: before) (i + 1)]
    rfl

theorem split_eq_splitQ (cs : List Cls) : split cs = splitQ St.init 0 none cs :=
  splitAux_eq_splitQ [] 0 cs

theorem run_append (q : St) (a b : List Cls) : run q (a ++ b) = run (run q a) b := by
  simp [run, List.foldl_append]

theorem run_cons (q : St) (r : Cls) (rest : List Cls) : run q (r :: rest) = run (δ q r) rest := rfl

theorem good_run (q : St) (l : List Cls) (h : good q = true) : good (run q l) = true := by
  induction l generalizing q with
  | nil => exact h
  | cons c tl ih => exact ih (δ q c) (good_step q c h)

theorem splitQ_shift (q : St) (i k : Nat) (after : Option Cls) (l : List Cls) :
    splitQ q (i + k) after l = (splitQ q i after l).map (· + k) := by
  induction l generalizing q i with
  | nil => rfl
  | cons r rest ih =>
    have e : i + k + 1 = (i + 1) + k := by omega
    simp only [splitQ, e, ih]
    split <;> simp

theorem splitQ_append (q : St) (i : Nat) (after : Option Cls) (l1 l2 : List Cls) :
    splitQ q i after (l1 ++ l2) =
      splitQ q i (look l2 after) l1 ++ splitQ (run q l1) (i + l1.length) after l2 := by
  induction l1 generalizing q i with
  | nil => simp [splitQ, run]
  | cons r rest ih =>
    have e2 : i + 1 + rest.length = i + (rest.length + 1) := by omega
    simp only [List.cons_append, splitQ, look_append, ih (δ q r) (i + 1), List.length_cons,
      run_cons, e2]
    split <;> simp

theorem splitQ_cons (q : St) (i : Nat) (after : Option Cls) (r : Cls) (rest : List Cls) :
    splitQ q i after (r :: rest) =
      (if brkD (δ q r) (look rest after) then [i + 1] else []) ++ splitQ (δ q r) (i + 1) after rest := by
  simp only [splitQ]; split <;> simp

/-- only the last decision depends on the look-ahead -/
theorem splitQ_after (q : St) (i : Nat) (a1 a2 : Option Cls) (l : List Cls)
    (h : brkD (run q l) a1 = brkD (run q l) a2) (hl : l ≠ []) :
    splitQ q i a1 l = splitQ q i a2 l := by
  induction l generalizing q i with
  | nil => exact absurd rfl hl
  | cons r rest ih =>
    cases rest with
    | nil =>
      have : run q [r] = δ q r := rfl
      rw [this] at h
      rw [splitQ_cons, splitQ_cons, look_nil, look_nil, h]
      rfl
    | cons x xs =>
      rw [splitQ_cons q i a1, splitQ_cons q i a2, look_cons, look_cons, ih (δ q r) (i + 1) h (by simp)]

/-- restart: at a boundary the suffix segments as a fresh text -/
theorem splitQ_restart (q : St) (i : Nat) (after : Option Cls) (l : List Cls)
    (hg : good q = true) (hb : brkD q l.head? = true) :
    splitQ q i after l = splitQ St.init i after l := by
  cases l with
  | nil => rfl
  | cons r rest =>
    have hr : brkDfa q r = true := hb
    simp only [splitQ, reset q r hg hr]

/-- every end lies in (i, i + |l|] -/
theorem splitQ_bounds (q : St) (i : Nat) (after : Option Cls) (l : List Cls) :
    ∀ j ∈ splitQ q i after l, i < j ∧ j ≤ i + l.length := by
  induction l generalizing q i with
  | nil => simp [splitQ]
  | cons r rest ih =>
    intro j hj
    simp only [splitQ] at hj
    have key : ∀ j ∈ splitQ (δ q r) (i + 1) after rest, i < j ∧ j ≤ i + (r :: rest).length := by
      intro j hj
      have := ih (δ q r) (i + 1) j hj
      simp only [List.length_cons]; omega
    split at hj
    · rcases List.mem_cons.mp hj with h | h
      · subst h; simp only [List.length_cons]; omega
      · exact key j h
    · exact key j hj

/-- strictly increasing -/
theorem splitQ_sorted (q : St) (i : Nat) (after : Option Cls) (l : List Cls) :
    (splitQ q i after l).Pairwise (· < ·) := by
  induction l generalizing q i with
  | nil => simp [splitQ]
  | cons r rest ih =>
    simp only [splitQ]
    split
    · refine List.pairwise_cons.mpr ⟨?_, ih _ _⟩
      intro j hj
      have := splitQ_bounds (δ q r) (i + 1) after rest j hj
      omega
    · exact ih _ _

/-- with no look-ahead the text end is a cluster end: the list ends with `i + |l|` -/
theorem splitQ_last (q : St) (i : Nat) (l : List Cls) (hl : l ≠ []) :
    ∃ ini, splitQ q i none l = ini ++ [i + l.length] := by
  induction l generalizing q i with
  | nil => exact absurd rfl hl
  | cons r rest ih =>
    cases rest with
    | nil => exact ⟨[], by simp [splitQ, brkD]⟩
    | cons x xs =>
      obtain ⟨ini, h⟩ := ih (δ q r) (i + 1) (by simp)
      have e : i + 1 + (x :: xs).length = i + (r :: x :: xs).length := by simp only [List.length_cons]; omega
      rw [e] at h
      rw [splitQ_cons, h]
      exact ⟨(if brkD (δ q r) (look (x :: xs) none) then [i + 1] else []) ++ ini, by simp⟩

end RosedVerif
