/-
Consequences of the finite-state form used everywhere else: boundaries
partition the string; segmentation is context-free at boundaries (a slice
between two boundaries segments exactly as it does inside the whole string).
-/
import RosedVerif.Gem.Dfa
namespace RosedVerif
open Cls

def brkD (q : St) : Option Cls → Bool
  | none => true
  | some nx => brkDfa q nx

def run (q : St) (l : List Cls) : St := l.foldl δ q

/-- the element that follows: head of `rest`, or `after` when `rest` is exhausted -/
def look (rest : List Cls) (after : Option Cls) : Option Cls :=
  match rest with
  | [] => after
  | x :: _ => some x

@[simp] theorem look_nil (a : Option Cls) : look [] a = a := rfl
@[simp] theorem look_cons (x : Cls) (xs : List Cls) (a : Option Cls) : look (x :: xs) a = some x := rfl
theorem look_append (l1 l2 : List Cls) (a : Option Cls) : look (l1 ++ l2) a = look l1 (look l2 a) := by
  cases l1 <;> rfl
theorem look_none (rest : List Cls) : look rest none = rest.head? := by cases rest <;> rfl

/-- state-based splitter with an explicit look-ahead `after` for the last element -/
def splitQ (q : St) (i : Nat) (after : Option Cls) : List Cls → List Nat
  | [] => []
  | r :: rest =>
    if brkD (δ q r) (look rest after) then (i + 1) :: splitQ (δ q r) (i + 1) after rest
    else splitQ (δ q r) (i + 1) after rest

theorem splitAux_eq_splitQ (before : List Cls) (i : Nat) (rs : List Cls) :
    splitAux clsPreds before i rs = splitQ (stateOf before) i none rs := by
  induction rs generalizing before i with
  | nil => rfl
  | cons r rest ih =>
    have hb : brk clsPreds before r rest.head? = brkD (δ (stateOf before) r) (look rest none) := by
      cases rest with
      | nil => rfl
      | cons x xs => exact brk_eq_dfa before r x
    simp only [splitAux, splitQ, hb]
    rw [ih (r :: before) (i + 1)]
    rfl

theorem split_eq_splitQ (cs : List Cls) : split cs = splitQ St.init 0 none cs :=
  splitAux_eq_splitQ [] 0 cs

theorem run_append (q : St) (a b : List Cls) : run q (a ++ b) = run (run q a) b := by
  simp [run, List.foldl_append]

theorem run_cons (q : St) (r : Cls) (rest : List Cls) : run q (r :: rest) = run (δ q r) rest := rfl

theorem good_run (q : St) (l : List Cls) (h : good q = true) : good (run q l) = true := by
  induction l generalizing q with
  | nil => exact h
  | cons c tl ih => exact ih (δ q c) (good_step q c h)

theorem splitQ_shift (q : St) (i k : Nat) (after : Option Cls) (l : List Cls) :
    splitQ q (i + k) after l = (splitQ q i after l).map (· + k) := by
  induction l generalizing q i with
  | nil => rfl
  | cons r rest ih =>
    have e : i + k + 1 = (i + 1) + k := by omega
    simp only [splitQ, e, ih]
    split <;> simp

theorem splitQ_append (q : St) (i : Nat) (after : Option Cls) (l1 l2 : List Cls) :
    splitQ q i after (l1 ++ l2) =
      splitQ q i (look l2 after) l1 ++ splitQ (run q l1) (i + l1.length) after l2 := by
  induction l1 generalizing q i with
  | nil => simp [splitQ, run]
  | cons r rest ih =>
    have e2 : i + 1 + rest.length = i + (rest.length + 1) := by omega
    simp only [List.cons_append, splitQ, look_append, ih (δ q r) (i + 1), List.length_cons,
      run_cons, e2]
    split <;> simp

theorem splitQ_cons (q : St) (i : Nat) (after : Option Cls) (r : Cls) (rest : List Cls) :
    splitQ q i after (r :: rest) =
      (if brkD (δ q r) (look rest after) then [i + 1] else []) ++ splitQ (δ q r) (i + 1) after rest := by
  simp only [splitQ]; split <;> simp

/-- only the last decision depends on the look-ahead -/
theorem splitQ_after (q : St) (i : Nat) (a1 a2 : Option Cls) (l : List Cls)
    (h : brkD (run q l) a1 = brkD (run q l) a2) (hl : l ≠ []) :
    splitQ q i a1 l = splitQ q i a2 l := by
  induction l generalizing q i with
  | nil => exact absurd rfl hl
  | cons r rest ih =>
    cases rest with
    | nil =>
      have : run q [r] = δ q r := rfl
      rw [this] at h
      rw [splitQ_cons, splitQ_cons, look_nil, look_nil, h]
      rfl
    | cons x xs =>
      rw [splitQ_cons q i a1, splitQ_cons q i a2, look_cons, look_cons, ih (δ q r) (i + 1) h (by simp)]

/-- restart: at a boundary the suffix segments as a fresh text -/
theorem splitQ_restart (q : St) (i : Nat) (after : Option Cls) (l : List Cls)
    (hg : good q = true) (hb : brkD q l.head? = true) :
    splitQ q i after l = splitQ St.init i after l := by
  cases l with
  | nil => rfl
  | cons r rest =>
    have hr : brkDfa q r = true := hb
    simp only [splitQ, reset q r hg hr]

/-- every end lies in (i, i + |l|] -/
theorem splitQ_bounds (q : St) (i : Nat) (after : Option Cls) (l : List Cls) :
    ∀ j ∈ splitQ q i after l, i < j ∧ j ≤ i + l.length := by
  induction l generalizing q i with
  | nil => simp [splitQ]
  | cons r rest ih =>
    intro j hj
    simp only [splitQ] at hj
    have key : ∀ j ∈ splitQ (δ q r) (i + 1) after rest, i < j ∧ j ≤ i + (r :: rest).length := by
      intro j hj
      have := ih (δ q r) (i + 1) j hj
      simp only [List.length_cons]; omega
    split at hj
    · rcases List.mem_cons.mp hj with h | h
      · subst h; simp only [List.length_cons]; omega
      · exact key j h
    · exact key j hj

/-- strictly increasing -/
theorem splitQ_sorted (q : St) (i : Nat) (after : Option Cls) (l : List Cls) :
    (splitQ q i after l).Pairwise (· < ·) := by
  induction l generalizing q i with
  | nil => simp [splitQ]
  | cons r rest ih =>
    simp only [splitQ]
    split
    · refine List.pairwise_cons.mpr ⟨?_, ih _ _⟩
      intro j hj
      have := splitQ_bounds (δ q r) (i + 1) after rest j hj
      omega
    · exact ih _ _

/-- with no look-ahead the text end is a cluster end: the list ends with `i + |l|` -/
theorem splitQ_last (q : St) (i : Nat) (l : List Cls) (hl : l ≠ []) :
    ∃ ini, splitQ q i none l = ini ++ [i + l.length] := by
  induction l generalizing q i with
  | nil => exact absurd rfl hl
  | cons r rest ih =>
    cases rest with
    | nil => exact ⟨[], by simp [splitQ, brkD]⟩
    | cons x xs =>
      obtain ⟨ini, h⟩ := ih (δ q r) (i + 1) (by simp)
      have e : i + 1 + (x :: xs).length = i + (r :: x :: xs).length := by simp only [List.length_cons]; omega
      rw [e] at h
      rw [splitQ_cons, h]
      exact ⟨(if brkD (δ q r) (look (x :: xs) none) then [i + 1] else []) ++ ini, by simp⟩

end RosedVerif

namespace RosedVerif
open Cls

/-- the top position `i + |l|` is an end iff the last decision says so -/
theorem top_mem_splitQ (q : St) (i : Nat) (after : Option Cls) (l : List Cls) (hl : l ≠ []) :
    (i + l.length) ∈ splitQ q i after l ↔ brkD (run q l) after = true := by
  induction l generalizing q i with
  | nil => exact absurd rfl hl
  | cons r rest ih =>
    cases rest with
    | nil =>
      rw [splitQ_cons]
      simp only [look_nil, splitQ, List.append_nil, List.length_cons, List.length_nil, run, List.foldl]
      by_cases h : brkD (δ q r) after = true <;> simp [h]
    | cons x xs =>
      rw [splitQ_cons, run_cons]
      have e : i + (r :: x :: xs).length = (i + 1) + (x :: xs).length := by
        simp only [List.length_cons]; omega
      rw [e, ← ih (δ q r) (i + 1) (by simp)]
      constructor
      · intro h
        rcases List.mem_append.mp h with h | h
        · split at h
          · simp only [List.mem_singleton, List.length_cons] at h; omega
          · simp at h
        · exact h
      · intro h; exact List.mem_append.mpr (Or.inr h)

/-- decomposition of the segmentation of `p ++ m ++ s` when both junctions around `m` are boundaries -/
theorem split_decomp (p m s : List Cls) (hm : m ≠ [])
    (hp : p = [] ∨ brkD (run St.init p) m.head? = true)
    (hs : brkD (run St.init (p ++ m)) (look s none) = true) :
    split (p ++ m ++ s) =
      split p ++ (split m).map (· + p.length) ++
        splitQ (run St.init (p ++ m)) (p.length + m.length) none s := by
  rw [split_eq_splitQ, split_eq_splitQ, split_eq_splitQ, List.append_assoc, splitQ_append,
    splitQ_append]
  simp only [Nat.zero_add]
  have hlook : look (m ++ s) none = m.head? := by
    cases m with
    | nil => exact absurd rfl hm
    | cons x xs => rfl
  -- the p part
  have e1 : splitQ St.init 0 (look (m ++ s) none) p = splitQ St.init 0 none p := by
    rcases hp with hp | hp
    · subst hp; rfl
    · by_cases hpe : p = []
      · subst hpe; rfl
      · apply splitQ_after _ _ _ _ _ _ hpe
        rw [hlook, hp]; rfl
  -- the m part
  have e2 : splitQ (run St.init p) p.length (look s none) m = (splitQ St.init 0 none m).map (· + p.length) := by
    have a1 : splitQ (run St.init p) p.length (look s none) m = splitQ (run St.init p) p.length none m := by
      apply splitQ_after _ _ _ _ _ _ hm
      rw [← run_append, hs]; rfl
    have a2 : splitQ (run St.init p) p.length none m = splitQ St.init p.length none m := by
      rcases hp with hp | hp
      · subst hp; rfl
      · exact splitQ_restart _ _ _ _ (good_run _ _ good_init) hp
    rw [a1, a2]
    have := splitQ_shift St.init 0 p.length none m
    simpa using this
  rw [e1, e2, run_append, List.append_assoc]

end RosedVerif

namespace RosedVerif
open Cls

theorem sorted_getD_inj (e : List Nat) (hs : e.Pairwise (· < ·)) (i j : Nat) (hi : i < e.length)
    (hj : j < e.length) (h : e.getD i 0 = e.getD j 0) : i = j := by
  rw [List.pairwise_iff_getElem] at hs
  simp only [List.getD_eq_getElem?_getD, List.getElem?_eq_getElem hi, List.getElem?_eq_getElem hj,
    Option.getD_some] at h
  rcases Nat.lt_trichotomy i j with h' | h' | h'
  · have := hs i j hi hj h'; omega
  · exact h'
  · have := hs j i hj hi h'; omega

theorem sorted_getD_lt (e : List Nat) (hs : e.Pairwise (· < ·)) (i j : Nat) (hij : i < j)
    (hj : j < e.length) : e.getD i 0 < e.getD j 0 := by
  rw [List.pairwise_iff_getElem] at hs
  have hi : i < e.length := by omega
  simp only [List.getD_eq_getElem?_getD, List.getElem?_eq_getElem hi, List.getElem?_eq_getElem hj,
    Option.getD_some]
  exact hs i j hi hj hij

theorem getD_mem (e : List Nat) (i : Nat) (hi : i < e.length) : e.getD i 0 ∈ e := by
  simp only [List.getD_eq_getElem?_getD, List.getElem?_eq_getElem hi, Option.getD_some]
  exact List.getElem_mem hi

theorem split_sorted (cs : List Cls) : (split cs).Pairwise (· < ·) := by
  rw [split_eq_splitQ]; exact splitQ_sorted _ _ _ _

theorem split_bounds (cs : List Cls) : ∀ j ∈ split cs, 0 < j ∧ j ≤ cs.length := by
  rw [split_eq_splitQ]
  intro j hj
  have := splitQ_bounds St.init 0 none cs j hj
  omega

theorem split_last (cs : List Cls) (h : cs ≠ []) : ∃ ini, split cs = ini ++ [cs.length] := by
  rw [split_eq_splitQ]
  obtain ⟨ini, hi⟩ := splitQ_last St.init 0 cs h
  exact ⟨ini, by simpa using hi⟩

theorem split_nil : split [] = [] := rfl

/-- **context-freeness at boundaries**: the slice of `cs` between the `st`-th and the `en`-th
cluster boundary segments on its own exactly as it does inside `cs` -/
theorem split_slice (cs : List Cls) (st en : Nat) (h1 : st < en) (h2 : en ≤ (split cs).length) :
    split ((cs.drop (if st > 0 then (split cs).getD (st - 1) 0 else 0)).take
        ((split cs).getD (en - 1) 0 - (if st > 0 then (split cs).getD (st - 1) 0 else 0))) =
      (((split cs).drop st).take (en - st)).map
        (· - (if st > 0 then (split cs).getD (st - 1) 0 else 0)) := by
  generalize he : split cs = e at *
  have hsort : e.Pairwise (· < ·) := he ▸ split_sorted cs
  have hbnd : ∀ j ∈ e, 0 < j ∧ j ≤ cs.length := he ▸ split_bounds cs
  generalize ha : (if st > 0 then e.getD (st - 1) 0 else 0) = a
  generalize hb : e.getD (en - 1) 0 = b
  have hbm : b ∈ e := hb ▸ getD_mem e (en - 1) (by omega)
  have hab : a < b := by
    by_cases h0 : st > 0
    · simp only [h0, if_true] at ha
      rw [← ha, ← hb]
      exact sorted_getD_lt e hsort (st - 1) (en - 1) (by omega) (by omega)
    · simp only [h0, if_false] at ha
      rw [← ha]; exact (hbnd b hbm).1
  have hbn : b ≤ cs.length := (hbnd b hbm).2
  -- the three parts
  let p := cs.take a
  let m := (cs.drop a).take (b - a)
  let s := cs.drop b
  have hcs : cs = p ++ m ++ s := by
    have : cs.drop a = m ++ s := by
      show cs.drop a = (cs.drop a).take (b - a) ++ cs.drop b
      have : cs.drop b = (cs.drop a).drop (b - a) := by
        rw [List.drop_drop]; congr 1; omega
      rw [this, List.take_append_drop]
    show cs = cs.take a ++ m ++ s
    rw [List.append_assoc, ← this, List.take_append_drop]
  have hpl : p.length = a := by simp [p]; omega
  have hml : m.length = b - a := by simp [m]; omega
  have hm : m ≠ [] := by
    intro h; rw [h] at hml; simp at hml; omega
  -- decomposition of e along p, m, s
  have hdec : e = splitQ St.init 0 (look (m ++ s) none) p ++
      (splitQ (run St.init p) a (look s none) m ++ splitQ (run St.init (p ++ m)) b none s) := by
    rw [← he, hcs, split_eq_splitQ, List.append_assoc, splitQ_append, splitQ_append, run_append]
    simp only [Nat.zero_add, hpl, hml]
    have : a + (b - a) = b := by omega
    rw [this]
  have bP : ∀ j ∈ splitQ St.init 0 (look (m ++ s) none) p, j ≤ a := by
    intro j hj; have := splitQ_bounds _ _ _ _ j hj; omega
  have bM : ∀ j ∈ splitQ (run St.init p) a (look s none) m, a < j ∧ j ≤ b := by
    intro j hj; have := splitQ_bounds _ _ _ _ j hj; omega
  have bS : ∀ j ∈ splitQ (run St.init (p ++ m)) b none s, b < j := by
    intro j hj; have := splitQ_bounds _ _ _ _ j hj; omega
  have hlook : look (m ++ s) none = m.head? := by
    cases hmm : m with
    | nil => exact absurd hmm hm
    | cons x xs => rfl
  -- junction before m
  have hp : p = [] ∨ brkD (run St.init p) m.head? = true := by
    by_cases h0 : st > 0
    · right
      simp only [h0, if_true] at ha
      have ham : a ∈ e := ha ▸ getD_mem e (st - 1) (by omega)
      have ha0 : 0 < a := (hbnd a ham).1
      have hpe : p ≠ [] := by intro h; rw [h] at hpl; simp at hpl; omega
      rw [hdec] at ham
      rcases List.mem_append.mp ham with h | h
      · have : 0 + p.length ∈ splitQ St.init 0 (look (m ++ s) none) p := by simpa [hpl] using h
        rw [← hlook]
        exact (top_mem_splitQ _ _ _ _ hpe).mp this
      · rcases List.mem_append.mp h with h | h
        · have := (bM a h).1; omega
        · have := bS a h; omega
    · left
      simp only [h0, if_false] at ha
      have : p.length = 0 := by omega
      exact List.eq_nil_of_length_eq_zero this
  -- junction after m
  have hs' : brkD (run St.init (p ++ m)) (look s none) = true := by
    have hbm' := hbm
    rw [hdec] at hbm'
    rcases List.mem_append.mp hbm' with h | h
    · have := bP b h; omega
    · rcases List.mem_append.mp h with h | h
      · have : a + m.length ∈ splitQ (run St.init p) a (look s none) m := by
          have : a + m.length = b := by omega
          rw [this]; exact h
        rw [run_append]
        exact (top_mem_splitQ _ _ _ _ hm).mp this
      · have := bS b h; omega
  have hD := split_decomp p m s hm hp hs'
  rw [← hcs, he] at hD
  -- sizes
  have hXlen : (split p).length = st := by
    by_cases h0 : st > 0
    · simp only [h0, if_true] at ha
      have ham : a ∈ e := ha ▸ getD_mem e (st - 1) (by omega)
      have ha0 : 0 < a := (hbnd a ham).1
      have hpe : p ≠ [] := by intro h; rw [h] at hpl; simp at hpl; omega
      obtain ⟨ini, hini⟩ := split_last p hpe
      have hidx : e.getD ((split p).length - 1) 0 = a := by
        rw [hD, hini]
        simp [List.getD_eq_getElem?_getD, hpl]
      have hlt : (split p).length - 1 < e.length := by
        rw [hD, hini]; simp
      have := sorted_getD_inj e hsort _ _ hlt (by omega) (hidx.trans ha.symm)
      have hpos : 0 < (split p).length := by rw [hini]; simp
      omega
    · have : p = [] := by
        rcases hp with h | h
        · exact h
        · simp only [h0, if_false] at ha
          exact List.eq_nil_of_length_eq_zero (by omega)
      rw [this, split_nil]; simp; omega
  have hYlast : ∃ ini, (split m).map (· + p.length) = ini ++ [b] := by
    obtain ⟨ini, hini⟩ := split_last m hm
    refine ⟨ini.map (· + p.length), ?_⟩
    rw [hini, List.map_append]
    simp only [List.map_cons, List.map_nil, hml, hpl]
    congr 2; omega
  have hYlen : (split p).length + (split m).length = en := by
    obtain ⟨ini, hini⟩ := hYlast
    have hlen : ((split m).map (· + p.length)).length = ini.length + 1 := by rw [hini]; simp
    have hidx : e.getD ((split p).length + (split m).length - 1) 0 = b := by
      have hl : (split m).length = ini.length + 1 := by simpa using hlen
      rw [hD, hini, hl]
      simp [List.getD_eq_getElem?_getD, List.getElem?_append_right, List.getElem?_append_left]
    have hlt : (split p).length + (split m).length - 1 < e.length := by
      rw [hD]; simp; have : 0 < (split m).length := by
        have := hlen; simp at this; omega
      omega
    have := sorted_getD_inj e hsort _ _ hlt (by omega) (hidx.trans hb.symm)
    have : 0 < (split m).length := by have := hlen; simp at this; omega
    omega
  -- conclusion
  show split m = ((e.drop st).take (en - st)).map (· - a)
  have hdrop : (e.drop st).take (en - st) = (split m).map (· + p.length) := by
    rw [hD, ← hXlen]
    have : en - (split p).length = ((split m).map (· + p.length)).length := by simp; omega
    rw [List.append_assoc, List.drop_left, this, List.take_left]
  rw [hdrop, List.map_map]
  have : ((fun x => x - a) ∘ fun x => x + p.length) = id := by
    funext x; simp [hpl]
  rw [this, List.map_id]

end RosedVerif
