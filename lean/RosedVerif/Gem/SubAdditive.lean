/-
Sub-additivity of the grapheme cluster count: `|split (a ++ b)| ≤ |split a| + |split b|`.

The boundary set of `b` read from a reachable state `q` is NOT a subset of the
boundary set of `b` read from the fresh state, but the COUNT exceeds the fresh
count by at most one, and only when the junction decision is "no break" (in
which case the `a` part loses its final boundary).  The count comparison is a
simulation between the two runs with a one-unit "debt" (`debt`), whose
one-step inequality is checked by kernel evaluation over all pairs of states
with the same `last` × classes.
-/
import RosedVerif.Gem.Theory
import RosedVerif.Gem.RunesTheory
namespace RosedVerif
open Cls

/-! ### the easy bounds -/

theorem splitQ_length_le (q : St) (i : Nat) (after : Option Cls) (l : List Cls) :
    (splitQ q i after l).length ≤ l.length := by
  induction l generalizing q i with
  | nil => exact Nat.le_refl _
  | cons r rest ih =>
    have := ih (δ q r) (i + 1)
    simp only [splitQ]
    split
    · simp only [List.length_cons]; omega
    · simp only [List.length_cons]; omega

theorem split_length_le (cs : List Cls) : (split cs).length ≤ cs.length := by
  rw [split_eq_splitQ]; exact splitQ_length_le _ _ _ _

theorem split_length_eq_zero_iff (cs : List Cls) : (split cs).length = 0 ↔ cs = [] := by
  constructor
  · intro h
    false_or_by_contra
    rename_i hne
    obtain ⟨ini, hi⟩ := split_last cs hne
    rw [hi] at h
    simp only [List.length_append, List.length_cons, List.length_nil] at h
    omega
  · intro h; subst h; rfl

theorem split_length_pos (cs : List Cls) (h : cs ≠ []) : 0 < (split cs).length := by
  have h0 : (split cs).length ≠ 0 := fun h0 => h ((split_length_eq_zero_iff cs).mp h0)
  omega

/-! ### the decision count from a state that has already read something -/

/-- number of "break" decisions when the state `p` (after its last read element) still has `l`
to read, followed by the look-ahead `after` -/
def cnt (after : Option Cls) : St → List Cls → Nat
  | p, [] => (brkD p after).toNat
  | p, x :: xs => (brkDfa p x).toNat + cnt after (δ p x) xs

theorem ite_singleton_length (b : Bool) (i : Nat) :
    (if b = true then [i] else ([] : List Nat)).length = b.toNat := by
  cases b <;> rfl

theorem splitQ_length_cons (q : St) (i : Nat) (after : Option Cls) (r : Cls) (rest : List Cls) :
    (splitQ q i after (r :: rest)).length = cnt after (δ q r) rest := by
  induction rest generalizing q i r with
  | nil =>
    rw [splitQ_cons, look_nil, List.length_append, ite_singleton_length]
    rfl
  | cons x xs ih =>
    rw [splitQ_cons, List.length_append, ih (δ q r) (i + 1) x]
    rw [look_cons, ite_singleton_length]
    rfl

/-! ### the debt simulation -/

/-- one unit of slack is allowed exactly when the reference run `s` holds a "no break" licence
(odd RI count, pending `ExtPict Extend* [ZWJ]`) that the run `p` does not hold -/
def debt (p s : St) : Bool :=
  (s.riOdd && !p.riOdd) || (s.epz && !p.epz) || (s.epx && !p.epx)

theorem debt_self (p : St) : debt p p = false := by
  obtain ⟨l, a, b, c⟩ := p
  cases a <;> cases b <;> cases c <;> rfl

theorem debt_step_all :
    ((none :: Cls.all.map some).all fun l =>
      [true, false].all fun a1 => [true, false].all fun b1 => [true, false].all fun c1 =>
      [true, false].all fun a2 => [true, false].all fun b2 => [true, false].all fun c2 =>
      Cls.all.all fun c =>
        !(good ⟨l, a1, b1, c1⟩ && good ⟨l, a2, b2, c2⟩) ||
          decide ((debt (δ ⟨l, a1, b1, c1⟩ c) (δ ⟨l, a2, b2, c2⟩ c)).toNat
                + (brkDfa ⟨l, a1, b1, c1⟩ c).toNat
              ≤ (debt ⟨l, a1, b1, c1⟩ ⟨l, a2, b2, c2⟩).toNat + (brkDfa ⟨l, a2, b2, c2⟩ c).toNat))
      = true := by
  decide +kernel

theorem mem_bools (b : Bool) : b ∈ [true, false] := by cases b <;> decide

theorem mem_optCls (l : Option Cls) : l ∈ (none :: Cls.all.map some) := by
  cases l with
  | none => exact List.mem_cons_self
  | some x => exact List.mem_cons_of_mem _ (List.mem_map.mpr ⟨x, Cls.mem_all x, rfl⟩)

/-- one step of the simulation: the debt plus the breaks of the reference run pay for the
breaks of the other run -/
theorem debt_step (p s : St) (c : Cls) (hp : good p = true) (hs : good s = true)
    (hl : p.last = s.last) :
    (debt (δ p c) (δ s c)).toNat + (brkDfa p c).toNat ≤ (debt p s).toNat + (brkDfa s c).toNat := by
  obtain ⟨l, a1, b1, c1⟩ := p
  obtain ⟨l2, a2, b2, c2⟩ := s
  have hl' : l = l2 := hl
  subst hl'
  have h := debt_step_all
  rw [List.all_eq_true] at h
  have h := h l (mem_optCls l)
  rw [List.all_eq_true] at h
  have h := h a1 (mem_bools a1)
  rw [List.all_eq_true] at h
  have h := h b1 (mem_bools b1)
  rw [List.all_eq_true] at h
  have h := h c1 (mem_bools c1)
  rw [List.all_eq_true] at h
  have h := h a2 (mem_bools a2)
  rw [List.all_eq_true] at h
  have h := h b2 (mem_bools b2)
  rw [List.all_eq_true] at h
  have h := h c2 (mem_bools c2)
  rw [List.all_eq_true] at h
  have h := h c (Cls.mem_all c)
  rw [hp, hs] at h
  simpa using h

theorem δ_last (q : St) (c : Cls) : (δ q c).last = some c := rfl

theorem toNat_le_one (b : Bool) : b.toNat ≤ 1 := by cases b <;> decide

/-- the run from `p` makes at most `debt p s` more breaks than the run from `s` -/
theorem cnt_le (after : Option Cls) (l : List Cls) (p s : St) (hp : good p = true)
    (hs : good s = true) (hl : p.last = s.last) :
    cnt after p l ≤ cnt after s l + (debt p s).toNat := by
  induction l generalizing p s with
  | nil =>
    cases after with
    | none => simp only [cnt, brkD]; omega
    | some c =>
      have := debt_step p s c hp hs hl
      simp only [cnt, brkD]
      omega
  | cons x xs ih =>
    have h1 := debt_step p s x hp hs hl
    have h2 := ih (δ p x) (δ s x) (good_step p x hp) (good_step s x hs) rfl
    simp only [cnt]
    omega

/-- from a reachable state the suffix has at most one more cluster end than read afresh -/
theorem splitQ_length_le_init_succ (q : St) (i j : Nat) (after : Option Cls) (b : List Cls)
    (hg : good q = true) :
    (splitQ q i after b).length ≤ (splitQ St.init j after b).length + 1 := by
  cases b with
  | nil => simp [splitQ]
  | cons r rest =>
    rw [splitQ_length_cons, splitQ_length_cons]
    have h := cnt_le after rest (δ q r) (δ St.init r) (good_step q r hg)
      (good_step St.init r good_init) rfl
    have := toNat_le_one (debt (δ q r) (δ St.init r))
    omega

/-! ### the last decision of the first part -/

/-- changing the look-ahead changes the count by exactly the last decision -/
theorem splitQ_length_after (q : St) (i : Nat) (a1 a2 : Option Cls) (l : List Cls) (hl : l ≠ []) :
    (splitQ q i a1 l).length + (brkD (run q l) a2).toNat =
      (splitQ q i a2 l).length + (brkD (run q l) a1).toNat := by
  induction l generalizing q i with
  | nil => exact absurd rfl hl
  | cons r rest ih =>
    cases rest with
    | nil =>
      have hr : run q [r] = δ q r := rfl
      rw [hr]
      rw [splitQ_cons, splitQ_cons, look_nil, look_nil, List.length_append, List.length_append,
        ite_singleton_length, ite_singleton_length]
      simp only [splitQ, List.length_nil]
      omega
    | cons x xs =>
      have := ih (δ q r) (i + 1) (by simp)
      rw [run_cons, splitQ_cons q i a1, splitQ_cons q i a2, look_cons, look_cons,
        List.length_append, List.length_append, ite_singleton_length]
      omega

/-! ### sub-additivity -/

theorem split_length_append_le (a b : List Cls) :
    (split (a ++ b)).length ≤ (split a).length + (split b).length := by
  cases b with
  | nil => simp only [List.append_nil]; omega
  | cons r rest =>
    by_cases ha : a = []
    · subst ha; simp only [List.nil_append]; omega
    · rw [split_eq_splitQ, split_eq_splitQ, split_eq_splitQ, splitQ_append, List.length_append]
      simp only [look_cons, Nat.zero_add]
      have hg : good (run St.init a) = true := good_run _ _ good_init
      have h1 := splitQ_length_after St.init 0 (some r) none a ha
      simp only [brkD] at h1
      by_cases hb : brkDfa (run St.init a) r = true
      · -- junction is a boundary: the suffix restarts
        have h2 := splitQ_restart (run St.init a) a.length none (r :: rest) hg hb
        rw [h2]
        have h3 := splitQ_shift St.init 0 a.length none (r :: rest)
        rw [Nat.zero_add] at h3
        rw [h3, List.length_map]
        rw [hb] at h1
        simp only [Bool.toNat_true] at h1
        omega
      · -- junction is not a boundary: the prefix loses its last end, the suffix gains at most one
        have hb' : brkDfa (run St.init a) r = false := by simpa using hb
        rw [hb'] at h1
        simp only [Bool.toNat_true, Bool.toNat_false] at h1
        have h2 := splitQ_length_le_init_succ (run St.init a) a.length 0 none (r :: rest) hg
        omega

theorem splitRunes_length_append_le (a b : List Int) :
    (splitRunes (a ++ b)).length ≤ (splitRunes a).length + (splitRunes b).length := by
  unfold splitRunes
  rw [List.map_append]
  exact split_length_append_le _ _

theorem splitRunes_length_le (s : List Int) : (splitRunes s).length ≤ s.length := by
  have := split_length_le (s.map classOf)
  simpa [splitRunes] using this

theorem splitRunes_length_eq_zero_iff (s : List Int) : (splitRunes s).length = 0 ↔ s = [] := by
  have := split_length_eq_zero_iff (s.map classOf)
  simpa [splitRunes] using this

end RosedVerif
