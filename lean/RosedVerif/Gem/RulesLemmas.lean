/-
`splitGo = splitRunes`: under the table facts, running the chain over the Go
predicates equals classifying first and running it over classes.
-/
import RosedVerif.Gem.Rules
import RosedVerif.Gem.TableProofs
namespace RosedVerif

variable {ρ σ : Type}

/-- `P` is `Q` after `f` -/
structure Preds.Factors (P : Preds ρ) (Q : Preds σ) (f : ρ → σ) : Prop where
  prepend : ∀ r, P.prepend r = Q.prepend (f r)
  cr : ∀ r, P.cr r = Q.cr (f r)
  lf : ∀ r, P.lf r = Q.lf (f r)
  control : ∀ r, P.control r = Q.control (f r)
  extend : ∀ r, P.extend r = Q.extend (f r)
  ri : ∀ r, P.ri r = Q.ri (f r)
  spacing : ∀ r, P.spacing r = Q.spacing (f r)
  l : ∀ r, P.l r = Q.l (f r)
  v : ∀ r, P.v r = Q.v (f r)
  t : ∀ r, P.t r = Q.t (f r)
  lv : ∀ r, P.lv r = Q.lv (f r)
  lvt : ∀ r, P.lvt r = Q.lvt (f r)
  zwj : ∀ r, P.zwj r = Q.zwj (f r)
  extpict : ∀ r, P.extpict r = Q.extpict (f r)

theorem scanEP_factors {P : Preds ρ} {Q : Preds σ} {f : ρ → σ} (h : P.Factors Q f) (l : List ρ) :
    scanEP P l = scanEP Q (l.map f) := by
  induction l with
  | nil => rfl
  | cons c t ih => simp only [scanEP, List.map_cons, h.extend, h.extpict, ih]

theorem countRI_factors {P : Preds ρ} {Q : Preds σ} {f : ρ → σ} (h : P.Factors Q f) (l : List ρ) :
    countRI P l = countRI Q (l.map f) := by
  induction l with
  | nil => rfl
  | cons c t ih => simp only [countRI, List.map_cons, h.ri, ih]

theorem brk_factors {P : Preds ρ} {Q : Preds σ} {f : ρ → σ} (h : P.Factors Q f)
    (before : List ρ) (r : ρ) (nx : Option ρ) :
    brk P before r nx = brk Q (before.map f) (f r) (nx.map f) := by
  cases nx with
  | none => rfl
  | some nx =>
    simp only [brk, Option.map_some, h.prepend, h.cr, h.lf, h.control, h.extend, h.ri, h.spacing,
      h.l, h.v, h.t, h.lv, h.lvt, h.zwj, h.extpict, scanEP_factors h, countRI_factors h,
      List.isEmpty_map]

theorem splitAux_factors {P : Preds ρ} {Q : Preds σ} {f : ρ → σ} (h : P.Factors Q f)
    (before : List ρ) (i : Nat) (rs : List ρ) :
    splitAux P before i rs = splitAux Q (before.map f) i (rs.map f) := by
  induction rs generalizing before i with
  | nil => rfl
  | cons r rest ih =>
    simp only [splitAux, List.map_cons, brk_factors h, List.head?_map]
    rw [ih (r :: before) (i + 1)]
    rfl

theorem goPreds_factors : goPreds.Factors clsPreds classOf := by
  constructor <;> intro r <;> have := goPreds_eq_cls r <;> simp only [clsPreds_prepend, clsPreds_cr, clsPreds_lf, clsPreds_control,
    clsPreds_extend, clsPreds_ri, clsPreds_spacing, clsPreds_l, clsPreds_v, clsPreds_t,
    clsPreds_lv, clsPreds_lvt, clsPreds_zwj, clsPreds_extpict] <;> simp only [this]

/-- the executable model (`classOf` then the class-level chain) IS the source-faithful chain -/
theorem splitGo_eq_splitRunes (rs : List Int) : splitGo rs = splitRunes rs := by
  unfold splitGo splitRunes split splitG
  exact splitAux_factors goPreds_factors [] 0 rs

end RosedVerif
