/-
Layer G: transliteration of `shouldBreakAfter` / `gem.Split`
(internal/gem/graphemeclusters.go, gem.go), generic in the predicate bundle so
that the same chain runs over code points (Go predicates) and over classes.
-/
import RosedVerif.Gem.Concrete
namespace RosedVerif

variable {ρ : Type}

/-- GB11 backward loop: `before` is chars[i-1], chars[i-2], …; the loop skips
Extend and answers whether the first non-Extend is Extended_Pictographic. -/
def scanEP (P : Preds ρ) : List ρ → Bool
  | [] => false
  | c :: t => if !P.extend c then P.extpict c else scanEP P t

/-- GB12/13 backward loop: number of RI immediately before -/
def countRI (P : Preds ρ) : List ρ → Nat
  | [] => 0
  | c :: t => if !P.ri c then 0 else countRI P t + 1

/-- `shouldBreakAfter(r, chars, i)` with `before` = reversed prefix and `nx` = chars[i+1]? -/
def brk (P : Preds ρ) (before : List ρ) (r : ρ) : Option ρ → Bool
  | none => true                                   -- GB2
  | some nx =>
    if P.cr r && P.lf nx then false                -- GB3
    else if P.control r || P.cr r || P.lf r then true          -- GB4
    else if P.control nx || P.cr nx || P.lf nx then true       -- GB5
    else if P.l r && (P.l nx || P.v nx || P.lv nx || P.lvt nx) then false  -- GB6
    else if (P.lv r || P.v r) && (P.v nx || P.t nx) then false -- GB7
    else if (P.lvt r || P.t r) && P.t nx then false            -- GB8
    else if P.extend nx || P.zwj nx then false                 -- GB9
    else if P.spacing nx then false                            -- GB9a
    else if P.prepend r then false                             -- GB9b
    else if P.zwj r && P.extpict nx && !before.isEmpty && scanEP P before then false  -- GB11
    else if P.ri r && P.ri nx && countRI P before % 2 == 0 then false          -- GB12/13
    else true                                                  -- GB999

/-- `gem.Split` loop: exclusive cluster ends, `i` = index of the head of the remaining input -/
def splitAux (P : Preds ρ) (before : List ρ) (i : Nat) : List ρ → List Nat
  | [] => []
  | r :: rest =>
    if brk P before r rest.head? then (i + 1) :: splitAux P (r :: before) (i + 1) rest
    else splitAux P (r :: before) (i + 1) rest

def splitG (P : Preds ρ) (rs : List ρ) : List Nat := splitAux P [] 0 rs

/-- the real thing: Go predicates over code points -/
def splitGo (rs : List Int) : List Nat := splitG goPreds rs

/-- class-level segmentation -/
def split (cs : List Cls) : List Nat := splitG clsPreds cs

/-- executable model used by the driver: classify once, then the class-level chain -/
def splitRunes (rs : List Int) : List Nat := split (rs.map classOf)

end RosedVerif
