/-
Editor-level structure theorems (non-paragraph mode) for Align, Justify and Wrap:
one output line per input line, in order; trailing separator kept; last-line rule.

Notation: `od = o.withDefaults cx`, `sep = od.lineSep`,
`inLines cx ed o = (ed.withOpts od).linesSep sep` (the input lines),
`trailing cx ed o = [[]]` if `!od.noTrailing ∧ (inLines cx ed o).length < (splitOn ed.text sep).length`
(`linesSep` dropped a final empty piece), else `[]`.

  1. `applyOptsM_structure` (+ `applyOptsM_map`, `applyOpts_map`, `applyOptsM_withDefaults`)
  2. `alignOpts_structure` / `alignOpts_left|right|center`, `alignOpts_none`;
     line count / contents: `alignOpts_lines`, `alignOpts_inLines`
  3. `justifyOpts_all` (JustifyLastLine), `justifyOpts_notLast` (default; any editor, root or
     sub), `justifyOpts_notLast_closed`, `justifyOpts_all_lines`, `justifyOpts_notLast_lines`
  4. `wrapOpts_structure`
  `*_sane`: the same for a well-formed context, with no side condition on `justifyLine`/`wrapLines`.
  5. (`r.opts = ed.opts`) is `alignOpts_opts` / `justifyOpts_opts` / `wrapOpts_opts` of
     OptionsLemmas.lean (`C17_opts_*`); every closed form here is `ed.withText _`, which shows it again.

The line-count corollaries (`splitOn_replaced` and what follows from it) need a separator without
a proper border (`Unbordered`: every one-atom separator, "\r\n", …); the example at the end shows
that this cannot be dropped.  The closed forms (`inLines_append_trailing`, `text_eq_joinWith`,
`justifyOpts_notLast_closed`) hold for every separator.
-/
import RosedVerif.Model.Totality2
namespace RosedVerif
namespace OpsStructure
variable {α : Type} [DecidableEq α] (cx : Ctx α)

theorem mapM_ok_of_forall {β γ : Type} (f : β → R γ) (g : β → γ) :
    ∀ l : List β, (∀ x ∈ l, f x = .ok (g x)) → l.mapM f = .ok (l.map g)
  | [], _ => by simp only [List.mapM_nil, List.map_nil]; rfl
  | x :: l, h => by
    have hx := h x (by simp)
    have hl := mapM_ok_of_forall f g l (fun y hy => h y (by simp [hy]))
    simp only [List.mapM_cons, hx, hl, List.map_cons]
    rfl

/-- the input lines an `XOpts` operation sees -/
def inLines (ed : Editor α) (o : Options α) : List (List α) :=
  (ed.withOpts (o.withDefaults cx)).linesSep (o.withDefaults cx).lineSep

/-- the extra empty line appended when `linesSep` dropped a final empty piece: the last line of the
text is terminated (default policy).  For a separator without a proper border this is "the text
ends in the separator" (`trailing_eq_of_unbordered`). -/
def trailing (ed : Editor α) (o : Options α) : List (List α) :=
  if !(o.withDefaults cx).noTrailing ∧
      (inLines cx ed o).length < (splitOn ed.text (o.withDefaults cx).lineSep).length then [[]] else []

omit [DecidableEq α] in
theorem withDefaults_lineSep_idem (o : Options α) :
    ((o.withDefaults cx).withDefaults cx).lineSep = (o.withDefaults cx).lineSep := by
  rw [(withDefaults_fields cx (o.withDefaults cx)).1, (withDefaults_fields cx o).1]
  by_cases h : o.lineSep.isEmpty
  · simp only [h, if_true, ite_self]
  · simp only [h, if_false, Bool.false_eq_true]

omit [DecidableEq α] in
theorem withDefaults_noTrailing_idem (o : Options α) :
    ((o.withDefaults cx).withDefaults cx).noTrailing = (o.withDefaults cx).noTrailing :=
  withDefaults_noTrailing cx _

theorem inLines_eq (ed : Editor α) (o : Options α) :
    inLines cx ed o =
      Spec.bareLines ed.text (o.withDefaults cx).lineSep (o.withDefaults cx).noTrailing := by
  unfold inLines
  rw [linesSep_eq_bareLines, Editor.withOpts_text, Editor.withOpts_opts]

theorem inLines_withDefaults (ed : Editor α) (o : Options α) :
    inLines cx ed (o.withDefaults cx) = inLines cx ed o := by
  rw [inLines_eq, inLines_eq, withDefaults_lineSep_idem, withDefaults_noTrailing_idem]

theorem trailing_withDefaults (ed : Editor α) (o : Options α) :
    trailing cx ed (o.withDefaults cx) = trailing cx ed o := by
  unfold trailing
  rw [inLines_withDefaults, withDefaults_lineSep_idem, withDefaults_noTrailing_idem]

theorem flatten_map_range_getD_map {β γ : Type} (l : List β) (d : β) (f : β → γ) :
    ((List.range l.length).map fun i => [f (l.getD i d)]).flatten = l.map f := by
  have := flatten_map_range_getD (l.map f) (f d)
  rw [List.length_map] at this
  rw [← this]
  congr 2
  funext i
  simp only [List.getD_eq_getElem?_getD, List.getElem?_map]
  cases l[i]? <;> rfl


/-! ## leftmost scan of a text built from pieces and separators -/

theorem isPrefixOf_append_long (sep u X : List α) (h : sep.length ≤ u.length) :
    sep.isPrefixOf (u ++ X) = sep.isPrefixOf u := by
  rw [Bool.eq_iff_iff, List.isPrefixOf_iff_prefix, List.isPrefixOf_iff_prefix]
  constructor
  · intro hp
    exact List.prefix_of_prefix_length_le hp (List.prefix_append u X) h
  · intro hp
    exact hp.trans (List.prefix_append u X)

theorem indexOf_sep_append (sep X : List α) (hsep : sep ≠ []) : indexOf sep (sep ++ X) = some 0 := by
  cases sep with
  | nil => exact absurd rfl hsep
  | cons a s =>
    rw [List.cons_append, indexOf_cons, if_pos]
    rw [← List.cons_append, List.isPrefixOf_iff_prefix]
    exact List.prefix_append _ _

/-- whether the leftmost occurrence of `sep` in `p ++ sep ++ X` is the one after `p` does not
depend on `X` -/
theorem indexOf_append_sep_congr (sep : List α) (hsep : sep ≠ []) (X Y : List α) :
    ∀ p : List α, indexOf sep (p ++ sep ++ X) = some p.length →
      indexOf sep (p ++ sep ++ Y) = some p.length
  | [], _ => by
    rw [List.nil_append]; exact indexOf_sep_append sep Y hsep
  | c :: p, h => by
    rw [List.cons_append, List.cons_append, indexOf_cons] at h
    rw [List.cons_append, List.cons_append, indexOf_cons]
    have hl : sep.length ≤ (c :: (p ++ sep)).length := by
      simp only [List.length_cons, List.length_append]; omega
    have e1 : ∀ Z, sep.isPrefixOf (c :: (p ++ sep ++ Z)) = sep.isPrefixOf (c :: (p ++ sep)) := by
      intro Z
      rw [← List.cons_append]
      exact isPrefixOf_append_long sep _ Z hl
    rw [e1] at h ⊢
    split at h
    · simp only [List.length_cons, Option.some.injEq] at h; omega
    · rename_i hp
      rw [if_neg hp]
      rw [Option.map_eq_some_iff] at h
      obtain ⟨j, hj, hj'⟩ := h
      simp only [List.length_cons, Nat.add_right_cancel_iff] at hj'
      subst hj'
      rw [indexOf_append_sep_congr sep hsep X Y p hj]
      rfl

/-- the leftmost occurrence of `sep` in `p ++ sep` is the final one -/
def SepFree (sep p : List α) : Prop := indexOf sep (p ++ sep) = some p.length

theorem SepFree.indexOf_append {sep p : List α} (h : SepFree sep p) (hsep : sep ≠ []) (X : List α) :
    indexOf sep (p ++ sep ++ X) = some p.length := by
  have := indexOf_append_sep_congr sep hsep [] X p (by rw [List.append_nil]; exact h)
  exact this

theorem sepFree_of_indexOf_append {sep p X : List α} (hsep : sep ≠ [])
    (h : indexOf sep (p ++ sep ++ X) = some p.length) : SepFree sep p := by
  have := indexOf_append_sep_congr sep hsep X [] p h
  rw [List.append_nil] at this
  exact this

theorem SepFree.splitOn_append {sep p : List α} (h : SepFree sep p) (hsep : sep ≠ []) (X : List α) :
    splitOn (p ++ sep ++ X) sep = p :: splitOn X sep := by
  rw [splitOn_of_indexOf_some sep hsep _ p.length (h.indexOf_append hsep X)]
  congr 1
  · rw [List.append_assoc, List.take_left]
  · rw [← List.length_append, List.drop_left]

/-- an unbordered separator cannot straddle the end of a piece that does not contain it -/
theorem sepFree_of_unbordered {sep : List α} (hsep : sep ≠ []) (hu : Unbordered sep) :
    ∀ p : List α, indexOf sep p = none → SepFree sep p
  | [], _ => by
    unfold SepFree
    rw [List.nil_append]
    have := indexOf_sep_append sep [] hsep
    rw [List.append_nil] at this
    exact this
  | c :: p, h => by
    rw [indexOf_cons] at h
    split at h
    · exact absurd h (by simp)
    · rename_i hp
      rw [Option.map_eq_none_iff] at h
      have ih := sepFree_of_unbordered hsep hu p h
      unfold SepFree at ih ⊢
      rw [List.cons_append, indexOf_cons, ih]
      rw [if_neg]
      · rfl
      · intro hq
        rw [← List.cons_append] at hq
        by_cases hl : sep.length ≤ (c :: p).length
        · rw [isPrefixOf_append_long sep _ _ hl] at hq
          exact hp hq
        · obtain ⟨r, hr⟩ := List.isPrefixOf_iff_prefix.mp hq
          have hlen : (c :: p).length < sep.length := by omega
          have h1 := congrArg (List.drop (c :: p).length) hr
          rw [List.drop_left, List.drop_append_of_le_length (by omega)] at h1
          have h2 := congrArg (List.take (sep.length - (c :: p).length)) h1
          rw [List.take_left' (by simp only [List.length_drop])] at h2
          apply hu (sep.length - (c :: p).length) (by omega)
            (by simp only [List.length_cons] at hlen ⊢; omega)
          rw [← h2]
          congr 1
          omega

/-- splitting a join gives the pieces back, when no piece followed by a separator contains an
earlier occurrence of the separator -/
theorem splitOn_joinWith (sep : List α) (hsep : sep ≠ []) :
    ∀ parts : List (List α), parts ≠ [] → (∀ p ∈ parts.dropLast, SepFree sep p) →
      indexOf sep (parts.getLastD []) = none → splitOn (joinWith sep parts) sep = parts
  | [], h, _, _ => absurd rfl h
  | [x], _, _, hl => by
    rw [joinWith_singleton]
    exact splitOn_of_indexOf_none sep hsep x hl
  | x :: y :: t, _, hf, hl => by
    rw [joinWith_cons_cons]
    have hx : SepFree sep x := hf x (by simp [List.dropLast])
    rw [hx.splitOn_append hsep]
    congr 1
    apply splitOn_joinWith sep hsep (y :: t) (by simp)
    · intro p hp
      apply hf
      simp only [List.dropLast_cons_cons, List.mem_cons]
      exact Or.inr hp
    · simpa [List.getLastD] using hl

/-- the text up to and including the `k`-th separator splits into the first `k` pieces and an
empty piece -/
theorem splitOn_take_terminated (sep : List α) (hsep : sep ≠ []) :
    ∀ (k : Nat) (t : List α), k < (splitOn t sep).length →
      splitOn (((splitOn t sep).take k).map (· ++ sep)).flatten sep = (splitOn t sep).take k ++ [[]]
  | 0, t, _ => by
    simp only [List.take_zero, List.map_nil, List.flatten_nil, List.nil_append]
    exact splitOn_nil sep hsep
  | k + 1, t, hk => by
    cases hi : indexOf sep t with
    | none =>
      rw [splitOn_of_indexOf_none sep hsep t hi] at hk
      simp only [List.length_singleton] at hk
      omega
    | some i =>
      obtain ⟨hdec, hle⟩ := indexOf_some_spec sep t i hi
      have hlen : (t.take i).length = i := by rw [List.length_take]; omega
      have hfree : SepFree sep (t.take i) := by
        apply sepFree_of_indexOf_append hsep (X := t.drop (i + sep.length))
        rw [← hdec, hlen]; exact hi
      rw [splitOn_of_indexOf_some sep hsep t i hi] at hk ⊢
      simp only [List.length_cons, Nat.add_lt_add_iff_right] at hk
      simp only [List.take_succ_cons, List.map_cons, List.flatten_cons, List.cons_append]
      rw [hfree.splitOn_append hsep, splitOn_take_terminated sep hsep k _ hk]

end OpsStructure
open OpsStructure
variable {α : Type} [DecidableEq α] (cx : Ctx α)

theorem applyOptsM_structure (ed : Editor α) (op : Nat → List α → R (List (List α)))
    (o : Options α) (outs : Nat → List (List α))
    (h : ∀ i, i < (inLines cx ed o).length → op i ((inLines cx ed o).getD i []) = .ok (outs i)) :
    ed.applyOptsM cx op o = .ok (ed.withText (joinWith (o.withDefaults cx).lineSep
      (((List.range (inLines cx ed o).length).map outs).flatten ++ trailing cx ed o))) := by
  unfold Editor.applyOptsM
  dsimp only
  have hm := mapM_ok_of_forall (fun i => op i ((inLines cx ed o).getD i [])) outs
    (List.range (inLines cx ed o).length) (fun i hi => h i (List.mem_range.1 hi))
  unfold inLines at hm
  rw [hm]
  unfold trailing inLines
  show Except.ok _ = _
  split <;> simp only [List.append_nil]

/-- `applyOptsM` reads only the line separator and the trailing policy of its options, and these
are stable under a second `withDefaults` (no idempotence assumption on the charset is needed) -/
theorem applyOptsM_withDefaults (ed : Editor α) (op : Nat → List α → R (List (List α)))
    (o : Options α) : ed.applyOptsM cx op (o.withDefaults cx) = ed.applyOptsM cx op o := by
  unfold Editor.applyOptsM
  simp only [linesSep_eq_bareLines, Editor.withOpts_text, Editor.withOpts_opts,
    withDefaults_lineSep_idem, withDefaults_noTrailing_idem]

/-- a 1:1 callback that may fail: line `i` is replaced by `g` of line `i` -/
theorem applyOptsM_map (ed : Editor α) (f : List α → R (List α)) (g : List α → List α)
    (o : Options α) (h : ∀ l ∈ inLines cx ed o, f l = .ok (g l)) :
    ed.applyOptsM cx (fun _ l => do pure [← f l]) o =
      .ok (ed.withText (joinWith (o.withDefaults cx).lineSep
        ((inLines cx ed o).map g ++ trailing cx ed o))) := by
  rw [applyOptsM_structure cx ed _ o (fun i => [g ((inLines cx ed o).getD i [])]),
    flatten_map_range_getD_map]
  intro i hi
  have hmem : (inLines cx ed o).getD i [] ∈ inLines cx ed o := by
    rw [List.getD_eq_getElem?_getD, List.getElem?_eq_getElem hi]
    exact List.getElem_mem hi
  rw [h _ hmem]
  rfl

/-- a total 1:1 callback -/
theorem applyOpts_map (ed : Editor α) (g : List α → List α) (o : Options α) :
    ed.applyOpts cx (fun _ l => [g l]) o =
      .ok (ed.withText (joinWith (o.withDefaults cx).lineSep
        ((inLines cx ed o).map g ++ trailing cx ed o))) := by
  unfold Editor.applyOpts
  rw [applyOptsM_structure cx ed _ o (fun i => [g ((inLines cx ed o).getD i [])]),
    flatten_map_range_getD_map]
  intro i _
  rfl

/-! ## 2. Align, non-paragraph mode -/

/-- the line function selected by the raw alignment value (for a value in 1..3) -/
def OpsStructure.alignFn (align : Int) (l : List α) (width : Int) : List α :=
  if align == Gen.alignLeft then alignLeft cx l width
  else if align == Gen.alignRight then alignRight cx l width
  else alignCenter cx l width

/-- `AlignOpts` with `None` or a value outside `Left..Center` returns the receiver unchanged
(whatever the options, also in paragraph mode) -/
theorem alignOpts_none (ed : Editor α) (align width : Int) (o : Options α)
    (hal : align = Gen.alignNone ∨
      (align ≠ Gen.alignLeft ∧ align ≠ Gen.alignRight ∧ align ≠ Gen.alignCenter)) :
    ed.alignOpts cx align width o = .ok ed := by
  unfold Editor.alignOpts
  rw [if_pos]
  · rfl
  · simpa only [beq_iff_eq, bne_iff_ne] using hal

/-- `AlignOpts`, non-paragraph mode: every input line is replaced by its aligned form, in order;
one trailing empty line is appended exactly when the input's last line is terminated (`trailing`:
the final empty piece of the split was dropped) -/
theorem alignOpts_structure (ed : Editor α) (align width : Int) (o : Options α)
    (hal : align = Gen.alignLeft ∨ align = Gen.alignRight ∨ align = Gen.alignCenter)
    (hpp : (o.withDefaults cx).preservePara = false) :
    ed.alignOpts cx align width o =
      .ok (ed.withText (joinWith (o.withDefaults cx).lineSep
        ((inLines cx ed o).map (fun l => alignFn cx align l width) ++ trailing cx ed o))) := by
  unfold Editor.alignOpts
  rw [if_neg]
  · dsimp only
    rw [hpp]
    simp only [Bool.false_eq_true, if_false]
    have hcb : (fun (_ : Nat) (line : List α) =>
        if align == Gen.alignLeft then [alignLeft cx line width]
        else if align == Gen.alignRight then [alignRight cx line width]
        else [alignCenter cx line width]) = fun _ l => [alignFn cx align l width] := by
      funext _ l
      unfold alignFn
      split
      · rfl
      · split <;> rfl
    rw [hcb, applyOpts_map, inLines_withDefaults, trailing_withDefaults, withDefaults_lineSep_idem]
  · simp only [beq_iff_eq, bne_iff_ne, ne_eq]
    rcases hal with h | h | h <;> subst h <;> decide

theorem alignOpts_left (ed : Editor α) (width : Int) (o : Options α)
    (hpp : (o.withDefaults cx).preservePara = false) :
    ed.alignOpts cx Gen.alignLeft width o =
      .ok (ed.withText (joinWith (o.withDefaults cx).lineSep
        ((inLines cx ed o).map (fun l => alignLeft cx l width) ++ trailing cx ed o))) :=
  alignOpts_structure cx ed _ width o (.inl rfl) hpp

theorem alignOpts_right (ed : Editor α) (width : Int) (o : Options α)
    (hpp : (o.withDefaults cx).preservePara = false) :
    ed.alignOpts cx Gen.alignRight width o =
      .ok (ed.withText (joinWith (o.withDefaults cx).lineSep
        ((inLines cx ed o).map (fun l => alignRight cx l width) ++ trailing cx ed o))) :=
  alignOpts_structure cx ed _ width o (.inr (.inl rfl)) hpp

theorem alignOpts_center (ed : Editor α) (width : Int) (o : Options α)
    (hpp : (o.withDefaults cx).preservePara = false) :
    ed.alignOpts cx Gen.alignCenter width o =
      .ok (ed.withText (joinWith (o.withDefaults cx).lineSep
        ((inLines cx ed o).map (fun l => alignCenter cx l width) ++ trailing cx ed o))) :=
  alignOpts_structure cx ed _ width o (.inr (.inr rfl)) hpp

/-! ## 4. Wrap, non-paragraph mode -/

/-- `WrapOpts`, non-paragraph mode: the wrapped lines joined by the separator, plus one more
separator exactly when the input ended in one -/
theorem wrapOpts_structure (ed : Editor α) (width : Int) (o : Options α) (lines' : List (List α))
    (hpp : (o.withDefaults cx).preservePara = false)
    (hw : wrapLines cx ed.text (max width 2) (o.withDefaults cx).lineSep = .ok lines') :
    ed.wrapOpts cx width o =
      .ok (ed.withText (joinWith (o.withDefaults cx).lineSep lines' ++
        (if (o.withDefaults cx).lineSep.isSuffixOf ed.text then (o.withDefaults cx).lineSep
         else []))) := by
  have hmax : (if width < 2 then 2 else width) = max width 2 := by
    rw [Int.max_def]; split <;> split <;> omega
  unfold Editor.wrapOpts
  dsimp only
  rw [hpp, hmax]
  simp only [Bool.false_eq_true, if_false]
  rw [hw]
  show Except.ok _ = _
  have hj : (Block.mk lines' (o.withDefaults cx).lineSep false).join =
      joinWith (o.withDefaults cx).lineSep lines' := by
    unfold Block.join
    cases lines' with
    | nil => rfl
    | cons x t => simp only [List.isEmpty_cons, Bool.false_eq_true, if_false, List.append_nil]
  rw [hj]
  split <;> simp only [List.append_nil]

/-! ## 3. Justify, non-paragraph mode -/

/-- `JustifyOpts`, non-paragraph mode, `JustifyLastLine` set: every input line is replaced by its
justification, in order; one trailing empty line is appended exactly when the input's last line is
terminated (`trailing`) -/
theorem justifyOpts_all (ed : Editor α) (width : Int) (o : Options α) (J : List α → List α)
    (hpp : (o.withDefaults cx).preservePara = false)
    (hjl : (o.withDefaults cx).justifyLast = true)
    (hJ : ∀ l ∈ inLines cx ed o, justifyLine cx l width = .ok (J l)) :
    ed.justifyOpts cx width o =
      .ok (ed.withText (joinWith (o.withDefaults cx).lineSep
        ((inLines cx ed o).map J ++ trailing cx ed o))) := by
  unfold Editor.justifyOpts
  dsimp only
  rw [hpp, hjl]
  simp only [Bool.false_eq_true, if_false, Bool.not_true, pure_bind]
  rw [applyOptsM_withDefaults, applyOptsM_map cx ed _ J o hJ]
  rfl

namespace OpsStructure

/-- the lines before the last one, each with its terminator -/
def headText (sep : List α) (ls : List (List α)) : List α := ((ls.dropLast).map (· ++ sep)).flatten

theorem normRange_zero_neg_one (n : Nat) :
    Spec.normRange (n : Int) 0 (-1) = (0, ((n - 1 : Nat) : Int)) := by
  unfold Spec.normRange Spec.normPos Spec.normPosRaw
  have h0 : ((0 : Int) == Gen.endSentinel) = false := by decide
  have h1 : ((-1 : Int) == Gen.endSentinel) = false := by decide
  simp only [h0, h1, Bool.false_eq_true, if_false, Prod.mk.injEq]
  constructor
  · split <;> split <;> omega
  · split <;> split <;> split <;> omega

theorem bareLines_dropLast (t sep : List α) (nt : Bool) (hsep : sep ≠ []) :
    (Spec.bareLines t sep nt).dropLast =
        (splitOn t sep).take ((Spec.linePieces t sep nt).length - 1) ∧
      (Spec.linePieces t sep nt).length - 1 < (splitOn t sep).length := by
  have hne := splitOn_ne_nil' t sep hsep
  rw [Spec.linePieces_length' t sep nt hsep]
  unfold Spec.bareLines
  generalize splitOn t sep = parts at *
  have hpos : 0 < parts.length := List.length_pos_iff.mpr hne
  simp only
  split
  · simp only [List.dropLast_eq_take, List.take_take, List.length_take]
    refine ⟨?_, by omega⟩
    congr 1
    omega
  · simp only [List.dropLast_eq_take]
    exact ⟨trivial, by omega⟩

/-- `LinesTo(-1)`: everything before the last line, and what is left over -/
theorem selectLines_to_last (t sep : List α) (nt : Bool) (hsep : sep ≠ []) :
    Spec.selectLines t sep nt 0 (-1) =
        ([], headText sep (Spec.bareLines t sep nt),
          t.drop (headText sep (Spec.bareLines t sep nt)).length) ∧
      t = headText sep (Spec.bareLines t sep nt) ++
        t.drop (headText sep (Spec.bareLines t sep nt)).length := by
  have hfl := Spec.linePieces_flatten t sep nt hsep
  obtain ⟨hdl, hk⟩ := bareLines_dropLast t sep nt hsep
  have htk := linePieces_take t sep nt ((Spec.linePieces t sep nt).length - 1) (by omega)
  have hhead : headText sep (Spec.bareLines t sep nt) =
      ((Spec.linePieces t sep nt).take ((Spec.linePieces t sep nt).length - 1)).flatten := by
    unfold headText; rw [hdl, htk]
  rw [hhead]
  unfold Spec.selectLines
  dsimp only
  rw [normRange_zero_neg_one]
  generalize Spec.linePieces t sep nt = ps at *
  have hsplit : t = (ps.take (ps.length - 1)).flatten ++ (ps.drop (ps.length - 1)).flatten := by
    rw [← List.flatten_append, List.take_append_drop, hfl]
  have hdrop : t.drop ((ps.take (ps.length - 1)).flatten).length =
      (ps.drop (ps.length - 1)).flatten := by
    have := congrArg (fun x => x.drop ((ps.take (ps.length - 1)).flatten).length) hsplit
    simp only [List.drop_left] at this
    exact this
  simp only [Int.toNat_natCast, Int.toNat_zero, List.take_zero, List.drop_zero, Spec.joinL,
    Int.sub_zero, List.flatten_nil, hdrop]
  exact ⟨trivial, hsplit⟩

/-- the lines of the head text: the lines before the last one, plus an empty line that the
default policy hides again -/
theorem bareLines_headText (t sep : List α) (nt : Bool) (hsep : sep ≠ []) :
    Spec.bareLines (headText sep (Spec.bareLines t sep nt)) sep nt =
      if nt then (Spec.bareLines t sep nt).dropLast ++ [[]]
      else (Spec.bareLines t sep nt).dropLast := by
  obtain ⟨hdl, hk⟩ := bareLines_dropLast t sep nt hsep
  have hsp := splitOn_take_terminated sep hsep _ t hk
  unfold headText
  rw [hdl]
  generalize (splitOn t sep).take ((Spec.linePieces t sep nt).length - 1) = L at *
  unfold Spec.bareLines
  rw [hsp]
  cases nt <;> simp

/-- the pieces of the head text: the lines before the last one, plus an empty piece -/
theorem splitOn_headText (t sep : List α) (nt : Bool) (hsep : sep ≠ []) :
    splitOn (headText sep (Spec.bareLines t sep nt)) sep =
      (Spec.bareLines t sep nt).dropLast ++ [[]] := by
  obtain ⟨hdl, hk⟩ := bareLines_dropLast t sep nt hsep
  have hsp := splitOn_take_terminated sep hsep _ t hk
  unfold headText
  rw [hdl]
  exact hsp

theorem isSuffixOf_flatten_terminated (sep : List α) (L : List (List α)) (hL : L ≠ []) :
    sep.isSuffixOf ((L.map (· ++ sep)).flatten) = true := by
  rw [List.isSuffixOf_iff_suffix, eq_dropLast_append_getLastD L [] hL, List.map_append,
    List.flatten_append]
  simp only [List.map_cons, List.map_nil, List.flatten_cons, List.flatten_nil, List.append_nil]
  rw [← List.append_assoc]
  exact List.suffix_append _ _

omit [DecidableEq α] in
/-- what a 1:1 callback `g` makes of the head text (whose last line is always terminated) -/
theorem joinWith_head (sep : List α) (L : List (List α)) (nt : Bool)
    (g : List α → List α) (hg : nt = true → g [] = []) :
    joinWith sep ((if nt then L ++ [[]] else L).map g ++ (if !nt then [[]] else [])) =
      (L.map (fun l => g l ++ sep)).flatten := by
  cases nt with
  | true =>
    simp only [if_true, Bool.not_true, Bool.false_eq_true, if_false, List.append_nil,
      List.map_append, List.map_cons, List.map_nil, hg rfl]
    rw [joinWith_append_singleton, List.append_nil, List.map_map]
    rfl
  | false =>
    simp only [Bool.false_eq_true, if_false, Bool.not_false, if_true]
    rw [joinWith_append_singleton, List.append_nil, List.map_map]
    rfl

end OpsStructure

/-- `JustifyOpts`, non-paragraph mode, `JustifyLastLine` not set (the default): every line before
the last is replaced by its justification; the last line and whatever follows it are exactly the
characters of the input after the head; the result carries the receiver's options (it is the
receiver with a new text).  Holds for every editor (root or sub-editor). -/
theorem justifyOpts_notLast (hb : ∀ a, 0 < cx.blen a) (hd : cx.dLineSep ≠ []) (ed : Editor α)
    (width : Int) (o : Options α) (J : List α → List α)
    (hpp : (o.withDefaults cx).preservePara = false)
    (hjl : (o.withDefaults cx).justifyLast = false)
    (hJ : ∀ l ∈ (inLines cx ed o).dropLast, justifyLine cx l width = .ok (J l))
    (hnil : (o.withDefaults cx).noTrailing = true → justifyLine cx [] width = .ok []) :
    ed.justifyOpts cx width o =
        .ok (ed.withText
          ((((inLines cx ed o).dropLast).map (fun l => J l ++ (o.withDefaults cx).lineSep)).flatten ++
            ed.text.drop (headText (o.withDefaults cx).lineSep (inLines cx ed o)).length)) ∧
      ed.text = headText (o.withDefaults cx).lineSep (inLines cx ed o) ++
        ed.text.drop (headText (o.withDefaults cx).lineSep (inLines cx ed o)).length := by
  have hsep := withDefaults_lineSep_ne_nil cx hd o
  obtain ⟨hsel, htext⟩ := selectLines_to_last ed.text (o.withDefaults cx).lineSep
    (o.withDefaults cx).noTrailing hsep
  rw [← inLines_eq] at hsel htext
  refine ⟨?_, htext⟩
  -- the callback result on the lines of the head, `J` patched at the hidden empty line
  let J' : List α → List α :=
    fun l => if (o.withDefaults cx).noTrailing = true ∧ l = [] then [] else J l
  have hJ' : ∀ l ∈ (inLines cx ed o).dropLast, J' l = J l := by
    intro l hl
    by_cases h0 : (o.withDefaults cx).noTrailing = true ∧ l = []
    · obtain ⟨hnt, rfl⟩ := h0
      have h1 := hJ [] hl
      rw [hnil hnt] at h1
      simp only [J', hnt, and_self, if_true]
      exact Except.ok.inj h1
    · simp only [J', if_neg h0]
  have hJ'nil : (o.withDefaults cx).noTrailing = true → J' [] = [] := by
    intro hnt
    simp only [J', hnt, and_self, if_true]
  unfold Editor.justifyOpts
  dsimp only
  rw [hpp, hjl]
  simp only [Bool.false_eq_true, if_false, Bool.not_false, if_true]
  unfold Editor.linesTo
  rw [linesSel_eq_spec cx hb hd]
  simp only [Editor.withOpts_text, Editor.withOpts_opts, withDefaults_lineSep_idem, hsel]
  rw [ok_bind, applyOptsM_withDefaults]
  have hsH : splitOn (headText (o.withDefaults cx).lineSep (inLines cx ed o))
      (o.withDefaults cx).lineSep = (inLines cx ed o).dropLast ++ [[]] := by
    rw [inLines_eq]; exact splitOn_headText _ _ _ hsep
  generalize hL : (inLines cx ed o).dropLast = L at *
  have hH : headText (o.withDefaults cx).lineSep (inLines cx ed o) =
      (L.map (· ++ (o.withDefaults cx).lineSep)).flatten := by
    unfold headText; rw [hL]
  generalize hE1 : Editor.sub (headText (o.withDefaults cx).lineSep (inLines cx ed o))
    (o.withDefaults cx) (ed.withOpts (o.withDefaults cx)) (byteLen cx [] : Int)
    (byteLen cx ([] ++ headText (o.withDefaults cx).lineSep (inLines cx ed o)) : Int) = ed1
  have ht1 : ed1.text = headText (o.withDefaults cx).lineSep (inLines cx ed o) := by
    rw [← hE1]; rfl
  have hin : inLines cx ed1 o = if (o.withDefaults cx).noTrailing then L ++ [[]] else L := by
    rw [inLines_eq, ht1, inLines_eq, bareLines_headText _ _ _ hsep, ← inLines_eq, hL]
  have htr : trailing cx ed1 o = if !(o.withDefaults cx).noTrailing then [[]] else [] := by
    unfold trailing; rw [hin, ht1, hsH]
    cases (o.withDefaults cx).noTrailing <;> simp
  have hcb : ∀ l ∈ inLines cx ed1 o, justifyLine cx l width = .ok (J' l) := by
    intro l hl
    rw [hin] at hl
    have hmemL : ∀ l ∈ L, justifyLine cx l width = .ok (J' l) := by
      intro l hl; rw [hJ' l hl]; exact hJ l hl
    cases hnt : (o.withDefaults cx).noTrailing with
    | false =>
      rw [hnt] at hl
      exact hmemL l hl
    | true =>
      rw [hnt] at hl
      simp only [if_true, List.mem_append, List.mem_singleton] at hl
      rcases hl with hl | rfl
      · exact hmemL l hl
      · rw [hJ'nil hnt]; exact hnil hnt
  rw [applyOptsM_map cx ed1 _ J' o hcb, ok_bind, hin, htr,
    joinWith_head _ L _ J' hJ'nil]
  have hmap : L.map (fun l => J' l ++ (o.withDefaults cx).lineSep) =
      L.map (fun l => J l ++ (o.withDefaults cx).lineSep) :=
    List.map_congr_left (fun l hl => by rw [hJ' l hl])
  rw [hmap, ← hE1]
  generalize headText (o.withDefaults cx).lineSep (inLines cx ed o) = H at *
  generalize (L.map (fun l => J l ++ (o.withDefaults cx).lineSep)).flatten = T'
  have htk : (ed.withOpts (o.withDefaults cx)).text.take H.length = H := by
    rw [Editor.withOpts_text]
    have := congrArg (fun x => x.take H.length) htext
    simp only [List.take_left] at this
    exact this
  have hlen : H.length ≤ (ed.withOpts (o.withDefaults cx)).text.length := by
    rw [Editor.withOpts_text]
    have := congrArg List.length htext
    rw [List.length_append] at this
    omega
  have hc := Editor.commit_sub (cx := cx) hb T' (o.withDefaults cx)
    (ed.withOpts (o.withDefaults cx)) 0 H.length (Nat.zero_le _) hlen
  rw [htk, List.take_zero] at hc
  have hwt : ∀ a b : Int, (Editor.sub H (o.withDefaults cx) (ed.withOpts (o.withDefaults cx))
      a b).withText T' = Editor.sub T' (o.withDefaults cx) (ed.withOpts (o.withDefaults cx)) a b :=
    fun _ _ => rfl
  rw [hwt, List.nil_append, hc, ok_bind, Editor.withOpts_text, List.nil_append]
  show Except.ok _ = _
  rw [Editor.withOpts_withText_withOpts]

/-! ## line count and line contents of the result (unbordered separators) -/

namespace OpsStructure

theorem getLastD_mem {β : Type} (l : List β) (d : β) (h : l ≠ []) : l.getLastD d ∈ l := by
  have := eq_dropLast_append_getLastD l d h
  generalize l.getLastD d = x at this
  rw [this]
  simp only [List.mem_append, List.mem_singleton, or_true]

/-- the lines a callback sees plus the trailing empty line are exactly the pieces of
`strings.Split` (any separator: `trailing` is by definition "`linesSep` dropped a piece") -/
theorem inLines_append_trailing (ed : Editor α) (o : Options α) :
    inLines cx ed o ++ trailing cx ed o = splitOn ed.text (o.withDefaults cx).lineSep := by
  unfold trailing
  rw [inLines_eq]
  exact Spec.bareLines_append_trailing ed.text _ _

/-- `trailing` is `[[]]` or `[]` -/
theorem trailing_mem (ed : Editor α) (o : Options α) : ∀ p ∈ trailing cx ed o, p = [] := by
  intro p hp
  unfold trailing at hp
  split at hp
  · simpa using hp
  · simp at hp

/-- `trailing` in terms of the split: the last piece is empty (default policy) -/
theorem trailing_eq (ed : Editor α) (o : Options α) (hsep : (o.withDefaults cx).lineSep ≠ []) :
    trailing cx ed o =
      if !(o.withDefaults cx).noTrailing ∧
        (splitOn ed.text (o.withDefaults cx).lineSep).getLastD [] = [] then [[]] else [] := by
  unfold trailing
  rw [inLines_eq]
  have h := Spec.bareLines_length_lt_iff' ed.text _ (o.withDefaults cx).noTrailing hsep
  by_cases hc : (Spec.bareLines ed.text (o.withDefaults cx).lineSep
      (o.withDefaults cx).noTrailing).length < (splitOn ed.text (o.withDefaults cx).lineSep).length
  · obtain ⟨h1, h2⟩ := h.1 hc
    rw [if_pos ⟨by rw [h1]; rfl, hc⟩, if_pos ⟨by rw [h1]; rfl, h2⟩]
  · rw [if_neg (fun h' => hc h'.2), if_neg]
    rintro ⟨h1, h2⟩
    exact hc (h.2 ⟨by simpa using h1, h2⟩)

/-- for a separator without a proper border and a non-empty text, `trailing` is the old rule "the
text ends in the separator" -/
theorem trailing_eq_of_unbordered (ed : Editor α) (o : Options α)
    (hsep : (o.withDefaults cx).lineSep ≠ []) (hu : Unbordered (o.withDefaults cx).lineSep)
    (ht : ed.text ≠ []) :
    trailing cx ed o =
      if !(o.withDefaults cx).noTrailing ∧ (o.withDefaults cx).lineSep.isSuffixOf ed.text
      then [[]] else [] := by
  rw [trailing_eq cx ed o hsep]
  have := isSuffixOf_iff_getLastD_nil ed.text _ hsep hu ht
  by_cases hc : (!(o.withDefaults cx).noTrailing) = true ∧
      (splitOn ed.text (o.withDefaults cx).lineSep).getLastD [] = []
  · rw [if_pos hc, if_pos ⟨hc.1, this.2 hc.2⟩]
  · rw [if_neg hc, if_neg (fun h => hc ⟨h.1, this.1 h.2⟩)]

/-- the text is its lines joined by the separator, with the trailing separator if there is one -/
theorem text_eq_joinWith (ed : Editor α) (o : Options α)
    (hsep : (o.withDefaults cx).lineSep ≠ []) :
    ed.text = joinWith (o.withDefaults cx).lineSep (inLines cx ed o ++ trailing cx ed o) := by
  rw [inLines_append_trailing cx ed o]
  exact (joinWith_splitOn _ _ hsep).symm

/-- **one output line per input line**, list form: if the lines are replaced by as many strings
that do not contain the (unbordered) separator, `strings.Split` of the new text gives these
strings, in order, plus the trailing empty piece -/
theorem splitOn_replaced (ed : Editor α) (o : Options α) (ls' : List (List α))
    (hsep : (o.withDefaults cx).lineSep ≠ []) (hu : Unbordered (o.withDefaults cx).lineSep)
    (hlen : ls'.length = (inLines cx ed o).length)
    (hfree : ∀ p ∈ ls', indexOf (o.withDefaults cx).lineSep p = none) :
    splitOn (joinWith (o.withDefaults cx).lineSep (ls' ++ trailing cx ed o))
        (o.withDefaults cx).lineSep = ls' ++ trailing cx ed o := by
  have hat := inLines_append_trailing cx ed o
  have htr := trailing_mem cx ed o
  generalize (o.withDefaults cx).lineSep = sep at *
  generalize trailing cx ed o = tr at *
  generalize inLines cx ed o = ls at *
  have hne : ls' ++ tr ≠ [] := by
    intro h0
    have h1 := congrArg List.length h0
    have h2 := congrArg List.length hat
    have h3 := List.length_pos_iff.mpr (splitOn_ne_nil' ed.text sep hsep)
    simp only [List.length_append, List.length_nil] at h1 h2
    omega
  have hnone : ∀ p ∈ ls' ++ tr, indexOf sep p = none := by
    intro p hp
    rcases List.mem_append.1 hp with hp | hp
    · exact hfree p hp
    · rw [htr p hp]; exact indexOf_nil_of_ne_nil sep hsep
  apply splitOn_joinWith sep hsep _ hne
  · intro p hp
    exact sepFree_of_unbordered hsep hu p (hnone p (List.dropLast_subset _ hp))
  · exact hnone _ (getLastD_mem _ _ hne)

/-- … for a 1:1 callback `g` -/
theorem splitOn_mapped (ed : Editor α) (o : Options α) (g : List α → List α)
    (hsep : (o.withDefaults cx).lineSep ≠ []) (hu : Unbordered (o.withDefaults cx).lineSep)
    (hfree : ∀ l ∈ inLines cx ed o, indexOf (o.withDefaults cx).lineSep (g l) = none) :
    splitOn (joinWith (o.withDefaults cx).lineSep ((inLines cx ed o).map g ++ trailing cx ed o))
        (o.withDefaults cx).lineSep = (inLines cx ed o).map g ++ trailing cx ed o := by
  apply splitOn_replaced cx ed o _ hsep hu (List.length_map _)
  intro p hp
  obtain ⟨l, hl, rfl⟩ := List.mem_map.1 hp
  exact hfree l hl

end OpsStructure

/-- **line count / line contents** after the lines have been replaced one for one (general form,
used for Align and Justify below): same number of `strings.Split` pieces as the input, the `i`-th
piece is the replacement of the `i`-th input line, and the input lines are the first pieces of the
input -/
theorem replaced_lines (ed : Editor α) (o : Options α) (ls' : List (List α))
    (hsep : (o.withDefaults cx).lineSep ≠ []) (hu : Unbordered (o.withDefaults cx).lineSep)
    (hlen : ls'.length = (inLines cx ed o).length)
    (hfree : ∀ p ∈ ls', indexOf (o.withDefaults cx).lineSep p = none) :
    (splitOn (joinWith (o.withDefaults cx).lineSep (ls' ++ trailing cx ed o))
        (o.withDefaults cx).lineSep).length =
      (splitOn ed.text (o.withDefaults cx).lineSep).length ∧
    (∀ i, i < (inLines cx ed o).length →
      (splitOn (joinWith (o.withDefaults cx).lineSep (ls' ++ trailing cx ed o))
        (o.withDefaults cx).lineSep).getD i [] = ls'.getD i [] ∧
      (splitOn ed.text (o.withDefaults cx).lineSep).getD i [] = (inLines cx ed o).getD i []) := by
  have h1 := splitOn_replaced cx ed o ls' hsep hu hlen hfree
  have h2 := inLines_append_trailing cx ed o
  rw [h1, ← h2]
  refine ⟨by simp only [List.length_append, hlen], fun i hi => ?_⟩
  simp only [List.getD_eq_getElem?_getD]
  rw [List.getElem?_append_left (by rw [hlen]; exact hi), List.getElem?_append_left hi]
  exact ⟨rfl, rfl⟩

theorem mapped_lines (ed : Editor α) (o : Options α) (g : List α → List α)
    (hsep : (o.withDefaults cx).lineSep ≠ []) (hu : Unbordered (o.withDefaults cx).lineSep)
    (hfree : ∀ l ∈ inLines cx ed o, indexOf (o.withDefaults cx).lineSep (g l) = none) :
    (splitOn (joinWith (o.withDefaults cx).lineSep ((inLines cx ed o).map g ++ trailing cx ed o))
        (o.withDefaults cx).lineSep).length =
      (splitOn ed.text (o.withDefaults cx).lineSep).length ∧
    (∀ i, i < (inLines cx ed o).length →
      (splitOn (joinWith (o.withDefaults cx).lineSep
        ((inLines cx ed o).map g ++ trailing cx ed o)) (o.withDefaults cx).lineSep).getD i [] =
          g ((inLines cx ed o).getD i []) ∧
      (splitOn ed.text (o.withDefaults cx).lineSep).getD i [] = (inLines cx ed o).getD i []) := by
  have h := replaced_lines cx ed o ((inLines cx ed o).map g) hsep hu (List.length_map _) (by
    intro p hp
    obtain ⟨l, hl, rfl⟩ := List.mem_map.1 hp
    exact hfree l hl)
  refine ⟨h.1, fun i hi => ?_⟩
  obtain ⟨h3, h4⟩ := h.2 i hi
  refine ⟨?_, h4⟩
  rw [h3]
  simp only [List.getD_eq_getElem?_getD, List.getElem?_map, List.getElem?_eq_getElem hi,
    Option.map_some, Option.getD_some]

/-- the same in terms of the editor's own line list: the lines of the result (seen with the same
options) are the images of the input lines, in order — provided a non-empty LAST line is not
mapped to the empty string (an empty last piece is not counted as a line under the default
policy) -/
theorem inLines_mapped (ed : Editor α) (o : Options α) (g : List α → List α)
    (hsep : (o.withDefaults cx).lineSep ≠ []) (hu : Unbordered (o.withDefaults cx).lineSep)
    (hfree : ∀ l ∈ inLines cx ed o, indexOf (o.withDefaults cx).lineSep (g l) = none)
    (hne : ∀ l ∈ inLines cx ed o, l ≠ [] → g l ≠ []) :
    inLines cx (ed.withText (joinWith (o.withDefaults cx).lineSep
      ((inLines cx ed o).map g ++ trailing cx ed o))) o = (inLines cx ed o).map g := by
  have hsm := splitOn_mapped cx ed o g hsep hu hfree
  have hat := inLines_append_trailing cx ed o
  have hls := inLines_eq cx ed o
  have hpne := splitOn_ne_nil' ed.text _ hsep
  rw [inLines_eq, Editor.withText_text]
  unfold Spec.bareLines
  rw [hsm]
  unfold trailing at hat ⊢
  generalize (o.withDefaults cx).lineSep = sep at *
  generalize (o.withDefaults cx).noTrailing = nt at *
  generalize inLines cx ed o = ls at *
  by_cases htr : (!nt) = true ∧ ls.length < (splitOn ed.text sep).length
  · rw [if_pos htr]
    simp [htr.1]
  · rw [if_neg htr, List.append_nil] at hat ⊢
    cases nt with
    | true => simp
    | false =>
      -- the last piece of the input is a non-empty line, and so is its image
      have hlast : ls.getLastD [] ≠ [] := by
        intro h0
        rw [hat] at h0
        unfold Spec.bareLines at hls
        rw [hat] at hls
        simp only [Bool.not_false, Bool.true_and, h0, List.isEmpty_nil, if_true] at hls
        have := congrArg List.length hls
        have hpos := List.length_pos_iff.mpr hpne
        simp only [List.length_dropLast] at this
        omega
      have hlne : ls ≠ [] := by rw [hat]; exact hpne
      have hmem := getLastD_mem ls [] hlne
      have hgl : (ls.map g).getLastD [] = g (ls.getLastD []) := by
        have := eq_dropLast_append_getLastD ls [] hlne
        generalize ls.getLastD [] = x at this
        rw [this]
        simp
      have : (ls.map g).getLastD [] ≠ [] := by
        rw [hgl]; exact hne _ hmem hlast
      rw [if_neg]
      simp only [Bool.not_false, Bool.true_and, List.isEmpty_iff]
      exact this

/-! ### Align: line count, line contents -/

/-- **Align, line count**: if no aligned line contains the (unbordered) separator, the result has
as many `strings.Split` pieces as the input, the `i`-th one is the aligned `i`-th input line, and
the options are the receiver's -/
theorem alignOpts_lines (ed : Editor α) (align width : Int) (o : Options α)
    (hal : align = Gen.alignLeft ∨ align = Gen.alignRight ∨ align = Gen.alignCenter)
    (hpp : (o.withDefaults cx).preservePara = false)
    (hsep : (o.withDefaults cx).lineSep ≠ []) (hu : Unbordered (o.withDefaults cx).lineSep)
    (hfree : ∀ l ∈ inLines cx ed o,
      indexOf (o.withDefaults cx).lineSep (alignFn cx align l width) = none) :
    ∃ r, ed.alignOpts cx align width o = .ok r ∧ r.opts = ed.opts ∧
      (splitOn r.text (o.withDefaults cx).lineSep).length =
        (splitOn ed.text (o.withDefaults cx).lineSep).length ∧
      ∀ i, i < (inLines cx ed o).length →
        (splitOn r.text (o.withDefaults cx).lineSep).getD i [] =
          alignFn cx align ((inLines cx ed o).getD i []) width ∧
        (splitOn ed.text (o.withDefaults cx).lineSep).getD i [] = (inLines cx ed o).getD i [] := by
  refine ⟨_, alignOpts_structure cx ed align width o hal hpp, Editor.withText_opts _ _, ?_⟩
  rw [Editor.withText_text]
  exact mapped_lines cx ed o _ hsep hu hfree

/-- **Align, lines of the result** (the editor's own line list, same options) -/
theorem alignOpts_inLines (ed : Editor α) (align width : Int) (o : Options α)
    (hal : align = Gen.alignLeft ∨ align = Gen.alignRight ∨ align = Gen.alignCenter)
    (hpp : (o.withDefaults cx).preservePara = false)
    (hsep : (o.withDefaults cx).lineSep ≠ []) (hu : Unbordered (o.withDefaults cx).lineSep)
    (hfree : ∀ l ∈ inLines cx ed o,
      indexOf (o.withDefaults cx).lineSep (alignFn cx align l width) = none)
    (hne : ∀ l ∈ inLines cx ed o, l ≠ [] → alignFn cx align l width ≠ []) :
    ∃ r, ed.alignOpts cx align width o = .ok r ∧
      inLines cx r o = (inLines cx ed o).map (fun l => alignFn cx align l width) :=
  ⟨_, alignOpts_structure cx ed align width o hal hpp,
    inLines_mapped cx ed o _ hsep hu hfree hne⟩

/-! ### Justify (all lines): line count, line contents -/

theorem justifyOpts_all_lines (ed : Editor α) (width : Int) (o : Options α) (J : List α → List α)
    (hpp : (o.withDefaults cx).preservePara = false)
    (hjl : (o.withDefaults cx).justifyLast = true)
    (hJ : ∀ l ∈ inLines cx ed o, justifyLine cx l width = .ok (J l))
    (hsep : (o.withDefaults cx).lineSep ≠ []) (hu : Unbordered (o.withDefaults cx).lineSep)
    (hfree : ∀ l ∈ inLines cx ed o, indexOf (o.withDefaults cx).lineSep (J l) = none) :
    ∃ r, ed.justifyOpts cx width o = .ok r ∧ r.opts = ed.opts ∧
      (splitOn r.text (o.withDefaults cx).lineSep).length =
        (splitOn ed.text (o.withDefaults cx).lineSep).length ∧
      ∀ i, i < (inLines cx ed o).length →
        (splitOn r.text (o.withDefaults cx).lineSep).getD i [] = J ((inLines cx ed o).getD i []) ∧
        (splitOn ed.text (o.withDefaults cx).lineSep).getD i [] = (inLines cx ed o).getD i [] := by
  refine ⟨_, justifyOpts_all cx ed width o J hpp hjl hJ, Editor.withText_opts _ _, ?_⟩
  rw [Editor.withText_text]
  exact mapped_lines cx ed o _ hsep hu hfree

/-! ### Justify (all but the last line): closed form -/

namespace OpsStructure

omit [DecidableEq α] in
theorem joinWith_append (sep : List α) (A B : List (List α)) (hB : B ≠ []) :
    joinWith sep (A ++ B) = (A.map (· ++ sep)).flatten ++ joinWith sep B := by
  induction A with
  | nil => rfl
  | cons x t ih =>
    rw [List.cons_append, joinWith_cons_of_ne_nil sep x (by simp [hB]), ih]
    simp only [List.map_cons, List.flatten_cons, List.append_assoc]

/-- the lines with every line but the last replaced by its image under `g` -/
def mapInit (g : List α → List α) (ls : List (List α)) : List (List α) :=
  ls.dropLast.map g ++ ls.drop (ls.length - 1)

omit [DecidableEq α] in
theorem mapInit_length (g : List α → List α) (ls : List (List α)) :
    (mapInit g ls).length = ls.length := by
  unfold mapInit
  simp only [List.length_append, List.length_map, List.length_dropLast, List.length_drop]
  omega

omit [DecidableEq α] in
theorem dropLast_append_drop (ls : List (List α)) :
    ls.dropLast ++ ls.drop (ls.length - 1) = ls := by
  rw [List.dropLast_eq_take, List.take_append_drop]

end OpsStructure

/-- `JustifyOpts`, non-paragraph mode, `JustifyLastLine` not set, any separator: the closed
form — all lines but the last are justified, the last line is kept as it is, and the trailing
separator is kept -/
theorem justifyOpts_notLast_closed (hb : ∀ a, 0 < cx.blen a) (hd : cx.dLineSep ≠ [])
    (ed : Editor α) (width : Int) (o : Options α) (J : List α → List α)
    (hpp : (o.withDefaults cx).preservePara = false)
    (hjl : (o.withDefaults cx).justifyLast = false)
    (hJ : ∀ l ∈ (inLines cx ed o).dropLast, justifyLine cx l width = .ok (J l))
    (hnil : (o.withDefaults cx).noTrailing = true → justifyLine cx [] width = .ok []) :
    ed.justifyOpts cx width o =
      .ok (ed.withText (joinWith (o.withDefaults cx).lineSep
        (mapInit J (inLines cx ed o) ++ trailing cx ed o))) := by
  have hsep := withDefaults_lineSep_ne_nil cx hd o
  obtain ⟨h1, h2⟩ := justifyOpts_notLast cx hb hd ed width o J hpp hjl hJ hnil
  rw [h1]
  congr 2
  have ht := text_eq_joinWith cx ed o hsep
  unfold headText at h2 ⊢
  unfold mapInit
  generalize (o.withDefaults cx).lineSep = sep at *
  generalize inLines cx ed o = ls at *
  generalize trailing cx ed o = tr at *
  by_cases hB : ls.drop (ls.length - 1) ++ tr = []
  · obtain ⟨hB1, hB2⟩ := List.append_eq_nil_iff.1 hB
    have hl : ls = [] := by
      have := congrArg List.length hB1
      simp only [List.length_drop, List.length_nil] at this
      exact List.length_eq_zero_iff.1 (by omega)
    subst hl hB2
    rw [ht]
    rfl
  · rw [← dropLast_append_drop ls, List.append_assoc, joinWith_append sep _ _ hB] at ht
    rw [List.append_assoc, joinWith_append sep _ _ hB, List.map_map]
    congr 1
    have h3 := h2.symm.trans ht
    exact List.append_cancel_left h3

/-! ### Justify (all but the last line): line count, line contents -/

namespace OpsStructure

theorem indexOf_append_of_some (sep : List α) (X : List α) :
    ∀ (p : List α) (i : Nat), indexOf sep p = some i → indexOf sep (p ++ X) = some i
  | [], i, h => by
    unfold indexOf at h
    split at h
    · rename_i he
      have : sep = [] := by simpa using he
      subst this
      cases X with
      | nil => exact h
      | cons c t =>
        have : i = 0 := by simpa using h.symm
        subst this
        rfl
    · exact absurd h (by simp)
  | c :: p, i, h => by
    obtain ⟨-, hle⟩ := indexOf_some_spec sep (c :: p) i h
    rw [indexOf_cons] at h
    rw [List.cons_append, indexOf_cons, ← List.cons_append,
      isPrefixOf_append_long sep (c :: p) X (by omega)]
    split at h
    · rename_i hp; rw [if_pos hp]; exact h
    · rename_i hp
      rw [if_neg hp]
      rw [Option.map_eq_some_iff] at h
      obtain ⟨j, hj, rfl⟩ := h
      rw [indexOf_append_of_some sep X p j hj]
      rfl

theorem SepFree.indexOf_none {sep p : List α} (hsep : sep ≠ []) (h : SepFree sep p) :
    indexOf sep p = none := by
  cases hi : indexOf sep p with
  | none => rfl
  | some i =>
    obtain ⟨-, hle⟩ := indexOf_some_spec sep p i hi
    have := indexOf_append_of_some sep sep p i hi
    unfold SepFree at h
    rw [h] at this
    have hpos := List.length_pos_iff.mpr hsep
    simp only [Option.some.injEq] at this
    omega

/-- the pieces of `strings.Split`: no piece followed by the separator contains an earlier
occurrence, and the last piece does not contain the separator -/
theorem splitOn_pieces (sep : List α) (hsep : sep ≠ []) :
    ∀ (n : Nat) (t : List α), t.length ≤ n →
      (∀ p ∈ (splitOn t sep).dropLast, SepFree sep p) ∧
        indexOf sep ((splitOn t sep).getLastD []) = none
  | 0, t, hn => by
    have : t = [] := List.length_eq_zero_iff.1 (by omega)
    subst this
    rw [splitOn_nil sep hsep]
    exact ⟨fun p hp => by simp at hp, indexOf_nil_of_ne_nil sep hsep⟩
  | n + 1, t, hn => by
    cases hi : indexOf sep t with
    | none =>
      rw [splitOn_of_indexOf_none sep hsep t hi]
      exact ⟨fun p hp => by simp at hp, hi⟩
    | some i =>
      obtain ⟨hdec, hle⟩ := indexOf_some_spec sep t i hi
      have hlen : (t.take i).length = i := by rw [List.length_take]; omega
      have hfree : SepFree sep (t.take i) := by
        apply sepFree_of_indexOf_append hsep (X := t.drop (i + sep.length))
        rw [← hdec, hlen]; exact hi
      have hpos := List.length_pos_iff.mpr hsep
      obtain ⟨ih1, ih2⟩ := splitOn_pieces sep hsep n (t.drop (i + sep.length)) (by
        rw [List.length_drop]; omega)
      have hne := splitOn_ne_nil' (t.drop (i + sep.length)) sep hsep
      rw [splitOn_of_indexOf_some sep hsep t i hi]
      generalize splitOn (t.drop (i + sep.length)) sep = rest at *
      cases rest with
      | nil => exact absurd rfl hne
      | cons y u =>
        refine ⟨?_, by simpa [List.getLastD] using ih2⟩
        intro p hp
        rw [List.dropLast_cons_cons, List.mem_cons] at hp
        rcases hp with rfl | hp
        · exact hfree
        · exact ih1 p hp

theorem splitOn_piece_free (sep : List α) (hsep : sep ≠ []) (t : List α) :
    ∀ p ∈ splitOn t sep, indexOf sep p = none := by
  intro p hp
  obtain ⟨h1, h2⟩ := splitOn_pieces sep hsep t.length t (Nat.le_refl _)
  have hne := splitOn_ne_nil' t sep hsep
  rw [eq_dropLast_append_getLastD _ [] hne, List.mem_append, List.mem_singleton] at hp
  rcases hp with hp | rfl
  · exact (h1 p hp).indexOf_none hsep
  · exact h2

/-- no input line contains the separator -/
theorem inLines_free (ed : Editor α) (o : Options α) (hsep : (o.withDefaults cx).lineSep ≠ []) :
    ∀ l ∈ inLines cx ed o, indexOf (o.withDefaults cx).lineSep l = none := by
  intro l hl
  rw [inLines_eq] at hl
  unfold Spec.bareLines at hl
  dsimp only at hl
  apply splitOn_piece_free _ hsep ed.text
  split at hl
  · exact List.dropLast_subset _ hl
  · exact hl

omit [DecidableEq α] in
theorem mapInit_getD (g : List α → List α) (ls : List (List α)) (i : Nat) (hi : i < ls.length) :
    (mapInit g ls).getD i [] = if i + 1 < ls.length then g (ls.getD i []) else ls.getD i [] := by
  unfold mapInit
  simp only [List.getD_eq_getElem?_getD]
  split
  · rename_i h
    rw [List.getElem?_append_left (by simp only [List.length_map, List.length_dropLast]; omega),
      List.getElem?_map, List.dropLast_eq_take, List.getElem?_take_of_lt (by omega),
      List.getElem?_eq_getElem hi]
    rfl
  · rename_i h
    have : i = ls.length - 1 := by omega
    rw [List.getElem?_append_right (by simp only [List.length_map, List.length_dropLast]; omega)]
    simp only [List.length_map, List.length_dropLast, List.getElem?_drop]
    congr 2
    omega

end OpsStructure

/-- **Justify (default: last line left alone), line count and contents**: if no justified line
contains the (unbordered) separator, the result has as many `strings.Split` pieces as the input;
piece `i` is the justified `i`-th line for every line but the last, the last line is the input's
last line; the options are the receiver's -/
theorem justifyOpts_notLast_lines (hb : ∀ a, 0 < cx.blen a) (hd : cx.dLineSep ≠ [])
    (ed : Editor α) (width : Int) (o : Options α) (J : List α → List α)
    (hpp : (o.withDefaults cx).preservePara = false)
    (hjl : (o.withDefaults cx).justifyLast = false)
    (hJ : ∀ l ∈ (inLines cx ed o).dropLast, justifyLine cx l width = .ok (J l))
    (hnil : (o.withDefaults cx).noTrailing = true → justifyLine cx [] width = .ok [])
    (hu : Unbordered (o.withDefaults cx).lineSep)
    (hfree : ∀ l ∈ (inLines cx ed o).dropLast, indexOf (o.withDefaults cx).lineSep (J l) = none) :
    ∃ r, ed.justifyOpts cx width o = .ok r ∧ r.opts = ed.opts ∧
      (splitOn r.text (o.withDefaults cx).lineSep).length =
        (splitOn ed.text (o.withDefaults cx).lineSep).length ∧
      ∀ i, i < (inLines cx ed o).length →
        (splitOn r.text (o.withDefaults cx).lineSep).getD i [] =
          (if i + 1 < (inLines cx ed o).length then J ((inLines cx ed o).getD i [])
           else (inLines cx ed o).getD i []) ∧
        (splitOn ed.text (o.withDefaults cx).lineSep).getD i [] = (inLines cx ed o).getD i [] := by
  have hsep := withDefaults_lineSep_ne_nil cx hd o
  refine ⟨_, justifyOpts_notLast_closed cx hb hd ed width o J hpp hjl hJ hnil,
    Editor.withText_opts _ _, ?_⟩
  rw [Editor.withText_text]
  have h := replaced_lines cx ed o (mapInit J (inLines cx ed o)) hsep hu (mapInit_length _ _) (by
    intro p hp
    unfold mapInit at hp
    rcases List.mem_append.1 hp with hp | hp
    · obtain ⟨l, hl, rfl⟩ := List.mem_map.1 hp
      exact hfree l hl
    · exact inLines_free cx ed o hsep p (List.mem_of_mem_drop hp))
  refine ⟨h.1, fun i hi => ?_⟩
  obtain ⟨h3, h4⟩ := h.2 i hi
  exact ⟨h3.trans (mapInit_getD J _ i hi), h4⟩

/-! ## well-formed contexts: `justifyLine` / `wrapLines` never fail, no side conditions left -/

/-- the justified line as a total function (the line itself in the unreachable error case) -/
def OpsStructure.justified (l : List α) (w : Int) : List α :=
  match justifyLine cx l w with
  | .ok r => r
  | .error _ => l

theorem OpsStructure.justifyLine_eq_justified (hs : cx.Sane) (l : List α) (w : Int) :
    justifyLine cx l w = .ok (justified cx l w) := by
  obtain ⟨r, hr⟩ := justifyLine_total hs l w
  unfold justified
  rw [hr]

/-- the empty line is justified to the empty line -/
theorem OpsStructure.justifyLine_nil (hs : cx.Sane) (w : Int) :
    justifyLine cx ([] : List α) w = .ok [] := by
  have h0 : gLen cx ([] : List α) = 0 := gLen_nil hs
  have hc : collapseSpace cx ([] : List α) [cx.nl] = .ok [] := by
    unfold collapseSpace
    have : replaceAll ([] : List α) [cx.nl] [cx.sp] = [] := rfl
    simp only [List.isEmpty_cons, Bool.false_eq_true, if_false, this, List.length_nil]
    unfold setSpacesLoop
    rw [h0]
    rfl
  unfold justifyLine
  rw [hc, ok_bind, h0]
  dsimp only
  split
  · rfl
  · rfl

theorem justifyOpts_all_sane (hs : cx.Sane) (ed : Editor α) (width : Int) (o : Options α)
    (hpp : (o.withDefaults cx).preservePara = false)
    (hjl : (o.withDefaults cx).justifyLast = true) :
    ed.justifyOpts cx width o =
      .ok (ed.withText (joinWith (o.withDefaults cx).lineSep
        ((inLines cx ed o).map (fun l => justified cx l width) ++ trailing cx ed o))) :=
  justifyOpts_all cx ed width o _ hpp hjl (fun l _ => justifyLine_eq_justified cx hs l width)

theorem justifyOpts_notLast_sane (hs : cx.Sane) (hd : cx.dLineSep ≠ []) (ed : Editor α)
    (width : Int) (o : Options α)
    (hpp : (o.withDefaults cx).preservePara = false)
    (hjl : (o.withDefaults cx).justifyLast = false) :
    ed.justifyOpts cx width o =
        .ok (ed.withText
          ((((inLines cx ed o).dropLast).map
              (fun l => justified cx l width ++ (o.withDefaults cx).lineSep)).flatten ++
            ed.text.drop (headText (o.withDefaults cx).lineSep (inLines cx ed o)).length)) ∧
      ed.text = headText (o.withDefaults cx).lineSep (inLines cx ed o) ++
        ed.text.drop (headText (o.withDefaults cx).lineSep (inLines cx ed o)).length :=
  justifyOpts_notLast cx hs.blen hd ed width o _ hpp hjl
    (fun l _ => justifyLine_eq_justified cx hs l width) (fun _ => justifyLine_nil cx hs width)

theorem justifyOpts_notLast_closed_sane (hs : cx.Sane) (hd : cx.dLineSep ≠ []) (ed : Editor α)
    (width : Int) (o : Options α)
    (hpp : (o.withDefaults cx).preservePara = false)
    (hjl : (o.withDefaults cx).justifyLast = false) :
    ed.justifyOpts cx width o =
      .ok (ed.withText (joinWith (o.withDefaults cx).lineSep
        (mapInit (fun l => justified cx l width) (inLines cx ed o) ++ trailing cx ed o))) :=
  justifyOpts_notLast_closed cx hs.blen hd ed width o _ hpp hjl
    (fun l _ => justifyLine_eq_justified cx hs l width) (fun _ => justifyLine_nil cx hs width)

theorem wrapOpts_structure_sane (hs : cx.Sane) (ed : Editor α) (width : Int) (o : Options α)
    (hpp : (o.withDefaults cx).preservePara = false) :
    ∃ lines', wrapLines cx ed.text (max width 2) (o.withDefaults cx).lineSep = .ok lines' ∧
      ed.wrapOpts cx width o =
        .ok (ed.withText (joinWith (o.withDefaults cx).lineSep lines' ++
          (if (o.withDefaults cx).lineSep.isSuffixOf ed.text then (o.withDefaults cx).lineSep
           else []))) := by
  obtain ⟨lines', h⟩ := wrapLines_total hs ed.text (max width 2) (o.withDefaults cx).lineSep
  exact ⟨lines', h, wrapOpts_structure cx ed width o lines' hpp h⟩

/-! ## non-vacuity: the hypotheses are satisfiable and the conclusions say something

`testCtx` (LinesLemmas.lean): atoms are numbers, every atom is its own cluster and one byte,
"\n" is `0`, the space is `32`. -/

namespace OpsStructure

/-- " ab\nc d\ne\n": three lines and a trailing separator -/
def exRoot : Editor Nat := .root [32, 97, 98, 0, 99, 32, 100, 0, 101, 0] {}
/-- " ab\nc d\ne f" as a sub-editor (of "xx", cut at byte 1): three lines, no trailing separator,
and a last line that justification would change -/
def exSub : Editor Nat :=
  .sub [32, 97, 98, 0, 99, 32, 100, 0, 101, 32, 102] {} (.root [7, 7] {}) 1 1

theorem testCtx_sane : testCtx.Sane := sane_of_triv (cx := testCtx) (fun _ => rfl) (fun _ => Nat.one_pos)

example : inLines testCtx exRoot {} = [[32, 97, 98], [99, 32, 100], [101]] ∧
    trailing testCtx exRoot {} = [[]] := by decide
example : inLines testCtx exSub {} = [[32, 97, 98], [99, 32, 100], [101, 32, 102]] ∧
    trailing testCtx exSub {} = [] := by decide
example : Unbordered (({} : Options Nat).withDefaults testCtx).lineSep := by decide

/-- 1. `applyOptsM_structure`: a callback that fails outside the line range and returns two lines
per input line -/
example : exRoot.applyOptsM testCtx
      (fun i l => if i < 3 then .ok [l, [i + 10]] else .error .explicit) {} =
    .ok (exRoot.withText [32, 97, 98, 0, 10, 0, 99, 32, 100, 0, 11, 0, 101, 0, 12, 0]) := by
  rw [applyOptsM_structure testCtx exRoot _ {}
    (fun i => [(inLines testCtx exRoot {}).getD i [], [i + 10]]) (fun i hi => by
      have : (inLines testCtx exRoot {}).length = 3 := by decide
      rw [if_pos (by omega)])]
  congr 2

/-- 2. Align (left / right / center, width 4): three lines in, three lines out, trailing separator
kept -/
example : exRoot.alignOpts testCtx Gen.alignLeft 4 {} =
    .ok (exRoot.withText [97, 98, 32, 32, 0, 99, 32, 100, 32, 0, 101, 32, 32, 32, 0]) := by
  rw [alignOpts_left testCtx exRoot 4 {} (by decide)]
  congr 2
example : exRoot.alignOpts testCtx Gen.alignRight 4 {} =
    .ok (exRoot.withText [32, 32, 97, 98, 0, 32, 99, 32, 100, 0, 32, 32, 32, 101, 0]) := by
  rw [alignOpts_right testCtx exRoot 4 {} (by decide)]
  congr 2
example : exRoot.alignOpts testCtx Gen.alignCenter 4 {} =
    .ok (exRoot.withText [32, 97, 98, 32, 0, 32, 99, 32, 100, 0, 32, 32, 101, 32, 0]) := by
  rw [alignOpts_center testCtx exRoot 4 {} (by decide)]
  congr 2
/-- `None` and out-of-range values: unchanged, even in paragraph mode -/
example : exRoot.alignOpts testCtx Gen.alignNone 4 { preservePara := true } = .ok exRoot :=
  alignOpts_none testCtx exRoot _ 4 _ (.inl rfl)
example : exRoot.alignOpts testCtx 7 4 {} = .ok exRoot :=
  alignOpts_none testCtx exRoot _ 4 _ (.inr (by decide))
/-- the hypotheses of the line-count corollary hold here -/
example : ∀ l ∈ inLines testCtx exRoot {},
    indexOf (({} : Options Nat).withDefaults testCtx).lineSep
      (alignFn testCtx Gen.alignLeft l 4) = none := by decide
example : ∀ l ∈ inLines testCtx exRoot {}, l ≠ [] → alignFn testCtx Gen.alignLeft l 4 ≠ [] := by
  decide
/-- … and a non-empty last line CAN be aligned to nothing (width 0), which is why
`alignOpts_inLines` needs its last hypothesis: " " has one line, its left-aligned form none -/
example : inLines testCtx (.root [97, 0, 32] {}) {} = [[97], [32]] ∧
    ((Editor.root [97, 0, 32] {}).alignOpts testCtx Gen.alignLeft 0 {}).toOption.map
      (fun r => inLines testCtx r {}) = some [[97]] := by decide

/-- the line-list corollary applied -/
example : ∃ r, exRoot.alignOpts testCtx Gen.alignLeft 4 {} = .ok r ∧
    inLines testCtx r {} = [[97, 98, 32, 32], [99, 32, 100, 32], [101, 32, 32, 32]] := by
  obtain ⟨r, h1, h2⟩ := alignOpts_inLines testCtx exRoot Gen.alignLeft 4 {} (.inl rfl) (by decide)
    (by decide) (by decide) (by decide) (by decide)
  exact ⟨r, h1, h2.trans (by decide)⟩
/-- the former counterexample is gone: with the self-overlapping separator "77" the text "777" has
the two pieces "", "7" and NO trailing separator (the last line "7" is unterminated); aligning
reproduces "777" with its two pieces (the old rule gave "77777") -/
example : inLines testCtx (.root [7, 7, 7] {}) { lineSep := [7, 7] } = [[], [7]] ∧
    trailing testCtx (.root [7, 7, 7] {}) { lineSep := [7, 7] } = [] ∧
    (splitOn [7, 7, 7] [7, 7]).length = 2 ∧
    ((Editor.root [7, 7, 7] {}).alignOpts testCtx Gen.alignLeft 0 { lineSep := [7, 7] }).toOption.map
      (fun r => splitOn r.text [7, 7]) = some [[], [7]] := by decide
/-- `Unbordered` still cannot be dropped from the line-count corollaries (`splitOn_replaced`,
`alignOpts_lines`, …): with the separator "77" the text "7 777x" has the two pieces "7 ", "7x";
they are right-aligned (width 0) to "7", "7x", which do not contain "77", but the result "7777x"
has three pieces -/
example : inLines testCtx (.root [7, 32, 7, 7, 7, 120] {}) { lineSep := [7, 7] } =
      [[7, 32], [7, 120]] ∧
    (∀ l ∈ inLines testCtx (.root [7, 32, 7, 7, 7, 120] {}) { lineSep := [7, 7] },
      indexOf [7, 7] (alignFn testCtx Gen.alignRight l 0) = none) ∧
    (splitOn [7, 32, 7, 7, 7, 120] [7, 7]).length = 2 ∧
    ((Editor.root [7, 32, 7, 7, 7, 120] {}).alignOpts testCtx Gen.alignRight 0
      { lineSep := [7, 7] }).toOption.map
      (fun r => splitOn r.text [7, 7]) = some [[], [], [120]] := by decide

/-- 3. Justify, `JustifyLastLine` set, width 5, on the sub-editor: all three lines justified -/
example : exSub.justifyOpts testCtx 5 { justifyLast := true } =
    .ok (exSub.withText [32, 32, 32, 97, 98, 0, 99, 32, 32, 32, 100, 0, 101, 32, 32, 32, 102]) := by
  rw [justifyOpts_all_sane testCtx testCtx_sane exSub 5 _ (by decide) (by decide)]
  congr 2
/-- 3. Justify, default (last line left alone), on the sub-editor: "e f" is untouched, the result
is the receiver (same parent, same cut, same options) with the new text -/
example : exSub.justifyOpts testCtx 5 {} =
    .ok (exSub.withText [32, 32, 32, 97, 98, 0, 99, 32, 32, 32, 100, 0, 101, 32, 102]) := by
  rw [(justifyOpts_notLast_sane testCtx testCtx_sane (by decide) exSub 5 {} (by decide)
    (by decide)).1]
  congr 2
example : exSub.justifyOpts testCtx 5 {} =
    .ok (exSub.withText [32, 32, 32, 97, 98, 0, 99, 32, 32, 32, 100, 0, 101, 32, 102]) := by
  rw [justifyOpts_notLast_closed_sane testCtx testCtx_sane (by decide) exSub 5 {} (by decide)
    (by decide)]
  congr 2
/-- … with a trailing separator, and with the `NoTrailingLineSeparators` policy -/
example : exRoot.justifyOpts testCtx 5 {} =
    .ok (exRoot.withText [32, 32, 32, 97, 98, 0, 99, 32, 32, 32, 100, 0, 101, 0]) := by
  rw [justifyOpts_notLast_closed_sane testCtx testCtx_sane (by decide) exRoot 5 {} (by decide)
    (by decide)]
  congr 2
example : exRoot.justifyOpts testCtx 5 { noTrailing := true } =
    .ok (exRoot.withText [32, 32, 32, 97, 98, 0, 99, 32, 32, 32, 100, 0, 101, 0]) := by
  rw [justifyOpts_notLast_closed_sane testCtx testCtx_sane (by decide) exRoot 5 _ (by decide)
    (by decide)]
  congr 2

/-- 4. Wrap, width 3: the leading space goes, the trailing separator stays -/
example : exRoot.wrapOpts testCtx 3 {} =
    .ok (exRoot.withText [97, 98, 0, 99, 32, 100, 0, 101, 0]) := by
  rw [wrapOpts_structure testCtx exRoot 3 {} [[97, 98], [99, 32, 100], [101]] (by decide)
    (by rfl)]
  congr 2
example : exSub.wrapOpts testCtx 1 {} =
    .ok (exSub.withText [97, 98, 0, 99, 0, 100, 0, 101, 0, 102]) := by
  rw [wrapOpts_structure testCtx exSub 1 {} [[97, 98], [99], [100], [101], [102]] (by decide)
    (by rfl)]
  congr 2

end OpsStructure

end RosedVerif
