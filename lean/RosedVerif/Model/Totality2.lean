/-
Totality of the remaining editor-level operations of the model (task P16): for a well-formed
context (`Ctx.Sane`) `applyOptsM`/`applyParasM` with total callbacks, `wrapOpts`, `justifyOpts`,
`alignOpts`, `indentOpts`, `insertDefTableOpts` and `Editor.string` return normally
(`∃ r, op … = .ok r`): no modelled Go panic is reachable.
-/
import RosedVerif.Model.Totality
import RosedVerif.Model.OptionsLemmas
import RosedVerif.Model.ParaLemmas
import RosedVerif.Model.LinesLemmas
import RosedVerif.Model.Ops
namespace RosedVerif
set_option linter.unusedSectionVars false

/-! ## generic helpers -/

/-- `bind_total` carrying an invariant of the intermediate value -/
theorem bind_totalP {β γ : Type} {x : R β} {f : β → R γ} (P : β → Prop)
    (hx : ∃ a, x = .ok a ∧ P a) (hf : ∀ a, P a → ∃ r, f a = .ok r) :
    ∃ r, (x >>= f) = .ok r := by
  obtain ⟨a, ha, hp⟩ := hx
  obtain ⟨r, hr⟩ := hf a hp
  exact ⟨r, bind_ok.2 ⟨a, ha, hr⟩⟩

/-- a `List.mapM` over a function that is total everywhere is total (`mapM_total` of
`Totality.lean` is the membership-relative form) -/
theorem mapM_total_of_forall {β γ : Type} (f : β → R γ) (hf : ∀ x, ∃ r, f x = .ok r)
    (l : List β) : ∃ r, l.mapM f = .ok r :=
  mapM_total f l (fun x _ => hf x)

/-- a `List.foldlM` over a total step function is total -/
theorem foldlM_total {β γ : Type} (f : γ → β → R γ) (hf : ∀ acc x, ∃ r, f acc x = .ok r) :
    ∀ (l : List β) (init : γ), ∃ r, l.foldlM f init = .ok r
  | [], init => ⟨init, rfl⟩
  | x :: l, init => by
    rw [List.foldlM_cons]
    exact bind_total (hf init x) (fun a _ => foldlM_total f hf l a)

section ops
variable {α : Type} [DecidableEq α] {cx : Ctx α}

/-! ## 1. `applyOptsM` / `applyOpts` -/

/-- 1. `ApplyOpts` with a callback that never panics never panics -/
theorem applyOptsM_total (ed : Editor α) (op : Nat → List α → R (List (List α))) (o : Options α)
    (hop : ∀ i l, ∃ r, op i l = .ok r) : ∃ r, ed.applyOptsM cx op o = .ok r := by
  unfold Editor.applyOptsM
  dsimp only
  exact bind_total (mapM_total _ _ (fun i _ => hop _ _)) (fun _ _ => ⟨_, rfl⟩)

theorem applyOpts_total (ed : Editor α) (op : Nat → List α → List (List α)) (o : Options α) :
    ∃ r, ed.applyOpts cx op o = .ok r :=
  applyOptsM_total ed _ o (fun _ _ => ⟨_, rfl⟩)

/-! ## 2. `applyParasM` -/

/-- 2. `applyGParagraphsOpts` with a callback that never panics never panics -/
theorem applyParasM_total (ed : Editor α)
    (op : Nat → List α → List α → List α → R (List (List α))) (o : Options α)
    (hop : ∀ i p a b, ∃ r, op i p a b = .ok r) : ∃ r, ed.applyParasM cx op o = .ok r := by
  rw [applyParasM_eq_mapM]
  exact bind_total (mapM_total _ _ (fun c _ => hop _ _ _ _)) (fun _ _ => ⟨_, rfl⟩)

/-! ## 3. `WrapOpts` -/

/-- 3. `WrapOpts` is total (both branches) -/
theorem wrapOpts_total (hs : cx.Sane) (ed : Editor α) (w : Int) (o : Options α) :
    ∃ r, ed.wrapOpts cx w o = .ok r := by
  unfold Editor.wrapOpts
  dsimp only
  split
  · refine applyParasM_total ed _ _ (fun i p a b => ?_)
    exact bind_total (wrapLines_total hs _ _ _) (fun _ _ => ⟨_, rfl⟩)
  · exact bind_total (wrapLines_total hs _ _ _) (fun _ _ => ⟨_, rfl⟩)

/-! ## Block helpers -/

theorem Block.line_total (b : Block α) (pos : Int) (h0 : 0 ≤ pos) (h1 : pos < b.lines.length) :
    ∃ r, b.line pos = .ok r := by
  unfold Block.line
  rw [if_neg (by omega)]
  exact ⟨_, rfl⟩

theorem Block.set_total (b : Block α) (pos : Int) (c : List α) (h0 : 0 ≤ pos)
    (h1 : pos < b.lines.length) :
    ∃ r, b.set pos c = .ok r ∧ r.lines.length = b.lines.length := by
  unfold Block.set
  rw [if_neg (by omega)]
  exact ⟨_, rfl, by simp only [List.length_set]⟩

/-- `Block.Apply` with a 1:1 callback that never panics never panics, and keeps the number of
lines -/
theorem Block.mapLinesM_total (b : Block α) (f : Nat → List α → R (List α))
    (hf : ∀ i l, ∃ r, f i l = .ok r) :
    ∃ r, b.mapLinesM f = .ok r ∧ r.lines.length = b.lines.length := by
  obtain ⟨ls, hls⟩ := mapM_total (fun i => f i (b.lines.getD i [])) (List.range b.lines.length)
    (fun i _ => hf _ _)
  refine ⟨{ b with lines := ls }, ?_, ?_⟩
  · unfold Block.mapLinesM
    rw [hls]
    rfl
  · have := mapM_ok_length _ _ _ hls
    simp only [this, List.length_range]

/-- read line `idx`, write back a function of it, continue: total when `idx` is in range and the
continuation is total on blocks with the same number of lines -/
theorem Block.modLine_total {β : Type} (bl : Block α) (idx : Int) (h0 : 0 ≤ idx)
    (h1 : idx < bl.lines.length) (g : List α → List α) (k : Block α → R β)
    (hk : ∀ b : Block α, b.lines.length = bl.lines.length → ∃ r, k b = .ok r) :
    ∃ r, (do let l ← bl.line idx; let b ← bl.set idx (g l); k b) = .ok r := by
  refine bind_total (Block.line_total bl idx h0 h1) (fun l _ => ?_)
  exact bind_totalP (fun b => b.lines.length = bl.lines.length)
    (Block.set_total bl idx (g l) h0 h1) hk

theorem Block.lines_length_pos (b : Block α) (h : ¬ b.lines.isEmpty = true) :
    0 < b.lines.length := by
  cases hl : b.lines with
  | nil => rw [hl] at h; exact absurd rfl h
  | cons _ _ => simp only [List.length_cons]; omega

/-! ## 4. `JustifyOpts` -/

/-- 4. `JustifyOpts` is total (both branches) -/
theorem justifyOpts_total (hs : cx.Sane) (ed : Editor α) (w : Int) (o : Options α) :
    ∃ r, ed.justifyOpts cx w o = .ok r := by
  unfold Editor.justifyOpts
  dsimp only
  split
  · refine applyParasM_total ed _ _ (fun i p a b => ?_)
    refine bind_totalP (fun _ => True) ?_ (fun _ _ => ⟨_, rfl⟩)
    obtain ⟨r, hr, -⟩ := Block.mapLinesM_total
      (Block.new (gRepeat [cx.placeholder (o.withDefaults cx).lineSep] (gLen cx a) ++ p ++
          gRepeat [cx.placeholder (o.withDefaults cx).lineSep] (gLen cx b))
        (o.withDefaults cx).lineSep)
      (fun idx line =>
        if !(o.withDefaults cx).justifyLast ∧
            (idx : Int) == ((Block.new (gRepeat [cx.placeholder (o.withDefaults cx).lineSep] (gLen cx a) ++ p ++
              gRepeat [cx.placeholder (o.withDefaults cx).lineSep] (gLen cx b))
                (o.withDefaults cx).lineSep).lines.length : Int) - 1
        then pure line else justifyLine cx line w)
      (fun idx line => by
        split
        · exact ⟨_, rfl⟩
        · exact justifyLine_total hs _ _)
    exact ⟨r, hr, trivial⟩
  · have hcb : ∀ (i : Nat) (l : List α),
        ∃ r, (do pure [← justifyLine cx l w] : R (List (List α))) = .ok r :=
      fun i l => bind_total (justifyLine_total hs l w) (fun _ _ => ⟨_, rfl⟩)
    cases hjl : (o.withDefaults cx).justifyLast
    · simp only [Bool.not_false, if_true]
      obtain ⟨r1, h1, hcut⟩ := linesSel_total' hs (ed.withOpts (o.withDefaults cx)) 0 (-1)
      unfold Editor.linesTo
      rw [h1, ok_bind]
      obtain ⟨r2, h2⟩ := applyOptsM_total (cx := cx) r1
        (fun _ line => do pure [← justifyLine cx line w]) (o.withDefaults cx) hcb
      rw [h2, ok_bind]
      obtain ⟨t, rfl⟩ := applyOptsM_shape cx _ _ _ _ h2
      obtain ⟨r3, h3⟩ := (linesSel_commit_total hs _ _ _ _ h1 t).2
      rw [h3, ok_bind]
      exact ⟨_, rfl⟩
    · simp only [Bool.not_true, Bool.false_eq_true, if_false]
      rw [pure_bind]
      refine bind_total (applyOptsM_total ed _ _ hcb) (fun _ _ => ⟨_, rfl⟩)

/-! ## 5. `AlignOpts` -/

/-- the paragraph callback of `AlignOpts` (Left) never indexes its block out of range -/
theorem alignParaLeft_total (width : Int) (lineSep para pre suf : List α) :
    ∃ r, alignParaLeft cx width lineSep para pre suf = .ok r := by
  unfold alignParaLeft
  dsimp only
  generalize Block.new (para ++ gRepeat [cx.sp] (gLen cx suf)) lineSep = bl0
  split
  · exact ⟨_, rfl⟩
  · rename_i hne
    have hpos := Block.lines_length_pos bl0 hne
    refine Block.modLine_total bl0 0 (by omega) (by omega) _ _ (fun b1 h1 => ?_)
    refine bind_totalP (fun b => b.lines.length = bl0.lines.length) ?_ (fun b2 h2 => ?_)
    · obtain ⟨r, hr, hl⟩ := Block.mapLinesM_total b1 (fun _ l => pure (alignLeft cx l width))
        (fun _ _ => ⟨_, rfl⟩)
      exact ⟨r, hr, hl.trans h1⟩
    · split
      · refine Block.modLine_total b2 0 (by omega) (by omega) _ _ (fun b3 h3 => ?_)
        split
        · exact Block.modLine_total b3 _ (by omega) (by omega) _ _ (fun _ _ => ⟨_, rfl⟩)
        · exact ⟨_, rfl⟩
      · rw [pure_bind]
        split
        · exact Block.modLine_total b2 _ (by omega) (by omega) _ _ (fun _ _ => ⟨_, rfl⟩)
        · exact ⟨_, rfl⟩

/-- the paragraph callback of `AlignOpts` (Right) never indexes its block out of range -/
theorem alignParaRight_total (width : Int) (lineSep para pre suf : List α) :
    ∃ r, alignParaRight cx width lineSep para pre suf = .ok r := by
  unfold alignParaRight
  dsimp only
  generalize Block.new (gRepeat [cx.sp] (gLen cx pre) ++ para) lineSep = bl0
  split
  · exact ⟨_, rfl⟩
  · rename_i hne
    have hpos := Block.lines_length_pos bl0 hne
    refine Block.modLine_total bl0 _ (by omega) (by omega) _ _ (fun b1 h1 => ?_)
    refine bind_totalP (fun b => b.lines.length = bl0.lines.length) ?_ (fun b2 h2 => ?_)
    · obtain ⟨r, hr, hl⟩ := Block.mapLinesM_total b1 (fun _ l => pure (alignRight cx l width))
        (fun _ _ => ⟨_, rfl⟩)
      exact ⟨r, hr, hl.trans h1⟩
    · split
      · refine Block.modLine_total b2 0 (by omega) (by omega) _ _ (fun b3 h3 => ?_)
        split
        · exact Block.modLine_total b3 _ (by omega) (by omega) _ _ (fun _ _ => ⟨_, rfl⟩)
        · exact ⟨_, rfl⟩
      · rw [pure_bind]
        split
        · exact Block.modLine_total b2 _ (by omega) (by omega) _ _ (fun _ _ => ⟨_, rfl⟩)
        · exact ⟨_, rfl⟩

/-- the paragraph callback of `AlignOpts` (Center) never indexes its block out of range -/
theorem alignParaCenter_total (width : Int) (lineSep para pre suf : List α) :
    ∃ r, alignParaCenter cx width lineSep para pre suf = .ok r := by
  unfold alignParaCenter
  dsimp only
  generalize Block.new para lineSep = bl0
  split
  · exact ⟨_, rfl⟩
  · rename_i hne
    have hpos := Block.lines_length_pos bl0 hne
    refine bind_totalP (fun b => b.lines.length = bl0.lines.length)
      (Block.mapLinesM_total bl0 (fun _ l => pure (alignCenter cx l width)) (fun _ _ => ⟨_, rfl⟩))
      (fun b2 h2 => ?_)
    split
    · refine Block.modLine_total b2 0 (by omega) (by omega) _ _ (fun b3 h3 => ?_)
      split
      · exact Block.modLine_total b3 _ (by omega) (by omega) _ _ (fun _ _ => ⟨_, rfl⟩)
      · exact ⟨_, rfl⟩
    · rw [pure_bind]
      split
      · exact Block.modLine_total b2 _ (by omega) (by omega) _ _ (fun _ _ => ⟨_, rfl⟩)
      · exact ⟨_, rfl⟩

/-- 5. `AlignOpts` is total for every raw alignment value (both branches) -/
theorem alignOpts_total (ed : Editor α) (al w : Int) (o : Options α) :
    ∃ r, ed.alignOpts cx al w o = .ok r := by
  unfold Editor.alignOpts
  dsimp only
  split
  · exact ⟨_, rfl⟩
  · split
    · refine applyParasM_total ed _ _ (fun i p a b => ?_)
      split
      · exact bind_total (alignParaLeft_total _ _ _ _ _) (fun _ _ => ⟨_, rfl⟩)
      · split
        · exact bind_total (alignParaRight_total _ _ _ _ _) (fun _ _ => ⟨_, rfl⟩)
        · exact bind_total (alignParaCenter_total _ _ _ _ _) (fun _ _ => ⟨_, rfl⟩)
    · exact applyOpts_total ed _ _

/-! ## 8. `Editor.String` / `CommitAll` -/

/-- every link of the parent chain is a sub-editor cut at atom positions of its parent -/
inductive Editor.WellCut (cx : Ctx α) : Editor α → Prop
  | root (t : List α) (o : Options α) : Editor.WellCut cx (.root t o)
  | sub (t : List α) (o : Options α) (p : Editor α) (i j : Nat) : Editor.WellCut cx p →
      Editor.WellCut cx (.sub t o p (byteOff cx p.text i : Nat) (byteOff cx p.text j : Nat))

theorem Editor.WellCut.withText {ed : Editor α} (h : ed.WellCut cx) (t : List α) :
    (ed.withText t).WellCut cx := by
  cases h with
  | root _ o => exact .root t o
  | sub _ o p i j hp => exact .sub t o p i j hp

theorem Editor.WellCut.withOpts {ed : Editor α} (h : ed.WellCut cx) (o : Options α) :
    (ed.withOpts o).WellCut cx := by
  cases h with
  | root t _ => exact .root t o
  | sub t _ p i j hp => exact .sub t o p i j hp

theorem Editor.WellCut.of_cut {ed r : Editor α} (h : ed.WellCut cx) (hc : ed.CutAtAtoms cx r) :
    r.WellCut cx := by
  obtain ⟨t, i, j, rfl⟩ := hc
  exact .sub t _ ed i j h

theorem Editor.depth_withText (ed : Editor α) (t : List α) : (ed.withText t).depth = ed.depth := by
  cases ed <;> rfl

/-- committing a well-cut editor is total, the result is well-cut and one level shallower -/
theorem commit_total_wellCut (hs : cx.Sane) {ed : Editor α} (h : ed.WellCut cx) :
    ∃ r, ed.commit cx = .ok r ∧ r.WellCut cx ∧ r.depth = ed.depth - 1 := by
  cases h with
  | root t o => exact ⟨_, rfl, .root t o, rfl⟩
  | sub t o p i j hp =>
    obtain ⟨s, hs'⟩ := spliceBytes_byteOff hs p.text i j t
    refine ⟨p.withText s, ?_, hp.withText s, ?_⟩
    · simp only [Editor.commit, hs']
      rfl
    · simp only [Editor.depth_withText, Editor.depth, Nat.add_sub_cancel]

theorem commitAllFuel_total (hs : cx.Sane) : ∀ (n : Nat) (ed : Editor α), ed.WellCut cx →
    ed.depth ≤ n → ∃ r, commitAllFuel cx n ed = .ok r ∧ r.isSub = false
  | 0, ed, h, hd => by
    cases h with
    | root t o => exact ⟨_, rfl, rfl⟩
    | sub t o p i j hp => simp only [Editor.depth] at hd; omega
  | n + 1, ed, h, hd => by
    cases hsub : ed.isSub with
    | false =>
      refine ⟨ed, ?_, hsub⟩
      simp only [commitAllFuel, hsub, Bool.false_eq_true, if_false]
      rfl
    | true =>
      obtain ⟨r, hr, hw, hdep⟩ := commit_total_wellCut hs h
      obtain ⟨r', hr', hroot⟩ := commitAllFuel_total hs n r hw (by omega)
      refine ⟨r', ?_, hroot⟩
      simp only [commitAllFuel, hsub, if_true, hr]
      exact hr'

/-- `CommitAll` is total on well-cut editors (the fuel `depth` suffices) -/
theorem commitAll_total (hs : cx.Sane) {ed : Editor α} (h : ed.WellCut cx) :
    ∃ r, ed.commitAll cx = .ok r :=
  let ⟨r, hr, _⟩ := commitAllFuel_total hs ed.depth ed h (Nat.le_refl _); ⟨r, hr⟩

/-- 8. `String` is total on well-cut editors -/
theorem string_total (hs : cx.Sane) {ed : Editor α} (h : ed.WellCut cx) :
    ∃ s, ed.string cx = .ok s := by
  unfold Editor.string
  exact bind_total (commitAll_total hs h) (fun _ _ => ⟨_, rfl⟩)

/-- 8a. `String` of a root editor is its text -/
theorem string_root_ok (t : List α) (o : Options α) : (Editor.root t o).string cx = .ok t := rfl

/-- 8b. `String` of a sub-editor cut (at atom positions) from a root editor is total, whatever
its text and options have become in the meantime -/
theorem string_total_of_cut_root (hs : cx.Sane) (t : List α) (o : Options α) (r : Editor α)
    (h : (Editor.root t o).CutAtAtoms cx r) (t' : List α) (o' : Options α) :
    (∃ s, r.string cx = .ok s) ∧ ∃ s, ((r.withText t').withOpts o').string cx = .ok s :=
  have hw : r.WellCut cx := (Editor.WellCut.root t o).of_cut h
  ⟨string_total hs hw, string_total hs ((hw.withText t').withOpts o')⟩

/-- the operations that produce sub-editors keep the chain well-cut -/
theorem chars_wellCut (hs : cx.Sane) {ed r : Editor α} (h : ed.WellCut cx) (st en : Int)
    (hr : ed.chars cx st en = .ok r) : r.WellCut cx := by
  obtain ⟨r0, h0, hc⟩ := chars_total' hs ed st en
  rw [hr] at h0
  cases h0
  exact h.of_cut hc

theorem linesSel_wellCut (hs : cx.Sane) {ed r : Editor α} (h : ed.WellCut cx) (st en : Int)
    (hr : ed.linesSel cx st en = .ok r) : r.WellCut cx := by
  obtain ⟨r0, h0, hc⟩ := linesSel_total' hs ed st en
  rw [hr] at h0
  cases h0
  exact h.of_cut hc

theorem Editor.SameBut.wellCut {ed r : Editor α} (h : ed.SameBut r) (hw : ed.WellCut cx) :
    r.WellCut cx := by
  obtain ⟨t, rfl⟩ := h
  exact hw.withText t

/-! ## 6. `IndentOpts` -/

/-- 6. `IndentOpts` is total for every level (both branches) -/
theorem indentOpts_total (ed : Editor α) (lv : Int) (o : Options α) :
    ∃ r, ed.indentOpts cx lv o = .ok r := by
  unfold Editor.indentOpts
  split
  · exact ⟨_, rfl⟩
  · dsimp only
    refine bind_total (repeatStr_total _ _ (by omega)) (fun indent _ => ?_)
    split
    · refine applyParasM_total ed _ _ (fun i p a b => ?_)
      obtain ⟨e, he⟩ := applyOpts_total (cx := cx) (Editor.root p o)
        (fun (_ : Nat) (line : List α) => [indent ++ line]) o
      obtain ⟨t, rfl⟩ := applyOpts_shape cx _ _ _ _ he
      rw [he, ok_bind]
      exact ⟨_, rfl⟩
    · exact applyOpts_total ed _ _

/-! ## 7. `InsertDefinitionsTableOpts` -/

/-- 7. `InsertDefinitionsTableOpts` is total -/
theorem insertDefTableOpts_total (hs : cx.Sane) (ed : Editor α) (pos : Int)
    (defs : List (List α × List α)) (w : Int) (o : Options α) :
    ∃ r, ed.insertDefTableOpts cx pos defs w o = .ok r := by
  simp only [Editor.insertDefTableOpts_eq_core]
  unfold Editor.insertDefTableOptsCore
  dsimp only
  refine bind_total (foldlM_total _ (fun full item => ?_) defs []) (fun full _ => ?_)
  · split
    · refine bind_total (repeatStr_total _ _ (by omega)) (fun pad _ => ?_)
      refine bind_total (wrapLines_total hs _ _ _) (fun rc _ => ?_)
      refine bind_total (combineColumns_total cx _ _ 2 (by omega)) (fun comb _ => ?_)
      split <;> exact ⟨_, rfl⟩
    · rw [pure_bind]
      refine bind_total (wrapLines_total hs _ _ _) (fun rc _ => ?_)
      refine bind_total (combineColumns_total cx _ _ 2 (by omega)) (fun comb _ => ?_)
      split <;> exact ⟨_, rfl⟩
  · split
    · exact insert_total hs _ _ _
    · exact ⟨_, rfl⟩

end ops

/-! ## non-vacuity: the paragraph-mode callbacks on a concrete sane context (`cxBad_sane`) -/

example : ((Editor.root [1, 2, 0, 3, 10, 4, 5, 10, 10, 6, 0, 0, 7, 10] {}).alignOpts cxBad
      Gen.alignRight 8 { preservePara := true }).toOption.map Editor.text =
    some [0, 0, 0, 0, 1, 2, 0, 3, 10, 0, 0, 0, 0, 0, 0, 0, 4, 5, 10, 10,
      0, 0, 0, 0, 6, 0, 0, 7, 10] := by rfl

example : ((Editor.root [1, 2, 0, 3, 10, 4, 5, 10, 10, 6, 0, 0, 7, 10] {}).alignOpts cxBad
      Gen.alignCenter 8 { preservePara := true }).toOption.map Editor.text =
    some [0, 0, 1, 2, 0, 3, 0, 0, 10, 0, 0, 0, 0, 4, 5, 0, 0, 0, 10, 10,
      0, 0, 6, 0, 0, 7, 0, 0, 10] := by rfl

/-- a sub-editor of a sub-editor, edited, then `String`: both commits go through -/
example : (do
      let r ← (Editor.root [1, 2, 0, 3, 10, 4, 5, 10, 10, 6, 0, 0, 7, 10] {}).linesSel cxBad 1 2
      let r2 ← r.chars cxBad 0 1
      (r2.withText [42, 42]).string cxBad) =
    .ok [1, 2, 0, 3, 10, 42, 42, 10, 6, 0, 0, 7, 10] := by rfl

end RosedVerif
