/-
Property C03 at the level of the PUBLIC operations, on CODE POINTS: take two stable vocabularies
`V`, `V'` and a cluster-for-cluster substitution `g` from `V` into `V'` that keeps whitespace
clusters whitespace, fixes the space, the hyphen and the tokens of the line separator, and sends
no other token of `V` onto a separator token.  Then `WrapOpts`, `AlignOpts`, `CollapseSpaceOpts`
(non-paragraph mode) on the code points of a text and of its substituted text (real UAX #29
segmentation on both) give results that are the same substitution of one another; `CharCount` and
`LineCount` agree.
-/
import RosedVerif.Model.BridgeEditorOps
import RosedVerif.Spec.Naturality
namespace RosedVerif
set_option linter.unusedSectionVars false

namespace BridgeNatural
open BridgeWrap BridgeOps BridgeEditorOps OpsStructure

/-! ## 0. `strings.Split` / `Join` / `HasPrefix` / `HasSuffix` under a map on atoms -/

section generic
variable {α β : Type} [DecidableEq α] [DecidableEq β] (g : α → β)

/-- `g` does not identify an atom of `S` with a different atom of `l` -/
def SepInj (S l : List α) : Prop := ∀ s ∈ S, ∀ t ∈ l, g s = g t → s = t

theorem SepInj.tail {g : α → β} {S : List α} {c : α} {l : List α} (h : SepInj g S (c :: l)) :
    SepInj g S l := fun s hs t ht => h s hs t (List.mem_cons_of_mem _ ht)

theorem beq_map_of_inj {a b : α} (h : g a = g b → a = b) : (g a == g b) = (a == b) := by
  by_cases e : a = b
  · subst e; simp
  · have : g a ≠ g b := fun e' => e (h e')
    rw [beq_eq_false_iff_ne.2 this, beq_eq_false_iff_ne.2 e]

theorem isPrefixOf_map : ∀ (S l : List α), SepInj g S l →
    (S.map g).isPrefixOf (l.map g) = S.isPrefixOf l
  | [], _, _ => by simp
  | _ :: _, [], _ => by simp
  | a :: S, b :: l, h => by
    have h1 : (g a == g b) = (a == b) :=
      beq_map_of_inj g (h a List.mem_cons_self b List.mem_cons_self)
    have h2 := isPrefixOf_map S l
      (fun s hs t ht => h s (List.mem_cons_of_mem _ hs) t (List.mem_cons_of_mem _ ht))
    simp only [List.map_cons, List.isPrefixOf_cons_cons, h1, h2]

theorem isSuffixOf_map (S l : List α) (h : SepInj g S l) :
    (S.map g).isSuffixOf (l.map g) = S.isSuffixOf l := by
  unfold List.isSuffixOf
  rw [← List.map_reverse, ← List.map_reverse]
  exact isPrefixOf_map g _ _
    (fun s hs t ht => h s (List.mem_reverse.1 hs) t (List.mem_reverse.1 ht))

theorem splitOnAux_map (S : List α) : ∀ (l : List α) (skip : Nat) (cur : List α), SepInj g S l →
    splitOnAux (S.map g) (l.map g) skip (cur.map g) =
      (splitOnAux S l skip cur).map (List.map g)
  | [], _, cur, _ => by
    simp only [List.map_nil, splitOnAux, List.map_cons, List.map_reverse]
  | c :: t, skip + 1, cur, h => by
    rw [List.map_cons, splitOnAux, splitOnAux]
    exact splitOnAux_map S t skip cur h.tail
  | c :: t, 0, cur, h => by
    have hp : (S.map g).isPrefixOf (g c :: t.map g) = S.isPrefixOf (c :: t) := by
      rw [← List.map_cons]; exact isPrefixOf_map g S (c :: t) h
    rw [List.map_cons, splitOnAux, splitOnAux, hp]
    split
    · have ih := splitOnAux_map S t (S.length - 1) [] h.tail
      rw [List.map_nil] at ih
      rw [List.length_map, ih, List.map_cons, List.map_reverse]
    · have ih := splitOnAux_map S t 0 (c :: cur) h.tail
      rw [List.map_cons] at ih
      exact ih

/-- `strings.Split` commutes with a map on atoms that does not confuse separator atoms with
different atoms of the text -/
theorem splitOn_map (l S : List α) (h : SepInj g S l) :
    splitOn (l.map g) (S.map g) = (splitOn l S).map (List.map g) := by
  unfold splitOn
  cases S with
  | nil =>
    simp only [List.map_nil, List.isEmpty_nil, if_true, List.map_map]
    rfl
  | cons a S =>
    simp only [List.map_cons, List.isEmpty_cons, Bool.false_eq_true, if_false]
    have := splitOnAux_map g (a :: S) l 0 [] h
    simpa only [List.map_cons, List.map_nil] using this

omit [DecidableEq α] [DecidableEq β] in
/-- `strings.Join` commutes with any map on atoms -/
theorem joinWith_map (sep : List α) : ∀ (ls : List (List α)),
    (joinWith sep ls).map g = joinWith (sep.map g) (ls.map (List.map g))
  | [] => rfl
  | [x] => by simp only [List.map_cons, List.map_nil, joinWith_singleton]
  | x :: y :: t => by
    have ih := joinWith_map sep (y :: t)
    rw [List.map_cons] at ih
    rw [List.map_cons, List.map_cons, joinWith_cons_cons, joinWith_cons_cons, List.map_append,
      List.map_append, ih]

omit [DecidableEq α] [DecidableEq β] in
theorem getLastD_map_isEmpty (ls : List (List α)) :
    ((ls.map (List.map g)).getLastD []).isEmpty = (ls.getLastD []).isEmpty := by
  rw [List.getLastD_eq_getLast?, List.getLastD_eq_getLast?, List.getLast?_map]
  cases ls.getLast? with
  | none => rfl
  | some x => cases x <;> rfl

/-- the lines a callback sees -/
theorem bareLines_map (l S : List α) (nt : Bool) (h : SepInj g S l) :
    Spec.bareLines (l.map g) (S.map g) nt = (Spec.bareLines l S nt).map (List.map g) := by
  unfold Spec.bareLines
  dsimp only
  rw [splitOn_map g l S h, getLastD_map_isEmpty]
  split
  · rw [List.map_dropLast]
  · rfl

theorem replaceAll_map (l S new : List α) (h : SepInj g S l) :
    replaceAll (l.map g) (S.map g) (new.map g) = (replaceAll l S new).map g := by
  unfold replaceAll
  rw [splitOn_map g l S h, joinWith_map]

end generic

/-! ## 1. the substitution -/

/-- what the substitution `g` must do with the tokens of the line separator `S`: fix them, and
send no other token of `V` onto one of them (`inv` follows from injectivity of `g` on `V ∪ S`; it
is weaker) -/
structure SepFix (V : List (List Int)) (g : List Int → List Int) (S : List (List Int)) : Prop where
  fix : ∀ s ∈ S, g s = s
  inv : ∀ t ∈ V, g t ∈ S → t ∈ S

section sepfix
variable {V : List (List Int)} {g : List Int → List Int} {S : List (List Int)}

theorem SepFix.map_eq (h : SepFix V g S) : S.map g = S := by
  conv => rhs; rw [← List.map_id S]
  exact List.map_congr_left (fun s hs => h.fix s hs)

theorem SepFix.sepInj (h : SepFix V g S) {toks : List (List Int)} (ht : ∀ t ∈ toks, t ∈ V) :
    SepInj g S toks := by
  intro s hs t htm e
  rw [h.fix s hs] at e
  have hmem : t ∈ S := h.inv t (ht t htm) (e ▸ hs)
  rw [h.fix t hmem] at e
  exact e

theorem SepFix.splitOn (h : SepFix V g S) {toks : List (List Int)} (ht : ∀ t ∈ toks, t ∈ V) :
    splitOn (toks.map g) S = (splitOn toks S).map (List.map g) := by
  have := splitOn_map g toks S (h.sepInj ht)
  rwa [h.map_eq] at this

theorem SepFix.bareLines (h : SepFix V g S) {toks : List (List Int)} (ht : ∀ t ∈ toks, t ∈ V)
    (nt : Bool) :
    Spec.bareLines (toks.map g) S nt = (Spec.bareLines toks S nt).map (List.map g) := by
  have := bareLines_map g toks S nt (h.sepInj ht)
  rwa [h.map_eq] at this

theorem SepFix.isSuffixOf (h : SepFix V g S) {toks : List (List Int)} (ht : ∀ t ∈ toks, t ∈ V) :
    @List.isSuffixOf (List Int) instBEqOfDecidableEq S (toks.map g) =
      @List.isSuffixOf (List Int) instBEqOfDecidableEq S toks := by
  have := isSuffixOf_map g S toks (h.sepInj ht)
  rwa [h.map_eq] at this

theorem SepFix.replaceAll' (h : SepFix V g S) (hgsp : g [0x20] = [0x20]) {toks : List (List Int)}
    (ht : ∀ t ∈ toks, t ∈ V) :
    replaceAll' cxB (toks.map g) S = (replaceAll' cxB toks S).map g := by
  unfold RosedVerif.replaceAll'
  split
  · rfl
  · have := replaceAll_map g toks S [cxB.sp] (h.sepInj ht)
    rw [h.map_eq] at this
    rw [← this]
    show _ = replaceAll (toks.map g) S [g [0x20]]
    rw [hgsp]
    rfl

end sepfix

theorem over_map {V V' : List (List Int)} {g : List Int → List Int} (hg : ∀ t ∈ V, g t ∈ V')
    {toks : List (List Int)} (ht : ∀ t ∈ toks, t ∈ V) : ∀ t ∈ toks.map g, t ∈ V' := by
  intro t h
  obtain ⟨u, hu, rfl⟩ := List.mem_map.1 h
  exact hg u (ht u hu)


/-! ## 2. closed forms on code points -/

/-- the text `WrapOpts` (non-paragraph mode) produces on cluster tokens: the specification's greedy
lines joined by the separator, plus the separator again when the text ended with it -/
def wrapText (S toks : List (List Int)) (w : Int) : List (List Int) :=
  joinWith S (Spec.wrapLines tkB (max w 2).toNat (replaceAll' cxB toks S)) ++
    (if @List.isSuffixOf (List Int) instBEqOfDecidableEq S toks then S else [])

/-- the text `AlignOpts` (non-paragraph mode, a value in `Left..Center`) produces on cluster
tokens -/
def alignText (ed : Editor (List Int)) (align width : Int) (o : Options (List Int)) :
    List (List Int) :=
  joinWith (o.withDefaults cxB).lineSep
    ((inLines cxB ed o).map (specAlign align width) ++ trailing cxB ed o)

/-- the text `CollapseSpaceOpts` produces on cluster tokens -/
def collapseText (S toks : List (List Int)) : List (List Int) :=
  Spec.collapse tkB (replaceAll' cxB toks S)

section closed
variable {V : List (List Int)}

theorem wrapOpts_A_closed (hV : VocabStable V = true) (hsp : [0x20] ∈ V)
    (hspTail : ∀ t ∈ V, (0x20 : Int) ∉ t.tail) (toks : List (List Int)) (ht : ∀ t ∈ toks, t ∈ V)
    (w : Int) (o0 o : Options (List Int)) (hpp : o.preservePara = false)
    (hS : GoodSep V (o.withDefaults cxB).lineSep) :
    Editor.wrapOpts cxA (.root toks.flatten o0.flat) w o.flat =
      .ok (.root (wrapText (o.withDefaults cxB).lineSep toks w).flatten o0.flat) := by
  have h := wrapOpts_bridge_good hV hsp hspTail (.root toks o0) ht w o hpp hS
  rw [flat_root] at h
  rw [h, wrapOpts_B_closed _ w o hpp]
  rfl

theorem alignOpts_A_closed (hV : VocabStable V = true) (toks : List (List Int))
    (ht : ∀ t ∈ toks, t ∈ V) (align width : Int) (o0 o : Options (List Int))
    (hal : align = Gen.alignLeft ∨ align = Gen.alignRight ∨ align = Gen.alignCenter)
    (hpp : o.preservePara = false) (hS : GoodSep V (o.withDefaults cxB).lineSep) :
    Editor.alignOpts cxA (.root toks.flatten o0.flat) align width o.flat =
      .ok (.root (alignText (.root toks o0) align width o).flatten o0.flat) := by
  have h := alignOpts_bridge_closed hV (.root toks o0) ht align width o hal hpp hS
  rw [flat_root] at h
  rw [h]
  rfl

theorem collapseSpaceOpts_B_closed (ed : Editor (List Int)) (o : Options (List Int)) :
    Editor.collapseSpaceOpts cxB ed o =
      .ok (ed.withText (collapseText (o.withDefaults cxB).lineSep ed.text)) := by
  unfold Editor.collapseSpaceOpts
  dsimp only
  rw [collapseSpace_triv_all cxB cxB_triv cxB_sp_space]
  rfl

theorem collapseSpaceOpts_A_closed (hV : VocabStable V = true) (hsp : [0x20] ∈ V)
    (hspTail : ∀ t ∈ V, (0x20 : Int) ∉ t.tail) (toks : List (List Int)) (ht : ∀ t ∈ toks, t ∈ V)
    (o0 o : Options (List Int)) (hS : GoodSep V (o.withDefaults cxB).lineSep) :
    Editor.collapseSpaceOpts cxA (.root toks.flatten o0.flat) o.flat =
      .ok (.root (collapseText (o.withDefaults cxB).lineSep toks).flatten o0.flat) := by
  have h := collapseSpaceOpts_bridge_good hV hsp hspTail (.root toks o0) ht o hS
  rw [flat_root] at h
  rw [h, collapseSpaceOpts_B_closed]
  rfl

theorem lineCount_A_closed (hV : VocabStable V = true) (toks : List (List Int))
    (ht : ∀ t ∈ toks, t ∈ V) (o0 : Options (List Int))
    (hS : GoodSep V (o0.withDefaults cxB).lineSep) :
    Editor.lineCount cxA (.root toks.flatten o0.flat) =
      (Spec.bareLines toks (o0.withDefaults cxB).lineSep o0.noTrailing).length := by
  unfold Editor.lineCount Editor.lines
  rw [linesSep_eq_bareLines]
  show (Spec.bareLines toks.flatten (o0.flat.withDefaults cxA).lineSep o0.noTrailing).length = _
  rw [lineSep_flat_gen o0 hS.tok_ne, bareLines_bridge hV hS toks ht, List.length_map]

end closed

/-! ### the closed forms stay inside the vocabulary -/

section over
variable {V : List (List Int)} {S : List (List Int)}

theorem wrapText_over (hsp : [0x20] ∈ V) (hhy : [0x2D] ∈ V) (hSV : ∀ s ∈ S, s ∈ V)
    {toks : List (List Int)} (ht : ∀ t ∈ toks, t ∈ V) (w : Int) :
    ∀ t ∈ wrapText S toks w, t ∈ V := by
  intro t h
  unfold wrapText at h
  rcases List.mem_append.1 h with h | h
  · rcases joinWith_mem _ _ t h with h | ⟨l, hl, h⟩
    · exact hSV t h
    · exact wrapLines_spec_over hsp hhy _ _ (replaceAll'_over hsp toks ht S) l hl t h
  · split at h
    · exact hSV t h
    · cases h

theorem collapseText_over (hsp : [0x20] ∈ V) {toks : List (List Int)} (ht : ∀ t ∈ toks, t ∈ V) :
    ∀ t ∈ collapseText S toks, t ∈ V :=
  BridgeAlign.over_of_mem_or_sp hsp (replaceAll'_over hsp toks ht S) (collapse_mem tkB _)

theorem alignText_over (hsp : [0x20] ∈ V) (ed : Editor (List Int)) (ht : ∀ t ∈ ed.text, t ∈ V)
    (align width : Int) (o : Options (List Int))
    (hSV : ∀ s ∈ (o.withDefaults cxB).lineSep, s ∈ V) :
    ∀ t ∈ alignText ed align width o, t ∈ V := by
  intro t h
  unfold alignText at h
  rcases joinWith_mem _ _ t h with h | ⟨l, hl, h⟩
  · exact hSV t h
  · rcases List.mem_append.1 hl with hl | hl
    · obtain ⟨l0, hl0, rfl⟩ := List.mem_map.1 hl
      exact specAlign_over hsp align width (inLines_over ed ht o l0 hl0) t h
    · rw [trailing_mem cxB ed o l hl] at h
      cases h

end over

/-! ## 3. naturality of the closed forms -/

section natural
variable {V : List (List Int)} {g : List Int → List Int} {S : List (List Int)}

theorem wrapText_map (hmap : Spec.TokMap tkB tkB g) (h : SepFix V g S)
    {toks : List (List Int)} (ht : ∀ t ∈ toks, t ∈ V) (w : Int) :
    wrapText S (toks.map g) w = (wrapText S toks w).map g := by
  unfold wrapText
  rw [h.replaceAll' hmap.sp ht, Spec.wrapLines_map hmap, h.isSuffixOf ht, List.map_append,
    joinWith_map, h.map_eq]
  congr 1
  split
  · exact h.map_eq.symm
  · rfl

theorem collapseText_map (hmap : Spec.TokMap tkB tkB g) (h : SepFix V g S)
    {toks : List (List Int)} (ht : ∀ t ∈ toks, t ∈ V) :
    collapseText S (toks.map g) = (collapseText S toks).map g := by
  unfold collapseText
  rw [h.replaceAll' hmap.sp ht, Spec.collapse_map hmap]

theorem specAlign_map (hmap : Spec.TokMap tkB tkB g) (align w : Int) (l : List (List Int)) :
    specAlign align w (l.map g) = (specAlign align w l).map g := by
  unfold specAlign
  split
  · exact Spec.alignLeft_map hmap w l
  · split
    · exact Spec.alignRight_map hmap w l
    · exact Spec.alignCenter_map hmap w l

theorem inLines_map (o0 o : Options (List Int)) (h : SepFix V g (o.withDefaults cxB).lineSep)
    {toks : List (List Int)} (ht : ∀ t ∈ toks, t ∈ V) :
    inLines cxB (.root (toks.map g) o0) o = (inLines cxB (.root toks o0) o).map (List.map g) := by
  rw [inLines_eq, inLines_eq]
  exact h.bareLines ht _

theorem trailing_map (o0 o : Options (List Int)) (h : SepFix V g (o.withDefaults cxB).lineSep)
    {toks : List (List Int)} (ht : ∀ t ∈ toks, t ∈ V) :
    trailing cxB (.root (toks.map g) o0) o =
      (trailing cxB (.root toks o0) o).map (List.map g) := by
  have e1 := inLines_map o0 o h ht
  have e2 : (splitOn (Editor.root (toks.map g) o0).text (o.withDefaults cxB).lineSep).length =
      (splitOn (Editor.root toks o0).text (o.withDefaults cxB).lineSep).length := by
    show (splitOn (toks.map g) _).length = (splitOn toks _).length
    rw [h.splitOn ht, List.length_map]
  unfold trailing
  simp only [e1, e2, List.length_map]
  split <;> rfl

theorem alignText_map (hmap : Spec.TokMap tkB tkB g) (o0 o : Options (List Int))
    (h : SepFix V g (o.withDefaults cxB).lineSep) {toks : List (List Int)}
    (ht : ∀ t ∈ toks, t ∈ V) (align width : Int) :
    alignText (.root (toks.map g) o0) align width o =
      (alignText (.root toks o0) align width o).map g := by
  unfold alignText
  rw [inLines_map o0 o h ht, trailing_map o0 o h ht, joinWith_map, h.map_eq, List.map_append,
    List.map_map, List.map_map]
  congr 2
  apply List.map_congr_left
  intro l _
  exact specAlign_map hmap align width l

end natural
end BridgeNatural

open BridgeNatural BridgeWrap BridgeOps BridgeEditorOps OpsStructure

/-! ## 4. the statements -/

section statements
variable {V V' : List (List Int)}

/-- **B1.** `Editor.WrapOpts` (non-paragraph mode) on code points commutes with the
cluster-for-cluster substitution `g`: same breaks, same hyphens, same separators.  `o0` are the
options the editor carries, `o` the call options (the statement with `o0 = o` is the one asked
for).  `hinv` (no other token of `V` is sent onto a separator token) is what `strings.Split` and
`strings.HasSuffix` need under a non-injective `g`; it follows from injectivity of `g` on
`V ∪ sep` and is needed (`BridgeNatural.hinv_needed`). -/
theorem wrapOpts_natural (hV : VocabStable V = true) (hsp : [0x20] ∈ V)
    (hspTail : ∀ t ∈ V, (0x20 : Int) ∉ t.tail)
    (hV' : VocabStable V' = true) (hsp' : [0x20] ∈ V') (hspTail' : ∀ t ∈ V', (0x20 : Int) ∉ t.tail)
    (g : List Int → List Int) (hg : ∀ t ∈ V, g t ∈ V')
    (hws : ∀ t, cxB.isSpace (g t) = cxB.isSpace t) (hgsp : g [0x20] = [0x20])
    (hghy : g [0x2D] = [0x2D])
    (toks : List (List Int)) (ht : ∀ t ∈ toks, t ∈ V) (w : Int) (o0 o : Options (List Int))
    (hpp : o.preservePara = false)
    (hS : GoodSep V (o.withDefaults cxB).lineSep) (hS' : GoodSep V' (o.withDefaults cxB).lineSep)
    (hfix : ∀ s ∈ (o.withDefaults cxB).lineSep, g s = s)
    (hinv : ∀ t ∈ V, g t ∈ (o.withDefaults cxB).lineSep → t ∈ (o.withDefaults cxB).lineSep) :
    ∃ r : List (List Int),
      Editor.wrapOpts cxA (.root toks.flatten o0.flat) w o.flat = .ok (.root r.flatten o0.flat) ∧
      Editor.wrapOpts cxA (.root (toks.map g).flatten o0.flat) w o.flat =
        .ok (.root (r.map g).flatten o0.flat) := by
  have hmap : Spec.TokMap tkB tkB g := ⟨hws, hgsp, hghy⟩
  refine ⟨_, wrapOpts_A_closed hV hsp hspTail toks ht w o0 o hpp hS, ?_⟩
  rw [← wrapText_map hmap ⟨hfix, hinv⟩ ht]
  exact wrapOpts_A_closed hV' hsp' hspTail' _ (over_map hg ht) w o0 o hpp hS'

/-- B1, strengthened: the witness `r` IS the cluster list of the first result and `r.map g` IS the
cluster list of the second (real UAX #29 segmentation on both), i.e. the clusters of the two
results are the same substitution of one another.  Needs the separator tokens and the hyphen in
`V`. -/
theorem wrapOpts_natural_clusters (hV : VocabStable V = true) (hsp : [0x20] ∈ V)
    (hhy : [0x2D] ∈ V) (hspTail : ∀ t ∈ V, (0x20 : Int) ∉ t.tail)
    (hV' : VocabStable V' = true) (hsp' : [0x20] ∈ V') (hspTail' : ∀ t ∈ V', (0x20 : Int) ∉ t.tail)
    (g : List Int → List Int) (hg : ∀ t ∈ V, g t ∈ V')
    (hws : ∀ t, cxB.isSpace (g t) = cxB.isSpace t) (hgsp : g [0x20] = [0x20])
    (hghy : g [0x2D] = [0x2D])
    (toks : List (List Int)) (ht : ∀ t ∈ toks, t ∈ V) (w : Int) (o0 o : Options (List Int))
    (hpp : o.preservePara = false)
    (hS : GoodSep V (o.withDefaults cxB).lineSep) (hS' : GoodSep V' (o.withDefaults cxB).lineSep)
    (hSV : ∀ s ∈ (o.withDefaults cxB).lineSep, s ∈ V)
    (hfix : ∀ s ∈ (o.withDefaults cxB).lineSep, g s = s)
    (hinv : ∀ t ∈ V, g t ∈ (o.withDefaults cxB).lineSep → t ∈ (o.withDefaults cxB).lineSep) :
    ∃ r : List (List Int),
      Editor.wrapOpts cxA (.root toks.flatten o0.flat) w o.flat = .ok (.root r.flatten o0.flat) ∧
      Editor.wrapOpts cxA (.root (toks.map g).flatten o0.flat) w o.flat =
        .ok (.root (r.map g).flatten o0.flat) ∧
      clusters cxA r.flatten = r ∧ clusters cxA (r.map g).flatten = r.map g ∧
      r = wrapText (o.withDefaults cxB).lineSep toks w := by
  have hmap : Spec.TokMap tkB tkB g := ⟨hws, hgsp, hghy⟩
  have h2 := wrapOpts_A_closed hV' hsp' hspTail' _ (over_map hg ht) w o0 o hpp hS'
  rw [wrapText_map hmap ⟨hfix, hinv⟩ ht] at h2
  have hov := wrapText_over hsp hhy hSV ht w
  exact ⟨_, wrapOpts_A_closed hV hsp hspTail toks ht w o0 o hpp hS, h2,
    clusters_flatten_stable _ (stableRunes_of_vocab V hV _ hov),
    clusters_flatten_stable _ (stableRunes_of_vocab V' hV' _ (over_map hg hov)), rfl⟩

/-- **B2 (AlignOpts).** every value of `align` (`Left`, `Right`, `Center`; for `None` and values
outside the range nothing happens on either side), non-paragraph mode -/
theorem alignOpts_natural (hV : VocabStable V = true) (hV' : VocabStable V' = true)
    (g : List Int → List Int) (hg : ∀ t ∈ V, g t ∈ V')
    (hws : ∀ t, cxB.isSpace (g t) = cxB.isSpace t) (hgsp : g [0x20] = [0x20])
    (hghy : g [0x2D] = [0x2D])
    (toks : List (List Int)) (ht : ∀ t ∈ toks, t ∈ V) (align width : Int)
    (o0 o : Options (List Int)) (hpp : o.preservePara = false)
    (hS : GoodSep V (o.withDefaults cxB).lineSep) (hS' : GoodSep V' (o.withDefaults cxB).lineSep)
    (hfix : ∀ s ∈ (o.withDefaults cxB).lineSep, g s = s)
    (hinv : ∀ t ∈ V, g t ∈ (o.withDefaults cxB).lineSep → t ∈ (o.withDefaults cxB).lineSep) :
    ∃ r : List (List Int),
      Editor.alignOpts cxA (.root toks.flatten o0.flat) align width o.flat =
        .ok (.root r.flatten o0.flat) ∧
      Editor.alignOpts cxA (.root (toks.map g).flatten o0.flat) align width o.flat =
        .ok (.root (r.map g).flatten o0.flat) := by
  have hmap : Spec.TokMap tkB tkB g := ⟨hws, hgsp, hghy⟩
  by_cases hal : align = Gen.alignLeft ∨ align = Gen.alignRight ∨ align = Gen.alignCenter
  · refine ⟨_, alignOpts_A_closed hV toks ht align width o0 o hal hpp hS, ?_⟩
    rw [← alignText_map hmap o0 o ⟨hfix, hinv⟩ ht]
    exact alignOpts_A_closed hV' _ (over_map hg ht) align width o0 o hal hpp hS'
  · have hal' : align = Gen.alignNone ∨
        (align ≠ Gen.alignLeft ∧ align ≠ Gen.alignRight ∧ align ≠ Gen.alignCenter) :=
      Or.inr ⟨fun h => hal (.inl h), fun h => hal (.inr (.inl h)), fun h => hal (.inr (.inr h))⟩
    exact ⟨toks, alignOpts_bridge_none (.root toks o0) align width o hal',
      alignOpts_bridge_none (.root (toks.map g) o0) align width o hal'⟩

/-- **B2 (CollapseSpaceOpts).** -/
theorem collapseSpaceOpts_natural (hV : VocabStable V = true) (hsp : [0x20] ∈ V)
    (hspTail : ∀ t ∈ V, (0x20 : Int) ∉ t.tail)
    (hV' : VocabStable V' = true) (hsp' : [0x20] ∈ V') (hspTail' : ∀ t ∈ V', (0x20 : Int) ∉ t.tail)
    (g : List Int → List Int) (hg : ∀ t ∈ V, g t ∈ V')
    (hws : ∀ t, cxB.isSpace (g t) = cxB.isSpace t) (hgsp : g [0x20] = [0x20])
    (hghy : g [0x2D] = [0x2D])
    (toks : List (List Int)) (ht : ∀ t ∈ toks, t ∈ V) (o0 o : Options (List Int))
    (hS : GoodSep V (o.withDefaults cxB).lineSep) (hS' : GoodSep V' (o.withDefaults cxB).lineSep)
    (hfix : ∀ s ∈ (o.withDefaults cxB).lineSep, g s = s)
    (hinv : ∀ t ∈ V, g t ∈ (o.withDefaults cxB).lineSep → t ∈ (o.withDefaults cxB).lineSep) :
    ∃ r : List (List Int),
      Editor.collapseSpaceOpts cxA (.root toks.flatten o0.flat) o.flat =
        .ok (.root r.flatten o0.flat) ∧
      Editor.collapseSpaceOpts cxA (.root (toks.map g).flatten o0.flat) o.flat =
        .ok (.root (r.map g).flatten o0.flat) := by
  have hmap : Spec.TokMap tkB tkB g := ⟨hws, hgsp, hghy⟩
  refine ⟨_, collapseSpaceOpts_A_closed hV hsp hspTail toks ht o0 o hS, ?_⟩
  rw [← collapseText_map hmap ⟨hfix, hinv⟩ ht]
  exact collapseSpaceOpts_A_closed hV' hsp' hspTail' _ (over_map hg ht) o0 o hS'

/-- B2 (AlignOpts), strengthened: `r` and `r.map g` are the cluster lists of the two results -/
theorem alignOpts_natural_clusters (hV : VocabStable V = true) (hsp : [0x20] ∈ V)
    (hV' : VocabStable V' = true)
    (g : List Int → List Int) (hg : ∀ t ∈ V, g t ∈ V')
    (hws : ∀ t, cxB.isSpace (g t) = cxB.isSpace t) (hgsp : g [0x20] = [0x20])
    (hghy : g [0x2D] = [0x2D])
    (toks : List (List Int)) (ht : ∀ t ∈ toks, t ∈ V) (align width : Int)
    (o0 o : Options (List Int))
    (hal : align = Gen.alignLeft ∨ align = Gen.alignRight ∨ align = Gen.alignCenter)
    (hpp : o.preservePara = false)
    (hS : GoodSep V (o.withDefaults cxB).lineSep) (hS' : GoodSep V' (o.withDefaults cxB).lineSep)
    (hSV : ∀ s ∈ (o.withDefaults cxB).lineSep, s ∈ V)
    (hfix : ∀ s ∈ (o.withDefaults cxB).lineSep, g s = s)
    (hinv : ∀ t ∈ V, g t ∈ (o.withDefaults cxB).lineSep → t ∈ (o.withDefaults cxB).lineSep) :
    ∃ r : List (List Int),
      Editor.alignOpts cxA (.root toks.flatten o0.flat) align width o.flat =
        .ok (.root r.flatten o0.flat) ∧
      Editor.alignOpts cxA (.root (toks.map g).flatten o0.flat) align width o.flat =
        .ok (.root (r.map g).flatten o0.flat) ∧
      clusters cxA r.flatten = r ∧ clusters cxA (r.map g).flatten = r.map g ∧
      r = alignText (.root toks o0) align width o := by
  have hmap : Spec.TokMap tkB tkB g := ⟨hws, hgsp, hghy⟩
  have h2 := alignOpts_A_closed hV' _ (over_map hg ht) align width o0 o hal hpp hS'
  rw [alignText_map hmap o0 o ⟨hfix, hinv⟩ ht] at h2
  have hov := alignText_over hsp (.root toks o0) ht align width o hSV
  exact ⟨_, alignOpts_A_closed hV toks ht align width o0 o hal hpp hS, h2,
    clusters_flatten_stable _ (stableRunes_of_vocab V hV _ hov),
    clusters_flatten_stable _ (stableRunes_of_vocab V' hV' _ (over_map hg hov)), rfl⟩

/-- B2 (CollapseSpaceOpts), strengthened: `r` and `r.map g` are the cluster lists of the two
results -/
theorem collapseSpaceOpts_natural_clusters (hV : VocabStable V = true) (hsp : [0x20] ∈ V)
    (hspTail : ∀ t ∈ V, (0x20 : Int) ∉ t.tail)
    (hV' : VocabStable V' = true) (hsp' : [0x20] ∈ V') (hspTail' : ∀ t ∈ V', (0x20 : Int) ∉ t.tail)
    (g : List Int → List Int) (hg : ∀ t ∈ V, g t ∈ V')
    (hws : ∀ t, cxB.isSpace (g t) = cxB.isSpace t) (hgsp : g [0x20] = [0x20])
    (hghy : g [0x2D] = [0x2D])
    (toks : List (List Int)) (ht : ∀ t ∈ toks, t ∈ V) (o0 o : Options (List Int))
    (hS : GoodSep V (o.withDefaults cxB).lineSep) (hS' : GoodSep V' (o.withDefaults cxB).lineSep)
    (hfix : ∀ s ∈ (o.withDefaults cxB).lineSep, g s = s)
    (hinv : ∀ t ∈ V, g t ∈ (o.withDefaults cxB).lineSep → t ∈ (o.withDefaults cxB).lineSep) :
    ∃ r : List (List Int),
      Editor.collapseSpaceOpts cxA (.root toks.flatten o0.flat) o.flat =
        .ok (.root r.flatten o0.flat) ∧
      Editor.collapseSpaceOpts cxA (.root (toks.map g).flatten o0.flat) o.flat =
        .ok (.root (r.map g).flatten o0.flat) ∧
      clusters cxA r.flatten = r ∧ clusters cxA (r.map g).flatten = r.map g ∧
      r = collapseText (o.withDefaults cxB).lineSep toks := by
  have hmap : Spec.TokMap tkB tkB g := ⟨hws, hgsp, hghy⟩
  have h2 := collapseSpaceOpts_A_closed hV' hsp' hspTail' _ (over_map hg ht) o0 o hS'
  rw [collapseText_map hmap ⟨hfix, hinv⟩ ht] at h2
  have hov := collapseText_over (S := (o.withDefaults cxB).lineSep) hsp ht
  exact ⟨_, collapseSpaceOpts_A_closed hV hsp hspTail toks ht o0 o hS, h2,
    clusters_flatten_stable _ (stableRunes_of_vocab V hV _ hov),
    clusters_flatten_stable _ (stableRunes_of_vocab V' hV' _ (over_map hg hov)), rfl⟩

/-- **B3 (CharCount).** the number of user-perceived characters is the number of tokens, on both
sides (no hypothesis on `g` beyond `V → V'`) -/
theorem charCount_natural (hV : VocabStable V = true) (hV' : VocabStable V' = true)
    (g : List Int → List Int) (hg : ∀ t ∈ V, g t ∈ V')
    (toks : List (List Int)) (ht : ∀ t ∈ toks, t ∈ V) (o0 o0' : Options Int) :
    Editor.charCount cxA (.root (toks.map g).flatten o0') = toks.length ∧
      Editor.charCount cxA (.root toks.flatten o0) = toks.length := by
  constructor
  · show gLen cxA (toks.map g).flatten = _
    rw [gLen_flatten_stable _ (stableRunes_of_vocab V' hV' _ (over_map hg ht)), List.length_map]
  · exact gLen_flatten_stable _ (stableRunes_of_vocab V hV _ ht)

/-- **B3 (LineCount).** `LineCount` reads the editor's own options `o0`; its separator must be
good for both vocabularies, fixed by `g`, and not hit from outside -/
theorem lineCount_natural (hV : VocabStable V = true) (hV' : VocabStable V' = true)
    (g : List Int → List Int) (hg : ∀ t ∈ V, g t ∈ V')
    (toks : List (List Int)) (ht : ∀ t ∈ toks, t ∈ V) (o0 : Options (List Int))
    (hS : GoodSep V (o0.withDefaults cxB).lineSep) (hS' : GoodSep V' (o0.withDefaults cxB).lineSep)
    (hfix : ∀ s ∈ (o0.withDefaults cxB).lineSep, g s = s)
    (hinv : ∀ t ∈ V, g t ∈ (o0.withDefaults cxB).lineSep → t ∈ (o0.withDefaults cxB).lineSep) :
    Editor.lineCount cxA (.root (toks.map g).flatten o0.flat) =
        Editor.lineCount cxA (.root toks.flatten o0.flat) ∧
      Editor.lineCount cxA (.root toks.flatten o0.flat) =
        (Spec.bareLines toks (o0.withDefaults cxB).lineSep o0.noTrailing).length := by
  have h : SepFix V g (o0.withDefaults cxB).lineSep := ⟨hfix, hinv⟩
  rw [lineCount_A_closed hV toks ht o0 hS, lineCount_A_closed hV' _ (over_map hg ht) o0 hS',
    h.bareLines ht, List.length_map]
  exact ⟨rfl, rfl⟩

end statements

/-! ## 5. a concrete instance, and necessity of `hinv` -/

namespace BridgeNatural

/-- the target vocabulary: `é` precomposed, no flag -/
def demoVocabNFC : List (List Int) :=
  [[0x61], [0x62], [0x20], [0x2D], [0xE9], [0x9], [0x0A]]

theorem demoVocabNFC_stable : VocabStable demoVocabNFC = true := by decide +kernel

/-- a NON-injective substitution from `BridgeOps.demoVocab3` into `demoVocabNFC`: `e` + combining
acute ↦ precomposed `é` (two code points ↦ one), the flag 🇩🇪 ↦ `a` (so the flag and `a` are
identified), everything else fixed -/
def demoG (t : List Int) : List Int :=
  if t = [0x65, 0x301] then [0xE9] else if t = [0x1F1E9, 0x1F1EA] then [0x61] else t

theorem demoG_ws : ∀ t, cxB.isSpace (demoG t) = cxB.isSpace t := by
  intro t
  unfold demoG
  split
  · rename_i h; subst h; decide
  · split
    · rename_i h; subst h; decide
    · rfl

/-- all hypotheses hold for `demoVocab3 → demoVocabNFC`, `demoG`, the default call options (line
separator U+000A): for EVERY text over `demoVocab3`, every width and alignment, every options
value `o0` carried by the editor -/
example (toks : List (List Int)) (ht : ∀ t ∈ toks, t ∈ BridgeOps.demoVocab3) (w align : Int)
    (o0 : Options (List Int)) :
    (∃ r : List (List Int),
      Editor.wrapOpts cxA (.root toks.flatten o0.flat) w {} = .ok (.root r.flatten o0.flat) ∧
      Editor.wrapOpts cxA (.root (toks.map demoG).flatten o0.flat) w {} =
        .ok (.root (r.map demoG).flatten o0.flat) ∧
      clusters cxA r.flatten = r ∧ clusters cxA (r.map demoG).flatten = r.map demoG) ∧
    (∃ r : List (List Int),
      Editor.alignOpts cxA (.root toks.flatten o0.flat) align w {} =
        .ok (.root r.flatten o0.flat) ∧
      Editor.alignOpts cxA (.root (toks.map demoG).flatten o0.flat) align w {} =
        .ok (.root (r.map demoG).flatten o0.flat)) ∧
    (∃ r : List (List Int),
      Editor.collapseSpaceOpts cxA (.root toks.flatten o0.flat) {} =
        .ok (.root r.flatten o0.flat) ∧
      Editor.collapseSpaceOpts cxA (.root (toks.map demoG).flatten o0.flat) {} =
        .ok (.root (r.map demoG).flatten o0.flat)) := by
  have hS : GoodSep BridgeOps.demoVocab3 (({} : Options (List Int)).withDefaults cxB).lineSep := by
    rw [default_lineSep_B]; exact demo3_good_nl
  have hS' : GoodSep demoVocabNFC (({} : Options (List Int)).withDefaults cxB).lineSep := by
    rw [default_lineSep_B]; exact goodSep_rune demoVocabNFC_stable (by decide)
  have hg : ∀ t ∈ BridgeOps.demoVocab3, demoG t ∈ demoVocabNFC := by decide
  have hSV : ∀ s ∈ (({} : Options (List Int)).withDefaults cxB).lineSep,
      s ∈ BridgeOps.demoVocab3 := by rw [default_lineSep_B]; decide
  have hfix : ∀ s ∈ (({} : Options (List Int)).withDefaults cxB).lineSep, demoG s = s := by
    rw [default_lineSep_B]; decide
  have hinv : ∀ t ∈ BridgeOps.demoVocab3,
      demoG t ∈ (({} : Options (List Int)).withDefaults cxB).lineSep →
        t ∈ (({} : Options (List Int)).withDefaults cxB).lineSep := by
    rw [default_lineSep_B]; decide
  have hspT' : ∀ t ∈ demoVocabNFC, (0x20 : Int) ∉ t.tail := by decide
  refine ⟨?_, ?_, ?_⟩
  · obtain ⟨r, h1, h2, h3, h4, -⟩ := wrapOpts_natural_clusters BridgeOps.demoVocab3_stable
      BridgeOps.demoVocab3_sp BridgeOps.demoVocab3_hy BridgeOps.demoVocab3_spTail
      demoVocabNFC_stable (by decide) hspT' demoG hg demoG_ws rfl rfl toks ht w o0 {} rfl hS hS'
      hSV hfix hinv
    exact ⟨r, h1, h2, h3, h4⟩
  · exact alignOpts_natural BridgeOps.demoVocab3_stable demoVocabNFC_stable demoG hg demoG_ws rfl
      rfl toks ht align w o0 {} rfl hS hS' hfix hinv
  · exact collapseSpaceOpts_natural BridgeOps.demoVocab3_stable BridgeOps.demoVocab3_sp
      BridgeOps.demoVocab3_spTail demoVocabNFC_stable (by decide) hspT' demoG hg demoG_ws rfl rfl
      toks ht o0 {} hS hS' hfix hinv

/-- fully evaluated: "a é\n" (decomposed) and its image "a é\n" (precomposed), wrapped at 2 -/
example :
    (Editor.wrapOpts cxA (.root ([[0x61], [0x20], [0x65, 0x301], [0x0A]] : List (List Int)).flatten
      {}) 2 {}).map Editor.text = .ok [0x61, 0x0A, 0x65, 0x301, 0x0A] ∧
    (Editor.wrapOpts cxA (.root (([[0x61], [0x20], [0x65, 0x301], [0x0A]] :
      List (List Int)).map demoG).flatten {}) 2 {}).map Editor.text =
        .ok [0x61, 0x0A, 0xE9, 0x0A] :=
  ⟨of_okEq (by decide +kernel), of_okEq (by decide +kernel)⟩

/-! ### `hinv` is needed -/

/-- a stable vocabulary with two different whitespace controls: line feed and vertical tab -/
def cexVocab : List (List Int) := [[0x61], [0x20], [0x2D], [0x0A], [0x0B]]

/-- vertical tab ↦ line feed, everything else fixed: whitespace-preserving, fixes the space, the
hyphen and the separator token `"\n"`, but sends ANOTHER token onto the separator token -/
def cexG (t : List Int) : List Int := if t = [0x0B] then [0x0A] else t

theorem cexG_ws : ∀ t, cxB.isSpace (cexG t) = cxB.isSpace t := by
  intro t
  unfold cexG
  split
  · rename_i h; subst h; decide
  · rfl

theorem cexG_map_eq (r : List (List Int)) (h : (0x0B : Int) ∉ r.flatten) : r.map cexG = r := by
  conv => rhs; rw [← List.map_id r]
  apply List.map_congr_left
  intro t ht
  unfold cexG
  rw [if_neg]
  · rfl
  · rintro rfl
    exact h (List.mem_flatten.2 ⟨_, ht, List.mem_cons_self⟩)

/-- without `hinv` the statement B1 is FALSE: every other hypothesis of `wrapOpts_natural` holds
(`V' = V`, default options), yet "a\v" wraps to "a" while its image "a\n" wraps to "a\n" (the
trailing separator is kept), and no `r` fits both -/
theorem hinv_needed :
    VocabStable cexVocab = true ∧ [0x20] ∈ cexVocab ∧ (∀ t ∈ cexVocab, (0x20 : Int) ∉ t.tail) ∧
    (∀ t ∈ cexVocab, cexG t ∈ cexVocab) ∧ (∀ t, cxB.isSpace (cexG t) = cxB.isSpace t) ∧
    cexG [0x20] = [0x20] ∧ cexG [0x2D] = [0x2D] ∧
    GoodSep cexVocab (({} : Options (List Int)).withDefaults cxB).lineSep ∧
    (∀ s ∈ (({} : Options (List Int)).withDefaults cxB).lineSep, cexG s = s) ∧
    (∀ t ∈ ([[0x61], [0x0B]] : List (List Int)), t ∈ cexVocab) ∧
    ¬ ∃ r : List (List Int),
      Editor.wrapOpts cxA (.root ([[0x61], [0x0B]] : List (List Int)).flatten
        ({} : Options (List Int)).flat) 10 ({} : Options (List Int)).flat =
          .ok (.root r.flatten ({} : Options (List Int)).flat) ∧
      Editor.wrapOpts cxA (.root (([[0x61], [0x0B]] : List (List Int)).map cexG).flatten
        ({} : Options (List Int)).flat) 10 ({} : Options (List Int)).flat =
          .ok (.root (r.map cexG).flatten ({} : Options (List Int)).flat) := by
  have hst : VocabStable cexVocab = true := by decide +kernel
  refine ⟨hst, by decide, by decide, by decide, cexG_ws, rfl, rfl, ?_, ?_, by decide, ?_⟩
  · rw [default_lineSep_B]; exact goodSep_rune hst (by decide)
  · rw [default_lineSep_B]; decide
  · rintro ⟨r, h1, h2⟩
    have e1 : (Editor.wrapOpts cxA (.root ([[0x61], [0x0B]] : List (List Int)).flatten
        ({} : Options (List Int)).flat) 10 ({} : Options (List Int)).flat).map Editor.text =
        .ok [0x61] := of_okEq (by decide +kernel)
    have e2 : (Editor.wrapOpts cxA (.root (([[0x61], [0x0B]] : List (List Int)).map cexG).flatten
        ({} : Options (List Int)).flat) 10 ({} : Options (List Int)).flat).map Editor.text =
        .ok [0x61, 0x0A] := of_okEq (by decide +kernel)
    rw [h1] at e1
    rw [h2] at e2
    have f1 : r.flatten = [0x61] := Except.ok.inj e1
    have f2 : (r.map cexG).flatten = [0x61, 0x0A] := Except.ok.inj e2
    rw [cexG_map_eq r (by rw [f1]; decide), f1] at f2
    exact absurd f2 (by decide)

end BridgeNatural

end RosedVerif
