/-
Options: defaults are idempotent, and every `XOpts` operation depends on its options only
through their defaulted form.
-/
import RosedVerif.Model.Ops
namespace RosedVerif

/-! ## 1, 2: `withDefaults` -/
section
variable {α : Type} (cx : Ctx α)

/-- the built-in default separators / indent are non-empty -/
def DefaultsOk (cx : Ctx α) : Prop := cx.dLineSep ≠ [] ∧ cx.dIndent ≠ [] ∧ cx.dParaSep ≠ []

/-- the first three steps of `withDefaults` (everything but the charset) -/
def Options.sepDefaults (o : Options α) : Options α :=
  { o with
    lineSep := if o.lineSep.isEmpty then cx.dLineSep else o.lineSep
    indentStr := if o.indentStr.isEmpty then cx.dIndent else o.indentStr
    paraSep := if o.paraSep.isEmpty then cx.dParaSep else o.paraSep }

theorem withDefaults_eq (o : Options α) :
    o.withDefaults cx =
      if gLen cx o.charset != gLen cx cx.dCharset then
        if gLen cx o.charset < gLen cx cx.dCharset then
          { o.sepDefaults cx with
            charset := o.charset ++ gSub cx cx.dCharset
              ((gLen cx cx.dCharset : Int) - ((gLen cx cx.dCharset : Int) - gLen cx o.charset))
              (gLen cx cx.dCharset) }
        else { o.sepDefaults cx with charset := gSub cx o.charset 0 (gLen cx cx.dCharset) }
      else o.sepDefaults cx := by
  unfold Options.withDefaults Options.sepDefaults
  cases o with
  | mk i l nt p pp jl b h c =>
    by_cases h1 : l.isEmpty <;> by_cases h2 : i.isEmpty <;> by_cases h3 : p.isEmpty <;>
      simp only [h1, h2, h3, if_true, if_false, Bool.false_eq_true]

/-- Item 2: the non-charset fields of the defaulted options. -/
theorem withDefaults_fields (o : Options α) :
    (o.withDefaults cx).lineSep = (if o.lineSep.isEmpty then cx.dLineSep else o.lineSep) ∧
    (o.withDefaults cx).indentStr = (if o.indentStr.isEmpty then cx.dIndent else o.indentStr) ∧
    (o.withDefaults cx).paraSep = (if o.paraSep.isEmpty then cx.dParaSep else o.paraSep) ∧
    (o.withDefaults cx).noTrailing = o.noTrailing ∧
    (o.withDefaults cx).preservePara = o.preservePara ∧
    (o.withDefaults cx).justifyLast = o.justifyLast ∧
    (o.withDefaults cx).borders = o.borders ∧
    (o.withDefaults cx).headers = o.headers := by
  rw [withDefaults_eq]
  split
  · split <;> simp only [Options.sepDefaults, and_self]
  · simp only [Options.sepDefaults, and_self]

theorem withDefaults_preservePara (o : Options α) :
    (o.withDefaults cx).preservePara = o.preservePara :=
  (withDefaults_fields cx o).2.2.2.2.1

/-- the separator part of the defaults is idempotent on an already defaulted value
(this needs no assumption on the defaults) -/
theorem sepDefaults_withDefaults (o : Options α) :
    (o.withDefaults cx).sepDefaults cx = o.withDefaults cx := by
  obtain ⟨h1, h2, h3, -⟩ := withDefaults_fields cx o
  generalize o.withDefaults cx = o' at *
  cases o' with
  | mk i l nt p pp jl b h c =>
    simp only at h1 h2 h3
    subst h1 h2 h3
    simp only [Options.sepDefaults, Options.mk.injEq, and_true, true_and]
    refine ⟨?_, ?_, ?_⟩ <;> split <;> simp_all

/-- Item 1, without the `DefaultsOk` assumption (it is not needed). -/
theorem withDefaults_idem' (o : Options α)
    (hc : gLen cx (o.withDefaults cx).charset = gLen cx cx.dCharset) :
    (o.withDefaults cx).withDefaults cx = o.withDefaults cx := by
  rw [withDefaults_eq cx (o.withDefaults cx), hc]
  simp only [bne_self_eq_false, Bool.false_eq_true, if_false]
  exact sepDefaults_withDefaults cx o

/-- Item 1. -/
theorem withDefaults_idem (cx : Ctx α) (_hd : DefaultsOk cx) (o : Options α)
    (hc : gLen cx (o.withDefaults cx).charset = gLen cx cx.dCharset) :
    (o.withDefaults cx).withDefaults cx = o.withDefaults cx :=
  withDefaults_idem' cx o hc

end
section
variable {α : Type} [DecidableEq α] (cx : Ctx α)

/-! ## helpers -/

theorem bind_ok {β γ : Type} {x : R β} {f : β → R γ} {r : γ} :
    (x >>= f) = .ok r ↔ ∃ a, x = .ok a ∧ f a = .ok r := by
  cases x <;> simp [bind, Except.bind]

theorem pure_ok {β : Type} {a r : β} : (pure a : R β) = .ok r ↔ a = r := by
  simp [pure, Except.pure]

omit [DecidableEq α] in
@[simp] theorem Editor.withText_opts (ed : Editor α) (t : List α) : (ed.withText t).opts = ed.opts := by
  cases ed <;> rfl
omit [DecidableEq α] in
@[simp] theorem Editor.withText_text (ed : Editor α) (t : List α) : (ed.withText t).text = t := by
  cases ed <;> rfl
omit [DecidableEq α] in
@[simp] theorem Editor.withOpts_text (ed : Editor α) (o : Options α) : (ed.withOpts o).text = ed.text := by
  cases ed <;> rfl
omit [DecidableEq α] in
@[simp] theorem Editor.withOpts_opts (ed : Editor α) (o : Options α) : (ed.withOpts o).opts = o := by
  cases ed <;> rfl
omit [DecidableEq α] in
theorem Editor.withText_self (ed : Editor α) : ed.withText ed.text = ed := by
  cases ed <;> rfl
omit [DecidableEq α] in
theorem Editor.withText_withText (ed : Editor α) (s t : List α) :
    (ed.withText s).withText t = ed.withText t := by
  cases ed <;> rfl
omit [DecidableEq α] in
theorem Editor.withOpts_withText_withOpts (ed : Editor α) (o : Options α) (t : List α) :
    ((ed.withOpts o).withText t).withOpts ed.opts = ed.withText t := by
  cases ed <;> rfl

/-- the text computed by `applyOptsM` -/
def applyOptsText (t : List α) (op : Nat → List α → R (List (List α))) (o : Options α) :
    R (List α) := do
  let o := o.withDefaults cx
  let ls := (Editor.root t o).linesSep o.lineSep
  let outs ← (List.range ls.length).mapM fun i => op i (ls.getD i [])
  let applied := outs.flatten
  let applied := if !o.noTrailing ∧ ls.length < (splitOn t o.lineSep).length then applied ++ [[]]
    else applied
  pure (joinWith o.lineSep applied)

theorem linesSep_withOpts (ed : Editor α) (o : Options α) (sep : List α) :
    (ed.withOpts o).linesSep sep = (Editor.root ed.text o).linesSep sep := by
  cases ed <;> rfl

theorem applyOptsM_eq (ed : Editor α) (op : Nat → List α → R (List (List α))) (o : Options α) :
    ed.applyOptsM cx op o = (applyOptsText cx ed.text op o >>= fun x => pure (ed.withText x)) := by
  unfold Editor.applyOptsM applyOptsText
  simp only [linesSep_withOpts, bind_assoc, pure_bind]

end
section
variable {α : Type} [DecidableEq α] (cx : Ctx α)

/-! ## 3: every `XOpts` sees its options only through `withDefaults` -/

theorem applyOptsM_defaults (ed : Editor α) (op : Nat → List α → R (List (List α))) (o : Options α)
    (hidem : (o.withDefaults cx).withDefaults cx = o.withDefaults cx) :
    ed.applyOptsM cx op o = ed.applyOptsM cx op (o.withDefaults cx) := by
  unfold Editor.applyOptsM
  rw [hidem]

theorem applyOpts_defaults (ed : Editor α) (op : Nat → List α → List (List α)) (o : Options α)
    (hidem : (o.withDefaults cx).withDefaults cx = o.withDefaults cx) :
    ed.applyOpts cx op o = ed.applyOpts cx op (o.withDefaults cx) := by
  unfold Editor.applyOpts
  exact applyOptsM_defaults cx ed _ o hidem

theorem applyParasM_defaults (ed : Editor α)
    (op : Nat → List α → List α → List α → R (List (List α))) (o : Options α)
    (hidem : (o.withDefaults cx).withDefaults cx = o.withDefaults cx) :
    ed.applyParasM cx op o = ed.applyParasM cx op (o.withDefaults cx) := by
  unfold Editor.applyParasM
  rw [hidem]

theorem alignOpts_defaults (ed : Editor α) (align width : Int) (o : Options α)
    (hidem : (o.withDefaults cx).withDefaults cx = o.withDefaults cx) :
    ed.alignOpts cx align width o = ed.alignOpts cx align width (o.withDefaults cx) := by
  unfold Editor.alignOpts
  rw [hidem]

theorem collapseSpaceOpts_defaults (ed : Editor α) (o : Options α)
    (hidem : (o.withDefaults cx).withDefaults cx = o.withDefaults cx) :
    ed.collapseSpaceOpts cx o = ed.collapseSpaceOpts cx (o.withDefaults cx) := by
  unfold Editor.collapseSpaceOpts
  rw [hidem]

omit [DecidableEq α] in
theorem Editor.string_root (t : List α) (o : Options α) : (Editor.root t o).string cx = pure t := by
  rfl

/-- the paragraph callback of `indentOpts` does not look at the options stored on the
temporary editor it creates -/
theorem indent_cb_eq (para : List α) (f : Nat → List α → List (List α)) (o1 o2 o : Options α) :
    (do let e ← (Editor.root para o1).applyOpts cx f o; pure [← e.string cx] : R (List (List α))) =
    (do let e ← (Editor.root para o2).applyOpts cx f o; pure [← e.string cx]) := by
  unfold Editor.applyOpts
  simp only [applyOptsM_eq, bind_assoc, pure_bind, Editor.withText, Editor.text, Editor.string_root]

theorem indentOpts_defaults (ed : Editor α) (level : Int) (o : Options α)
    (hidem : (o.withDefaults cx).withDefaults cx = o.withDefaults cx) :
    ed.indentOpts cx level o = ed.indentOpts cx level (o.withDefaults cx) := by
  unfold Editor.indentOpts
  rw [hidem]
  split
  · rfl
  · dsimp only
    congr 1
    funext indent
    rw [← applyOpts_defaults cx ed _ o hidem, ← applyParasM_defaults cx ed _ o hidem]
    congr 2
    funext _ para _ _
    rw [← applyOpts_defaults cx _ _ o hidem]
    exact indent_cb_eq cx para _ _ _ o

theorem wrapOpts_defaults (ed : Editor α) (w : Int) (o : Options α)
    (hidem : (o.withDefaults cx).withDefaults cx = o.withDefaults cx) :
    ed.wrapOpts cx w o = ed.wrapOpts cx w (o.withDefaults cx) := by
  unfold Editor.wrapOpts
  rw [hidem]

theorem justifyOpts_defaults (ed : Editor α) (w : Int) (o : Options α)
    (hidem : (o.withDefaults cx).withDefaults cx = o.withDefaults cx) :
    ed.justifyOpts cx w o = ed.justifyOpts cx w (o.withDefaults cx) := by
  unfold Editor.justifyOpts
  rw [hidem]

theorem insertDefTableOpts_defaults (ed : Editor α) (pos : Int) (defs : List (List α × List α))
    (width : Int) (o : Options α)
    (hidem : (o.withDefaults cx).withDefaults cx = o.withDefaults cx) :
    ed.insertDefTableOpts cx pos defs width o =
      ed.insertDefTableOpts cx pos defs width (o.withDefaults cx) := by
  simp only [Editor.insertDefTableOpts_eq_core]
  unfold Editor.insertDefTableOptsCore
  rw [hidem]

omit [DecidableEq α] in
theorem insertTableOpts_defaults (ed : Editor α) (pos : Int) (data : List (List (List α)))
    (width : Int) (o : Options α)
    (hidem : (o.withDefaults cx).withDefaults cx = o.withDefaults cx) :
    ed.insertTableOpts cx pos data width o =
      ed.insertTableOpts cx pos data width (o.withDefaults cx) := by
  unfold Editor.insertTableOpts
  rw [hidem]

theorem insertTwoColumnsOpts_defaults (ed : Editor α) (pos : Int) (leftText rightText : List α)
    (minSpaceBetween width : Int) (pct : Pct) (o : Options α)
    (hidem : (o.withDefaults cx).withDefaults cx = o.withDefaults cx) :
    ed.insertTwoColumnsOpts cx pos leftText rightText minSpaceBetween width pct o =
      ed.insertTwoColumnsOpts cx pos leftText rightText minSpaceBetween width pct
        (o.withDefaults cx) := by
  unfold Editor.insertTwoColumnsOpts
  rw [hidem]

end
section
variable {α : Type} [DecidableEq α] (cx : Ctx α)

/-! ## 4: the result carries the receiver's options (it is the receiver with a new text) -/

/-- `r` is `ed` with some other text -/
def Editor.SameBut (ed r : Editor α) : Prop := ∃ t, r = ed.withText t

omit [DecidableEq α] in
theorem Editor.SameBut.opts {ed r : Editor α} (h : ed.SameBut r) : r.opts = ed.opts := by
  obtain ⟨t, rfl⟩ := h; exact Editor.withText_opts ed t

omit [DecidableEq α] in
theorem Editor.SameBut.refl (ed : Editor α) : ed.SameBut ed := ⟨ed.text, ed.withText_self.symm⟩

theorem applyOptsM_shape (ed r : Editor α) (op : Nat → List α → R (List (List α))) (o : Options α)
    (h : ed.applyOptsM cx op o = .ok r) : ed.SameBut r := by
  rw [applyOptsM_eq, bind_ok] at h
  obtain ⟨t, -, h⟩ := h
  exact ⟨t, (pure_ok.1 h).symm⟩

theorem applyOpts_shape (ed r : Editor α) (op : Nat → List α → List (List α)) (o : Options α)
    (h : ed.applyOpts cx op o = .ok r) : ed.SameBut r :=
  applyOptsM_shape cx ed r _ o h

theorem applyParasM_shape (ed r : Editor α)
    (op : Nat → List α → List α → List α → R (List (List α))) (o : Options α)
    (h : ed.applyParasM cx op o = .ok r) : ed.SameBut r := by
  unfold Editor.applyParasM at h
  dsimp only at h
  split at h
  · exact ⟨_, (pure_ok.1 h).symm⟩
  · obtain ⟨t, -, h⟩ := bind_ok.1 h
    exact ⟨_, (pure_ok.1 h).symm⟩

theorem alignOpts_shape (ed r : Editor α) (align width : Int) (o : Options α)
    (h : ed.alignOpts cx align width o = .ok r) : ed.SameBut r := by
  unfold Editor.alignOpts at h
  dsimp only at h
  split at h
  · rw [← pure_ok.1 h]; exact .refl ed
  · split at h
    · exact applyParasM_shape cx _ _ _ _ h
    · exact applyOpts_shape cx _ _ _ _ h

theorem collapseSpaceOpts_shape (ed r : Editor α) (o : Options α)
    (h : ed.collapseSpaceOpts cx o = .ok r) : ed.SameBut r := by
  unfold Editor.collapseSpaceOpts at h
  obtain ⟨t, -, h⟩ := bind_ok.1 h
  exact ⟨_, (pure_ok.1 h).symm⟩

theorem indentOpts_shape (ed r : Editor α) (level : Int) (o : Options α)
    (h : ed.indentOpts cx level o = .ok r) : ed.SameBut r := by
  unfold Editor.indentOpts at h
  split at h
  · rw [← pure_ok.1 h]; exact .refl ed
  · dsimp only at h
    obtain ⟨indent, -, h⟩ := bind_ok.1 h
    split at h
    · exact applyParasM_shape cx _ _ _ _ h
    · exact applyOpts_shape cx _ _ _ _ h

theorem wrapOpts_shape (ed r : Editor α) (w : Int) (o : Options α)
    (h : ed.wrapOpts cx w o = .ok r) : ed.SameBut r := by
  unfold Editor.wrapOpts at h
  dsimp only at h
  split at h
  · exact applyParasM_shape cx _ _ _ _ h
  · obtain ⟨ls, -, h⟩ := bind_ok.1 h
    exact ⟨_, (pure_ok.1 h).symm⟩

omit [DecidableEq α] in
theorem insert_shape (ed r : Editor α) (pos : Int) (t : List α)
    (h : ed.insert cx pos t = .ok r) : ed.SameBut r := by
  unfold Editor.insert at h
  obtain ⟨a, -, h⟩ := bind_ok.1 h
  obtain ⟨b, -, h⟩ := bind_ok.1 h
  exact ⟨_, (pure_ok.1 h).symm⟩

end
section
variable {α : Type} [DecidableEq α] (cx : Ctx α)

theorem ite_ok {β : Type} {c : Prop} [Decidable c] {x y : R β} {r : β}
    (h : (if c then x else y) = .ok r) : (c ∧ x = .ok r) ∨ (¬c ∧ y = .ok r) := by
  split at h
  · exact .inl ⟨‹_›, h⟩
  · exact .inr ⟨‹_›, h⟩

omit [DecidableEq α] in
theorem subEd_ok (ed r : Editor α) (a b : Int) (h : ed.subEd cx a b = .ok r) :
    ∃ t, r = .sub t ed.opts ed a b := by
  unfold Editor.subEd at h
  obtain ⟨t, -, h⟩ := bind_ok.1 h
  exact ⟨t, (pure_ok.1 h).symm⟩

theorem linesSel_ok (ed r : Editor α) (s e : Int) (h : ed.linesSel cx s e = .ok r) :
    ∃ t a b, r = .sub t ed.opts ed a b := by
  unfold Editor.linesSel at h
  dsimp only at h
  repeat' split at h
  all_goals exact ⟨_, _, _, (subEd_ok cx _ _ _ _ h).choose_spec⟩

theorem justifyOpts_shape (ed r : Editor α) (w : Int) (o : Options α)
    (h : ed.justifyOpts cx w o = .ok r) : ed.SameBut r := by
  unfold Editor.justifyOpts at h
  dsimp only at h
  split at h
  · exact applyParasM_shape cx _ _ _ _ h
  · rcases ite_ok h with ⟨hj, h⟩ | ⟨hj, h⟩
    · obtain ⟨ed1, h1, h⟩ := bind_ok.1 h
      obtain ⟨ed2, h2, h⟩ := bind_ok.1 h
      rw [if_pos hj] at h
      obtain ⟨t, a, b, rfl⟩ := linesSel_ok cx _ _ _ _ h1
      obtain ⟨t2, rfl⟩ := applyOptsM_shape cx _ _ _ _ h2
      obtain ⟨c, hc, h⟩ := bind_ok.1 h
      simp only [Editor.withText, Editor.commit] at hc
      obtain ⟨x, -, hc⟩ := bind_ok.1 hc
      rw [← pure_ok.1 h, ← pure_ok.1 hc]
      exact ⟨x, Editor.withOpts_withText_withOpts ed _ x⟩
    · obtain ⟨ed1, h1, h⟩ := bind_ok.1 h
      obtain ⟨ed2, h2, h⟩ := bind_ok.1 h
      rw [if_neg hj] at h
      rw [← pure_ok.1 h, ← pure_ok.1 h1] at *
      exact applyOptsM_shape cx _ _ _ _ h2

theorem insertDefTableOpts_shape (ed r : Editor α) (pos : Int) (defs : List (List α × List α))
    (width : Int) (o : Options α)
    (h : ed.insertDefTableOpts cx pos defs width o = .ok r) : ed.SameBut r := by
  simp only [Editor.insertDefTableOpts_eq_core] at h
  unfold Editor.insertDefTableOptsCore at h
  dsimp only at h
  obtain ⟨full, -, h⟩ := bind_ok.1 h
  split at h
  · exact insert_shape cx _ _ _ _ h
  · rw [← pure_ok.1 h]; exact .refl ed

omit [DecidableEq α] in
theorem insertTableOpts_shape (ed r : Editor α) (pos : Int) (data : List (List (List α)))
    (width : Int) (o : Options α)
    (h : ed.insertTableOpts cx pos data width o = .ok r) : ed.SameBut r := by
  unfold Editor.insertTableOpts at h
  exact insert_shape cx _ _ _ _ h

theorem insertTwoColumnsOpts_shape (ed r : Editor α) (pos : Int) (leftText rightText : List α)
    (minSpaceBetween width : Int) (pct : Pct) (o : Options α)
    (h : ed.insertTwoColumnsOpts cx pos leftText rightText minSpaceBetween width pct o = .ok r) :
    ed.SameBut r := by
  unfold Editor.insertTwoColumnsOpts at h
  split at h
  · rw [← pure_ok.1 h]; exact .refl ed
  · dsimp only at h
    rcases ite_ok h with ⟨_, h⟩ | ⟨_, h⟩
    · cases h
    · obtain ⟨lb, -, h⟩ := bind_ok.1 h
      obtain ⟨rb, -, h⟩ := bind_ok.1 h
      obtain ⟨cb, -, h⟩ := bind_ok.1 h
      exact insert_shape cx _ _ _ _ h

end
section
variable {α : Type} [DecidableEq α] (cx : Ctx α)

/-! ### Item 4 as stated: `r.opts = ed.opts` -/

theorem applyOptsM_opts (ed r : Editor α) (op : Nat → List α → R (List (List α))) (o : Options α)
    (h : ed.applyOptsM cx op o = .ok r) : r.opts = ed.opts :=
  (applyOptsM_shape cx ed r op o h).opts

theorem applyOpts_opts (ed r : Editor α) (op : Nat → List α → List (List α)) (o : Options α)
    (h : ed.applyOpts cx op o = .ok r) : r.opts = ed.opts :=
  (applyOpts_shape cx ed r op o h).opts

theorem applyParasM_opts (ed r : Editor α)
    (op : Nat → List α → List α → List α → R (List (List α))) (o : Options α)
    (h : ed.applyParasM cx op o = .ok r) : r.opts = ed.opts :=
  (applyParasM_shape cx ed r op o h).opts

theorem alignOpts_opts (ed r : Editor α) (align width : Int) (o : Options α)
    (h : ed.alignOpts cx align width o = .ok r) : r.opts = ed.opts :=
  (alignOpts_shape cx ed r align width o h).opts

theorem collapseSpaceOpts_opts (ed r : Editor α) (o : Options α)
    (h : ed.collapseSpaceOpts cx o = .ok r) : r.opts = ed.opts :=
  (collapseSpaceOpts_shape cx ed r o h).opts

theorem indentOpts_opts (ed r : Editor α) (level : Int) (o : Options α)
    (h : ed.indentOpts cx level o = .ok r) : r.opts = ed.opts :=
  (indentOpts_shape cx ed r level o h).opts

theorem wrapOpts_opts (ed r : Editor α) (w : Int) (o : Options α)
    (h : ed.wrapOpts cx w o = .ok r) : r.opts = ed.opts :=
  (wrapOpts_shape cx ed r w o h).opts

theorem justifyOpts_opts (ed r : Editor α) (w : Int) (o : Options α)
    (h : ed.justifyOpts cx w o = .ok r) : r.opts = ed.opts :=
  (justifyOpts_shape cx ed r w o h).opts

theorem insertDefTableOpts_opts (ed r : Editor α) (pos : Int) (defs : List (List α × List α))
    (width : Int) (o : Options α)
    (h : ed.insertDefTableOpts cx pos defs width o = .ok r) : r.opts = ed.opts :=
  (insertDefTableOpts_shape cx ed r pos defs width o h).opts

omit [DecidableEq α] in
theorem insertTableOpts_opts (ed r : Editor α) (pos : Int) (data : List (List (List α)))
    (width : Int) (o : Options α)
    (h : ed.insertTableOpts cx pos data width o = .ok r) : r.opts = ed.opts :=
  (insertTableOpts_shape cx ed r pos data width o h).opts

theorem insertTwoColumnsOpts_opts (ed r : Editor α) (pos : Int) (leftText rightText : List α)
    (minSpaceBetween width : Int) (pct : Pct) (o : Options α)
    (h : ed.insertTwoColumnsOpts cx pos leftText rightText minSpaceBetween width pct o = .ok r) :
    r.opts = ed.opts :=
  (insertTwoColumnsOpts_shape cx ed r pos leftText rightText minSpaceBetween width pct o h).opts

end

/-! ## 5: the cluster-level instance (every atom is its own cluster) -/
section
variable {α : Type} (cx : Ctx α)

theorem gLen_triv (htriv : ∀ s, cx.ends s = List.range' 1 s.length) (s : List α) :
    gLen cx s = s.length := by
  simp only [gLen, htriv, List.length_range']

theorem rangeToIndexes_id (n a b : Int) (h0 : 0 ≤ a) (h1 : a ≤ b) (h2 : b ≤ n) :
    rangeToIndexes n a b = (a, b) := by
  unfold rangeToIndexes
  simp only [show ¬ a < 0 by omega, show ¬ b < 0 by omega, show ¬ b > n by omega,
    show ¬ a > n by omega, show ¬ b < a by omega, if_false]

theorem gSub_triv (htriv : ∀ s, cx.ends s = List.range' 1 s.length) (s : List α) (a b : Nat)
    (hab : a ≤ b) (hb : b ≤ s.length) :
    gSub cx s (a : Int) (b : Int) = (s.drop a).take (b - a) := by
  unfold gSub
  simp only [htriv, List.length_range']
  rw [rangeToIndexes_id _ _ _ (by omega) (by omega) (by omega)]
  simp only
  split
  · rename_i h
    have : a = b := by have h' : (a : Int) = b := by simpa using h
                       omega
    subst this
    simp
  · rename_i h
    have hne : a ≠ b := by
      intro e; apply h; simp [e]
    have hlt : a < b := by omega
    unfold sliceRunes
    simp only [Int.toNat_natCast]
    have hB : (List.range' 1 s.length).getD (b - 1) 0 = b := by
      rw [List.getD_eq_getElem?_getD, List.getElem?_range' (by omega)]; simp; omega
    rw [hB]
    by_cases ha : a = 0
    · subst ha; simp
    · have hA : (List.range' 1 s.length).getD (a - 1) 0 = a := by
        rw [List.getD_eq_getElem?_getD, List.getElem?_range' (by omega)]; simp; omega
      rw [if_pos (by omega), hA]

/-- Int-indexed form of `gSub_triv` -/
theorem gSub_triv_int (htriv : ∀ s, cx.ends s = List.range' 1 s.length) (s : List α) (a b : Int)
    (h0 : 0 ≤ a) (hab : a ≤ b) (hb : b ≤ s.length) :
    gSub cx s a b = (s.drop a.toNat).take (b.toNat - a.toNat) := by
  have := gSub_triv cx htriv s a.toNat b.toNat (by omega) (by omega)
  rwa [Int.toNat_of_nonneg h0, Int.toNat_of_nonneg (by omega)] at this

theorem withDefaults_charset_length_triv (htriv : ∀ s, cx.ends s = List.range' 1 s.length)
    (h3 : cx.dCharset.length = 3) (o : Options α) :
    ((o.withDefaults cx).charset).length = 3 := by
  rw [withDefaults_eq]
  simp only [gLen_triv cx htriv, h3]
  split
  · rename_i hne
    have hne : o.charset.length ≠ 3 := by simpa using hne
    split
    · rename_i hlt
      have := gSub_triv cx htriv cx.dCharset o.charset.length 3 (by omega) (by omega)
      have e : ((3 : Nat) : Int) - (((3 : Nat) : Int) - (o.charset.length : Int)) = (o.charset.length : Int) := by omega
      simp only [e, this, List.length_append, List.length_take, List.length_drop, h3]
      omega
    · have := gSub_triv cx htriv o.charset 0 3 (by omega) (by omega)
      have this : gSub cx o.charset 0 ((3 : Nat) : Int) = _ := this
      simp only [this, List.length_take, List.length_drop]
      omega
  · rename_i he
    simpa [Options.sepDefaults] using he

theorem withDefaults_idem_triv (htriv : ∀ s, cx.ends s = List.range' 1 s.length)
    (h3 : cx.dCharset.length = 3) (o : Options α) :
    (o.withDefaults cx).withDefaults cx = o.withDefaults cx ∧
    ((o.withDefaults cx).charset).length = 3 := by
  have hl := withDefaults_charset_length_triv cx htriv h3 o
  refine ⟨withDefaults_idem' cx o ?_, hl⟩
  rw [gLen_triv cx htriv, gLen_triv cx htriv, hl, h3]

end
end RosedVerif
