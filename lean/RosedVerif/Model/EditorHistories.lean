/-
"For all histories" theorems for Editors and sub-editors (properties C05, C08).

`Props/C05.lean` states what ONE `Commit` does to ONE parent.  This file lifts that to editors at any
nesting depth and after any sequence of operations:

1. `Editor.fullText` — the text obtained by committing through all ancestors — and
   `string_eq_fullText`, `commitAll_eq_fullText`: on a well-cut editor `String()` / `CommitAll()`
   return exactly that (with the ROOT's options);
2. `fullText_nested`: `fullText` is `outerPre ++ text ++ outerSuf`, where `outerPre`/`outerSuf` are
   built from the ancestors' texts outside the selected regions only — whatever the current text is;
3. `Editor.Selects.fullText_eq` …: an unedited selection (Chars*/Lines*, any positions, any depth)
   converts back to the text it was cut from;
4. a program semantics over a growing pool of editors (`EdOp`, `stepEd`, `runEd`) with
   (a) every reachable editor is cut at ordered atom boundaries (`runEd_cut`, `runEd_wellCut`),
       hence `String` is total and equals `fullText` on it (`runEd_string`),
   (b) the pool only grows: earlier members are the same values (`runEd_prefix`, `runEd_frame`),
   (c) text-changing operations leave the whole ancestor chain as it was (`evalEd_textChange`);
5. a depth-2 history on instance `cxA` evaluated by the kernel.
-/
import RosedVerif.Model.Totality2
import RosedVerif.Model.InstAFacts
namespace RosedVerif
set_option linter.unusedSectionVars false

/-! ## Definitions -/

section defs
variable {α : Type} [DecidableEq α] (cx : Ctx α)

/-- `spliceBytes` with the Go panic / invalid-UTF-8 outcome mapped to "parent text unchanged";
on well-cut editors the fallback is never taken (`spliceOr_byteOff`) -/
def spliceOr (s : List α) (a b : Int) (t : List α) : List α :=
  match spliceBytes cx s a b t with
  | .ok r => r
  | .error _ => s

/-- committing through all ancestors, starting with text `t` in place of the editor's own -/
def Editor.fullTextWith : Editor α → List α → List α
  | .root _ _, t => t
  | .sub _ _ p a b, t => p.fullTextWith (spliceOr cx p.text a b t)

/-- the text obtained by committing through all ancestors:
root ↦ its text; `sub t o p a b` ↦ `fullText` of `p` with bytes `[a, b)` of its text replaced by `t`
(`fullText_sub`) -/
def Editor.fullText (ed : Editor α) : List α := ed.fullTextWith cx ed.text

/-- the options stored on the root of the ancestor chain -/
def Editor.rootOpts : Editor α → Options α
  | .root _ o => o
  | .sub _ _ p _ _ => p.rootOpts

/-- the atom index of byte offset `a` (0 when `a` is not on a rune boundary) -/
def atomIx (s : List α) (a : Int) : Nat := (atomsForBytes cx s a.toNat).getD 0

/-- everything in front of the selected regions, outermost ancestor first -/
def Editor.outerPre : Editor α → List α
  | .root _ _ => []
  | .sub _ _ p a _ => p.outerPre ++ p.text.take (atomIx cx p.text a)

/-- everything behind the selected regions, innermost ancestor first -/
def Editor.outerSuf : Editor α → List α
  | .root _ _ => []
  | .sub _ _ p _ b => p.text.drop (atomIx cx p.text b) ++ p.outerSuf

/-- the link to the parent: the stored snapshot and the byte range -/
def Editor.link : Editor α → Option (Editor α × Int × Int)
  | .root _ _ => none
  | .sub _ _ p a b => some (p, a, b)

/-- the whole ancestor chain: `(parent, a, b)` at every level, innermost first -/
def Editor.ancestry : Editor α → List (Editor α × Int × Int)
  | .root _ _ => []
  | .sub _ _ p a b => (p, a, b) :: p.ancestry

/-- every link of the parent chain is cut at an ORDERED pair of atom positions inside the parent's
text (`Editor.WellCut` keeps the positions but not their order) -/
inductive Editor.Cut : Editor α → Prop
  | root (t : List α) (o : Options α) : Editor.Cut (.root t o)
  | sub (t : List α) (o : Options α) (p : Editor α) (a b : Int) (i j : Nat) :
      i ≤ j → j ≤ p.text.length → a = (byteOff cx p.text i : Nat) → b = (byteOff cx p.text j : Nat) →
      Editor.Cut p → Editor.Cut (.sub t o p a b)

/-- `r` was obtained from `ed` by one of `Chars`, `CharsFrom`, `CharsTo`, `Lines`, `LinesFrom`,
`LinesTo` (the `From`/`To` forms are instances of the two general ones by definition) -/
def Editor.Selects (ed r : Editor α) : Prop :=
  (∃ s e, ed.chars cx s e = .ok r) ∨ (∃ s e, ed.linesSel cx s e = .ok r)

/-- reflexive-transitive closure of `Selects`: a selection of a selection of … -/
inductive Editor.SelectsStar : Editor α → Editor α → Prop
  | refl (ed : Editor α) : Editor.SelectsStar ed ed
  | step {ed m r : Editor α} : Editor.SelectsStar ed m → m.Selects cx r → Editor.SelectsStar ed r

end defs

/-! ## 0. byte offsets and atom indexes -/

section bytes
variable {α : Type} [DecidableEq α] {cx : Ctx α}

/-- a byte offset accepted by `atomsForBytes` is the offset of the atom index it returns -/
theorem atomsForBytes_some : ∀ (s : List α) (n i : Nat), atomsForBytes cx s n = some i →
    i ≤ s.length ∧ byteOff cx s i = n
  | s, 0, i, h => by
    have : i = 0 := by cases s <;> simpa [atomsForBytes] using h.symm
    subst this
    exact ⟨Nat.zero_le _, byteOff_zero cx s⟩
  | [], n + 1, i, h => by simp [atomsForBytes] at h
  | c :: t, n + 1, i, h => by
    rw [atomsForBytes] at h
    split at h
    · rename_i hc
      cases hk : atomsForBytes cx t (n + 1 - cx.blen c) with
      | none => rw [hk] at h; simp at h
      | some k =>
        rw [hk] at h
        simp only [Option.map_some, Option.some.injEq] at h
        subst h
        obtain ⟨h1, h2⟩ := atomsForBytes_some t _ k hk
        refine ⟨by simp only [List.length_cons]; omega, ?_⟩
        rw [byteOff_cons_succ, h2]
        omega
    · simp at h

theorem take_min_length (s : List α) (i : Nat) : s.take (min i s.length) = s.take i := by
  by_cases h : i ≤ s.length
  · rw [Nat.min_eq_left h]
  · rw [Nat.min_eq_right (by omega), List.take_of_length_le (Nat.le_refl _),
      List.take_of_length_le (by omega)]

theorem drop_min_length (s : List α) (i : Nat) : s.drop (min i s.length) = s.drop i := by
  by_cases h : i ≤ s.length
  · rw [Nat.min_eq_left h]
  · rw [Nat.min_eq_right (by omega), List.drop_of_length_le (Nat.le_refl _),
      List.drop_of_length_le (by omega)]

theorem byteOff_min_length (s : List α) (i : Nat) :
    byteOff cx s (min i s.length) = byteOff cx s i := by
  unfold byteOff
  rw [take_min_length]

theorem atomIx_byteOff (hs : cx.Sane) (s : List α) (i : Nat) :
    atomIx cx s (byteOff cx s i : Nat) = min i s.length := by
  unfold atomIx
  rw [Int.toNat_natCast, atomsForBytes_byteOff hs]
  rfl

/-- the splice at two atom positions, in closed form -/
theorem spliceBytes_byteOff_eq (hs : cx.Sane) (s : List α) (i j : Nat) (t : List α) :
    spliceBytes cx s (byteOff cx s i : Nat) (byteOff cx s j : Nat) t =
      .ok (s.take i ++ t ++ s.drop j) := by
  unfold spliceBytes
  simp only
  have := byteOff_le_byteLen cx s i
  have := byteOff_le_byteLen cx s j
  rw [if_neg (by omega)]
  rw [Int.toNat_natCast, Int.toNat_natCast, atomsForBytes_byteOff hs, atomsForBytes_byteOff hs]
  simp only [take_min_length, drop_min_length]
  rfl

theorem spliceOr_byteOff (hs : cx.Sane) (s : List α) (i j : Nat) (t : List α) :
    spliceOr cx s (byteOff cx s i : Nat) (byteOff cx s j : Nat) t = s.take i ++ t ++ s.drop j := by
  unfold spliceOr
  rw [spliceBytes_byteOff_eq hs]

theorem take_slice_drop (s : List α) (i j : Nat) (hij : i ≤ j) :
    s.take i ++ (s.drop i).take (j - i) ++ s.drop j = s := by
  have h1 : s.drop j = (s.drop i).drop (j - i) := by
    rw [List.drop_drop]
    congr 1
    omega
  rw [h1, List.append_assoc, List.take_append_drop, List.take_append_drop]

/-- **slice then splice is the identity** — for ANY byte offsets `a`, `b` (no well-formedness of the
context needed): whatever `s[a:b]` returned, putting it back at `[a, b)` gives `s` -/
theorem spliceBytes_of_byteSlice (s : List α) (a b : Int) (t : List α)
    (h : byteSlice cx s a b = .ok t) : spliceBytes cx s a b t = .ok s := by
  unfold byteSlice at h
  simp only at h
  split at h
  · cases h
  · rename_i hb
    unfold spliceBytes
    simp only
    rw [if_neg (by omega)]
    split at h
    · rename_i hab
      have hab' : a = b := by simpa using hab
      subst hab'
      cases h
      cases hi : atomsForBytes cx s a.toNat with
      | none => simp; rfl
      | some i => simp; rfl
    · rename_i hab
      have hab' : a ≠ b := by simpa using hab
      cases hi : atomsForBytes cx s a.toNat with
      | none => rw [hi] at h; cases h
      | some i =>
        cases hj : atomsForBytes cx s b.toNat with
        | none => rw [hi, hj] at h; cases h
        | some j =>
          rw [hi, hj] at h
          cases h
          obtain ⟨-, h1⟩ := atomsForBytes_some s _ i hi
          obtain ⟨-, h2⟩ := atomsForBytes_some s _ j hj
          have hij : i ≤ j := by
            apply Classical.byContradiction
            intro hn
            have := byteOff_mono cx s (i := j) (j := i) (by omega)
            omega
          simp only
          rw [take_slice_drop s i j hij]
          rfl

theorem byteSlice_bounds (s : List α) (a b : Int) (t : List α)
    (h : byteSlice cx s a b = .ok t) : 0 ≤ a ∧ a ≤ b ∧ b ≤ (byteLen cx s : Int) := by
  unfold byteSlice at h
  simp only at h
  split at h
  · cases h
  · omega

end bytes
/-! ## 1. `String()` equals committing through all ancestors -/

section full
variable {α : Type} [DecidableEq α] {cx : Ctx α}

theorem Editor.fullText_root (t : List α) (o : Options α) : (Editor.root t o).fullText cx = t := rfl

theorem Editor.fullText_withText (ed : Editor α) (t : List α) :
    (ed.withText t).fullText cx = ed.fullTextWith cx t := by
  cases ed <;> rfl

theorem Editor.fullTextWith_withText (ed : Editor α) (t t' : List α) :
    (ed.withText t).fullTextWith cx t' = ed.fullTextWith cx t' := by
  cases ed <;> rfl

theorem Editor.fullTextWith_withOpts (ed : Editor α) (o : Options α) (t' : List α) :
    (ed.withOpts o).fullTextWith cx t' = ed.fullTextWith cx t' := by
  cases ed <;> rfl

/-- the options of an editor play no role in what it converts back to -/
theorem Editor.fullText_withOpts (ed : Editor α) (o : Options α) :
    (ed.withOpts o).fullText cx = ed.fullText cx := by
  cases ed <;> rfl

/-- the defining equation asked for: a sub-editor's full text is the full text of its parent with
bytes `[a, b)` replaced by the sub-editor's current text -/
theorem Editor.fullText_sub (t : List α) (o : Options α) (p : Editor α) (a b : Int) :
    (Editor.sub t o p a b).fullText cx = (p.withText (spliceOr cx p.text a b t)).fullText cx := by
  rw [Editor.fullText_withText]
  rfl

/-- … and with the atom indexes that `WellCut` provides -/
theorem Editor.fullText_sub_byteOff (hs : cx.Sane) (t : List α) (o : Options α) (p : Editor α)
    (i j : Nat) :
    (Editor.sub t o p (byteOff cx p.text i : Nat) (byteOff cx p.text j : Nat)).fullText cx =
      (p.withText (p.text.take i ++ t ++ p.text.drop j)).fullText cx := by
  rw [Editor.fullText_sub, spliceOr_byteOff hs]

theorem Editor.rootOpts_withText (ed : Editor α) (t : List α) : (ed.withText t).rootOpts = ed.rootOpts := by
  cases ed <;> rfl

theorem Editor.isSub_withText (ed : Editor α) (t : List α) : (ed.withText t).isSub = ed.isSub := by
  cases ed <;> rfl

/-- `commitAllFuel` with enough fuel on a well-cut editor carrying ANY text: the root, with the root's
options and the text committed through all ancestors -/
theorem commitAllFuel_withText (hs : cx.Sane) {ed : Editor α} (h : ed.WellCut cx) :
    ∀ (n : Nat), ed.depth ≤ n → ∀ t : List α,
      commitAllFuel cx n (ed.withText t) = .ok (.root (ed.fullTextWith cx t) ed.rootOpts) := by
  induction h with
  | root t0 o =>
    intro n _ t
    cases n <;> rfl
  | sub t0 o p i j hp ih =>
    intro n hn t
    simp only [Editor.depth] at hn
    obtain ⟨m, rfl⟩ : ∃ m, n = m + 1 := ⟨n - 1, by omega⟩
    simp only [Editor.withText, commitAllFuel, Editor.isSub, if_true, Editor.commit,
      spliceBytes_byteOff_eq hs]
    have := ih m (by omega) (p.text.take i ++ t ++ p.text.drop j)
    simp only [Editor.fullTextWith, Editor.rootOpts, spliceOr_byteOff hs]
    exact this

/-- **`CommitAll()` on a well-cut editor returns the root with the text committed through all
ancestors and the ROOT's options** -/
theorem commitAll_eq_fullText (hs : cx.Sane) {ed : Editor α} (h : ed.WellCut cx) :
    ed.commitAll cx = .ok (.root (ed.fullText cx) ed.rootOpts) := by
  have := commitAllFuel_withText hs h ed.depth (Nat.le_refl _) ed.text
  rw [Editor.withText_self] at this
  exact this

/-- **`String()` equals committing through all ancestors** -/
theorem string_eq_fullText (hs : cx.Sane) {ed : Editor α} (h : ed.WellCut cx) :
    ed.string cx = .ok (ed.fullText cx) := by
  unfold Editor.string
  rw [commitAll_eq_fullText hs h]
  rfl

/-- without any hypothesis: WHENEVER `CommitAll()` returns, it returns the root with the text committed
through all ancestors (on editors that are not well-cut it may fail instead) -/
theorem commitAllFuel_ok : ∀ (n : Nat) (ed r : Editor α), commitAllFuel cx n ed = .ok r →
    r = .root (ed.fullText cx) ed.rootOpts
  | 0, .root t o, r, h => by cases h; rfl
  | 0, .sub t o p a b, r, h => by cases h
  | n + 1, .root t o, r, h => by cases h; rfl
  | n + 1, .sub t o p a b, r, h => by
    simp only [commitAllFuel, Editor.isSub, if_true, Editor.commit] at h
    obtain ⟨c, hc, h⟩ := bind_ok.1 h
    obtain ⟨x, hx, hc⟩ := bind_ok.1 hc
    rw [← pure_ok.1 hc] at h
    have := commitAllFuel_ok n _ r h
    rw [this, Editor.fullText_sub, Editor.rootOpts_withText]
    unfold spliceOr
    rw [hx]
    rfl

theorem string_ok_eq_fullText {ed : Editor α} {s : List α} (h : ed.string cx = .ok s) :
    s = ed.fullText cx := by
  unfold Editor.string at h
  obtain ⟨r, hr, h⟩ := bind_ok.1 h
  rw [commitAllFuel_ok _ _ _ hr] at h
  exact (pure_ok.1 h).symm

/-- whatever the sub-editor's text and options have become -/
theorem string_eq_fullText_edited (hs : cx.Sane) {ed : Editor α} (h : ed.WellCut cx) (t' : List α)
    (o' : Options α) :
    ((ed.withText t').withOpts o').string cx = .ok (ed.fullTextWith cx t') := by
  rw [string_eq_fullText hs ((h.withText t').withOpts o'), Editor.fullText_withOpts,
    Editor.fullText_withText]

/-- committing a root Editor is the identity, for `Commit`, `CommitAll` and `String` -/
theorem commit_root_id (t : List α) (o : Options α) :
    (Editor.root t o).commit cx = .ok (.root t o) ∧ (Editor.root t o).commitAll cx = .ok (.root t o) ∧
      (Editor.root t o).string cx = .ok t := ⟨rfl, rfl, rfl⟩

/-- one `Commit` does not change what the chain converts back to (any depth) -/
theorem commit_fullText (hs : cx.Sane) {ed r : Editor α} (h : ed.WellCut cx)
    (hr : ed.commit cx = .ok r) : r.fullText cx = ed.fullText cx ∧ r.rootOpts = ed.rootOpts := by
  cases h with
  | root t o => cases hr; exact ⟨rfl, rfl⟩
  | sub t o p i j hp =>
    simp only [Editor.commit, spliceBytes_byteOff_eq hs] at hr
    cases hr
    exact ⟨(Editor.fullText_sub_byteOff hs t o p i j).symm, Editor.rootOpts_withText _ _⟩

/-! ## 2. nested regions -/

theorem Editor.outerPre_withText (ed : Editor α) (t : List α) :
    (ed.withText t).outerPre cx = ed.outerPre cx := by cases ed <;> rfl
theorem Editor.outerSuf_withText (ed : Editor α) (t : List α) :
    (ed.withText t).outerSuf cx = ed.outerSuf cx := by cases ed <;> rfl
theorem Editor.outerPre_withOpts (ed : Editor α) (o : Options α) :
    (ed.withOpts o).outerPre cx = ed.outerPre cx := by cases ed <;> rfl
theorem Editor.outerSuf_withOpts (ed : Editor α) (o : Options α) :
    (ed.withOpts o).outerSuf cx = ed.outerSuf cx := by cases ed <;> rfl

/-- the frame of a sub-editor cut at atoms `[i, j)`: the parent's frame around the parent's text
before `i` / after `j` -/
theorem Editor.outerPre_sub_byteOff (hs : cx.Sane) (t : List α) (o : Options α) (p : Editor α)
    (i j : Nat) :
    (Editor.sub t o p (byteOff cx p.text i : Nat) (byteOff cx p.text j : Nat)).outerPre cx =
      p.outerPre cx ++ p.text.take i := by
  simp only [Editor.outerPre, atomIx_byteOff hs, take_min_length]

theorem Editor.outerSuf_sub_byteOff (hs : cx.Sane) (t : List α) (o : Options α) (p : Editor α)
    (i j : Nat) :
    (Editor.sub t o p (byteOff cx p.text i : Nat) (byteOff cx p.text j : Nat)).outerSuf cx =
      p.text.drop j ++ p.outerSuf cx := by
  simp only [Editor.outerSuf, atomIx_byteOff hs, drop_min_length]

/-- **nested region theorem, explicit form**: for a well-cut editor at any depth, whatever text `t'`
it carries, the text committed through all ancestors is
`pre_d ++ … ++ pre_1 ++ t' ++ suf_1 ++ … ++ suf_d`, where `pre_k`/`suf_k` are the parts of the
`k`-th ancestor's text before/after the region cut for the level below: `outerPre`/`outerSuf` are
functions of the ancestors only (`outerPre_withText`, `outerPre_withOpts`) -/
theorem fullTextWith_nested (hs : cx.Sane) {ed : Editor α} (h : ed.WellCut cx) :
    ∀ t' : List α, ed.fullTextWith cx t' = ed.outerPre cx ++ t' ++ ed.outerSuf cx := by
  induction h with
  | root t o => intro t'; simp [Editor.fullTextWith, Editor.outerPre, Editor.outerSuf]
  | sub t o p i j hp ih =>
    intro t'
    rw [Editor.outerPre_sub_byteOff hs, Editor.outerSuf_sub_byteOff hs]
    simp only [Editor.fullTextWith, spliceOr_byteOff hs, ih, List.append_assoc]

theorem fullText_nested (hs : cx.Sane) {ed : Editor α} (h : ed.WellCut cx) (t' : List α) :
    (ed.withText t').fullText cx = ed.outerPre cx ++ t' ++ ed.outerSuf cx := by
  rw [Editor.fullText_withText, fullTextWith_nested hs h]

/-- **nested region theorem, as stated**: the surroundings do not depend on the current text -/
theorem fullText_region (hs : cx.Sane) {ed : Editor α} (h : ed.WellCut cx) :
    ∃ pre suf : List α, ∀ t' : List α, (ed.withText t').fullText cx = pre ++ t' ++ suf :=
  ⟨_, _, fullText_nested hs h⟩

/-- … and `String()` after ANY edit of the sub-editor's text and options returns normally (no
`Err.invalidUtf8`, no panic) with exactly the edited text between the unchanged surroundings -/
theorem string_region (hs : cx.Sane) {ed : Editor α} (h : ed.WellCut cx) :
    ∃ pre suf : List α, ∀ (t' : List α) (o' : Options α),
      ((ed.withText t').withOpts o').string cx = .ok (pre ++ t' ++ suf) :=
  ⟨_, _, fun t' o' => by rw [string_eq_fullText_edited hs h, fullTextWith_nested hs h]⟩

end full

/-! ## 3. unedited round trip at any depth -/

section select
variable {α : Type} [DecidableEq α] {cx : Ctx α}

theorem subEd_ok_slice (ed r : Editor α) (a b : Int) (h : ed.subEd cx a b = .ok r) :
    ∃ t, byteSlice cx ed.text a b = .ok t ∧ r = .sub t ed.opts ed a b := by
  unfold Editor.subEd at h
  obtain ⟨t, ht, h⟩ := bind_ok.1 h
  exact ⟨t, ht, (pure_ok.1 h).symm⟩

theorem chars_ok_subEd (ed r : Editor α) (s e : Int) (h : ed.chars cx s e = .ok r) :
    ∃ a b, ed.subEd cx a b = .ok r := by
  unfold Editor.chars at h
  simp only at h
  generalize rangeToIndexes _ _ _ = p at h
  obtain ⟨x, y⟩ := p
  simp only at h
  split at h
  · exact ⟨_, _, h⟩
  · exact ⟨_, _, h⟩

theorem linesSel_ok_subEd (ed r : Editor α) (s e : Int) (h : ed.linesSel cx s e = .ok r) :
    ∃ a b, ed.subEd cx a b = .ok r := by
  unfold Editor.linesSel at h
  dsimp only at h
  repeat' split at h
  all_goals exact ⟨_, _, h⟩

theorem Editor.Selects.subEd {ed r : Editor α} (h : ed.Selects cx r) :
    ∃ a b, ed.subEd cx a b = .ok r := by
  rcases h with ⟨s, e, h⟩ | ⟨s, e, h⟩
  · exact chars_ok_subEd ed r s e h
  · exact linesSel_ok_subEd ed r s e h

/-- the six selecting operations -/
theorem Editor.Selects.chars {ed r : Editor α} {s e : Int} (h : ed.chars cx s e = .ok r) :
    ed.Selects cx r := .inl ⟨s, e, h⟩
theorem Editor.Selects.charsFrom {ed r : Editor α} {s : Int} (h : ed.charsFrom cx s = .ok r) :
    ed.Selects cx r := .inl ⟨s, _, h⟩
theorem Editor.Selects.charsTo {ed r : Editor α} {e : Int} (h : ed.charsTo cx e = .ok r) :
    ed.Selects cx r := .inl ⟨0, e, h⟩
theorem Editor.Selects.linesSel {ed r : Editor α} {s e : Int} (h : ed.linesSel cx s e = .ok r) :
    ed.Selects cx r := .inr ⟨s, e, h⟩
theorem Editor.Selects.linesFrom {ed r : Editor α} {s : Int} (h : ed.linesFrom cx s = .ok r) :
    ed.Selects cx r := .inr ⟨s, _, h⟩
theorem Editor.Selects.linesTo {ed r : Editor α} {e : Int} (h : ed.linesTo cx e = .ok r) :
    ed.Selects cx r := .inr ⟨0, e, h⟩

/-- a selection is a sub-editor of `ed` carrying `ed`'s options, and its text is the byte slice -/
theorem Editor.Selects.shape {ed r : Editor α} (h : ed.Selects cx r) :
    ∃ t a b, byteSlice cx ed.text a b = .ok t ∧ r = .sub t ed.opts ed a b := by
  obtain ⟨a, b, h⟩ := h.subEd
  obtain ⟨t, ht, rfl⟩ := subEd_ok_slice ed _ a b h
  exact ⟨t, a, b, ht, rfl⟩

/-- committing an unedited selection gives back the editor it was cut from — the VALUE, text and
options and ancestors (no hypothesis on the context or on `ed`) -/
theorem Editor.Selects.commit_eq {ed r : Editor α} (h : ed.Selects cx r) : r.commit cx = .ok ed := by
  obtain ⟨t, a, b, ht, rfl⟩ := h.shape
  simp only [Editor.commit, spliceBytes_of_byteSlice _ _ _ _ ht]
  show Except.ok (ed.withText ed.text) = _
  rw [Editor.withText_self]

/-- **unedited round trip at any depth**: a selection converts back to exactly what the editor it
was cut from converts back to -/
theorem Editor.Selects.fullText_eq {ed r : Editor α} (h : ed.Selects cx r) :
    r.fullText cx = ed.fullText cx := by
  obtain ⟨t, a, b, ht, rfl⟩ := h.shape
  rw [Editor.fullText_sub]
  unfold spliceOr
  rw [spliceBytes_of_byteSlice _ _ _ _ ht]
  simp only [Editor.withText_self]

theorem Editor.Selects.commitAll_eq {ed r : Editor α} (h : ed.Selects cx r) :
    r.commitAll cx = ed.commitAll cx := by
  have hc := h.commit_eq
  obtain ⟨t, a, b, ht, rfl⟩ := h.shape
  unfold Editor.commitAll
  simp only [Editor.depth, commitAllFuel, Editor.isSub, if_true, hc]
  rfl

/-- `String()` of an unedited selection is `String()` of the editor it was cut from (same text, or
the same failure) -/
theorem Editor.Selects.string_eq {ed r : Editor α} (h : ed.Selects cx r) :
    r.string cx = ed.string cx := by
  unfold Editor.string
  rw [h.commitAll_eq]

/-- a selection of a well-cut editor is well-cut -/
theorem Editor.Selects.wellCut (hs : cx.Sane) {ed r : Editor α} (h : ed.Selects cx r)
    (hw : ed.WellCut cx) : r.WellCut cx := by
  rcases h with ⟨s, e, h⟩ | ⟨s, e, h⟩
  · exact chars_wellCut hs hw s e h
  · exact linesSel_wellCut hs hw s e h

theorem Editor.Selects.total (hs : cx.Sane) (ed : Editor α) (s e : Int) :
    (∃ r, ed.chars cx s e = .ok r ∧ ed.Selects cx r) ∧
      (∃ r, ed.linesSel cx s e = .ok r ∧ ed.Selects cx r) :=
  ⟨let ⟨r, h⟩ := chars_total hs ed s e; ⟨r, h, .inl ⟨s, e, h⟩⟩,
   let ⟨r, h⟩ := linesSel_total hs ed s e; ⟨r, h, .inr ⟨s, e, h⟩⟩⟩

/-- item 3 as stated: from a well-cut editor, any selection converts back to the original text,
and `String()` says so -/
theorem unedited_any_depth (hs : cx.Sane) {ed r : Editor α} (hw : ed.WellCut cx)
    (h : ed.Selects cx r) :
    r.fullText cx = ed.fullText cx ∧ r.string cx = .ok (ed.fullText cx) ∧
      ed.string cx = .ok (ed.fullText cx) :=
  ⟨h.fullText_eq, by rw [h.string_eq]; exact string_eq_fullText hs hw, string_eq_fullText hs hw⟩

/-- … and through any number of nested selections -/
theorem Editor.SelectsStar.fullText_eq {ed r : Editor α} (h : Editor.SelectsStar cx ed r) :
    r.fullText cx = ed.fullText cx ∧ r.string cx = ed.string cx := by
  induction h with
  | refl => exact ⟨rfl, rfl⟩
  | step _ hs ih => exact ⟨hs.fullText_eq.trans ih.1, hs.string_eq.trans ih.2⟩

theorem Editor.SelectsStar.wellCut (hs : cx.Sane) {ed r : Editor α}
    (h : Editor.SelectsStar cx ed r) (hw : ed.WellCut cx) : r.WellCut cx := by
  induction h with
  | refl => exact hw
  | step _ h1 ih => exact h1.wellCut hs ih

end select

/-! ## 3b. ordered cuts: the selected region really is a region `[i, j)`, `i ≤ j ≤ length` -/

section cut
variable {α : Type} [DecidableEq α] {cx : Ctx α}

theorem Editor.Cut.wellCut {ed : Editor α} (h : ed.Cut cx) : ed.WellCut cx := by
  induction h with
  | root t o => exact .root t o
  | sub t o p a b i j _ _ ha hb _ ih => subst ha hb; exact .sub t o p i j ih

theorem Editor.Cut.withText {ed : Editor α} (h : ed.Cut cx) (t : List α) : (ed.withText t).Cut cx := by
  cases h with
  | root _ o => exact .root t o
  | sub _ o p a b i j h1 h2 ha hb hp => exact .sub t o p a b i j h1 h2 ha hb hp

theorem Editor.Cut.withOpts {ed : Editor α} (h : ed.Cut cx) (o : Options α) : (ed.withOpts o).Cut cx := by
  cases h with
  | root t _ => exact .root t o
  | sub t _ p a b i j h1 h2 ha hb hp => exact .sub t o p a b i j h1 h2 ha hb hp

theorem Editor.SameBut.cut {ed r : Editor α} (h : ed.SameBut r) (hc : ed.Cut cx) : r.Cut cx := by
  obtain ⟨t, rfl⟩ := h
  exact hc.withText t

/-- a selection of an (ordered-)cut editor is (ordered-)cut -/
theorem Editor.Selects.cut (hs : cx.Sane) {ed r : Editor α} (h : ed.Selects cx r) (hc : ed.Cut cx) :
    r.Cut cx := by
  have hca : ed.CutAtAtoms cx r := by
    rcases h with ⟨s, e, h⟩ | ⟨s, e, h⟩
    · obtain ⟨r0, h0, hc0⟩ := chars_total' hs ed s e
      rw [h] at h0; cases h0; exact hc0
    · obtain ⟨r0, h0, hc0⟩ := linesSel_total' hs ed s e
      rw [h] at h0; cases h0; exact hc0
  obtain ⟨t, a, b, ht, rfl⟩ := h.shape
  obtain ⟨t', i, j, heq⟩ := hca
  injection heq with _ _ _ ha hb
  obtain ⟨-, hab, -⟩ := byteSlice_bounds _ _ _ _ ht
  have hi := byteOff_min_length (cx := cx) ed.text i
  have hj := byteOff_min_length (cx := cx) ed.text j
  by_cases hij : min i ed.text.length ≤ min j ed.text.length
  · exact .sub t _ ed a b _ _ hij (Nat.min_le_right _ _) (by rw [hi]; exact ha) (by rw [hj]; exact hb) hc
  · have := byteOff_mono cx ed.text (i := min j ed.text.length) (j := min i ed.text.length) (by omega)
    refine .sub t _ ed a b _ _ (Nat.le_refl (min i ed.text.length)) (Nat.min_le_right _ _)
      (by rw [hi]; exact ha) ?_ hc
    rw [hi]; rw [hi, hj] at this; omega

theorem Editor.Cut.commit {ed r : Editor α} (h : ed.Cut cx) (hr : ed.commit cx = .ok r) :
    r.Cut cx := by
  cases h with
  | root t o => cases hr; exact .root t o
  | sub t o p a b i j _ _ _ _ hp =>
    simp only [Editor.commit] at hr
    obtain ⟨x, -, hr⟩ := bind_ok.1 hr
    rw [← pure_ok.1 hr]
    exact hp.withText x

/-- **`Commit` at any depth replaces exactly the selected region**: a sub-editor whose chain is cut
at ordered atoms was cut at atoms `[i, j)` of its parent, `i ≤ j ≤ length`, and committing it —
whatever its text and options have become — gives the parent value (its options and ITS ancestors
untouched) whose text is the parent's text with exactly atoms `[i, j)` replaced -/
theorem Editor.Cut.commit_region (hs : cx.Sane) {t : List α} {o : Options α} {p : Editor α} {a b : Int}
    (h : (Editor.sub t o p a b).Cut cx) :
    ∃ i j : Nat, i ≤ j ∧ j ≤ p.text.length ∧ a = (byteOff cx p.text i : Nat) ∧
      b = (byteOff cx p.text j : Nat) ∧
      ∀ (t' : List α) (o' : Options α),
        (Editor.sub t' o' p a b).commit cx = .ok (p.withText (p.text.take i ++ t' ++ p.text.drop j)) := by
  cases h with
  | sub _ _ _ _ _ i j h1 h2 ha hb hp =>
    refine ⟨i, j, h1, h2, ha, hb, fun t' o' => ?_⟩
    subst ha hb
    simp only [Editor.commit, spliceBytes_byteOff_eq hs]
    rfl

end cut

/-! ## 4. programs over a growing pool of editors -/

section shapes
variable {α : Type} [DecidableEq α] {cx : Ctx α}

theorem delete_shape (ed r : Editor α) (s e : Int) (h : ed.delete cx s e = .ok r) : ed.SameBut r := by
  unfold Editor.delete at h
  simp only at h
  generalize rangeToIndexes _ _ _ = p at h
  obtain ⟨x, y⟩ := p
  simp only at h
  split at h
  · rw [← pure_ok.1 h]; exact .refl ed
  · obtain ⟨a, -, h⟩ := bind_ok.1 h
    obtain ⟨b, -, h⟩ := bind_ok.1 h
    exact ⟨_, (pure_ok.1 h).symm⟩

theorem overtype_shape (ed r : Editor α) (pos : Int) (t : List α)
    (h : ed.overtype cx pos t = .ok r) : ed.SameBut r := by
  unfold Editor.overtype at h
  simp only at h
  obtain ⟨a, -, h⟩ := bind_ok.1 h
  obtain ⟨b, -, h⟩ := bind_ok.1 h
  exact ⟨_, (pure_ok.1 h).symm⟩

theorem Editor.SameBut.link {ed r : Editor α} (h : ed.SameBut r) : r.link = ed.link := by
  obtain ⟨t, rfl⟩ := h
  cases ed <;> rfl

theorem Editor.SameBut.ancestry {ed r : Editor α} (h : ed.SameBut r) : r.ancestry = ed.ancestry := by
  obtain ⟨t, rfl⟩ := h
  cases ed <;> rfl

theorem Editor.withOpts_link (ed : Editor α) (o : Options α) : (ed.withOpts o).link = ed.link := by
  cases ed <;> rfl

theorem Editor.withOpts_ancestry (ed : Editor α) (o : Options α) :
    (ed.withOpts o).ancestry = ed.ancestry := by
  cases ed <;> rfl

/-- the chain is determined by the link (the stored parent is a whole value) -/
theorem Editor.ancestry_eq_of_link {ed r : Editor α} (h : r.link = ed.link) :
    r.ancestry = ed.ancestry := by
  cases ed <;> cases r <;> simp only [Editor.link, Editor.ancestry] at h ⊢ <;> try cases h
  all_goals rfl

end shapes

section prog
variable {α : Type} [DecidableEq α]

/-- one call of the public API against a pool of previously obtained Editors; `i` is the pool index
of the receiver.  An options argument `none` is the form without `Opts` (`Wrap`, `Justify`, …),
which uses the receiver's own options; `some o` is the `…Opts` form.  `setText` stands for an
`Apply`/`ApplyParagraphs` call with an arbitrary callback: whatever text it produced. -/
inductive EdOp (α : Type)
  | edit (text : List α) (opts : Options α)
  | chars (i : Nat) (s e : Int)
  | charsFrom (i : Nat) (s : Int)
  | charsTo (i : Nat) (e : Int)
  | lines (i : Nat) (s e : Int)
  | linesFrom (i : Nat) (s : Int)
  | linesTo (i : Nat) (e : Int)
  | commit (i : Nat)
  | commitAll (i : Nat)
  | withOptions (i : Nat) (o : Options α)
  | insert (i : Nat) (pos : Int) (t : List α)
  | delete (i : Nat) (s e : Int)
  | overtype (i : Nat) (pos : Int) (t : List α)
  | collapseSpaceOpts (i : Nat) (o : Option (Options α))
  | wrapOpts (i : Nat) (w : Int) (o : Option (Options α))
  | justifyOpts (i : Nat) (w : Int) (o : Option (Options α))
  | alignOpts (i : Nat) (al w : Int) (o : Option (Options α))
  | indentOpts (i : Nat) (lv : Int) (o : Option (Options α))
  | insertTableOpts (i : Nat) (pos : Int) (data : List (List (List α))) (w : Int)
      (o : Option (Options α))
  | insertDefTableOpts (i : Nat) (pos : Int) (defs : List (List α × List α)) (w : Int)
      (o : Option (Options α))
  | insertTwoColumnsOpts (i : Nat) (pos : Int) (l r : List α) (gap w : Int) (pct : Pct)
      (o : Option (Options α))
  | setText (i : Nat) (t : List α)

/-- apply `f` to pool entry `i`; `none` when the index is out of range or the call fails -/
def withEd (pool : List (Editor α)) (i : Nat) (f : Editor α → R (Editor α)) : Option (Editor α) :=
  match pool[i]? with
  | some ed => (match f ed with | .ok r => some r | .error _ => none)
  | none => none

/-- the text-changing operations: `some i` (the receiver) for those, `none` for the others -/
def EdOp.textChange : EdOp α → Option Nat
  | .insert i .. | .delete i .. | .overtype i .. | .collapseSpaceOpts i .. | .wrapOpts i ..
  | .justifyOpts i .. | .alignOpts i .. | .indentOpts i .. | .insertTableOpts i ..
  | .insertDefTableOpts i .. | .insertTwoColumnsOpts i .. | .setText i .. => some i
  | _ => none

variable (cx : Ctx α)

/-- the Editor an operation returns, if it returns one -/
def evalEd (pool : List (Editor α)) : EdOp α → Option (Editor α)
  | .edit t o => some (.root t o)
  | .chars i s e => withEd pool i (·.chars cx s e)
  | .charsFrom i s => withEd pool i (·.charsFrom cx s)
  | .charsTo i e => withEd pool i (·.charsTo cx e)
  | .lines i s e => withEd pool i (·.linesSel cx s e)
  | .linesFrom i s => withEd pool i (·.linesFrom cx s)
  | .linesTo i e => withEd pool i (·.linesTo cx e)
  | .commit i => withEd pool i (·.commit cx)
  | .commitAll i => withEd pool i (·.commitAll cx)
  | .withOptions i o => withEd pool i (fun ed => pure (ed.withOpts o))
  | .insert i pos t => withEd pool i (·.insert cx pos t)
  | .delete i s e => withEd pool i (·.delete cx s e)
  | .overtype i pos t => withEd pool i (·.overtype cx pos t)
  | .collapseSpaceOpts i o => withEd pool i (fun ed => ed.collapseSpaceOpts cx (o.getD ed.opts))
  | .wrapOpts i w o => withEd pool i (fun ed => ed.wrapOpts cx w (o.getD ed.opts))
  | .justifyOpts i w o => withEd pool i (fun ed => ed.justifyOpts cx w (o.getD ed.opts))
  | .alignOpts i al w o => withEd pool i (fun ed => ed.alignOpts cx al w (o.getD ed.opts))
  | .indentOpts i lv o => withEd pool i (fun ed => ed.indentOpts cx lv (o.getD ed.opts))
  | .insertTableOpts i pos data w o =>
    withEd pool i (fun ed => ed.insertTableOpts cx pos data w (o.getD ed.opts))
  | .insertDefTableOpts i pos defs w o =>
    withEd pool i (fun ed => ed.insertDefTableOpts cx pos defs w (o.getD ed.opts))
  | .insertTwoColumnsOpts i pos l r gap w pct o =>
    withEd pool i (fun ed => ed.insertTwoColumnsOpts cx pos l r gap w pct (o.getD ed.opts))
  | .setText i t => withEd pool i (fun ed => pure (ed.withText t))

/-- one step: APPEND the result when the operation returns normally; otherwise (a modelled panic, or
an index that is not in the pool) the pool is unchanged -/
def stepEd (pool : List (Editor α)) (op : EdOp α) : List (Editor α) :=
  match evalEd cx pool op with
  | some r => pool ++ [r]
  | none => pool

/-- run a program from the empty pool -/
def runEd (ops : List (EdOp α)) : List (Editor α) := ops.foldl (stepEd cx) []

end prog

section progfacts
variable {α : Type} [DecidableEq α] {cx : Ctx α}

theorem withEd_some {pool : List (Editor α)} {i : Nat} {f : Editor α → R (Editor α)} {r : Editor α}
    (h : withEd pool i f = some r) : ∃ ed, pool[i]? = some ed ∧ ed ∈ pool ∧ f ed = .ok r := by
  unfold withEd at h
  split at h
  · rename_i ed hed
    split at h
    · rename_i r' hr
      cases h
      exact ⟨ed, hed, List.mem_of_getElem? hed, hr⟩
    · cases h
  · cases h

/-- what a step can produce: a new root, a selection of a member, a commit of a member, the
`CommitAll` of a member, or a member with another text / other options -/
inductive Produced (cx : Ctx α) (pool : List (Editor α)) (r : Editor α) : Prop
  | edit (t : List α) (o : Options α) : r = .root t o → Produced cx pool r
  | select (ed : Editor α) : ed ∈ pool → ed.Selects cx r → Produced cx pool r
  | commit (ed : Editor α) : ed ∈ pool → ed.commit cx = .ok r → Produced cx pool r
  | commitAll (ed : Editor α) : ed ∈ pool → ed.commitAll cx = .ok r → Produced cx pool r
  | withOpts (ed : Editor α) (o : Options α) : ed ∈ pool → r = ed.withOpts o → Produced cx pool r
  | sameBut (ed : Editor α) : ed ∈ pool → ed.SameBut r → Produced cx pool r

theorem evalEd_produced {pool : List (Editor α)} {op : EdOp α} {r : Editor α}
    (h : evalEd cx pool op = some r) : Produced cx pool r := by
  cases op with
  | edit t o => cases h; exact .edit t o rfl
  | chars i s e => obtain ⟨ed, -, hm, hr⟩ := withEd_some h; exact .select ed hm (.chars hr)
  | charsFrom i s => obtain ⟨ed, -, hm, hr⟩ := withEd_some h; exact .select ed hm (.charsFrom hr)
  | charsTo i e => obtain ⟨ed, -, hm, hr⟩ := withEd_some h; exact .select ed hm (.charsTo hr)
  | lines i s e => obtain ⟨ed, -, hm, hr⟩ := withEd_some h; exact .select ed hm (.linesSel hr)
  | linesFrom i s => obtain ⟨ed, -, hm, hr⟩ := withEd_some h; exact .select ed hm (.linesFrom hr)
  | linesTo i e => obtain ⟨ed, -, hm, hr⟩ := withEd_some h; exact .select ed hm (.linesTo hr)
  | commit i => obtain ⟨ed, -, hm, hr⟩ := withEd_some h; exact .commit ed hm hr
  | commitAll i => obtain ⟨ed, -, hm, hr⟩ := withEd_some h; exact .commitAll ed hm hr
  | withOptions i o =>
    obtain ⟨ed, -, hm, hr⟩ := withEd_some (f := fun ed => pure (ed.withOpts o)) h
    exact .withOpts ed o hm (pure_ok.1 hr).symm
  | insert i pos t =>
    obtain ⟨ed, -, hm, hr⟩ := withEd_some h; exact .sameBut ed hm (insert_shape cx _ _ _ _ hr)
  | delete i s e =>
    obtain ⟨ed, -, hm, hr⟩ := withEd_some h; exact .sameBut ed hm (delete_shape _ _ _ _ hr)
  | overtype i pos t =>
    obtain ⟨ed, -, hm, hr⟩ := withEd_some h; exact .sameBut ed hm (overtype_shape _ _ _ _ hr)
  | collapseSpaceOpts i o =>
    obtain ⟨ed, -, hm, hr⟩ := withEd_some h
    exact .sameBut ed hm (collapseSpaceOpts_shape cx _ _ _ hr)
  | wrapOpts i w o =>
    obtain ⟨ed, -, hm, hr⟩ := withEd_some h; exact .sameBut ed hm (wrapOpts_shape cx _ _ _ _ hr)
  | justifyOpts i w o =>
    obtain ⟨ed, -, hm, hr⟩ := withEd_some h; exact .sameBut ed hm (justifyOpts_shape cx _ _ _ _ hr)
  | alignOpts i al w o =>
    obtain ⟨ed, -, hm, hr⟩ := withEd_some h; exact .sameBut ed hm (alignOpts_shape cx _ _ _ _ _ hr)
  | indentOpts i lv o =>
    obtain ⟨ed, -, hm, hr⟩ := withEd_some h; exact .sameBut ed hm (indentOpts_shape cx _ _ _ _ hr)
  | insertTableOpts i pos data w o =>
    obtain ⟨ed, -, hm, hr⟩ := withEd_some h
    exact .sameBut ed hm (insertTableOpts_shape cx _ _ _ _ _ _ hr)
  | insertDefTableOpts i pos defs w o =>
    obtain ⟨ed, -, hm, hr⟩ := withEd_some h
    exact .sameBut ed hm (insertDefTableOpts_shape cx _ _ _ _ _ _ hr)
  | insertTwoColumnsOpts i pos l r' gap w pct o =>
    obtain ⟨ed, -, hm, hr⟩ := withEd_some h
    exact .sameBut ed hm (insertTwoColumnsOpts_shape cx _ _ _ _ _ _ _ _ _ hr)
  | setText i t =>
    obtain ⟨ed, -, hm, hr⟩ := withEd_some (f := fun ed => pure (ed.withText t)) h
    exact .sameBut ed hm ⟨t, (pure_ok.1 hr).symm⟩

/-- everything a step produces from a pool of (ordered-)cut editors is (ordered-)cut -/
theorem Produced.cut (hs : cx.Sane) {pool : List (Editor α)} {r : Editor α}
    (hp : ∀ ed ∈ pool, ed.Cut cx) (h : Produced cx pool r) : r.Cut cx := by
  cases h with
  | edit t o he => subst he; exact .root t o
  | select ed hm hsel => exact hsel.cut hs (hp ed hm)
  | commit ed hm hc => exact (hp ed hm).commit hc
  | commitAll ed hm hc =>
    rw [commitAll_eq_fullText hs (hp ed hm).wellCut] at hc
    cases hc
    exact .root _ _
  | withOpts ed o hm he => subst he; exact (hp ed hm).withOpts o
  | sameBut ed hm hsb => exact hsb.cut (hp ed hm)

theorem stepEd_cut (hs : cx.Sane) (pool : List (Editor α)) (op : EdOp α)
    (hp : ∀ ed ∈ pool, ed.Cut cx) : ∀ ed ∈ stepEd cx pool op, ed.Cut cx := by
  unfold stepEd
  split
  · rename_i r hr
    intro ed hm
    rcases List.mem_append.1 hm with hm | hm
    · exact hp ed hm
    · rw [List.mem_singleton.1 hm]
      exact (evalEd_produced hr).cut hs hp
  · exact hp

theorem foldl_stepEd_cut (hs : cx.Sane) (ops : List (EdOp α)) :
    ∀ pool : List (Editor α), (∀ ed ∈ pool, ed.Cut cx) → ∀ ed ∈ ops.foldl (stepEd cx) pool, ed.Cut cx := by
  induction ops with
  | nil => intro pool hp; exact hp
  | cons op rest ih => intro pool hp; exact ih _ (stepEd_cut hs pool op hp)

/-- **4(a), strong form**: after ANY program every Editor in the pool — at any nesting depth,
after any edits — has its whole ancestor chain cut at ordered atom boundaries -/
theorem runEd_cut (hs : cx.Sane) (ops : List (EdOp α)) : ∀ ed ∈ runEd cx ops, ed.Cut cx :=
  foldl_stepEd_cut hs ops [] (fun _ h => nomatch h)

/-- **4(a)** as stated -/
theorem runEd_wellCut (hs : cx.Sane) (ops : List (EdOp α)) : ∀ ed ∈ runEd cx ops, ed.WellCut cx :=
  fun ed h => (runEd_cut hs ops ed h).wellCut

/-- hence `String()`, `CommitAll()` and `Commit()` are total on every reachable Editor, and say what
(1) says -/
theorem runEd_string (hs : cx.Sane) (ops : List (EdOp α)) : ∀ ed ∈ runEd cx ops,
    ed.string cx = .ok (ed.fullText cx) ∧
      ed.commitAll cx = .ok (.root (ed.fullText cx) ed.rootOpts) ∧
      ∃ r, ed.commit cx = .ok r ∧ r.fullText cx = ed.fullText cx :=
  fun ed h =>
    have hw := runEd_wellCut hs ops ed h
    ⟨string_eq_fullText hs hw, commitAll_eq_fullText hs hw,
      let ⟨r, hr, _, _⟩ := commit_total_wellCut hs hw; ⟨r, hr, (commit_fullText hs hw hr).1⟩⟩

/-- every reachable sub-editor commits into exactly its region `[i, j)` of the stored parent -/
theorem runEd_commit_region (hs : cx.Sane) (ops : List (EdOp α)) (t : List α) (o : Options α)
    (p : Editor α) (a b : Int) (h : Editor.sub t o p a b ∈ runEd cx ops) :
    ∃ i j : Nat, i ≤ j ∧ j ≤ p.text.length ∧ a = (byteOff cx p.text i : Nat) ∧
      b = (byteOff cx p.text j : Nat) ∧
      ∀ (t' : List α) (o' : Options α),
        (Editor.sub t' o' p a b).commit cx = .ok (p.withText (p.text.take i ++ t' ++ p.text.drop j)) :=
  (runEd_cut hs ops _ h).commit_region hs

/-! ### 4(b) the C08 frame: the pool only grows -/

theorem stepEd_prefix (pool : List (Editor α)) (op : EdOp α) : pool <+: stepEd cx pool op := by
  unfold stepEd
  split
  · exact List.prefix_append _ _
  · exact List.prefix_refl _

theorem foldl_stepEd_prefix (ops : List (EdOp α)) :
    ∀ pool : List (Editor α), pool <+: ops.foldl (stepEd cx) pool := by
  induction ops with
  | nil => intro pool; exact List.prefix_refl _
  | cons op rest ih => intro pool; exact (stepEd_prefix pool op).trans (ih _)

theorem runEd_append (ops more : List (EdOp α)) :
    runEd cx (ops ++ more) = more.foldl (stepEd cx) (runEd cx ops) := by
  unfold runEd
  rw [List.foldl_append]

theorem runEd_snoc (ops : List (EdOp α)) (op : EdOp α) :
    runEd cx (ops ++ [op]) = stepEd cx (runEd cx ops) op := by
  rw [runEd_append]; rfl

/-- **4(b)**: one more call leaves every previously obtained Editor where and what it was -/
theorem runEd_prefix_snoc (ops : List (EdOp α)) (op : EdOp α) :
    runEd cx ops <+: runEd cx (ops ++ [op]) := by
  rw [runEd_snoc]; exact stepEd_prefix _ _

/-- … and so does any sequence of calls -/
theorem runEd_prefix (ops more : List (EdOp α)) : runEd cx ops <+: runEd cx (ops ++ more) := by
  rw [runEd_append]; exact foldl_stepEd_prefix _ _

/-- the value at pool index `i` never changes once it exists -/
theorem runEd_frame (ops more : List (EdOp α)) (i : Nat) (hi : i < (runEd cx ops).length) :
    (runEd cx (ops ++ more))[i]? = (runEd cx ops)[i]? := by
  obtain ⟨t, ht⟩ := runEd_prefix (cx := cx) ops more
  rw [← ht, List.getElem?_append_left hi]

/-- hence every observation of it — text, options, counts, `String()`, `Commit()` … any function of
the value — is the same after any sequence of calls as when it was obtained -/
theorem runEd_observe {β : Type} (f : Editor α → β) (ops more : List (EdOp α)) (i : Nat)
    (hi : i < (runEd cx ops).length) :
    ((runEd cx (ops ++ more))[i]?).map f = ((runEd cx ops)[i]?).map f := by
  rw [runEd_frame ops more i hi]

/-- the observations named by C08, in one statement -/
theorem runEd_observables (ops more : List (EdOp α)) (i : Nat) (ed : Editor α)
    (h : (runEd cx ops)[i]? = some ed) :
    ∃ ed', (runEd cx (ops ++ more))[i]? = some ed' ∧ ed'.text = ed.text ∧ ed'.opts = ed.opts ∧
      ed'.charCount cx = ed.charCount cx ∧ ed'.lineCount cx = ed.lineCount cx ∧
      ed'.string cx = ed.string cx ∧ ed'.commit cx = ed.commit cx ∧ ed'.ancestry = ed.ancestry := by
  have hi : i < (runEd cx ops).length := (List.getElem?_eq_some_iff.1 h).1
  exact ⟨ed, by rw [runEd_frame ops more i hi, h], rfl, rfl, rfl, rfl, rfl, rfl, rfl⟩

/-- operations are deterministic: `stepEd`/`runEd` are functions (this is `rfl`; stated in the form
of `C08_commit_deterministic`) -/
theorem stepEd_deterministic (pool : List (Editor α)) (op : EdOp α) :
    ∀ p₁ p₂, stepEd cx pool op = p₁ → stepEd cx pool op = p₂ → p₁ = p₂ :=
  fun _ _ h₁ h₂ => h₁ ▸ h₂

theorem runEd_deterministic (ops : List (EdOp α)) :
    ∀ p₁ p₂, runEd cx ops = p₁ → runEd cx ops = p₂ → p₁ = p₂ :=
  fun _ _ h₁ h₂ => h₁ ▸ h₂

/-! ### 4(c) no operation changes its receiver's ancestors -/

/-- a text-changing operation returns its receiver with another text: same options, same parent
snapshot, same byte range, same chain at every level -/
theorem evalEd_textChange {pool : List (Editor α)} {op : EdOp α} {i : Nat} {r : Editor α}
    (hop : op.textChange = some i) (h : evalEd cx pool op = some r) :
    ∃ ed, pool[i]? = some ed ∧ ed.SameBut r ∧ r.opts = ed.opts ∧ r.link = ed.link ∧
      r.ancestry = ed.ancestry := by
  have key : ∀ ed, pool[i]? = some ed → ed.SameBut r →
      ∃ ed, pool[i]? = some ed ∧ ed.SameBut r ∧ r.opts = ed.opts ∧ r.link = ed.link ∧
        r.ancestry = ed.ancestry :=
    fun ed h1 h2 => ⟨ed, h1, h2, h2.opts, h2.link, h2.ancestry⟩
  cases op <;> simp only [EdOp.textChange, Option.some.injEq, reduceCtorEq] at hop <;> subst hop
  case setText t =>
    obtain ⟨ed, hg, -, hr⟩ := withEd_some (f := fun ed => pure (ed.withText t)) h
    exact key ed hg ⟨_, (pure_ok.1 hr).symm⟩
  all_goals obtain ⟨ed, hg, -, hr⟩ := withEd_some h
  · exact key ed hg (insert_shape cx _ _ _ _ hr)
  · exact key ed hg (delete_shape _ _ _ _ hr)
  · exact key ed hg (overtype_shape _ _ _ _ hr)
  · exact key ed hg (collapseSpaceOpts_shape cx _ _ _ hr)
  · exact key ed hg (wrapOpts_shape cx _ _ _ _ hr)
  · exact key ed hg (justifyOpts_shape cx _ _ _ _ hr)
  · exact key ed hg (alignOpts_shape cx _ _ _ _ _ hr)
  · exact key ed hg (indentOpts_shape cx _ _ _ _ hr)
  · exact key ed hg (insertTableOpts_shape cx _ _ _ _ _ _ hr)
  · exact key ed hg (insertDefTableOpts_shape cx _ _ _ _ _ _ hr)
  · exact key ed hg (insertTwoColumnsOpts_shape cx _ _ _ _ _ _ _ _ _ hr)

/-- `WithOptions` changes the options and nothing else -/
theorem evalEd_withOptions {pool : List (Editor α)} {i : Nat} {o : Options α} {r : Editor α}
    (h : evalEd cx pool (.withOptions i o) = some r) :
    ∃ ed, pool[i]? = some ed ∧ r = ed.withOpts o ∧ r.text = ed.text ∧ r.opts = o ∧
      r.link = ed.link ∧ r.ancestry = ed.ancestry := by
  obtain ⟨ed, hg, -, hr⟩ := withEd_some (f := fun ed => pure (ed.withOpts o)) h
  have := (pure_ok.1 hr).symm
  subst this
  exact ⟨ed, hg, rfl, Editor.withOpts_text _ _, Editor.withOpts_opts _ _, Editor.withOpts_link _ _,
    Editor.withOpts_ancestry _ _⟩

/-- **4(c)** at the level of a program step: after a text-changing call the pool is the old pool plus
(at most) one Editor whose ancestor chain is that of the receiver -/
theorem stepEd_textChange (pool : List (Editor α)) (op : EdOp α) (i : Nat)
    (hop : op.textChange = some i) :
    stepEd cx pool op = pool ∨
      ∃ ed r, pool[i]? = some ed ∧ stepEd cx pool op = pool ++ [r] ∧ ed.SameBut r ∧
        r.opts = ed.opts ∧ r.link = ed.link ∧ r.ancestry = ed.ancestry := by
  unfold stepEd
  split
  · rename_i r hr
    obtain ⟨ed, h1, h2, h3, h4, h5⟩ := evalEd_textChange hop hr
    exact .inr ⟨ed, r, h1, rfl, h2, h3, h4, h5⟩
  · exact .inl rfl

/-- a text-changing call on a reachable Editor does not change what the REST of the chain
contributes: the result converts back to the receiver's surroundings around the new text -/
theorem evalEd_textChange_fullText (hs : cx.Sane) (ops : List (EdOp α)) {op : EdOp α} {i : Nat}
    {r : Editor α} (hop : op.textChange = some i) (h : evalEd cx (runEd cx ops) op = some r) :
    ∃ ed, (runEd cx ops)[i]? = some ed ∧
      r.fullText cx = ed.outerPre cx ++ r.text ++ ed.outerSuf cx ∧
      ed.fullText cx = ed.outerPre cx ++ ed.text ++ ed.outerSuf cx := by
  obtain ⟨ed, hg, ⟨t, rfl⟩, -⟩ := evalEd_textChange hop h
  have hw := runEd_wellCut hs ops ed (List.mem_of_getElem? hg)
  refine ⟨ed, hg, ?_, ?_⟩
  · rw [fullText_nested hs hw, Editor.withText_text]
  · have := fullText_nested hs hw ed.text
    rwa [Editor.withText_self] at this

end progfacts

/-! ## 5. instance `cxA`: a depth-2 history on a decomposed accent and a flag, by kernel evaluation -/

section demo

/-- "é 🇩🇪a" with a decomposed é: clusters `e+◌́`, space, the flag (two regional indicators), `a` -/
def demoText : List Int := [0x65, 0x301, 0x20, 0x1F1E9, 0x1F1EA, 0x61]

/-- `e := Edit(text); s1 := e.Chars(1, 3); s2 := s1.Chars(0, 1); s3 := s2.Insert(0, "x");
s3.Commit(); s3.CommitAll()` -/
def demoProg : List (EdOp Int) :=
  [.edit demoText {}, .chars 0 1 3, .chars 1 0 1, .insert 2 0 [0x78], .commit 3, .commitAll 3]

def demoRoot : Editor Int := .root demoText {}
/-- clusters `[1, 3)` of the root: bytes `[3, 12)` (after the 3 bytes of `e+◌́`, before `a`) -/
def demoSub1 : Editor Int := .sub [0x20, 0x1F1E9, 0x1F1EA] {} demoRoot 3 12
/-- cluster `[0, 1)` of that: byte `[0, 1)` -/
def demoSub2 : Editor Int := .sub [0x20] {} demoSub1 0 1

/-- the pool after the program, as values: selection, nested selection, the edited nested selection
(same chain), its `Commit` (the depth-1 editor with exactly its first cluster replaced), its
`CommitAll` (the root with exactly that region replaced) -/
example : runEd cxA demoProg =
    [demoRoot, demoSub1, demoSub2, demoSub2.withText [0x78, 0x20],
      demoSub1.withText [0x78, 0x20, 0x1F1E9, 0x1F1EA],
      .root [0x65, 0x301, 0x78, 0x20, 0x1F1E9, 0x1F1EA, 0x61] {}] := by rfl

example : (runEd cxA demoProg).map Editor.text =
    [demoText, [0x20, 0x1F1E9, 0x1F1EA], [0x20], [0x78, 0x20], [0x78, 0x20, 0x1F1E9, 0x1F1EA],
      [0x65, 0x301, 0x78, 0x20, 0x1F1E9, 0x1F1EA, 0x61]] := by decide +kernel

example : (runEd cxA demoProg).map Editor.depth = [0, 1, 2, 2, 1, 0] := by decide +kernel

/-- `String()` of every pool member: the three unedited ones give the original text, the edited one
and its commits the text with `x` inserted in front of the space -/
example : (runEd cxA demoProg).map (fun e => (e.string cxA).toOption) =
    [some demoText, some demoText, some demoText,
      some [0x65, 0x301, 0x78, 0x20, 0x1F1E9, 0x1F1EA, 0x61],
      some [0x65, 0x301, 0x78, 0x20, 0x1F1E9, 0x1F1EA, 0x61],
      some [0x65, 0x301, 0x78, 0x20, 0x1F1E9, 0x1F1EA, 0x61]] := by decide +kernel

example : (runEd cxA demoProg).map (Editor.fullText cxA) =
    [demoText, demoText, demoText,
      [0x65, 0x301, 0x78, 0x20, 0x1F1E9, 0x1F1EA, 0x61],
      [0x65, 0x301, 0x78, 0x20, 0x1F1E9, 0x1F1EA, 0x61],
      [0x65, 0x301, 0x78, 0x20, 0x1F1E9, 0x1F1EA, 0x61]] := by decide +kernel

/-- the surroundings of the depth-2 editor: the accent cluster in front; the flag and `a` behind -/
example : (demoSub2.outerPre cxA, demoSub2.outerSuf cxA) =
    ([0x65, 0x301], [0x1F1E9, 0x1F1EA, 0x61]) := by decide +kernel

theorem demoSub2_mem : demoSub2 ∈ runEd cxA demoProg :=
  List.mem_of_getElem? (i := 2) (by rfl)

/-- hypotheses of (1), (2): the depth-2 editor is well-cut … -/
example : demoSub2.WellCut cxA := runEd_wellCut cxA_Sane demoProg _ demoSub2_mem

/-- … so whatever text it carries, `String()` is the text between the unchanged surroundings -/
example (t' : List Int) (o' : Options Int) :
    ((demoSub2.withText t').withOpts o').string cxA =
      .ok ([0x65, 0x301] ++ t' ++ [0x1F1E9, 0x1F1EA, 0x61]) := by
  have hw := runEd_wellCut cxA_Sane demoProg _ demoSub2_mem
  rw [string_eq_fullText_edited cxA_Sane hw, fullTextWith_nested cxA_Sane hw]
  rfl

/-- hypotheses of (3): selections, and a selection of a selection -/
example : demoRoot.Selects cxA demoSub1 := .chars (s := 1) (e := 3) (by rfl)
example : demoSub1.Selects cxA demoSub2 := .chars (s := 0) (e := 1) (by rfl)
example : Editor.SelectsStar cxA demoRoot demoSub2 :=
  .step (.step (.refl _) (.chars (s := 1) (e := 3) (by rfl))) (.chars (s := 0) (e := 1) (by rfl))
example : demoSub2.fullText cxA = demoRoot.fullText cxA :=
  (Editor.SelectsStar.fullText_eq
    (.step (.step (.refl _) (.chars (s := 1) (e := 3) (by rfl))) (.chars (s := 0) (e := 1) (by rfl)))).1

/-- hypotheses of `commit_region`: the depth-2 editor's region of its parent is atoms `[0, 1)`, the
parent's region of the root is atoms (code points) `[2, 5)` = bytes `[3, 12)` -/
example : demoSub2.Cut cxA := runEd_cut cxA_Sane demoProg _ demoSub2_mem
example : demoSub2.Cut cxA :=
  .sub _ _ _ _ _ 0 1 (by decide) (by decide) (by decide +kernel) (by decide +kernel)
    (.sub _ _ _ _ _ 2 5 (by decide) (by decide) (by decide +kernel) (by decide +kernel) (.root _ _))

/-- hypotheses of 4(c): `insert` is a text-changing operation on pool entry 2 and returns -/
example : (EdOp.insert 2 0 [0x78] : EdOp Int).textChange = some 2 := rfl
example : ∃ r, evalEd cxA (runEd cxA (demoProg.take 3)) (.insert 2 0 [0x78]) = some r ∧
    r.ancestry = demoSub2.ancestry ∧ r.text = [0x78, 0x20] :=
  ⟨_, by rfl, by rfl, by rfl⟩

/-- 4(b) on the example: the pool after three calls is a prefix of the pool after all six -/
example : runEd cxA (demoProg.take 3) <+: runEd cxA demoProg := runEd_prefix (demoProg.take 3) (demoProg.drop 3)

/-- the hypothesis `WellCut` of (1), (2) is needed: a hand-made sub-editor cut in the middle of a rune
(byte 1 of the 2-byte `U+0301`; never produced by `Chars*`/`Lines*`, see `runEd_cut`) converts back
while it is empty and unedited, and is refused (`Err.invalidUtf8`) once it carries text -/
example : (Editor.sub [] {} (.root [0x301] {}) 1 1).string cxA = .ok [0x301] ∧
    ((Editor.sub [] {} (.root [0x301] {}) 1 1).withText [0x61]).string cxA = .error .invalidUtf8 :=
  ⟨by rfl, by rfl⟩

/-- a second history: line selection, `CharsFrom`, `Delete`, `Wrap`, `WithOptions`, an `Apply`
result, calls on a missing index (no effect) and a selection taken from a committed editor -/
def demoProg2 : List (EdOp Int) :=
  [.edit [0x61, 0x62, 0x0A, 0x63, 0x301, 0x64, 0x0A, 0x65, 0x66] {}, .lines 0 1 2, .charsFrom 1 1,
   .delete 2 0 1, .wrapOpts 2 3 none, .commit 3, .commitAll 3, .withOptions 1 { lineSep := [0x3B] },
   .setText 7 [0x7A], .commitAll 8, .commit 99, .linesTo 5 1]

example : (runEd cxA demoProg2).map Editor.text =
    [[0x61, 0x62, 0x0A, 0x63, 0x301, 0x64, 0x0A, 0x65, 0x66], [0x63, 0x301, 0x64, 0x0A], [0x64, 0x0A],
      [0x0A], [0x64, 0x0A], [0x63, 0x301, 0x0A], [0x61, 0x62, 0x0A, 0x63, 0x301, 0x0A, 0x65, 0x66],
      [0x63, 0x301, 0x64, 0x0A], [0x7A], [0x61, 0x62, 0x0A, 0x7A, 0x65, 0x66], [0x63, 0x301, 0x0A]] := by
  decide +kernel

example : (runEd cxA demoProg2).map Editor.depth = [0, 1, 2, 2, 2, 1, 0, 1, 1, 0, 2] := by decide +kernel

example : (runEd cxA demoProg2).map (fun e => (e.string cxA).toOption) =
    (runEd cxA demoProg2).map (fun e => some (e.fullText cxA)) := by decide +kernel

end demo

end RosedVerif
