/-
"No text is lost" (C07 for Wrap; C14, C15 for the composite layouts): the statements of
`RosedVerif.Spec.NoLoss` under their property names, and their transfer to the MODEL of
InsertTwoColumnsOpts / InsertDefinitionsTableOpts at cluster level (trivial segmentation).

In the model the texts are first passed through the separator pre-pass of Wrap
(`replaceAll' cx text lineSep`: every occurrence of the line separator becomes a space), so the
words that are preserved are those of `replaceAll' cx text lineSep`.
-/
import RosedVerif.Spec.NoLoss
import RosedVerif.Model.CompositeLemmas
namespace RosedVerif.NoLossModel
open RosedVerif RosedVerif.Spec RosedVerif.WrapRefine

/-! ### the specification-level statements -/

section spec
variable {α : Type} (tk : Toks α)

/-- C07, Wrap, exact form: the tokens between whitespace on the output lines, read line after
line, are the pieces of the words of the input, word after word (`pss.flatten`, `pss` one piece list
per word); every piece but the last of a word is a full line-width ending in the continuation
hyphen; dropping those hyphens gives the words back, in order -/
theorem C07_wrap_no_loss_m {w : Nat} (hw : 2 ≤ w) (hsp : tk.ws tk.sp = true)
    (hhy : tk.ws tk.hy = false) (l : List α) :
    ∃ pss : List (List (List α)),
      (Spec.wrapLines tk w l).flatMap (words tk) = pss.flatten ∧
      pss.map unhyphen = words tk l ∧
      (∀ ps ∈ pss, ps ≠ [] ∧ ∀ p ∈ ps.dropLast, p.length = w ∧ p.getLast? = some tk.hy) ∧
      (l ≠ [] → ∃ groups : List (List (List α)), groups.flatten = pss.flatten ∧
        (∀ g ∈ groups, g ≠ []) ∧ Spec.wrapLines tk w l = groups.map (joinSp tk)) :=
  wrapLines_words tk hw hsp hhy l

/-- C07, Wrap, function form: `dehyphen` (split each line at whitespace, glue every run of exactly
`w` tokens ending in the hyphen, minus that hyphen, to the next run) recovers the words of the
input, in order, provided no word can be mistaken for a continuation piece -/
theorem C07_wrap_dehyphen_m [DecidableEq α] {w : Nat} (hw : 2 ≤ w) (hsp : tk.ws tk.sp = true)
    (hhy : tk.ws tk.hy = false) (l : List α) (h : HyOK tk w l) :
    dehyphen tk w (Spec.wrapLines tk w l) = words tk l := dehyphen_wrapLines tk hw hsp hhy l h

/-- … and the hypothesis is needed by every recovery function -/
theorem C07_wrap_dehyphen_needs_HyOK_m :
    Spec.wrapLines tkN 3 [1, 2, 99, 0, 3, 4] = Spec.wrapLines tkN 3 [1, 2, 3, 4] ∧
    words tkN [1, 2, 99, 0, 3, 4] ≠ words tkN [1, 2, 3, 4] := dehyphen_impossible

/-- C14: every word of both texts is present, in order, within its column -/
theorem C14_no_loss_m (hsp : tk.ws tk.sp = true) (hhy : tk.ws tk.hy = false)
    (left right : List α) (gap width : Int) (pct : Pct) (hg : 0 ≤ gap) :
    let lw := (colWidths gap width pct).1
    let rw := (colWidths gap width pct).2
    let cols := twoColumns tk left right gap width pct
    (cols.map (List.take (lw + gap.toNat))).flatMap (words tk) = units tk lw left ∧
    (cols.map (List.drop (lw + gap.toNat))).flatMap (words tk) = units tk rw right :=
  twoColumns_units tk hsp hhy left right gap width pct hg

theorem C14_no_loss_words_m [DecidableEq α] (hsp : tk.ws tk.sp = true) (hhy : tk.ws tk.hy = false)
    (left right : List α) (gap width : Int) (pct : Pct) (hg : 0 ≤ gap)
    (hL : HyOK tk (colWidths gap width pct).1 left) (hR : HyOK tk (colWidths gap width pct).2 right) :
    let lw := (colWidths gap width pct).1
    let rw := (colWidths gap width pct).2
    let cols := twoColumns tk left right gap width pct
    dehyphen tk lw (cols.map (List.take (lw + gap.toNat))) = words tk left ∧
    dehyphen tk rw (cols.map (List.drop (lw + gap.toNat))) = words tk right :=
  twoColumns_words tk hsp hhy left right gap width pct hg hL hR

/-- C15: paragraphs in input order, term verbatim, no definition word lost -/
theorem C15_no_loss_m (hsp : tk.ws tk.sp = true) (hhy : tk.ws tk.hy = false)
    (defs : List (List α × List α)) (w : Int) :
    (defTable tk defs w).length = defs.length ∧
    ∀ (j : Nat) (hj : j < defs.length) (hj' : j < (defTable tk defs w).length),
      ∃ h0 : 0 < ((defTable tk defs w)[j]).length,
        ((((defTable tk defs w)[j])[0]).drop 2).take defs[j].1.length = defs[j].1 ∧
        (((defTable tk defs w)[j]).map (List.drop (termWidth defs + 6))).flatMap (words tk) =
          units tk (defWidth (termWidth defs) w) defs[j].2 ∧
        (words tk defs[j].2 = [] → ((defTable tk defs w)[j]).length = 1) :=
  defTable_no_loss tk hsp hhy defs w

theorem C15_no_loss_words_m [DecidableEq α] (hsp : tk.ws tk.sp = true) (hhy : tk.ws tk.hy = false)
    (defs : List (List α × List α)) (w : Int) (j : Nat) (hj : j < defs.length)
    (hj' : j < (defTable tk defs w).length)
    (h : HyOK tk (defWidth (termWidth defs) w) defs[j].2) :
    dehyphen tk (defWidth (termWidth defs) w)
      (((defTable tk defs w)[j]).map (List.drop (termWidth defs + 6))) = words tk defs[j].2 :=
  defTable_words tk hsp hhy defs w j hj hj' h

end spec

/-! ### the model at cluster level -/

section model
variable {α : Type} [DecidableEq α] (cx : Ctx α)

/-- C14, **model**: InsertTwoColumnsOpts at cluster level inserts a block of lines in which the
tokens between whitespace of the left parts (first `leftW + gap` clusters of every line) are the
units of the left text wrapped at `leftW`, and those of the right parts the units of the right text
wrapped at `rightW` — in order, nothing else; when no word can be mistaken for a continuation piece,
`dehyphen` recovers the words of both texts from the two parts -/
theorem C14_model_no_loss_m (htriv : ∀ s, cx.ends s = List.range' 1 s.length)
    (hsp : cx.isSpace cx.sp = true) (hhy : cx.isSpace cx.hy = false) (ed : Editor α) (pos : Int)
    (l r : List α) (gap width : Int) (pct : Pct) (o : Options α) (hne : ¬(l.isEmpty ∧ r.isEmpty))
    (hg : 0 ≤ gap) :
    ∃ (leftW rightW : Int) (ls : List (List α)), 2 ≤ leftW ∧ 2 ≤ rightW ∧
      leftW + gap + rightW = max width (gap + 4) ∧
      ed.insertTwoColumnsOpts cx pos l r gap width pct o =
        ed.insert cx pos (Block.mk ls (o.withDefaults cx).lineSep (!(o.withDefaults cx).noTrailing)).join ∧
      (ls.map (List.take (leftW + gap).toNat)).flatMap (words (toks cx)) =
        units (toks cx) leftW.toNat (replaceAll' cx l (o.withDefaults cx).lineSep) ∧
      (ls.map (List.drop (leftW + gap).toNat)).flatMap (words (toks cx)) =
        units (toks cx) rightW.toNat (replaceAll' cx r (o.withDefaults cx).lineSep) ∧
      (HyOK (toks cx) leftW.toNat (replaceAll' cx l (o.withDefaults cx).lineSep) →
        dehyphen (toks cx) leftW.toNat (ls.map (List.take (leftW + gap).toNat)) =
          words (toks cx) (replaceAll' cx l (o.withDefaults cx).lineSep)) ∧
      (HyOK (toks cx) rightW.toNat (replaceAll' cx r (o.withDefaults cx).lineSep) →
        dehyphen (toks cx) rightW.toNat (ls.map (List.drop (leftW + gap).toNat)) =
          words (toks cx) (replaceAll' cx r (o.withDefaults cx).lineSep)) := by
  obtain ⟨L, R, ls, hL, hR, hsum, heq, hlen, _, hline⟩ :=
    insertTwoColumnsOpts_triv_width cx htriv hsp ed pos l r gap width pct o hne hg
  have hu := juxt_units (toks cx) (lw := L.toNat) (rw := R.toNat) (by omega) (by omega) hsp hhy
    (L + gap).toNat (by omega) (replaceAll' cx l (o.withDefaults cx).lineSep)
    (replaceAll' cx r (o.withDefaults cx).lineSep) ls hlen (fun i hi => (hline i hi).1)
  refine ⟨L, R, ls, hL, hR, hsum, heq, hu.1, hu.2, ?_, ?_⟩
  · intro h
    unfold dehyphen
    rw [hu.1, rejoin_units (toks cx) (by omega) _ h]
  · intro h
    unfold dehyphen
    rw [hu.2, rejoin_units (toks cx) (by omega) _ h]

omit [DecidableEq α] in
/-- the common term width of the specification is the model's longest term -/
theorem termWidth_eq_maxLineLen (defs : List (List α × List α)) :
    termWidth defs = maxLineLen (defs.map (·.1)) := by
  have gen : ∀ (l : List (List α × List α)) (m0 : Nat),
      l.foldl (fun m d => max m d.1.length) m0 = max m0 (maxLineLen (l.map (·.1))) := by
    intro l
    induction l with
    | nil => intro m0; simp [maxLineLen_nil]
    | cons x t ih =>
      intro m0
      rw [List.foldl_cons, ih, List.map_cons, maxLineLen_cons]
      omega
  have := gen defs 0
  unfold termWidth
  omega

/-- **the model's definition paragraph IS the specification's** (term at most `T` wide) -/
theorem defParaLines_eq_defParagraph (T : Nat) (w : Int) (term defn : List α) (hT : term.length ≤ T) :
    defParaLines cx T term (defRc (Spec.wrapLines (toks cx) (defWidth T w) defn)) =
      defParagraph (toks cx) T w term defn := by
  have hrc : defRc (Spec.wrapLines (toks cx) (defWidth T w) defn) = defLines (toks cx) T w defn := rfl
  rw [hrc]
  have hne := defLines_ne_nil (toks cx) T w defn
  have hlen : (defParaLines cx T term (defLines (toks cx) T w defn)).length =
      (defLines (toks cx) T w defn).length := by
    have := List.length_pos_iff.2 hne
    rw [defParaLines_length]; omega
  apply List.ext_getElem
  · rw [hlen, defParagraph_length]
  · intro i h1 h2
    obtain ⟨pre, e, _, p0, p1⟩ := defParagraph_column (toks cx) T w term defn hT i h2
    rw [e]
    by_cases hi : i = 0
    · subst hi
      rw [defParaLines_first cx T term _ hne, p0 rfl]
      simp only [padTo, toks_sp, toks_hy, List.append_assoc, List.cons_append, List.nil_append]
    · rw [defParaLines_cont cx T term _ i (by omega) (by omega), p1 hi]
      rfl

/-- C15, **model = specification**: what InsertDefinitionsTableOpts inserts at cluster level is the
paragraph-separator join of the line-separator joins of the paragraphs of `Spec.defTable`, applied
to the definitions after the separator pre-pass of Wrap, plus the trailing separator policy — so
every clause of `C15_no_loss_m` (and of `C15_column`, …) holds of the model's paragraphs -/
theorem C15_model_spec_m (htriv : ∀ s, cx.ends s = List.range' 1 s.length)
    (hsp : cx.isSpace cx.sp = true) (ed : Editor α) (pos : Int) (defs : List (List α × List α))
    (width : Int) (o : Options α) (hne : defs ≠ []) :
    ed.insertDefTableOpts cx pos defs width o =
      ed.insert cx pos
        (joinWith (o.withDefaults cx).paraSep
          ((defTable (toks cx)
            (defs.map fun d => (d.1, replaceAll' cx d.2 (o.withDefaults cx).lineSep)) width).map
            (joinWith (o.withDefaults cx).lineSep)) ++
          (if (o.withDefaults cx).noTrailing = true then [] else (o.withDefaults cx).lineSep)) := by
  rw [insertDefTableOpts_triv_text cx htriv hsp ed pos defs width o hne]
  congr 3
  generalize (o.withDefaults cx).lineSep = sep
  have hT : termWidth (defs.map fun d => (d.1, replaceAll' cx d.2 sep)) =
      maxLineLen (defs.map (·.1)) := by
    rw [termWidth_eq_maxLineLen, List.map_map]; rfl
  have hfold : (defs.map fun d => (d.1, replaceAll' cx d.2 sep)).foldl
      (fun m d => max m d.1.length) 0 = maxLineLen (defs.map (·.1)) := hT
  simp only [defTable, hfold, List.map_map]
  apply List.map_congr_left
  intro item hitem
  simp only [Function.comp]
  have hle : item.1.length ≤ maxLineLen (defs.map (·.1)) :=
    le_maxLineLen _ _ (List.mem_map_of_mem hitem)
  rw [← defParaLines_eq_defParagraph cx _ width _ _ hle]
  have hw : (max (width - ((maxLineLen (defs.map (·.1)) : Int) + 2) - 2 - 2) 2).toNat =
      defWidth (maxLineLen (defs.map (·.1))) width := by
    unfold defWidth; split <;> omega
  unfold colLines
  rw [hw]
  rfl

/-- C15, **model, nothing lost**: with `paras` the paragraphs the model joins (one per definition,
input order), the first line of paragraph `j` contains the term verbatim at offset 2, the tokens
between whitespace after column `T + 6` of its lines are the units of the definition (after the
separator pre-pass), `dehyphen` recovers its words when `HyOK`, and a definition without a word
still has its (single) term line -/
theorem C15_model_no_loss_m (htriv : ∀ s, cx.ends s = List.range' 1 s.length)
    (hsp : cx.isSpace cx.sp = true) (hhy : cx.isSpace cx.hy = false) (ed : Editor α) (pos : Int)
    (defs : List (List α × List α)) (width : Int) (o : Options α) (hne : defs ≠ []) :
    ∃ paras : List (List (List α)),
      ed.insertDefTableOpts cx pos defs width o =
        ed.insert cx pos
          (joinWith (o.withDefaults cx).paraSep (paras.map (joinWith (o.withDefaults cx).lineSep)) ++
            (if (o.withDefaults cx).noTrailing = true then [] else (o.withDefaults cx).lineSep)) ∧
      paras.length = defs.length ∧
      ∀ (j : Nat) (hj : j < defs.length) (hj' : j < paras.length),
        let T := maxLineLen (defs.map (·.1))
        let W := defWidth T width
        let defn := replaceAll' cx defs[j].2 (o.withDefaults cx).lineSep
        ∃ h0 : 0 < (paras[j]).length,
          (((paras[j])[0]).drop 2).take defs[j].1.length = defs[j].1 ∧
          ((paras[j]).map (List.drop (T + 6))).flatMap (words (toks cx)) = units (toks cx) W defn ∧
          (HyOK (toks cx) W defn →
            dehyphen (toks cx) W ((paras[j]).map (List.drop (T + 6))) = words (toks cx) defn) ∧
          (words (toks cx) defn = [] → (paras[j]).length = 1) := by
  generalize hsep : (o.withDefaults cx).lineSep = sep
  let defs' := defs.map fun d => (d.1, replaceAll' cx d.2 sep)
  have hT : termWidth defs' = maxLineLen (defs.map (·.1)) := by
    rw [termWidth_eq_maxLineLen, List.map_map]; rfl
  have hlen' : defs'.length = defs.length := List.length_map _
  refine ⟨defTable (toks cx) defs' width, ?_, ?_, ?_⟩
  · have := C15_model_spec_m cx htriv hsp ed pos defs width o hne
    rw [hsep] at this
    exact this
  · rw [defTable_length, hlen']
  · intro j hj hj' T W defn
    obtain ⟨_, h⟩ := defTable_no_loss (toks cx) hsp hhy defs' width
    obtain ⟨h0, h1, h2, h3⟩ := h j (by omega) hj'
    have e1 : defs'[j].1 = defs[j].1 := by simp only [defs', List.getElem_map]
    have e2 : defs'[j].2 = defn := by simp only [defs', defn, List.getElem_map]
    rw [hT, e2] at h2
    rw [e1] at h1
    rw [e2] at h3
    refine ⟨h0, h1, h2, ?_, h3⟩
    intro hok
    have := defTable_words (toks cx) hsp hhy defs' width j (by omega) hj' (by rw [hT, e2]; exact hok)
    rw [hT, e2] at this
    exact this

end model

end RosedVerif.NoLossModel
