/-
Refinement: the model of manip.Wrap (transliterated Go loops with fuel) computes the greedy-wrap
specification `Spec.wrapLines` when every atom is its own cluster (trivial segmentation).
-/
import RosedVerif.Model.Manip
import RosedVerif.Model.OptionsLemmas
import RosedVerif.Spec.WrapLemmas
namespace RosedVerif.WrapRefine

section
variable {α : Type} (cx : Ctx α)

/-- the `Spec.Toks` view of a context -/
def toks (cx : Ctx α) : Spec.Toks α := ⟨cx.isSpace, cx.sp, cx.hy⟩

@[simp] theorem toks_ws : (toks cx).ws = cx.isSpace := rfl
@[simp] theorem toks_sp : (toks cx).sp = cx.sp := rfl
@[simp] theorem toks_hy : (toks cx).hy = cx.hy := rfl

/-- what one pass of the CollapseSpace cluster loop does to an atom -/
def spaceMap (c : α) : α := if cx.isSpace c then cx.sp else c

theorem spaceMap_eq_sp (hsp : cx.isSpace cx.sp = true) (c : α) :
    spaceMap cx c = cx.sp ↔ cx.isSpace c = true := by
  unfold spaceMap
  split
  · simp [*]
  · rename_i h
    constructor
    · intro e; rw [e] at h; exact absurd hsp h
    · intro e; exact absurd e h

/-! ### gem-level facts under trivial segmentation -/

theorem getD_range'_one (n k : Nat) (h : k < n) : (List.range' 1 n).getD k 0 = k + 1 := by
  rw [List.getD_eq_getElem?_getD, List.getElem?_range' h]; simp; omega

theorem clusterSpan_triv (n k : Nat) (h : k < n) :
    clusterSpan (List.range' 1 n) k = (k, k + 1) := by
  unfold clusterSpan
  rw [getD_range'_one n k h]
  by_cases hk : k = 0
  · subst hk; simp
  · rw [if_pos (by omega), getD_range'_one n (k - 1) (by omega)]
    congr 1; omega

theorem gCharAt_triv_append (htriv : ∀ s, cx.ends s = List.range' 1 s.length)
    (a : List α) (c : α) (b : List α) :
    gCharAt cx (a ++ c :: b) (a.length : Int) = .ok [c] := by
  unfold gCharAt
  simp only [htriv, List.length_range', List.length_append, List.length_cons]
  rw [if_neg (by omega)]
  simp only [Int.toNat_natCast]
  rw [clusterSpan_triv _ _ (by omega)]
  simp [sliceRunes, pure, Except.pure]

theorem gSetCharAt_triv_append (htriv : ∀ s, cx.ends s = List.range' 1 s.length)
    (a : List α) (c : α) (b : List α) (r : List α) (hr : r ≠ []) :
    gSetCharAt cx (a ++ c :: b) (a.length : Int) r = .ok (a ++ r ++ b) := by
  unfold gSetCharAt
  have : r.isEmpty = false := by cases r with
    | nil => exact absurd rfl hr
    | cons _ _ => rfl
  simp only [this, htriv, List.length_range', List.length_append, List.length_cons]
  rw [if_neg (by simp), if_neg (by omega)]
  simp only [Int.toNat_natCast]
  rw [clusterSpan_triv _ _ (by omega)]
  simp [pure, Except.pure]

theorem gSub_take_triv (htriv : ∀ s, cx.ends s = List.range' 1 s.length) (s : List α) (w : Nat)
    (hw : 1 ≤ w) (h : w - 1 ≤ s.length) : gSub cx s 0 ((w : Int) - 1) = s.take (w - 1) := by
  have := gSub_triv cx htriv s 0 (w - 1) (by omega) h
  rw [show (((w - 1 : Nat)) : Int) = (w : Int) - 1 by omega] at this
  simpa using this

theorem gSub_drop_triv (htriv : ∀ s, cx.ends s = List.range' 1 s.length) (s : List α) (w : Nat)
    (hw : 1 ≤ w) (h : w - 1 ≤ s.length) :
    gSub cx s ((w : Int) - 1) (s.length : Int) = s.drop (w - 1) := by
  have := gSub_triv cx htriv s (w - 1) s.length h (Nat.le_refl _)
  rw [show (((w - 1 : Nat)) : Int) = (w : Int) - 1 by omega] at this
  rw [this, List.take_of_length_le (by simp)]

theorem clustersFrom_triv (s : List α) (n prev : Nat) (h : prev + n = s.length) :
    clustersFrom s prev (List.range' (prev + 1) n) = (s.drop prev).map fun c => [c] := by
  induction n generalizing prev with
  | zero =>
    have : s.drop prev = [] := List.drop_eq_nil_of_le (by omega)
    simp [clustersFrom, this]
  | succ n ih =>
    have hlt : prev < s.length := by omega
    rw [List.range'_succ, clustersFrom, ih (prev + 1) (by omega)]
    rw [List.drop_eq_getElem_cons hlt]
    simp only [List.map_cons, sliceRunes, List.cons.injEq, and_true]
    rw [List.drop_eq_getElem_cons hlt, show prev + 1 - prev = 1 by omega]
    rfl

theorem clusters_triv (htriv : ∀ s, cx.ends s = List.range' 1 s.length) (s : List α) :
    clusters cx s = s.map fun c => [c] := by
  unfold clusters
  rw [htriv]
  simpa using clustersFrom_triv s s.length 0 (by simp)

end

section
variable {α : Type} [DecidableEq α] (cx : Ctx α)


/-! ### 1. CollapseSpace -/

omit [DecidableEq α] in
theorem setSpacesLoop_triv (htriv : ∀ s, cx.ends s = List.range' 1 s.length) :
    ∀ (fuel : Nat) (a b : List α), b.length < fuel →
      setSpacesLoop cx fuel (a ++ b) a.length = .ok (a ++ b.map (spaceMap cx)) := by
  intro fuel
  induction fuel with
  | zero => intro a b h; omega
  | succ fuel ih =>
    intro a b h
    cases b with
    | nil =>
      unfold setSpacesLoop
      simp only [gLen_triv cx htriv, List.append_nil, Nat.lt_irrefl, ↓reduceIte, List.map_nil]
      rfl
    | cons c b =>
      unfold setSpacesLoop
      simp only [gLen_triv cx htriv, List.length_append, List.length_cons]
      rw [if_pos (by omega), gCharAt_triv_append cx htriv]
      simp only [bind, Except.bind]
      have key := ih (a ++ [spaceMap cx c]) b (by simpa using h)
      simp only [List.length_append, List.length_cons, List.length_nil, List.append_assoc,
        List.cons_append, List.nil_append] at key
      cases hc : cx.isSpace c with
      | true =>
        rw [if_pos rfl, gSetCharAt_triv_append cx htriv _ _ _ _ (by simp)]
        simp only [spaceMap, hc, ↓reduceIte] at key
        simp only [List.append_assoc, List.cons_append, List.nil_append, key, List.map_cons,
          spaceMap, hc, ↓reduceIte]
      | false =>
        rw [if_neg (by simp)]
        simp only [spaceMap, hc, Bool.false_eq_true, ↓reduceIte] at key
        simp only [pure, Except.pure, key, List.map_cons, spaceMap, hc, Bool.false_eq_true,
          ↓reduceIte]

theorem collapseRuns_map (hsp : cx.isSpace cx.sp = true) :
    ∀ text : List α, collapseRuns cx (text.map (spaceMap cx)) = Spec.collapse (toks cx) text
  | [] => rfl
  | [c] => rfl
  | c :: d :: t => by
    have ih := collapseRuns_map hsp (d :: t)
    simp only [List.map_cons] at ih
    simp only [List.map_cons, collapseRuns, Spec.collapse, ih, spaceMap_eq_sp cx hsp]
    by_cases h1 : cx.isSpace c = true <;> by_cases h2 : cx.isSpace d = true <;>
      simp [h1, h2, spaceMap]

end

/-! ### facts about the specification (`Spec.fill`, `Spec.pieces`) -/
section
variable {α : Type} (tk : Spec.Toks α)
open Spec

theorem fill_nil_cons (w : Nat) (u : List α) (us : List (List α)) :
    fill tk w (u :: us) [] = fill tk w us u := by
  simp [fill]

theorem fill_flush {w : Nat} (p : List α) (us : List (List α)) (cur : List α) (hne : cur ≠ [])
    (h : w < cur.length + 1 + p.length) :
    fill tk w (p :: us) cur = cur :: fill tk w (p :: us) [] := by
  have he : cur.isEmpty = false := by simpa [List.isEmpty_iff] using hne
  rw [fill_nil_cons, fill, if_neg (by simp [he]), if_neg (by omega)]

theorem fill_full {w : Nat} (us : List (List α)) (cur : List α) (hne : cur ≠ [])
    (h : w ≤ cur.length) : fill tk w us cur = cur :: fill tk w us [] := by
  have he : cur.isEmpty = false := by simpa [List.isEmpty_iff] using hne
  cases us with
  | nil => simp [fill, he]
  | cons u us => exact fill_flush tk u us cur hne (by omega)

theorem fill_fit {w : Nat} (p : List α) (us : List (List α)) (cur : List α) (hne : cur ≠ [])
    (h : cur.length + 1 + p.length ≤ w) :
    fill tk w (p :: us) cur = fill tk w us (cur ++ [tk.sp] ++ p) := by
  have he : cur.isEmpty = false := by simpa [List.isEmpty_iff] using hne
  rw [fill, if_neg (by simp [he]), if_pos h]

theorem pieces_fuel' {w : Nat} (hw : 2 ≤ w) (f g : Nat) (word : List α) (hf : word.length ≤ f)
    (hg : word.length ≤ g) : pieces tk w f word = pieces tk w g word := by
  induction f generalizing word g with
  | zero => rw [pieces_single tk word _ (by omega), pieces_single tk word _ (by omega)]
  | succ f ih =>
    cases g with
    | zero => rw [pieces_single tk word _ (by omega), pieces_single tk word _ (by omega)]
    | succ g =>
      by_cases hs : word.length ≤ w
      · rw [pieces_single tk word _ hs, pieces_single tk word _ hs]
      · simp only [pieces, if_neg hs]
        rw [ih g _ (by simp only [List.length_drop]; omega) (by simp only [List.length_drop]; omega)]

theorem pieces_long {w : Nat} (hw : 2 ≤ w) (word : List α) (h : w < word.length) :
    pieces tk w word.length word =
      (word.take (w - 1) ++ [tk.hy]) ::
        pieces tk w (word.drop (w - 1)).length (word.drop (w - 1)) := by
  rw [pieces_fuel' tk hw word.length (word.length + 1) word (by omega) (by omega), pieces,
    if_neg (by omega),
    pieces_fuel' tk hw word.length _ (word.drop (w - 1)) (by simp only [List.length_drop]; omega)
      (Nat.le_refl _)]

theorem wordsAux_ws_cons (cur : List α) (c : α) (t : List α) (h : tk.ws c = true) :
    wordsAux tk cur (c :: t) = (if cur.isEmpty then [] else [cur.reverse]) ++ wordsAux tk [] t := by
  rw [wordsAux, if_pos h]
  split <;> rfl

theorem wordsAux_collapse (hsp : tk.ws tk.sp = true) :
    ∀ (l cur : List α), wordsAux tk cur (collapse tk l) = wordsAux tk cur l
  | [], _ => rfl
  | [c], cur => by
    cases hc : tk.ws c with
    | true =>
      simp only [collapse, hc, ↓reduceIte]
      rw [wordsAux_ws_cons tk _ _ _ hsp, wordsAux_ws_cons tk _ _ _ hc]
    | false => simp only [collapse, hc, Bool.false_eq_true, ↓reduceIte]
  | c :: d :: t, cur => by
    have ih := wordsAux_collapse hsp (d :: t)
    cases hc : tk.ws c with
    | true =>
      cases hd : tk.ws d with
      | true =>
        simp only [collapse, hc, hd, Bool.and_self, ↓reduceIte]
        rw [ih, wordsAux_ws_cons tk _ _ _ hc, wordsAux_ws_cons tk _ _ _ hd,
          wordsAux_ws_cons tk _ _ _ hd]
        simp
      | false =>
        simp only [collapse, hc, hd, Bool.and_false, Bool.false_eq_true, ↓reduceIte]
        rw [wordsAux_ws_cons tk _ _ _ hsp, ih, wordsAux_ws_cons tk _ _ _ hc]
    | false =>
      simp only [collapse, hc, Bool.false_and, Bool.false_eq_true, ↓reduceIte]
      rw [wordsAux, if_neg (by simp [hc]), ih, wordsAux.eq_2 tk cur c, if_neg (by simp [hc])]

theorem words_collapse (hsp : tk.ws tk.sp = true) (l : List α) :
    words tk (collapse tk l) = words tk l := wordsAux_collapse tk hsp l []

theorem collapse_mem_ws :
    ∀ (l : List α) (c : α), c ∈ collapse tk l → tk.ws c = true → c = tk.sp
  | [], c, h, _ => by simp [collapse] at h
  | [a], c, h, hc => by
    simp only [collapse, List.mem_singleton] at h
    subst h
    split
    · rfl
    · rename_i hn
      split at hc <;> simp_all
  | a :: d :: t, c, h, hc => by
    have ih := collapse_mem_ws (d :: t) c
    rw [collapse] at h
    split at h
    · exact ih h hc
    · rcases List.mem_cons.1 h with h | h
      · subst h
        split
        · rfl
        · split at hc <;> simp_all
      · exact ih h hc

theorem collapse_eq_nil : ∀ l : List α, collapse tk l = [] ↔ l = []
  | [] => by simp [collapse]
  | [c] => by simp [collapse]
  | c :: d :: t => by
    have ih := collapse_eq_nil (d :: t)
    rw [collapse]
    split
    · rw [ih]; simp
    · simp

end

/-! ### 2. appendWord -/
section
variable {α : Type} [DecidableEq α] (cx : Ctx α)
open Spec

omit [DecidableEq α] in
theorem appendWord_succ_triv (htriv : ∀ s, cx.ends s = List.range' 1 s.length)
    (w : Nat) (hw : 2 ≤ w) (fuel : Nat) (lines : List (List α)) (word line : List α) :
    appendWord cx (w : Int) (fuel + 1) lines word line =
      if word = [] then .ok (lines, line)
      else if line = [] then
        if word.length = w then appendWord cx w fuel (lines ++ [word]) [] []
        else if w < word.length then
          appendWord cx w fuel (lines ++ [word.take (w - 1) ++ [cx.hy]]) (word.drop (w - 1)) []
        else appendWord cx w fuel lines [] word
      else
        if line.length + 1 + word.length = w then
          appendWord cx w fuel (lines ++ [line ++ [cx.sp] ++ word]) [] []
        else if w < line.length + 1 + word.length then
          appendWord cx w fuel (lines ++ [line]) word []
        else appendWord cx w fuel lines [] (line ++ [cx.sp] ++ word) := by
  rw [appendWord]
  simp only [gLen_triv cx htriv]
  rw [if_neg (by omega)]
  cases word with
  | nil => simp only [ExceptT.stM_eq, List.length_nil, gt_iff_lt, Nat.lt_irrefl, ↓reduceIte]; rfl
  | cons c word =>
    cases line with
    | nil =>
      simp only [ExceptT.stM_eq, List.length_cons, gt_iff_lt, Nat.zero_lt_succ, ↓reduceIte,
        List.length_nil, Int.cast_ofNat_Int, Int.natCast_add, bne_self_eq_false, Bool.false_eq_true,
        Int.add_zero, Int.zero_add, beq_iff_eq, List.nil_append, BEq.rfl, reduceCtorEq]
      have e1 : ((word.length : Int) + 1 = w) ↔ (word.length + 1 = w) := by omega
      have e2 : ((w : Int) < (word.length : Int) + 1) ↔ (w < word.length + 1) := by omega
      simp only [e1, e2]
      by_cases h1 : word.length + 1 = w
      · simp only [h1, ↓reduceIte]
      · by_cases h2 : w < word.length + 1
        · simp only [h1, h2, ↓reduceIte]
          rw [gSub_take_triv cx htriv _ w (by omega) (by simp; omega)]
          have := gSub_drop_triv cx htriv (c :: word) w (by omega) (by simp; omega)
          simp only [List.length_cons, Int.natCast_add, Int.cast_ofNat_Int] at this
          rw [this]
        · simp only [h1, h2, ↓reduceIte]
    | cons d line =>
      simp only [ExceptT.stM_eq, List.length_cons, gt_iff_lt, Nat.zero_lt_succ, ↓reduceIte,
        Int.natCast_add, Int.cast_ofNat_Int, bne_iff_ne, ne_eq, ite_not, beq_iff_eq,
        List.cons_append, List.append_assoc, reduceCtorEq, List.nil_append]
      have e0 : ¬ ((line.length : Int) + 1 = 0) := by omega
      simp only [e0, ↓reduceIte]
      have e1 : ((line.length : Int) + 1 + ((word.length : Int) + 1 + 1) = w) ↔
          (line.length + 1 + 1 + (word.length + 1) = w) := by omega
      have e2 : ((w : Int) < (line.length : Int) + 1 + ((word.length : Int) + 1 + 1)) ↔
          (w < line.length + 1 + 1 + (word.length + 1)) := by omega
      simp only [e1, e2, List.cons_append, List.append_assoc, List.nil_append]

omit [DecidableEq α] in
theorem appendWord_nil (htriv : ∀ s, cx.ends s = List.range' 1 s.length)
    (w : Nat) (hw : 2 ≤ w) (fuel : Nat) (lines : List (List α)) (line : List α) :
    appendWord cx (w : Int) (fuel + 1) lines [] line = .ok (lines, line) := by
  rw [appendWord_succ_triv cx htriv w hw, if_pos rfl]

omit [DecidableEq α] in
theorem appendWord_spec_aux (htriv : ∀ s, cx.ends s = List.range' 1 s.length)
    (w : Nat) (hw : 2 ≤ w) :
    ∀ (fuel : Nat) (lines : List (List α)) (word line : List α), word ≠ [] →
      word.length + 2 + (if line = [] then 0 else 1) ≤ fuel →
      ∃ (L : List (List α)) (cur' : List α),
        appendWord cx (w : Int) fuel lines word line = .ok (lines ++ L, cur') ∧
        cur'.length < w ∧
        ∀ rest, L ++ fill (toks cx) w rest cur' =
          fill (toks cx) w (pieces (toks cx) w word.length word ++ rest) line := by
  intro fuel
  induction fuel with
  | zero => intro lines word line _ h; omega
  | succ fuel ih =>
    intro lines word line hword hfuel
    have hwl : 0 < word.length := List.length_pos_iff.2 hword
    rw [appendWord_succ_triv cx htriv w hw, if_neg hword]
    by_cases hline : line = []
    · subst hline
      rw [if_pos rfl]
      simp only [↓reduceIte] at hfuel
      obtain ⟨fuel', rfl⟩ : ∃ f', fuel = f' + 1 := ⟨fuel - 1, by omega⟩
      by_cases h1 : word.length = w
      · rw [if_pos h1, appendWord_nil cx htriv w hw]
        refine ⟨[word], [], rfl, by simp; omega, ?_⟩
        intro rest
        simp only [pieces_single _ word _ (Nat.le_of_eq h1), List.cons_append, List.nil_append,
          fill_nil_cons]
        rw [fill_full (toks cx) rest word hword (by omega)]
      · rw [if_neg h1]
        by_cases h2 : w < word.length
        · rw [if_pos h2]
          have hd : (word.drop (w - 1)).length = word.length - (w - 1) := List.length_drop
          have hdne : word.drop (w - 1) ≠ [] := by
            intro h0; rw [h0] at hd; simp at hd; omega
          obtain ⟨L, cur', he, hc, hf⟩ := ih (lines ++ [word.take (w - 1) ++ [cx.hy]])
            (word.drop (w - 1)) [] hdne (by simp only [↓reduceIte]; omega)
          refine ⟨(word.take (w - 1) ++ [cx.hy]) :: L, cur', ?_, hc, ?_⟩
          · rw [he]; simp
          · intro rest
            simp only [pieces_long _ hw word h2, List.cons_append, fill_nil_cons, toks_hy]
            rw [fill_full (toks cx) _ (word.take (w - 1) ++ [cx.hy]) (by simp) (by simp; omega),
              ← hf rest]
        · rw [if_neg h2, appendWord_nil cx htriv w hw]
          refine ⟨[], word, by simp, by omega, ?_⟩
          intro rest
          simp only [pieces_single _ word _ (Nat.le_of_not_lt h2), List.cons_append,
            List.nil_append, fill_nil_cons]
    · rw [if_neg hline]
      rw [if_neg hline] at hfuel
      obtain ⟨fuel', rfl⟩ : ∃ f', fuel = f' + 1 := ⟨fuel - 1, by omega⟩
      by_cases h1 : line.length + 1 + word.length = w
      · rw [if_pos h1, appendWord_nil cx htriv w hw]
        refine ⟨[line ++ [cx.sp] ++ word], [], rfl, by simp; omega, ?_⟩
        intro rest
        have hs : word.length ≤ w := by omega
        simp only [pieces_single _ word _ hs, List.cons_append, List.nil_append]
        rw [fill_fit (toks cx) word rest line hline (by omega), toks_sp,
          fill_full (toks cx) rest (line ++ [cx.sp] ++ word) (by simp) (by simp; omega)]
      · rw [if_neg h1]
        by_cases h2 : w < line.length + 1 + word.length
        · rw [if_pos h2]
          obtain ⟨L, cur', he, hc, hf⟩ := ih (lines ++ [line]) word [] hword
            (by simp only [↓reduceIte]; omega)
          refine ⟨line :: L, cur', ?_, hc, ?_⟩
          · rw [he]; simp
          · intro rest
            simp only [List.cons_append]
            rw [hf rest]
            by_cases hs : word.length ≤ w
            · simp only [pieces_single _ word _ hs, List.cons_append, List.nil_append]
              rw [fill_flush (toks cx) word rest line hline h2]
            · simp only [pieces_long _ hw word (Nat.lt_of_not_le hs), List.cons_append]
              rw [fill_flush (toks cx) _ _ line hline (by simp; omega)]
        · rw [if_neg h2, appendWord_nil cx htriv w hw]
          refine ⟨[], line ++ [cx.sp] ++ word, by simp, by simp; omega, ?_⟩
          intro rest
          have hs : word.length ≤ w := by omega
          simp only [pieces_single _ word _ hs, List.cons_append, List.nil_append]
          rw [fill_fit (toks cx) word rest line hline (by omega), toks_sp]

/-! ### 3. the character loop and Wrap -/

/-- the units of a list of words -/
abbrev unitsOf (tk : Toks α) (w : Nat) (ws : List (List α)) : List (List α) :=
  ws.flatMap fun wd => pieces tk w wd.length wd

theorem wrapLoop_spec (htriv : ∀ s, cx.ends s = List.range' 1 s.length)
    (hsp : cx.isSpace cx.sp = true) (w : Nat) (hw : 2 ≤ w) :
    ∀ (t : List α), (∀ c ∈ t, cx.isSpace c = true → c = cx.sp) →
      ∀ (lines : List (List α)) (cw cl : List α),
      ∃ (lines' : List (List α)) (cw' cl' : List α),
        wrapLoop cx (w : Int) (t.map fun c => [c]) lines cw cl = .ok (lines', cw', cl') ∧
        ∃ (L : List (List α)) (cur' : List α),
          (if (!cw'.isEmpty) = true then appendWord cx (w : Int) (2 * cw'.length + 2) lines' cw' cl'
            else pure (lines', cl')) = .ok (lines ++ L, cur') ∧
          L ++ fill (toks cx) w [] cur' =
            fill (toks cx) w (unitsOf (toks cx) w (wordsAux (toks cx) cw.reverse t)) cl := by
  intro t
  induction t with
  | nil =>
    intro _ lines cw cl
    refine ⟨lines, cw, cl, rfl, ?_⟩
    by_cases hcw : cw = []
    · subst hcw
      refine ⟨[], cl, by simp [pure, Except.pure], ?_⟩
      simp [wordsAux, unitsOf]
    · have he : cw.isEmpty = false := by simpa [List.isEmpty_iff] using hcw
      obtain ⟨L, cur', h1, _, h3⟩ := appendWord_spec_aux cx htriv w hw (2 * cw.length + 2) lines cw cl
        hcw (by have := List.length_pos_iff.2 hcw; split <;> omega)
      refine ⟨L, cur', by simp only [he, Bool.not_false, ↓reduceIte, h1], ?_⟩
      have hr : cw.reverse.isEmpty = false := by simpa using he
      rw [h3 []]
      simp only [wordsAux, hr, Bool.false_eq_true, ↓reduceIte, List.reverse_reverse, unitsOf,
        List.flatMap_cons, List.flatMap_nil]
  | cons c t ih =>
    intro hall lines cw cl
    have hall' : ∀ d ∈ t, cx.isSpace d = true → d = cx.sp :=
      fun d hd => hall d (List.mem_cons_of_mem _ hd)
    simp only [List.map_cons]
    rw [wrapLoop]
    by_cases hc : c = cx.sp
    · have hws : (toks cx).ws c = true := by rw [hc]; exact hsp
      simp only [if_pos hc]
      by_cases hcw : cw = []
      · subst hcw
        rw [show 2 * ([] : List α).length + 2 = 1 + 1 from rfl, appendWord_nil cx htriv w hw]
        simp only [bind, Except.bind]
        obtain ⟨lines', cw', cl', h1, L, cur', h2, h3⟩ := ih hall' lines [] cl
        refine ⟨lines', cw', cl', h1, L, cur', h2, ?_⟩
        rw [h3, wordsAux_ws_cons _ _ _ _ hws]
        simp
      · have he : cw.reverse.isEmpty = false := by simpa [List.isEmpty_iff] using hcw
        obtain ⟨L1, cur1, a1, _, a3⟩ := appendWord_spec_aux cx htriv w hw (2 * cw.length + 2)
          lines cw cl hcw (by have := List.length_pos_iff.2 hcw; split <;> omega)
        rw [a1]
        simp only [bind, Except.bind]
        obtain ⟨lines', cw', cl', h1, L, cur', h2, h3⟩ := ih hall' (lines ++ L1) [] cur1
        refine ⟨lines', cw', cl', h1, L1 ++ L, cur', by rw [h2, List.append_assoc], ?_⟩
        rw [List.append_assoc, h3, wordsAux_ws_cons _ _ _ _ hws, a3]
        simp only [he, Bool.false_eq_true, ↓reduceIte, List.reverse_reverse, unitsOf,
          List.flatMap_append, List.flatMap_cons, List.flatMap_nil, List.append_nil,
          List.reverse_nil]
    · have hws : ¬ (toks cx).ws c = true := fun h => hc (hall c List.mem_cons_self h)
      simp only [if_neg hc]
      obtain ⟨lines', cw', cl', h1, L, cur', h2, h3⟩ := ih hall' lines (cw ++ [c]) cl
      refine ⟨lines', cw', cl', h1, L, cur', h2, ?_⟩
      rw [h3, wordsAux.eq_2 _ cw.reverse c t, if_neg hws]
      simp

/-- the separator pre-pass of CollapseSpace / Wrap -/
def _root_.RosedVerif.replaceAll' (cx : Ctx α) (text sep : List α) : List α :=
  if sep.isEmpty then text else replaceAll text sep [cx.sp]

theorem collapseSpace_triv_gen (htriv : ∀ s, cx.ends s = List.range' 1 s.length)
    (hsp : cx.isSpace cx.sp = true) (text sep : List α) :
    collapseSpace cx text sep = .ok (collapse (toks cx) (replaceAll' cx text sep)) := by
  unfold collapseSpace
  have := setSpacesLoop_triv cx htriv ((replaceAll' cx text sep).length + 1) []
    (replaceAll' cx text sep) (by omega)
  simp only [List.nil_append, List.length_nil] at this
  unfold replaceAll' at this ⊢
  simp only [this, bind, Except.bind, collapseRuns_map cx hsp]
  rfl

theorem wrapLines_triv_toks (htriv : ∀ s, cx.ends s = List.range' 1 s.length)
    (hsp : cx.isSpace cx.sp = true) (text : List α) (w : Int) (sep : List α) :
    RosedVerif.wrapLines cx text w sep =
      .ok (Spec.wrapLines (toks cx) (max w 2).toNat (replaceAll' cx text sep)) := by
  have hW : (if w < 2 then 2 else w) = (((max w 2).toNat : Nat) : Int) := by
    split <;> omega
  have hw2 : 2 ≤ (max w 2).toNat := by omega
  generalize (max w 2).toNat = W at hW hw2
  unfold RosedVerif.wrapLines
  simp only [hW, collapseSpace_triv_gen cx htriv hsp, bind, Except.bind]
  generalize replaceAll' cx text sep = l
  by_cases hl : l = []
  · subst hl
    simp [collapse, Spec.wrapLines, pure, Except.pure]
  · have hcl : collapse (toks cx) l ≠ [] := fun h => hl ((collapse_eq_nil (toks cx) l).1 h)
    have he : (collapse (toks cx) l).isEmpty = false := by simpa [List.isEmpty_iff] using hcl
    simp only [he, Bool.false_eq_true, ↓reduceIte, clusters_triv cx htriv]
    obtain ⟨lines', cw', cl', h1, L, cur', h2, h3⟩ :=
      wrapLoop_spec cx htriv hsp W hw2 (collapse (toks cx) l)
        (fun c hc hs => collapse_mem_ws (toks cx) l c hc hs) [] [] []
    rw [h1]
    simp only
    have key : (Except.ok (if (!cur'.isEmpty) = true then L ++ [cur'] else L) : R (List (List α))) =
        .ok (Spec.wrapLines (toks cx) W l) := by
      rw [wrapLines_eq_fill_units _ _ _ hl, units, ← words_collapse (toks cx) hsp l]
      simp only [List.reverse_nil] at h3
      show _ = Except.ok (fill (toks cx) W (unitsOf (toks cx) W (wordsAux (toks cx) [] _)) [])
      rw [← h3]
      cases cur' with
      | nil => simp [fill]
      | cons a t => simp [fill]
    split at h2
    · rw [if_pos ‹_›, h2]; exact key
    · rw [if_neg ‹_›, h2]; exact key


/-! ### the requested statements, with `tk` spelled out -/

/-- 1. CollapseSpace (no separator) is `Spec.collapse`. -/
theorem _root_.RosedVerif.collapseSpace_triv (htriv : ∀ s, cx.ends s = List.range' 1 s.length)
    (hsp : cx.isSpace cx.sp = true) (text : List α) :
    collapseSpace cx text [] = .ok (Spec.collapse ⟨cx.isSpace, cx.sp, cx.hy⟩ text) :=
  collapseSpace_triv_gen cx htriv hsp text []

/-- 1'. CollapseSpace with a non-empty separator (matched at atom level by `replaceAll`). -/
theorem _root_.RosedVerif.collapseSpace_triv_sep (htriv : ∀ s, cx.ends s = List.range' 1 s.length)
    (hsp : cx.isSpace cx.sp = true) (text sep : List α) (hsep : sep ≠ []) :
    collapseSpace cx text sep =
      .ok (Spec.collapse ⟨cx.isSpace, cx.sp, cx.hy⟩ (replaceAll text sep [cx.sp])) := by
  have h := collapseSpace_triv_gen cx htriv hsp text sep
  have he : sep.isEmpty = false := by simpa [List.isEmpty_iff] using hsep
  simp only [replaceAll', he, Bool.false_eq_true, ↓reduceIte] at h
  exact h

/-- 1''. both cases at once -/
theorem _root_.RosedVerif.collapseSpace_triv_all (htriv : ∀ s, cx.ends s = List.range' 1 s.length)
    (hsp : cx.isSpace cx.sp = true) (text sep : List α) :
    collapseSpace cx text sep =
      .ok (Spec.collapse ⟨cx.isSpace, cx.sp, cx.hy⟩ (replaceAll' cx text sep)) :=
  collapseSpace_triv_gen cx htriv hsp text sep

omit [DecidableEq α] in
/-- 2 (empty word). With an empty word `appendWord` is the identity on `(lines, curLine)`. -/
theorem _root_.RosedVerif.appendWord_spec_nil (htriv : ∀ s, cx.ends s = List.range' 1 s.length)
    (width : Int) (hw : 2 ≤ width) (fuel : Nat) (hfuel : 1 ≤ fuel) (lines : List (List α))
    (curLine : List α) :
    appendWord cx width fuel lines [] curLine = .ok (lines, curLine) := by
  obtain ⟨W, rfl⟩ : ∃ W : Nat, width = W := ⟨width.toNat, by omega⟩
  obtain ⟨f, rfl⟩ : ∃ f, fuel = f + 1 := ⟨fuel - 1, by omega⟩
  exact appendWord_nil cx htriv W (by omega) f lines curLine

omit [DecidableEq α] in
/-- 2. `appendWord` on a non-empty word: it succeeds (the fuel `curWord.length + 3` suffices, in
particular `2 * curWord.length + 2`), only appends lines, leaves a current line strictly shorter
than the width, and agrees with `Spec.fill` run on the pieces of the word, for EVERY continuation
`rest` of units; in particular (`rest = []`) the final line lists agree.  No hypothesis on the
current line or on whitespace in the word is needed. -/
theorem _root_.RosedVerif.appendWord_spec (htriv : ∀ s, cx.ends s = List.range' 1 s.length)
    (width : Int) (hw : 2 ≤ width) (fuel : Nat) (lines : List (List α)) (curWord curLine : List α)
    (hne : curWord ≠ []) (hfuel : curWord.length + 3 ≤ fuel) :
    ∃ (L : List (List α)) (cur' : List α),
      appendWord cx width fuel lines curWord curLine = .ok (lines ++ L, cur') ∧
      (cur'.length : Int) < width ∧
      (∀ rest, L ++ Spec.fill ⟨cx.isSpace, cx.sp, cx.hy⟩ width.toNat rest cur' =
        Spec.fill ⟨cx.isSpace, cx.sp, cx.hy⟩ width.toNat
          (Spec.pieces ⟨cx.isSpace, cx.sp, cx.hy⟩ width.toNat curWord.length curWord ++ rest)
          curLine) ∧
      L ++ (if cur' = [] then [] else [cur']) =
        Spec.fill ⟨cx.isSpace, cx.sp, cx.hy⟩ width.toNat
          (Spec.pieces ⟨cx.isSpace, cx.sp, cx.hy⟩ width.toNat curWord.length curWord) curLine := by
  obtain ⟨W, rfl⟩ : ∃ W : Nat, width = W := ⟨width.toNat, by omega⟩
  obtain ⟨L, cur', h1, h2, h3⟩ := appendWord_spec_aux cx htriv W (by omega) fuel lines curWord
    curLine hne (by split <;> omega)
  refine ⟨L, cur', h1, by omega, h3, ?_⟩
  have := h3 []
  simp only [List.append_nil, Int.toNat_natCast] at this ⊢
  show _ = fill (toks cx) W (pieces (toks cx) W curWord.length curWord) curLine
  rw [← this]
  cases cur' with
  | nil => simp [fill]
  | cons a t => simp [fill]

omit [DecidableEq α] in
theorem _root_.RosedVerif.appendWord_spec' (htriv : ∀ s, cx.ends s = List.range' 1 s.length)
    (width : Int) (hw : 2 ≤ width) (fuel : Nat) (lines : List (List α)) (curWord curLine : List α)
    (hne : curWord ≠ []) (hfuel : 2 * curWord.length + 2 ≤ fuel) :
    ∃ (L : List (List α)) (cur' : List α),
      appendWord cx width fuel lines curWord curLine = .ok (lines ++ L, cur') ∧
      (cur'.length : Int) < width ∧
      (∀ rest, L ++ Spec.fill ⟨cx.isSpace, cx.sp, cx.hy⟩ width.toNat rest cur' =
        Spec.fill ⟨cx.isSpace, cx.sp, cx.hy⟩ width.toNat
          (Spec.pieces ⟨cx.isSpace, cx.sp, cx.hy⟩ width.toNat curWord.length curWord ++ rest)
          curLine) ∧
      L ++ (if cur' = [] then [] else [cur']) =
        Spec.fill ⟨cx.isSpace, cx.sp, cx.hy⟩ width.toNat
          (Spec.pieces ⟨cx.isSpace, cx.sp, cx.hy⟩ width.toNat curWord.length curWord) curLine :=
  appendWord_spec cx htriv width hw fuel lines curWord curLine hne
    (by have := List.length_pos_iff.2 hne; omega)

/-- 3. For trivial segmentation the transliterated Go algorithm IS the greedy specification. -/
theorem _root_.RosedVerif.wrapLines_triv (htriv : ∀ s, cx.ends s = List.range' 1 s.length)
    (hsp : cx.isSpace cx.sp = true) (text : List α) (w : Int) (sep : List α) :
    RosedVerif.wrapLines cx text w sep =
      .ok (Spec.wrapLines ⟨cx.isSpace, cx.sp, cx.hy⟩ (max w 2).toNat (replaceAll' cx text sep)) :=
  wrapLines_triv_toks cx htriv hsp text w sep

end
end RosedVerif.WrapRefine
