/-
The A→B bridge for CollapseSpace and Wrap.  On a stable vocabulary `V` (every token is a single
cluster, every ordered pair of tokens is a break junction) running the model on CODE POINTS
(instance `cxA`, real UAX #29 segmentation) gives exactly the flattening of running it on CLUSTER
TOKENS (instance `cxB`, one atom per cluster).

Hypotheses used (beyond `VocabStable V`, `[0x20] ∈ V`, all tokens in `V`):
  `hspTail : ∀ t ∈ V, 0x20 ∉ t.tail` — no cluster of the vocabulary contains U+0020 in a
  NON-HEAD position.  It is implied by `∀ t ∈ V, 0x20 ∈ t → t = [0x20]` and is needed: the stable
  vocabulary `[[0x61], [0x20], [0x600, 0x20]]` (Prepend + space is one cluster) is a counterexample
  (see the end of the file).  Clusters that START with U+0020 (e.g. space + combining mark) are
  harmless: the cluster loop of CollapseSpace replaces the whole cluster by a single space on both
  levels before anything is compared with `' '`.
-/
import RosedVerif.Model.Bridge
import RosedVerif.Model.WrapRefine
namespace RosedVerif
namespace BridgeWrap

/-! ## 0. basic facts about the two instances -/

theorem cxB_triv : ∀ s : List (List Int), cxB.ends s = List.range' 1 s.length := fun _ => rfl

theorem isSpaceRune_sp : isSpaceRune 0x20 = true := by decide

theorem cxB_sp_space : cxB.isSpace cxB.sp = true := by decide

/-- a token of a stable vocabulary is non-empty -/
theorem vocab_ne_nil {V : List (List Int)} (hV : VocabStable V = true) {t : List Int}
    (ht : t ∈ V) : t ≠ [] :=
  (stableRunes_of_vocab V hV [t] (by intro x hx; rw [List.mem_singleton] at hx; subst hx; exact ht)).ne_nil
    t List.mem_cons_self

/-- token-level whitespace test = rune-level whitespace test on the first rune -/
theorem cxB_isSpace_cons (r : Int) (t : List Int) : cxB.isSpace (r :: t) = cxA.isSpace r := rfl

theorem cxB_isSpace_eq (t : List Int) (h : t ≠ []) : cxB.isSpace t = cxA.isSpace (t.head h) := by
  cases t with
  | nil => exact absurd rfl h
  | cons r t => rfl

theorem length_le_flatten {β : Type} : ∀ (toks : List (List β)), (∀ t ∈ toks, t ≠ []) →
    toks.length ≤ toks.flatten.length
  | [], _ => Nat.le_refl _
  | t :: rest, h => by
    have := length_le_flatten rest (fun x hx => h x (List.mem_cons_of_mem _ hx))
    have := List.length_pos_iff.2 (h t List.mem_cons_self)
    simp only [List.length_cons, List.flatten_cons, List.length_append]
    omega

theorem flatten_eq_nil {β : Type} (toks : List (List β)) (h : ∀ t ∈ toks, t ≠ []) :
    toks.flatten = [] ↔ toks = [] := by
  cases toks with
  | nil => simp
  | cons t rest =>
    have := h t List.mem_cons_self
    simp [this]

theorem flatten_isEmpty {β : Type} (toks : List (List β)) (h : ∀ t ∈ toks, t ≠ []) :
    toks.flatten.isEmpty = toks.isEmpty := by
  cases toks with
  | nil => rfl
  | cons t rest =>
    have := h t List.mem_cons_self
    cases t with
    | nil => exact absurd rfl this
    | cons _ _ => rfl

theorem over_ne_nil {V : List (List Int)} (hV : VocabStable V = true) {toks : List (List Int)}
    (ht : ∀ t ∈ toks, t ∈ V) : ∀ t ∈ toks, t ≠ [] := fun t h => vocab_ne_nil hV (ht t h)

theorem over_append {V : List (List Int)} {a b : List (List Int)} (ha : ∀ t ∈ a, t ∈ V)
    (hb : ∀ t ∈ b, t ∈ V) : ∀ t ∈ a ++ b, t ∈ V := by
  intro t h
  rcases List.mem_append.1 h with h | h
  · exact ha t h
  · exact hb t h

theorem over_single {V : List (List Int)} {x : List Int} (hx : x ∈ V) : ∀ t ∈ [x], t ∈ V := by
  intro t h; rw [List.mem_singleton] at h; subst h; exact hx

theorem over_nil {V : List (List Int)} : ∀ t ∈ ([] : List (List Int)), t ∈ V := by
  intro t h; cases h

/-! ## 1. CollapseSpace -/

/-- the cluster loop at rune level: every cluster whose FIRST rune is whitespace is replaced, as a
whole, by a single U+0020 — which is what the token-level loop does (`spaceMap cxB`). -/
theorem setSpacesLoop_A {V : List (List Int)} (hV : VocabStable V = true) (hsp : [0x20] ∈ V) :
    ∀ (fuel : Nat) (a b : List (List Int)), (∀ t ∈ a ++ b, t ∈ V) → b.length < fuel →
      setSpacesLoop cxA fuel (a ++ b).flatten a.length =
        .ok (a ++ b.map (WrapRefine.spaceMap cxB)).flatten := by
  intro fuel
  induction fuel with
  | zero => intro a b _ h; omega
  | succ fuel ih =>
    intro a b hab h
    have hst := stableRunes_of_vocab V hV _ hab
    cases b with
    | nil =>
      unfold setSpacesLoop
      rw [gLen_flatten_stable _ hst]
      simp only [List.append_nil, Nat.lt_irrefl, ↓reduceIte, List.map_nil]
      rfl
    | cons c b =>
      have hcV : c ∈ V := hab c (by simp)
      have e : gCharAt cxA (a ++ c :: b).flatten (a.length : Int) = .ok c := by
        rw [gCharAt_flatten_stable _ hst a.length (by simp)]
        simp
      unfold setSpacesLoop
      rw [gLen_flatten_stable _ hst, if_pos (by simp), e]
      simp only [bind, Except.bind]
      cases c with
      | nil => exact absurd rfl (vocab_ne_nil hV hcV)
      | cons r c' =>
        simp only
        have hab' : ∀ t ∈ (a ++ [WrapRefine.spaceMap cxB (r :: c')]) ++ b, t ∈ V := by
          intro t ht
          simp only [List.append_assoc, List.cons_append, List.nil_append, List.mem_append,
            List.mem_cons] at ht
          rcases ht with ht | ht | ht
          · exact hab t (by simp [ht])
          · subst ht
            unfold WrapRefine.spaceMap
            split
            · exact hsp
            · exact hcV
          · exact hab t (by simp [ht])
        have key := ih (a ++ [WrapRefine.spaceMap cxB (r :: c')]) b hab' (by simpa using h)
        simp only [List.length_append, List.length_cons, List.length_nil, List.append_assoc,
          List.cons_append, List.nil_append] at key
        cases hr : cxA.isSpace r with
        | true =>
          have hB : cxB.isSpace (r :: c') = true := hr
          rw [if_pos rfl]
          have hs := gSetCharAt_flatten_stable _ hst a.length [cxA.sp] (by simp) (by simp)
          rw [hs]
          simp only [WrapRefine.spaceMap, hB, ↓reduceIte] at key
          simp only [List.set_append_right _ _ (Nat.le_refl _), Nat.sub_self, List.set_cons_zero,
            List.map_cons, WrapRefine.spaceMap, hB, ↓reduceIte]
          exact key
        | false =>
          have hB : cxB.isSpace (r :: c') = false := hr
          rw [if_neg (by simp)]
          simp only [WrapRefine.spaceMap, hB, Bool.false_eq_true, ↓reduceIte] at key
          simp only [pure, Except.pure, List.map_cons, WrapRefine.spaceMap, hB, Bool.false_eq_true,
            ↓reduceIte]
          exact key

/-- a token that is either the space token or does not contain U+0020 at all -/
def SpOK (t : List Int) : Prop := t = [0x20] ∨ (0x20 : Int) ∉ t

theorem collapseRuns_A_cons_ne (c : Int) (rest : List Int) (h : c ≠ 0x20) :
    collapseRuns cxA (c :: rest) = c :: collapseRuns cxA rest := by
  cases rest with
  | nil => rfl
  | cons d t =>
    rw [collapseRuns, if_neg]
    intro h1
    exact h h1.1

theorem collapseRuns_A_append (t rest : List Int) (h : (0x20 : Int) ∉ t) :
    collapseRuns cxA (t ++ rest) = t ++ collapseRuns cxA rest := by
  induction t with
  | nil => rfl
  | cons c t ih =>
    rw [List.cons_append, collapseRuns_A_cons_ne _ _ (fun e => h (by simp [e])),
      ih (fun e => h (List.mem_cons_of_mem _ e)), List.cons_append]

theorem collapseRuns_B_cons_ne (t : List Int) (rest : List (List Int)) (h : t ≠ [0x20]) :
    collapseRuns cxB (t :: rest) = t :: collapseRuns cxB rest := by
  cases rest with
  | nil => rfl
  | cons d u =>
    rw [collapseRuns, if_neg]
    intro h1
    exact h h1.1

theorem collapseRuns_mem {α : Type} [DecidableEq α] (cx : Ctx α) :
    ∀ (l : List α) (c : α), c ∈ collapseRuns cx l → c ∈ l
  | [], _, h => h
  | [_], _, h => h
  | a :: d :: t, c, h => by
    have ih := collapseRuns_mem cx (d :: t) c
    rw [collapseRuns] at h
    split at h
    · exact List.mem_cons_of_mem _ (ih h)
    · rcases List.mem_cons.1 h with h | h
      · subst h; exact List.mem_cons_self
      · exact List.mem_cons_of_mem _ (ih h)

/-- the regexp `" +" → " "` on code points agrees with the one on tokens, provided U+0020 occurs
only as the token `[0x20]` -/
theorem collapseRuns_bridge : ∀ (toks : List (List Int)), (∀ t ∈ toks, t ≠ [] ∧ SpOK t) →
    collapseRuns cxA toks.flatten = (collapseRuns cxB toks).flatten
  | [], _ => rfl
  | t :: rest, h => by
    have ih := collapseRuns_bridge rest (fun x hx => h x (List.mem_cons_of_mem _ hx))
    rcases (h t List.mem_cons_self).2 with ht | ht
    · subst ht
      cases rest with
      | nil => rfl
      | cons u rest' =>
        have hu := h u (List.mem_cons_of_mem _ List.mem_cons_self)
        rcases hu.2 with hu2 | hu2
        · subst hu2
          have e1 : ([[0x20], [0x20]] ++ rest' : List (List Int)).flatten =
              0x20 :: 0x20 :: rest'.flatten := rfl
          have e2 : (([0x20] : List Int) :: rest').flatten = 0x20 :: rest'.flatten := rfl
          rw [e2] at ih
          show collapseRuns cxA (0x20 :: 0x20 :: rest'.flatten) =
            (collapseRuns cxB ([0x20] :: [0x20] :: rest')).flatten
          rw [collapseRuns, if_pos ⟨rfl, rfl⟩, collapseRuns, if_pos ⟨rfl, rfl⟩]
          exact ih
        · cases u with
          | nil => exact absurd rfl hu.1
          | cons a u' =>
            have ha : a ≠ 0x20 := fun e => hu2 (by simp [e])
            have hne : (a :: u') ≠ [0x20] := by
              intro e; rw [e] at hu2; exact hu2 (by simp)
            show collapseRuns cxA (0x20 :: a :: (u' ++ rest'.flatten)) =
              (collapseRuns cxB ([0x20] :: (a :: u') :: rest')).flatten
            rw [collapseRuns, if_neg (fun h1 => ha h1.2), collapseRuns,
              if_neg (fun h1 => hne h1.2)]
            show 0x20 :: collapseRuns cxA ((a :: u') :: rest').flatten = _
            rw [ih]
            rfl
    · have hne : t ≠ [0x20] := by
        intro e; rw [e] at ht; exact ht (by simp)
      rw [List.flatten_cons, collapseRuns_A_append _ _ ht, collapseRuns_B_cons_ne _ _ hne, ih,
        List.flatten_cons]

/-- after the cluster loop every token is either the space token or free of U+0020 -/
theorem spaceMap_SpOK {V : List (List Int)} (hV : VocabStable V = true)
    (hspTail : ∀ t ∈ V, (0x20 : Int) ∉ t.tail) {t : List Int} (ht : t ∈ V) :
    WrapRefine.spaceMap cxB t ≠ [] ∧ SpOK (WrapRefine.spaceMap cxB t) := by
  unfold WrapRefine.spaceMap
  split
  · exact ⟨by simp [cxB], Or.inl rfl⟩
  · rename_i hns
    refine ⟨vocab_ne_nil hV ht, Or.inr ?_⟩
    cases t with
    | nil => exact absurd rfl (vocab_ne_nil hV ht)
    | cons r t' =>
      intro hm
      rcases List.mem_cons.1 hm with hm | hm
      · apply hns
        show isSpaceRune r = true
        rw [← hm]; exact isSpaceRune_sp
      · exact hspTail _ ht hm

theorem spaceMap_mem {V : List (List Int)} (hsp : [0x20] ∈ V) {t : List Int} (ht : t ∈ V) :
    WrapRefine.spaceMap cxB t ∈ V := by
  unfold WrapRefine.spaceMap
  split
  · exact hsp
  · exact ht

/-- the full statement: the token-level result `r`, its closed form, the rune-level result, and
the invariants of `r` needed downstream -/
theorem collapseSpace_bridge_full {V : List (List Int)} (hV : VocabStable V = true)
    (hsp : [0x20] ∈ V) (hspTail : ∀ t ∈ V, (0x20 : Int) ∉ t.tail)
    (toks : List (List Int)) (ht : ∀ t ∈ toks, t ∈ V) :
    ∃ r, collapseSpace cxB toks [] = .ok r ∧
      collapseSpace cxA toks.flatten [] = .ok r.flatten ∧
      r = Spec.collapse ⟨cxB.isSpace, cxB.sp, cxB.hy⟩ toks ∧
      (∀ t ∈ r, t ∈ V) ∧ (∀ t ∈ r, SpOK t) := by
  have hm : ∀ t ∈ toks.map (WrapRefine.spaceMap cxB), t ∈ V := by
    intro t h
    obtain ⟨u, hu, rfl⟩ := List.mem_map.1 h
    exact spaceMap_mem hsp (ht u hu)
  have hok : ∀ t ∈ toks.map (WrapRefine.spaceMap cxB), t ≠ [] ∧ SpOK t := by
    intro t h
    obtain ⟨u, hu, rfl⟩ := List.mem_map.1 h
    exact spaceMap_SpOK hV hspTail (ht u hu)
  refine ⟨collapseRuns cxB (toks.map (WrapRefine.spaceMap cxB)), ?_, ?_, ?_, ?_, ?_⟩
  · have := WrapRefine.setSpacesLoop_triv cxB cxB_triv (toks.length + 1) [] toks (by omega)
    simp only [List.nil_append, List.length_nil] at this
    unfold collapseSpace
    simp only [List.isEmpty_nil, ↓reduceIte, this, bind, Except.bind]
    rfl
  · have hlen := length_le_flatten toks (over_ne_nil hV ht)
    have := setSpacesLoop_A hV hsp (toks.flatten.length + 1) [] toks (by simpa using ht) (by omega)
    simp only [List.nil_append, List.length_nil] at this
    unfold collapseSpace
    simp only [List.isEmpty_nil, ↓reduceIte, this, bind, Except.bind, pure, Except.pure]
    rw [collapseRuns_bridge _ hok]
  · exact WrapRefine.collapseRuns_map cxB cxB_sp_space toks
  · intro t h
    exact hm t (collapseRuns_mem cxB _ t h)
  · intro t h
    exact (hok t (collapseRuns_mem cxB _ t h)).2

/-- **1.** CollapseSpace on code points = flattening of CollapseSpace on cluster tokens. -/
theorem _root_.RosedVerif.collapseSpace_bridge {V : List (List Int)} (hV : VocabStable V = true)
    (hsp : [0x20] ∈ V) (hspTail : ∀ t ∈ V, (0x20 : Int) ∉ t.tail)
    (toks : List (List Int)) (ht : ∀ t ∈ toks, t ∈ V) :
    ∃ r, collapseSpace cxB toks [] = .ok r ∧
      collapseSpace cxA toks.flatten [] = .ok r.flatten ∧ ∀ t ∈ r, t ∈ V := by
  obtain ⟨r, h1, h2, _, h4, _⟩ := collapseSpace_bridge_full hV hsp hspTail toks ht
  exact ⟨r, h1, h2, h4⟩

/-- 1, as an equation between `Except` values -/
theorem _root_.RosedVerif.collapseSpace_bridge_map {V : List (List Int)}
    (hV : VocabStable V = true) (hsp : [0x20] ∈ V) (hspTail : ∀ t ∈ V, (0x20 : Int) ∉ t.tail)
    (toks : List (List Int)) (ht : ∀ t ∈ toks, t ∈ V) :
    collapseSpace cxA toks.flatten [] = (collapseSpace cxB toks []).map List.flatten := by
  obtain ⟨r, h1, h2, _⟩ := collapseSpace_bridge_full hV hsp hspTail toks ht
  rw [h1, h2]; rfl

/-- 1, closed form: CollapseSpace on code points is the flattening of `Spec.collapse` on clusters -/
theorem _root_.RosedVerif.collapseSpace_bridge_spec {V : List (List Int)}
    (hV : VocabStable V = true) (hsp : [0x20] ∈ V) (hspTail : ∀ t ∈ V, (0x20 : Int) ∉ t.tail)
    (toks : List (List Int)) (ht : ∀ t ∈ toks, t ∈ V) :
    collapseSpace cxA toks.flatten [] =
      .ok (Spec.collapse ⟨cxB.isSpace, cxB.sp, cxB.hy⟩ toks).flatten := by
  obtain ⟨r, _, h2, h3, _⟩ := collapseSpace_bridge_full hV hsp hspTail toks ht
  rw [h2, h3]

/-- the natural sufficient hypothesis: no cluster other than the space itself contains U+0020 -/
theorem spTail_of_spOnly {V : List (List Int)} (h : ∀ t ∈ V, (0x20 : Int) ∈ t → t = [0x20]) :
    ∀ t ∈ V, (0x20 : Int) ∉ t.tail := by
  intro t ht hm
  have := h t ht (List.mem_of_mem_tail hm)
  rw [this] at hm
  simp at hm

/-! ## 2. appendWord -/

theorem gSub_take_A {word : List (List Int)} (hst : StableRunes word) (w : Nat) (hw : 1 ≤ w)
    (h : w - 1 ≤ word.length) :
    gSub cxA word.flatten 0 ((w : Int) - 1) = (word.take (w - 1)).flatten := by
  have := gSub_flatten_stable word hst 0 (w - 1) (by omega) h
  rw [show (((w - 1 : Nat)) : Int) = (w : Int) - 1 by omega] at this
  simpa using this

theorem gSub_drop_A {word : List (List Int)} (hst : StableRunes word) (w : Nat) (hw : 1 ≤ w)
    (h : w - 1 ≤ word.length) :
    gSub cxA word.flatten ((w : Int) - 1) (word.length : Int) = (word.drop (w - 1)).flatten := by
  have := gSub_flatten_stable word hst (w - 1) word.length h (Nat.le_refl _)
  rw [show (((w - 1 : Nat)) : Int) = (w : Int) - 1 by omega] at this
  rw [this, List.take_of_length_le (by simp)]

theorem appendWord_succ_A {V : List (List Int)} (hV : VocabStable V = true)
    (w : Nat) (hw : 2 ≤ w) (fuel : Nat) (lines : List (List Int)) (word line : List (List Int))
    (hword : ∀ t ∈ word, t ∈ V) (hline : ∀ t ∈ line, t ∈ V) :
    appendWord cxA (w : Int) (fuel + 1) lines word.flatten line.flatten =
      if word = [] then .ok (lines, line.flatten)
      else if line = [] then
        if word.length = w then appendWord cxA w fuel (lines ++ [word.flatten]) [] []
        else if w < word.length then
          appendWord cxA w fuel (lines ++ [(word.take (w - 1)).flatten ++ [0x2D]])
            (word.drop (w - 1)).flatten []
        else appendWord cxA w fuel lines [] word.flatten
      else
        if line.length + 1 + word.length = w then
          appendWord cxA w fuel (lines ++ [line.flatten ++ [0x20] ++ word.flatten]) [] []
        else if w < line.length + 1 + word.length then
          appendWord cxA w fuel (lines ++ [line.flatten]) word.flatten []
        else appendWord cxA w fuel lines [] (line.flatten ++ [0x20] ++ word.flatten) := by
  have hsw := stableRunes_of_vocab V hV word hword
  have hsl := stableRunes_of_vocab V hV line hline
  rw [appendWord]
  simp only [gLen_flatten_stable _ hsw, gLen_flatten_stable _ hsl]
  rw [if_neg (by omega)]
  by_cases hw0 : word = []
  · subst hw0
    simp only [List.length_nil, gt_iff_lt, Nat.lt_irrefl, ↓reduceIte]
    rfl
  · have hpos : 0 < word.length := List.length_pos_iff.2 hw0
    rw [if_pos hpos, if_neg hw0]
    by_cases hl0 : line = []
    · subst hl0
      simp only [List.length_nil, Int.natCast_zero, bne_self_eq_false, Bool.false_eq_true,
        ↓reduceIte, Int.add_zero, Int.zero_add, beq_iff_eq, List.flatten_nil, List.nil_append,
        BEq.rfl]
      have e1 : ((word.length : Int) = w) ↔ (word.length = w) := by omega
      have e2 : ((word.length : Int) > w) ↔ (w < word.length) := by omega
      simp only [e1, e2]
      by_cases h1 : word.length = w
      · simp only [h1, ↓reduceIte]
      · by_cases h2 : w < word.length
        · simp only [h1, h2, ↓reduceIte]
          rw [gSub_take_A hsw w (by omega) (by omega), gSub_drop_A hsw w (by omega) (by omega)]
          rfl
        · simp only [h1, h2, ↓reduceIte]
    · have hlpos : 0 < line.length := List.length_pos_iff.2 hl0
      have e0 : ((line.length : Int) != 0) = true := by simp; omega
      have e0' : ((line.length : Int) == 0) = false := by simp; omega
      simp only [e0, e0', if_neg hl0, ↓reduceIte, beq_iff_eq, Bool.false_eq_true]
      have e1 : ((line.length : Int) + ((word.length : Int) + 1) = w) ↔
          (line.length + 1 + word.length = w) := by omega
      have e2 : ((line.length : Int) + ((word.length : Int) + 1) > w) ↔
          (w < line.length + 1 + word.length) := by omega
      simp only [e1, e2]
      rfl

/-- the pair-flattening of an `appendWord` result -/
def flat2 (r : List (List (List Int)) × List (List Int)) : List (List Int) × List Int :=
  (r.1.map List.flatten, r.2.flatten)

/-- more fuel does not change an `.ok` result (any context) -/
theorem appendWord_mono {α : Type} [DecidableEq α] (cx : Ctx α) (width : Int) :
    ∀ (f g : Nat) (lines : List (List α)) (word line : List α) (r : List (List α) × List α),
      f ≤ g → appendWord cx width f lines word line = .ok r →
      appendWord cx width g lines word line = .ok r := by
  intro f
  induction f with
  | zero =>
    intro g lines word line r _ h
    exact absurd h (by simp [appendWord, throw, throwThe, MonadExceptOf.throw])
  | succ f ih =>
    intro g lines word line r hfg h
    obtain ⟨g, rfl⟩ : ∃ g', g = g' + 1 := ⟨g - 1, by omega⟩
    have hfg' : f ≤ g := by omega
    rw [appendWord] at h ⊢
    by_cases c3 : ((gLen cx line : Int) != 0) = true
    all_goals
      simp only [c3, ↓reduceIte, Bool.false_eq_true] at h ⊢
      split
      · rw [if_pos ‹_›] at h; exact h
      · rw [if_neg ‹_›] at h
        split
        · rw [if_pos ‹_›] at h
          split
          · rw [if_pos ‹_›] at h; exact ih _ _ _ _ _ hfg' h
          · rw [if_neg ‹_›] at h
            split
            · rw [if_pos ‹_›] at h
              split
              · rw [if_pos ‹_›] at h; exact ih _ _ _ _ _ hfg' h
              · rw [if_neg ‹_›] at h; exact ih _ _ _ _ _ hfg' h
            · rw [if_neg ‹_›] at h; exact ih _ _ _ _ _ hfg' h
        · rw [if_neg ‹_›] at h; exact h


theorem appendWord_zero {α : Type} [DecidableEq α] (cx : Ctx α) (width : Int)
    (lines : List (List α)) (word line : List α) :
    appendWord cx width 0 lines word line = .error .fuel := by
  rw [appendWord]; rfl

theorem appendWord_small {α : Type} [DecidableEq α] (cx : Ctx α) (width : Int) (h : width < 2)
    (fuel : Nat) (lines : List (List α)) (word line : List α) :
    appendWord cx width (fuel + 1) lines word line = .error .explicit := by
  rw [appendWord, if_pos h]; rfl

/-- simulation with the SAME fuel on both sides, natural width ≥ 2 -/
theorem appendWord_sim_nat {V : List (List Int)} (hV : VocabStable V = true) (hsp : [0x20] ∈ V)
    (w : Nat) (hw : 2 ≤ w) :
    ∀ (fuel : Nat) (lines : List (List (List Int))) (word line : List (List Int)),
      (∀ t ∈ word, t ∈ V) → (∀ t ∈ line, t ∈ V) →
      appendWord cxA (w : Int) fuel (lines.map List.flatten) word.flatten line.flatten =
        (appendWord cxB (w : Int) fuel lines word line).map flat2 ∧
      ∀ r, appendWord cxB (w : Int) fuel lines word line = .ok r → ∀ t ∈ r.2, t ∈ V := by
  intro fuel
  induction fuel with
  | zero =>
    intro lines word line _ _
    rw [appendWord_zero, appendWord_zero]
    exact ⟨rfl, fun r h => by cases h⟩
  | succ fuel ih =>
    intro lines word line hword hline
    have hspV : ∀ t ∈ [cxB.sp], t ∈ V := over_single hsp
    rw [appendWord_succ_A hV w hw fuel _ word line hword hline,
      WrapRefine.appendWord_succ_triv cxB cxB_triv w hw]
    split
    · refine ⟨rfl, ?_⟩
      intro r h; cases h; exact hline
    · split
      · split
        · have := ih (lines ++ [word]) [] [] over_nil over_nil
          simpa using this
        · split
          · have := ih (lines ++ [word.take (w - 1) ++ [cxB.hy]]) (word.drop (w - 1)) []
              (fun t h => hword t (List.mem_of_mem_drop h)) over_nil
            simpa [cxB] using this
          · have := ih lines [] word over_nil hword
            simpa using this
      · split
        · have := ih (lines ++ [line ++ [cxB.sp] ++ word]) [] [] over_nil over_nil
          simpa [cxB] using this
        · split
          · have := ih (lines ++ [line]) word [] hword over_nil
            simpa using this
          · have := ih lines [] (line ++ [cxB.sp] ++ word)  over_nil
              (over_append (over_append hline hspV) hword)
            simpa [cxB] using this


/-- **2 (same fuel).** For ANY width and ANY fuel, `appendWord` on code points is the flattening of
`appendWord` on cluster tokens run with the same fuel (errors included). -/
theorem _root_.RosedVerif.appendWord_sim {V : List (List Int)} (hV : VocabStable V = true)
    (hsp : [0x20] ∈ V) (width : Int) (fuel : Nat) (lines : List (List (List Int)))
    (word line : List (List Int)) (hword : ∀ t ∈ word, t ∈ V) (hline : ∀ t ∈ line, t ∈ V) :
    appendWord cxA width fuel (lines.map List.flatten) word.flatten line.flatten =
      (appendWord cxB width fuel lines word line).map
        (fun r => (r.1.map List.flatten, r.2.flatten)) := by
  by_cases hw : width < 2
  · cases fuel with
    | zero => rw [appendWord_zero, appendWord_zero]; rfl
    | succ fuel => rw [appendWord_small _ _ hw, appendWord_small _ _ hw]; rfl
  · obtain ⟨W, rfl⟩ : ∃ W : Nat, width = W := ⟨width.toNat, by omega⟩
    exact (appendWord_sim_nat hV hsp W (by omega) fuel lines word line hword hline).1

/-- the current line returned by the token-level `appendWord` stays inside the vocabulary -/
theorem appendWord_B_over {V : List (List Int)} (hV : VocabStable V = true)
    (hsp : [0x20] ∈ V) (width : Int) (fuel : Nat) (lines : List (List (List Int)))
    (word line : List (List Int)) (hword : ∀ t ∈ word, t ∈ V) (hline : ∀ t ∈ line, t ∈ V)
    (r : List (List (List Int)) × List (List Int))
    (h : appendWord cxB width fuel lines word line = .ok r) : ∀ t ∈ r.2, t ∈ V := by
  by_cases hw : width < 2
  · cases fuel with
    | zero => rw [appendWord_zero] at h; cases h
    | succ fuel => rw [appendWord_small _ _ hw] at h; cases h
  · obtain ⟨W, rfl⟩ : ∃ W : Nat, width = W := ⟨width.toNat, by omega⟩
    exact (appendWord_sim_nat hV hsp W (by omega) fuel lines word line hword hline).2 r h

/-- the token-level `appendWord` terminates within the model's fuel -/
theorem appendWord_B_total (width : Int) (hw : 2 ≤ width) (fuel : Nat)
    (lines : List (List (List Int))) (word line : List (List Int))
    (hf : 2 * word.length + 2 ≤ fuel) :
    ∃ r, appendWord cxB width fuel lines word line = .ok r := by
  by_cases h0 : word = []
  · subst h0
    exact ⟨_, appendWord_spec_nil cxB cxB_triv width hw fuel (by omega) lines line⟩
  · obtain ⟨L, c, h, _⟩ := appendWord_spec' cxB cxB_triv width hw fuel lines word line h0 hf
    exact ⟨_, h⟩

/-- **2.** `appendWord` bridge for any sufficient fuels (`2 * #clusters + 2` on both sides; the two
fuels may differ). -/
theorem _root_.RosedVerif.appendWord_bridge {V : List (List Int)} (hV : VocabStable V = true)
    (hsp : [0x20] ∈ V) (width : Int) (hw : 2 ≤ width) (fuelA fuelB : Nat)
    (lines : List (List (List Int))) (word line : List (List Int))
    (hword : ∀ t ∈ word, t ∈ V) (hline : ∀ t ∈ line, t ∈ V)
    (hfA : 2 * word.length + 2 ≤ fuelA) (hfB : 2 * word.length + 2 ≤ fuelB) :
    ∃ L c, appendWord cxB width fuelB lines word line = .ok (L, c) ∧
      appendWord cxA width fuelA (lines.map List.flatten) word.flatten line.flatten =
        .ok (L.map List.flatten, c.flatten) ∧
      ∀ t ∈ c, t ∈ V := by
  obtain ⟨⟨L, c⟩, h0⟩ := appendWord_B_total width hw (2 * word.length + 2) lines word line
    (Nat.le_refl _)
  have hB := appendWord_mono cxB width _ fuelB _ _ _ _ hfB h0
  have hA := appendWord_mono cxB width _ fuelA _ _ _ _ hfA h0
  refine ⟨L, c, hB, ?_, appendWord_B_over hV hsp width _ lines word line hword hline _ hB⟩
  rw [appendWord_sim hV hsp width fuelA lines word line hword hline, hA]
  rfl

/-- 2, with exactly the fuels the two models use (`2 * len + 2`, rune length resp. token length) -/
theorem _root_.RosedVerif.appendWord_bridge_model {V : List (List Int)}
    (hV : VocabStable V = true) (hsp : [0x20] ∈ V) (width : Int) (hw : 2 ≤ width)
    (lines : List (List (List Int))) (word line : List (List Int))
    (hword : ∀ t ∈ word, t ∈ V) (hline : ∀ t ∈ line, t ∈ V) :
    ∃ L c, appendWord cxB width (2 * word.length + 2) lines word line = .ok (L, c) ∧
      appendWord cxA width (2 * word.flatten.length + 2) (lines.map List.flatten) word.flatten
        line.flatten = .ok (L.map List.flatten, c.flatten) ∧
      ∀ t ∈ c, t ∈ V :=
  appendWord_bridge hV hsp width hw _ _ lines word line hword hline
    (by have := length_le_flatten word (over_ne_nil hV hword); omega) (Nat.le_refl _)


/-! ## 3. the character loop and Wrap -/

/-- for a token that is the space token or free of U+0020: "first rune is ' '" ⇔ "token is ' '" -/
theorem head_sp_iff (r : Int) (t' : List Int) (h : SpOK (r :: t')) :
    r = cxA.sp ↔ (r :: t') = cxB.sp := by
  constructor
  · intro e
    rcases h with h | h
    · exact h
    · exact absurd (by rw [e]; exact List.mem_cons_self) h
  · intro e
    exact (List.cons.inj e).1

theorem wrapLoop_sim {V : List (List Int)} (hV : VocabStable V = true) (hsp : [0x20] ∈ V)
    (width : Int) (hw : 2 ≤ width) :
    ∀ (toks : List (List Int)), (∀ t ∈ toks, t ∈ V) → (∀ t ∈ toks, SpOK t) →
      ∀ (lines : List (List (List Int))) (cw cl : List (List Int)),
      (∀ t ∈ cw, t ∈ V) → (∀ t ∈ cl, t ∈ V) →
      ∃ L w c, wrapLoop cxB width (toks.map fun t => [t]) lines cw cl = .ok (L, w, c) ∧
        wrapLoop cxA width toks (lines.map List.flatten) cw.flatten cl.flatten =
          .ok (L.map List.flatten, w.flatten, c.flatten) ∧
        (∀ t ∈ w, t ∈ V) ∧ (∀ t ∈ c, t ∈ V) := by
  intro toks
  induction toks with
  | nil =>
    intro _ _ lines cw cl hcw hcl
    exact ⟨lines, cw, cl, rfl, rfl, hcw, hcl⟩
  | cons t rest ih =>
    intro hV' hok lines cw cl hcw hcl
    have hVr : ∀ t ∈ rest, t ∈ V := fun x hx => hV' x (List.mem_cons_of_mem _ hx)
    have hokr : ∀ t ∈ rest, SpOK t := fun x hx => hok x (List.mem_cons_of_mem _ hx)
    have htV : t ∈ V := hV' t List.mem_cons_self
    cases t with
    | nil => exact absurd rfl (vocab_ne_nil hV htV)
    | cons r t' =>
      have hiff := head_sp_iff r t' (hok _ List.mem_cons_self)
      simp only [List.map_cons]
      rw [wrapLoop, wrapLoop]
      simp only
      by_cases hc : r = cxA.sp
      · have hc' : (r :: t') = cxB.sp := hiff.1 hc
        rw [if_pos hc, if_pos hc']
        obtain ⟨L1, c1, a1, a2, a3⟩ :=
          appendWord_bridge_model hV hsp width hw lines cw cl hcw hcl
        rw [a1, a2]
        simp only [bind, Except.bind]
        exact ih hVr hokr L1 [] c1 over_nil a3
      · have hc' : ¬ (r :: t') = cxB.sp := fun e => hc (hiff.2 e)
        rw [if_neg hc, if_neg hc']
        have := ih hVr hokr lines (cw ++ [r :: t']) cl (over_append hcw (over_single htV)) hcl
        simpa only [List.flatten_append, List.flatten_cons, List.flatten_nil, List.append_nil]
          using this

/-- **3.** Wrap on code points = line-wise flattening of Wrap on cluster tokens. -/
theorem wrapLines_bridge_full {V : List (List Int)} (hV : VocabStable V = true)
    (hsp : [0x20] ∈ V) (hspTail : ∀ t ∈ V, (0x20 : Int) ∉ t.tail)
    (toks : List (List Int)) (ht : ∀ t ∈ toks, t ∈ V) (w : Int) :
    ∃ r, wrapLines cxB toks w [] = .ok r ∧
      wrapLines cxA toks.flatten w [] = .ok (r.map List.flatten) := by
  obtain ⟨ct, c1, c2, _, c4, c5⟩ := collapseSpace_bridge_full hV hsp hspTail toks ht
  have hW : (2 : Int) ≤ (if w < 2 then 2 else w) := by split <;> omega
  generalize hWd : (if w < 2 then (2 : Int) else w) = W at hW
  unfold wrapLines
  simp only [hWd, c1, c2, bind, Except.bind]
  rw [flatten_isEmpty ct (over_ne_nil hV c4)]
  by_cases he : ct = []
  · subst he
    exact ⟨[[]], rfl, rfl⟩
  · have he' : ct.isEmpty = false := by simpa [List.isEmpty_iff] using he
    simp only [he', Bool.false_eq_true, ↓reduceIte,
      clusters_flatten_stable ct (stableRunes_of_vocab V hV ct c4),
      WrapRefine.clusters_triv cxB cxB_triv]
    obtain ⟨L, cw, cl, l1, l2, l3, l4⟩ :=
      wrapLoop_sim hV hsp W hW ct c4 c5 [] [] [] over_nil over_nil
    have l2' : wrapLoop cxA W ct [] [] [] = .ok (L.map List.flatten, cw.flatten, cl.flatten) := l2
    rw [l1, l2']
    simp only
    rw [flatten_isEmpty cw (over_ne_nil hV l3)]
    by_cases hcw : cw = []
    · subst hcw
      simp only [List.isEmpty_nil, Bool.not_true, Bool.false_eq_true, ↓reduceIte, pure,
        Except.pure]
      rw [flatten_isEmpty cl (over_ne_nil hV l4)]
      refine ⟨_, rfl, ?_⟩
      split <;> simp
    · have hcw' : cw.isEmpty = false := by simpa [List.isEmpty_iff] using hcw
      simp only [hcw', Bool.not_false, ↓reduceIte]
      obtain ⟨L2, c2', a1, a2, a3⟩ := appendWord_bridge_model hV hsp W hW L cw cl l3 l4
      rw [a1, a2]
      simp only [pure, Except.pure]
      rw [flatten_isEmpty c2' (over_ne_nil hV a3)]
      refine ⟨_, rfl, ?_⟩
      split <;> simp


/-- **3.** -/
theorem _root_.RosedVerif.wrapLines_bridge {V : List (List Int)} (hV : VocabStable V = true)
    (hsp : [0x20] ∈ V) (hspTail : ∀ t ∈ V, (0x20 : Int) ∉ t.tail)
    (toks : List (List Int)) (ht : ∀ t ∈ toks, t ∈ V) (w : Int) :
    ∃ r, wrapLines cxB toks w [] = .ok r ∧
      wrapLines cxA toks.flatten w [] = .ok (r.map List.flatten) :=
  wrapLines_bridge_full hV hsp hspTail toks ht w

/-- 3, as an equation between `Except` values -/
theorem _root_.RosedVerif.wrapLines_bridge_map {V : List (List Int)} (hV : VocabStable V = true)
    (hsp : [0x20] ∈ V) (hspTail : ∀ t ∈ V, (0x20 : Int) ∉ t.tail)
    (toks : List (List Int)) (ht : ∀ t ∈ toks, t ∈ V) (w : Int) :
    wrapLines cxA toks.flatten w [] = (wrapLines cxB toks w []).map (List.map List.flatten) := by
  obtain ⟨r, h1, h2⟩ := wrapLines_bridge_full hV hsp hspTail toks ht w
  rw [h1, h2]; rfl

/-- **4.** On a stable vocabulary the real-segmentation model of manip.Wrap IS the greedy
specification on clusters. -/
theorem _root_.RosedVerif.wrapLines_bridge_spec {V : List (List Int)} (hV : VocabStable V = true)
    (hsp : [0x20] ∈ V) (hspTail : ∀ t ∈ V, (0x20 : Int) ∉ t.tail)
    (toks : List (List Int)) (ht : ∀ t ∈ toks, t ∈ V) (w : Int) :
    wrapLines cxA toks.flatten w [] =
      .ok ((Spec.wrapLines ⟨cxB.isSpace, cxB.sp, cxB.hy⟩ (max w 2).toNat toks).map
        List.flatten) := by
  obtain ⟨r, h1, h2⟩ := wrapLines_bridge_full hV hsp hspTail toks ht w
  have h3 := wrapLines_triv cxB cxB_triv cxB_sp_space toks w []
  have e : replaceAll' cxB toks [] = toks := rfl
  rw [e, h1] at h3
  cases h3
  exact h2

/-! ### the clusters of the output lines are the specification's lines -/

section specmem
variable {α : Type} (tk : Spec.Toks α)
open Spec

theorem fill_mem_tokens (w : Nat) : ∀ (us : List (List α)) (cur : List α),
    ∀ l ∈ fill tk w us cur, ∀ c ∈ l, c ∈ cur ∨ c = tk.sp ∨ ∃ u ∈ us, c ∈ u
  | [], cur, l, hl, c, hc => by
    unfold fill at hl
    split at hl
    · cases hl
    · rw [List.mem_singleton] at hl; subst hl; exact Or.inl hc
  | u :: us, cur, l, hl, c, hc => by
    have lift : (c ∈ u ∨ c = tk.sp ∨ ∃ v ∈ us, c ∈ v) →
        c ∈ cur ∨ c = tk.sp ∨ ∃ v ∈ u :: us, c ∈ v := by
      rintro (h | h | ⟨v, hv, h⟩)
      · exact Or.inr (Or.inr ⟨u, List.mem_cons_self, h⟩)
      · exact Or.inr (Or.inl h)
      · exact Or.inr (Or.inr ⟨v, List.mem_cons_of_mem _ hv, h⟩)
    unfold fill at hl
    split at hl
    · exact lift (fill_mem_tokens w us u l hl c hc)
    · split at hl
      · rcases fill_mem_tokens w us _ l hl c hc with h | h | ⟨v, hv, h⟩
        · rcases List.mem_append.1 h with h | h
          · rcases List.mem_append.1 h with h | h
            · exact Or.inl h
            · rw [List.mem_singleton] at h; exact Or.inr (Or.inl h)
          · exact Or.inr (Or.inr ⟨u, List.mem_cons_self, h⟩)
        · exact Or.inr (Or.inl h)
        · exact Or.inr (Or.inr ⟨v, List.mem_cons_of_mem _ hv, h⟩)
      · rcases List.mem_cons.1 hl with hl | hl
        · subst hl; exact Or.inl hc
        · exact lift (fill_mem_tokens w us u l hl c hc)

/-- every token of a wrapped line is a token of the input, a space or a hyphen -/
theorem wrapLines_mem_tokens (w : Nat) (l : List α) :
    ∀ line ∈ Spec.wrapLines tk w l, ∀ c ∈ line, c ∈ l ∨ c = tk.sp ∨ c = tk.hy := by
  intro line hl c hc
  unfold Spec.wrapLines at hl
  split at hl
  · rw [List.mem_singleton] at hl; subst hl; cases hc
  · rcases fill_mem_tokens tk w _ _ line hl c hc with h | h | ⟨u, hu, h⟩
    · cases h
    · exact Or.inr (Or.inl h)
    · obtain ⟨wd, hwd, hp⟩ := List.mem_flatMap.1 hu
      rcases pieces_mem_tokens tk w wd wd.length u hp c h with h | h
      · left
        have : c ∈ (words tk l).flatten := List.mem_flatten.2 ⟨wd, hwd, h⟩
        rw [words_flatten] at this
        exact (List.mem_filter.1 this).1
      · exact Or.inr (Or.inr h)

end specmem

/-- **4'.** With the hyphen in the vocabulary: Wrap on code points succeeds, and segmenting each
output line (real UAX #29 segmentation) gives back exactly the lines of the greedy specification
on clusters; in particular `gLen` of a line is the token count of the specification's line.  So
all clauses of Spec/WrapLemmas.lean (width, greedy, hyphenation shape, idempotence) transfer. -/
theorem _root_.RosedVerif.wrapLines_bridge_clusters {V : List (List Int)}
    (hV : VocabStable V = true) (hsp : [0x20] ∈ V) (hhy : [0x2D] ∈ V)
    (hspTail : ∀ t ∈ V, (0x20 : Int) ∉ t.tail)
    (toks : List (List Int)) (ht : ∀ t ∈ toks, t ∈ V) (w : Int) :
    ∃ r, wrapLines cxA toks.flatten w [] = .ok r ∧
      r.map (clusters cxA) = Spec.wrapLines ⟨cxB.isSpace, cxB.sp, cxB.hy⟩ (max w 2).toNat toks ∧
      r.map (gLen cxA) =
        (Spec.wrapLines ⟨cxB.isSpace, cxB.sp, cxB.hy⟩ (max w 2).toNat toks).map List.length := by
  refine ⟨_, wrapLines_bridge_spec hV hsp hspTail toks ht w, ?_, ?_⟩
  all_goals
    rw [List.map_map]
    have hover : ∀ line ∈ Spec.wrapLines ⟨cxB.isSpace, cxB.sp, cxB.hy⟩ (max w 2).toNat toks,
        StableRunes line := by
      intro line hl
      refine stableRunes_of_vocab V hV line ?_
      intro c hc
      rcases wrapLines_mem_tokens _ _ toks line hl c hc with h | h | h
      · exact ht c h
      · rw [h]; exact hsp
      · rw [h]; exact hhy
  · conv => rhs; rw [← List.map_id (Spec.wrapLines _ _ _)]
    apply List.map_congr_left
    intro line hl
    exact clusters_flatten_stable line (hover line hl)
  · apply List.map_congr_left
    intro line hl
    exact gLen_flatten_stable line (hover line hl)

/-- width clause transferred to code-point text, as an illustration -/
theorem _root_.RosedVerif.wrapLines_bridge_width {V : List (List Int)}
    (hV : VocabStable V = true) (hsp : [0x20] ∈ V) (hhy : [0x2D] ∈ V)
    (hspTail : ∀ t ∈ V, (0x20 : Int) ∉ t.tail)
    (toks : List (List Int)) (ht : ∀ t ∈ toks, t ∈ V) (w : Int) :
    ∃ r, wrapLines cxA toks.flatten w [] = .ok r ∧ ∀ l ∈ r, gLen cxA l ≤ (max w 2).toNat := by
  obtain ⟨r, h1, _, h3⟩ := wrapLines_bridge_clusters hV hsp hhy hspTail toks ht w
  refine ⟨r, h1, ?_⟩
  intro l hl
  have hm : gLen cxA l ∈ r.map (gLen cxA) := List.mem_map_of_mem hl
  rw [h3] at hm
  obtain ⟨line, hline, e⟩ := List.mem_map.1 hm
  rw [← e]
  exact Spec.wrapLines_width _ (by omega) toks line hline

/-! ## 4. a concrete instance, and necessity of the hypothesis -/

def demoVocab2 : List (List Int) :=
  [[0x61], [0x62], [0x20], [0x2D], [0x65, 0x301], [0x1F1E9, 0x1F1EA], [0x9]]

theorem demoVocab2_stable : VocabStable demoVocab2 = true := by decide +kernel

theorem demoVocab2_spOnly : ∀ t ∈ demoVocab2, (0x20 : Int) ∈ t → t = [0x20] := by decide

theorem demoVocab2_spTail : ∀ t ∈ demoVocab2, (0x20 : Int) ∉ t.tail :=
  spTail_of_spOnly demoVocab2_spOnly

/-- "a é<TAB> 🇩🇪🇩🇪b ab" wrapped at 3 clusters: the code-point model gives the flattening of the
greedy specification run on clusters -/
example (w : Int) :
    wrapLines cxA ([[0x61], [0x20], [0x65, 0x301], [0x9], [0x20], [0x1F1E9, 0x1F1EA],
        [0x1F1E9, 0x1F1EA], [0x62], [0x20], [0x61], [0x62]] : List (List Int)).flatten w [] =
      .ok ((Spec.wrapLines ⟨cxB.isSpace, cxB.sp, cxB.hy⟩ (max w 2).toNat
        [[0x61], [0x20], [0x65, 0x301], [0x9], [0x20], [0x1F1E9, 0x1F1EA],
          [0x1F1E9, 0x1F1EA], [0x62], [0x20], [0x61], [0x62]]).map List.flatten) :=
  wrapLines_bridge_spec demoVocab2_stable (by decide) demoVocab2_spTail _ (by decide) w

example : collapseSpace cxA [0x61, 0x9, 0x20, 0x65, 0x301, 0x20, 0x20, 0x62] [] =
    .ok [0x61, 0x20, 0x65, 0x301, 0x20, 0x62] := by
  have := collapseSpace_bridge_spec demoVocab2_stable (by decide) demoVocab2_spTail
    [[0x61], [0x9], [0x20], [0x65, 0x301], [0x20], [0x20], [0x62]] (by decide)
  rw [show ([[0x61], [0x9], [0x20], [0x65, 0x301], [0x20], [0x20], [0x62]] :
    List (List Int)).flatten = [0x61, 0x9, 0x20, 0x65, 0x301, 0x20, 0x20, 0x62] from rfl] at this
  rw [this]
  exact congrArg Except.ok (by decide +kernel)

/-- decidable test for `x = .ok y` (there is no `DecidableEq (Except _ _)` instance) -/
def okEq {β : Type} [DecidableEq β] (x : R β) (y : β) : Bool :=
  match x with
  | .ok r => decide (r = y)
  | .error _ => false

theorem of_okEq {β : Type} [DecidableEq β] {x : R β} {y : β} (h : okEq x y = true) : x = .ok y := by
  cases x with
  | error e => cases h
  | ok r => exact congrArg Except.ok (of_decide_eq_true h)

/-- the hypothesis `hspTail` is needed: `[0x600, 0x20]` (Prepend + space) is a single cluster, the
vocabulary below is stable, but the rune-level regexp merges the space inside the cluster with the
following space token while the token level keeps both tokens. -/
theorem spTail_needed :
    VocabStable [[0x61], [0x20], [0x600, 0x20]] = true ∧
    collapseSpace cxA ([[0x600, 0x20], [0x20], [0x61]] : List (List Int)).flatten [] =
      .ok [0x600, 0x20, 0x61] ∧
    collapseSpace cxB [[0x600, 0x20], [0x20], [0x61]] [] =
      .ok [[0x600, 0x20], [0x20], [0x61]] :=
  ⟨by decide +kernel, of_okEq (by decide +kernel), of_okEq (by decide +kernel)⟩

theorem spTail_needed' :
    collapseSpace cxA ([[0x600, 0x20], [0x20], [0x61]] : List (List Int)).flatten [] ≠
      (collapseSpace cxB [[0x600, 0x20], [0x20], [0x61]] []).map List.flatten := by
  rw [spTail_needed.2.1, spTail_needed.2.2]
  intro h
  have h' : ([0x600, 0x20, 0x61] : List Int) =
      ([[0x600, 0x20], [0x20], [0x61]] : List (List Int)).flatten := Except.ok.inj h
  revert h'
  decide

/-- clusters that START with U+0020 are harmless (space + combining acute is one cluster; both
levels replace it by a plain space) -/
example : VocabStable [[0x61], [0x20], [0x2D], [0x20, 0x301]] = true ∧
    (∀ t ∈ ([[0x61], [0x20], [0x2D], [0x20, 0x301]] : List (List Int)), (0x20 : Int) ∉ t.tail) ∧
    ¬ (∀ t ∈ ([[0x61], [0x20], [0x2D], [0x20, 0x301]] : List (List Int)),
        (0x20 : Int) ∈ t → t = [0x20]) := by
  decide +kernel

end BridgeWrap
end RosedVerif
