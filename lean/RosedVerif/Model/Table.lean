/-
Model of internal/manip/table.go (MakeTable, parseTableCharSet, buildTable).
-/
import RosedVerif.Model.Manip
namespace RosedVerif

section
variable {α : Type} [DecidableEq α] (cx : Ctx α)

structure TableChars (α : Type) where
  corner : List α
  vert : List α
  horz : List α

/-- manip.parseTableCharSet -/
def parseTableCharSet (charSet : List α) : TableChars α :=
  let n : Int := gLen cx charSet
  let cs :=
    if n < 3 then charSet ++ gSub cx cx.dCharset 0 (3 - n)
    else if n > 3 then gSub cx charSet 0 3
    else charSet
  ⟨gSub cx cs 0 1, gSub cx cs 1 2, gSub cx cs 2 3⟩

/-- one laid-out row of buildTable -/
def tableRow (row : List (List α)) (colWidths : List Int) (isHeader border : Bool)
    (chars : TableChars α) : List α :=
  let start := if border then chars.vert else []
  (List.range colWidths.length).foldl (fun line col =>
    let cellData := row.getD col []
    let w := colWidths.getD col 0
    let cell :=
      if isHeader then
        let hc := cellData.map cx.upper
        if border then alignCenter cx hc w ++ chars.vert else alignLeft cx hc w
      else
        if border then [cx.sp] ++ alignLeft cx cellData (w - 1) ++ chars.vert
        else alignLeft cx cellData w
    line ++ cell) start

/-- manip.buildTable: the lines of the table block -/
def buildTable (data : List (List (List α))) (colWidths : List Int) (width : Int)
    (header border : Bool) (chars : TableChars α) : List (List α) :=
  let horzBar : List α :=
    if border then
      colWidths.foldl (fun bar w => bar ++ gRepeat chars.horz w ++ chars.corner) chars.corner
    else []
  let breakBar : List α := if header ∧ !border then gRepeat chars.horz width else []
  let top := if border then [horzBar] else []
  let body := (List.range data.length).foldl (fun acc rowIdx =>
    let row := data.getD rowIdx []
    let isHeader := rowIdx == 0 && header
    let acc := acc ++ [tableRow cx row colWidths isHeader border chars]
    if isHeader then
      if border then (if data.length > 1 then acc ++ [horzBar] else acc)
      else acc ++ [breakBar]
    else acc) top
  if border then body ++ [horzBar] else body

/-- manip.MakeTable: the lines of the resulting block (separator `lineSep`, no trailing mode) -/
def makeTable (data : List (List (List α))) (width : Int) (header border : Bool)
    (charSet : List α) : List (List α) :=
  if data.isEmpty then []
  else
    let colCount := data.foldl (fun m r => max m r.length) 0
    if colCount == 0 then []
    else
      let chars := parseTableCharSet cx charSet
      let horzLen : Int := gLen cx chars.horz
      let contentW : List Int := (List.range colCount).map fun col =>
        data.foldl (fun m row => let n : Int := gLen cx (row.getD col []); if n ≥ m then n else m) 0
      let padded : List Int := (List.range colCount).map fun i =>
        contentW.getD i 0 + (if border then 2 else if i + 1 < colCount then 2 else 0)
      let minTableWidth : Int :=
        padded.foldl (fun s w => s + w + (if border then horzLen else 0)) (if border then horzLen else 0)
      let spaceToAdd := width - minTableWidth
      if spaceToAdd > 0 then
        let numToSpace : Int := if !border ∧ colCount > 1 then (colCount : Int) - 1 else colCount
        let per := spaceToAdd / numToSpace
        let rem := spaceToAdd % numToSpace
        let colWidths := (List.range colCount).map fun i =>
          let w := padded.getD i 0
          if (i : Int) < numToSpace then w + per + (if (i : Int) < rem then 1 else 0) else w
        buildTable cx data colWidths width header border chars
      else
        buildTable cx data padded minTableWidth header border chars

end
end RosedVerif
