/-
Model of internal/manip/table.go (MakeTable, parseTableCharSet, buildTable).
-/
import RosedVerif.Model.Manip
namespace RosedVerif

section
variable {α : Type} [DecidableEq α] (cx : Ctx α)

structure TableChars (α : Type) where
  corner : List α
  vert : List α
  horz : List α

/-- manip.parseTableCharSet -/
def parseTableCharSet (charSet : List α) : TableChars α :=
  let n : Int := gLen cx charSet
  let cs :=
    if n < 3 then charSet ++ gSub cx cx.dCharset 0 (3 - n)
    else if n > 3 then gSub cx charSet 0 3
    else charSet
  ⟨gSub cx cs 0 1, gSub cx cs 1 2, gSub cx cs 2 3⟩

/-- one laid-out row of buildTable -/
def tableRow (row : List (List α)) (colWidths : List Int) (isHeader border : Bool)
    (chars : TableChars α) : List α :=
  let start := if border then chars.vert else []
  (List.range colWidths.length).foldl (fun line col =>
    let cellData := row.getD col []
    let w := colWidths.getD col 0
    let cell :=
      if isHeader then
        let hc := cellData.map cx.upper
        if border then alignCenter cx hc w ++ chars.vert else alignLeft cx hc w
      else
        if border then [cx.sp] ++ alignLeft cx cellData (w - 1) ++ chars.vert
        else alignLeft cx cellData w
    line ++ cell) start

/-- manip.buildTable: the lines of the table block -/
def buildTable (data : List (List (List α))) (colWidths : List Int) (width : Int)
    (header border : Bool) (chars : TableChars α) : List (List α) :=
  let horzBar : List α :=
    if border then
      colWidths.foldl (fun bar w => bar ++ gRepeat chars.horz w ++ chars.corner) chars.corner
    else []
  let breakBar : List α := if header ∧ !border then gRepeat chars.horz width else []
  let top := if border then [horzBar] else []
  let body := (List.range data.length).foldl (fun acc rowIdx =>
    let row := data.getD rowIdx []
    let isHeader := rowIdx == 0 && header
    let acc := acc ++ [tableRow cx row colWidths isHeader border chars]
    if isHeader then
      if border then (if data.length > 1 then acc ++ [horzBar] else acc)
      else acc ++ [breakBar]
    else acc) top
  if border then body ++ [horzBar] else body

/-- manip.MakeTable below its clamp of the width -/
def makeTableCore (data : List (List (List α))) (width : Int) (header border : Bool)
    (charSet : List α) : List (List α) :=
  if data.isEmpty then []
  else
    let colCount := data.foldl (fun m r => max m r.length) 0
    if colCount == 0 then []
    else
      let chars := parseTableCharSet cx charSet
      let horzLen : Int := gLen cx chars.horz
      let contentW : List Int := (List.range colCount).map fun col =>
        data.foldl (fun m row => let n : Int := gLen cx (row.getD col []); if n ≥ m then n else m) 0
      let padded : List Int := (List.range colCount).map fun i =>
        contentW.getD i 0 + (if border then 2 else if i + 1 < colCount then 2 else 0)
      let minTableWidth : Int :=
        padded.foldl (fun s w => s + w + (if border then horzLen else 0)) (if border then horzLen else 0)
      let spaceToAdd := width - minTableWidth
      if spaceToAdd > 0 then
        let numToSpace : Int := if !border ∧ colCount > 1 then (colCount : Int) - 1 else colCount
        let per := spaceToAdd / numToSpace
        let rem := spaceToAdd % numToSpace
        let colWidths := (List.range colCount).map fun i =>
          let w := padded.getD i 0
          if (i : Int) < numToSpace then w + per + (if (i : Int) < rem then 1 else 0) else w
        buildTable cx data colWidths width header border chars
      else
        buildTable cx data padded minTableWidth header border chars

/-- manip.MakeTable: the lines of the resulting block (separator `lineSep`, no trailing mode).
D20: a negative width is clamped to 0 before `width - minTableWidth` -/
def makeTable (data : List (List (List α))) (width : Int) (header border : Bool)
    (charSet : List α) : List (List α) :=
  makeTableCore cx data (if width < 0 then 0 else width) header border charSet

theorem foldl_maxlen_nonneg {β : Type} (f : β → Int) (hf : ∀ b, 0 ≤ f b) :
    ∀ (l : List β) (m : Int), 0 ≤ m →
      0 ≤ l.foldl (fun m row => let n : Int := f row; if n ≥ m then n else m) m := by
  intro l
  induction l with
  | nil => intro m hm; exact hm
  | cons b l ih =>
    intro m hm
    simp only [List.foldl_cons]
    apply ih
    split
    · exact hf b
    · exact hm

theorem foldl_addpad_nonneg (c : Int) (hc : 0 ≤ c) :
    ∀ (l : List Int) (s : Int), 0 ≤ s → (∀ x ∈ l, 0 ≤ x) →
      0 ≤ l.foldl (fun s w => s + w + c) s := by
  intro l
  induction l with
  | nil => intro s hs _; exact hs
  | cons b l ih =>
    intro s hs hl
    simp only [List.foldl_cons]
    apply ih
    · have := hl b (List.mem_cons_self ..); omega
    · intro x hx; exact hl x (List.mem_cons_of_mem _ hx)

theorem getD_nonneg_of_all (l : List Int) (h : ∀ x ∈ l, 0 ≤ x) (i : Nat) : 0 ≤ l.getD i 0 := by
  rw [List.getD_eq_getElem?_getD]
  cases hi : l[i]? with
  | none => simp
  | some v => simp only [Option.getD_some]; exact h v (List.mem_of_getElem? hi)

omit [DecidableEq α] in
/-- the core sees the width only through `width - minTableWidth > 0` with `minTableWidth ≥ 0`
(and hands it to `buildTable` only inside that branch) -/
theorem makeTableCore_clamp (data : List (List (List α))) (w : Int) (header border : Bool)
    (charSet : List α) :
    makeTableCore cx data (if w < 0 then 0 else w) header border charSet =
      makeTableCore cx data w header border charSet := by
  by_cases h : w < 0
  · simp only [h, if_true]
    unfold makeTableCore
    simp only []
    split
    · rfl
    · split
      · rfl
      · rename_i _ hcc
        have key : ∀ (M : Int) (A0 A B : List (List α)), 0 ≤ M →
            (if 0 - M > 0 then A0 else B) = (if w - M > 0 then A else B) := by
          intro M A0 A B hM
          rw [if_neg (by omega), if_neg (by omega)]
        refine key _ _ _ _ ?_
        apply foldl_addpad_nonneg
        · split <;> omega
        · split <;> omega
        · intro x hx
          obtain ⟨i, _, rfl⟩ := List.mem_map.1 hx
          have : 0 ≤ ((List.range (data.foldl (fun m r => max m r.length) 0)).map fun col =>
              data.foldl (fun m row => if (gLen cx (row.getD col []) : Int) ≥ m
                then (gLen cx (row.getD col []) : Int) else m) 0).getD i 0 := by
            apply getD_nonneg_of_all
            intro y hy
            obtain ⟨j, _, rfl⟩ := List.mem_map.1 hy
            exact foldl_maxlen_nonneg (fun row => ((gLen cx (row.getD j []) : Nat) : Int))
              (fun _ => Int.natCast_nonneg _) data 0 (Int.le_refl 0)
          split
          · omega
          · split <;> omega
  · simp only [h, if_false]

omit [DecidableEq α] in
/-- the public function is its core (as a function, so that partial applications rewrite too) -/
theorem makeTable_eq_core : makeTable cx = makeTableCore cx := by
  funext d w hd b cs; exact makeTableCore_clamp cx d w hd b cs

end
end RosedVerif
