/-
Refinement for Align and JustifyLine: under trivial segmentation (every atom is its own
cluster) the MODEL (transliterated Go, via IndexFunc / LastIndexFunc / Sub on clusters) equals
the token-level SPECIFICATION.  Core Lean only.
-/
import RosedVerif.Model.Manip
import RosedVerif.Model.OptionsLemmas
import RosedVerif.Model.WrapRefine
import RosedVerif.Model.JustifyLemmas
import RosedVerif.Model.StringsLemmas
import RosedVerif.Spec.AlignLemmas
namespace RosedVerif
open WrapRefine

/-! ## generic list facts -/
section
variable {α : Type}

theorem findIdx?_not_eq_takeWhile (p : α → Bool) : ∀ s : List α,
    s.findIdx? (fun c => !p c) =
      if (s.takeWhile p).length = s.length then none else some (s.takeWhile p).length
  | [] => rfl
  | c :: t => by
    have ih := findIdx?_not_eq_takeWhile p t
    rw [List.findIdx?_cons, List.takeWhile_cons]
    cases hc : p c with
    | false => simp
    | true =>
      simp only [Bool.not_true, Bool.false_eq_true, ↓reduceIte, ih, List.length_cons,
        Nat.add_right_cancel_iff]
      split <;> rfl

theorem drop_length_takeWhile (p : α → Bool) : ∀ s : List α,
    s.drop (s.takeWhile p).length = s.dropWhile p
  | [] => rfl
  | c :: t => by
    rw [List.takeWhile_cons, List.dropWhile_cons]
    cases hc : p c with
    | false => simp
    | true => simpa using drop_length_takeWhile p t

theorem length_takeWhile_le' (p : α → Bool) (s : List α) : (s.takeWhile p).length ≤ s.length :=
  (List.takeWhile_prefix p).length_le

/-- a prefix containing an element that fails `p` stops `takeWhile` -/
theorem takeWhile_append_of_exists (p : α → Bool) : ∀ (x y : List α), (∃ c ∈ x, p c = false) →
    (x ++ y).takeWhile p = x.takeWhile p
  | [], _, h => by obtain ⟨c, hc, _⟩ := h; cases hc
  | a :: x, y, h => by
    rw [List.cons_append, List.takeWhile_cons, List.takeWhile_cons]
    cases ha : p a with
    | false => simp
    | true =>
      obtain ⟨c, hc, hpc⟩ := h
      rcases List.mem_cons.1 hc with rfl | hc
      · rw [ha] at hpc; cases hpc
      · simp only [↓reduceIte, takeWhile_append_of_exists p x y ⟨c, hc, hpc⟩]

theorem replicate_singleton_flatten (c : α) (k : Nat) :
    (List.replicate k [c]).flatten = List.replicate k c := by
  induction k with
  | zero => rfl
  | succ k ih => simp only [List.replicate_succ, List.flatten_cons, ih, List.singleton_append]

theorem gRepeat_single (c : α) (n : Int) : gRepeat [c] n = List.replicate n.toNat c :=
  replicate_singleton_flatten c n.toNat

theorem natCast_beq_neg_one (k : Nat) : ((k : Int) == -1) = false := by
  rw [beq_eq_false_iff_ne]; omega

end

/-! ## 1. CountLeadingWhitespace / CountTrailingWhitespace -/
section
variable {α : Type} (cx : Ctx α)

theorem findIdx?_singletons (s : List α) :
    (s.map fun c => [c]).findIdx? (notSpaceHead cx) = s.findIdx? (fun c => !cx.isSpace c) := by
  induction s with
  | nil => rfl
  | cons c t ih => simp only [List.map_cons, List.findIdx?_cons, notSpaceHead, ih]

/-- IndexFunc(not-space) on singleton clusters -/
theorem gIndexFunc_notSpace_triv (htriv : ∀ s, cx.ends s = List.range' 1 s.length) (s : List α) :
    gIndexFunc cx (notSpaceHead cx) s =
      if (s.takeWhile cx.isSpace).length = s.length then -1
      else ((s.takeWhile cx.isSpace).length : Int) := by
  unfold gIndexFunc findIdxInt
  rw [clusters_triv cx htriv, findIdx?_singletons, findIdx?_not_eq_takeWhile]
  by_cases h : (s.takeWhile cx.isSpace).length = s.length <;> simp only [h, ↓reduceIte]

/-- LastIndexFunc(not-space) on singleton clusters -/
theorem gLastIndexFunc_notSpace_triv (htriv : ∀ s, cx.ends s = List.range' 1 s.length)
    (s : List α) :
    gLastIndexFunc cx (notSpaceHead cx) s =
      if (s.reverse.takeWhile cx.isSpace).length = s.length then -1
      else (s.length : Int) - 1 - ((s.reverse.takeWhile cx.isSpace).length : Int) := by
  unfold gLastIndexFunc findIdxInt
  simp only [clusters_triv cx htriv, ← List.map_reverse, findIdx?_singletons,
    findIdx?_not_eq_takeWhile, List.length_reverse, List.length_map]
  by_cases h : (s.reverse.takeWhile cx.isSpace).length = s.length
  · simp only [h, ↓reduceIte, BEq.rfl]
  · simp only [h, ↓reduceIte, natCast_beq_neg_one, Bool.false_eq_true]

theorem countLeadingWs_triv (htriv : ∀ s, cx.ends s = List.range' 1 s.length) (s : List α) :
    countLeadingWs cx s = ((s.takeWhile cx.isSpace).length : Int) := by
  unfold countLeadingWs
  rw [gIndexFunc_notSpace_triv cx htriv, gLen_triv cx htriv]
  split
  · rename_i h
    simp only [BEq.rfl, ↓reduceIte, h]
  · simp only [natCast_beq_neg_one, Bool.false_eq_true, ↓reduceIte]

theorem countTrailingWs_triv (htriv : ∀ s, cx.ends s = List.range' 1 s.length) (s : List α) :
    countTrailingWs cx s = ((s.reverse.takeWhile cx.isSpace).length : Int) := by
  unfold countTrailingWs
  rw [gLastIndexFunc_notSpace_triv cx htriv, gLen_triv cx htriv]
  split
  · rename_i h
    omega
  · omega

end

/-! ## 2. AlignLine{Left,Right,Center} -/
section
variable {α : Type} (cx : Ctx α)

/-- `gSub` for arbitrary (possibly negative / out of range) arguments, in terms of the
normalised range -/
theorem gSub_triv_of_rti (htriv : ∀ s, cx.ends s = List.range' 1 s.length) (s : List α)
    (a b st en : Int) (h : rangeToIndexes s.length a b = (st, en))
    (h0 : 0 ≤ st) (h1 : st ≤ en) (h2 : en ≤ s.length) :
    gSub cx s a b = (s.drop st.toNat).take (en.toNat - st.toNat) := by
  have e : gSub cx s a b = gSub cx s st en := by
    unfold gSub
    simp only [htriv, List.length_range', h, rangeToIndexes_id _ _ _ h0 h1 h2]
  rw [e, gSub_triv_int cx htriv s st en h0 h1 h2]

theorem rangeToIndexes_neg_end (n a e : Int) (ha : 0 ≤ a) (han : a ≤ n) (he : 0 < e)
    (hen : e ≤ n) :
    rangeToIndexes n a (-e) = (a, if n - e < a then a else n - e) := by
  unfold rangeToIndexes
  simp only [show ¬ a < 0 by omega, show -e < 0 by omega, show ¬ (-e + n < 0) by omega,
    show ¬ (-e + n > n) by omega, show ¬ a > n by omega, if_false, if_true]
  split <;> split <;> first | rfl | (congr 1; omega) | omega

/-- `text.Sub(a, -e)` with `0 ≤ a ≤ n`, `0 < e ≤ n` -/
theorem gSub_neg_end_triv (htriv : ∀ s, cx.ends s = List.range' 1 s.length) (s : List α)
    (a e : Nat) (han : a ≤ s.length) (he : 0 < e) (hen : e ≤ s.length) :
    gSub cx s (a : Int) (-(e : Int)) = (s.drop a).take (s.length - e - a) := by
  have h := rangeToIndexes_neg_end s.length a e (by omega) (by omega) (by omega) (by omega)
  rw [gSub_triv_of_rti cx htriv s _ _ _ _ h (by omega) (by split <;> omega) (by split <;> omega)]
  congr 1
  split <;> omega

theorem stripRight_eq_take (tk : Spec.Toks α) (s : List α) :
    Spec.stripRight tk s = s.take (s.length - (s.reverse.takeWhile tk.ws).length) := by
  have h := Spec.stripRight_decomp tk s
  have hl := congrArg List.length h
  simp only [List.length_append, List.length_reverse] at hl
  symm
  calc s.take (s.length - (s.reverse.takeWhile tk.ws).length)
      = (Spec.stripRight tk s ++ (s.reverse.takeWhile tk.ws).reverse).take
          (s.length - (s.reverse.takeWhile tk.ws).length) := by rw [← h]
    _ = Spec.stripRight tk s := List.take_left' (by omega)

theorem padAmount (x : Int) : (if x > 0 then x else 0).toNat = x.toNat := by
  split <;> omega

/-- the text after the leading whitespace, as the model computes it -/
theorem alignLeft_ending_triv (htriv : ∀ s, cx.ends s = List.range' 1 s.length) (s : List α) :
    (if countLeadingWs cx s > 0 then gSub cx s (countLeadingWs cx s) (gLen cx s) else s) =
      s.dropWhile cx.isSpace := by
  rw [countLeadingWs_triv cx htriv, gLen_triv cx htriv, ← drop_length_takeWhile]
  have hle := length_takeWhile_le' cx.isSpace s
  split
  · rw [gSub_triv cx htriv s _ _ hle (Nat.le_refl _), List.take_of_length_le (by simp)]
  · rename_i h
    have : (s.takeWhile cx.isSpace).length = 0 := by omega
    rw [this, List.drop_zero]

/-- the text before the trailing whitespace, as the model computes it -/
theorem alignRight_starting_triv (htriv : ∀ s, cx.ends s = List.range' 1 s.length) (s : List α) :
    (if countTrailingWs cx s > 0 then gSub cx s 0 (-countTrailingWs cx s) else s) =
      Spec.stripRight ⟨cx.isSpace, cx.sp, cx.hy⟩ s := by
  rw [countTrailingWs_triv cx htriv, stripRight_eq_take]
  have hle : (s.reverse.takeWhile cx.isSpace).length ≤ s.length := by
    simpa using length_takeWhile_le' cx.isSpace s.reverse
  split
  · rename_i h
    have := gSub_neg_end_triv cx htriv s 0 (s.reverse.takeWhile cx.isSpace).length
      (by omega) (by omega) hle
    simp only [Int.natCast_zero, List.drop_zero, Nat.sub_zero] at this
    rw [this]
  · rename_i h
    have : (s.reverse.takeWhile cx.isSpace).length = 0 := by omega
    rw [this, Nat.sub_zero, List.take_length]

theorem alignLeft_triv (htriv : ∀ s, cx.ends s = List.range' 1 s.length) (s : List α) (w : Int) :
    alignLeft cx s w = Spec.alignLeft ⟨cx.isSpace, cx.sp, cx.hy⟩ w s := by
  simp only [alignLeft_eq_core]
  unfold alignLeftCore
  dsimp only
  rw [alignLeft_ending_triv cx htriv]
  simp only [gLen_triv cx htriv, gRepeat_single, padAmount]
  rfl

theorem alignRight_triv (htriv : ∀ s, cx.ends s = List.range' 1 s.length) (s : List α) (w : Int) :
    alignRight cx s w = Spec.alignRight ⟨cx.isSpace, cx.sp, cx.hy⟩ w s := by
  simp only [alignRight_eq_core]
  unfold alignRightCore
  simp only [alignRight_starting_triv cx htriv, gLen_triv cx htriv, gRepeat_single, padAmount]
  rfl

/-- trailing whitespace of the left-stripped text: unchanged unless everything was whitespace -/
theorem trailing_dropWhile (p : α → Bool) (s : List α) (h : s.dropWhile p ≠ []) :
    (s.dropWhile p).reverse.takeWhile p = s.reverse.takeWhile p := by
  have hd : s = s.takeWhile p ++ s.dropWhile p := List.takeWhile_append_dropWhile.symm
  have hr : s.reverse = (s.dropWhile p).reverse ++ (s.takeWhile p).reverse := by
    rw [← List.reverse_append, ← hd]
  rw [hr, takeWhile_append_of_exists]
  cases hdw : s.dropWhile p with
  | nil => exact absurd hdw h
  | cons c t =>
    refine ⟨c, by simp, ?_⟩
    have := List.head?_dropWhile_not p s
    rw [hdw] at this
    simpa using this

/-- the middle text, as the model computes it -/
theorem alignCenter_mid_triv (htriv : ∀ s, cx.ends s = List.range' 1 s.length) (s : List α) :
    (if countTrailingWs cx s > 0 then gSub cx s (countLeadingWs cx s) (-countTrailingWs cx s)
      else gSub cx s (countLeadingWs cx s) (gLen cx s)) =
      Spec.stripRight ⟨cx.isSpace, cx.sp, cx.hy⟩ (Spec.stripLeft ⟨cx.isSpace, cx.sp, cx.hy⟩ s) := by
  rw [countTrailingWs_triv cx htriv, countLeadingWs_triv cx htriv, gLen_triv cx htriv]
  have hle := length_takeWhile_le' cx.isSpace s
  have hle' : (s.reverse.takeWhile cx.isSpace).length ≤ s.length := by
    simpa using length_takeWhile_le' cx.isSpace s.reverse
  have hdl : (s.dropWhile cx.isSpace).length = s.length - (s.takeWhile cx.isSpace).length := by
    rw [← drop_length_takeWhile, List.length_drop]
  -- both branches of the model are `(s.drop a).take (n - e - a)`
  have hmodel : (if ((s.reverse.takeWhile cx.isSpace).length : Int) > 0
        then gSub cx s ((s.takeWhile cx.isSpace).length : Int)
          (-((s.reverse.takeWhile cx.isSpace).length : Int))
        else gSub cx s ((s.takeWhile cx.isSpace).length : Int) (s.length : Int)) =
      (s.dropWhile cx.isSpace).take
        (s.length - (s.reverse.takeWhile cx.isSpace).length - (s.takeWhile cx.isSpace).length) := by
    rw [← drop_length_takeWhile]
    split
    · rw [gSub_neg_end_triv cx htriv s _ _ hle (by omega) hle']
    · rename_i h
      have : (s.reverse.takeWhile cx.isSpace).length = 0 := by omega
      rw [gSub_triv cx htriv s _ _ hle (Nat.le_refl _), this, Nat.sub_zero]
  rw [hmodel, stripRight_eq_take]
  show _ = (s.dropWhile cx.isSpace).take
    ((s.dropWhile cx.isSpace).length - ((s.dropWhile cx.isSpace).reverse.takeWhile cx.isSpace).length)
  by_cases hd : s.dropWhile cx.isSpace = []
  · rw [hd]; simp
  · rw [trailing_dropWhile cx.isSpace s hd, hdl]
    congr 1
    omega

theorem alignCenter_triv (htriv : ∀ s, cx.ends s = List.range' 1 s.length) (s : List α) (w : Int) :
    alignCenter cx s w = Spec.alignCenter ⟨cx.isSpace, cx.sp, cx.hy⟩ w s := by
  simp only [alignCenter_eq_core]
  unfold alignCenterCore
  dsimp only
  rw [alignCenter_mid_triv cx htriv]
  simp only [gLen_triv cx htriv, gRepeat_single]
  rfl

end

/-! ## 3. JustifyLine -/
section
variable {α : Type} [DecidableEq α]

/-! ### `splitOn` with a one-atom separator -/

theorem splitOnAux_single_cons (a c : α) (t cur : List α) :
    splitOnAux [a] (c :: t) 0 cur =
      if a = c then cur.reverse :: splitOnAux [a] t 0 [] else splitOnAux [a] t 0 (c :: cur) := by
  rw [splitOnAux]
  by_cases h : a = c
  · subst h; simp
  · simp [h]

theorem splitOn_single (a : α) (s : List α) : splitOn s [a] = splitOnAux [a] s 0 [] := rfl

theorem splitOnAux_single_length (a : α) : ∀ (s cur : List α),
    (splitOnAux [a] s 0 cur).length = s.count a + 1
  | [], _ => rfl
  | c :: t, cur => by
    rw [splitOnAux_single_cons, List.count_cons]
    by_cases h : a = c
    · subst h
      simp only [↓reduceIte, List.length_cons, splitOnAux_single_length a t [], BEq.rfl]
    · have h' : (c == a) = false := by rw [beq_eq_false_iff_ne]; exact fun e => h e.symm
      simp only [if_neg h, splitOnAux_single_length a t (c :: cur), h', Bool.false_eq_true,
        ↓reduceIte, Nat.add_zero]

/-- the number of pieces is the number of separator atoms plus one -/
theorem splitOn_single_length (a : α) (s : List α) : (splitOn s [a]).length = s.count a + 1 :=
  splitOnAux_single_length a s []

theorem splitOnAux_single_not_mem (a : α) : ∀ (s cur : List α), a ∉ cur →
    ∀ w ∈ splitOnAux [a] s 0 cur, a ∉ w
  | [], cur, hcur, w, hw => by
    simp only [splitOnAux, List.mem_singleton] at hw
    subst hw; simpa using hcur
  | c :: t, cur, hcur, w, hw => by
    rw [splitOnAux_single_cons] at hw
    by_cases h : a = c
    · rw [if_pos h] at hw
      rcases List.mem_cons.1 hw with rfl | hw
      · simpa using hcur
      · exact splitOnAux_single_not_mem a t [] (by simp) w hw
    · rw [if_neg h] at hw
      exact splitOnAux_single_not_mem a t (c :: cur)
        (by simp only [List.mem_cons, not_or]; exact ⟨h, hcur⟩) w hw

/-- no piece contains the separator atom -/
theorem splitOn_single_not_mem (a : α) (s : List α) : ∀ w ∈ splitOn s [a], a ∉ w :=
  splitOnAux_single_not_mem a s [] (by simp)

theorem joinWith_splitOnAux_single_map (a b : α) : ∀ (s cur : List α),
    joinWith [b] (splitOnAux [a] s 0 cur) =
      cur.reverse ++ s.map (fun x => if x = a then b else x)
  | [], cur => by simp [splitOnAux]
  | c :: t, cur => by
    rw [splitOnAux_single_cons]
    by_cases h : a = c
    · subst h
      rw [if_pos rfl, joinWith_cons_of_ne_nil _ _ (splitOnAux_ne_nil _ _ _ _),
        joinWith_splitOnAux_single_map a b t []]
      simp
    · have h' : ¬ c = a := fun e => h e.symm
      rw [if_neg h, joinWith_splitOnAux_single_map a b t (c :: cur)]
      simp [h']

/-- `strings.ReplaceAll(s, a, b)` for one-atom `a`, `b` is a `map` -/
theorem replaceAll_single (a b : α) (s : List α) :
    replaceAll s [a] [b] = s.map (fun x => if x = a then b else x) := by
  unfold replaceAll
  rw [splitOn_single, joinWith_splitOnAux_single_map]
  rfl

omit [DecidableEq α] in
theorem length_joinWith_single (b : α) : ∀ (parts : List (List α)), parts ≠ [] →
    (joinWith [b] parts).length = (parts.map List.length).sum + (parts.length - 1)
  | [], h => absurd rfl h
  | [x], _ => by simp
  | x :: y :: t, _ => by
    rw [joinWith_cons_cons, List.length_append, List.length_append,
      length_joinWith_single b (y :: t) (by simp)]
    simp only [List.length_cons, List.length_nil, List.map_cons, List.sum_cons]
    omega

end

section
variable {α : Type} [DecidableEq α] (cx : Ctx α)

omit [DecidableEq α] in
/-- with no extra spaces `interleave` is `strings.Join(words, " ")` -/
theorem interleave_nil_eq_joinWith : ∀ (words : List (List α)),
    interleave cx words [] = joinWith [cx.sp] words
  | [] => rfl
  | [w] => by simp [interleave]
  | w :: w' :: ws => by
    rw [interleave, joinWith_cons_cons, interleave_nil_eq_joinWith (w' :: ws)]
    simp

omit [DecidableEq α] in
/-- replacing one whitespace atom by the space atom is invisible to `collapse` -/
theorem collapse_map_ws (tk : Spec.Toks α) (f : α → α) (hws : ∀ x, tk.ws (f x) = tk.ws x)
    (hid : ∀ x, tk.ws x = false → f x = x) : ∀ l : List α,
    Spec.collapse tk (l.map f) = Spec.collapse tk l
  | [] => rfl
  | [c] => by
    simp only [List.map_cons, List.map_nil, Spec.collapse, hws]
    cases h : tk.ws c with
    | true => rfl
    | false => simp [hid c h]
  | c :: d :: t => by
    have ih := collapse_map_ws tk f hws hid (d :: t)
    simp only [List.map_cons] at ih
    simp only [List.map_cons, Spec.collapse, hws, ih]
    cases h : tk.ws c with
    | true => rfl
    | false => simp [hid c h]

/-- the newline pre-pass of JustifyLine does not change the collapsed text -/
theorem collapse_replaceAll'_nl (hsp : cx.isSpace cx.sp = true) (hnl : cx.isSpace cx.nl = true)
    (line : List α) :
    Spec.collapse ⟨cx.isSpace, cx.sp, cx.hy⟩ (replaceAll' cx line [cx.nl]) =
      Spec.collapse ⟨cx.isSpace, cx.sp, cx.hy⟩ line := by
  have : replaceAll' cx line [cx.nl] = line.map (fun x => if x = cx.nl then cx.sp else x) := by
    unfold replaceAll'
    simp only [List.isEmpty_cons, Bool.false_eq_true, ↓reduceIte, replaceAll_single]
  rw [this]
  apply collapse_map_ws
  · intro x
    show cx.isSpace (if x = cx.nl then cx.sp else x) = cx.isSpace x
    split
    · rename_i h; rw [h, hsp, hnl]
    · rfl
  · intro x hx
    show (if x = cx.nl then cx.sp else x) = x
    split
    · rename_i h
      rw [h] at hx
      exact absurd hnl (by rw [show cx.isSpace cx.nl = false from hx]; simp)
    · rfl

/-- JustifyLine on an already collapsed text `c` (the part after `CollapseSpace`) -/
theorem justify_core (htriv : ∀ s, cx.ends s = List.range' 1 s.length) (c : List α) (w : Int) :
    ∃ r,
      (if (gLen cx c : Int) ≥ w then (pure c : R (List α))
        else
          let words := splitOn c [cx.sp]
          let numGaps : Int := (words.length : Int) - 1
          if numGaps < 1 then pure c
          else
            let spacesToAdd : Int := w - gLen cx c
            let odd : Int := if numGaps % 2 == 0 then 0 else 1
            do
              let extra ← distribute numGaps odd spacesToAdd.toNat 0 false
                (List.replicate numGaps.toNat 0)
              pure (interleave cx words extra)) = .ok r ∧
      (((c.length : Int) ≥ w ∨ cx.sp ∉ c) → r = c) ∧
      (¬ ((c.length : Int) ≥ w ∨ cx.sp ∉ c) →
        (r.length : Int) = w ∧
        r.filter (· != cx.sp) = c.filter (· != cx.sp) ∧
        ∃ extra : List Nat, r = interleave cx (splitOn c [cx.sp]) extra ∧
          extra.length = (splitOn c [cx.sp]).length - 1 ∧
          extra.length = c.count cx.sp ∧
          extra.sum = (w - (c.length : Int)).toNat ∧
          ∀ x ∈ extra, ∀ y ∈ extra, x ≤ y + 1) := by
  rw [gLen_triv cx htriv]
  have hlen := splitOn_single_length cx.sp c
  by_cases h1 : (c.length : Int) ≥ w
  · exact ⟨c, by rw [if_pos h1]; rfl, fun _ => rfl, fun h => absurd (Or.inl h1) h⟩
  · rw [if_neg h1]
    by_cases h2 : cx.sp ∈ c
    · -- the interesting case
      have hcnt : 0 < c.count cx.sp := List.count_pos_iff.2 h2
      obtain ⟨g, hg⟩ : ∃ g : Nat, g = c.count cx.sp := ⟨_, rfl⟩
      have hG : ((splitOn c [cx.sp]).length : Int) - 1 = (g : Int) := by omega
      simp only [hG]
      rw [if_neg (by omega)]
      simp only [Int.toNat_natCast]
      have hodd : (if (g : Int) % 2 == 0 then (0 : Int) else 1) =
          (if g % 2 == 0 then (0 : Int) else 1) := by
        have e : ((g : Int) % 2 == 0) = (g % 2 == 0) := by
          rw [Bool.eq_iff_iff]; simp only [beq_iff_eq]; omega
        rw [e]
      rw [hodd]
      obtain ⟨extra, hd, hl, hs⟩ := distribute_total g (by omega) (w - (c.length : Int)).toNat
      have hev := distribute_even g (by omega) _ extra hd
      have hwords : splitOn c [cx.sp] ≠ [] := splitOn_ne_nil' c [cx.sp] (by simp)
      have hnomem := splitOn_single_not_mem cx.sp c
      have hjoin : joinWith [cx.sp] (splitOn c [cx.sp]) = c := joinWith_splitOn c [cx.sp] (by simp)
      refine ⟨interleave cx (splitOn c [cx.sp]) extra, ?_, ?_, ?_⟩
      · rw [hd]; rfl
      · rintro (h | h)
        · exact absurd h h1
        · exact absurd h2 h
      · intro _
        refine ⟨?_, ?_, extra, rfl, by omega, by omega, hs, hev⟩
        · rw [interleave_length cx _ extra hwords (by omega), hs]
          have := length_joinWith_single cx.sp _ hwords
          rw [hjoin] at this
          omega
        · rw [interleave_words cx _ extra hnomem]
          conv => rhs; rw [← hjoin, ← interleave_nil_eq_joinWith, interleave_words cx _ [] hnomem]
    · have hcnt : c.count cx.sp = 0 := List.count_eq_zero.2 h2
      refine ⟨c, ?_, fun _ => rfl, fun h => absurd (Or.inr h2) h⟩
      simp only
      rw [if_pos (by omega)]
      rfl

/-- the C12 postcondition, relative to the collapsed text `c` -/
def JustifyPost (cx : Ctx α) (c : List α) (w : Int) (r : List α) : Prop :=
  (((c.length : Int) ≥ w ∨ cx.sp ∉ c) → r = c) ∧
  (¬ ((c.length : Int) ≥ w ∨ cx.sp ∉ c) →
    (r.length : Int) = w ∧
    r.filter (· != cx.sp) = c.filter (· != cx.sp) ∧
    ∃ extra : List Nat, r = interleave cx (splitOn c [cx.sp]) extra ∧
      extra.length = (splitOn c [cx.sp]).length - 1 ∧
      extra.length = c.count cx.sp ∧
      extra.sum = (w - (c.length : Int)).toNat ∧
      ∀ x ∈ extra, ∀ y ∈ extra, x ≤ y + 1)

/-- 3. JustifyLine, with `c` the collapse of the line whose `[cx.nl]` occurrences were replaced
by spaces (`hnl` is not needed for this form). -/
theorem justifyLine_triv (htriv : ∀ s, cx.ends s = List.range' 1 s.length)
    (hsp : cx.isSpace cx.sp = true) (line : List α) (w : Int) (c : List α)
    (hc : c = Spec.collapse ⟨cx.isSpace, cx.sp, cx.hy⟩ (replaceAll' cx line [cx.nl])) :
    ∃ r, justifyLine cx line w = .ok r ∧
      (((c.length : Int) ≥ w ∨ cx.sp ∉ c) → r = c) ∧
      (¬ ((c.length : Int) ≥ w ∨ cx.sp ∉ c) →
        (r.length : Int) = w ∧
        r.filter (· != cx.sp) = c.filter (· != cx.sp) ∧
        ∃ extra : List Nat, r = interleave cx (splitOn c [cx.sp]) extra ∧
          extra.length = (splitOn c [cx.sp]).length - 1 ∧
          extra.length = c.count cx.sp ∧
          extra.sum = (w - (c.length : Int)).toNat ∧
          ∀ x ∈ extra, ∀ y ∈ extra, x ≤ y + 1) := by
  obtain ⟨r, h, rest⟩ := justify_core cx htriv c w
  refine ⟨r, ?_, rest⟩
  unfold justifyLine
  rw [collapseSpace_triv_all cx htriv hsp, ← hc]
  exact h

/-- 3'. With `hnl` the newline pre-pass is invisible: `c` is simply the collapse of the line. -/
theorem justifyLine_triv_nl (htriv : ∀ s, cx.ends s = List.range' 1 s.length)
    (hsp : cx.isSpace cx.sp = true) (hnl : cx.isSpace cx.nl = true) (line : List α) (w : Int)
    (c : List α) (hc : c = Spec.collapse ⟨cx.isSpace, cx.sp, cx.hy⟩ line) :
    ∃ r, justifyLine cx line w = .ok r ∧ JustifyPost cx c w r :=
  justifyLine_triv cx htriv hsp line w c (by rw [hc, collapse_replaceAll'_nl cx hsp hnl])

end
end RosedVerif
