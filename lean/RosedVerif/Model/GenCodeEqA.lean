/-
The regenerated-code theorems of `GenCodeEq.lean` at the real instance `cxA` (code points + the real
segmentation): the hypotheses they carry (`cx.WF`, `DefaultsOk cx`, positive byte lengths) hold there, so for the
library as it is every generated definition equals the hand model — only `Overtype` keeps its no-overflow premise.
Also checks that the literal ↦ `Ctx`-field mapping of the translator agrees with the constants regenerated from
the source (`Gen/Consts.lean`).
-/
import RosedVerif.Model.GenCodeEq
import RosedVerif.Model.GenEq.InstA
