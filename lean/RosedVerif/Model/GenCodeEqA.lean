/-
The regenerated-code theorems of `GenCodeEq.lean` at the real instance `cxA` (code points + the real
segmentation): the hypotheses they carry (`cx.WF`, `DefaultsOk cx`, positive byte lengths) hold there, so for the
library as it is every generated definition equals the hand model — only `Overtype` keeps its no-overflow premise.
Also checks that the literal ↦ `Ctx`-field mapping of the translator agrees with the constants regenerated from
the source (`Gen/Consts.lean`).
-/
import RosedVerif.Model.GenCodeEq
import RosedVerif.Model.InstAFacts
namespace RosedVerif.GenCodeEq
open RosedVerif

theorem defaultsOk_cxA : DefaultsOk cxA := by
  refine ⟨?_, ?_, ?_⟩ <;> decide

/-- the translator maps `" "`, `"-"`, `"\n"`, `"A"`, `"+|-"` to these `Ctx` fields -/
theorem literal_map_cxA :
    cxA.sp = 0x20 ∧ cxA.hy = 0x2D ∧ cxA.nl = 0x0A ∧ cxA.phA = 0x41 ∧ cxA.dCharset = [0x2B, 0x7C, 0x2D] ∧
    cxA.dLineSep = [0x0A] ∧ cxA.dParaSep = [0x0A, 0x0A] ∧ cxA.dIndent = [0x09] := by decide

theorem editorChars_cxA (h : Gen.Code.editorChars_extracted = true) (ed : Editor Int) (s e : Int) :
    Gen.Code.editorChars cxA ed s e = ed.chars cxA s e := editorChars_regenerated cxA h cxA_WF ed s e

theorem editorLinesSel_cxA (h : Gen.Code.editorLinesSel_extracted = true) (ed : Editor Int) (s e : Int) :
    Gen.Code.editorLinesSel cxA ed s e = ed.linesSel cxA s e := editorLinesSel_regenerated cxA h cxA_WF.2 ed s e

theorem editorInsert_cxA (h : Gen.Code.editorInsert_extracted = true) (ed : Editor Int) (pos : Int) (t : List Int) :
    Gen.Code.editorInsert cxA ed pos t = ed.insert cxA pos t := editorInsert_regenerated cxA h cxA_WF ed pos t

theorem editorDelete_cxA (h : Gen.Code.editorDelete_extracted = true) (ed : Editor Int) (s e : Int) :
    Gen.Code.editorDelete cxA ed s e = ed.delete cxA s e := editorDelete_regenerated cxA h cxA_WF ed s e

theorem editorWrapOpts_cxA (h : Gen.Code.editorWrapOpts_extracted = true) (ed : Editor Int) (width : Int) (o : Options Int) :
    Gen.Code.editorWrapOpts cxA ed width o = ed.wrapOpts cxA width o :=
  editorWrapOpts_regenerated cxA h defaultsOk_cxA cxA_WF.2 ed width o

theorem editorIndentOpts_cxA (h : Gen.Code.editorIndentOpts_extracted = true) (ed : Editor Int) (level : Int) (o : Options Int) :
    Gen.Code.editorIndentOpts cxA ed level o = ed.indentOpts cxA level o :=
  editorIndentOpts_regenerated cxA h defaultsOk_cxA cxA_WF.2 ed level o

theorem editorApplyGParagraphsOpts_cxA (h : Gen.Code.editorApplyGParagraphsOpts_extracted = true) (ed : Editor Int)
    (op : Int → List Int → List Int → List Int → R (List (List Int))) (o : Options Int) :
    Gen.Code.editorApplyGParagraphsOpts cxA ed op o = ed.applyParasM cxA (fun i => op (i : Int)) o :=
  editorApplyGParagraphsOpts_regenerated cxA h defaultsOk_cxA cxA_WF.2 ed op o

theorem editorInsertTableOpts_cxA (h : Gen.Code.editorInsertTableOpts_extracted = true) (ed : Editor Int) (pos : Int)
    (data : List (List (List Int))) (width : Int) (o : Options Int) :
    Gen.Code.editorInsertTableOpts cxA ed pos data width o = ed.insertTableOpts cxA pos data width o :=
  editorInsertTableOpts_regenerated cxA h cxA_WF ed pos data width o

end RosedVerif.GenCodeEq
