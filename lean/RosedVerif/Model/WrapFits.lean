/-
Wrap's width bound for ALL texts, from sub-additivity of the cluster count.

`Ctx.WrapFits` is not a consequence of `Ctx.Sane` alone (`cxBad` in Totality.lean).  It does
follow from two extra facts about the segmentation:
  * `Ctx.SubAdd`   — the cluster count of a concatenation is at most the sum of the counts;
  * `Ctx.SliceLen` — `Sub(st, en)` has at most `en' − st'` clusters (normalised indexes).
Both hold for instance A (code points + the real segmentation rule chain).
-/
import RosedVerif.Model.Totality
import RosedVerif.Model.InstAFacts
import RosedVerif.Gem.SubAdditive
namespace RosedVerif
set_option linter.unusedSectionVars false

section generic
variable {α : Type} [DecidableEq α] {cx : Ctx α}

/-- the cluster count is sub-additive under concatenation -/
def Ctx.SubAdd (cx : Ctx α) : Prop :=
  ∀ a b : List α, gLen cx (a ++ b) ≤ gLen cx a + gLen cx b

/-- a substring of clusters `[st, en)` has at most `en' − st'` clusters, where `(st', en')` are
the indexes normalised by `util.RangeToIndexes` -/
def Ctx.SliceLen (cx : Ctx α) : Prop :=
  ∀ (s : List α) (st en : Int),
    (gLen cx (gSub cx s st en) : Int) ≤
      (rangeToIndexes (gLen cx s) st en).2 - (rangeToIndexes (gLen cx s) st en).1

/-- a single atom is at most one cluster -/
theorem gLen_single (hs : cx.Sane) (a : α) : gLen cx [a] ≤ 1 := gLen_le hs [a]

theorem gLen_append_int (hsub : cx.SubAdd) (a b : List α) :
    (gLen cx (a ++ b) : Int) ≤ (gLen cx a : Int) + gLen cx b := by
  have := hsub a b
  omega

/-- `line ++ [c] ++ word` has at most `|line| + 1 + |word|` clusters -/
theorem gLen_join_int (hs : cx.Sane) (hsub : cx.SubAdd) (a b : List α) (c : α) :
    (gLen cx (a ++ [c] ++ b) : Int) ≤ (gLen cx a : Int) + 1 + gLen cx b := by
  have h1 := hsub (a ++ [c]) b
  have h2 := hsub a [c]
  have h3 := gLen_single hs c
  omega

/-- the hyphenated head `Sub(0, width-1) ++ "-"` of an over-long word has at most `width`
clusters -/
theorem gLen_hyph_int (hs : cx.Sane) (hsub : cx.SubAdd) (hsl : cx.SliceLen) (line word : List α)
    (width : Int) (hw : 2 ≤ width) (hz : gLen cx line = 0) (hgt : (gLen cx word : Int) > width) :
    (gLen cx (line ++ gSub cx word 0 (width - 1) ++ [cx.hy]) : Int) ≤ width := by
  have h1 := hsub (line ++ gSub cx word 0 (width - 1)) [cx.hy]
  have h2 := hsub line (gSub cx word 0 (width - 1))
  have h3 := gLen_single hs cx.hy
  have h4 := hsl word 0 (width - 1)
  have hr : rangeToIndexes (gLen cx word) 0 (width - 1) = (0, width - 1) := by
    unfold rangeToIndexes
    simp only
    repeat' split
    all_goals first | omega | rfl | (refine Prod.ext ?_ ?_ <;> simp only <;> omega)
  rw [hr] at h4
  simp only at h4
  omega

theorem appendWord_fits_subAdd (hs : cx.Sane) (hsub : cx.SubAdd) (hsl : cx.SliceLen) (width : Int)
    (hw : 2 ≤ width) :
    ∀ (fuel : Nat) (lines : List (List α)) (curWord curLine : List α) (r : List (List α) × List α),
      (∀ l ∈ lines, (gLen cx l : Int) ≤ width) → (gLen cx curLine : Int) ≤ width →
      appendWord cx width fuel lines curWord curLine = .ok r →
      (∀ l ∈ r.1, (gLen cx l : Int) ≤ width) ∧ (gLen cx r.2 : Int) ≤ width := by
  have hnil : (gLen cx ([] : List α) : Int) ≤ width := by
    rw [gLen_nil hs]; omega
  intro fuel
  induction fuel with
  | zero =>
    intro _ _ _ _ _ _ h
    exact absurd h (by simp [appendWord, throw, throwThe, MonadExceptOf.throw])
  | succ fuel ih =>
    intro lines curWord curLine r hl hc h
    rw [appendWord, if_neg (by omega)] at h
    split at h
    · by_cases hz : gLen cx curLine = 0
      · have happ := gLen_append_int hsub curLine curWord
        simp only [hz, Int.natCast_zero, bne_self_eq_false, Bool.false_eq_true, if_false,
          Int.add_zero, Int.zero_add, beq_self_eq_true, if_true] at h
        split at h
        · rename_i he
          simp only [beq_iff_eq] at he
          exact ih _ _ _ _ (fits_snoc hl (by omega)) hnil h
        · split at h
          · rename_i hgt
            exact ih _ _ _ _
              (fits_snoc hl (gLen_hyph_int hs hsub hsl curLine curWord width hw hz hgt)) hnil h
          · rename_i hne hgt
            simp only [beq_iff_eq] at hne
            exact ih _ _ _ _ hl (by omega) h
      · have hz1 : ((gLen cx curLine : Int) != 0) = true := by simpa using hz
        have hz2 : ((gLen cx curLine : Int) == 0) = false := by simpa using hz
        have hj := gLen_join_int hs hsub curLine curWord cx.sp
        simp only [hz1, hz2, if_true, Bool.false_eq_true, if_false] at h
        split at h
        · rename_i he
          simp only [beq_iff_eq] at he
          exact ih _ _ _ _ (fits_snoc hl (by omega)) hnil h
        · split at h
          · exact ih _ _ _ _ (fits_snoc hl hc) hnil h
          · rename_i hne hgt
            simp only [beq_iff_eq] at hne
            exact ih _ _ _ _ hl (by omega) h
    · cases h
      exact ⟨hl, hc⟩

theorem wrapLoop_fits_subAdd (hs : cx.Sane) (hsub : cx.SubAdd) (hsl : cx.SliceLen) (width : Int)
    (hw : 2 ≤ width) :
    ∀ (cls lines : List (List α)) (curWord curLine : List α)
      (r : List (List α) × List α × List α),
      (∀ l ∈ lines, (gLen cx l : Int) ≤ width) → (gLen cx curLine : Int) ≤ width →
      wrapLoop cx width cls lines curWord curLine = .ok r →
      (∀ l ∈ r.1, (gLen cx l : Int) ≤ width) ∧ (gLen cx r.2.2 : Int) ≤ width
  | [], lines, curWord, curLine, r, hl, hc, h => by
    cases h
    exact ⟨hl, hc⟩
  | [] :: rest, _, _, _, _, _, _, h => by
    exact absurd h (by simp [wrapLoop, throw, throwThe, MonadExceptOf.throw])
  | (c :: t) :: rest, lines, curWord, curLine, r, hl, hc, h => by
    rw [wrapLoop] at h
    simp only at h
    split at h
    · obtain ⟨⟨l, cl⟩, ha, h'⟩ := bind_ok.1 h
      have := appendWord_fits_subAdd hs hsub hsl width hw _ _ _ _ _ hl hc ha
      exact wrapLoop_fits_subAdd hs hsub hsl width hw rest _ _ _ r this.1 this.2 h'
    · exact wrapLoop_fits_subAdd hs hsub hsl width hw rest _ _ _ r hl hc h

/-- 1. in a sane context whose cluster count is sub-additive and whose `Sub` respects the
cluster-index distance, wrapped lines never exceed the width -/
theorem wrapFits_of_subAdd (hs : cx.Sane) (hsub : cx.SubAdd) (hsl : cx.SliceLen) :
    cx.WrapFits := by
  intro text w sep r hw h
  have hnil : (gLen cx ([] : List α) : Int) ≤ w := by
    rw [gLen_nil hs]; omega
  unfold wrapLines at h
  simp only at h
  rw [if_neg (by omega)] at h
  obtain ⟨t, _, h⟩ := bind_ok.1 h
  split at h
  · cases h
    intro l hl
    rw [List.mem_singleton] at hl
    subst hl
    exact hnil
  · obtain ⟨⟨lines, cw, cl⟩, h1, h⟩ := bind_ok.1 h
    have f1 := wrapLoop_fits_subAdd hs hsub hsl w hw _ _ _ _ _ (fun l hl => by simp at hl) hnil h1
    simp only at h f1
    have fin : ∀ (p : List (List α) × List α), (∀ l ∈ p.1, (gLen cx l : Int) ≤ w) →
        (gLen cx p.2 : Int) ≤ w →
        ∀ l ∈ (if (!p.2.isEmpty) = true then p.1 ++ [p.2] else p.1), (gLen cx l : Int) ≤ w := by
      intro p h1 h2
      split
      · exact fits_snoc h1 h2
      · exact h1
    split at h
    · obtain ⟨p, h2, h⟩ := bind_ok.1 h
      have f2 := appendWord_fits_subAdd hs hsub hsl w hw _ _ _ _ _ f1.1 f1.2 h2
      cases h
      exact fin p f2.1 f2.2
    · cases h
      exact fin (lines, cl) f1.1 f1.2

end generic

/-! ## 2. instance A -/

theorem cxA_subAdd : cxA.SubAdd := fun a b => splitRunes_length_append_le a b

theorem cxA_sliceLen_aux (s : List Int) (x y : Int)
    (hb : 0 ≤ x ∧ x ≤ y ∧ y ≤ ((splitRunes s).length : Int)) :
    ((splitRunes (if (x == y) = true then []
      else sliceRunes s (if x > 0 then (splitRunes s).getD (x.toNat - 1) 0 else 0)
        ((splitRunes s).getD (y.toNat - 1) 0))).length : Int) ≤ y - x := by
  split
  · rw [splitRunes_nil]
    simp only [List.length_nil, Int.natCast_zero]
    omega
  · rename_i hne
    have hne : x ≠ y := by simpa using hne
    rw [splitRunes_slice s x y hb.1 (by omega) hb.2.2]
    simp only [List.length_map, List.length_take, List.length_drop]
    omega

theorem cxA_sliceLen : cxA.SliceLen := by
  intro s st en
  unfold gSub gLen
  simp only [cxA_ends]
  exact cxA_sliceLen_aux s _ _ (rangeToIndexes_bounds_t (splitRunes s).length st en (by omega))

/-- wrapped lines never exceed the width, for every code-point text -/
theorem cxA_wrapFits : cxA.WrapFits := wrapFits_of_subAdd cxA_Sane cxA_subAdd cxA_sliceLen

/-! ## 3. corollaries -/

/-- `Wrap` clamps the width to at least 2 -/
theorem wrapLines_clamp {α : Type} [DecidableEq α] (cx : Ctx α) (text : List α) (w : Int)
    (sep : List α) : wrapLines cx text w sep = wrapLines cx text (max w 2) sep := by
  unfold wrapLines
  have : (if w < 2 then 2 else w) = (if max w 2 < 2 then 2 else max w 2) := by
    repeat' split
    all_goals omega
  simp only [this]

/-- C06 clause 1 for ALL code-point texts: every wrapped line has at most `max w 2` clusters -/
theorem wrapLines_width_all (text : List Int) (w : Int) (sep : List Int) (r : List (List Int))
    (h : wrapLines cxA text w sep = .ok r) : ∀ l ∈ r, (gLen cxA l : Int) ≤ max w 2 := by
  rw [wrapLines_clamp] at h
  exact cxA_wrapFits text (max w 2) sep r (by omega) h

/-- `InsertTwoColumnsOpts` with a non-negative gap is total on instance A -/
theorem insertTwoColumnsOpts_total_A (ed : Editor Int) (pos : Int) (l r : List Int)
    (gap width : Int) (pct : Pct) (o : Options Int) (hg : 0 ≤ gap) :
    ∃ x, ed.insertTwoColumnsOpts cxA pos l r gap width pct o = .ok x :=
  insertTwoColumnsOpts_total cxA_Sane cxA_wrapFits ed pos l r gap width pct o hg

/-- … for EVERY value of the minimum distance (a negative one is taken as 0 since repair D17) -/
theorem insertTwoColumnsOpts_total_A_any (ed : Editor Int) (pos : Int) (l r : List Int)
    (gap width : Int) (pct : Pct) (o : Options Int) :
    ∃ x, ed.insertTwoColumnsOpts cxA pos l r gap width pct o = .ok x :=
  insertTwoColumnsOpts_total_any cxA_Sane cxA_wrapFits ed pos l r gap width pct o

end RosedVerif
