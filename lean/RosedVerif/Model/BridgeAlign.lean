/-
The A→B bridge for AlignLine{Left,Right,Center} and JustifyLine.  On a stable vocabulary running
the model on CODE POINTS (instance `cxA`, real UAX #29 segmentation) gives exactly the flattening
of running it on CLUSTER TOKENS (instance `cxB`, one atom per cluster).

* Parts 1–2 (CountLeading/TrailingWhitespace, AlignLine*) need only `StableRunes toks`.
* Part 3 (segmenting the output back) needs a stable vocabulary containing the space token.
* Parts 4–5 (JustifyLine) need, as CollapseSpace does, `hspTail` (no U+0020 hidden in a non-head
  position of a cluster) and, for the newline pre-pass, `hnl : ∀ t ∈ V, 0x0A ∈ t → t = [0x0A]`.
  `hnl` makes the proof direct (the pre-pass is a token-wise map on both levels) but it is NOT a
  necessary condition: the only other cluster containing U+000A, CR LF, is harmless, and
  BridgeAlignCRLF.lean proves the same statements without `hnl`
  (`justifyLine_bridge_general`, `justifyLine_bridge_general_post`).
-/
import RosedVerif.Model.BridgeWrap
import RosedVerif.Model.AlignRefine
namespace RosedVerif
namespace BridgeAlign
open BridgeWrap

/-! ## 0. the relation "same text, segmented the same way" -/

/-- the code-point text `x` is the flattening of the token list `y`, and it segments into
exactly these tokens -/
def Rel (x : List Int) (y : List (List Int)) : Prop := StableRunes y ∧ x = y.flatten

theorem Rel.mk' {toks : List (List Int)} (h : StableRunes toks) : Rel toks.flatten toks := ⟨h, rfl⟩

theorem rel_gLen {x : List Int} {y : List (List Int)} (h : Rel x y) :
    gLen cxA x = gLen cxB y := by
  rw [h.2, gLen_flatten_stable y h.1, gLen_triv cxB cxB_triv]

theorem rel_clusters {x : List Int} {y : List (List Int)} (h : Rel x y) : clusters cxA x = y := by
  rw [h.2, clusters_flatten_stable y h.1]

/-- `gem.String.Sub` with ARBITRARY integer arguments (negative, out of range, …) -/
theorem rel_gSub {x : List Int} {y : List (List Int)} (h : Rel x y) (a b : Int) :
    Rel (gSub cxA x a b) (gSub cxB y a b) := by
  obtain ⟨hst, rfl⟩ := h
  have hb := rangeToIndexes_bounds (y.length : Int) a b (Int.natCast_nonneg _)
  generalize hr : rangeToIndexes (y.length : Int) a b = p at hb
  obtain ⟨st, en⟩ := p
  simp only at hb
  have eB : gSub cxB y a b = (y.drop st.toNat).take (en.toNat - st.toNat) :=
    gSub_triv_of_rti cxB cxB_triv y a b st en hr hb.1 hb.2.1 hb.2.2
  have eA : gSub cxA y.flatten a b = gSub cxA y.flatten st en := by
    have hl : (cxA.ends y.flatten).length = y.length := gLen_flatten_stable y hst
    unfold gSub
    simp only [hl, hr, rangeToIndexes_id _ _ _ hb.1 hb.2.1 hb.2.2]
  have eA' : gSub cxA y.flatten st en = ((y.drop st.toNat).take (en.toNat - st.toNat)).flatten := by
    have := gSub_flatten_stable y hst st.toNat en.toNat (by omega) (by omega)
    rwa [Int.toNat_of_nonneg hb.1, Int.toNat_of_nonneg (by omega)] at this
  rw [eB, eA, eA']
  exact ⟨hst.slice _ _, rfl⟩

/-! ## 1. CountLeadingWhitespace / CountTrailingWhitespace -/

/-- both levels look at the FIRST code point of a cluster -/
theorem findIdx?_notSpace : ∀ (toks : List (List Int)), (∀ t ∈ toks, t ≠ []) →
    toks.findIdx? (notSpaceHead cxA) = (toks.map fun c => [c]).findIdx? (notSpaceHead cxB)
  | [], _ => rfl
  | t :: rest, h => by
    have ih := findIdx?_notSpace rest (fun x hx => h x (List.mem_cons_of_mem _ hx))
    cases t with
    | nil => exact absurd rfl (h [] List.mem_cons_self)
    | cons r t' =>
      rw [List.map_cons, List.findIdx?_cons, List.findIdx?_cons, ih]
      rfl

theorem rel_gIndexFunc_notSpace {x : List Int} {y : List (List Int)} (h : Rel x y) :
    gIndexFunc cxA (notSpaceHead cxA) x = gIndexFunc cxB (notSpaceHead cxB) y := by
  unfold gIndexFunc findIdxInt
  rw [(rel_clusters h), WrapRefine.clusters_triv cxB cxB_triv, findIdx?_notSpace y h.1.ne_nil]

theorem rel_gLastIndexFunc_notSpace {x : List Int} {y : List (List Int)} (h : Rel x y) :
    gLastIndexFunc cxA (notSpaceHead cxA) x = gLastIndexFunc cxB (notSpaceHead cxB) y := by
  unfold gLastIndexFunc findIdxInt
  simp only [(rel_clusters h), WrapRefine.clusters_triv cxB cxB_triv, ← List.map_reverse, List.length_map]
  rw [findIdx?_notSpace y.reverse (fun t ht => h.1.ne_nil t (List.mem_reverse.1 ht))]

theorem rel_countLeadingWs {x : List Int} {y : List (List Int)} (h : Rel x y) :
    countLeadingWs cxA x = countLeadingWs cxB y := by
  unfold countLeadingWs
  rw [(rel_gIndexFunc_notSpace h), (rel_gLen h)]

theorem rel_countTrailingWs {x : List Int} {y : List (List Int)} (h : Rel x y) :
    countTrailingWs cxA x = countTrailingWs cxB y := by
  unfold countTrailingWs
  rw [(rel_gLastIndexFunc_notSpace h), (rel_gLen h)]

/-! ## 2. AlignLine{Left,Right,Center} -/

theorem gRepeat_sp_flatten (n : Int) : (gRepeat [cxB.sp] n).flatten = gRepeat [cxA.sp] n := by
  rw [gRepeat_single, gRepeat_single]
  exact replicate_singleton_flatten (0x20 : Int) n.toNat

theorem rel_alignLeft {x : List Int} {y : List (List Int)} (h : Rel x y) (w : Int) :
    alignLeft cxA x w = (alignLeft cxB y w).flatten := by
  simp only [alignLeft_eq_core]
  unfold alignLeftCore
  dsimp only
  rw [rel_countLeadingWs h, rel_gLen h]
  obtain ⟨eA, eB, hA, hB, he⟩ : ∃ eA eB,
      eA = (if countLeadingWs cxB y > 0 then gSub cxA x (countLeadingWs cxB y) (gLen cxB y)
        else x) ∧
      eB = (if countLeadingWs cxB y > 0 then gSub cxB y (countLeadingWs cxB y) (gLen cxB y)
        else y) ∧ Rel eA eB := by
    refine ⟨_, _, rfl, rfl, ?_⟩
    split
    · exact rel_gSub h _ _
    · exact h
  rw [← hA, ← hB, rel_gLen he, List.flatten_append, gRepeat_sp_flatten, ← he.2]

theorem rel_alignRight {x : List Int} {y : List (List Int)} (h : Rel x y) (w : Int) :
    alignRight cxA x w = (alignRight cxB y w).flatten := by
  simp only [alignRight_eq_core]
  unfold alignRightCore
  dsimp only
  rw [rel_countTrailingWs h]
  obtain ⟨eA, eB, hA, hB, he⟩ : ∃ eA eB,
      eA = (if countTrailingWs cxB y > 0 then gSub cxA x 0 (-countTrailingWs cxB y) else x) ∧
      eB = (if countTrailingWs cxB y > 0 then gSub cxB y 0 (-countTrailingWs cxB y) else y) ∧
      Rel eA eB := by
    refine ⟨_, _, rfl, rfl, ?_⟩
    split
    · exact rel_gSub h _ _
    · exact h
  rw [← hA, ← hB, rel_gLen he, List.flatten_append, gRepeat_sp_flatten, ← he.2]

theorem rel_alignCenter {x : List Int} {y : List (List Int)} (h : Rel x y) (w : Int) :
    alignCenter cxA x w = (alignCenter cxB y w).flatten := by
  simp only [alignCenter_eq_core]
  unfold alignCenterCore
  dsimp only
  rw [rel_countTrailingWs h, rel_countLeadingWs h, rel_gLen h]
  obtain ⟨eA, eB, hA, hB, he⟩ : ∃ eA eB,
      eA = (if countTrailingWs cxB y > 0
        then gSub cxA x (countLeadingWs cxB y) (-countTrailingWs cxB y)
        else gSub cxA x (countLeadingWs cxB y) (gLen cxB y)) ∧
      eB = (if countTrailingWs cxB y > 0
        then gSub cxB y (countLeadingWs cxB y) (-countTrailingWs cxB y)
        else gSub cxB y (countLeadingWs cxB y) (gLen cxB y)) ∧
      Rel eA eB := by
    refine ⟨_, _, rfl, rfl, ?_⟩
    split
    · exact rel_gSub h _ _
    · exact rel_gSub h _ _
  rw [← hA, ← hB, rel_gLen he]
  split
  · exact he.2
  · rw [List.flatten_append, List.flatten_append, gRepeat_sp_flatten, gRepeat_sp_flatten, ← he.2]

/-! ### the tokens of the specification's output -/
section specmem
variable {α : Type} (tk : Spec.Toks α)

theorem mem_pad {n : Nat} {c : α} (h : c ∈ Spec.pad tk n) : c = tk.sp :=
  List.eq_of_mem_replicate h

theorem mem_stripLeft {l : List α} {c : α} (h : c ∈ Spec.stripLeft tk l) : c ∈ l :=
  (Spec.stripLeft_suffix tk l).subset h

theorem mem_stripRight {l : List α} {c : α} (h : c ∈ Spec.stripRight tk l) : c ∈ l :=
  (Spec.stripRight_prefix tk l).subset h

theorem alignLeft_mem_tokens (w : Int) (l : List α) :
    ∀ c ∈ Spec.alignLeft tk w l, c ∈ l ∨ c = tk.sp := by
  intro c h
  unfold Spec.alignLeft at h
  rcases List.mem_append.1 h with h | h
  · exact Or.inl (mem_stripLeft tk h)
  · exact Or.inr (mem_pad tk h)

theorem alignRight_mem_tokens (w : Int) (l : List α) :
    ∀ c ∈ Spec.alignRight tk w l, c ∈ l ∨ c = tk.sp := by
  intro c h
  unfold Spec.alignRight at h
  rcases List.mem_append.1 h with h | h
  · exact Or.inr (mem_pad tk h)
  · exact Or.inl (mem_stripRight tk h)

theorem alignCenter_mem_tokens (w : Int) (l : List α) :
    ∀ c ∈ Spec.alignCenter tk w l, c ∈ l ∨ c = tk.sp := by
  intro c h
  unfold Spec.alignCenter at h
  dsimp only at h
  split at h
  · exact Or.inl (mem_stripLeft tk (mem_stripRight tk h))
  · rcases List.mem_append.1 h with h | h
    · rcases List.mem_append.1 h with h | h
      · exact Or.inr (mem_pad tk h)
      · exact Or.inl (mem_stripLeft tk (mem_stripRight tk h))
    · exact Or.inr (mem_pad tk h)

end specmem

theorem over_of_mem_or_sp {V : List (List Int)} (hsp : [0x20] ∈ V) {toks out : List (List Int)}
    (ht : ∀ t ∈ toks, t ∈ V) (h : ∀ c ∈ out, c ∈ toks ∨ c = cxB.sp) : ∀ t ∈ out, t ∈ V := by
  intro t hto
  rcases h t hto with h | h
  · exact ht t h
  · rw [h]; exact hsp

/-! ## 4. JustifyLine -/

/-! ### the newline pre-pass -/

/-- a token that is either the newline token or does not contain U+000A at all -/
def NlOK (t : List Int) : Prop := t = [0x0A] ∨ (0x0A : Int) ∉ t

theorem nlOK_of_nlOnly {V : List (List Int)} (h : ∀ t ∈ V, (0x0A : Int) ∈ t → t = [0x0A])
    {t : List Int} (ht : t ∈ V) : NlOK t := by
  by_cases hm : (0x0A : Int) ∈ t
  · exact Or.inl (h t ht hm)
  · exact Or.inr hm

/-- `strings.ReplaceAll(text, "\n", " ")` on code points = on tokens -/
theorem replaceAll_nl_bridge (toks : List (List Int)) (h : ∀ t ∈ toks, NlOK t) :
    replaceAll toks.flatten [cxA.nl] [cxA.sp] = (replaceAll toks [cxB.nl] [cxB.sp]).flatten := by
  rw [replaceAll_single, replaceAll_single, List.map_flatten]
  congr 1
  apply List.map_congr_left
  intro t ht
  rcases h t ht with e | e
  · subst e; rfl
  · have hne : t ≠ cxB.nl := by
      intro e'; rw [e'] at e; exact e (by simp [cxB])
    rw [if_neg hne]
    conv => rhs; rw [← List.map_id t]
    apply List.map_congr_left
    intro x hx
    have : x ≠ cxA.nl := by
      intro e'; rw [e'] at hx; exact e hx
    simp only [if_neg this, id]

theorem replaceAll_nl_over {V : List (List Int)} (hsp : [0x20] ∈ V) {toks : List (List Int)}
    (ht : ∀ t ∈ toks, t ∈ V) : ∀ t ∈ replaceAll toks [cxB.nl] [cxB.sp], t ∈ V := by
  rw [replaceAll_single]
  intro t h
  obtain ⟨u, hu, rfl⟩ := List.mem_map.1 h
  split
  · exact hsp
  · exact ht u hu

/-! ### `strings.Split(text, " ")` -/

section
variable {α : Type} [DecidableEq α]

theorem splitOnAux_append_not_mem (a : α) : ∀ (t s cur : List α), a ∉ t →
    splitOnAux [a] (t ++ s) 0 cur = splitOnAux [a] s 0 (t.reverse ++ cur)
  | [], _, _, _ => rfl
  | c :: t, s, cur, h => by
    have hc : ¬ a = c := fun e => h (by simp [e])
    rw [List.cons_append, splitOnAux_single_cons, if_neg hc,
      splitOnAux_append_not_mem a t s (c :: cur) (fun e => h (List.mem_cons_of_mem _ e))]
    simp only [List.reverse_cons, List.append_assoc, List.cons_append, List.nil_append]

theorem splitOnAux_single_mem (a : α) : ∀ (s cur : List α),
    ∀ w ∈ splitOnAux [a] s 0 cur, ∀ c ∈ w, c ∈ cur ∨ c ∈ s
  | [], cur, w, hw, c, hc => by
    simp only [splitOnAux, List.mem_singleton] at hw
    subst hw
    exact Or.inl (List.mem_reverse.1 hc)
  | d :: t, cur, w, hw, c, hc => by
    rw [splitOnAux_single_cons] at hw
    split at hw
    · rcases List.mem_cons.1 hw with rfl | hw
      · exact Or.inl (List.mem_reverse.1 hc)
      · rcases splitOnAux_single_mem a t [] w hw c hc with h | h
        · cases h
        · exact Or.inr (List.mem_cons_of_mem _ h)
    · rcases splitOnAux_single_mem a t (d :: cur) w hw c hc with h | h
      · rcases List.mem_cons.1 h with h | h
        · subst h; exact Or.inr List.mem_cons_self
        · exact Or.inl h
      · exact Or.inr (List.mem_cons_of_mem _ h)

/-- the atoms of a piece are atoms of the text -/
theorem splitOn_single_mem (a : α) (s : List α) : ∀ w ∈ splitOn s [a], ∀ c ∈ w, c ∈ s := by
  intro w hw c hc
  rcases splitOnAux_single_mem a s [] w hw c hc with h | h
  · cases h
  · exact h

end

theorem splitOnAux_sp_bridge : ∀ (ct : List (List Int)), (∀ t ∈ ct, SpOK t) →
    ∀ (curA : List Int) (curB : List (List Int)), curA.reverse = curB.reverse.flatten →
    splitOnAux [cxA.sp] ct.flatten 0 curA = (splitOnAux [cxB.sp] ct 0 curB).map List.flatten
  | [], _, curA, curB, hcur => by
    simp only [List.flatten_nil, splitOnAux, List.map_cons, List.map_nil, hcur]
  | t :: rest, hok, curA, curB, hcur => by
    have hokr : ∀ t ∈ rest, SpOK t := fun x hx => hok x (List.mem_cons_of_mem _ hx)
    rcases hok t List.mem_cons_self with e | e
    · subst e
      show splitOnAux [cxA.sp] (cxA.sp :: rest.flatten) 0 curA = _
      rw [splitOnAux_single_cons, if_pos rfl, splitOnAux_single_cons,
        if_pos (show cxB.sp = [32] from rfl), List.map_cons, hcur,
        splitOnAux_sp_bridge rest hokr [] [] rfl]
    · have hne : ¬ cxB.sp = t := by
        intro e'; rw [← e'] at e; exact e (by simp [cxB])
      rw [List.flatten_cons, splitOnAux_append_not_mem cxA.sp t _ _ e, splitOnAux_single_cons,
        if_neg hne]
      apply splitOnAux_sp_bridge rest hokr
      simp only [List.reverse_append, List.reverse_reverse, List.reverse_cons, hcur,
        List.flatten_append, List.flatten_cons, List.flatten_nil, List.append_nil]

/-- splitting at the RUNE U+0020 = splitting at the TOKEN `[0x20]`, provided U+0020 occurs only
as that token -/
theorem splitOn_sp_bridge (ct : List (List Int)) (hok : ∀ t ∈ ct, SpOK t) :
    splitOn ct.flatten [cxA.sp] = (splitOn ct [cxB.sp]).map List.flatten :=
  splitOnAux_sp_bridge ct hok [] [] rfl

/-! ### `interleave` -/

theorem interleave_bridge : ∀ (words : List (List (List Int))) (extra : List Nat),
    interleave cxA (words.map List.flatten) extra = (interleave cxB words extra).flatten
  | [], _ => rfl
  | [w], _ => by simp only [List.map_cons, List.map_nil, interleave]
  | w :: w' :: ws, e :: es => by
    have ih := interleave_bridge (w' :: ws) es
    simp only [List.map_cons] at ih
    simp only [List.map_cons, interleave, ih, List.flatten_append]
    congr 2
    exact (replicate_singleton_flatten (0x20 : Int) (1 + e)).symm
  | w :: w' :: ws, [] => by
    have ih := interleave_bridge (w' :: ws) []
    simp only [List.map_cons] at ih
    simp only [List.map_cons, interleave, ih, List.flatten_append]
    rfl

theorem interleave_mem {α : Type} (cx : Ctx α) : ∀ (words : List (List α)) (extra : List Nat),
    ∀ c ∈ interleave cx words extra, c = cx.sp ∨ ∃ w ∈ words, c ∈ w
  | [], _, c, h => by cases h
  | [w], _, c, h => by
    simp only [interleave] at h
    exact Or.inr ⟨w, List.mem_cons_self, h⟩
  | w :: w' :: ws, e :: es, c, h => by
    simp only [interleave] at h
    rcases List.mem_append.1 h with h | h
    · rcases List.mem_append.1 h with h | h
      · exact Or.inr ⟨w, List.mem_cons_self, h⟩
      · exact Or.inl (List.eq_of_mem_replicate h)
    · rcases interleave_mem cx (w' :: ws) es c h with h | ⟨v, hv, h⟩
      · exact Or.inl h
      · exact Or.inr ⟨v, List.mem_cons_of_mem _ hv, h⟩
  | w :: w' :: ws, [], c, h => by
    simp only [interleave] at h
    rcases List.mem_append.1 h with h | h
    · rcases List.mem_append.1 h with h | h
      · exact Or.inr ⟨w, List.mem_cons_self, h⟩
      · exact Or.inl (List.mem_singleton.1 h)
    · rcases interleave_mem cx (w' :: ws) [] c h with h | ⟨v, hv, h⟩
      · exact Or.inl h
      · exact Or.inr ⟨v, List.mem_cons_of_mem _ hv, h⟩

/-! ### the part of JustifyLine after CollapseSpace -/

/-- JustifyLine on an already collapsed text -/
def justifyCore {α : Type} [DecidableEq α] (cx : Ctx α) (c : List α) (w : Int) : R (List α) :=
  if (gLen cx c : Int) ≥ w then (pure c : R (List α))
  else
    let words := splitOn c [cx.sp]
    let numGaps : Int := (words.length : Int) - 1
    if numGaps < 1 then pure c
    else
      let spacesToAdd : Int := w - gLen cx c
      let odd : Int := if numGaps % 2 == 0 then 0 else 1
      do
        let extra ← distribute numGaps odd spacesToAdd.toNat 0 false
          (List.replicate numGaps.toNat 0)
        pure (interleave cx words extra)

theorem justifyLine_eq_core {α : Type} [DecidableEq α] (cx : Ctx α) (text : List α) (w : Int) :
    justifyLine cx text w =
      (collapseSpace cx (replaceAll text [cx.nl] [cx.sp]) []).bind fun c => justifyCore cx c w :=
  rfl

theorem justifyCore_bridge (ct : List (List Int)) (hst : StableRunes ct) (hok : ∀ t ∈ ct, SpOK t)
    (w : Int) : justifyCore cxA ct.flatten w = (justifyCore cxB ct w).map List.flatten := by
  unfold justifyCore
  dsimp only
  rw [gLen_flatten_stable ct hst, gLen_triv cxB cxB_triv, splitOn_sp_bridge ct hok,
    List.length_map]
  split
  · rfl
  · split
    · rfl
    · cases distribute (((splitOn ct [cxB.sp]).length : Int) - 1)
        (if (((splitOn ct [cxB.sp]).length : Int) - 1) % 2 == 0 then 0 else 1)
        (w - (ct.length : Int)).toNat 0 false
        (List.replicate (((splitOn ct [cxB.sp]).length : Int) - 1).toNat 0) with
      | error e => rfl
      | ok extra =>
        show Except.ok (interleave cxA ((splitOn ct [cxB.sp]).map List.flatten) extra) =
          Except.ok (interleave cxB (splitOn ct [cxB.sp]) extra).flatten
        rw [interleave_bridge]

/-- JustifyLine bridge, given the bridge for its CollapseSpace pre-pass (hypothesis `hA`) -/
theorem justifyLine_bridge_of_collapse {V : List (List Int)} (hV : VocabStable V = true)
    (hsp : [0x20] ∈ V) (hspTail : ∀ t ∈ V, (0x20 : Int) ∉ t.tail)
    (toks : List (List Int)) (ht : ∀ t ∈ toks, t ∈ V) (w : Int)
    (hA : collapseSpace cxA (replaceAll toks.flatten [cxA.nl] [cxA.sp]) [] =
      .ok (Spec.collapse ⟨cxB.isSpace, cxB.sp, cxB.hy⟩
        (replaceAll toks [cxB.nl] [cxB.sp])).flatten) :
    ∃ r, justifyLine cxB toks w = .ok r ∧ justifyLine cxA toks.flatten w = .ok r.flatten ∧
      ∀ t ∈ r, t ∈ V := by
  have ht' := replaceAll_nl_over hsp ht
  obtain ⟨ct, c1, _, c3, c4, c5⟩ :=
    collapseSpace_bridge_full hV hsp hspTail (replaceAll toks [cxB.nl] [cxB.sp]) ht'
  rw [← c3] at hA
  have hst := stableRunes_of_vocab V hV ct c4
  obtain ⟨r, hr, hshape⟩ : ∃ r, justifyCore cxB ct w = .ok r ∧
      (r = ct ∨ ∃ extra, r = interleave cxB (splitOn ct [cxB.sp]) extra) := by
    obtain ⟨r, hr, h1, h2⟩ := justify_core cxB cxB_triv ct w
    refine ⟨r, hr, ?_⟩
    by_cases hc : ((ct.length : Int) ≥ w ∨ cxB.sp ∉ ct)
    · exact Or.inl (h1 hc)
    · obtain ⟨_, _, extra, he, _⟩ := h2 hc
      exact Or.inr ⟨extra, he⟩
  refine ⟨r, ?_, ?_, ?_⟩
  · rw [justifyLine_eq_core, c1]
    exact hr
  · rw [justifyLine_eq_core, hA]
    show justifyCore cxA ct.flatten w = _
    rw [justifyCore_bridge ct hst c5 w, hr]
    rfl
  · rcases hshape with rfl | ⟨extra, rfl⟩
    · exact c4
    · intro t h
      rcases interleave_mem cxB _ _ t h with h | ⟨v, hv, h⟩
      · rw [h]; exact hsp
      · exact c4 t (splitOn_single_mem cxB.sp ct v hv t h)

theorem justifyLine_bridge_full {V : List (List Int)} (hV : VocabStable V = true)
    (hsp : [0x20] ∈ V) (hspTail : ∀ t ∈ V, (0x20 : Int) ∉ t.tail)
    (toks : List (List Int)) (ht : ∀ t ∈ toks, t ∈ V) (hnl : ∀ t ∈ toks, NlOK t) (w : Int) :
    ∃ r, justifyLine cxB toks w = .ok r ∧ justifyLine cxA toks.flatten w = .ok r.flatten ∧
      ∀ t ∈ r, t ∈ V := by
  refine justifyLine_bridge_of_collapse hV hsp hspTail toks ht w ?_
  rw [replaceAll_nl_bridge toks hnl]
  exact collapseSpace_bridge_spec hV hsp hspTail _ (replaceAll_nl_over hsp ht)

end BridgeAlign
open BridgeWrap BridgeAlign

/-- **1a.** (any stable sequence of clusters) -/
theorem countLeadingWs_bridge_stable (toks : List (List Int)) (hst : StableRunes toks) :
    countLeadingWs cxA toks.flatten = countLeadingWs cxB toks := rel_countLeadingWs (Rel.mk' hst)

/-- **1b.** (any stable sequence of clusters) -/
theorem countTrailingWs_bridge_stable (toks : List (List Int)) (hst : StableRunes toks) :
    countTrailingWs cxA toks.flatten = countTrailingWs cxB toks := rel_countTrailingWs (Rel.mk' hst)

/-- **1a.** CountLeadingWhitespace on code points = on cluster tokens -/
theorem countLeadingWs_bridge {V : List (List Int)} (hV : VocabStable V = true)
    (toks : List (List Int)) (ht : ∀ t ∈ toks, t ∈ V) :
    countLeadingWs cxA toks.flatten = countLeadingWs cxB toks :=
  countLeadingWs_bridge_stable toks (stableRunes_of_vocab V hV toks ht)

/-- **1b.** CountTrailingWhitespace on code points = on cluster tokens -/
theorem countTrailingWs_bridge {V : List (List Int)} (hV : VocabStable V = true)
    (toks : List (List Int)) (ht : ∀ t ∈ toks, t ∈ V) :
    countTrailingWs cxA toks.flatten = countTrailingWs cxB toks :=
  countTrailingWs_bridge_stable toks (stableRunes_of_vocab V hV toks ht)

/-- 1a, closed form: the number of leading clusters whose first code point is whitespace -/
theorem countLeadingWs_bridge_spec (toks : List (List Int)) (hst : StableRunes toks) :
    countLeadingWs cxA toks.flatten = ((toks.takeWhile cxB.isSpace).length : Int) := by
  rw [countLeadingWs_bridge_stable toks hst, countLeadingWs_triv cxB cxB_triv]

theorem countTrailingWs_bridge_spec (toks : List (List Int)) (hst : StableRunes toks) :
    countTrailingWs cxA toks.flatten = ((toks.reverse.takeWhile cxB.isSpace).length : Int) := by
  rw [countTrailingWs_bridge_stable toks hst, countTrailingWs_triv cxB cxB_triv]

/-! ## 2. AlignLine{Left,Right,Center} -/

/-- **2a.** (any stable sequence of clusters) -/
theorem alignLeft_bridge_stable (toks : List (List Int)) (hst : StableRunes toks) (w : Int) :
    alignLeft cxA toks.flatten w = (alignLeft cxB toks w).flatten := rel_alignLeft (Rel.mk' hst) w

/-- **2b.** (any stable sequence of clusters) -/
theorem alignRight_bridge_stable (toks : List (List Int)) (hst : StableRunes toks) (w : Int) :
    alignRight cxA toks.flatten w = (alignRight cxB toks w).flatten :=
  rel_alignRight (Rel.mk' hst) w

/-- **2c.** (any stable sequence of clusters) -/
theorem alignCenter_bridge_stable (toks : List (List Int)) (hst : StableRunes toks) (w : Int) :
    alignCenter cxA toks.flatten w = (alignCenter cxB toks w).flatten :=
  rel_alignCenter (Rel.mk' hst) w

/-- **2a.** AlignLineLeft on code points = flattening of AlignLineLeft on cluster tokens -/
theorem alignLeft_bridge {V : List (List Int)} (hV : VocabStable V = true)
    (toks : List (List Int)) (ht : ∀ t ∈ toks, t ∈ V) (w : Int) :
    alignLeft cxA toks.flatten w = (alignLeft cxB toks w).flatten :=
  alignLeft_bridge_stable toks (stableRunes_of_vocab V hV toks ht) w

/-- **2b.** AlignLineRight -/
theorem alignRight_bridge {V : List (List Int)} (hV : VocabStable V = true)
    (toks : List (List Int)) (ht : ∀ t ∈ toks, t ∈ V) (w : Int) :
    alignRight cxA toks.flatten w = (alignRight cxB toks w).flatten :=
  alignRight_bridge_stable toks (stableRunes_of_vocab V hV toks ht) w

/-- **2c.** AlignLineCenter -/
theorem alignCenter_bridge {V : List (List Int)} (hV : VocabStable V = true)
    (toks : List (List Int)) (ht : ∀ t ∈ toks, t ∈ V) (w : Int) :
    alignCenter cxA toks.flatten w = (alignCenter cxB toks w).flatten :=
  alignCenter_bridge_stable toks (stableRunes_of_vocab V hV toks ht) w

/-! ## 3. … and the specification -/

/-- **3a.** AlignLineLeft on code points is the flattening of the specification on clusters -/
theorem alignLeft_bridge_spec {V : List (List Int)} (hV : VocabStable V = true)
    (toks : List (List Int)) (ht : ∀ t ∈ toks, t ∈ V) (w : Int) :
    alignLeft cxA toks.flatten w =
      (Spec.alignLeft ⟨cxB.isSpace, cxB.sp, cxB.hy⟩ w toks).flatten := by
  rw [alignLeft_bridge hV toks ht w, alignLeft_triv cxB cxB_triv]

theorem alignRight_bridge_spec {V : List (List Int)} (hV : VocabStable V = true)
    (toks : List (List Int)) (ht : ∀ t ∈ toks, t ∈ V) (w : Int) :
    alignRight cxA toks.flatten w =
      (Spec.alignRight ⟨cxB.isSpace, cxB.sp, cxB.hy⟩ w toks).flatten := by
  rw [alignRight_bridge hV toks ht w, alignRight_triv cxB cxB_triv]

theorem alignCenter_bridge_spec {V : List (List Int)} (hV : VocabStable V = true)
    (toks : List (List Int)) (ht : ∀ t ∈ toks, t ∈ V) (w : Int) :
    alignCenter cxA toks.flatten w =
      (Spec.alignCenter ⟨cxB.isSpace, cxB.sp, cxB.hy⟩ w toks).flatten := by
  rw [alignCenter_bridge hV toks ht w, alignCenter_triv cxB cxB_triv]

/-- **3b.** With the space in the vocabulary the output segments (real UAX #29 segmentation) back
into exactly the clusters of the specification, so all clauses of Spec/AlignLemmas.lean
transfer. -/
theorem alignLeft_bridge_clusters {V : List (List Int)} (hV : VocabStable V = true)
    (hsp : [0x20] ∈ V) (toks : List (List Int)) (ht : ∀ t ∈ toks, t ∈ V) (w : Int) :
    clusters cxA (alignLeft cxA toks.flatten w) =
      Spec.alignLeft ⟨cxB.isSpace, cxB.sp, cxB.hy⟩ w toks := by
  rw [alignLeft_bridge_spec hV toks ht w]
  exact clusters_flatten_stable _ (stableRunes_of_vocab V hV _
    (over_of_mem_or_sp hsp ht (alignLeft_mem_tokens _ w toks)))

theorem alignRight_bridge_clusters {V : List (List Int)} (hV : VocabStable V = true)
    (hsp : [0x20] ∈ V) (toks : List (List Int)) (ht : ∀ t ∈ toks, t ∈ V) (w : Int) :
    clusters cxA (alignRight cxA toks.flatten w) =
      Spec.alignRight ⟨cxB.isSpace, cxB.sp, cxB.hy⟩ w toks := by
  rw [alignRight_bridge_spec hV toks ht w]
  exact clusters_flatten_stable _ (stableRunes_of_vocab V hV _
    (over_of_mem_or_sp hsp ht (alignRight_mem_tokens _ w toks)))

theorem alignCenter_bridge_clusters {V : List (List Int)} (hV : VocabStable V = true)
    (hsp : [0x20] ∈ V) (toks : List (List Int)) (ht : ∀ t ∈ toks, t ∈ V) (w : Int) :
    clusters cxA (alignCenter cxA toks.flatten w) =
      Spec.alignCenter ⟨cxB.isSpace, cxB.sp, cxB.hy⟩ w toks := by
  rw [alignCenter_bridge_spec hV toks ht w]
  exact clusters_flatten_stable _ (stableRunes_of_vocab V hV _
    (over_of_mem_or_sp hsp ht (alignCenter_mem_tokens _ w toks)))

/-- the width clause transferred to code-point text, as an illustration: a line whose stripped
text fits is padded to exactly `w` clusters -/
theorem alignLeft_bridge_width {V : List (List Int)} (hV : VocabStable V = true)
    (hsp : [0x20] ∈ V) (toks : List (List Int)) (ht : ∀ t ∈ toks, t ∈ V) (w : Int)
    (h : ((Spec.stripLeft ⟨cxB.isSpace, cxB.sp, cxB.hy⟩ toks).length : Int) ≤ w) :
    (gLen cxA (alignLeft cxA toks.flatten w) : Int) = w := by
  rw [gLen_eq_clusters_length, alignLeft_bridge_clusters hV hsp toks ht w]
  exact Spec.alignLeft_length _ w toks h

/-! ## 4. JustifyLine -/

/-- **4.** JustifyLine on code points = flattening of JustifyLine on cluster tokens; both succeed
and the result stays inside the vocabulary.  `hnl`: U+000A occurs in the vocabulary only as the
token `[0x0A]` (this excludes the cluster CR LF; it is a sufficient, not a necessary, condition:
see `justifyLine_bridge_general` in BridgeAlignCRLF.lean, which drops it). -/
theorem justifyLine_bridge {V : List (List Int)} (hV : VocabStable V = true)
    (hsp : [0x20] ∈ V) (hspTail : ∀ t ∈ V, (0x20 : Int) ∉ t.tail)
    (hnl : ∀ t ∈ V, (0x0A : Int) ∈ t → t = [0x0A])
    (toks : List (List Int)) (ht : ∀ t ∈ toks, t ∈ V) (w : Int) :
    ∃ r, justifyLine cxB toks w = .ok r ∧ justifyLine cxA toks.flatten w = .ok r.flatten ∧
      ∀ t ∈ r, t ∈ V :=
  justifyLine_bridge_full hV hsp hspTail toks ht (fun t h => nlOK_of_nlOnly hnl (ht t h)) w

/-- 4, with the newline condition on the TEXT only (no token of the line other than `[0x0A]`
contains U+000A), whatever the vocabulary contains -/
theorem justifyLine_bridge_text {V : List (List Int)} (hV : VocabStable V = true)
    (hsp : [0x20] ∈ V) (hspTail : ∀ t ∈ V, (0x20 : Int) ∉ t.tail)
    (toks : List (List Int)) (ht : ∀ t ∈ toks, t ∈ V)
    (hnl : ∀ t ∈ toks, (0x0A : Int) ∈ t → t = [0x0A]) (w : Int) :
    ∃ r, justifyLine cxB toks w = .ok r ∧ justifyLine cxA toks.flatten w = .ok r.flatten ∧
      ∀ t ∈ r, t ∈ V :=
  justifyLine_bridge_full hV hsp hspTail toks ht (fun _ h => nlOK_of_nlOnly hnl h) w

/-- 4, as an equation between `Except` values -/
theorem justifyLine_bridge_map {V : List (List Int)} (hV : VocabStable V = true)
    (hsp : [0x20] ∈ V) (hspTail : ∀ t ∈ V, (0x20 : Int) ∉ t.tail)
    (hnl : ∀ t ∈ V, (0x0A : Int) ∈ t → t = [0x0A])
    (toks : List (List Int)) (ht : ∀ t ∈ toks, t ∈ V) (w : Int) :
    justifyLine cxA toks.flatten w = (justifyLine cxB toks w).map List.flatten := by
  obtain ⟨r, h1, h2, _⟩ := justifyLine_bridge hV hsp hspTail hnl toks ht w
  rw [h1, h2]; rfl

/-- **5.** JustifyLine on code points succeeds and its output, segmented by the real UAX #29
segmentation, satisfies the C12 postcondition relative to the collapsed cluster text. -/
theorem justifyLine_bridge_post {V : List (List Int)} (hV : VocabStable V = true)
    (hsp : [0x20] ∈ V) (hspTail : ∀ t ∈ V, (0x20 : Int) ∉ t.tail)
    (hnl : ∀ t ∈ V, (0x0A : Int) ∈ t → t = [0x0A])
    (toks : List (List Int)) (ht : ∀ t ∈ toks, t ∈ V) (w : Int) :
    ∃ out, justifyLine cxA toks.flatten w = .ok out ∧
      JustifyPost cxB (Spec.collapse ⟨cxB.isSpace, cxB.sp, cxB.hy⟩ toks) w (clusters cxA out) := by
  obtain ⟨r, h1, h2, h3⟩ := justifyLine_bridge hV hsp hspTail hnl toks ht w
  obtain ⟨r', h1', hpost⟩ := justifyLine_triv_nl cxB cxB_triv cxB_sp_space (by decide) toks w _ rfl
  rw [h1] at h1'
  cases h1'
  refine ⟨r.flatten, h2, ?_⟩
  rw [clusters_flatten_stable r (stableRunes_of_vocab V hV r h3)]
  exact hpost

/-- 5, spelled out: the visible width of a justified line is exactly `w` clusters whenever the
collapsed line is shorter than `w` and contains a space -/
theorem justifyLine_bridge_width {V : List (List Int)} (hV : VocabStable V = true)
    (hsp : [0x20] ∈ V) (hspTail : ∀ t ∈ V, (0x20 : Int) ∉ t.tail)
    (hnl : ∀ t ∈ V, (0x0A : Int) ∈ t → t = [0x0A])
    (toks : List (List Int)) (ht : ∀ t ∈ toks, t ∈ V) (w : Int)
    (hlt : ((Spec.collapse ⟨cxB.isSpace, cxB.sp, cxB.hy⟩ toks).length : Int) < w)
    (hmem : cxB.sp ∈ Spec.collapse ⟨cxB.isSpace, cxB.sp, cxB.hy⟩ toks) :
    ∃ out, justifyLine cxA toks.flatten w = .ok out ∧ (gLen cxA out : Int) = w := by
  obtain ⟨out, h1, hpost⟩ := justifyLine_bridge_post hV hsp hspTail hnl toks ht w
  refine ⟨out, h1, ?_⟩
  rw [gLen_eq_clusters_length]
  refine (hpost.2 ?_).1
  rintro (h | h)
  · omega
  · exact h hmem

/-! ## 6. a concrete instance -/

namespace BridgeAlign

def demoVocab3 : List (List Int) :=
  [[0x61], [0x62], [0x20], [0x2D], [0x65, 0x301], [0x1F1E9, 0x1F1EA], [0x9], [0x0A]]

theorem demoVocab3_stable : VocabStable demoVocab3 = true := by decide +kernel

theorem demoVocab3_spTail : ∀ t ∈ demoVocab3, (0x20 : Int) ∉ t.tail :=
  spTail_of_spOnly (by decide)

theorem demoVocab3_nlOnly : ∀ t ∈ demoVocab3, (0x0A : Int) ∈ t → t = [0x0A] := by decide

/-- "<TAB> é 🇩🇪<LF>ab  " : all four operations on code points are the flattening of the
specification / of the token-level model -/
example (w : Int) :
    alignLeft cxA ([[0x9], [0x20], [0x65, 0x301], [0x20], [0x1F1E9, 0x1F1EA], [0x0A], [0x61],
        [0x62], [0x20], [0x20]] : List (List Int)).flatten w =
      (Spec.alignLeft ⟨cxB.isSpace, cxB.sp, cxB.hy⟩ w [[0x9], [0x20], [0x65, 0x301], [0x20],
        [0x1F1E9, 0x1F1EA], [0x0A], [0x61], [0x62], [0x20], [0x20]]).flatten :=
  alignLeft_bridge_spec demoVocab3_stable _ (by decide) w

example (w : Int) :
    clusters cxA (alignCenter cxA ([[0x9], [0x20], [0x65, 0x301], [0x20], [0x1F1E9, 0x1F1EA],
        [0x0A], [0x61], [0x62], [0x20], [0x20]] : List (List Int)).flatten w) =
      Spec.alignCenter ⟨cxB.isSpace, cxB.sp, cxB.hy⟩ w [[0x9], [0x20], [0x65, 0x301], [0x20],
        [0x1F1E9, 0x1F1EA], [0x0A], [0x61], [0x62], [0x20], [0x20]] :=
  alignCenter_bridge_clusters demoVocab3_stable (by decide) _ (by decide) w

example (w : Int) :
    ∃ r, justifyLine cxB [[0x9], [0x20], [0x65, 0x301], [0x20], [0x1F1E9, 0x1F1EA], [0x0A],
        [0x61], [0x62], [0x20], [0x20]] w = .ok r ∧
      justifyLine cxA ([[0x9], [0x20], [0x65, 0x301], [0x20], [0x1F1E9, 0x1F1EA], [0x0A], [0x61],
        [0x62], [0x20], [0x20]] : List (List Int)).flatten w = .ok r.flatten ∧
      ∀ t ∈ r, t ∈ demoVocab3 :=
  justifyLine_bridge demoVocab3_stable (by decide) demoVocab3_spTail demoVocab3_nlOnly _
    (by decide) w

/-- fully evaluated: "a<TAB>é<LF>b" justified to 8 clusters -/
example : justifyLine cxA [0x61, 0x9, 0x65, 0x301, 0x0A, 0x62] 8 =
    .ok [0x61, 0x20, 0x20, 0x20, 0x65, 0x301, 0x20, 0x20, 0x62] := of_okEq (by decide +kernel)

/-- alignment does not need `demoVocab3`: any stable vocabulary will do, e.g. `demoVocab2` -/
example (w : Int) :
    alignRight cxA ([[0x61], [0x20], [0x65, 0x301], [0x9]] : List (List Int)).flatten w =
      (alignRight cxB [[0x61], [0x20], [0x65, 0x301], [0x9]] w).flatten :=
  alignRight_bridge demoVocab2_stable _ (by decide) w

end BridgeAlign

end RosedVerif
