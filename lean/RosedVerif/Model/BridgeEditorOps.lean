/-
The A→B bridge at EDITOR level for AlignOpts, IndentOpts and JustifyOpts (non-paragraph mode).
On a stable vocabulary `V`, for an editor whose text is a list of tokens of `V` and a line
separator that is a `BridgeOps.GoodSep`, running the model of the public operation on CODE POINTS
(instance `cxA`, real UAX #29 segmentation) gives exactly the flattening of running it on CLUSTER
TOKENS (instance `cxB`).

  1. `linesSep_bridge` / `bareLines_bridge` / `inLines_bridge` / `trailing_bridge`
  2. `applyOptsM_bridge` (generic per-line callback), `applyOptsM_bridge_over`
  3. `alignOpts_bridge`
  4. `indentOpts_bridge`
  5. `justifyOpts_bridge_all` (JustifyLastLine), `justifyOpts_bridge_notLast` (default; any editor,
     root or sub-editor), `justifyOpts_bridge`
  6. closed forms via OpsStructure and the Spec refinements for `cxB` (`alignOpts_bridge_closed`,
     `alignOpts_bridge_lines`, `alignOpts_bridge_lines_tok`, `justifyOpts_bridge_all_closed`,
     `justifyOpts_bridge_notLast_closed`, `…_lines`, `indentOpts_bridge_closed`)
  7. paragraph mode: RosedVerif/Model/BridgeEditorParas.lean
Section 0: `JustifyOpts` reads the byte lengths of the atoms of the text only
(`justifyOpts_blen`), which lets the ill-formed context `cxB` be replaced by `cxB1`.
-/
import RosedVerif.Model.BridgeComposite
import RosedVerif.Model.BridgeAlignCRLF
import RosedVerif.Model.OpsStructure
set_option linter.unusedSectionVars false
namespace RosedVerif
namespace BridgeEditorOps
open BridgeWrap BridgeOps BridgeAlign BridgeComposite OpsStructure

/-! ## 0. operations that do not look at byte lengths

`cxB` is not a well-formed context (the ill-formed empty token has byte length 0), `cxB1` of
BridgeComposite.lean is.  `JustifyOpts` goes through `LinesTo(-1)` and `Commit`, i.e. through
byte offsets, but it reads the byte lengths of the atoms of the text only. -/

section congr
variable {α : Type} [DecidableEq α] (cx : Ctx α) (f : α → Nat)

/-- `cx` with another byte-length function -/
@[reducible] def withBlen : Ctx α := { cx with blen := f }

theorem setSpacesLoop_blen : ∀ (fuel : Nat) (text : List α) (i : Nat),
    setSpacesLoop (withBlen cx f) fuel text i = setSpacesLoop cx fuel text i
  | 0, _, _ => rfl
  | fuel + 1, text, i => by
    simp only [setSpacesLoop, setSpacesLoop_blen fuel]
    rfl

theorem collapseRuns_blen : ∀ (l : List α), collapseRuns (withBlen cx f) l = collapseRuns cx l
  | [] => rfl
  | [_] => rfl
  | c :: d :: t => by
    simp only [collapseRuns, collapseRuns_blen (d :: t)]

theorem interleave_blen : ∀ (ws : List (List α)) (es : List Nat),
    interleave (withBlen cx f) ws es = interleave cx ws es
  | [], _ => rfl
  | [_], _ => by simp only [interleave]
  | w :: w' :: ws, e :: es => by
    simp only [interleave, interleave_blen (w' :: ws) es]
  | w :: w' :: ws, [] => by
    simp only [interleave, interleave_blen (w' :: ws) []]

theorem justifyLine_blen (l : List α) (w : Int) :
    justifyLine (withBlen cx f) l w = justifyLine cx l w := by
  unfold justifyLine collapseSpace
  simp only [setSpacesLoop_blen, collapseRuns_blen, interleave_blen]
  rfl

theorem linesSel_blen (ed : Editor α) (h : ∀ a ∈ ed.text, cx.blen a = f a) (s e : Int) :
    ed.linesSel (withBlen cx f) s e = ed.linesSel cx s e := by
  have hb : ∀ a ∈ ed.text, (withBlen cx f).blen a = cx.blen a := fun a ha => (h a ha).symm
  unfold Editor.linesSel
  simp only [byteLen_congr (withBlen cx f) cx _ hb, byteOff_congr (withBlen cx f) cx _ hb,
    subEd_congr (withBlen cx f) cx ed hb]
  rfl

theorem subEd_shape {ed : Editor α} {a b : Int} {r : Editor α} (h : ed.subEd cx a b = .ok r) :
    ∃ t a b, r = .sub t ed.opts ed a b := by
  unfold Editor.subEd at h
  cases hs : byteSlice cx ed.text a b with
  | error e => rw [hs] at h; cases h
  | ok t =>
    rw [hs] at h
    exact ⟨t, a, b, (Except.ok.inj h).symm⟩

theorem linesSel_shape {ed : Editor α} {s e : Int} {r : Editor α}
    (h : ed.linesSel cx s e = .ok r) : ∃ t a b, r = .sub t ed.opts ed a b := by
  unfold Editor.linesSel at h
  dsimp only at h
  repeat' split at h
  all_goals exact subEd_shape cx h

theorem spliceBytes_blen (s : List α) (h : ∀ a ∈ s, cx.blen a = f a) (a b : Int) (t : List α) :
    spliceBytes (withBlen cx f) s a b t = spliceBytes cx s a b t := by
  have hb : ∀ a ∈ s, (withBlen cx f).blen a = cx.blen a := fun a ha => (h a ha).symm
  unfold spliceBytes
  rw [byteLen_congr (withBlen cx f) cx _ hb, atomsForBytes_congr (withBlen cx f) cx s _ hb,
    atomsForBytes_congr (withBlen cx f) cx s _ hb]

theorem commit_sub_blen (t : List α) (o : Options α) (p : Editor α) (a b : Int)
    (h : ∀ x ∈ p.text, cx.blen x = f x) :
    (Editor.sub t o p a b).commit (withBlen cx f) = (Editor.sub t o p a b).commit cx := by
  show (do pure (p.withText (← spliceBytes (withBlen cx f) p.text a b t)) : R (Editor α)) =
    (do pure (p.withText (← spliceBytes cx p.text a b t)))
  rw [spliceBytes_blen cx f p.text h]

/-- `JustifyOpts` (non-paragraph mode) reads the byte lengths of the atoms of the text only -/
theorem justifyOpts_blen (ed : Editor α) (h : ∀ a ∈ ed.text, cx.blen a = f a) (w : Int)
    (o : Options α) (hpp : o.preservePara = false) :
    ed.justifyOpts (withBlen cx f) w o = ed.justifyOpts cx w o := by
  have hppB : (o.withDefaults cx).preservePara = false := by
    rw [withDefaults_preservePara]; exact hpp
  have hd : o.withDefaults (withBlen cx f) = o.withDefaults cx := rfl
  have hop : (fun (_ : Nat) (line : List α) => (do pure [← justifyLine (withBlen cx f) line w] :
      R (List (List α)))) = (fun _ line => do pure [← justifyLine cx line w]) := by
    funext _ line
    rw [justifyLine_blen]
  unfold Editor.justifyOpts
  dsimp only
  rw [hd, hppB, hop]
  simp only [Bool.false_eq_true, if_false]
  cases hjl : (o.withDefaults cx).justifyLast with
  | true => rfl
  | false =>
    simp only [Bool.not_false, if_true]
    unfold Editor.linesTo
    rw [linesSel_blen cx f _ (by rw [Editor.withOpts_text]; exact h)]
    cases h1 : (ed.withOpts (o.withDefaults cx)).linesSel cx 0 (-1) with
    | error e => rfl
    | ok r =>
      obtain ⟨t, a, b, rfl⟩ := linesSel_shape cx h1
      rw [ok_bind, ok_bind, applyOptsM_eq (withBlen cx f), applyOptsM_eq cx]
      have : applyOptsText (withBlen cx f) t (fun _ line => (do pure [← justifyLine cx line w]))
          (o.withDefaults cx) = applyOptsText cx t (fun _ line => (do pure [← justifyLine cx line w]))
          (o.withDefaults cx) := rfl
      show (applyOptsText (withBlen cx f) t _ _ >>= _) >>= _ = (applyOptsText cx t _ _ >>= _) >>= _
      rw [this]
      cases applyOptsText cx t (fun _ line => (do pure [← justifyLine cx line w]))
          (o.withDefaults cx) with
      | error e => rfl
      | ok x =>
        show (do pure ((← (Editor.sub x _ _ a b).commit (withBlen cx f)).withOpts ed.opts) :
          R (Editor α)) = (do pure ((← (Editor.sub x _ _ a b).commit cx).withOpts ed.opts))
        rw [commit_sub_blen cx f _ _ _ _ _ (by rw [Editor.withOpts_text]; exact h)]

end congr

/-! ## 1. lines -/

theorem getLastD_map_flatten {β : Type} (ls : List (List (List β))) :
    (ls.map List.flatten).getLastD [] = (ls.getLastD []).flatten := by
  rw [List.getLastD_eq_getLast?, List.getLastD_eq_getLast?, List.getLast?_map]
  cases ls.getLast? <;> rfl

theorem getLastD_over {β : Type} {P : β → Prop} (ls : List (List β))
    (h : ∀ l ∈ ls, ∀ t ∈ l, P t) : ∀ t ∈ ls.getLastD [], P t := by
  intro t ht
  by_cases hne : ls = []
  · subst hne; cases ht
  · exact h _ (OpsStructure.getLastD_mem ls [] hne) t ht

/-- the condition under which `applyOptsM` appends an empty line: `linesSep` dropped a final empty
piece (spelled out in the generic setting so that the instances are the ones the model uses) -/
def TrailCond {α : Type} [DecidableEq α] (cx : Ctx α) (ed : Editor α) (o : Options α) : Prop :=
  (!(o.withDefaults cx).noTrailing) = true ∧
    (inLines cx ed o).length < (splitOn ed.text (o.withDefaults cx).lineSep).length

section vocab
variable {V : List (List Int)} {S : List (List Int)}

/-- the pieces of `strings.Split` of a text over `V` are over `V` -/
theorem splitOn_over {toks : List (List Int)} (ht : ∀ t ∈ toks, t ∈ V) (sep : List (List Int)) :
    ∀ l ∈ splitOn toks sep, ∀ t ∈ l, t ∈ V :=
  fun l hl t h => ht t (splitOn_mem toks sep l hl t h)

theorem bareLines_over {toks : List (List Int)} (ht : ∀ t ∈ toks, t ∈ V) (sep : List (List Int))
    (nt : Bool) : ∀ l ∈ Spec.bareLines toks sep nt, ∀ t ∈ l, t ∈ V := by
  intro l hl
  unfold Spec.bareLines at hl
  dsimp only at hl
  split at hl
  · exact splitOn_over ht sep l (List.dropLast_subset _ hl)
  · exact splitOn_over ht sep l hl

/-- **1 (specification form).** the lines a callback sees: code points = flattening of tokens -/
theorem bareLines_bridge (hV : VocabStable V = true) (hS : GoodSep V S) (toks : List (List Int))
    (ht : ∀ t ∈ toks, t ∈ V) (nt : Bool) :
    Spec.bareLines toks.flatten S.flatten nt = (Spec.bareLines toks S nt).map List.flatten := by
  unfold Spec.bareLines
  dsimp only
  rw [hS.split toks ht, getLastD_map_flatten,
    flatten_isEmpty _ (fun t h => vocab_ne_nil hV (getLastD_over (P := (· ∈ V)) _ (splitOn_over ht S) t h))]
  split
  · rw [List.map_dropLast]
  · rfl

/-- **1.** `Editor.linesSep`: the input lines of the two levels correspond (`od` is the options
value the editor carries while its lines are taken; only its trailing policy matters) -/
theorem linesSep_bridge (hV : VocabStable V = true) (hS : GoodSep V S) (ed : Editor (List Int))
    (ht : ∀ t ∈ ed.text, t ∈ V) (od : Options (List Int)) :
    (ed.flat.withOpts od.flat).linesSep S.flatten =
      ((ed.withOpts od).linesSep S).map List.flatten := by
  rw [linesSep_eq_bareLines, linesSep_eq_bareLines, Editor.withOpts_text, Editor.withOpts_text,
    Editor.withOpts_opts, Editor.withOpts_opts, flat_text]
  exact bareLines_bridge hV hS ed.text ht _

/-- 1: every line is over `V` -/
theorem linesSep_over (ed : Editor (List Int)) (ht : ∀ t ∈ ed.text, t ∈ V)
    (sep : List (List Int)) : ∀ l ∈ ed.linesSep sep, ∀ t ∈ l, t ∈ V := by
  rw [linesSep_eq_bareLines]
  exact bareLines_over ht sep _

/-- the input lines of an `XOpts` operation (`OpsStructure.inLines`) -/
theorem inLines_bridge (hV : VocabStable V = true) (ed : Editor (List Int))
    (ht : ∀ t ∈ ed.text, t ∈ V) (o : Options (List Int))
    (hS : GoodSep V (o.withDefaults cxB).lineSep) :
    inLines cxA ed.flat o.flat = (inLines cxB ed o).map List.flatten := by
  rw [inLines_eq, inLines_eq, flat_text, lineSep_flat_gen o hS.tok_ne, withDefaults_noTrailing,
    withDefaults_noTrailing]
  exact bareLines_bridge hV hS ed.text ht _

theorem inLines_over (ed : Editor (List Int)) (ht : ∀ t ∈ ed.text, t ∈ V)
    (o : Options (List Int)) : ∀ l ∈ inLines cxB ed o, ∀ t ∈ l, t ∈ V := by
  rw [inLines_eq]
  exact bareLines_over ht _ _

theorem inLines_getD_over (ed : Editor (List Int)) (ht : ∀ t ∈ ed.text, t ∈ V)
    (o : Options (List Int)) (i : Nat) : ∀ t ∈ (inLines cxB ed o).getD i [], t ∈ V := by
  rcases getD_mem_or_nil (inLines cxB ed o) i with h | h
  · exact inLines_over ed ht o _ h
  · rw [h]; intro t ht; cases ht

/-- the extra empty line of `applyOptsM` (`OpsStructure.trailing`) -/
theorem trailCond_bridge (hV : VocabStable V = true) (ed : Editor (List Int))
    (ht : ∀ t ∈ ed.text, t ∈ V) (o : Options (List Int))
    (hS : GoodSep V (o.withDefaults cxB).lineSep) :
    TrailCond cxA ed.flat o.flat ↔ TrailCond cxB ed o := by
  unfold TrailCond
  rw [inLines_bridge hV ed ht o hS, List.length_map, flat_text, lineSep_flat_gen o hS.tok_ne,
    withDefaults_noTrailing, withDefaults_noTrailing, hS.split ed.text ht, List.length_map]
  exact Iff.rfl

/-- the extra empty line of `applyOptsM` (`OpsStructure.trailing`): both levels drop the final
empty piece at the same time, since `strings.Split` gives corresponding pieces (`GoodSep.split`)
and the line lists correspond (`inLines_bridge`) -/
theorem trailing_bridge (hV : VocabStable V = true) (ed : Editor (List Int))
    (ht : ∀ t ∈ ed.text, t ∈ V)
    (o : Options (List Int)) (hS : GoodSep V (o.withDefaults cxB).lineSep) :
    trailing cxA ed.flat o.flat = (trailing cxB ed o).map List.flatten := by
  have hc := trailCond_bridge hV ed ht o hS
  unfold TrailCond at hc
  unfold trailing
  by_cases hB : (!(o.withDefaults cxB).noTrailing) = true ∧
      (inLines cxB ed o).length < (splitOn ed.text (o.withDefaults cxB).lineSep).length
  · rw [if_pos hB, if_pos (hc.2 hB)]; rfl
  · rw [if_neg hB, if_neg (fun h => hB (hc.1 h))]; rfl

/-! ## 2. `applyOptsM` with corresponding callbacks -/

theorem flatten_map_map_flatten {β : Type} (outs : List (List (List (List β)))) :
    (outs.map (List.map List.flatten)).flatten = outs.flatten.map List.flatten := by
  induction outs with
  | nil => rfl
  | cons x t ih => simp only [List.map_cons, List.flatten_cons, ih, List.map_append]

/-- **2.** `Editor.applyOptsM`: if the callbacks correspond on the input lines, the results
correspond -/
theorem applyOptsM_bridge (hV : VocabStable V = true) (ed : Editor (List Int))
    (ht : ∀ t ∈ ed.text, t ∈ V) (o : Options (List Int))
    (hS : GoodSep V (o.withDefaults cxB).lineSep)
    (opA : Nat → List Int → R (List (List Int)))
    (opB : Nat → List (List Int) → R (List (List (List Int))))
    (hop : ∀ i, i < (inLines cxB ed o).length →
      opA i ((inLines cxB ed o).getD i []).flatten =
        (opB i ((inLines cxB ed o).getD i [])).map (List.map List.flatten)) :
    Editor.applyOptsM cxA ed.flat opA o.flat = (Editor.applyOptsM cxB ed opB o).map Editor.flat := by
  have hin : (ed.flat.withOpts (o.flat.withDefaults cxA)).linesSep
      (o.flat.withDefaults cxA).lineSep = (inLines cxB ed o).map List.flatten :=
    inLines_bridge hV ed ht o hS
  have hinB : (ed.withOpts (o.withDefaults cxB)).linesSep (o.withDefaults cxB).lineSep =
      inLines cxB ed o := rfl
  have hc : ((!(o.flat.withDefaults cxA).noTrailing) = true ∧
      (inLines cxB ed o).length <
        (splitOn ed.flat.text (o.flat.withDefaults cxA).lineSep).length) ↔ TrailCond cxB ed o := by
    unfold TrailCond
    rw [flat_text, lineSep_flat_gen o hS.tok_ne, withDefaults_noTrailing, withDefaults_noTrailing,
      hS.split ed.text ht, List.length_map]
    exact Iff.rfl
  unfold Editor.applyOptsM
  dsimp only
  rw [hin, hinB, List.length_map,
    mapM_map_bridge (fun i => opA i (((inLines cxB ed o).map List.flatten).getD i []))
      (fun i => opB i ((inLines cxB ed o).getD i [])) (List.map List.flatten) _
      (fun i hi => by rw [getD_map_flatten]; exact hop i (List.mem_range.1 hi))]
  cases (List.range (inLines cxB ed o).length).mapM
    (fun i => opB i ((inLines cxB ed o).getD i [])) with
  | error e => rfl
  | ok outs =>
    show Except.ok _ = Except.ok _
    rw [flat_withText, flatten_map_map_flatten]
    generalize outs.flatten = L
    by_cases hB : TrailCond cxB ed o
    all_goals unfold TrailCond at hB hc
    · rw [if_pos hB, if_pos (hc.2 hB), lineSep_flat_gen o hS.tok_ne, ← joinWith_flatten]
      simp only [List.map_append, List.map_cons, List.map_nil, List.flatten_nil]
    · rw [if_neg hB, if_neg (fun h => hB (hc.1 h)), lineSep_flat_gen o hS.tok_ne,
        ← joinWith_flatten]

/-- 2, with the hypothesis on the callbacks for ALL lines over the vocabulary -/
theorem applyOptsM_bridge_over (hV : VocabStable V = true) (ed : Editor (List Int))
    (ht : ∀ t ∈ ed.text, t ∈ V) (o : Options (List Int))
    (hS : GoodSep V (o.withDefaults cxB).lineSep)
    (opA : Nat → List Int → R (List (List Int)))
    (opB : Nat → List (List Int) → R (List (List (List Int))))
    (hop : ∀ (i : Nat) (l : List (List Int)), (∀ t ∈ l, t ∈ V) →
      opA i l.flatten = (opB i l).map (List.map List.flatten)) :
    Editor.applyOptsM cxA ed.flat opA o.flat = (Editor.applyOptsM cxB ed opB o).map Editor.flat :=
  applyOptsM_bridge hV ed ht o hS opA opB (fun i _ => hop i _ (inLines_getD_over ed ht o i))

/-! ## the closed form of a 1:1 operation, bridged -/

/-- the closed forms of `OpsStructure` (`ed.withText (joinWith sep (lines.map g ++ trailing))`)
correspond when the line functions do -/
theorem mapped_bridge (hV : VocabStable V = true) (ed : Editor (List Int))
    (ht : ∀ t ∈ ed.text, t ∈ V) (o : Options (List Int))
    (hS : GoodSep V (o.withDefaults cxB).lineSep)
    (gA : List Int → List Int) (gB : List (List Int) → List (List Int))
    (hg : ∀ l ∈ inLines cxB ed o, gA l.flatten = (gB l).flatten) :
    ed.flat.withText (joinWith (o.flat.withDefaults cxA).lineSep
        ((inLines cxA ed.flat o.flat).map gA ++ trailing cxA ed.flat o.flat)) =
      (ed.withText (joinWith (o.withDefaults cxB).lineSep
        ((inLines cxB ed o).map gB ++ trailing cxB ed o))).flat := by
  rw [flat_withText, inLines_bridge hV ed ht o hS, trailing_bridge hV ed ht o hS,
    lineSep_flat_gen o hS.tok_ne, ← joinWith_flatten, List.map_append, List.map_map, List.map_map]
  refine congrArg _ (congrArg _ (congrArg (· ++ _) ?_))
  apply List.map_congr_left
  intro l hl
  exact hg l hl

/-! ## 3. AlignOpts -/

theorem alignFn_bridge (hV : VocabStable V = true) (align : Int) (l : List (List Int))
    (hl : ∀ t ∈ l, t ∈ V) (w : Int) :
    alignFn cxA align l.flatten w = (alignFn cxB align l w).flatten := by
  unfold alignFn
  split
  · exact alignLeft_bridge hV l hl w
  · split
    · exact alignRight_bridge hV l hl w
    · exact alignCenter_bridge hV l hl w

/-- **3.** `Editor.AlignOpts`, non-paragraph mode, every value of `align` (also `None` and values
outside `Left..Center`), any editor (root or sub-editor) whose text is over `V` -/
theorem alignOpts_bridge (hV : VocabStable V = true) (ed : Editor (List Int))
    (ht : ∀ t ∈ ed.text, t ∈ V) (align width : Int) (o : Options (List Int))
    (hpp : o.preservePara = false) (hS : GoodSep V (o.withDefaults cxB).lineSep) :
    Editor.alignOpts cxA ed.flat align width o.flat =
      (Editor.alignOpts cxB ed align width o).map Editor.flat := by
  by_cases hal : align = Gen.alignLeft ∨ align = Gen.alignRight ∨ align = Gen.alignCenter
  · have hppB : (o.withDefaults cxB).preservePara = false := by
      rw [withDefaults_preservePara]; exact hpp
    have hppA : (o.flat.withDefaults cxA).preservePara = false := by
      rw [withDefaults_preservePara]; exact hpp
    rw [alignOpts_structure cxA ed.flat align width o.flat hal hppA,
      alignOpts_structure cxB ed align width o hal hppB]
    show Except.ok _ = Except.ok _
    rw [mapped_bridge hV ed ht o hS _ (fun l => alignFn cxB align l width)
      (fun l hl => alignFn_bridge hV align l (inLines_over ed ht o l hl) width)]
  · have hal' : align = Gen.alignNone ∨
        (align ≠ Gen.alignLeft ∧ align ≠ Gen.alignRight ∧ align ≠ Gen.alignCenter) :=
      Or.inr ⟨fun h => hal (.inl h), fun h => hal (.inr (.inl h)), fun h => hal (.inr (.inr h))⟩
    rw [alignOpts_none cxA ed.flat align width o.flat hal', alignOpts_none cxB ed align width o hal']
    rfl

/-! ## 4. IndentOpts -/

/-- the defaulted indent string on the rune side is the flattening of the one on the token side
(the indent tokens must be non-empty; compare `lineSep_flat_gen`) -/
theorem indentStr_flat_gen (o' : Options (List Int))
    (hne : ∀ t ∈ (o'.withDefaults cxB).indentStr, t ≠ []) :
    (o'.flat.withDefaults cxA).indentStr = (o'.withDefaults cxB).indentStr.flatten := by
  rw [(withDefaults_fields cxB o').2.1] at hne ⊢
  rw [(withDefaults_fields cxA o'.flat).2.1]
  show (if o'.indentStr.flatten.isEmpty then cxA.dIndent else o'.indentStr.flatten) = _
  by_cases he : o'.indentStr.isEmpty = true
  · have h0 : o'.indentStr = [] := List.isEmpty_iff.1 he
    rw [h0, ← dIndent_flat]
    rfl
  · rw [if_neg he] at hne ⊢
    rw [BridgeWrap.flatten_isEmpty _ hne, if_neg he]

theorem indentStr_ne_of_ne (o : Options (List Int)) (hi : ∀ t ∈ o.indentStr, t ≠ []) :
    ∀ t ∈ (o.withDefaults cxB).indentStr, t ≠ [] := by
  rw [(withDefaults_fields cxB o).2.1]
  split
  · rw [dIndent_B]; decide
  · exact hi

theorem replicate_flatten_flatten {β : Type} (s : List (List β)) (n : Nat) :
    (List.replicate n s.flatten).flatten = (List.replicate n s).flatten.flatten := by
  induction n with
  | zero => rfl
  | succ n ih => simp only [List.replicate_succ, List.flatten_cons, ih, List.flatten_append]

/-- `strings.Repeat`: same error, corresponding results -/
theorem repeatStr_bridge (s : List (List Int)) (n : Int) :
    repeatStr s.flatten n = (repeatStr s n).map List.flatten := by
  unfold repeatStr
  split
  · rfl
  · show Except.ok _ = Except.ok _
    rw [replicate_flatten_flatten]

/-- **4.** `Editor.IndentOpts`, non-paragraph mode, any editor whose text is over `V`; the tokens
of the indent string must be non-empty (`indentOpts_needs_ne`) -/
theorem indentOpts_bridge (hV : VocabStable V = true) (ed : Editor (List Int))
    (ht : ∀ t ∈ ed.text, t ∈ V) (level : Int) (o : Options (List Int))
    (hpp : o.preservePara = false) (hS : GoodSep V (o.withDefaults cxB).lineSep)
    (hi : ∀ t ∈ o.indentStr, t ≠ []) :
    Editor.indentOpts cxA ed.flat level o.flat =
      (Editor.indentOpts cxB ed level o).map Editor.flat := by
  have hppB : (o.withDefaults cxB).preservePara = false := by
    rw [withDefaults_preservePara]; exact hpp
  have hppA : (o.flat.withDefaults cxA).preservePara = false := by
    rw [withDefaults_preservePara]; exact hpp
  unfold Editor.indentOpts
  split
  · rfl
  · dsimp only
    rw [hppA, hppB, indentStr_flat_gen o (indentStr_ne_of_ne o hi), repeatStr_bridge]
    cases repeatStr (o.withDefaults cxB).indentStr level with
    | error e => rfl
    | ok ind =>
      show Editor.applyOpts cxA ed.flat (fun _ line => [ind.flatten ++ line]) o.flat =
        (Editor.applyOpts cxB ed (fun _ line => [ind ++ line]) o).map Editor.flat
      rw [applyOpts_map cxA ed.flat (fun line => ind.flatten ++ line) o.flat,
        applyOpts_map cxB ed (fun line => ind ++ line) o]
      show Except.ok _ = Except.ok _
      rw [mapped_bridge hV ed ht o hS _ (fun line => ind ++ line)
        (fun l _ => (List.flatten_append).symm)]

/-- the non-emptiness of the indent tokens is needed: an (ill-formed) empty token makes the
token-level indent string non-empty while its flattening is empty and gets replaced by the
default `"\t"` -/
theorem indentOpts_needs_ne :
    (Editor.indentOpts cxA (Editor.root [[0x61]] {}).flat 1
        ({ indentStr := [[]] } : Options (List Int)).flat).map Editor.text = .ok [0x09, 0x61] ∧
      ((Editor.indentOpts cxB (Editor.root [[0x61]] {}) 1 { indentStr := [[]] }).map
        Editor.flat).map Editor.text = .ok [0x61] :=
  ⟨of_okEq (by decide +kernel), of_okEq (by decide +kernel)⟩

/-! ## 5. JustifyOpts -/

/-- JustifyLine on a line over `V`: it succeeds on tokens, and the (total) justified lines of the
two levels correspond -/
theorem justified_bridge (hV : VocabStable V = true) (hsp : [0x20] ∈ V)
    (hspTail : ∀ t ∈ V, (0x20 : Int) ∉ t.tail) (l : List (List Int)) (hl : ∀ t ∈ l, t ∈ V)
    (w : Int) :
    justifyLine cxB l w = .ok (justified cxB l w) ∧
      justified cxA l.flatten w = (justified cxB l w).flatten := by
  obtain ⟨r, h1, h2, _⟩ := justifyLine_bridge_general hV hsp hspTail l hl w
  unfold justified
  rw [h1, h2]
  exact ⟨rfl, rfl⟩

/-- **5a.** `Editor.JustifyOpts`, non-paragraph mode, `JustifyLastLine` set -/
theorem justifyOpts_bridge_all (hV : VocabStable V = true) (hsp : [0x20] ∈ V)
    (hspTail : ∀ t ∈ V, (0x20 : Int) ∉ t.tail) (ed : Editor (List Int))
    (ht : ∀ t ∈ ed.text, t ∈ V) (width : Int) (o : Options (List Int))
    (hpp : o.preservePara = false) (hjl : o.justifyLast = true)
    (hS : GoodSep V (o.withDefaults cxB).lineSep) :
    Editor.justifyOpts cxA ed.flat width o.flat =
      (Editor.justifyOpts cxB ed width o).map Editor.flat := by
  have hppB : (o.withDefaults cxB).preservePara = false := by
    rw [withDefaults_preservePara]; exact hpp
  have hppA : (o.flat.withDefaults cxA).preservePara = false := by
    rw [withDefaults_preservePara]; exact hpp
  have hjlB : (o.withDefaults cxB).justifyLast = true := by
    rw [(withDefaults_fields cxB o).2.2.2.2.2.1]; exact hjl
  have hjlA : (o.flat.withDefaults cxA).justifyLast = true := by
    rw [(withDefaults_fields cxA o.flat).2.2.2.2.2.1]; exact hjl
  rw [justifyOpts_all_sane cxA cxA_Sane ed.flat width o.flat hppA hjlA,
    justifyOpts_all cxB ed width o (fun l => justified cxB l width) hppB hjlB
      (fun l hl => (justified_bridge hV hsp hspTail l (inLines_over ed ht o l hl) width).1)]
  show Except.ok _ = Except.ok _
  rw [mapped_bridge hV ed ht o hS _ (fun l => justified cxB l width)
    (fun l hl => (justified_bridge hV hsp hspTail l (inLines_over ed ht o l hl) width).2)]

theorem cxB1_eq : cxB1 = withBlen cxB (fun c => if c = [] then 1 else cxB.blen c) := rfl

theorem cxB1_Sane : cxB1.Sane := sane_of_triv (cx := cxB1) cxB1_triv cxB1_WF.2

theorem cxA_dLineSep_ne : cxA.dLineSep ≠ [] := by
  rw [← dLineSep_flat, dLineSep_B]; decide

theorem cxB1_dLineSep_ne : cxB1.dLineSep ≠ [] := by
  show cxB.dLineSep ≠ []
  rw [dLineSep_B]; decide

/-- `JustifyOpts` on cluster tokens (text without empty tokens) may be computed in the well-formed
context `cxB1` -/
theorem justifyOpts_B_eq_B1 (ed : Editor (List Int)) (hne : ∀ t ∈ ed.text, t ≠ []) (w : Int)
    (o : Options (List Int)) (hpp : o.preservePara = false) :
    ed.justifyOpts cxB w o = ed.justifyOpts cxB1 w o :=
  (justifyOpts_blen cxB _ ed (fun a ha => by rw [if_neg (hne a ha)]) w o hpp).symm

/-- `JustifyOpts` on cluster tokens, non-paragraph mode, `JustifyLastLine` not set, in closed form
(the statement of `justifyOpts_notLast` for the ill-formed context `cxB`, on a text over `V`) -/
theorem justifyOpts_B_notLast (hV : VocabStable V = true) (hsp : [0x20] ∈ V)
    (hspTail : ∀ t ∈ V, (0x20 : Int) ∉ t.tail) (ed : Editor (List Int))
    (ht : ∀ t ∈ ed.text, t ∈ V) (width : Int) (o : Options (List Int))
    (hpp : o.preservePara = false) (hjl : o.justifyLast = false) :
    ed.justifyOpts cxB width o =
        .ok (ed.withText
          ((((inLines cxB ed o).dropLast).map
              (fun l => justified cxB l width ++ (o.withDefaults cxB).lineSep)).flatten ++
            ed.text.drop (headText (o.withDefaults cxB).lineSep (inLines cxB ed o)).length)) ∧
      ed.text = headText (o.withDefaults cxB).lineSep (inLines cxB ed o) ++
        ed.text.drop (headText (o.withDefaults cxB).lineSep (inLines cxB ed o)).length := by
  have hppB : (o.withDefaults cxB1).preservePara = false := by
    rw [withDefaults_preservePara]; exact hpp
  have hjlB : (o.withDefaults cxB1).justifyLast = false := by
    rw [(withDefaults_fields cxB1 o).2.2.2.2.2.1]; exact hjl
  rw [justifyOpts_B_eq_B1 ed (over_ne_nil hV ht) width o hpp]
  have hin : inLines cxB1 ed o = inLines cxB ed o := rfl
  have key := justifyOpts_notLast cxB1 cxB1_WF.2 cxB1_dLineSep_ne ed width o
    (fun l => justified cxB l width) hppB hjlB
    (fun l hl => by
      rw [cxB1_eq, justifyLine_blen]
      exact (justified_bridge hV hsp hspTail l
        (inLines_over ed ht o l (hin ▸ List.dropLast_subset _ hl)) width).1)
    (fun _ => justifyLine_nil cxB1 cxB1_Sane width)
  exact key

theorem headText_bridge (sep : List (List Int)) (ls : List (List (List Int))) :
    headText sep.flatten (ls.map List.flatten) = (headText sep ls).flatten := by
  unfold headText
  rw [← List.map_dropLast, List.map_map, List.flatten_flatten, List.map_map]
  congr 1
  apply List.map_congr_left
  intro l _
  simp only [Function.comp, List.flatten_append]

/-- **5b.** `Editor.JustifyOpts`, non-paragraph mode, `JustifyLastLine` not set (the default); any
editor, root or sub-editor.  (`LinesTo(-1)`, `applyOptsM`, `Commit`: the byte offsets of the two
levels agree because both select the text before the last line.) -/
theorem justifyOpts_bridge_notLast (hV : VocabStable V = true) (hsp : [0x20] ∈ V)
    (hspTail : ∀ t ∈ V, (0x20 : Int) ∉ t.tail) (ed : Editor (List Int))
    (ht : ∀ t ∈ ed.text, t ∈ V) (width : Int) (o : Options (List Int))
    (hpp : o.preservePara = false) (hjl : o.justifyLast = false)
    (hS : GoodSep V (o.withDefaults cxB).lineSep) :
    Editor.justifyOpts cxA ed.flat width o.flat =
      (Editor.justifyOpts cxB ed width o).map Editor.flat := by
  have hppA : (o.flat.withDefaults cxA).preservePara = false := by
    rw [withDefaults_preservePara]; exact hpp
  have hjlA : (o.flat.withDefaults cxA).justifyLast = false := by
    rw [(withDefaults_fields cxA o.flat).2.2.2.2.2.1]; exact hjl
  obtain ⟨hB, htextB⟩ := justifyOpts_B_notLast hV hsp hspTail ed ht width o hpp hjl
  rw [(justifyOpts_notLast_sane cxA cxA_Sane cxA_dLineSep_ne ed.flat width o.flat hppA hjlA).1, hB]
  show Except.ok _ = Except.ok _
  rw [flat_withText, inLines_bridge hV ed ht o hS, lineSep_flat_gen o hS.tok_ne, headText_bridge,
    flat_text, List.flatten_append]
  refine congrArg Except.ok (congrArg _ (congr (congrArg HAppend.hAppend ?_) ?_))
  · rw [← List.map_dropLast, List.map_map, List.flatten_flatten, List.map_map]
    refine congrArg List.flatten ?_
    apply List.map_congr_left
    intro l hl
    simp only [Function.comp, List.flatten_append,
      (justified_bridge hV hsp hspTail l
        (inLines_over ed ht o l (List.dropLast_subset _ hl)) width).2]
  · generalize headText (o.withDefaults cxB).lineSep (inLines cxB ed o) = HB at htextB ⊢
    generalize hD : ed.text.drop HB.length = DB at htextB ⊢
    have := congrArg List.flatten htextB
    rw [List.flatten_append] at this
    rw [this, List.drop_left]

/-- **5.** `Editor.JustifyOpts`, non-paragraph mode -/
theorem justifyOpts_bridge (hV : VocabStable V = true) (hsp : [0x20] ∈ V)
    (hspTail : ∀ t ∈ V, (0x20 : Int) ∉ t.tail) (ed : Editor (List Int))
    (ht : ∀ t ∈ ed.text, t ∈ V) (width : Int) (o : Options (List Int))
    (hpp : o.preservePara = false) (hS : GoodSep V (o.withDefaults cxB).lineSep) :
    Editor.justifyOpts cxA ed.flat width o.flat =
      (Editor.justifyOpts cxB ed width o).map Editor.flat := by
  cases hjl : o.justifyLast with
  | true => exact justifyOpts_bridge_all hV hsp hspTail ed ht width o hpp hjl hS
  | false => exact justifyOpts_bridge_notLast hV hsp hspTail ed ht width o hpp hjl hS

end vocab

/-! ## 6. closed forms: the specification on clusters -/

/-- the cluster-level token classes of the specification -/
abbrev tkB : Spec.Toks (List Int) := ⟨cxB.isSpace, cxB.sp, cxB.hy⟩

/-- the specification's line function selected by the raw alignment value (a value in 1..3) -/
def specAlign (align w : Int) (l : List (List Int)) : List (List Int) :=
  if align == Gen.alignLeft then Spec.alignLeft tkB w l
  else if align == Gen.alignRight then Spec.alignRight tkB w l
  else Spec.alignCenter tkB w l

theorem alignFn_B_spec (align w : Int) (l : List (List Int)) :
    alignFn cxB align l w = specAlign align w l := by
  unfold alignFn specAlign
  simp only [alignLeft_triv cxB cxB_triv, alignRight_triv cxB cxB_triv,
    alignCenter_triv cxB cxB_triv]

theorem specAlign_left (w : Int) : specAlign Gen.alignLeft w = Spec.alignLeft tkB w := rfl
theorem specAlign_right (w : Int) : specAlign Gen.alignRight w = Spec.alignRight tkB w := rfl
theorem specAlign_center (w : Int) : specAlign Gen.alignCenter w = Spec.alignCenter tkB w := rfl

theorem specAlign_mem (align w : Int) (l : List (List Int)) :
    ∀ c ∈ specAlign align w l, c ∈ l ∨ c = cxB.sp := by
  unfold specAlign
  split
  · exact alignLeft_mem_tokens tkB w l
  · split
    · exact alignRight_mem_tokens tkB w l
    · exact alignCenter_mem_tokens tkB w l

theorem collapse_mem {α : Type} (tk : Spec.Toks α) : ∀ (l : List α),
    ∀ c ∈ Spec.collapse tk l, c ∈ l ∨ c = tk.sp
  | [], c, h => by cases h
  | [a], c, h => by
    simp only [Spec.collapse, List.mem_singleton] at h
    split at h
    · exact Or.inr h
    · exact Or.inl (by rw [h]; exact List.mem_cons_self)
  | a :: d :: t, c, h => by
    have ih := collapse_mem tk (d :: t) c
    rw [Spec.collapse] at h
    split at h
    · exact (ih h).imp_left (List.mem_cons_of_mem _)
    · rcases List.mem_cons.1 h with h | h
      · split at h
        · exact Or.inr h
        · exact Or.inl (by rw [h]; exact List.mem_cons_self)
      · exact (ih h).imp_left (List.mem_cons_of_mem _)

/-- the justified line on cluster tokens satisfies the C12 postcondition relative to the collapsed
line -/
theorem justified_B_post (l : List (List Int)) (w : Int) :
    justifyLine cxB l w = .ok (justified cxB l w) ∧
      JustifyPost cxB (Spec.collapse tkB l) w (justified cxB l w) := by
  obtain ⟨r, h1, hpost⟩ := justifyLine_triv_nl cxB cxB_triv cxB_sp_space (by decide) l w _ rfl
  unfold justified
  rw [h1]
  exact ⟨rfl, hpost⟩

/-- the tokens of a justified line are tokens of the line, or spaces -/
theorem justified_B_mem (l : List (List Int)) (w : Int) :
    ∀ c ∈ justified cxB l w, c ∈ l ∨ c = cxB.sp := by
  obtain ⟨-, h1, h2⟩ := justified_B_post l w
  intro c hc
  by_cases hcase : ((Spec.collapse tkB l).length : Int) ≥ w ∨ cxB.sp ∉ Spec.collapse tkB l
  · rw [h1 hcase] at hc
    exact collapse_mem tkB l c hc
  · obtain ⟨-, -, extra, he, -⟩ := h2 hcase
    rw [he] at hc
    rcases interleave_mem cxB _ _ c hc with h | ⟨v, hv, h⟩
    · exact Or.inr h
    · exact collapse_mem tkB l c (splitOn_single_mem cxB.sp _ v hv c h)

theorem indexOf_single_none_iff {α : Type} [DecidableEq α] (s : α) : ∀ (l : List α),
    indexOf [s] l = none ↔ s ∉ l
  | [] => by simp [indexOf]
  | c :: t => by
    rw [indexOf_cons]
    have ih := indexOf_single_none_iff s t
    by_cases h : s = c
    · subst h
      simp
    · have : ([s] : List α).isPrefixOf (c :: t) = false := by
        simp [List.isPrefixOf, h]
      rw [this]
      simp only [Bool.false_eq_true, if_false, Option.map_eq_none_iff, ih, List.mem_cons, h,
        false_or]

theorem unbordered_single {α : Type} (s : α) : Unbordered [s] := by
  intro k h1 h2
  simp only [List.length_singleton] at h2
  omega

section vocab
variable {V : List (List Int)}

theorem specAlign_over (hsp : [0x20] ∈ V) (align w : Int) {l : List (List Int)}
    (hl : ∀ t ∈ l, t ∈ V) : ∀ t ∈ specAlign align w l, t ∈ V :=
  over_of_mem_or_sp hsp hl (specAlign_mem align w l)

theorem justified_B_over (hsp : [0x20] ∈ V) (w : Int) {l : List (List Int)}
    (hl : ∀ t ∈ l, t ∈ V) : ∀ t ∈ justified cxB l w, t ∈ V :=
  over_of_mem_or_sp hsp hl (justified_B_mem l w)

/-- **6a.** `AlignOpts` on code points in closed form: it succeeds, and the result is the
flattening of the receiver with every input line replaced by the SPECIFICATION's aligned line on
clusters (plus the trailing empty line when the last line of the text is terminated) -/
theorem alignOpts_bridge_closed (hV : VocabStable V = true) (ed : Editor (List Int))
    (ht : ∀ t ∈ ed.text, t ∈ V) (align width : Int) (o : Options (List Int))
    (hal : align = Gen.alignLeft ∨ align = Gen.alignRight ∨ align = Gen.alignCenter)
    (hpp : o.preservePara = false) (hS : GoodSep V (o.withDefaults cxB).lineSep) :
    Editor.alignOpts cxA ed.flat align width o.flat =
      .ok (ed.withText (joinWith (o.withDefaults cxB).lineSep
        ((inLines cxB ed o).map (specAlign align width) ++ trailing cxB ed o))).flat := by
  have hppB : (o.withDefaults cxB).preservePara = false := by
    rw [withDefaults_preservePara]; exact hpp
  rw [alignOpts_bridge hV ed ht align width o hpp hS,
    alignOpts_structure cxB ed align width o hal hppB]
  show Except.ok _ = Except.ok _
  simp only [alignFn_B_spec]

/-- 6a for `None` and values outside `Left..Center`: nothing happens -/
theorem alignOpts_bridge_none (ed : Editor (List Int)) (align width : Int)
    (o : Options (List Int))
    (hal : align = Gen.alignNone ∨
      (align ≠ Gen.alignLeft ∧ align ≠ Gen.alignRight ∧ align ≠ Gen.alignCenter)) :
    Editor.alignOpts cxA ed.flat align width o.flat = .ok ed.flat :=
  alignOpts_none cxA ed.flat align width o.flat hal

/-- **6 (generic).** re-segmenting the result: if the input lines are replaced, one for one, by
lines over `V` that do not contain the (unbordered, over `V`) separator, then splitting the
flattened new text at the flattened separator and segmenting every piece (real UAX #29
segmentation) gives back exactly the replacement lines, plus the trailing empty line -/
theorem lines_of_replaced (hV : VocabStable V = true) (ed : Editor (List Int))
    (o : Options (List Int)) (hS : GoodSep V (o.withDefaults cxB).lineSep)
    (hSV : ∀ t ∈ (o.withDefaults cxB).lineSep, t ∈ V)
    (hu : Unbordered (o.withDefaults cxB).lineSep) (ls' : List (List (List Int)))
    (hlen : ls'.length = (inLines cxB ed o).length)
    (hover : ∀ l ∈ ls', ∀ t ∈ l, t ∈ V)
    (hfree : ∀ l ∈ ls', indexOf (o.withDefaults cxB).lineSep l = none) :
    (splitOn (joinWith (o.withDefaults cxB).lineSep (ls' ++ trailing cxB ed o)).flatten
        (o.withDefaults cxB).lineSep.flatten).map (clusters cxA) = ls' ++ trailing cxB ed o := by
  have htr : ∀ l ∈ trailing cxB ed o, ∀ t ∈ l, t ∈ V := by
    intro l hl t ht
    unfold trailing at hl
    split at hl
    · rw [List.mem_singleton] at hl; subst hl; cases ht
    · cases hl
  have hJ : ∀ t ∈ joinWith (o.withDefaults cxB).lineSep (ls' ++ trailing cxB ed o), t ∈ V := by
    intro t h
    rcases joinWith_mem _ _ t h with h | ⟨l, hl, h⟩
    · exact hSV t h
    · rcases List.mem_append.1 hl with hl | hl
      · exact hover l hl t h
      · exact htr l hl t h
  rw [hS.split _ hJ, List.map_map,
    List.map_congr_left (f := clusters cxA ∘ List.flatten) (g := id) (fun l hl =>
      clusters_flatten_stable l (stableRunes_of_vocab V hV l (splitOn_over hJ _ l hl))),
    List.map_id]
  exact splitOn_replaced cxB ed o ls' hS.ne hu hlen hfree

/-- **6b.** the lines of the result of `AlignOpts` on code points: split at the separator and
re-segmented, they are the specification's aligned lines on clusters -/
theorem alignOpts_bridge_lines (hV : VocabStable V = true) (hsp : [0x20] ∈ V)
    (ed : Editor (List Int)) (ht : ∀ t ∈ ed.text, t ∈ V) (align width : Int)
    (o : Options (List Int))
    (hal : align = Gen.alignLeft ∨ align = Gen.alignRight ∨ align = Gen.alignCenter)
    (hpp : o.preservePara = false) (hS : GoodSep V (o.withDefaults cxB).lineSep)
    (hSV : ∀ t ∈ (o.withDefaults cxB).lineSep, t ∈ V)
    (hu : Unbordered (o.withDefaults cxB).lineSep)
    (hfree : ∀ l ∈ inLines cxB ed o,
      indexOf (o.withDefaults cxB).lineSep (specAlign align width l) = none) :
    ∃ e, Editor.alignOpts cxA ed.flat align width o.flat = .ok e ∧ e.opts = ed.flat.opts ∧
      (splitOn e.text (o.withDefaults cxB).lineSep.flatten).map (clusters cxA) =
        (inLines cxB ed o).map (specAlign align width) ++ trailing cxB ed o := by
  refine ⟨_, alignOpts_bridge_closed hV ed ht align width o hal hpp hS, ?_, ?_⟩
  · rw [flat_withText, Editor.withText_opts]
  · rw [flat_withText, Editor.withText_text]
    refine lines_of_replaced hV ed o hS hSV hu _ (List.length_map _) ?_ ?_
    · intro l hl
      obtain ⟨l0, hl0, rfl⟩ := List.mem_map.1 hl
      exact specAlign_over hsp align width (inLines_over ed ht o l0 hl0)
    · intro l hl
      obtain ⟨l0, hl0, rfl⟩ := List.mem_map.1 hl
      exact hfree l0 hl0

/-- a line without the single-token separator `[s]` is aligned / justified to a line without it
(`s` is not the space) -/
theorem free_of_mem_or_sp (ed : Editor (List Int)) (o : Options (List Int)) (s : List Int)
    (hs : (o.withDefaults cxB).lineSep = [s]) (hsne : s ≠ [0x20])
    (g : List (List Int) → List (List Int)) (hg : ∀ l, ∀ c ∈ g l, c ∈ l ∨ c = cxB.sp) :
    ∀ l ∈ inLines cxB ed o, indexOf (o.withDefaults cxB).lineSep (g l) = none := by
  intro l hl
  have h0 := inLines_free cxB ed o (by rw [hs]; simp) l hl
  rw [hs, indexOf_single_none_iff] at h0 ⊢
  intro hm
  rcases hg l s hm with h | h
  · exact h0 h
  · exact hsne h

/-- 6b for a single-token separator other than the space (e.g. `"\n"`, or CR LF): no side
condition on the aligned lines is left -/
theorem alignOpts_bridge_lines_tok (hV : VocabStable V = true) (hsp : [0x20] ∈ V)
    (ed : Editor (List Int)) (ht : ∀ t ∈ ed.text, t ∈ V) (align width : Int)
    (o : Options (List Int))
    (hal : align = Gen.alignLeft ∨ align = Gen.alignRight ∨ align = Gen.alignCenter)
    (hpp : o.preservePara = false) (s : List Int) (hs : (o.withDefaults cxB).lineSep = [s])
    (hsV : s ∈ V) (hsne : s ≠ [0x20]) (hS : GoodSep V [s]) :
    ∃ e, Editor.alignOpts cxA ed.flat align width o.flat = .ok e ∧ e.opts = ed.flat.opts ∧
      (splitOn e.text s).map (clusters cxA) =
        (inLines cxB ed o).map (specAlign align width) ++ trailing cxB ed o := by
  have h := alignOpts_bridge_lines hV hsp ed ht align width o hal hpp (hs ▸ hS)
    (by rw [hs]; intro t h; rw [List.mem_singleton] at h; rw [h]; exact hsV)
    (by rw [hs]; exact unbordered_single s)
    (free_of_mem_or_sp ed o s hs hsne _ (specAlign_mem align width))
  rw [hs, flatten_single] at h
  exact h

/-- **6c.** `JustifyOpts` with `JustifyLastLine` on code points in closed form, with the C12
postcondition of every justified line (relative to the collapsed cluster line) -/
theorem justifyOpts_bridge_all_closed (hV : VocabStable V = true) (hsp : [0x20] ∈ V)
    (hspTail : ∀ t ∈ V, (0x20 : Int) ∉ t.tail) (ed : Editor (List Int))
    (ht : ∀ t ∈ ed.text, t ∈ V) (width : Int) (o : Options (List Int))
    (hpp : o.preservePara = false) (hjl : o.justifyLast = true)
    (hS : GoodSep V (o.withDefaults cxB).lineSep) :
    Editor.justifyOpts cxA ed.flat width o.flat =
        .ok (ed.withText (joinWith (o.withDefaults cxB).lineSep
          ((inLines cxB ed o).map (fun l => justified cxB l width) ++ trailing cxB ed o))).flat ∧
      ∀ l, JustifyPost cxB (Spec.collapse tkB l) width (justified cxB l width) := by
  have hppB : (o.withDefaults cxB).preservePara = false := by
    rw [withDefaults_preservePara]; exact hpp
  have hjlB : (o.withDefaults cxB).justifyLast = true := by
    rw [(withDefaults_fields cxB o).2.2.2.2.2.1]; exact hjl
  refine ⟨?_, fun l => (justified_B_post l width).2⟩
  rw [justifyOpts_bridge_all hV hsp hspTail ed ht width o hpp hjl hS,
    justifyOpts_all cxB ed width o (fun l => justified cxB l width) hppB hjlB
      (fun l _ => (justified_B_post l width).1)]
  rfl

/-- **6d.** `JustifyOpts` (default: the last line is left alone) on code points in closed form
(any good separator): all lines but the last are justified, the last one is kept -/
theorem justifyOpts_bridge_notLast_closed (hV : VocabStable V = true) (hsp : [0x20] ∈ V)
    (hspTail : ∀ t ∈ V, (0x20 : Int) ∉ t.tail) (ed : Editor (List Int))
    (ht : ∀ t ∈ ed.text, t ∈ V) (width : Int) (o : Options (List Int))
    (hpp : o.preservePara = false) (hjl : o.justifyLast = false)
    (hS : GoodSep V (o.withDefaults cxB).lineSep) :
    Editor.justifyOpts cxA ed.flat width o.flat =
      .ok (ed.withText (joinWith (o.withDefaults cxB).lineSep
        (mapInit (fun l => justified cxB l width) (inLines cxB ed o) ++
          trailing cxB ed o))).flat := by
  have hppB : (o.withDefaults cxB1).preservePara = false := by
    rw [withDefaults_preservePara]; exact hpp
  have hjlB : (o.withDefaults cxB1).justifyLast = false := by
    rw [(withDefaults_fields cxB1 o).2.2.2.2.2.1]; exact hjl
  rw [justifyOpts_bridge_notLast hV hsp hspTail ed ht width o hpp hjl hS,
    justifyOpts_B_eq_B1 ed (over_ne_nil hV ht) width o hpp]
  have key := justifyOpts_notLast_closed cxB1 cxB1_WF.2 cxB1_dLineSep_ne ed width o
    (fun l => justified cxB l width) hppB hjlB
    (fun l _ => by rw [cxB1_eq, justifyLine_blen]; exact (justified_B_post l width).1)
    (fun _ => justifyLine_nil cxB1 cxB1_Sane width)
  rw [key]
  rfl

/-- 6c, lines of the result -/
theorem justifyOpts_bridge_all_lines (hV : VocabStable V = true) (hsp : [0x20] ∈ V)
    (hspTail : ∀ t ∈ V, (0x20 : Int) ∉ t.tail) (ed : Editor (List Int))
    (ht : ∀ t ∈ ed.text, t ∈ V) (width : Int) (o : Options (List Int))
    (hpp : o.preservePara = false) (hjl : o.justifyLast = true)
    (hS : GoodSep V (o.withDefaults cxB).lineSep)
    (hSV : ∀ t ∈ (o.withDefaults cxB).lineSep, t ∈ V)
    (hu : Unbordered (o.withDefaults cxB).lineSep)
    (hfree : ∀ l ∈ inLines cxB ed o,
      indexOf (o.withDefaults cxB).lineSep (justified cxB l width) = none) :
    ∃ e, Editor.justifyOpts cxA ed.flat width o.flat = .ok e ∧ e.opts = ed.flat.opts ∧
      (splitOn e.text (o.withDefaults cxB).lineSep.flatten).map (clusters cxA) =
        (inLines cxB ed o).map (fun l => justified cxB l width) ++ trailing cxB ed o := by
  refine ⟨_, (justifyOpts_bridge_all_closed hV hsp hspTail ed ht width o hpp hjl hS).1, ?_, ?_⟩
  · rw [flat_withText, Editor.withText_opts]
  · rw [flat_withText, Editor.withText_text]
    refine lines_of_replaced hV ed o hS hSV hu _ (List.length_map _) ?_ ?_
    · intro l hl
      obtain ⟨l0, hl0, rfl⟩ := List.mem_map.1 hl
      exact justified_B_over hsp width (inLines_over ed ht o l0 hl0)
    · intro l hl
      obtain ⟨l0, hl0, rfl⟩ := List.mem_map.1 hl
      exact hfree l0 hl0

/-- 6d, lines of the result -/
theorem justifyOpts_bridge_notLast_lines (hV : VocabStable V = true) (hsp : [0x20] ∈ V)
    (hspTail : ∀ t ∈ V, (0x20 : Int) ∉ t.tail) (ed : Editor (List Int))
    (ht : ∀ t ∈ ed.text, t ∈ V) (width : Int) (o : Options (List Int))
    (hpp : o.preservePara = false) (hjl : o.justifyLast = false)
    (hS : GoodSep V (o.withDefaults cxB).lineSep)
    (hSV : ∀ t ∈ (o.withDefaults cxB).lineSep, t ∈ V)
    (hu : Unbordered (o.withDefaults cxB).lineSep)
    (hfree : ∀ l ∈ (inLines cxB ed o).dropLast,
      indexOf (o.withDefaults cxB).lineSep (justified cxB l width) = none) :
    ∃ e, Editor.justifyOpts cxA ed.flat width o.flat = .ok e ∧ e.opts = ed.flat.opts ∧
      (splitOn e.text (o.withDefaults cxB).lineSep.flatten).map (clusters cxA) =
        mapInit (fun l => justified cxB l width) (inLines cxB ed o) ++ trailing cxB ed o := by
  refine ⟨_, justifyOpts_bridge_notLast_closed hV hsp hspTail ed ht width o hpp hjl hS, ?_, ?_⟩
  · rw [flat_withText, Editor.withText_opts]
  · rw [flat_withText, Editor.withText_text]
    refine lines_of_replaced hV ed o hS hSV hu _ (mapInit_length _ _) ?_ ?_
    · intro l hl
      unfold mapInit at hl
      rcases List.mem_append.1 hl with hl | hl
      · obtain ⟨l0, hl0, rfl⟩ := List.mem_map.1 hl
        exact justified_B_over hsp width (inLines_over ed ht o l0 (List.dropLast_subset _ hl0))
      · exact inLines_over ed ht o l (List.mem_of_mem_drop hl)
    · intro l hl
      unfold mapInit at hl
      rcases List.mem_append.1 hl with hl | hl
      · obtain ⟨l0, hl0, rfl⟩ := List.mem_map.1 hl
        exact hfree l0 hl0
      · exact inLines_free cxB ed o hS.ne l (List.mem_of_mem_drop hl)

/-- **6e.** `IndentOpts` on code points in closed form -/
theorem indentOpts_bridge_closed (hV : VocabStable V = true) (ed : Editor (List Int))
    (ht : ∀ t ∈ ed.text, t ∈ V) (level : Int) (hlev : 1 ≤ level) (o : Options (List Int))
    (hpp : o.preservePara = false) (hS : GoodSep V (o.withDefaults cxB).lineSep)
    (hi : ∀ t ∈ o.indentStr, t ≠ []) :
    Editor.indentOpts cxA ed.flat level o.flat =
      .ok (ed.withText (joinWith (o.withDefaults cxB).lineSep
        ((inLines cxB ed o).map
            (fun l => (List.replicate level.toNat (o.withDefaults cxB).indentStr).flatten ++ l) ++
          trailing cxB ed o))).flat := by
  have hppB : (o.withDefaults cxB).preservePara = false := by
    rw [withDefaults_preservePara]; exact hpp
  rw [indentOpts_bridge hV ed ht level o hpp hS hi]
  unfold Editor.indentOpts
  rw [if_neg (by omega)]
  dsimp only
  rw [hppB]
  unfold repeatStr
  rw [if_neg (by omega)]
  show (Editor.applyOpts cxB ed (fun _ line => [_ ++ line]) o).map Editor.flat = _
  rw [applyOpts_map cxB ed (fun line => _ ++ line) o]
  rfl

end vocab

/-! ## 7. concrete instances -/

theorem demo3_good_nl : GoodSep BridgeOps.demoVocab3 [[0x0A]] :=
  goodSep_rune BridgeOps.demoVocab3_stable BridgeOps.demoVocab3_nlOnly

/-- the defaulted line separator when the call options leave it unset or set it to `"\n"` -/
theorem lineSep_nl_of (o : Options (List Int)) (hls : o.lineSep = [] ∨ o.lineSep = [[0x0A]]) :
    (o.withDefaults cxB).lineSep = [[0x0A]] := by
  rw [(withDefaults_fields cxB o).1]
  rcases hls with h | h <;> rw [h]
  · exact dLineSep_B
  · rfl

/-- all hypotheses hold for the vocabulary `BridgeOps.demoVocab3` and the separator U+000A: for every text
over the vocabulary (root editor with arbitrary options `o0`), every alignment value, width and
indent level, and all call options `o` that leave the line separator unset (or set it to `"\n"`),
do not ask for paragraph mode and have no empty indent token: `AlignOpts`, `IndentOpts` and
`JustifyOpts` (both values of `JustifyLastLine`) on code points are the flattening of the same
operations on cluster tokens -/
example (toks : List (List Int)) (ht : ∀ t ∈ toks, t ∈ BridgeOps.demoVocab3) (align width level : Int)
    (o0 o : Options (List Int)) (hpp : o.preservePara = false)
    (hls : o.lineSep = [] ∨ o.lineSep = [[0x0A]]) (hi : ∀ t ∈ o.indentStr, t ≠ []) :
    Editor.alignOpts cxA (.root toks.flatten o0.flat) align width o.flat =
        (Editor.alignOpts cxB (.root toks o0) align width o).map Editor.flat ∧
    Editor.indentOpts cxA (.root toks.flatten o0.flat) level o.flat =
        (Editor.indentOpts cxB (.root toks o0) level o).map Editor.flat ∧
    Editor.justifyOpts cxA (.root toks.flatten o0.flat) width o.flat =
        (Editor.justifyOpts cxB (.root toks o0) width o).map Editor.flat := by
  have hS : GoodSep BridgeOps.demoVocab3 (o.withDefaults cxB).lineSep := by
    rw [lineSep_nl_of o hls]; exact demo3_good_nl
  exact ⟨alignOpts_bridge BridgeOps.demoVocab3_stable (.root toks o0) ht align width o hpp hS,
    indentOpts_bridge BridgeOps.demoVocab3_stable (.root toks o0) ht level o hpp hS hi,
    justifyOpts_bridge BridgeOps.demoVocab3_stable BridgeOps.demoVocab3_sp BridgeOps.demoVocab3_spTail (.root toks o0) ht width o
      hpp hS⟩

/-- the same for a SUB-editor (any parent `p`, any recorded byte range): the operations act on the
sub-editor's own text; `JustifyOpts` commits its inner `LinesTo(-1)` selection into that text -/
example (toks : List (List Int)) (ht : ∀ t ∈ toks, t ∈ BridgeOps.demoVocab3) (width : Int)
    (o0 : Options (List Int)) (p : Editor (List Int)) (a b : Int) :
    Editor.justifyOpts cxA (Editor.sub toks o0 p a b).flat width ({} : Options (List Int)).flat =
      (Editor.justifyOpts cxB (Editor.sub toks o0 p a b) width {}).map Editor.flat :=
  justifyOpts_bridge BridgeOps.demoVocab3_stable BridgeOps.demoVocab3_sp BridgeOps.demoVocab3_spTail (.sub toks o0 p a b) ht width
    {} rfl (by rw [default_lineSep_B]; exact demo3_good_nl)

/-- the requested closed form, for every text over `BridgeOps.demoVocab3`, the default options and
`Left`: `AlignOpts` on code points succeeds, and the pieces of the new text between line feeds,
re-segmented by the real UAX #29 segmentation, are the specification's left-aligned cluster lines
(plus the trailing empty piece) -/
example (toks : List (List Int)) (ht : ∀ t ∈ toks, t ∈ BridgeOps.demoVocab3) (width : Int)
    (o0 : Options (List Int)) :
    ∃ e, Editor.alignOpts cxA (.root toks.flatten o0.flat) Gen.alignLeft width {} = .ok e ∧
      e.opts = o0.flat ∧
      (splitOn e.text [0x0A]).map (clusters cxA) =
        (inLines cxB (.root toks o0) {}).map (Spec.alignLeft tkB width) ++
          trailing cxB (.root toks o0) {} := by
  have h := alignOpts_bridge_lines_tok BridgeOps.demoVocab3_stable BridgeOps.demoVocab3_sp (.root toks o0) ht
    Gen.alignLeft width {} (.inl rfl) rfl [0x0A] default_lineSep_B BridgeOps.demoVocab3_nl (by decide)
    demo3_good_nl
  obtain ⟨e, h1, h2, h3⟩ := h
  refine ⟨e, h1, h2, ?_⟩
  rw [h3, specAlign_left]

/-- "a é<TAB>\n🇩🇪🇩🇪b ab\n" centred, default options, any width -/
example (w : Int) :
    ∃ e, Editor.alignOpts cxA (.root ([[0x61], [0x20], [0x65, 0x301], [0x9], [0x0A],
        [0x1F1E9, 0x1F1EA], [0x1F1E9, 0x1F1EA], [0x62], [0x20], [0x61], [0x62], [0x0A]] :
          List (List Int)).flatten {}) Gen.alignCenter w {} = .ok e ∧
      (splitOn e.text [0x0A]).map (clusters cxA) =
        [Spec.alignCenter tkB w [[0x61], [0x20], [0x65, 0x301], [0x9]],
         Spec.alignCenter tkB w [[0x1F1E9, 0x1F1EA], [0x1F1E9, 0x1F1EA], [0x62], [0x20], [0x61],
           [0x62]],
         []] := by
  obtain ⟨e, h1, -, h2⟩ := alignOpts_bridge_lines_tok BridgeOps.demoVocab3_stable BridgeOps.demoVocab3_sp
    (.root [[0x61], [0x20], [0x65, 0x301], [0x9], [0x0A], [0x1F1E9, 0x1F1EA], [0x1F1E9, 0x1F1EA],
      [0x62], [0x20], [0x61], [0x62], [0x0A]] {}) (by decide) Gen.alignCenter w {}
    (.inr (.inr rfl)) rfl [0x0A] default_lineSep_B BridgeOps.demoVocab3_nl (by decide) demo3_good_nl
  refine ⟨e, h1, ?_⟩
  rw [h2]
  have e1 : inLines cxB (.root ([[0x61], [0x20], [0x65, 0x301], [0x9], [0x0A], [0x1F1E9, 0x1F1EA],
      [0x1F1E9, 0x1F1EA], [0x62], [0x20], [0x61], [0x62], [0x0A]] : List (List Int)) {}) {} =
      [[[0x61], [0x20], [0x65, 0x301], [0x9]],
       [[0x1F1E9, 0x1F1EA], [0x1F1E9, 0x1F1EA], [0x62], [0x20], [0x61], [0x62]]] := by
    decide +kernel
  have e2 : trailing cxB (.root ([[0x61], [0x20], [0x65, 0x301], [0x9], [0x0A], [0x1F1E9, 0x1F1EA],
      [0x1F1E9, 0x1F1EA], [0x62], [0x20], [0x61], [0x62], [0x0A]] : List (List Int)) {}) {} =
      [[]] := by
    decide +kernel
  rw [e1, e2]
  rfl

/-- the Windows separator `"\r\n"` (one cluster of two code points), on `demoVocabCRLF` -/
example (toks : List (List Int)) (ht : ∀ t ∈ toks, t ∈ demoVocabCRLF) (align width level : Int)
    (o0 o : Options (List Int)) (hpp : o.preservePara = false)
    (hls : o.lineSep = [[0x0D, 0x0A]]) (hi : ∀ t ∈ o.indentStr, t ≠ []) :
    Editor.alignOpts cxA (.root toks.flatten o0.flat) align width o.flat =
        (Editor.alignOpts cxB (.root toks o0) align width o).map Editor.flat ∧
    Editor.indentOpts cxA (.root toks.flatten o0.flat) level o.flat =
        (Editor.indentOpts cxB (.root toks o0) level o).map Editor.flat ∧
    Editor.justifyOpts cxA (.root toks.flatten o0.flat) width o.flat =
        (Editor.justifyOpts cxB (.root toks o0) width o).map Editor.flat ∧
    o.flat.lineSep = [0x0D, 0x0A] := by
  have hS : GoodSep demoVocabCRLF (o.withDefaults cxB).lineSep := by
    rw [(withDefaults_fields cxB o).1, hls, if_neg (by decide)]
    exact demoVocabCRLF_good
  refine ⟨alignOpts_bridge demoVocabCRLF_stable (.root toks o0) ht align width o hpp hS,
    indentOpts_bridge demoVocabCRLF_stable (.root toks o0) ht level o hpp hS hi,
    justifyOpts_bridge demoVocabCRLF_stable (by decide) (spTail_of_spOnly (by decide))
      (.root toks o0) ht width o hpp hS, ?_⟩
  show o.lineSep.flatten = _
  rw [hls]; rfl

/-- fully evaluated on code points: " a  é\nb c\nd e" justified to 6 clusters with the default
options — the first two lines are justified, the last one is left alone -/
example : (Editor.justifyOpts cxA (.root [0x20, 0x61, 0x20, 0x20, 0x65, 0x301, 0x0A, 0x62, 0x20,
      0x63, 0x0A, 0x64, 0x20, 0x65] {}) 6 {}).map Editor.text =
    .ok [0x20, 0x20, 0x61, 0x20, 0x20, 0x65, 0x301, 0x0A, 0x62, 0x20, 0x20, 0x20, 0x20, 0x63, 0x0A,
      0x64, 0x20, 0x65] := of_okEq (by decide +kernel)

end BridgeEditorOps
end RosedVerif
