/-
The newline hypothesis of `justifyLine_bridge` is NOT needed.

`justifyLine_bridge` (BridgeAlign.lean) assumes that U+000A occurs in the vocabulary only as the
token `[0x0A]`.  UAX #29 (GB3–GB5) leaves exactly one other cluster containing U+000A: CR LF.  On
code points the newline pre-pass of JustifyLine turns it into CR SPACE — two clusters, both
whitespace — which the cluster loop of CollapseSpace and the regexp `" +"` then merge into one
space; on cluster tokens CR LF is one whitespace token that becomes one space.  The collapsed
texts agree, so the bridge holds for EVERY stable vocabulary:

  `justifyLine_bridge_general`  (no hypothesis about U+000A at all).

Ingredients: (1) a self-contained class string containing LF is `[LF]` or `[CR, LF]`
(`selfContained_lf`), lifted to code points with the regenerated tables (`vocab_nl`);
(2) a lone CR is a cluster and there is a boundary before every CR (`breakJunction_cr`);
(3) the cluster loop of CollapseSpace for token lists that contain, besides vocabulary tokens,
lone CRs followed by a space (`setSpacesLoop_A_gen`, predicate `Ok`);
(4) `Spec.collapse` is insensitive to replacing whitespace tokens by non-empty lists of
whitespace tokens (`collapse_flatMap_ws`).
-/
import RosedVerif.Model.BridgeAlign
import RosedVerif.Gem.TableProofs
namespace RosedVerif
namespace BridgeAlignCRLF
open BridgeWrap BridgeAlign

/-! ## 1. facts about the break automaton -/

section dfa
open Cls

theorem brkDfa_cr (q : St) : brkDfa q cr = true := by
  obtain ⟨last, a, b, c⟩ := q
  cases last with
  | none => rfl
  | some r => cases r <;> rfl

theorem brkDfa_after_lf (q : St) (h : q.last = some lf) (nx : Cls) : brkDfa q nx = true := by
  obtain ⟨last, a, b, c⟩ := q
  simp only at h
  subst h
  rfl

theorem brkDfa_lf_of_ne_cr (q : St) (x : Cls) (h : q.last = some x) (hx : x ≠ cr) :
    brkDfa q lf = true := by
  obtain ⟨last, a, b, c⟩ := q
  simp only at h
  subst h
  cases x <;> first | rfl | exact absurd rfl hx

theorem run_concat (q : St) (l : List Cls) (x : Cls) : run q (l ++ [x]) = δ (run q l) x := by
  rw [run_append]; rfl

theorem run_concat_last (q : St) (l : List Cls) (x : Cls) : (run q (l ++ [x])).last = some x := by
  rw [run_concat]; rfl

theorem eq_nil_or_snoc {β : Type} (l : List β) : l = [] ∨ ∃ L b, l = L ++ [b] := by
  rcases List.eq_nil_or_concat l with h | ⟨L, b, h⟩
  · exact Or.inl h
  · exact Or.inr ⟨L, b, by rw [h, List.concat_eq_append]⟩

/-- inside a single cluster there is no position where the automaton breaks -/
theorem sc_no_break {l1 l2 : List Cls} (h : SelfContained (l1 ++ l2)) (h1 : l1 ≠ [])
    (h2 : l2 ≠ []) : brkD (run St.init l1) l2.head? = false := by
  cases hb : brkD (run St.init l1) l2.head? with
  | false => rfl
  | true =>
    exfalso
    have hm : l1.length ∈ split (l1 ++ l2) := by
      rw [split_eq_splitQ, splitQ_append, look_none]
      apply List.mem_append_left
      have := (top_mem_splitQ St.init 0 l2.head? l1 h1).2 hb
      simpa using this
    rw [h.2, List.mem_singleton, List.length_append] at hm
    have : 0 < l2.length := List.length_pos_iff.2 h2
    omega

/-- **GB3–GB5**: a single cluster containing LF is LF or CR LF -/
theorem selfContained_lf (c : List Cls) (h : SelfContained c) (hm : lf ∈ c) :
    c = [lf] ∨ c = [cr, lf] := by
  obtain ⟨pre, post, rfl⟩ := List.append_of_mem hm
  -- nothing follows LF
  have hpost : post = [] := by
    cases post with
    | nil => rfl
    | cons nx post' =>
      exfalso
      have e : pre ++ lf :: nx :: post' = (pre ++ [lf]) ++ (nx :: post') := by simp
      rw [e] at h
      have := sc_no_break h (by simp) (by simp)
      rw [show (nx :: post').head? = some nx from rfl] at this
      have h2 : brkDfa (run St.init (pre ++ [lf])) nx = true :=
        brkDfa_after_lf _ (run_concat_last _ _ _) nx
      rw [show brkD (run St.init (pre ++ [lf])) (some nx) = brkDfa (run St.init (pre ++ [lf])) nx
        from rfl, h2] at this
      cases this
  subst hpost
  rcases eq_nil_or_snoc pre with rfl | ⟨pre', x, rfl⟩
  · exact Or.inl rfl
  · right
    -- the element before LF is CR
    have hx : x = cr := by
      apply Classical.byContradiction
      intro hx
      have := sc_no_break (l1 := pre' ++ [x]) (l2 := [lf]) h (by simp) (by simp)
      have h2 : brkDfa (run St.init (pre' ++ [x])) lf = true :=
        brkDfa_lf_of_ne_cr _ x (run_concat_last _ _ _) hx
      rw [show brkD (run St.init (pre' ++ [x])) ([lf] : List Cls).head? =
        brkDfa (run St.init (pre' ++ [x])) lf from rfl, h2] at this
      cases this
    subst hx
    -- nothing precedes CR
    rcases eq_nil_or_snoc pre' with rfl | ⟨pre'', y, rfl⟩
    · rfl
    · exfalso
      have e : ((pre'' ++ [y]) ++ [cr]) ++ [lf] = (pre'' ++ [y]) ++ [cr, lf] := by simp
      rw [e] at h
      have := sc_no_break (l1 := pre'' ++ [y]) (l2 := [cr, lf]) h (by simp) (by simp)
      rw [show brkD (run St.init (pre'' ++ [y])) ([cr, lf] : List Cls).head? =
        brkDfa (run St.init (pre'' ++ [y])) cr from rfl, brkDfa_cr] at this
      cases this

/-- a lone CR is a cluster -/
theorem selfContained_cr : SelfContained [cr] := by decide

/-- **GB5**: there is a boundary before every CR -/
theorem breakJunction_cr {c : List Cls} (h : SelfContained c) : BreakJunction c [cr] := by
  have hb : brkD (run St.init c) (look [cr] none) = true := brkDfa_cr _
  unfold BreakJunction
  rw [split_eq_splitQ, splitQ_append, h.splitQ_eq 0 _ hb, Nat.zero_add]
  rfl

end dfa

/-! ## 2. code points -/

section runes
open Cls

theorem classOf_eq_lf (r : Int) : classOf r = lf ↔ r = 0x0A := by
  have h := classOf_table lf (by decide) r
  have e : isCb (goTable lf) r =
      (decide (0 ≤ r) && (decide (10 ≤ r.toNat) && decide (r.toNat ≤ 10))) := by
    simp [isCb, goTable, Gen.isCbLFRanges, inRanges]
  rw [e] at h
  constructor
  · intro hc
    rw [hc, show (lf == lf) = true from rfl] at h
    have h' := h.symm
    simp only [Bool.and_eq_true, decide_eq_true_eq] at h'
    omega
  · intro hr
    subst hr
    exact eq_of_beq (h.trans (by decide))

theorem classOf_eq_cr (r : Int) : classOf r = cr ↔ r = 0x0D := by
  have h := classOf_table cr (by decide) r
  have e : isCb (goTable cr) r =
      (decide (0 ≤ r) && (decide (13 ≤ r.toNat) && decide (r.toNat ≤ 13))) := by
    simp [isCb, goTable, Gen.isCbCRRanges, inRanges]
  rw [e] at h
  constructor
  · intro hc
    rw [hc, show (cr == cr) = true from rfl] at h
    have h' := h.symm
    simp only [Bool.and_eq_true, decide_eq_true_eq] at h'
    omega
  · intro hr
    subst hr
    exact eq_of_beq (h.trans (by decide))

end runes

theorem vocab_sc {V : List (List Int)} (hV : VocabStable V = true) {t : List Int} (ht : t ∈ V) :
    SelfContained (t.map classOf) := by
  unfold VocabStable at hV
  rw [Bool.and_eq_true, List.all_eq_true, List.all_eq_true] at hV
  exact of_decide_eq_true (hV.1 t ht)

theorem vocab_bj {V : List (List Int)} (hV : VocabStable V = true) {t u : List Int} (ht : t ∈ V)
    (hu : u ∈ V) : BreakJunction (t.map classOf) (u.map classOf) := by
  unfold VocabStable at hV
  rw [Bool.and_eq_true, List.all_eq_true, List.all_eq_true] at hV
  have := hV.2 t ht
  rw [List.all_eq_true] at this
  exact of_decide_eq_true (this u hu)

/-- in a stable vocabulary the only tokens containing U+000A are LF and CR LF -/
theorem vocab_nl {V : List (List Int)} (hV : VocabStable V = true) {t : List Int} (ht : t ∈ V)
    (hm : (0x0A : Int) ∈ t) : t = [0x0A] ∨ t = [0x0D, 0x0A] := by
  have hsc := vocab_sc hV ht
  have hm' : Cls.lf ∈ t.map classOf := List.mem_map.2 ⟨0x0A, hm, (classOf_eq_lf _).2 rfl⟩
  rcases selfContained_lf _ hsc hm' with h | h
  · left
    cases t with
    | nil => cases h
    | cons a t' =>
      cases t' with
      | nil =>
        simp only [List.map_cons, List.map_nil, List.cons.injEq, and_true] at h
        rw [(classOf_eq_lf a).1 h]
      | cons b t'' => simp at h
  · right
    cases t with
    | nil => cases h
    | cons a t' =>
      cases t' with
      | nil => simp at h
      | cons b t'' =>
        cases t'' with
        | nil =>
          simp only [List.map_cons, List.map_nil, List.cons.injEq, and_true] at h
          rw [(classOf_eq_cr a).1 h.1, (classOf_eq_lf b).1 h.2]
        | cons _ _ => simp at h

/-! ## 3. token lists with lone CRs -/

/-- every token is in the vocabulary, except that a lone CR may appear when it is immediately
followed by the space token -/
def Ok (V : List (List Int)) : List (List Int) → Prop
  | [] => True
  | [t] => t ∈ V
  | t :: u :: rest => (t ∈ V ∨ (t = [0x0D] ∧ u = [0x20])) ∧ Ok V (u :: rest)

theorem ok_head {V : List (List Int)} {t : List Int} {rest : List (List Int)}
    (h : Ok V (t :: rest)) : t ∈ V ∨ t = [0x0D] := by
  cases rest with
  | nil => exact Or.inl h
  | cons u rest => exact h.1.elim Or.inl (fun h => Or.inr h.1)

theorem ok_tail {V : List (List Int)} {t : List Int} {rest : List (List Int)}
    (h : Ok V (t :: rest)) : Ok V rest := by
  cases rest with
  | nil => trivial
  | cons u rest => exact h.2

theorem ok_mem {V : List (List Int)} : ∀ {L : List (List Int)}, Ok V L →
    ∀ t ∈ L, t ∈ V ∨ t = [0x0D]
  | [], _, t, ht => by cases ht
  | x :: rest, h, t, ht => by
    rcases List.mem_cons.1 ht with rfl | ht
    · exact ok_head h
    · exact ok_mem (ok_tail h) t ht

theorem ok_cons {V : List (List Int)} {v : List Int} (hv : v ∈ V) {L : List (List Int)}
    (h : Ok V L) : Ok V (v :: L) := by
  cases L with
  | nil => exact hv
  | cons u rest => exact ⟨Or.inl hv, h⟩

theorem ok_of_over {V : List (List Int)} : ∀ {L : List (List Int)}, (∀ t ∈ L, t ∈ V) → Ok V L
  | [], _ => trivial
  | t :: _, h =>
    ok_cons (h t List.mem_cons_self) (ok_of_over fun x hx => h x (List.mem_cons_of_mem _ hx))

/-- replacing any token by the space token keeps `Ok` -/
theorem ok_set_sp {V : List (List Int)} (hsp : [0x20] ∈ V) :
    ∀ (a : List (List Int)) (c : List Int) (b : List (List Int)),
      Ok V (a ++ c :: b) → Ok V (a ++ [0x20] :: b)
  | [], _, _, h => ok_cons hsp (ok_tail h)
  | [x], c, b, h => by
    have h' : (x ∈ V ∨ (x = [0x0D] ∧ c = [0x20])) ∧ Ok V (c :: b) := h
    refine ⟨?_, ok_set_sp hsp [] c b h'.2⟩
    rcases h'.1 with h1 | h1
    · exact Or.inl h1
    · exact Or.inr ⟨h1.1, rfl⟩
  | x :: y :: a, c, b, h => by
    have h' : (x ∈ V ∨ (x = [0x0D] ∧ y = [0x20])) ∧ Ok V (y :: (a ++ c :: b)) := h
    exact ⟨h'.1, ok_set_sp hsp (y :: a) c b h'.2⟩

theorem ok_spaceMap {V : List (List Int)} (hsp : [0x20] ∈ V) (a : List (List Int)) (c : List Int)
    (b : List (List Int)) (h : Ok V (a ++ c :: b)) :
    Ok V (a ++ WrapRefine.spaceMap cxB c :: b) := by
  unfold WrapRefine.spaceMap
  split
  · exact ok_set_sp hsp a c b h
  · exact h

theorem map_classOf_cr : ([0x0D] : List Int).map classOf = [Cls.cr] := by
  simp only [List.map_cons, List.map_nil, (classOf_eq_cr 0x0D).2 rfl]

theorem breakJunction_cr_sp :
    BreakJunction (([0x0D] : List Int).map classOf) (([0x20] : List Int).map classOf) := by
  decide +kernel

/-- an `Ok` list is a stable sequence of clusters -/
theorem stableRunes_of_ok {V : List (List Int)} (hV : VocabStable V = true) :
    ∀ (L : List (List Int)), Ok V L → StableRunes L := by
  have hsc : ∀ t, (t ∈ V ∨ t = [0x0D]) → SelfContained (t.map classOf) := by
    intro t ht
    rcases ht with ht | ht
    · exact vocab_sc hV ht
    · rw [ht, map_classOf_cr]; exact selfContained_cr
  intro L hL
  unfold StableRunes
  rw [stableSeq_iff_R]
  induction L with
  | nil => trivial
  | cons t rest ih =>
    have iht := ih (ok_tail hL)
    cases rest with
    | nil => exact hsc t (ok_head hL)
    | cons u rest' =>
      refine ⟨hsc t (ok_head hL), ?_, iht⟩
      show BreakJunction (t.map classOf) (u.map classOf)
      have hL' : (t ∈ V ∨ (t = [0x0D] ∧ u = [0x20])) ∧ Ok V (u :: rest') := hL
      by_cases hcr : t = [0x0D] ∧ u = [0x20]
      · rw [hcr.1, hcr.2]; exact breakJunction_cr_sp
      · have htV : t ∈ V := hL'.1.elim id (fun h => absurd h hcr)
        rcases ok_head hL'.2 with hu | hu
        · exact vocab_bj hV htV hu
        · rw [hu, map_classOf_cr]
          exact breakJunction_cr (vocab_sc hV htV)

/-! ## 4. the cluster loop of CollapseSpace, for any invariant that implies stability -/

theorem setSpacesLoop_A_gen (P : List (List Int) → Prop) (hP : ∀ L, P L → StableRunes L)
    (hstep : ∀ a c b, P (a ++ c :: b) → P (a ++ WrapRefine.spaceMap cxB c :: b)) :
    ∀ (fuel : Nat) (a b : List (List Int)), P (a ++ b) → b.length < fuel →
      setSpacesLoop cxA fuel (a ++ b).flatten a.length =
        .ok (a ++ b.map (WrapRefine.spaceMap cxB)).flatten := by
  intro fuel
  induction fuel with
  | zero => intro a b _ h; omega
  | succ fuel ih =>
    intro a b hab h
    have hst := hP _ hab
    cases b with
    | nil =>
      unfold setSpacesLoop
      rw [gLen_flatten_stable _ hst]
      simp only [List.append_nil, Nat.lt_irrefl, ↓reduceIte, List.map_nil]
      rfl
    | cons c b =>
      have e : gCharAt cxA (a ++ c :: b).flatten (a.length : Int) = .ok c := by
        rw [gCharAt_flatten_stable _ hst a.length (by simp)]
        simp
      unfold setSpacesLoop
      rw [gLen_flatten_stable _ hst, if_pos (by simp), e]
      simp only [bind, Except.bind]
      cases c with
      | nil => exact absurd rfl (hst.ne_nil [] (by simp))
      | cons r c' =>
        simp only
        have hab' : P ((a ++ [WrapRefine.spaceMap cxB (r :: c')]) ++ b) := by
          have := hstep a (r :: c') b hab
          simpa only [List.append_assoc, List.cons_append, List.nil_append] using this
        have key := ih (a ++ [WrapRefine.spaceMap cxB (r :: c')]) b hab' (by simpa using h)
        simp only [List.length_append, List.length_cons, List.length_nil, List.append_assoc,
          List.cons_append, List.nil_append] at key
        cases hr : cxA.isSpace r with
        | true =>
          have hB : cxB.isSpace (r :: c') = true := hr
          rw [if_pos rfl]
          have hs := gSetCharAt_flatten_stable _ hst a.length [cxA.sp] (by simp) (by simp)
          rw [hs]
          simp only [WrapRefine.spaceMap, hB, ↓reduceIte] at key
          simp only [List.set_append_right _ _ (Nat.le_refl _), Nat.sub_self, List.set_cons_zero,
            List.map_cons, WrapRefine.spaceMap, hB, ↓reduceIte]
          exact key
        | false =>
          have hB : cxB.isSpace (r :: c') = false := hr
          rw [if_neg (by simp)]
          simp only [WrapRefine.spaceMap, hB, Bool.false_eq_true, ↓reduceIte] at key
          simp only [pure, Except.pure, List.map_cons, WrapRefine.spaceMap, hB, Bool.false_eq_true,
            ↓reduceIte]
          exact key

/-! ## 5. `Spec.collapse` and whitespace-for-whitespace substitutions -/

section collapse
variable {α : Type} (tk : Spec.Toks α)
open Spec

/-- "the list starts with a whitespace token" -/
def headWs : List α → Bool
  | [] => false
  | d :: _ => tk.ws d

/-- a whitespace token in front: only whether the rest starts with whitespace, and the collapse
of the rest, matter -/
theorem collapse_ws_cons (c : α) (X : List α) (hc : tk.ws c = true) :
    collapse tk (c :: X) = if headWs tk X then collapse tk X else tk.sp :: collapse tk X := by
  cases X with
  | nil => simp only [headWs, Bool.false_eq_true, ↓reduceIte, collapse, hc]
  | cons d X' =>
    cases hd : tk.ws d with
    | true => simp only [headWs, hd, ↓reduceIte, collapse_ws_ws tk c d X' hc hd]
    | false =>
      simp only [headWs, hd, Bool.false_eq_true, ↓reduceIte, collapse_ws_nonws tk c d X' hc hd,
        collapse_cons_nonws tk d X' hd]

theorem collapse_ws_append (c : α) (hc : tk.ws c = true) : ∀ (u : List α), u ≠ [] →
    (∀ x ∈ u, tk.ws x = true) → ∀ X, collapse tk (u ++ X) = collapse tk (c :: X)
  | [], h, _, _ => absurd rfl h
  | [a], _, hu, X => by
    rw [List.singleton_append, collapse_ws_cons tk a X (hu a List.mem_cons_self),
      collapse_ws_cons tk c X hc]
  | a :: b :: u, _, hu, X => by
    have ha := hu a List.mem_cons_self
    have hb := hu b (List.mem_cons_of_mem _ List.mem_cons_self)
    rw [List.cons_append, List.cons_append, collapse_ws_ws tk a b _ ha hb, ← List.cons_append,
      collapse_ws_append c hc (b :: u) (by simp)
        (fun x hx => hu x (List.mem_cons_of_mem _ hx)) X]

/-- replacing every whitespace token by a non-empty list of whitespace tokens (and leaving the
other tokens alone) is invisible to `collapse` -/
theorem collapse_flatMap_ws (h : α → List α)
    (hws : ∀ t, tk.ws t = true → h t ≠ [] ∧ ∀ x ∈ h t, tk.ws x = true)
    (hid : ∀ t, tk.ws t = false → h t = [t]) : ∀ l : List α,
    collapse tk (l.flatMap h) = collapse tk l ∧ headWs tk (l.flatMap h) = headWs tk l
  | [] => ⟨rfl, rfl⟩
  | t :: l => by
    obtain ⟨ih1, ih2⟩ := collapse_flatMap_ws h hws hid l
    rw [List.flatMap_cons]
    cases ht : tk.ws t with
    | true =>
      obtain ⟨hne, hall⟩ := hws t ht
      constructor
      · rw [collapse_ws_append tk t ht (h t) hne hall, collapse_ws_cons tk t _ ht,
          collapse_ws_cons tk t l ht, ih1, ih2]
      · cases hh : h t with
        | nil => exact absurd hh hne
        | cons x u =>
          have : tk.ws x = true := hall x (by rw [hh]; exact List.mem_cons_self)
          simp only [List.cons_append, headWs, this, ht]
    | false =>
      rw [hid t ht]
      constructor
      · rw [List.singleton_append, collapse_cons_nonws tk t _ ht, collapse_cons_nonws tk t l ht,
          ih1]
      · rfl

end collapse

/-! ## 6. the newline pre-pass of JustifyLine on code points, in terms of tokens -/

/-- what `strings.ReplaceAll(text, "\n", " ")` on CODE POINTS does to a cluster: CR LF falls
apart into a lone CR and a space, LF becomes a space, everything else is untouched -/
def nlSplit (t : List Int) : List (List Int) :=
  if t = [0x0D, 0x0A] then [[0x0D], [0x20]] else [if t = cxB.nl then cxB.sp else t]

theorem nlSplit_flatten (t : List Int)
    (h : (0x0A : Int) ∈ t → t = [0x0A] ∨ t = [0x0D, 0x0A]) :
    t.map (fun x => if x = cxA.nl then cxA.sp else x) = (nlSplit t).flatten := by
  unfold nlSplit
  by_cases h1 : t = [0x0D, 0x0A]
  · rw [if_pos h1, h1]; rfl
  · rw [if_neg h1]
    by_cases h2 : t = cxB.nl
    · rw [if_pos h2, h2]; rfl
    · rw [if_neg h2]
      have hm : (0x0A : Int) ∉ t := fun hm => (h hm).elim h2 h1
      simp only [List.flatten_cons, List.flatten_nil, List.append_nil]
      conv => rhs; rw [← List.map_id t]
      apply List.map_congr_left
      intro x hx
      have : x ≠ cxA.nl := by
        intro e'; rw [e'] at hx; exact hm hx
      simp only [if_neg this, id]

theorem replaceAll_nl_general : ∀ (toks : List (List Int)),
    (∀ t ∈ toks, (0x0A : Int) ∈ t → t = [0x0A] ∨ t = [0x0D, 0x0A]) →
    replaceAll toks.flatten [cxA.nl] [cxA.sp] = (toks.flatMap nlSplit).flatten := by
  intro toks h
  rw [replaceAll_single]
  induction toks with
  | nil => rfl
  | cons t rest ih =>
    rw [List.flatten_cons, List.map_append, List.flatMap_cons, List.flatten_append,
      ih (fun x hx => h x (List.mem_cons_of_mem _ hx)), nlSplit_flatten t (h t List.mem_cons_self)]

theorem ok_flatMap_nlSplit {V : List (List Int)} (hsp : [0x20] ∈ V) :
    ∀ (toks : List (List Int)), (∀ t ∈ toks, t ∈ V) → Ok V (toks.flatMap nlSplit)
  | [], _ => trivial
  | t :: rest, h => by
    have ih := ok_flatMap_nlSplit hsp rest (fun x hx => h x (List.mem_cons_of_mem _ hx))
    rw [List.flatMap_cons]
    unfold nlSplit
    split
    · exact ⟨Or.inr ⟨rfl, rfl⟩, ok_cons hsp ih⟩
    · refine ok_cons ?_ ih
      split
      · exact hsp
      · exact h t List.mem_cons_self

theorem collapse_flatMap_nlSplit (toks : List (List Int)) :
    Spec.collapse ⟨cxB.isSpace, cxB.sp, cxB.hy⟩ (toks.flatMap nlSplit) =
      Spec.collapse ⟨cxB.isSpace, cxB.sp, cxB.hy⟩ toks := by
  refine (collapse_flatMap_ws ⟨cxB.isSpace, cxB.sp, cxB.hy⟩ nlSplit ?_ ?_ toks).1
  · intro t ht
    unfold nlSplit
    split
    · exact ⟨by simp, by decide⟩
    · refine ⟨by simp, ?_⟩
      intro x hx
      rw [List.mem_singleton] at hx
      subst hx
      split
      · exact cxB_sp_space
      · exact ht
  · intro t ht
    have h1 : t ≠ [0x0D, 0x0A] := by
      intro e; rw [e] at ht; revert ht; decide
    have h2 : t ≠ cxB.nl := by
      intro e; rw [e] at ht; revert ht; decide
    unfold nlSplit
    rw [if_neg h1, if_neg h2]

/-- CollapseSpace on the code-point text after the newline pre-pass -/
theorem collapseSpace_nlSplit {V : List (List Int)} (hV : VocabStable V = true)
    (hsp : [0x20] ∈ V) (hspTail : ∀ t ∈ V, (0x20 : Int) ∉ t.tail)
    (toks : List (List Int)) (ht : ∀ t ∈ toks, t ∈ V) :
    collapseSpace cxA (toks.flatMap nlSplit).flatten [] =
      .ok (Spec.collapse ⟨cxB.isSpace, cxB.sp, cxB.hy⟩ toks).flatten := by
  have hok2 := ok_flatMap_nlSplit hsp toks ht
  have hc := collapse_flatMap_nlSplit toks
  generalize toks.flatMap nlSplit = toks2 at hok2 hc ⊢
  have hne : ∀ t ∈ toks2, t ≠ [] := (stableRunes_of_ok hV toks2 hok2).ne_nil
  have hlen := length_le_flatten toks2 hne
  have hok : ∀ t ∈ toks2.map (WrapRefine.spaceMap cxB), t ≠ [] ∧ SpOK t := by
    intro t h
    obtain ⟨u, hu, rfl⟩ := List.mem_map.1 h
    rcases ok_mem hok2 u hu with hu | hu
    · exact spaceMap_SpOK hV hspTail hu
    · rw [hu]
      exact ⟨by decide, Or.inl rfl⟩
  have := setSpacesLoop_A_gen (Ok V) (stableRunes_of_ok hV) (ok_spaceMap hsp)
    (toks2.flatten.length + 1) [] toks2 (by simpa using hok2) (by omega)
  simp only [List.nil_append, List.length_nil] at this
  unfold collapseSpace
  simp only [List.isEmpty_nil, ↓reduceIte, this, bind, Except.bind, pure, Except.pure]
  rw [collapseRuns_bridge _ hok, WrapRefine.collapseRuns_map cxB cxB_sp_space toks2]
  show Except.ok (Spec.collapse ⟨cxB.isSpace, cxB.sp, cxB.hy⟩ toks2).flatten = _
  rw [hc]

end BridgeAlignCRLF
open BridgeWrap BridgeAlign BridgeAlignCRLF

/-- **GB3–GB5 on code points**: in a stable vocabulary the only clusters containing U+000A are LF
and CR LF -/
theorem vocabStable_nl {V : List (List Int)} (hV : VocabStable V = true) :
    ∀ t ∈ V, (0x0A : Int) ∈ t → t = [0x0A] ∨ t = [0x0D, 0x0A] :=
  fun _ ht hm => vocab_nl hV ht hm

/-- **4, general form.** The JustifyLine bridge for EVERY stable vocabulary containing the space
token and satisfying `hspTail`: no hypothesis about U+000A (CR LF tokens are allowed). -/
theorem justifyLine_bridge_general {V : List (List Int)} (hV : VocabStable V = true)
    (hsp : [0x20] ∈ V) (hspTail : ∀ t ∈ V, (0x20 : Int) ∉ t.tail)
    (toks : List (List Int)) (ht : ∀ t ∈ toks, t ∈ V) (w : Int) :
    ∃ r, justifyLine cxB toks w = .ok r ∧ justifyLine cxA toks.flatten w = .ok r.flatten ∧
      ∀ t ∈ r, t ∈ V := by
  refine justifyLine_bridge_of_collapse hV hsp hspTail toks ht w ?_
  have e : Spec.collapse ⟨cxB.isSpace, cxB.sp, cxB.hy⟩ (replaceAll toks [cxB.nl] [cxB.sp]) =
      Spec.collapse ⟨cxB.isSpace, cxB.sp, cxB.hy⟩ toks :=
    collapse_replaceAll'_nl cxB cxB_sp_space (by decide) toks
  rw [e, replaceAll_nl_general toks (fun t h hm => vocab_nl hV (ht t h) hm)]
  exact collapseSpace_nlSplit hV hsp hspTail toks ht

/-- 4, general form, as an equation between `Except` values -/
theorem justifyLine_bridge_general_map {V : List (List Int)} (hV : VocabStable V = true)
    (hsp : [0x20] ∈ V) (hspTail : ∀ t ∈ V, (0x20 : Int) ∉ t.tail)
    (toks : List (List Int)) (ht : ∀ t ∈ toks, t ∈ V) (w : Int) :
    justifyLine cxA toks.flatten w = (justifyLine cxB toks w).map List.flatten := by
  obtain ⟨r, h1, h2, _⟩ := justifyLine_bridge_general hV hsp hspTail toks ht w
  rw [h1, h2]; rfl

/-- **5, general form.** -/
theorem justifyLine_bridge_general_post {V : List (List Int)} (hV : VocabStable V = true)
    (hsp : [0x20] ∈ V) (hspTail : ∀ t ∈ V, (0x20 : Int) ∉ t.tail)
    (toks : List (List Int)) (ht : ∀ t ∈ toks, t ∈ V) (w : Int) :
    ∃ out, justifyLine cxA toks.flatten w = .ok out ∧
      JustifyPost cxB (Spec.collapse ⟨cxB.isSpace, cxB.sp, cxB.hy⟩ toks) w (clusters cxA out) := by
  obtain ⟨r, h1, h2, h3⟩ := justifyLine_bridge_general hV hsp hspTail toks ht w
  obtain ⟨r', h1', hpost⟩ := justifyLine_triv_nl cxB cxB_triv cxB_sp_space (by decide) toks w _ rfl
  rw [h1] at h1'
  cases h1'
  refine ⟨r.flatten, h2, ?_⟩
  rw [clusters_flatten_stable r (stableRunes_of_vocab V hV r h3)]
  exact hpost

namespace BridgeAlignCRLF

/-- a vocabulary with BOTH newline clusters -/
def demoVocab4 : List (List Int) :=
  [[0x61], [0x62], [0x20], [0x2D], [0x65, 0x301], [0x1F1E9, 0x1F1EA], [0x9], [0x0A], [0x0D, 0x0A]]

theorem demoVocab4_stable : VocabStable demoVocab4 = true := by decide +kernel

theorem demoVocab4_spTail : ∀ t ∈ demoVocab4, (0x20 : Int) ∉ t.tail :=
  spTail_of_spOnly (by decide)

/-- "a<CR><LF>é <LF><CR><LF>b" -/
example (w : Int) :
    ∃ r, justifyLine cxB [[0x61], [0x0D, 0x0A], [0x65, 0x301], [0x20], [0x0A], [0x0D, 0x0A],
        [0x62]] w = .ok r ∧
      justifyLine cxA ([[0x61], [0x0D, 0x0A], [0x65, 0x301], [0x20], [0x0A], [0x0D, 0x0A],
        [0x62]] : List (List Int)).flatten w = .ok r.flatten ∧
      ∀ t ∈ r, t ∈ demoVocab4 :=
  justifyLine_bridge_general demoVocab4_stable (by decide) demoVocab4_spTail _ (by decide) w

/-- `hspTail` is still needed for JustifyLine (it starts with CollapseSpace): the stable vocabulary
of `BridgeWrap.spTail_needed` separates the two levels -/
theorem spTail_needed_justify :
    VocabStable [[0x61], [0x20], [0x600, 0x20]] = true ∧
    justifyLine cxA ([[0x600, 0x20], [0x20], [0x61]] : List (List Int)).flatten 0 =
      .ok [0x600, 0x20, 0x61] ∧
    justifyLine cxB [[0x600, 0x20], [0x20], [0x61]] 0 = .ok [[0x600, 0x20], [0x20], [0x61]] :=
  ⟨by decide +kernel, of_okEq (by decide +kernel), of_okEq (by decide +kernel)⟩

/-- CR LF is NOT a counterexample to the bridge (checked by evaluation): the pre-pass gives
"a<CR> b" on code points and "a b" on tokens, and both collapse to "a b" -/
theorem crlf_harmless :
    justifyLine cxA ([[0x61], [0x0D, 0x0A], [0x62], [0x20], [0x61]] : List (List Int)).flatten 8 =
      .ok [0x61, 0x20, 0x20, 0x20, 0x62, 0x20, 0x20, 0x61] ∧
    justifyLine cxB [[0x61], [0x0D, 0x0A], [0x62], [0x20], [0x61]] 8 =
      .ok [[0x61], [0x20], [0x20], [0x20], [0x62], [0x20], [0x20], [0x61]] :=
  ⟨of_okEq (by decide +kernel), of_okEq (by decide +kernel)⟩

end BridgeAlignCRLF
end RosedVerif
