/-
Model of internal/tb (Block) and internal/manip (CollapseSpace, Wrap,
JustifyLine, AlignLine*, CombineColumnBlocks), transliterated from the Go source.
-/
import RosedVerif.Model.Basic
namespace RosedVerif

structure Block (α : Type) where
  lines : List (List α)
  sep : List α
  trailing : Bool
  deriving Repr

section
variable {α : Type} [DecidableEq α] (cx : Ctx α)

/-- tb.New -/
def Block.new (text sep : List α) : Block α :=
  if text.isEmpty then ⟨[], sep, false⟩
  else
    let ls := splitOn text sep
    if ls.length > 1 ∧ ls.getLast? == some [] then ⟨ls.dropLast, sep, true⟩
    else ⟨ls, sep, false⟩

/-- tb.Block.Join -/
def Block.join (b : Block α) : List α :=
  if b.lines.isEmpty then (if b.trailing then b.sep else [])
  else joinWith b.sep b.lines ++ (if b.trailing then b.sep else [])

/-- tb.Block.Line (panics when out of range) -/
def Block.line (b : Block α) (pos : Int) : R (List α) :=
  if pos < 0 ∨ pos ≥ b.lines.length then throw .index else pure (b.lines.getD pos.toNat [])

/-- tb.Block.Set -/
def Block.set (b : Block α) (pos : Int) (content : List α) : R (Block α) :=
  if pos < 0 ∨ pos ≥ b.lines.length then throw .index
  else pure { b with lines := b.lines.set pos.toNat content }

def Block.append (b : Block α) (content : List α) : Block α := { b with lines := b.lines ++ [content] }

/-- regexp " +" → " " -/
def collapseRuns : List α → List α
  | [] => []
  | [c] => [c]
  | c :: d :: t => if c = cx.sp ∧ d = cx.sp then collapseRuns (d :: t) else c :: collapseRuns (d :: t)

/-- the cluster loop of CollapseSpace: `for i := 0; i < text.Len(); i++` with `text` reassigned inside -/
def setSpacesLoop : Nat → List α → Nat → R (List α)
  | 0, _, _ => throw .fuel
  | fuel + 1, text, i =>
    if i < gLen cx text then do
      let ch ← gCharAt cx text i
      match ch with
      | [] => throw .index
      | c :: _ =>
        let text' ← if cx.isSpace c then gSetCharAt cx text i [cx.sp] else pure text
        setSpacesLoop fuel text' (i + 1)
    else pure text

/-- manip.CollapseSpace -/
def collapseSpace (text lineSep : List α) : R (List α) := do
  let text := if lineSep.isEmpty then text else replaceAll text lineSep [cx.sp]
  let text ← setSpacesLoop cx (text.length + 1) text 0
  pure (collapseRuns cx text)

/-- manip.appendWordToWrappedLine; returns (lines, curLine) -/
def appendWord (width : Int) : Nat → List (List α) → List α → List α → R (List (List α) × List α)
  | 0, _, _, _ => throw .fuel
  | fuel + 1, lines, curWord, curLine =>
    if width < 2 then throw .explicit
    else if gLen cx curWord > 0 then
      let lineLen : Int := gLen cx curLine
      let added : Int := (gLen cx curWord : Int) + (if lineLen != 0 then 1 else 0)
      if lineLen + added == width then
        let curLine := (if lineLen != 0 then curLine ++ [cx.sp] else curLine) ++ curWord
        appendWord width fuel (lines ++ [curLine]) [] []
      else if lineLen + added > width then
        if lineLen == 0 then
          let curLine := curLine ++ gSub cx curWord 0 (width - 1) ++ [cx.hy]
          let curWord := gSub cx curWord (width - 1) (gLen cx curWord)
          appendWord width fuel (lines ++ [curLine]) curWord []
        else
          appendWord width fuel (lines ++ [curLine]) curWord []
      else
        let curLine := (if lineLen != 0 then curLine ++ [cx.sp] else curLine) ++ curWord
        appendWord width fuel lines [] curLine
    else pure (lines, curLine)

/-- the character loop of manip.Wrap over the clusters of the collapsed text -/
def wrapLoop (width : Int) : List (List α) → List (List α) → List α → List α → R (List (List α) × List α × List α)
  | [], lines, curWord, curLine => pure (lines, curWord, curLine)
  | ch :: rest, lines, curWord, curLine =>
    match ch with
    | [] => throw .index
    | c :: _ =>
      if c = cx.sp then do
        let (lines, curLine) ← appendWord cx width (2 * curWord.length + 2) lines curWord curLine
        wrapLoop width rest lines [] curLine
      else wrapLoop width rest lines (curWord ++ ch) curLine

/-- manip.Wrap: the lines of the resulting block (its separator is `lineSep`, no trailing mode) -/
def wrapLines (text : List α) (width : Int) (lineSep : List α) : R (List (List α)) := do
  let width := if width < 2 then 2 else width
  let text ← collapseSpace cx text lineSep
  if text.isEmpty then pure [[]]
  else
    let (lines, curWord, curLine) ← wrapLoop cx width (clusters cx text) [] [] []
    let (lines, curLine) ←
      if !curWord.isEmpty then appendWord cx width (2 * curWord.length + 2) lines curWord curLine
      else pure (lines, curLine)
    pure (if !curLine.isEmpty then lines ++ [curLine] else lines)

/-- the space-distribution loop of JustifyLine: `extra[g]` = spaces added to gap `g` -/
def distribute (numGaps : Int) (odd : Int) : Nat → Int → Bool → List Nat → R (List Nat)
  | 0, _, _, extra => pure extra
  | n + 1, spaceIdx, fromRight, extra =>
    let g : Int := if fromRight then (numGaps - odd) - spaceIdx else spaceIdx
    if g < 0 ∨ g ≥ numGaps then throw .index
    else
      let extra := extra.modify g.toNat (· + 1)
      let spaceIdx := if spaceIdx + 1 ≥ numGaps then 0 else spaceIdx + 1
      distribute numGaps odd n spaceIdx (!fromRight) extra

/-- words interleaved with gaps of `1 + extra[g]` spaces -/
def interleave : List (List α) → List Nat → List α
  | [], _ => []
  | [w], _ => w
  | w :: ws, e :: es => w ++ List.replicate (1 + e) cx.sp ++ interleave ws es
  | w :: ws, [] => w ++ [cx.sp] ++ interleave ws []

/-- manip.JustifyLine -/
def justifyLine (text : List α) (width : Int) : R (List α) := do
  let text ← collapseSpace cx text [cx.nl]
  if (gLen cx text : Int) ≥ width then pure text
  else
    let words := splitOn text [cx.sp]
    let numGaps : Int := (words.length : Int) - 1
    if numGaps < 1 then pure text
    else
      let spacesToAdd : Int := width - gLen cx text
      let odd : Int := if numGaps % 2 == 0 then 0 else 1
      let extra ← distribute numGaps odd spacesToAdd.toNat 0 false (List.replicate numGaps.toNat 0)
      pure (interleave cx words extra)

/-- manip.AlignLineLeft below its clamp of the width -/
def alignLeftCore (text : List α) (width : Int) : List α :=
  let startSpaces := countLeadingWs cx text
  let endingText := if startSpaces > 0 then gSub cx text startSpaces (gLen cx text) else text
  let extra : Int := width - gLen cx endingText
  endingText ++ gRepeat [cx.sp] (if extra > 0 then extra else 0)

/-- manip.AlignLineLeft (D20: a negative width is clamped to 0 before `width - len`) -/
def alignLeft (text : List α) (width : Int) : List α :=
  alignLeftCore cx text (if width < 0 then 0 else width)

/-- manip.AlignLineRight below its clamp of the width -/
def alignRightCore (text : List α) (width : Int) : List α :=
  let endSpaces := countTrailingWs cx text
  let startingText := if endSpaces > 0 then gSub cx text 0 (-endSpaces) else text
  let extra : Int := width - gLen cx startingText
  gRepeat [cx.sp] (if extra > 0 then extra else 0) ++ startingText

/-- manip.AlignLineRight (D20: a negative width is clamped to 0 before `width - len`) -/
def alignRight (text : List α) (width : Int) : List α :=
  alignRightCore cx text (if width < 0 then 0 else width)

/-- manip.AlignLineCenter below its clamp of the width -/
def alignCenterCore (text : List α) (width : Int) : List α :=
  let startSpaces := countLeadingWs cx text
  let endSpaces := countTrailingWs cx text
  let midText := if endSpaces > 0 then gSub cx text startSpaces (-endSpaces)
                 else gSub cx text startSpaces (gLen cx text)
  let spaceNeeded : Int := width - gLen cx midText
  if spaceNeeded ≤ 0 then midText
  else
    let right := spaceNeeded / 2     -- Go `/` truncates; operands are positive here
    let left := spaceNeeded - right
    gRepeat [cx.sp] left ++ midText ++ gRepeat [cx.sp] right

/-- manip.AlignLineCenter (D20: a negative width is clamped to 0 before `width - len`) -/
def alignCenter (text : List α) (width : Int) : List α :=
  alignCenterCore cx text (if width < 0 then 0 else width)

theorem clamp_sub_pos_false {w : Int} (h : w ≤ 0) (n : Nat) : (w - (n : Int) > 0) = False :=
  eq_false (by omega)
theorem clamp_sub_le_true {w : Int} (h : w ≤ 0) (n : Nat) : (w - (n : Int) ≤ 0) = True :=
  eq_true (by omega)

omit [DecidableEq α] in
/-- the core sees the width only through `width - len > 0` with `len ≥ 0` -/
theorem alignLeftCore_clamp (text : List α) (w : Int) :
    alignLeftCore cx text (if w < 0 then 0 else w) = alignLeftCore cx text w := by
  by_cases h : w < 0
  · simp only [h, if_true]
    unfold alignLeftCore
    simp only [clamp_sub_pos_false (Int.le_refl 0), clamp_sub_pos_false (Int.le_of_lt h), if_false]
  · simp only [h, if_false]

omit [DecidableEq α] in
theorem alignRightCore_clamp (text : List α) (w : Int) :
    alignRightCore cx text (if w < 0 then 0 else w) = alignRightCore cx text w := by
  by_cases h : w < 0
  · simp only [h, if_true]
    unfold alignRightCore
    simp only [clamp_sub_pos_false (Int.le_refl 0), clamp_sub_pos_false (Int.le_of_lt h), if_false]
  · simp only [h, if_false]

omit [DecidableEq α] in
theorem alignCenterCore_clamp (text : List α) (w : Int) :
    alignCenterCore cx text (if w < 0 then 0 else w) = alignCenterCore cx text w := by
  by_cases h : w < 0
  · simp only [h, if_true]
    unfold alignCenterCore
    simp only [clamp_sub_le_true (Int.le_refl 0), clamp_sub_le_true (Int.le_of_lt h), if_true]
  · simp only [h, if_false]

omit [DecidableEq α] in
/-- the public functions are their cores (as functions, so that partial applications rewrite too) -/
theorem alignLeft_eq_core : alignLeft cx = alignLeftCore cx := by
  funext t w; exact alignLeftCore_clamp cx t w
omit [DecidableEq α] in
theorem alignRight_eq_core : alignRight cx = alignRightCore cx := by
  funext t w; exact alignRightCore_clamp cx t w
omit [DecidableEq α] in
theorem alignCenter_eq_core : alignCenter cx = alignCenterCore cx := by
  funext t w; exact alignCenterCore_clamp cx t w

/-- manip.CombineColumnBlocks: the lines of the combined block -/
def combineColumns (left right : List (List α)) (minSpaceBetween : Int) : R (List (List α)) :=
  if left.isEmpty ∧ right.isEmpty then pure []
  else do
    let numLines := max left.length right.length
    let leftMax : Int := left.foldl (fun m l => if (gLen cx l : Int) > m then gLen cx l else m) 0
    let total : Int := leftMax + minSpaceBetween
    (List.range numLines).mapM fun i => do
      let l := left.getD i []
      let lc : Int := if i < left.length then gLen cx l else 0
      let r := right.getD i []
      let spacer ← repeatStr [cx.sp] (total - lc)
      pure (l ++ spacer ++ r)

end
end RosedVerif
