/-
Paragraph mode (`PreserveParagraphs`) closed forms (task P29): for a paragraph separator WITHOUT
visible affixes, Wrap / Justify / Align / Indent in paragraph mode are the paragraph-separator
join of the per-paragraph results.

Notation: `od = o.withDefaults cx`, `sep = od.lineSep`, `psep = od.paraSep`,
`paragraphsOf ed.text od` (ParaLemmas.lean) = the paragraphs handed to the callback.

  0. `AffixFree od` (decidable): `od.prevSuffix = [] ∧ od.nextPrefix = []`;
     `paraCallsOf_affixFree` (every call gets `pre = suf = []`), `affixFree_iff_calls` (converse for
     a text with two paragraphs); sufficient: `affixFree_of_double` (`psep = sep ++ sep`),
     `affixFree_of_replicate`, `affixFree_of_prefix_suffix` (unbordered `sep`); necessary:
     `AffixFree.prefix_suffix`; `not_affixFree_bordered` ("aaa" / "aa").
     Skeleton: `applyParasM_affixFree`, `applyParasM_affixFree_ok`, `applyParasM_withDefaults`.
  1. `wrapOpts_para`, `wrapOpts_para_sane` (`wrapPara`, `wrapPara_eq`, `wrapPara_eq_sane`): the
     per-paragraph result is `joinWith sep lines ++ (if sep.isSuffixOf p then sep else [])` — a
     paragraph that ends with the line separator keeps it, as outside of paragraph mode
  2. `justifyOpts_para` (`justifyParaM`), `justifyOpts_para_sane` (`justifyParaWith`,
     `justifyLines`, `justifyParaWith_eq`)
  3. `alignOpts_para` (`alignParaWith`, `alignParaWith_eq`), `alignOpts_para_left|right|center`
  4. `indentOpts_para` (`indentPara`) — needs neither `AffixFree` nor `Sane`
  5. `ParagraphWise`, `wrapOpts_paragraphWise`, `justifyOpts_paragraphWise`,
     `alignOpts_paragraphWise`, `indentOpts_paragraphWise`
  Links to the non-paragraph operations on the single paragraph: `alignOpts_single`,
  `justifyOpts_single` (unbordered `sep`), `indentOpts_single`, `wrapOpts_single`
  (`wrapOpts_single_of_ok`, `wrapOpts_single'`; every `sep`); `wrapPara_single_example`.
  `wrap_needs_affixFree`: `AffixFree` cannot be dropped.
Wrap / Justify / Align need `cx.Sane` (for `Len("") = 0` and `Sub(0, Len) = id`).
-/
import RosedVerif.Model.OpsStructure
namespace RosedVerif
namespace ParaStructure
open OpsStructure
variable {α : Type} [DecidableEq α]

/-! ## Step 0: the affixes and `AffixFree` -/

/-- both affixes that `applyParasM` hands to its callback are empty: the part of `paraSep` before
its first `lineSep` (`prevSuffix`, the suffix argument of every call but the last) and the part
after its last `lineSep` (`nextPrefix`, the prefix argument of every call but the first) -/
def AffixFree (od : Options α) : Prop := od.prevSuffix = [] ∧ od.nextPrefix = []

instance (od : Options α) : Decidable (AffixFree od) :=
  inferInstanceAs (Decidable (_ ∧ _))

/-- with empty `prevSuffix`/`nextPrefix` every call of `paraLoop` gets empty affixes -/
theorem paraCalls_nil_affixes (lineSep : List α) (ambig : Bool) (idx : Nat) (cur : List α)
    (rest : List (List α)) :
    ∀ c ∈ paraCalls lineSep [] [] ambig idx cur rest, c.2.2.1 = [] ∧ c.2.2.2 = [] := by
  induction rest generalizing idx cur with
  | nil =>
    intro c hc
    simp only [paraCalls, List.mem_singleton] at hc
    subst hc
    exact ⟨by simp only [ite_self], rfl⟩
  | cons nxt rest ih =>
    intro c hc
    simp only [paraCalls, List.mem_cons] at hc
    rcases hc with rfl | hc
    · exact ⟨by simp only [ite_self], rfl⟩
    · exact ih _ _ c hc

/-- **Step 0, characterisation used below**: under `AffixFree od` every call of the paragraph
callback gets `pre = []` and `suf = []` -/
theorem paraCallsOf_affixFree (text : List α) (od : Options α) (haf : AffixFree od) :
    ∀ c ∈ paraCallsOf text od, c.2.2.1 = [] ∧ c.2.2.2 = [] := by
  unfold paraCallsOf
  split
  · intro c hc; simp at hc
  · rw [haf.1, haf.2]
    exact paraCalls_nil_affixes _ _ _ _ _

/-- … and conversely, as soon as the text has two paragraphs: the first call gets the suffix
`prevSuffix`, the second one the prefix `nextPrefix` -/
theorem affixFree_iff_calls (text : List α) (od : Options α)
    (h2 : 2 ≤ (splitOn text od.paraSep).length) :
    AffixFree od ↔ ∀ c ∈ paraCallsOf text od, c.2.2.1 = [] ∧ c.2.2.2 = [] := by
  refine ⟨paraCallsOf_affixFree text od, fun h => ?_⟩
  unfold paraCallsOf at h
  cases hsp : splitOn text od.paraSep with
  | nil => rw [hsp] at h2; simp at h2
  | cons p ps =>
    cases ps with
    | nil => rw [hsp] at h2; simp at h2
    | cons q rest =>
      rw [hsp] at h
      dsimp only at h
      constructor
      · have := (h _ (by rw [paraCalls]; exact List.mem_cons_self)).2
        exact this
      · rw [paraCalls] at h
        cases rest with
        | nil =>
          have := (h _ (by rw [paraCalls]; exact List.mem_cons_of_mem _ List.mem_cons_self)).1
          simpa using this
        | cons r rest =>
          have := (h _ (by rw [paraCalls]; exact List.mem_cons_of_mem _ List.mem_cons_self)).1
          simpa using this

/-! ### sufficient / necessary conditions on the separators -/

theorem sepFree_nil (sep : List α) (hsep : sep ≠ []) : SepFree sep [] := by
  unfold SepFree
  rw [List.nil_append]
  have := indexOf_sep_append sep [] hsep
  rw [List.append_nil] at this
  exact this

theorem splitOn_sep_append (sep X : List α) (hsep : sep ≠ []) :
    splitOn (sep ++ X) sep = [] :: splitOn X sep := by
  have := (sepFree_nil sep hsep).splitOn_append hsep X
  rw [List.nil_append] at this
  exact this

/-- `strings.Split` of `n` copies of the separator: `n + 1` empty pieces -/
theorem splitOn_replicate (sep : List α) (hsep : sep ≠ []) (n : Nat) :
    splitOn (List.replicate n sep).flatten sep = List.replicate (n + 1) [] := by
  induction n with
  | zero => exact splitOn_nil sep hsep
  | succ n ih =>
    rw [List.replicate_succ, List.flatten_cons, splitOn_sep_append sep _ hsep, ih]
    rfl

/-- a paragraph separator that is a repetition of the line separator has no visible affixes -/
theorem affixFree_of_replicate (od : Options α) (hsep : od.lineSep ≠ []) (n : Nat)
    (h : od.paraSep = (List.replicate n od.lineSep).flatten) : AffixFree od := by
  unfold AffixFree Options.prevSuffix Options.nextPrefix
  rw [h, splitOn_replicate _ hsep]
  constructor
  · rfl
  · split
    · simp only [List.getLastD_eq_getLast?, List.getLast?_replicate]
      split <;> rfl
    · rfl

/-- the most common instance: `paraSep = lineSep ++ lineSep` (the defaults "\n\n" and "\n") -/
theorem affixFree_of_double (od : Options α) (hsep : od.lineSep ≠ [])
    (h : od.paraSep = od.lineSep ++ od.lineSep) : AffixFree od := by
  apply affixFree_of_replicate od hsep 2
  rw [h]
  simp only [List.replicate_succ, List.replicate_zero, List.flatten_cons, List.flatten_nil,
    List.append_nil]

/-- necessary: an affix-free (non-empty) paragraph separator starts and ends with the line
separator -/
theorem AffixFree.prefix_suffix {od : Options α} (haf : AffixFree od) (hsep : od.lineSep ≠ [])
    (hp : od.paraSep ≠ []) : od.lineSep <+: od.paraSep ∧ od.lineSep <:+ od.paraSep := by
  obtain ⟨h1, h2⟩ := haf
  unfold Options.prevSuffix at h1
  unfold Options.nextPrefix at h2
  have hj := joinWith_splitOn od.paraSep od.lineSep hsep
  generalize splitOn od.paraSep od.lineSep = parts at *
  cases parts with
  | nil => rw [← hj] at hp; exact absurd rfl hp
  | cons x t =>
    simp only [List.headD_cons] at h1
    subst h1
    cases t with
    | nil => rw [← hj] at hp; exact absurd rfl hp
    | cons y u =>
      constructor
      · rw [← hj, joinWith_cons_cons, List.nil_append]
        exact List.prefix_append _ _
      · rw [if_pos (by simp only [List.length_cons]; omega)] at h2
        rw [← hj]
        exact suffix_joinWith_of_getLastD_nil _ _ h2 (by simp [List.dropLast])

/-- sufficient for a line separator without a proper border (every one-atom separator, "\r\n", …):
the paragraph separator starts and ends with it -/
theorem affixFree_of_prefix_suffix (od : Options α) (hsep : od.lineSep ≠ [])
    (hu : Unbordered od.lineSep) (hpre : od.lineSep <+: od.paraSep)
    (hsuf : od.lineSep <:+ od.paraSep) : AffixFree od := by
  obtain ⟨X, hX⟩ := hpre
  have hl := splitOn_last_of_suffix od.paraSep od.lineSep hsep hu
    (List.isSuffixOf_iff_suffix.2 hsuf)
  unfold AffixFree Options.prevSuffix Options.nextPrefix
  rw [← hX, splitOn_sep_append _ _ hsep] at hl ⊢
  refine ⟨rfl, ?_⟩
  split
  · rw [List.getLastD_eq_getLast?, hl]; rfl
  · rfl

/-- `Unbordered` cannot be dropped there: "aaa" starts and ends with "aa", but `strings.Split`
cuts it into "" and "a", so the following paragraph gets the visible prefix "a" -/
theorem not_affixFree_bordered :
    let od : Options Nat := { lineSep := [7, 7], paraSep := [7, 7, 7] }
    od.lineSep <+: od.paraSep ∧ od.lineSep <:+ od.paraSep ∧ ¬ AffixFree od ∧
      od.nextPrefix = [7] := by
  decide

/-! ## gem facts for the empty affixes (well-formed contexts) -/
section gem
variable {cx : Ctx α}

theorem gRepeat_gLen_nil (hs : cx.Sane) (x : α) :
    gRepeat [x] ((gLen cx ([] : List α) : Nat) : Int) = [] := by
  rw [gLen_nil hs]
  rfl

theorem gLen_nil_not_pos (hs : cx.Sane) : ¬ ((gLen cx ([] : List α) : Nat) : Int) > 0 := by
  rw [gLen_nil hs]
  decide

theorem gLen_nil_not_pos' (hs : cx.Sane) : ¬ gLen cx ([] : List α) > 0 := by
  rw [gLen_nil hs]
  decide

/-- `Sub(0, Len)` is the whole string -/
theorem gSub_full (hs : cx.Sane) (s : List α) : gSub cx s 0 (gLen cx s) = s := by
  unfold gSub gLen
  have hr : rangeToIndexes ((cx.ends s).length : Int) 0 ((cx.ends s).length : Int) =
      (0, ((cx.ends s).length : Int)) := by
    unfold rangeToIndexes
    simp only
    repeat' split
    all_goals first | omega | rfl
  simp only [hr]
  by_cases h0 : (cx.ends s).length = 0
  · have : s = [] := (gLen_eq_zero_iff hs s).1 h0
    subst this
    rw [h0]
    rfl
  · rw [if_neg (by simp only [beq_iff_eq]; omega), if_neg (by omega)]
    have hl : ((cx.ends s).length : Int).toNat - 1 = (cx.ends s).length - 1 := by omega
    rw [hl, getD_eq_getElem _ _ (by omega), (hs.part s).getElem_last (by omega)]
    unfold sliceRunes
    simp only [List.drop_zero, Nat.sub_zero, List.take_length]

end gem

/-! ## the skeleton: a callback that is `f` on empty affixes -/

theorem paraLoop_affixFree (op : Nat → List α → List α → List α → R (List (List α)))
    (f : List α → R (List α)) (hop : ∀ i p, op i p [] [] = (do pure [← f p]))
    (lineSep : List α) (ambig : Bool) (idx : Nat) (cur : List α) (rest : List (List α)) :
    paraLoop op lineSep [] [] ambig idx cur rest = (paraPieces lineSep ambig cur rest).mapM f := by
  induction rest generalizing idx cur with
  | nil =>
    simp only [paraLoop, paraPieces, ite_self, hop, List.mapM_cons, List.mapM_nil, pure_bind]
  | cons nxt rest ih =>
    simp only [paraLoop, paraPieces, ite_self, hop, List.mapM_cons, ih, bind_assoc, pure_bind,
      List.singleton_append]

omit [DecidableEq α] in
theorem withDefaults_paraSep_idem (cx : Ctx α) (o : Options α) :
    ((o.withDefaults cx).withDefaults cx).paraSep = (o.withDefaults cx).paraSep := by
  rw [(withDefaults_fields cx (o.withDefaults cx)).2.2.1, (withDefaults_fields cx o).2.2.1]
  by_cases h : o.paraSep.isEmpty
  · simp only [h, if_true, ite_self]
  · simp only [h, if_false, Bool.false_eq_true]

/-- `applyParasM` reads only the two separators of its options, and these are stable under a
second `withDefaults` (Wrap, Justify and Align pass the already defaulted options) -/
theorem applyParasM_withDefaults (cx : Ctx α) (ed : Editor α)
    (op : Nat → List α → List α → List α → R (List (List α))) (o : Options α) :
    ed.applyParasM cx op (o.withDefaults cx) = ed.applyParasM cx op o := by
  unfold Editor.applyParasM
  simp only [withDefaults_lineSep_idem, withDefaults_paraSep_idem]

/-- **skeleton**: without visible affixes, a callback that computes `f` of the paragraph (given
empty affixes) is mapped over the paragraphs; the results are joined with the paragraph separator -/
theorem applyParasM_affixFree (cx : Ctx α) (ed : Editor α)
    (op : Nat → List α → List α → List α → R (List (List α))) (f : List α → R (List α))
    (o : Options α) (haf : AffixFree (o.withDefaults cx))
    (hop : ∀ i p, op i p [] [] = (do pure [← f p])) :
    ed.applyParasM cx op o =
      ((paragraphsOf ed.text (o.withDefaults cx)).mapM f >>=
        fun rs => pure (ed.withText (joinWith (o.withDefaults cx).paraSep rs))) := by
  obtain ⟨h1, h2⟩ := haf
  unfold Options.prevSuffix at h1
  unfold Options.nextPrefix at h2
  unfold Editor.applyParasM paragraphsOf
  dsimp only
  rw [h1, h2]
  cases splitOn ed.text (o.withDefaults cx).paraSep with
  | nil => simp only [List.mapM_nil, pure_bind, joinWith_nil]
  | cons p ps =>
    dsimp only
    rw [paraLoop_affixFree op f hop]
    rfl

/-- … for a callback that never fails on empty affixes -/
theorem applyParasM_affixFree_ok (cx : Ctx α) (ed : Editor α)
    (op : Nat → List α → List α → List α → R (List (List α))) (g : List α → List α)
    (o : Options α) (haf : AffixFree (o.withDefaults cx))
    (hop : ∀ i p, op i p [] [] = .ok [g p]) :
    ed.applyParasM cx op o =
      .ok (ed.withText (joinWith (o.withDefaults cx).paraSep
        ((paragraphsOf ed.text (o.withDefaults cx)).map g))) := by
  rw [applyParasM_affixFree cx ed op (fun p => .ok (g p)) o haf (fun i p => by rw [hop]; rfl),
    mapM_ok_of_forall _ g _ (fun _ _ => rfl)]
  rfl

/-- a `mapM` that succeeds pointwise -/
theorem mapM_bind_ok {β γ δ : Type} (f : β → R γ) (g : β → γ) (l : List β) (k : List γ → R δ)
    (h : ∀ x ∈ l, f x = .ok (g x)) : (l.mapM f >>= k) = k (l.map g) := by
  rw [mapM_ok_of_forall f g l h]
  rfl

/-! ## 1. Wrap in paragraph mode -/
section wrap
variable (cx : Ctx α)

omit [DecidableEq α] in
theorem join_mk_false (ls : List (List α)) (sep : List α) :
    (Block.mk ls sep false).join = joinWith sep ls := by
  unfold Block.join
  cases ls with
  | nil => rfl
  | cons x t => simp only [List.isEmpty_cons, Bool.false_eq_true, if_false, List.append_nil]

theorem max_two (width : Int) : (if width < 2 then 2 else width) = max width 2 := by
  rw [Int.max_def]; split <;> split <;> omega

/-- the per-paragraph result of Wrap as a total function (the paragraph itself in the unreachable
error case): the wrapped lines joined by the line separator, plus one more line separator exactly
when the paragraph ended in one — as `WrapOpts` outside of paragraph mode (`wrapOpts_structure`) -/
def wrapPara (width : Int) (sep p : List α) : List α :=
  match wrapLines cx p (max width 2) sep with
  | .ok ls => joinWith sep ls ++ (if sep.isSuffixOf p then sep else [])
  | .error _ => p

/-- the closed form of `wrapPara`, given the wrapped lines -/
theorem wrapPara_eq (width : Int) (sep p : List α) (lines : List (List α))
    (hw : wrapLines cx p (max width 2) sep = .ok lines) :
    wrapPara cx width sep p = joinWith sep lines ++ (if sep.isSuffixOf p then sep else []) := by
  unfold wrapPara
  rw [hw]

/-- … for a well-formed context the wrapped lines exist -/
theorem wrapPara_eq_sane (hs : cx.Sane) (width : Int) (sep p : List α) :
    ∃ lines, wrapLines cx p (max width 2) sep = .ok lines ∧
      wrapPara cx width sep p = joinWith sep lines ++ (if sep.isSuffixOf p then sep else []) := by
  obtain ⟨ls, h⟩ := wrapLines_total hs p (max width 2) sep
  exact ⟨ls, h, wrapPara_eq cx width sep p ls h⟩

theorem wrapLines_map_eq_wrapPara (hs : cx.Sane) (width : Int) (sep p : List α) :
    (wrapLines cx p (max width 2) sep).map
        (fun ls => joinWith sep ls ++ (if sep.isSuffixOf p then sep else [])) =
      .ok (wrapPara cx width sep p) := by
  obtain ⟨ls, h⟩ := wrapLines_total hs p (max width 2) sep
  unfold wrapPara
  rw [h]
  rfl

end wrap
end ParaStructure
open ParaStructure OpsStructure
variable {α : Type} [DecidableEq α] (cx : Ctx α)

/-- **1. Wrap, paragraph mode, no visible affixes**: every paragraph is wrapped on its own (its
wrapped lines joined by the line separator, plus one more line separator exactly when the paragraph
ended in one), and the results are joined by the paragraph separator -/
theorem wrapOpts_para (hs : cx.Sane) (ed : Editor α) (width : Int) (o : Options α)
    (hpp : (o.withDefaults cx).preservePara = true) (haf : AffixFree (o.withDefaults cx)) :
    ed.wrapOpts cx width o =
      ((paragraphsOf ed.text (o.withDefaults cx)).mapM (fun p =>
          (wrapLines cx p (max width 2) (o.withDefaults cx).lineSep).map
            (fun ls => joinWith (o.withDefaults cx).lineSep ls ++
              (if (o.withDefaults cx).lineSep.isSuffixOf p then (o.withDefaults cx).lineSep
               else []))) >>=
        fun rs => pure (ed.withText (joinWith (o.withDefaults cx).paraSep rs))) := by
  unfold Editor.wrapOpts
  dsimp only
  rw [hpp, max_two]
  simp only [if_true]
  rw [applyParasM_withDefaults]
  apply applyParasM_affixFree cx ed _ _ o haf
  intro i p
  simp only [gRepeat_gLen_nil hs, List.nil_append, List.append_nil, join_mk_false,
    if_neg (gLen_nil_not_pos hs)]
  rw [gLen_nil hs]
  cases wrapLines cx p (max width 2) (o.withDefaults cx).lineSep with
  | error e => rfl
  | ok ls =>
    show Except.ok _ = Except.ok _
    simp only [Int.natCast_zero, gSub_full hs]
    split <;> simp only [List.append_nil]

/-- … as a total function of the paragraphs: `wrapPara cx width sep p` is
`joinWith sep lines ++ (if sep.isSuffixOf p then sep else [])` for the wrapped lines `lines` of `p`
(`wrapPara_eq`, `wrapPara_eq_sane`) -/
theorem wrapOpts_para_sane (hs : cx.Sane) (ed : Editor α) (width : Int) (o : Options α)
    (hpp : (o.withDefaults cx).preservePara = true) (haf : AffixFree (o.withDefaults cx)) :
    ed.wrapOpts cx width o =
      .ok (ed.withText (joinWith (o.withDefaults cx).paraSep
        ((paragraphsOf ed.text (o.withDefaults cx)).map
          (wrapPara cx width (o.withDefaults cx).lineSep)))) := by
  rw [wrapOpts_para cx hs ed width o hpp haf,
    mapM_bind_ok _ (wrapPara cx width (o.withDefaults cx).lineSep) _ _
      (fun p _ => wrapLines_map_eq_wrapPara cx hs width _ p)]
  rfl

namespace ParaStructure

/-! ## 2. Justify in paragraph mode -/
section justify
variable (cx : Ctx α)

/-- the per-paragraph computation of Justify: the lines of `tb.New(p, sep)`, every line justified
except the last one when `JustifyLastLine` is not set, joined again -/
def justifyParaM (width : Int) (sep : List α) (jl : Bool) (p : List α) : R (List α) := do
  let bl ← (Block.new p sep).mapLinesM fun idx line =>
    if !jl ∧ (idx : Int) == ((Block.new p sep).lines.length : Int) - 1 then pure line
    else justifyLine cx line width
  pure bl.join

/-- the lines of a paragraph after Justify, `J` being the line function: all lines (`jl`), or all
lines but the last -/
def justifyLines (J : List α → List α) (jl : Bool) (ls : List (List α)) : List (List α) :=
  if jl then ls.map J else mapInit J ls

/-- the closed form of the per-paragraph result -/
def justifyParaWith (J : List α → List α) (sep : List α) (jl : Bool) (p : List α) : List α :=
  ({ Block.new p sep with lines := justifyLines J jl (Block.new p sep).lines } : Block α).join

omit [DecidableEq α] in
theorem justifyLines_length (J : List α → List α) (jl : Bool) (ls : List (List α)) :
    (justifyLines J jl ls).length = ls.length := by
  unfold justifyLines
  split
  · exact List.length_map _
  · exact mapInit_length _ _

omit [DecidableEq α] in
theorem map_range_getD {β γ : Type} (l : List β) (d : β) (f : β → γ) :
    (List.range l.length).map (fun i => f (l.getD i d)) = l.map f := by
  apply List.ext_getElem
  · simp only [List.length_map, List.length_range]
  · intro i h1 h2
    simp only [List.length_map, List.length_range] at h1
    simp only [List.getElem_map, List.getElem_range, List.getD_eq_getElem?_getD,
      List.getElem?_eq_getElem h1, Option.getD_some]

omit [DecidableEq α] in
theorem getD_mem_dropLast (ls : List (List α)) (i : Nat) (h : i + 1 < ls.length) :
    ls.getD i [] ∈ ls.dropLast := by
  rw [List.dropLast_eq_take, List.getD_eq_getElem?_getD, List.getElem?_eq_getElem (by omega),
    Option.getD_some]
  have : ls[i] = (ls.take (ls.length - 1))[i]'(by rw [List.length_take]; omega) := by
    rw [List.getElem_take]
  rw [this]
  exact List.getElem_mem _

/-- the line loop of the paragraph callback -/
theorem mapM_justify_range (width : Int) (jl : Bool) (J : List α → List α) (ls : List (List α))
    (hJ : ∀ l ∈ (if jl then ls else ls.dropLast), justifyLine cx l width = .ok (J l)) :
    (List.range ls.length).mapM (fun i =>
        if !jl ∧ ((i : Nat) : Int) == (ls.length : Int) - 1 then (pure (ls.getD i []) : R (List α))
        else justifyLine cx (ls.getD i []) width) = .ok (justifyLines J jl ls) := by
  rw [mapM_ok_of_forall _
    (fun i => if jl = false ∧ i + 1 = ls.length then ls.getD i [] else J (ls.getD i []))]
  · congr 1
    unfold justifyLines
    cases jl with
    | true =>
      simp only [Bool.true_eq_false, false_and, if_false, if_true]
      exact map_range_getD ls [] J
    | false =>
      simp only [true_and, Bool.false_eq_true, if_false]
      apply List.ext_getElem
      · simp only [List.length_map, List.length_range, mapInit_length]
      · intro i h1 h2
        simp only [List.length_map, List.length_range] at h1
        have hm := mapInit_getD J ls i h1
        rw [List.getD_eq_getElem?_getD, List.getElem?_eq_getElem h2, Option.getD_some] at hm
        rw [hm]
        simp only [List.getElem_map, List.getElem_range]
        by_cases hi : i + 1 = ls.length
        · rw [if_pos hi, if_neg (by omega)]
        · rw [if_neg hi, if_pos (by omega)]
  · intro i hi
    have hi' : i < ls.length := List.mem_range.1 hi
    cases jl with
    | true =>
      simp only [Bool.not_true, Bool.false_eq_true, false_and, if_false, Bool.true_eq_false]
      apply hJ
      rw [if_pos rfl, List.getD_eq_getElem?_getD, List.getElem?_eq_getElem hi', Option.getD_some]
      exact List.getElem_mem _
    | false =>
      simp only [Bool.not_false, true_and, beq_iff_eq]
      by_cases hlast : i + 1 = ls.length
      · rw [if_pos (by omega), if_pos hlast]
        rfl
      · rw [if_neg (by omega), if_neg hlast]
        apply hJ
        rw [if_neg (by simp)]
        exact getD_mem_dropLast ls i (by omega)

/-- the per-paragraph computation in closed form, given the justified lines -/
theorem justifyParaM_eq (width : Int) (sep : List α) (jl : Bool) (J : List α → List α)
    (p : List α)
    (hJ : ∀ l ∈ (if jl then (Block.new p sep).lines else (Block.new p sep).lines.dropLast),
      justifyLine cx l width = .ok (J l)) :
    justifyParaM cx width sep jl p = .ok (justifyParaWith J sep jl p) := by
  unfold justifyParaM Block.mapLinesM
  rw [mapM_justify_range cx width jl J _ hJ]
  rfl

/-- … for a well-formed context: no side condition -/
theorem justifyParaM_sane (hs : cx.Sane) (width : Int) (sep : List α) (jl : Bool) (p : List α) :
    justifyParaM cx width sep jl p =
      .ok (justifyParaWith (fun l => justified cx l width) sep jl p) :=
  justifyParaM_eq cx width sep jl _ p (fun l _ => justifyLine_eq_justified cx hs l width)

end justify
end ParaStructure
open ParaStructure OpsStructure

/-- **2. Justify, paragraph mode, no visible affixes**: every paragraph is justified on its own
(`justifyParaM`: the lines of `tb.New(p, sep)`, each justified except the last one when
`JustifyLastLine` is not set, joined with the paragraph's own trailing separator), and the results
are joined by the paragraph separator -/
theorem justifyOpts_para (hs : cx.Sane) (ed : Editor α) (width : Int) (o : Options α)
    (hpp : (o.withDefaults cx).preservePara = true) (haf : AffixFree (o.withDefaults cx)) :
    ed.justifyOpts cx width o =
      ((paragraphsOf ed.text (o.withDefaults cx)).mapM
          (justifyParaM cx width (o.withDefaults cx).lineSep (o.withDefaults cx).justifyLast) >>=
        fun rs => pure (ed.withText (joinWith (o.withDefaults cx).paraSep rs))) := by
  unfold Editor.justifyOpts
  dsimp only
  rw [hpp]
  simp only [if_true]
  rw [applyParasM_withDefaults]
  apply applyParasM_affixFree cx ed _ _ o haf
  intro i p
  simp only [gRepeat_gLen_nil hs, List.nil_append, List.append_nil,
    if_neg (gLen_nil_not_pos hs)]
  rw [gLen_nil hs]
  unfold justifyParaM
  simp only [Int.natCast_zero, gSub_full hs, bind_assoc, pure_bind]

/-- … closed form: in every paragraph `p` the lines `Block.new p sep` are justified — all of them
with `JustifyLastLine`, all but the last one without — and joined by `sep` (plus the paragraph's
trailing `sep` if it had one) -/
theorem justifyOpts_para_sane (hs : cx.Sane) (ed : Editor α) (width : Int) (o : Options α)
    (hpp : (o.withDefaults cx).preservePara = true) (haf : AffixFree (o.withDefaults cx)) :
    ed.justifyOpts cx width o =
      .ok (ed.withText (joinWith (o.withDefaults cx).paraSep
        ((paragraphsOf ed.text (o.withDefaults cx)).map
          (justifyParaWith (fun l => justified cx l width) (o.withDefaults cx).lineSep
            (o.withDefaults cx).justifyLast)))) := by
  rw [justifyOpts_para cx hs ed width o hpp haf,
    mapM_bind_ok _ _ _ _ (fun p _ => justifyParaM_sane cx hs width _ _ p)]
  rfl

namespace ParaStructure

/-! ## 3. Align in paragraph mode -/
section align
variable (cx : Ctx α)

/-- the per-paragraph result of Align: the lines of `tb.New(p, sep)`, each mapped by the line
function `F`, joined again (with the paragraph's own trailing separator) -/
def alignParaWith (F : List α → List α) (sep p : List α) : List α :=
  ({ Block.new p sep with lines := (Block.new p sep).lines.map F } : Block α).join

omit [DecidableEq α] in
theorem Block.mapLinesM_pure (b : Block α) (F : List α → List α) :
    b.mapLinesM (fun _ l => pure (F l)) = .ok { b with lines := b.lines.map F } := by
  unfold Block.mapLinesM
  dsimp only
  rw [mapM_ok_of_forall (fun i => (pure (F (b.lines.getD i [])) : R (List α)))
    (fun i => F (b.lines.getD i [])) _ (fun _ _ => rfl), map_range_getD]
  rfl

omit [DecidableEq α] in
theorem Block.line_ok (b : Block α) (pos : Int) (h0 : 0 ≤ pos) (h1 : pos < b.lines.length) :
    b.line pos = .ok (b.lines.getD pos.toNat []) := by
  unfold Block.line
  rw [if_neg (by omega)]
  rfl

omit [DecidableEq α] in
/-- writing a line back unchanged -/
theorem Block.set_self (b : Block α) (pos : Int) (h0 : 0 ≤ pos) (h1 : pos < b.lines.length) :
    b.set pos (b.lines.getD pos.toNat []) = .ok b := by
  unfold Block.set
  rw [if_neg (by omega)]
  have hlt : pos.toNat < b.lines.length := by omega
  have : b.lines.set pos.toNat (b.lines.getD pos.toNat []) = b.lines := by
    rw [List.getD_eq_getElem?_getD, List.getElem?_eq_getElem hlt, Option.getD_some,
      List.set_getElem_self]
  rw [this]
  rfl

omit [DecidableEq α] in
theorem alignParaWith_of_isEmpty (F : List α → List α) (b : Block α)
    (h : b.lines.isEmpty = true) : ({ b with lines := b.lines.map F } : Block α).join = b.join := by
  have : b.lines = [] := List.isEmpty_iff.1 h
  rw [this]
  unfold Block.join
  rw [this]
  rfl

theorem alignParaLeft_nil (hs : cx.Sane) (width : Int) (sep p : List α) :
    alignParaLeft cx width sep p [] [] =
      .ok (alignParaWith (fun l => alignLeft cx l width) sep p) := by
  unfold alignParaLeft alignParaWith
  simp only [gRepeat_gLen_nil hs, List.append_nil]
  generalize Block.new p sep = bl
  by_cases he : bl.lines.isEmpty = true
  · rw [if_pos he, alignParaWith_of_isEmpty _ _ he]
    rfl
  · rw [if_neg he]
    have hpos := Block.lines_length_pos bl he
    rw [Block.line_ok bl 0 (by omega) (by omega), ok_bind, Block.set_self bl 0 (by omega) (by omega),
      ok_bind, Block.mapLinesM_pure, ok_bind]
    simp only [if_neg (gLen_nil_not_pos' hs), pure_bind]
    rfl

theorem alignParaRight_nil (hs : cx.Sane) (width : Int) (sep p : List α) :
    alignParaRight cx width sep p [] [] =
      .ok (alignParaWith (fun l => alignRight cx l width) sep p) := by
  unfold alignParaRight alignParaWith
  simp only [gRepeat_gLen_nil hs, List.nil_append]
  generalize Block.new p sep = bl
  by_cases he : bl.lines.isEmpty = true
  · rw [if_pos he, alignParaWith_of_isEmpty _ _ he]
    rfl
  · rw [if_neg he]
    have hpos := Block.lines_length_pos bl he
    rw [Block.line_ok bl _ (by omega) (by omega), ok_bind,
      Block.set_self bl _ (by omega) (by omega), ok_bind, Block.mapLinesM_pure, ok_bind]
    simp only [if_neg (gLen_nil_not_pos' hs), pure_bind]
    rfl

theorem alignParaCenter_nil (hs : cx.Sane) (width : Int) (sep p : List α) :
    alignParaCenter cx width sep p [] [] =
      .ok (alignParaWith (fun l => alignCenter cx l width) sep p) := by
  unfold alignParaCenter alignParaWith
  simp only [gRepeat_gLen_nil hs, if_neg (gLen_nil_not_pos hs)]
  generalize Block.new p sep = bl
  by_cases he : bl.lines.isEmpty = true
  · rw [if_pos he, alignParaWith_of_isEmpty _ _ he]
    rfl
  · rw [if_neg he, Block.mapLinesM_pure, ok_bind]
    rfl

end align
end ParaStructure
open ParaStructure OpsStructure

/-- **3. Align (Left / Right / Center), paragraph mode, no visible affixes**: in every paragraph
`p` every line of `Block.new p sep` is aligned and the lines are joined by `sep` again (plus the
paragraph's trailing `sep` if it had one); the results are joined by the paragraph separator.
(`None` and unknown alignments leave the text unchanged: `alignOpts_none`.) -/
theorem alignOpts_para (hs : cx.Sane) (ed : Editor α) (align width : Int) (o : Options α)
    (hal : align = Gen.alignLeft ∨ align = Gen.alignRight ∨ align = Gen.alignCenter)
    (hpp : (o.withDefaults cx).preservePara = true) (haf : AffixFree (o.withDefaults cx)) :
    ed.alignOpts cx align width o =
      .ok (ed.withText (joinWith (o.withDefaults cx).paraSep
        ((paragraphsOf ed.text (o.withDefaults cx)).map
          (alignParaWith (fun l => alignFn cx align l width) (o.withDefaults cx).lineSep)))) := by
  unfold Editor.alignOpts
  rw [if_neg]
  · dsimp only
    rw [hpp]
    simp only [if_true]
    rw [applyParasM_withDefaults]
    apply applyParasM_affixFree_ok cx ed _ _ o haf
    intro i p
    unfold alignFn
    rcases hal with h | h | h <;> subst h
    · simp only [alignParaLeft_nil cx hs]
      rfl
    · simp only [alignParaRight_nil cx hs]
      rfl
    · simp only [alignParaCenter_nil cx hs]
      rfl
  · simp only [beq_iff_eq, bne_iff_ne, ne_eq]
    rcases hal with h | h | h <;> subst h <;> decide

theorem alignOpts_para_left (hs : cx.Sane) (ed : Editor α) (width : Int) (o : Options α)
    (hpp : (o.withDefaults cx).preservePara = true) (haf : AffixFree (o.withDefaults cx)) :
    ed.alignOpts cx Gen.alignLeft width o =
      .ok (ed.withText (joinWith (o.withDefaults cx).paraSep
        ((paragraphsOf ed.text (o.withDefaults cx)).map
          (alignParaWith (fun l => alignLeft cx l width) (o.withDefaults cx).lineSep)))) :=
  alignOpts_para cx hs ed _ width o (.inl rfl) hpp haf

theorem alignOpts_para_right (hs : cx.Sane) (ed : Editor α) (width : Int) (o : Options α)
    (hpp : (o.withDefaults cx).preservePara = true) (haf : AffixFree (o.withDefaults cx)) :
    ed.alignOpts cx Gen.alignRight width o =
      .ok (ed.withText (joinWith (o.withDefaults cx).paraSep
        ((paragraphsOf ed.text (o.withDefaults cx)).map
          (alignParaWith (fun l => alignRight cx l width) (o.withDefaults cx).lineSep)))) :=
  alignOpts_para cx hs ed _ width o (.inr (.inl rfl)) hpp haf

theorem alignOpts_para_center (hs : cx.Sane) (ed : Editor α) (width : Int) (o : Options α)
    (hpp : (o.withDefaults cx).preservePara = true) (haf : AffixFree (o.withDefaults cx)) :
    ed.alignOpts cx Gen.alignCenter width o =
      .ok (ed.withText (joinWith (o.withDefaults cx).paraSep
        ((paragraphsOf ed.text (o.withDefaults cx)).map
          (alignParaWith (fun l => alignCenter cx l width) (o.withDefaults cx).lineSep)))) :=
  alignOpts_para cx hs ed _ width o (.inr (.inr rfl)) hpp haf

namespace ParaStructure

/-! ## 4. Indent in paragraph mode -/
section indent
variable (cx : Ctx α)

/-- the per-paragraph result of Indent: the lines of the paragraph (the paragraph seen as an editor
of its own, with the trailing-separator policy `nt`), each prefixed with `indent`, joined by `sep`;
the paragraph's trailing separator is kept -/
def indentPara (indent sep : List α) (nt : Bool) (p : List α) : List α :=
  joinWith sep ((Spec.bareLines p sep nt).map (indent ++ ·) ++
    (if !nt ∧ (Spec.bareLines p sep nt).length < (splitOn p sep).length then [[]] else []))

/-- a callback that ignores index and affixes -/
theorem applyParasM_ignoring (ed : Editor α)
    (op : Nat → List α → List α → List α → R (List (List α))) (f : List α → R (List α))
    (o : Options α) (hop : ∀ i p a b, op i p a b = (do pure [← f p])) :
    ed.applyParasM cx op o =
      ((paragraphsOf ed.text (o.withDefaults cx)).mapM f >>=
        fun rs => pure (ed.withText (joinWith (o.withDefaults cx).paraSep rs))) := by
  have : op = (fun _ p _ _ => do pure [← f p]) := by
    funext i p a b
    exact hop i p a b
  rw [this, applyParasM_single]

omit [DecidableEq α] in
theorem repeatStr_of_nonneg (s : List α) (n : Int) (h : 0 ≤ n) :
    repeatStr s n = .ok (List.replicate n.toNat s).flatten := by
  unfold repeatStr
  rw [if_neg (by omega)]
  rfl

/-- the paragraph callback of Indent -/
theorem indent_callback (indent : List α) (o : Options α) (p : List α) :
    (do let e ← (Editor.root p o).applyOpts cx (fun (_ : Nat) (line : List α) => [indent ++ line]) o
        e.string cx) =
      .ok (indentPara indent (o.withDefaults cx).lineSep (o.withDefaults cx).noTrailing p) := by
  rw [applyOpts_map cx (Editor.root p o) (indent ++ ·) o, ok_bind]
  unfold trailing
  rw [inLines_eq]
  rfl

end indent
end ParaStructure
open ParaStructure OpsStructure

/-- **4. Indent, paragraph mode** (any paragraph separator, with or without visible affixes — the
callback of Indent ignores them; any context): every paragraph is indented as an editor of its
own — each of its lines gets the indent, the lines are joined by `sep`, a trailing `sep` is
kept — and the results are joined by the paragraph separator -/
theorem indentOpts_para (ed : Editor α) (level : Int) (o : Options α) (hl : 1 ≤ level)
    (hpp : (o.withDefaults cx).preservePara = true) :
    ed.indentOpts cx level o =
      .ok (ed.withText (joinWith (o.withDefaults cx).paraSep
        ((paragraphsOf ed.text (o.withDefaults cx)).map
          (indentPara (List.replicate level.toNat (o.withDefaults cx).indentStr).flatten
            (o.withDefaults cx).lineSep (o.withDefaults cx).noTrailing)))) := by
  unfold Editor.indentOpts
  rw [if_neg (by omega)]
  dsimp only
  rw [repeatStr_of_nonneg _ _ (by omega), ok_bind, hpp]
  simp only [if_true]
  rw [applyParasM_ignoring cx ed _ (fun p => do
      let e ← (Editor.root p o).applyOpts cx (fun (_ : Nat) (line : List α) =>
        [(List.replicate level.toNat (o.withDefaults cx).indentStr).flatten ++ line]) o
      e.string cx) o (fun _ _ _ _ => by simp only [bind_assoc]),
    mapM_bind_ok _ _ _ _ (fun p _ => indent_callback cx _ o p)]
  rfl

namespace ParaStructure

/-! ## the lines of a paragraph: `tb.New` versus the editor's line list -/
section blocknew

/-- the lines `tb.New(p, sep)` gives are the lines an editor with the default trailing policy sees
in `p` (for every separator, also the empty one) -/
theorem Block.new_lines (p sep : List α) : (Block.new p sep).lines = Spec.bareLines p sep false := by
  unfold Block.new Spec.bareLines
  by_cases hp : p = []
  · subst hp
    by_cases hsep : sep = []
    · subst hsep; rfl
    · rw [splitOn_nil sep hsep]; rfl
  · have hne : splitOn p sep ≠ [] := splitOn_ne_nil p sep (.inl hp)
    have hj := joinWith_splitOn_all p sep
    rw [if_neg (by simpa using hp)]
    generalize splitOn p sep = ls at *
    have hl : ls.getLast? = some (ls.getLastD []) := by
      rw [List.getLastD_eq_getLast?]
      cases h : ls.getLast? with
      | none => exact absurd (List.getLast?_eq_none_iff.1 h) hne
      | some x => rfl
    simp only [Bool.not_false, Bool.true_and]
    by_cases hc : ls.length > 1 ∧ (ls.getLast? == some []) = true
    · rw [if_pos hc]
      have : ls.getLastD [] = [] := by
        have := hc.2
        rw [hl] at this
        simpa using this
      rw [this]
      rfl
    · rw [if_neg hc]
      have : (ls.getLastD []).isEmpty = false := by
        rw [Bool.eq_false_iff]
        intro he
        have he' : ls.getLastD [] = [] := List.isEmpty_iff.1 he
        apply hc
        refine ⟨?_, by rw [hl, he']; rfl⟩
        cases ls with
        | nil => exact absurd rfl hne
        | cons x t =>
          cases t with
          | nil =>
            exfalso
            apply hp
            rw [← hj, joinWith_singleton]
            simpa [List.getLastD] using he'
          | cons y u => simp only [List.length_cons]; omega
      rw [this]
      rfl

theorem Block.new_sep (p sep : List α) : (Block.new p sep).sep = sep := by
  unfold Block.new
  dsimp only
  split
  · rfl
  · split <;> rfl

theorem Block.new_trailing_of_nil (p sep : List α) (h0 : (Block.new p sep).lines = []) :
    (Block.new p sep).trailing = false := by
  unfold Block.new at h0 ⊢
  dsimp only at h0 ⊢
  split
  · rfl
  · rename_i hp
    rw [if_neg hp] at h0
    split
    · rename_i hc
      rw [if_pos hc] at h0
      have := congrArg List.length h0
      simp only [List.length_dropLast, List.length_nil] at this
      omega
    · rfl

/-- `Block.Join` after a line-wise change: the new lines joined by `sep`, plus the trailing `sep`
the paragraph had (`tb.New` never yields "no lines but a trailing separator") -/
theorem Block.new_join_lines (p sep : List α) (ls' : List (List α))
    (hlen : ls'.length = (Block.new p sep).lines.length) :
    ({ Block.new p sep with lines := ls' } : Block α).join =
      joinWith sep ls' ++ (if (Block.new p sep).trailing then sep else []) := by
  have hsepEq : (Block.new p sep).sep = sep := Block.new_sep p sep
  unfold Block.join
  simp only [hsepEq]
  by_cases he : ls' = []
  · subst he
    have h0 : (Block.new p sep).lines = [] := List.length_eq_zero_iff.1 hlen.symm
    have ht : (Block.new p sep).trailing = false := Block.new_trailing_of_nil p sep h0
    simp only [ht, List.isEmpty_nil, if_true, Bool.false_eq_true, if_false, joinWith_nil,
      List.append_nil]
  · rw [if_neg (by simpa using he)]

theorem alignParaWith_eq (F : List α → List α) (sep p : List α) :
    alignParaWith F sep p =
      joinWith sep ((Spec.bareLines p sep false).map F) ++
        (if (Block.new p sep).trailing then sep else []) := by
  unfold alignParaWith
  rw [Block.new_join_lines p sep _ (List.length_map _), Block.new_lines]

theorem justifyParaWith_eq (J : List α → List α) (sep : List α) (jl : Bool) (p : List α) :
    justifyParaWith J sep jl p =
      joinWith sep (justifyLines J jl (Spec.bareLines p sep false)) ++
        (if (Block.new p sep).trailing then sep else []) := by
  unfold justifyParaWith
  rw [Block.new_join_lines p sep _ (justifyLines_length _ _ _), Block.new_lines]

end blocknew

/-! ## 5. paragraph separators stay in place, each paragraph on its own -/

/-- the result `res` of an operation on `ed` is the paragraph-separator join of one piece per
paragraph, the `i`-th piece being `F` of the `i`-th paragraph (and of nothing else); the editor is
otherwise unchanged (same options, same parent) -/
def ParagraphWise (ed : Editor α) (od : Options α) (F : List α → List α) (res : R (Editor α)) :
    Prop :=
  ∃ r rs, res = .ok r ∧ r = ed.withText (joinWith od.paraSep rs) ∧
    r.text = joinWith od.paraSep rs ∧ r.opts = ed.opts ∧
    rs = (paragraphsOf ed.text od).map F ∧
    rs.length = (paragraphsOf ed.text od).length ∧
    rs.length = (splitOn ed.text od.paraSep).length ∧
    ed.text = joinWith od.paraSep (paragraphsOf ed.text od) ∧
    ∀ i, i < (paragraphsOf ed.text od).length →
      rs.getD i [] = F ((paragraphsOf ed.text od).getD i [])

theorem paragraphWise_of_eq (ed : Editor α) (od : Options α) (F : List α → List α)
    (res : R (Editor α))
    (h : res = .ok (ed.withText (joinWith od.paraSep ((paragraphsOf ed.text od).map F)))) :
    ParagraphWise ed od F res := by
  refine ⟨_, _, h, rfl, Editor.withText_text _ _, Editor.withText_opts _ _, rfl,
    List.length_map _, ?_, (joinWith_paragraphsOf _ _).symm, fun i hi => ?_⟩
  · rw [List.length_map, paragraphsOf_length]
  · simp only [List.getD_eq_getElem?_getD, List.getElem?_map, List.getElem?_eq_getElem hi,
      Option.map_some, Option.getD_some]

end ParaStructure
open ParaStructure OpsStructure

/-- **5.** Wrap: paragraph separators kept in place, each paragraph on its own -/
theorem wrapOpts_paragraphWise (hs : cx.Sane) (ed : Editor α) (width : Int) (o : Options α)
    (hpp : (o.withDefaults cx).preservePara = true) (haf : AffixFree (o.withDefaults cx)) :
    ParagraphWise ed (o.withDefaults cx) (wrapPara cx width (o.withDefaults cx).lineSep)
      (ed.wrapOpts cx width o) :=
  paragraphWise_of_eq _ _ _ _ (wrapOpts_para_sane cx hs ed width o hpp haf)

/-- **5.** Justify -/
theorem justifyOpts_paragraphWise (hs : cx.Sane) (ed : Editor α) (width : Int) (o : Options α)
    (hpp : (o.withDefaults cx).preservePara = true) (haf : AffixFree (o.withDefaults cx)) :
    ParagraphWise ed (o.withDefaults cx)
      (justifyParaWith (fun l => justified cx l width) (o.withDefaults cx).lineSep
        (o.withDefaults cx).justifyLast)
      (ed.justifyOpts cx width o) :=
  paragraphWise_of_eq _ _ _ _ (justifyOpts_para_sane cx hs ed width o hpp haf)

/-- **5.** Align -/
theorem alignOpts_paragraphWise (hs : cx.Sane) (ed : Editor α) (align width : Int) (o : Options α)
    (hal : align = Gen.alignLeft ∨ align = Gen.alignRight ∨ align = Gen.alignCenter)
    (hpp : (o.withDefaults cx).preservePara = true) (haf : AffixFree (o.withDefaults cx)) :
    ParagraphWise ed (o.withDefaults cx)
      (alignParaWith (fun l => alignFn cx align l width) (o.withDefaults cx).lineSep)
      (ed.alignOpts cx align width o) :=
  paragraphWise_of_eq _ _ _ _ (alignOpts_para cx hs ed align width o hal hpp haf)

/-- **5.** Indent (no hypothesis on the context or on the separators) -/
theorem indentOpts_paragraphWise (ed : Editor α) (level : Int) (o : Options α) (hl : 1 ≤ level)
    (hpp : (o.withDefaults cx).preservePara = true) :
    ParagraphWise ed (o.withDefaults cx)
      (indentPara (List.replicate level.toNat (o.withDefaults cx).indentStr).flatten
        (o.withDefaults cx).lineSep (o.withDefaults cx).noTrailing)
      (ed.indentOpts cx level o) :=
  paragraphWise_of_eq _ _ _ _ (indentOpts_para cx ed level o hl hpp)

namespace ParaStructure

/-! ## the per-paragraph results and the non-paragraph operations on the single paragraph

For EVERY non-empty line separator (also a self-overlapping one) the per-paragraph result of Align /
Justify IS the result of the same operation, non-paragraph mode, on the paragraph as an editor of its
own (with the default trailing-separator policy, since Align and Justify go through `tb.New`):
`tb.New` and `ApplyOpts` use the same rule "the last piece of the split is empty" for the trailing
line separator.  For Indent and Wrap this holds for every line separator too (even the empty one):
both modes use the same test for the trailing line separator of the paragraph. -/
section link
variable (cx : Ctx α)

/-- for an unbordered separator, `tb.New` sets the trailing flag exactly when the text ends in the
separator -/
theorem Block.new_trailing (p sep : List α) (hsep : sep ≠ []) (hu : Unbordered sep) :
    (Block.new p sep).trailing = sep.isSuffixOf p := by
  unfold Block.new
  dsimp only
  by_cases hp : p = []
  · subst hp
    rw [if_pos List.isEmpty_nil]
    symm
    rw [Bool.eq_false_iff]
    intro h
    exact hsep (List.suffix_nil.1 (List.isSuffixOf_iff_suffix.1 h))
  · rw [if_neg (by simpa using hp)]
    have hj := joinWith_splitOn p sep hsep
    by_cases hs : sep.isSuffixOf p = true
    · have hl := splitOn_last_of_suffix p sep hsep hu hs
      rw [hs, if_pos]
      refine ⟨?_, by rw [hl]; rfl⟩
      generalize splitOn p sep = ls at *
      cases ls with
      | nil => simp at hl
      | cons x t =>
        cases t with
        | nil =>
          exfalso
          apply hp
          rw [← hj, joinWith_singleton]
          simpa using hl
        | cons y u => simp only [List.length_cons]; omega
    · rw [Bool.not_eq_true] at hs
      rw [hs, if_neg]
      rintro ⟨h1, h2⟩
      have hsuf : sep <:+ joinWith sep (splitOn p sep) := by
        apply suffix_joinWith_of_getLastD_nil
        · rw [List.getLastD_eq_getLast?, eq_of_beq h2]; rfl
        · intro h0
          have := congrArg List.length h0
          simp only [List.length_dropLast, List.length_nil] at this
          omega
      rw [hj] at hsuf
      rw [List.isSuffixOf_iff_suffix.2 hsuf] at hs
      exact absurd hs (by decide)

omit [DecidableEq α] in
theorem joinWith_append_nil_piece (sep : List α) :
    ∀ L : List (List α), L ≠ [] → joinWith sep (L ++ [[]]) = joinWith sep L ++ sep
  | [], h => absurd rfl h
  | [x], _ => by
    rw [List.singleton_append, joinWith_cons_cons, joinWith_singleton, joinWith_singleton,
      List.append_nil]
  | x :: y :: t, _ => by
    rw [List.cons_append, joinWith_cons_of_ne_nil sep x (by simp),
      joinWith_append_nil_piece sep (y :: t) (by simp), joinWith_cons_cons]
    simp only [List.append_assoc]

/-- `tb.New` sets the trailing flag exactly when the editor's line list (default policy) dropped a
final empty piece of a non-empty text — for every separator -/
theorem Block.new_trailing_iff (p sep : List α) :
    (Block.new p sep).trailing = true ↔
      (p ≠ [] ∧ (Spec.bareLines p sep false).length < (splitOn p sep).length) := by
  rw [Spec.bareLines_length_lt_iff]
  unfold Block.new
  dsimp only
  by_cases hp : p = []
  · subst hp
    rw [if_pos List.isEmpty_nil]
    simp
  · rw [if_neg (by simpa using hp)]
    have hj := joinWith_splitOn_all p sep
    have hne : splitOn p sep ≠ [] := splitOn_ne_nil p sep (.inl hp)
    generalize splitOn p sep = ls at *
    have hl : ls.getLast? = some (ls.getLastD []) := by
      rw [List.getLastD_eq_getLast?]
      cases h : ls.getLast? with
      | none => exact absurd (List.getLast?_eq_none_iff.1 h) hne
      | some x => rfl
    by_cases hc : ls.length > 1 ∧ (ls.getLast? == some []) = true
    · rw [if_pos hc]
      have h2 := hc.2
      rw [hl] at h2
      exact ⟨fun _ => ⟨hp, rfl, by simpa using h2, hne⟩, fun _ => rfl⟩
    · rw [if_neg hc]
      refine ⟨fun h => Bool.noConfusion h, fun h => ?_⟩
      exfalso
      apply hc
      obtain ⟨-, -, h2, -⟩ := h
      refine ⟨?_, by rw [hl, h2]; rfl⟩
      cases ls with
      | nil => exact absurd rfl hne
      | cons x t =>
        cases t with
        | nil =>
          exfalso
          apply hp
          rw [← hj, joinWith_singleton]
          simpa [List.getLastD] using h2
        | cons y u => simp only [List.length_cons]; omega

/-- the trailing flag as the extra empty line of the non-paragraph closed forms (`trailing` of
OpsStructure for the paragraph as an editor of its own) — for every non-empty separator -/
theorem join_trailing_eq (p sep : List α) (hsep : sep ≠ [])
    (ls' : List (List α)) (hlen : ls'.length = (Spec.bareLines p sep false).length) :
    joinWith sep ls' ++ (if (Block.new p sep).trailing then sep else []) =
      joinWith sep (ls' ++ (if !false ∧
        (Spec.bareLines p sep false).length < (splitOn p sep).length then [[]] else [])) := by
  have hiff := Block.new_trailing_iff p sep
  by_cases hp : p = []
  · subst hp
    have ht : (Block.new ([] : List α) sep).trailing = false := by
      rw [Bool.eq_false_iff]; intro h; exact (hiff.1 h).1 rfl
    have hb : Spec.bareLines ([] : List α) sep false = [] := by
      unfold Spec.bareLines; rw [splitOn_nil sep hsep]; rfl
    rw [hb] at hlen
    have : ls' = [] := List.length_eq_zero_iff.1 hlen
    subst this
    rw [ht, hb, splitOn_nil sep hsep]
    rfl
  · by_cases hc : (Spec.bareLines p sep false).length < (splitOn p sep).length
    · have ht : (Block.new p sep).trailing = true := hiff.2 ⟨hp, hc⟩
      have hne : ls' ≠ [] := by
        intro h0
        rw [h0, ← Block.new_lines] at hlen
        have := Block.new_trailing_of_nil p sep (List.length_eq_zero_iff.1 hlen.symm)
        rw [ht] at this
        exact absurd this (by decide)
      rw [ht, if_pos rfl,
        if_pos (show (!false) = true ∧ (Spec.bareLines p sep false).length < (splitOn p sep).length
          from ⟨rfl, hc⟩),
        joinWith_append_nil_piece sep ls' hne]
    · have ht : (Block.new p sep).trailing = false := by
        rw [Bool.eq_false_iff]; intro h; exact hc (hiff.1 h).2
      rw [ht, if_neg (by decide : ¬ (false = true)),
        if_neg (show ¬ ((!false) = true ∧
          (Spec.bareLines p sep false).length < (splitOn p sep).length) from fun h => hc h.2),
        List.append_nil, List.append_nil]

/-- the options of the single paragraph seen as an editor of its own: non-paragraph mode, default
trailing-separator policy -/
def single (o : Options α) : Options α := { o with preservePara := false, noTrailing := false }

omit [DecidableEq α] in
theorem single_fields (o : Options α) :
    ((single o).withDefaults cx).lineSep = (o.withDefaults cx).lineSep ∧
    ((single o).withDefaults cx).noTrailing = false ∧
    ((single o).withDefaults cx).preservePara = false ∧
    ((single o).withDefaults cx).justifyLast = (o.withDefaults cx).justifyLast := by
  obtain ⟨h1, -, -, h4, h5, h6, -⟩ := withDefaults_fields cx (single o)
  obtain ⟨g1, -, -, -, -, g6, -⟩ := withDefaults_fields cx o
  exact ⟨by rw [h1, g1]; rfl, by rw [h4]; rfl, by rw [h5]; rfl, by rw [h6, g6]; rfl⟩

/-- **Align**: the per-paragraph result is `AlignOpts` (non-paragraph mode) of the paragraph -/
theorem alignOpts_single (align width : Int) (o : Options α)
    (hal : align = Gen.alignLeft ∨ align = Gen.alignRight ∨ align = Gen.alignCenter)
    (hsep : (o.withDefaults cx).lineSep ≠ [])
    (p : List α) :
    (Editor.root p (single o)).alignOpts cx align width (single o) =
      .ok (Editor.root (alignParaWith (fun l => alignFn cx align l width)
        (o.withDefaults cx).lineSep p) (single o)) := by
  obtain ⟨h1, h2, h3, -⟩ := single_fields cx o
  rw [alignOpts_structure cx _ align width _ hal h3]
  unfold trailing
  rw [inLines_eq, h1, h2, alignParaWith_eq, join_trailing_eq p _ hsep _ (List.length_map _)]
  rfl

/-- **Justify**: the per-paragraph result is `JustifyOpts` (non-paragraph mode) of the paragraph -/
theorem justifyOpts_single (hs : cx.Sane) (hd : cx.dLineSep ≠ []) (width : Int) (o : Options α)
    (p : List α) :
    (Editor.root p (single o)).justifyOpts cx width (single o) =
      .ok (Editor.root (justifyParaWith (fun l => justified cx l width)
        (o.withDefaults cx).lineSep (o.withDefaults cx).justifyLast p) (single o)) := by
  obtain ⟨h1, h2, h3, h4⟩ := single_fields cx o
  have hsep := withDefaults_lineSep_ne_nil cx hd o
  rw [justifyParaWith_eq, join_trailing_eq p _ hsep _ (justifyLines_length _ _ _)]
  unfold justifyLines
  cases hjl : (o.withDefaults cx).justifyLast with
  | true =>
    rw [justifyOpts_all_sane cx hs _ width _ h3 (by rw [h4, hjl])]
    unfold trailing
    rw [inLines_eq, h1, h2]
    rfl
  | false =>
    rw [justifyOpts_notLast_closed_sane cx hs hd _ width _ h3 (by rw [h4, hjl])]
    unfold trailing
    rw [inLines_eq, h1, h2]
    rfl

/-- **Indent**: the per-paragraph result is `IndentOpts` (non-paragraph mode, same trailing
policy) of the paragraph — for every separator -/
theorem indentOpts_single (level : Int) (o : Options α) (hl : 1 ≤ level) (p : List α) :
    (Editor.root p { o with preservePara := false }).indentOpts cx level
        { o with preservePara := false } =
      .ok (Editor.root (indentPara (List.replicate level.toNat (o.withDefaults cx).indentStr).flatten
        (o.withDefaults cx).lineSep (o.withDefaults cx).noTrailing p)
        { o with preservePara := false }) := by
  obtain ⟨h1, h2, -, h4, h5, -⟩ := withDefaults_fields cx { o with preservePara := false }
  obtain ⟨g1, g2, -, g4, -⟩ := withDefaults_fields cx o
  have e1 : (({ o with preservePara := false } : Options α).withDefaults cx).lineSep =
      (o.withDefaults cx).lineSep := by rw [h1, g1]
  have e2 : (({ o with preservePara := false } : Options α).withDefaults cx).indentStr =
      (o.withDefaults cx).indentStr := by rw [h2, g2]
  have e4 : (({ o with preservePara := false } : Options α).withDefaults cx).noTrailing =
      (o.withDefaults cx).noTrailing := by rw [h4, g4]
  unfold Editor.indentOpts
  rw [if_neg (by omega)]
  dsimp only
  rw [repeatStr_of_nonneg _ _ (by omega), ok_bind, h5]
  simp only [Bool.false_eq_true, if_false]
  rw [applyOpts_map cx _ (_ ++ ·)]
  unfold trailing indentPara
  rw [inLines_eq, e1, e2, e4]
  rfl

/-- **Wrap**, given the wrapped lines of the paragraph (any context): the per-paragraph result is
`WrapOpts` (non-paragraph mode) of the paragraph.  No hypothesis on the line separator: neither
`sep ≠ []` nor `Unbordered sep` is needed, both sides use the same `isSuffixOf` test. -/
theorem wrapOpts_single_of_ok (width : Int) (o : Options α) (p : List α) (lines : List (List α))
    (hw : wrapLines cx p (max width 2) (o.withDefaults cx).lineSep = .ok lines) :
    (Editor.root p (single o)).wrapOpts cx width (single o) =
      .ok (Editor.root (wrapPara cx width (o.withDefaults cx).lineSep p) (single o)) := by
  obtain ⟨h1, -, h3, -⟩ := single_fields cx o
  rw [wrapOpts_structure cx (Editor.root p (single o)) width (single o) lines h3
      (by rw [h1]; exact hw), h1, wrapPara_eq cx width _ p lines hw]
  rfl

/-- **Wrap**: the per-paragraph result is `WrapOpts` (non-paragraph mode) of the paragraph — for
every line separator (`cx.Sane` only makes `wrapLines` total) -/
theorem wrapOpts_single (hs : cx.Sane) (width : Int) (o : Options α) (p : List α) :
    (Editor.root p (single o)).wrapOpts cx width (single o) =
      .ok (Editor.root (wrapPara cx width (o.withDefaults cx).lineSep p) (single o)) := by
  obtain ⟨lines, hw⟩ := wrapLines_total hs p (max width 2) (o.withDefaults cx).lineSep
  exact wrapOpts_single_of_ok cx width o p lines hw

/-- … and with the trailing-separator policy of `o` itself (`NoTrailingLineSep` plays no role in
Wrap), as in `indentOpts_single` -/
theorem wrapOpts_single' (hs : cx.Sane) (width : Int) (o : Options α) (p : List α) :
    (Editor.root p { o with preservePara := false }).wrapOpts cx width
        { o with preservePara := false } =
      .ok (Editor.root (wrapPara cx width (o.withDefaults cx).lineSep p)
        { o with preservePara := false }) := by
  obtain ⟨h1, -, -, -, h5, -⟩ := withDefaults_fields cx { o with preservePara := false }
  obtain ⟨g1, -⟩ := withDefaults_fields cx o
  have e1 : (({ o with preservePara := false } : Options α).withDefaults cx).lineSep =
      (o.withDefaults cx).lineSep := by rw [h1, g1]
  obtain ⟨lines, hw⟩ := wrapLines_total hs p (max width 2) (o.withDefaults cx).lineSep
  rw [wrapOpts_structure cx (Editor.root p { o with preservePara := false }) width
      { o with preservePara := false } lines h5 (by rw [e1]; exact hw), e1,
    wrapPara_eq cx width _ p lines hw]
  rfl

end link

/-! ## Wrap: paragraph mode IS the non-paragraph Wrap of the single paragraphs

With the default separators the text "a\n\n\nb" has the paragraphs "a\n" and "b" (the third "\n" is
handed back to the first paragraph by the ambiguity repair).  Non-paragraph Wrap of "a\n" keeps the
trailing line separator ("a\n"), and so does the paragraph callback: paragraph mode leaves
"a\n\n\nb" as it is, no line separator is lost. -/
theorem wrapPara_single_example :
    paragraphsOf [97, 0, 0, 0, 98] (({ preservePara := true } : Options Nat).withDefaults testCtx) =
      [[97, 0], [98]] ∧
    ((Editor.root [97, 0] {}).wrapOpts testCtx 5 (single { preservePara := true })).toOption.map
      Editor.text = some [97, 0] ∧
    wrapPara testCtx 5 [0] [97, 0] = [97, 0] ∧
    ((Editor.root [97, 0, 0, 0, 98] {}).wrapOpts testCtx 5 { preservePara := true }).toOption.map
      Editor.text = some [97, 0, 0, 0, 98] := by
  decide

/-- … the same through the theorems -/
example : (Editor.root [97, 0] (single { preservePara := true })).wrapOpts testCtx 5
      (single { preservePara := true }) =
    .ok (.root [97, 0] (single { preservePara := true })) := by
  rw [wrapOpts_single testCtx testCtx_sane 5 { preservePara := true } [97, 0]]
  congr 1
example : (Editor.root [97, 0, 0, 0, 98] ({} : Options Nat)).wrapOpts testCtx 5
      { preservePara := true } =
    .ok ((Editor.root [97, 0, 0, 0, 98] ({} : Options Nat)).withText [97, 0, 0, 0, 98]) := by
  rw [wrapOpts_para_sane testCtx testCtx_sane _ 5 { preservePara := true } (by decide) (by decide)]
  congr 2

/-! ## non-vacuity: three paragraphs, one empty, one whitespace-only

`testCtx` (LinesLemmas.lean): every atom is its own cluster, "\n" is `0`, the space is `32`, the
paragraph separator is "\n\n", the indent is `9`.  The text is "a b\nc d" ¶ "" ¶ "  ". -/

def exPara : Editor Nat := .root [97, 32, 98, 0, 99, 32, 100, 0, 0, 0, 0, 32, 32] {}
def exOpts : Options Nat := { preservePara := true }

example : AffixFree (exOpts.withDefaults testCtx) := by decide
example : AffixFree (exOpts.withDefaults testCtx) :=
  affixFree_of_double _ (by decide) (by decide)
example : paragraphsOf exPara.text (exOpts.withDefaults testCtx) =
    [[97, 32, 98, 0, 99, 32, 100], [], [32, 32]] := by decide
/-- a paragraph separator with visible affixes: "x\n\ny" -/
example : ¬ AffixFree (({ lineSep := [0], paraSep := [7, 0, 0, 8] } : Options Nat)) ∧
    ({ lineSep := [0], paraSep := [7, 0, 0, 8] } : Options Nat).prevSuffix = [7] ∧
    ({ lineSep := [0], paraSep := [7, 0, 0, 8] } : Options Nat).nextPrefix = [8] := by decide
/-- "\r\n" and "\r\n\r\n" (atoms 13, 10) -/
example : AffixFree ({ lineSep := [13, 10], paraSep := [13, 10, 13, 10] } : Options Nat) :=
  affixFree_of_prefix_suffix _ (by decide) (by decide) (by decide) (by decide)

/-- 1. Wrap (width 3): "a b\nc d" ¶ "" ¶ "" — the whitespace-only paragraph collapses to nothing,
both paragraph separators stay -/
example : exPara.wrapOpts testCtx 3 exOpts =
    .ok (exPara.withText [97, 32, 98, 0, 99, 32, 100, 0, 0, 0, 0]) := by
  rw [wrapOpts_para_sane testCtx testCtx_sane exPara 3 exOpts (by decide) (by decide)]
  congr 2
example : (paragraphsOf exPara.text (exOpts.withDefaults testCtx)).map (wrapPara testCtx 3 [0]) =
    [[97, 32, 98, 0, 99, 32, 100], [], []] := by decide

/-- 2. Justify (width 5), last line of every paragraph left alone -/
example : exPara.justifyOpts testCtx 5 exOpts =
    .ok (exPara.withText [97, 32, 32, 32, 98, 0, 99, 32, 100, 0, 0, 0, 0, 32, 32]) := by
  rw [justifyOpts_para_sane testCtx testCtx_sane exPara 5 exOpts (by decide) (by decide)]
  congr 2
/-- … and with `JustifyLastLine` -/
example : exPara.justifyOpts testCtx 5 { exOpts with justifyLast := true } =
    .ok (exPara.withText [97, 32, 32, 32, 98, 0, 99, 32, 32, 32, 100, 0, 0, 0, 0,
      32, 32, 32, 32, 32]) := by
  rw [justifyOpts_para_sane testCtx testCtx_sane exPara 5 _ (by decide) (by decide)]
  congr 2

/-- 3. Align (width 4): the empty paragraph has no line and stays empty, the whitespace-only one
is a line of its own -/
example : exPara.alignOpts testCtx Gen.alignLeft 4 exOpts =
    .ok (exPara.withText [97, 32, 98, 32, 0, 99, 32, 100, 32, 0, 0, 0, 0, 32, 32, 32, 32]) := by
  rw [alignOpts_para_left testCtx testCtx_sane exPara 4 exOpts (by decide) (by decide)]
  congr 2
example : exPara.alignOpts testCtx Gen.alignRight 4 exOpts =
    .ok (exPara.withText [32, 97, 32, 98, 0, 32, 99, 32, 100, 0, 0, 0, 0, 32, 32, 32, 32]) := by
  rw [alignOpts_para_right testCtx testCtx_sane exPara 4 exOpts (by decide) (by decide)]
  congr 2
example : exPara.alignOpts testCtx Gen.alignCenter 4 exOpts =
    .ok (exPara.withText [32, 97, 32, 98, 0, 32, 99, 32, 100, 0, 0, 0, 0, 32, 32, 32, 32]) := by
  rw [alignOpts_para_center testCtx testCtx_sane exPara 4 exOpts (by decide) (by decide)]
  congr 2
example : exPara.alignOpts testCtx Gen.alignNone 4 exOpts = .ok exPara :=
  alignOpts_none testCtx exPara _ 4 _ (.inl rfl)

/-- 4. Indent (level 2) -/
example : exPara.indentOpts testCtx 2 exOpts =
    .ok (exPara.withText [9, 9, 97, 32, 98, 0, 9, 9, 99, 32, 100, 0, 0, 0, 0, 9, 9, 32, 32]) := by
  rw [indentOpts_para testCtx exPara 2 exOpts (by decide) (by decide)]
  congr 2

/-- 5. the corollary applied -/
example : ∃ r rs, exPara.alignOpts testCtx Gen.alignLeft 4 exOpts = .ok r ∧
    r.text = joinWith [0, 0] rs ∧ rs.length = 3 := by
  obtain ⟨r, rs, h1, -, h3, -, -, h6, -⟩ := alignOpts_paragraphWise testCtx testCtx_sane exPara
    Gen.alignLeft 4 exOpts (.inl rfl) (by decide) (by decide)
  exact ⟨r, rs, h1, h3, h6.trans (by decide)⟩

/-- the single-paragraph link -/
example : (Editor.root [97, 32, 98, 0, 99, 32, 100] (single exOpts)).alignOpts testCtx
      Gen.alignLeft 4 (single exOpts) =
    .ok (.root [97, 32, 98, 32, 0, 99, 32, 100, 32] (single exOpts)) := by
  rw [alignOpts_single testCtx Gen.alignLeft 4 exOpts (.inl rfl) (by decide)]
  congr 1

/-- `AffixFree` cannot be dropped from the Wrap closed form: with the paragraph separator
"x\n\ny" the first paragraph "ab cd" is wrapped together with one placeholder for the visible
suffix "x"; at width 5 the placeholder no longer fits, so the paragraph is broken ("ab\ncd"),
while on its own it fits on one line -/
theorem wrap_needs_affixFree :
    let o : Options Nat := { preservePara := true, lineSep := [0], paraSep := [7, 0, 0, 8] }
    let ed : Editor Nat := .root [97, 98, 32, 99, 100, 7, 0, 0, 8, 101] {}
    ¬ AffixFree (o.withDefaults testCtx) ∧
    paragraphsOf ed.text (o.withDefaults testCtx) = [[97, 98, 32, 99, 100], [101]] ∧
    (paragraphsOf ed.text (o.withDefaults testCtx)).map (wrapPara testCtx 5 [0]) =
      [[97, 98, 32, 99, 100], [101]] ∧
    (ed.wrapOpts testCtx 5 o).toOption.map Editor.text =
      some [97, 98, 0, 99, 100, 7, 0, 0, 8, 101] := by
  decide

end ParaStructure
end RosedVerif
