/-
Regenerated-code equality theorems (see Model/GenCodeEq.lean for the overview): module `AffixPlaceholder` —
`affixPlaceholder` (operations.go): the stand-in Editor.WrapOpts and JustifyOpts pad paragraphs with.
The hand model's search (`Ctx.placeholder`, Model/Basic.lean) is pure (after `|sep|` tests it takes the next
candidate untested), the translated loop runs out of fuel instead; they agree in a context where the search ends
outside the separator (`Ctx.PhFresh`), which instance A is (`phFresh_cxA`: pigeonhole, Model/Placeholder.lean).
-/
import RosedVerif.Model.GenEq.Core
import RosedVerif.Model.GenEq.InstA
import RosedVerif.Model.Placeholder
set_option linter.unusedVariables false
set_option linter.unusedSectionVars false
set_option linter.unusedSimpArgs false
namespace RosedVerif.GenCodeEq
open RosedVerif

variable {α : Type} [DecidableEq α] (cx : Ctx α)

/-- the loop `for strings.ContainsRune(sep, c) { c++ }`: with one unit of fuel more than the hand
model's search has tests it returns what the search returns, provided that is outside `sep` -/
theorem whileM_phSearch (sep : List α) (cond : α → R Bool) (body : α → R α)
    (hc : ∀ c, cond c = pure (decide (c ∈ sep))) (hb : ∀ c, body c = pure (cx.phNext c)) :
    ∀ (n : Nat) (c : α), phSearch cx sep n c ∉ sep →
      Go.whileM (n + 1) cond body c = pure (phSearch cx sep n c) := by
  intro n
  induction n with
  | zero =>
    intro c hf
    simp only [phSearch] at hf
    simp only [Go.whileM, hc, pure_bind, hf, decide_false, Bool.false_eq_true, if_false, phSearch]
  | succ n ih =>
    intro c hf
    rw [Go.whileM, hc, pure_bind]
    by_cases hm : c ∈ sep
    · simp only [phSearch, hm, if_true] at hf ⊢
      simp only [decide_true, if_true, hb, pure_bind]
      exact ih _ hf
    · simp only [phSearch, hm, if_false, decide_false, Bool.false_eq_true]

/-- … at the fuel and the start value of affixPlaceholder, in a context where the search is known to
end outside the separator (`Ctx.PhFresh`; instance A: `phFresh_cxA`) -/
theorem whileM_placeholder (hph : cx.PhFresh) (sep : List α) (cond : α → R Bool) (body : α → R α)
    (hc : ∀ c, cond c = pure (decide (c ∈ sep))) (hb : ∀ c, body c = pure (cx.phNext c)) :
    Go.whileM (sep.length + 1) cond body cx.phA = pure (cx.placeholder sep) :=
  whileM_phSearch cx sep cond body hc hb sep.length cx.phA (hph sep)

theorem affixPlaceholder_regenerated (h : Gen.Code.affixPlaceholder_extracted = true) (hph : cx.PhFresh)
    (lineSep : List α) : Gen.Code.affixPlaceholder cx lineSep = pure (cx.placeholder lineSep) := by
  first
    | exact absurd h (by decide)
    | (unfold Gen.Code.affixPlaceholder
       go_norm
       -- condition and body restated over the model, loop = the model's search
       simp (disch := intro c; first | rfl | (go_norm; go_close)) only [whileM_placeholder cx hph, pure_bind])

/-- the hypothesis `PhFresh` holds at the real instance (pigeonhole, Model/Placeholder.lean) -/
theorem phFresh_cxA : cxA.PhFresh := _root_.RosedVerif.phFresh_cxA

theorem affixPlaceholder_cxA (h : Gen.Code.affixPlaceholder_extracted = true) (lineSep : List Int) :
    Gen.Code.affixPlaceholder cxA lineSep = pure (cxA.placeholder lineSep) :=
  affixPlaceholder_regenerated cxA h _root_.RosedVerif.phFresh_cxA lineSep

end RosedVerif.GenCodeEq
