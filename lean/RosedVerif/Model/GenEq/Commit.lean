/-
Regenerated-code equality theorems (see Model/GenCodeEq.lean for the overview): module `Commit`.
-/
import RosedVerif.Model.GenEq.Core
import RosedVerif.Model.GenEq.Options
set_option linter.unusedVariables false
set_option linter.unusedSectionVars false
set_option linter.unusedSimpArgs false
namespace RosedVerif.GenCodeEq
open RosedVerif

variable {α : Type} [DecidableEq α] (cx : Ctx α)

theorem editorCommit_regenerated (h : Gen.Code.editorCommit_extracted = true) (ed : Editor α) :
    Gen.Code.editorCommit cx ed = ed.commit cx := by
  first
    | exact absurd h (by decide)
    | (unfold Gen.Code.editorCommit
       simp only [editorIsSubEditor_regenerated cx (by decide), pure_bind]
       cases ed <;> simp [Editor.commit, Editor.isSub, Go.edRefParent, Go.edRefStart, Go.edRefEnd, Go.strSplice,
         Editor.text])

theorem depth_withText (e : Editor α) (t : List α) : (e.withText t).depth = e.depth := by
  cases e <;> rfl

theorem commit_depth (ed ed' : Editor α) (h : ed.commit cx = pure ed') (hs : ed.isSub = true) :
    ed'.depth + 1 = ed.depth := by
  cases ed with
  | root t o => cases hs
  | sub t o p a b =>
    simp only [Editor.commit] at h
    cases hsp : spliceBytes cx p.text a b t with
    | error e => rw [hsp] at h; cases h
    | ok r => rw [hsp] at h; cases h; simp [Editor.depth, depth_withText]

theorem commitAll_eq_while : ∀ (n : Nat) (ed : Editor α), ed.depth ≤ n →
    commitAllFuel cx n ed = Go.whileM (n + 1) (fun e => pure e.isSub) (fun e => e.commit cx) ed := by
  intro n
  induction n with
  | zero =>
    intro ed hd
    cases ed with
    | root t o => rfl
    | sub t o p a b => simp [Editor.depth] at hd
  | succ n ih =>
    intro ed hd
    unfold Go.whileM commitAllFuel
    simp only [pure_bind]
    cases hs : ed.isSub with
    | false => rfl
    | true =>
      simp only [if_true]
      cases hc : ed.commit cx with
      | error e => rfl
      | ok ed' =>
        have := commit_depth cx ed ed' hc hs
        exact ih ed' (by omega)

theorem editorCommitAll_regenerated (h : Gen.Code.editorCommitAll_extracted = true) (ed : Editor α) :
    Gen.Code.editorCommitAll cx ed = ed.commitAll cx := by
  first
    | exact absurd h (by decide)
    | (unfold Gen.Code.editorCommitAll Editor.commitAll
       rw [commitAll_eq_while cx _ _ (Nat.le_refl _)]
       simp only [editorCommit_regenerated cx (by decide), editorIsSubEditor_regenerated cx (by decide), bind_pure])

theorem editorString_regenerated (h : Gen.Code.editorString_extracted = true) (ed : Editor α) :
    Gen.Code.editorString cx ed = ed.string cx := by
  first
    | exact absurd h (by decide)
    | (unfold Gen.Code.editorString Editor.string
       simp only [editorIsSubEditor_regenerated cx (by decide), editorCommitAll_regenerated cx (by decide), pure_bind]
       cases ed with
       | root t o => rfl
       | sub t o p a b => simp [Editor.isSub])

end RosedVerif.GenCodeEq
