/-
Regenerated-code equality theorems (see Model/GenCodeEq.lean for the overview): module `WrapOpts`.
-/
import RosedVerif.Model.GenEq.Core
import RosedVerif.Model.GenEq.Options
import RosedVerif.Model.GenEq.Block
import RosedVerif.Model.GenEq.Wrap
import RosedVerif.Model.GenEq.Paras
import RosedVerif.Model.GenEq.InstA
import RosedVerif.Model.Placeholder
set_option linter.unusedVariables false
set_option linter.unusedSectionVars false
set_option linter.unusedSimpArgs false
namespace RosedVerif.GenCodeEq
open RosedVerif

variable {α : Type} [DecidableEq α] (cx : Ctx α)

/-- the loop `for strings.ContainsRune(sep, c) { c++ }`: with one unit of fuel more than the hand
model's search has tests it returns what the search returns, provided that is outside `sep` -/
theorem whileM_phSearch (sep : List α) (cond : α → R Bool) (body : α → R α)
    (hc : ∀ c, cond c = pure (decide (c ∈ sep))) (hb : ∀ c, body c = pure (cx.phNext c)) :
    ∀ (n : Nat) (c : α), phSearch cx sep n c ∉ sep →
      Go.whileM (n + 1) cond body c = pure (phSearch cx sep n c) := by
  intro n
  induction n with
  | zero =>
    intro c hf
    simp only [phSearch] at hf
    simp only [Go.whileM, hc, pure_bind, hf, decide_false, Bool.false_eq_true, if_false, phSearch]
  | succ n ih =>
    intro c hf
    rw [Go.whileM, hc, pure_bind]
    by_cases hm : c ∈ sep
    · simp only [phSearch, hm, if_true] at hf ⊢
      simp only [decide_true, if_true, hb, pure_bind]
      exact ih _ hf
    · simp only [phSearch, hm, if_false, decide_false, Bool.false_eq_true]

/-- … at the fuel and the start value of Editor.WrapOpts, in a context where the search is known to
end outside the separator (`Ctx.PhFresh`; instance A: `phFresh_cxA`) -/
theorem whileM_placeholder (hph : cx.PhFresh) (sep : List α) (cond : α → R Bool) (body : α → R α)
    (hc : ∀ c, cond c = pure (decide (c ∈ sep))) (hb : ∀ c, body c = pure (cx.phNext c)) :
    Go.whileM (sep.length + 1) cond body cx.phA = pure (cx.placeholder sep) :=
  whileM_phSearch cx sep cond body hc hb sep.length cx.phA (hph sep)

theorem editorWrapOpts_regenerated (h : Gen.Code.editorWrapOpts_extracted = true)
    (hd : DefaultsOk cx) (hpos : ∀ a, 0 < cx.blen a) (hph : cx.PhFresh) (ed : Editor α) (width : Int)
    (o : Options α) : Gen.Code.editorWrapOpts cx ed width o = ed.wrapOpts cx width o := by
  first
    | exact absurd h (by decide)
    | (unfold Gen.Code.editorWrapOpts Editor.wrapOpts
       simp only [optionsWithDefaults_regenerated cx (by decide), wrap_regenerated cx (by decide),
         blockJoin_regenerated cx (by decide), editorApplyGParagraphsOpts_regenerated cx (by decide) hd hpos]
       go_norm
       simp only [ite_pure, pure_bind, map_eq_pure_bind, bind_assoc]
       -- the placeholder loop: condition and body restated over the model, loop = the model's search
       simp (disch := intro c; first | rfl | (go_norm; go_close)) only [whileM_placeholder cx hph, pure_bind,
         Go.stringOfRune]
       split
       · simp only [bind_pure]
         all_goals
           (congr 1
            all_goals
              (funext i para pre suf
               simp only [Go.gsLen, Go.gsSub, Go.gsAdd, Go.gemRepeatStr, Go.stringsHasSuffix, Go.stringOfRune, ite_pure, pure_bind, bind_assoc,
                 map_eq_pure_bind, List.append_assoc]
               refine bind_congr (m := R) fun ls => ?_
               go_close))
       · refine bind_congr (m := R) fun ls => ?_
         go_close)

theorem editorWrap_regenerated (h : Gen.Code.editorWrap_extracted = true)
    (hd : DefaultsOk cx) (hpos : ∀ a, 0 < cx.blen a) (hph : cx.PhFresh) (ed : Editor α) (width : Int) :
    Gen.Code.editorWrap cx ed width = ed.wrapOpts cx width ed.opts := by
  first
    | exact absurd h (by decide)
    | (unfold Gen.Code.editorWrap
       simp only [editorWrapOpts_regenerated cx (by decide) hd hpos hph, bind_pure])

/-- the hypothesis `PhFresh` of `editorWrapOpts_regenerated` holds at the real instance (pigeonhole,
Model/Placeholder.lean) -/
theorem phFresh_cxA : cxA.PhFresh := _root_.RosedVerif.phFresh_cxA

theorem editorWrapOpts_cxA (h : Gen.Code.editorWrapOpts_extracted = true) (ed : Editor Int) (width : Int) (o : Options Int) :
    Gen.Code.editorWrapOpts cxA ed width o = ed.wrapOpts cxA width o :=
  editorWrapOpts_regenerated cxA h defaultsOk_cxA cxA_WF.2 _root_.RosedVerif.phFresh_cxA ed width o

end RosedVerif.GenCodeEq
