/-
Regenerated-code equality theorems (see Model/GenCodeEq.lean for the overview): module `WrapOpts`.
-/
import RosedVerif.Model.GenEq.Core
import RosedVerif.Model.GenEq.Options
import RosedVerif.Model.GenEq.Block
import RosedVerif.Model.GenEq.Wrap
import RosedVerif.Model.GenEq.Paras
import RosedVerif.Model.GenEq.InstA
import RosedVerif.Model.GenEq.AffixPlaceholder
set_option linter.unusedVariables false
set_option linter.unusedSectionVars false
set_option linter.unusedSimpArgs false
namespace RosedVerif.GenCodeEq
open RosedVerif

variable {α : Type} [DecidableEq α] (cx : Ctx α)

theorem editorWrapOpts_regenerated (h : Gen.Code.editorWrapOpts_extracted = true)
    (hd : DefaultsOk cx) (hpos : ∀ a, 0 < cx.blen a) (hph : cx.PhFresh) (ed : Editor α) (width : Int)
    (o : Options α) : Gen.Code.editorWrapOpts cx ed width o = ed.wrapOpts cx width o := by
  first
    | exact absurd h (by decide)
    | (unfold Gen.Code.editorWrapOpts Editor.wrapOpts
       simp only [optionsWithDefaults_regenerated cx (by decide), wrap_regenerated cx (by decide),
         blockJoin_regenerated cx (by decide), editorApplyGParagraphsOpts_regenerated cx (by decide) hd hpos]
       go_norm
       simp only [ite_pure, pure_bind, map_eq_pure_bind, bind_assoc]
       simp only [affixPlaceholder_regenerated cx (by decide) hph, pure_bind, Go.stringOfRune]
       split
       · simp only [bind_pure]
         all_goals
           (congr 1
            all_goals
              (funext i para pre suf
               simp only [Go.gsLen, Go.gsSub, Go.gsAdd, Go.gemRepeatStr, Go.stringsHasSuffix, Go.stringOfRune, ite_pure, pure_bind, bind_assoc,
                 map_eq_pure_bind, List.append_assoc]
               refine bind_congr (m := R) fun ls => ?_
               go_close))
       · refine bind_congr (m := R) fun ls => ?_
         go_close)

theorem editorWrap_regenerated (h : Gen.Code.editorWrap_extracted = true)
    (hd : DefaultsOk cx) (hpos : ∀ a, 0 < cx.blen a) (hph : cx.PhFresh) (ed : Editor α) (width : Int) :
    Gen.Code.editorWrap cx ed width = ed.wrapOpts cx width ed.opts := by
  first
    | exact absurd h (by decide)
    | (unfold Gen.Code.editorWrap
       simp only [editorWrapOpts_regenerated cx (by decide) hd hpos hph, bind_pure])

theorem editorWrapOpts_cxA (h : Gen.Code.editorWrapOpts_extracted = true) (ed : Editor Int) (width : Int) (o : Options Int) :
    Gen.Code.editorWrapOpts cxA ed width o = ed.wrapOpts cxA width o :=
  editorWrapOpts_regenerated cxA h defaultsOk_cxA cxA_WF.2 _root_.RosedVerif.phFresh_cxA ed width o

end RosedVerif.GenCodeEq
