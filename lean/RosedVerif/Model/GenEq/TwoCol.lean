/-
Regenerated-code equality theorems (see Model/GenCodeEq.lean for the overview): module `TwoCol` —
Editor.InsertTwoColumnsOpts, Editor.InsertTwoColumns.
-/
import RosedVerif.Model.GenEq.Core
import RosedVerif.Model.GenEq.ColumnsCore
import RosedVerif.Model.GenEq.Options
import RosedVerif.Model.GenEq.Block
import RosedVerif.Model.GenEq.Wrap
import RosedVerif.Model.GenEq.Combine
import RosedVerif.Model.GenEq.Edit
import RosedVerif.Model.InstAFacts
set_option linter.unusedVariables false
set_option linter.unusedSectionVars false
set_option linter.unusedSimpArgs false
namespace RosedVerif.GenCodeEq
open RosedVerif

variable {α : Type} [DecidableEq α] (cx : Ctx α)

/-! the float primitives on the values the function uses -/

/-- `p <= 0.0` -/
theorem f64Le_zero (p : Pct) : Go.f64Le p (Pct.mk false 0 0) ↔ (p.neg = true ∨ p.num = 0) := by
  obtain ⟨neg, num, exp⟩ := p
  cases neg <;> simp [Go.f64Le, Go.f64Num] <;> omega

/-- `p < 0.0` -/
theorem f64Lt_zero (p : Pct) : Go.f64Lt p (Pct.mk false 0 0) ↔ (p.neg = true ∧ p.num ≠ 0) := by
  obtain ⟨neg, num, exp⟩ := p
  cases neg <;> simp [Go.f64Lt, Go.f64Num] <;> omega

/-- `p > 1.0` -/
theorem f64Lt_one (p : Pct) : Go.f64Lt (Pct.mk false 1 0) p ↔ (p.neg = false ∧ p.num > 2 ^ p.exp) := by
  obtain ⟨neg, num, exp⟩ := p
  have hpos : (0 : Int) < (2 : Int) ^ exp := Int.pow_pos (by decide)
  have hc : ((2 ^ exp : Nat) : Int) = (2 : Int) ^ exp := by simp
  cases neg
  · simp only [Go.f64Lt, Go.f64Num, Bool.false_eq_true, if_false, Int.pow_zero, Int.mul_one, true_and]
    constructor <;> intro h <;> omega
  · simp only [Go.f64Lt, Go.f64Num, if_true, Bool.false_eq_true, if_false, Int.pow_zero, Int.mul_one, false_and,
      iff_false, Bool.true_eq_false]
    omega

theorem mulRoundTrunc_zero (n e : Nat) : mulRoundTrunc n 0 e = 0 := by simp [mulRoundTrunc]

/-- `int(float64(n) * p)` for `n ≥ 0` and a non-negative `p` -/
theorem f64MulTrunc_nonneg (n : Int) (p : Pct) (hn : 0 ≤ n) (hp : p.neg = false ∨ p.num = 0) :
    Go.f64MulTrunc n p = (mulRoundTrunc n.toNat p.num p.exp : Int) := by
  have e : n.natAbs = n.toNat := by omega
  unfold Go.f64MulTrunc
  rcases hp with hp | hp
  · have : decide (n < 0) = false := by simp; omega
    simp [this, hp, e]
  · simp [hp, mulRoundTrunc_zero]

/-- needs `cx.WF` for `Editor.Insert` (as `editorInsert_regenerated`) -/
theorem editorInsertTwoColumnsOpts_regenerated (h : Gen.Code.editorInsertTwoColumnsOpts_extracted = true)
    (hwf : cx.WF) (ed : Editor α) (pos : Int) (l r : List α) (gap width : Int) (pct : Pct) (o : Options α) :
    Gen.Code.editorInsertTwoColumnsOpts cx ed pos l r gap width pct o =
      ed.insertTwoColumnsOpts cx pos l r gap width pct o := by
  first
    | exact absurd h (by decide)
    | (unfold Gen.Code.editorInsertTwoColumnsOpts Editor.insertTwoColumnsOpts
       simp only [optionsWithDefaults_regenerated cx (by decide), wrap_regenerated cx (by decide),
         blockLine_regenerated cx (by decide), combineColumnBlocks_regenerated cx (by decide),
         blockJoin_regenerated cx (by decide), editorInsert_regenerated cx (by decide) hwf]
       go_norm
       simp only [ite_pure, pure_bind, map_eq_pure_bind, bind_assoc]
       -- the float part: whatever the source feeds into `int(float64(n) * p)` equals the model's clamped product
       generalize hX : Go.f64MulTrunc _ _ = X
       generalize hY : ((mulRoundTrunc _ _ _ : Nat) : Int) = Y
       have hXY : X = Y := by
         rw [← hX, ← hY]
         simp only [f64Le_zero, f64Lt_zero, f64Lt_one, beq_iff_eq]
         repeat' split
         all_goals first
           | omega
           | (exfalso; simp_all; done)
           | (rw [f64MulTrunc_nonneg _ _ (by omega) (by cases hneg : pct.neg <;> simp_all)]
              try ((cases hneg : pct.neg <;> simp_all [mulRoundTrunc_zero]); done))
       subst hXY
       clear hX hY
       -- integer arithmetic, the two wraps, the maximum loop, the combination
       split
       · rfl
       · refine ite_congr3 ?_ rfl ?_
         · num_close
         · refine bind_congr2 ?_ fun ls => ?_
           · (congr 1) <;> num_close
           · refine bind_congr2 ?_ fun rs => ?_
             · (congr 1) <;> num_close
             · refine Eq.trans (whileM_bind_congr (cond' := cc1Cond ⟨ls, [], false⟩) (body' := cc1Body cx ⟨ls, [], false⟩)
                 rfl rfl ?_ ?_ (fun _ => rfl)) ?_
               · intro s; rfl
               · intro s; simp only [cc1Body, Block.line, ite_pure, pure_bind]
               · have k1 := cc1_while cx ⟨ls, [], false⟩ (ls.length + 1) 0 0 (by simp) (by simp)
                 simp only [Int.natCast_zero, List.drop_zero] at k1
                 rw [k1]
                 try simp only [pure_bind]
                 first
                   | done
                   | (refine bind_congr2 ?_ fun c => rfl
                      (congr 1) <;> num_close))

theorem editorInsertTwoColumns_regenerated (h : Gen.Code.editorInsertTwoColumns_extracted = true)
    (hwf : cx.WF) (ed : Editor α) (pos : Int) (l r : List α) (gap width : Int) (pct : Pct) :
    Gen.Code.editorInsertTwoColumns cx ed pos l r gap width pct =
      ed.insertTwoColumnsOpts cx pos l r gap width pct ed.opts := by
  first
    | exact absurd h (by decide)
    | (unfold Gen.Code.editorInsertTwoColumns
       simp only [editorInsertTwoColumnsOpts_regenerated cx (by decide) hwf, bind_pure])

theorem editorInsertTwoColumnsOpts_cxA (h : Gen.Code.editorInsertTwoColumnsOpts_extracted = true) (ed : Editor Int)
    (pos : Int) (l r : List Int) (gap width : Int) (pct : Pct) (o : Options Int) :
    Gen.Code.editorInsertTwoColumnsOpts cxA ed pos l r gap width pct o =
      ed.insertTwoColumnsOpts cxA pos l r gap width pct o :=
  editorInsertTwoColumnsOpts_regenerated cxA h cxA_WF ed pos l r gap width pct o

theorem editorInsertTwoColumns_cxA (h : Gen.Code.editorInsertTwoColumns_extracted = true) (ed : Editor Int)
    (pos : Int) (l r : List Int) (gap width : Int) (pct : Pct) :
    Gen.Code.editorInsertTwoColumns cxA ed pos l r gap width pct =
      ed.insertTwoColumnsOpts cxA pos l r gap width pct ed.opts :=
  editorInsertTwoColumns_regenerated cxA h cxA_WF ed pos l r gap width pct

end RosedVerif.GenCodeEq
