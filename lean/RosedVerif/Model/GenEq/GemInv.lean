/-
Regenerated-code equality theorems for package internal/gem (pointer level): module `GemInv` — the hypotheses of
the `gem*_regenerated` theorems (`CellAlloc`, `GemOK`: the receiver's cell is allocated and, if filled, holds a
partition of the runes) hold in every reachable state: corollaries under the pool invariant `H.Inv` of C19
and for the state reached by any history.
-/
import RosedVerif.Model.GenEq.GemOps
import RosedVerif.Heap.Histories
set_option linter.unusedVariables false
set_option linter.unusedSectionVars false
set_option linter.unusedSimpArgs false
namespace RosedVerif.GenCodeEq
open RosedVerif RosedVerif.H RosedVerif.HGo

/-! ### the hypotheses hold in every reachable state: corollaries under the pool invariant `H.Inv` (C19) -/

theorem gemOK_of_cellOK {h : Heap} {s : GStr} (ok : CellOK h s) : GemOK h s := by
  refine ⟨fun c hc => ?_, fun c e hc he => ?_⟩
  · exact ((cellOK_some hc).1 ok).1
  · rcases ((cellOK_some hc).1 ok).2 with h0 | h1
    · rw [h0] at he; cases he
    · rw [h1] at he; cases he; exact part_splitRunes _

theorem gemOK_of_inv {h : Heap} {pool : List GStr} {v : GStr} (hi : Inv h pool) (hv : v ∈ zero :: pool) : GemOK h v :=
  gemOK_of_cellOK (hi.ok' hv)

theorem gemLen_inv (hx : Gen.GemCode.gemLen_extracted = true) {h : Heap} {pool : List GStr} {v : GStr} (hi : Inv h pool)
    (hv : v ∈ zero :: pool) : Gen.GemCode.gemLen v h = okM (H.len v) Int.ofNat h :=
  gemLen_regenerated hx v h (gemOK_of_inv hi hv).1

theorem gemCharAt_inv (hx : Gen.GemCode.gemCharAt_extracted = true) {h : Heap} {pool : List GStr} {v : GStr} (i : Int)
    (hi : Inv h pool) (hv : v ∈ zero :: pool) : Gen.GemCode.gemCharAt v i h = H.charAt v i h :=
  gemCharAt_regenerated hx v i h (gemOK_of_inv hi hv)

theorem gemGraphemeIndexes_inv (hx : Gen.GemCode.gemGraphemeIndexes_extracted = true) {h : Heap} {pool : List GStr} {v : GStr}
    (hi : Inv h pool) (hv : v ∈ zero :: pool) :
    Gen.GemCode.gemGraphemeIndexes v h = okM (H.graphemeIndexes v) (gemSpans 0) h :=
  gemGraphemeIndexes_regenerated hx v h (gemOK_of_inv hi hv).1

theorem gemSub_inv (hx : Gen.GemCode.gemSub_extracted = true) {h : Heap} {pool : List GStr} {v : GStr} (st en : Int)
    (hi : Inv h pool) (hv : v ∈ zero :: pool) : Gen.GemCode.gemSub v st en h = okM (H.sub v st en) id h :=
  gemSub_regenerated hx v st en h (gemOK_of_inv hi hv)

theorem gemSetCharAt_inv (hx : Gen.GemCode.gemSetCharAt_extracted = true) {h : Heap} {pool : List GStr} {v : GStr} (i : Int)
    (r : List Int) (hi : Inv h pool) (hv : v ∈ zero :: pool) : Gen.GemCode.gemSetCharAt v i r h = H.setCharAt v i r h :=
  gemSetCharAt_regenerated hx v i r h (gemOK_of_inv hi hv)

theorem gemIndexFunc_inv (hx : Gen.GemCode.gemIndexFunc_extracted = true) {h : Heap} {pool : List GStr} {v : GStr}
    (f : List Int → Bool) (hi : Inv h pool) (hv : v ∈ zero :: pool) :
    Gen.GemCode.gemIndexFunc v f h = okM (H.indexFunc f v) id h :=
  gemIndexFunc_regenerated hx v f h (gemOK_of_inv hi hv)

/-- in particular in the state reached by any history of operations (`H.run`, Heap/Histories.lean) -/
theorem gemOK_histories (ops : List H.Op) : ∀ v ∈ zero :: (H.run ops).2, GemOK (H.run ops).1 v :=
  fun v hv => gemOK_of_inv (H.histories_inv ops) hv
end RosedVerif.GenCodeEq
