/-
Regenerated-code equality theorems (see Model/GenCodeEq.lean for the overview): module `Apply`.
-/
import RosedVerif.Model.GenEq.Core
import RosedVerif.Model.GenEq.Options
import RosedVerif.Model.GenEq.Lines
set_option linter.unusedVariables false
set_option linter.unusedSectionVars false
set_option linter.unusedSimpArgs false
namespace RosedVerif.GenCodeEq
open RosedVerif

variable {α : Type} [DecidableEq α] (cx : Ctx α)

/-- monadic map with an `int` index starting at `k` -/
def mapIdxFrom {β γ : Type} (g : Int → β → R γ) : Int → List β → R (List γ)
  | _, [] => pure []
  | k, x :: xs => g k x >>= fun y => mapIdxFrom g (k + 1) xs >>= fun ys => pure (y :: ys)

theorem forRange_flatten {β γ : Type} (g : Int → β → R (List γ)) : ∀ (xs : List β) (k : Int) (acc : List γ),
    Go.forRangeAux (fun i x acc => g i x >>= fun nl => pure (acc ++ nl)) k xs acc =
      mapIdxFrom g k xs >>= fun outs => pure (acc ++ outs.flatten) := by
  intro xs
  induction xs with
  | nil => intro k acc; simp [Go.forRangeAux, mapIdxFrom]
  | cons x xs ih =>
    intro k acc
    simp only [Go.forRangeAux, mapIdxFrom, bind_assoc, pure_bind]
    refine bind_congr (m := R) fun y => ?_
    rw [ih]
    simp [List.append_assoc]

theorem mapM_range_getD {β γ : Type} (g : Int → β → R γ) (d : β) : ∀ (xs p : List β),
    (List.range' p.length xs.length).mapM (fun (i : Nat) => g (i : Int) ((p ++ xs).getD i d)) = mapIdxFrom g (p.length : Int) xs := by
  intro xs
  induction xs with
  | nil => intro p; simp [mapIdxFrom]
  | cons x xs ih =>
    intro p
    simp only [List.length_cons, List.range'_succ, List.mapM_cons, mapIdxFrom]
    have h1 : (p ++ x :: xs).getD p.length d = x := by simp [List.getD_eq_getElem?_getD]
    rw [h1]
    refine bind_congr (m := R) fun y => ?_
    have := ih (p ++ [x])
    simp only [List.length_append, List.length_cons, List.length_nil, List.append_assoc, List.cons_append,
      List.nil_append, Nat.zero_add] at this
    rw [this]
    simp [Int.natCast_add]

/-- Go's callback takes an `int` index and may panic: `applyOptsM` with the index cast -/
theorem editorApplyOpts_regenerated (h : Gen.Code.editorApplyOpts_extracted = true) (ed : Editor α)
    (op : Int → List α → R (List (List α))) (o : Options α) :
    Gen.Code.editorApplyOpts cx ed op o = ed.applyOptsM cx (fun i l => op (i : Int) l) o := by
  first
    | exact absurd h (by decide)
    | (unfold Gen.Code.editorApplyOpts Editor.applyOptsM
       simp only [optionsWithDefaults_regenerated cx (by decide), editorLinesSep_regenerated cx (by decide),
         editorWithOptions_regenerated cx (by decide), pure_bind]
       go_norm
       simp only [Go.forRangeM, ite_pure]
       have hb : (fun (v_idx : Int) (v_line : List α) (v_applied : List (List α)) =>
            op v_idx v_line >>= fun t3 => (pure (if t3 ≠ [] then v_applied ++ t3 else v_applied) : R _)) =
           (fun i x acc => op i x >>= fun nl => pure (acc ++ nl)) := by
         funext i x acc
         refine bind_congr (m := R) fun nl => ?_
         split <;> simp_all
       rw [hb, forRange_flatten]
       have hm := mapM_range_getD (fun i l => op i l) ([] : List α)
         ((ed.withOpts (o.withDefaults cx)).linesSep (o.withDefaults cx).lineSep) []
       simp only [List.length_nil, List.nil_append, Int.natCast_zero, ← List.range_eq_range'] at hm
       rw [hm]
       simp only [bind_assoc, pure_bind, List.nil_append]
       first
         | (refine bind_congr (m := R) fun outs => ?_
            go_close)
         | -- the variant with a fast path for a single line: `applied = op(0, lines[0])`
           (generalize (ed.withOpts (o.withDefaults cx)).linesSep (o.withDefaults cx).lineSep = L
            have hfast : (if ((L.length : Nat) : Int) = 1 then
                  (Go.idx L 0 >>= fun t4 => op 0 t4 >>= fun t5 => (pure t5 : R _))
                else (mapIdxFrom op 0 L >>= fun outs => (pure outs.flatten : R _))) =
                (mapIdxFrom op 0 L >>= fun outs => (pure outs.flatten : R _)) := by
              split
              · rename_i h1
                match L, h1 with
                | [l], _ => simp [Go.idx, mapIdxFrom]
              · rfl
            rw [hfast]
            simp only [bind_assoc, pure_bind]
            refine bind_congr (m := R) fun outs => ?_
            go_close))

theorem editorApply_regenerated (h : Gen.Code.editorApply_extracted = true) (ed : Editor α)
    (op : Int → List α → R (List (List α))) :
    Gen.Code.editorApply cx ed op = ed.applyOptsM cx (fun i l => op (i : Int) l) ed.opts := by
  first
    | exact absurd h (by decide)
    | (unfold Gen.Code.editorApply
       simp only [editorApplyOpts_regenerated cx (by decide), bind_pure])

end RosedVerif.GenCodeEq
