/-
Regenerated-code equality theorems (see Model/GenCodeEq.lean for the overview): module `JustifyOpts`.
-/
import RosedVerif.Model.GenEq.Core
import RosedVerif.Model.GenEq.Options
import RosedVerif.Model.GenEq.Block
import RosedVerif.Model.GenEq.ApplyLines
import RosedVerif.Model.GenEq.Justify
import RosedVerif.Model.GenEq.Lines
import RosedVerif.Model.GenEq.Commit
import RosedVerif.Model.GenEq.Apply
import RosedVerif.Model.GenEq.Paras
import RosedVerif.Model.GenEq.InstA
import RosedVerif.Model.GenEq.AffixPlaceholder
set_option linter.unusedVariables false
set_option linter.unusedSectionVars false
set_option linter.unusedSimpArgs false
namespace RosedVerif.GenCodeEq
open RosedVerif

variable {α : Type} [DecidableEq α] (cx : Ctx α)

theorem editorJustifyOpts_regenerated (h : Gen.Code.editorJustifyOpts_extracted = true)
    (hd : DefaultsOk cx) (hpos : ∀ a, 0 < cx.blen a) (hph : cx.PhFresh) (ed : Editor α) (width : Int)
    (o : Options α) : Gen.Code.editorJustifyOpts cx ed width o = ed.justifyOpts cx width o := by
  first
    | exact absurd h (by decide)
    | (unfold Gen.Code.editorJustifyOpts Editor.justifyOpts
       simp only [optionsWithDefaults_regenerated cx (by decide), justifyLine_regenerated cx (by decide),
         blockJoin_regenerated cx (by decide), blockNew_regenerated cx (by decide), blockLen_regenerated cx (by decide),
         blockApply_regenerated cx (by decide),
         editorApplyGParagraphsOpts_regenerated cx (by decide) hd hpos, editorApplyOpts_regenerated cx (by decide),
         editorWithOptions_regenerated cx (by decide), editorLinesTo_regenerated cx (by decide) hpos,
         editorCommit_regenerated cx (by decide), affixPlaceholder_regenerated cx (by decide) hph]
       go_norm
       simp only [Go.stringOfRune]
       generalize o.withDefaults cx = od
       cases hpp : od.preservePara
       all_goals
         (simp only [hpp, Bool.false_eq_true, Bool.true_eq_false, if_true, if_false, ↓reduceIte, bind_pure]
          first
            | -- paragraph mode
              (congr 1
               funext i para pre suf
               simp only [Block.mapLinesM, bind_assoc, pure_bind]
               generalize Block.new _ od.lineSep = bl
               refine mapM_singletons_bind_congr _ _ _ _ _ ?_ ?_
               · intro i hi
                 go_close
               · intro ys
                 simp only [flatten_map_singleton]
                 go_close)
            | go_close))

theorem editorJustify_regenerated (h : Gen.Code.editorJustify_extracted = true)
    (hd : DefaultsOk cx) (hpos : ∀ a, 0 < cx.blen a) (hph : cx.PhFresh) (ed : Editor α) (width : Int) :
    Gen.Code.editorJustify cx ed width = ed.justifyOpts cx width ed.opts := by
  first
    | exact absurd h (by decide)
    | (unfold Gen.Code.editorJustify
       simp only [editorJustifyOpts_regenerated cx (by decide) hd hpos hph, bind_pure])

theorem editorJustifyOpts_cxA (h : Gen.Code.editorJustifyOpts_extracted = true) (ed : Editor Int) (width : Int) (o : Options Int) :
    Gen.Code.editorJustifyOpts cxA ed width o = ed.justifyOpts cxA width o :=
  editorJustifyOpts_regenerated cxA h defaultsOk_cxA cxA_WF.2 _root_.RosedVerif.phFresh_cxA ed width o

theorem editorJustify_cxA (h : Gen.Code.editorJustify_extracted = true) (ed : Editor Int) (width : Int) :
    Gen.Code.editorJustify cxA ed width = ed.justifyOpts cxA width ed.opts :=
  editorJustify_regenerated cxA h defaultsOk_cxA cxA_WF.2 _root_.RosedVerif.phFresh_cxA ed width

end RosedVerif.GenCodeEq
