/-
Regenerated-code equality theorems (see Model/GenCodeEq.lean for the overview): module `Lines`.
-/
import RosedVerif.Model.GenEq.Core
import RosedVerif.Model.GenEq.Options
import RosedVerif.Model.GenEq.Chars
import RosedVerif.Model.InstAFacts
set_option linter.unusedVariables false
set_option linter.unusedSectionVars false
set_option linter.unusedSimpArgs false
namespace RosedVerif.GenCodeEq
open RosedVerif

variable {α : Type} [DecidableEq α] (cx : Ctx α)

theorem editorLinesSep_regenerated (h : Gen.Code.editorLinesSep_extracted = true) (ed : Editor α) (sep : List α) :
    Gen.Code.editorLinesSep cx ed sep = pure (ed.linesSep sep) := by
  first
    | exact absurd h (by decide)
    | (unfold Gen.Code.editorLinesSep Editor.linesSep
       go_norm
       by_cases hl : splitOn ed.text sep = []
       · simp [hl]
       · simp only [idx_last _ hl, sliceTo_dropLast _ hl]
         go_norm
         simp [hl, List.getLast?_eq_some_getLast hl]
         go_close)

theorem editorLines_regenerated (h : Gen.Code.editorLines_extracted = true) (ed : Editor α) :
    Gen.Code.editorLines cx ed = pure (ed.lines cx) := by
  first
    | exact absurd h (by decide)
    | (unfold Gen.Code.editorLines Editor.lines
       simp only [optionsWithDefaults_regenerated cx (by decide), editorLinesSep_regenerated cx (by decide)]
       go_norm)

theorem editorLineCount_regenerated (h : Gen.Code.editorLineCount_extracted = true) (ed : Editor α) :
    Gen.Code.editorLineCount cx ed = pure (ed.lineCount cx : Int) := by
  first
    | exact absurd h (by decide)
    | (unfold Gen.Code.editorLineCount Editor.lineCount
       simp only [editorLines_regenerated cx (by decide)]
       go_norm)

/-- the separator-skipping loops of `Lines` (state: byte offset, line index); `retv` is what the loop returns
when no further separator is found -/
def lsCond (T : Int) (s : Int × Int) : R Bool := pure (decide (s.2 ≠ T))

def lsBody (text sep : List α) (retv : R (Editor α)) (s : Int × Int) : R ((Int × Int) × Go.Ctl (Editor α)) :=
  byteSlice cx text s.1 (byteLen cx text) >>= fun t =>
    if Go.stringsIndex cx t sep = -1 then retv >>= fun r => pure (s, Go.Ctl.ret r)
    else pure ((s.1 + (Go.stringsIndex cx t sep + ((byteLen cx sep : Nat) : Int)), s.2 + 1), Go.Ctl.next)

theorem byteSlice_drop (hpos : ∀ a, 0 < cx.blen a) (text : List α) (pos : Nat) (hp : pos ≤ text.length) :
    byteSlice cx text ((byteOff cx text pos : Nat) : Int) ((byteLen cx text : Nat) : Int) = pure (text.drop pos) := by
  have := byteSlice_take_drop (cx := cx) hpos text pos text.length hp (Nat.le_refl _)
  rw [List.take_length] at this
  rw [byteOff, this, List.take_of_length_le (by simp)]
  rfl

theorem byteOff_step (text sep : List α) (pos i : Nat) (hp : pos ≤ text.length)
    (hs : text.drop pos = (text.drop pos).take i ++ sep ++ (text.drop pos).drop (i + sep.length))
    (hle : i + sep.length ≤ (text.drop pos).length) :
    byteOff cx text (pos + i + sep.length) =
      byteOff cx text pos + byteLen cx ((text.drop pos).take i) + byteLen cx sep := by
  have hlen : (text.drop pos).length = text.length - pos := List.length_drop
  have hi : i ≤ (text.drop pos).length := by omega
  have hX : text = (text.take pos ++ (text.drop pos).take i ++ sep) ++ (text.drop pos).drop (i + sep.length) := by
    conv => lhs; rw [← List.take_append_drop pos text, hs]
    simp [List.append_assoc]
  have hXl : (text.take pos ++ (text.drop pos).take i ++ sep).length = pos + i + sep.length := by
    simp [List.length_take, List.length_append]; omega
  unfold byteOff
  conv => lhs; rw [hX, List.take_left' hXl]
  rw [byteLen_append, byteLen_append]

theorem ls_loop {γ : Type} (hpos : ∀ a, 0 < cx.blen a) (text sep : List α) (retv : R (Editor α))
    (K : (Int × Int) × Option (Editor α) → R γ) (hK : ∀ s s' v, K (s, some v) = K (s', some v)) :
    ∀ (n fuel pos : Nat) (k : Int), pos ≤ text.length → n + 1 ≤ fuel →
      Go.whileCtlM fuel (lsCond (k + n)) (lsBody cx text sep retv) (((byteOff cx text pos : Nat) : Int), k) >>= K =
        match skipSeps text sep n pos with
        | none => retv >>= fun r => K ((0, 0), some r)
        | some p => K ((((byteOff cx text p : Nat) : Int), k + n), none) := by
  intro n
  induction n with
  | zero =>
    intro fuel pos k hp hf
    cases fuel with
    | zero => omega
    | succ f => simp [Go.whileCtlM, lsCond, skipSeps]
  | succ n ih =>
    intro fuel pos k hp hf
    cases fuel with
    | zero => omega
    | succ f =>
      have hne : k ≠ k + ((n + 1 : Nat) : Int) := by omega
      simp only [Go.whileCtlM, lsCond, pure_bind, hne, ne_eq, not_false_eq_true, decide_true, if_true, lsBody,
        byteSlice_drop cx hpos text pos hp, skipSeps, Go.stringsIndex]
      have hcases : indexOf sep (text.drop pos) = none ∨ ∃ i, indexOf sep (text.drop pos) = some i := by
        cases indexOf sep (text.drop pos) with
        | none => exact Or.inl rfl
        | some i => exact Or.inr ⟨i, rfl⟩
      rcases hcases with hio | ⟨i, hio⟩
      · simp only [hio, if_true, bind_assoc, pure_bind]
        refine bind_congr (m := R) fun r => ?_
        exact hK _ _ _
      · simp only [hio]
        obtain ⟨hs, hle⟩ := indexOf_some_spec sep (text.drop pos) i hio
        have hn1 : ¬ (((byteLen cx ((text.drop pos).take i) : Nat) : Int) = -1) := by omega
        simp only [hn1, if_false, pure_bind]
        have hlen : (text.drop pos).length = text.length - pos := List.length_drop
        have hstep := byteOff_step cx text sep pos i hp hs hle
        have e1 : ((byteOff cx text pos : Nat) : Int) + (((byteLen cx ((text.drop pos).take i) : Nat) : Int) + ((byteLen cx sep : Nat) : Int)) =
            ((byteOff cx text (pos + i + sep.length) : Nat) : Int) := by omega
        have e2 : k + ((n + 1 : Nat) : Int) = (k + 1) + (n : Int) := by omega
        rw [e1, e2]
        exact ih f (pos + i + sep.length) (k + 1) (by omega) (by omega)

theorem ls_loop' {γ : Type} (hpos : ∀ a, 0 < cx.blen a) (text sep : List α) (retv : R (Editor α))
    (K : (Int × Int) × Option (Editor α) → R γ) (hK : ∀ s s' v, K (s, some v) = K (s', some v))
    (n fuel pos : Nat) (k T b0 : Int) (hT : T = k + n) (hb0 : b0 = ((byteOff cx text pos : Nat) : Int))
    (hp : pos ≤ text.length) (hf : n + 1 ≤ fuel) :
    Go.whileCtlM fuel (lsCond T) (lsBody cx text sep retv) (b0, k) >>= K =
      match skipSeps text sep n pos with
      | none => retv >>= fun r => K ((0, 0), some r)
      | some p => K ((((byteOff cx text p : Nat) : Int), T), none) := by
  subst hT hb0
  exact ls_loop cx hpos text sep retv K hK n fuel pos k hp hf

theorem skipSeps_le (text sep : List α) : ∀ (n pos p : Nat), pos ≤ text.length → skipSeps text sep n pos = some p →
    p ≤ text.length := by
  intro n
  induction n with
  | zero => intro pos p hp h; simp [skipSeps] at h; omega
  | succ n ih =>
    intro pos p hp h
    simp only [skipSeps] at h
    have hcases : indexOf sep (text.drop pos) = none ∨ ∃ i, indexOf sep (text.drop pos) = some i := by
      cases indexOf sep (text.drop pos) with
      | none => exact Or.inl rfl
      | some i => exact Or.inr ⟨i, rfl⟩
    rcases hcases with hio | ⟨i, hio⟩
    · simp [hio] at h
    · simp only [hio] at h
      have hle := (indexOf_some_spec sep (text.drop pos) i hio).2
      have hlen : (text.drop pos).length = text.length - pos := List.length_drop
      exact ih (pos + i + sep.length) p (by omega) h

/-- Needs every atom to have a positive byte length (the loops walk byte offsets, the hand model atoms) -/
theorem editorLinesSel_regenerated (h : Gen.Code.editorLinesSel_extracted = true) (hpos : ∀ a, 0 < cx.blen a)
    (ed : Editor α) (s e : Int) :
    Gen.Code.editorLinesSel cx ed s e = ed.linesSel cx s e := by
  first
    | exact absurd h (by decide)
    | (unfold Gen.Code.editorLinesSel Editor.linesSel
       simp only [editorLineCount_regenerated cx (by decide), optionsWithDefaults_regenerated cx (by decide),
         editorSubEd_regenerated cx (by decide),
         ite_pure_bind, pure_bind, Go.strLen, Go.strSlice, List.isEmpty_iff, beq_iff_eq]
       split
       · rfl
       · generalize hst : (if s = Gen.endSentinel then ((ed.lineCount cx : Nat) : Int) else s) = s'
         generalize hen : (if e = Gen.endSentinel then ((ed.lineCount cx : Nat) : Int) else e) = e'
         have hb := rangeToIndexes_bounds ((ed.lineCount cx : Nat) : Int) s' e' (Int.natCast_nonneg _)
         generalize hri : rangeToIndexes ((ed.lineCount cx : Nat) : Int) s' e' = r at hb ⊢
         obtain ⟨st, en⟩ := r
         simp only [] at hb ⊢
         split
         · rfl
         · rename_i hne hlt
           obtain ⟨stN, rfl⟩ : ∃ k : Nat, st = k := ⟨st.toNat, by omega⟩
           obtain ⟨dN, rfl⟩ : ∃ d : Nat, en = (stN : Int) + d := ⟨(en - stN).toNat, by omega⟩
           have hd : ((stN : Int) + (dN : Int) - (stN : Int)).toNat = dN := by omega
           simp only [Int.toNat_natCast, hd]
           refine Eq.trans (ls_loop' cx hpos ed.text (Options.withDefaults cx ed.opts).lineSep _ _ ?hK stN (stN + 1) 0 0
             (stN : Int) 0 (by omega) (by simp [byteOff]) (Nat.zero_le _) (Nat.le_refl _)) ?_
           case hK => intro s s' v; rfl
           have hcases : skipSeps ed.text (Options.withDefaults cx ed.opts).lineSep stN 0 = none ∨
               ∃ p, skipSeps ed.text (Options.withDefaults cx ed.opts).lineSep stN 0 = some p := by
             cases skipSeps ed.text (Options.withDefaults cx ed.opts).lineSep stN 0 with
             | none => exact Or.inl rfl
             | some p => exact Or.inr ⟨p, rfl⟩
           rcases hcases with hs1 | ⟨p, hs1⟩
           · simp only [hs1, bind_pure]
           · simp only [hs1]
             have hple := skipSeps_le ed.text (Options.withDefaults cx ed.opts).lineSep stN 0 p (Nat.zero_le _) hs1
             have hd2 : ((stN : Int) + (dN : Int) - (stN : Int)).toNat = dN := by omega
             simp only [hd2]
             refine Eq.trans (ls_loop' cx hpos ed.text (Options.withDefaults cx ed.opts).lineSep _ _ ?hK2 dN (dN + 1) p (stN : Int)
               ((stN : Int) + (dN : Int)) _ rfl rfl hple (Nat.le_refl _)) ?_
             case hK2 => intro s s' v; rfl
             have hcases2 : skipSeps ed.text (Options.withDefaults cx ed.opts).lineSep dN p = none ∨
                 ∃ q, skipSeps ed.text (Options.withDefaults cx ed.opts).lineSep dN p = some q := by
               cases skipSeps ed.text (Options.withDefaults cx ed.opts).lineSep dN p with
               | none => exact Or.inl rfl
               | some q => exact Or.inr ⟨q, rfl⟩
             rcases hcases2 with hs2 | ⟨q, hs2⟩
             · simp only [hs2, bind_pure]
             · simp only [hs2])

theorem editorLinesFrom_regenerated (h : Gen.Code.editorLinesFrom_extracted = true) (hpos : ∀ a, 0 < cx.blen a)
    (ed : Editor α) (start : Int) :
    Gen.Code.editorLinesFrom cx ed start = ed.linesFrom cx start := by
  first
    | exact absurd h (by decide)
    | (unfold Gen.Code.editorLinesFrom Editor.linesFrom
       simp only [editorLineCount_regenerated cx (by decide), editorLinesSel_regenerated cx (by decide) hpos]
       go_norm
       all_goals simp)

theorem editorLinesTo_regenerated (h : Gen.Code.editorLinesTo_extracted = true) (hpos : ∀ a, 0 < cx.blen a)
    (ed : Editor α) (e : Int) :
    Gen.Code.editorLinesTo cx ed e = ed.linesTo cx e := by
  first
    | exact absurd h (by decide)
    | (unfold Gen.Code.editorLinesTo Editor.linesTo
       simp only [editorLinesSel_regenerated cx (by decide) hpos]
       go_norm
       all_goals simp)

theorem editorLinesSel_cxA (h : Gen.Code.editorLinesSel_extracted = true) (ed : Editor Int) (s e : Int) :
    Gen.Code.editorLinesSel cxA ed s e = ed.linesSel cxA s e := editorLinesSel_regenerated cxA h cxA_WF.2 ed s e

end RosedVerif.GenCodeEq
