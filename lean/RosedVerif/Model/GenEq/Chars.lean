/-
Regenerated-code equality theorems (see Model/GenCodeEq.lean for the overview): module `Chars`.
-/
import RosedVerif.Model.GenEq.Core
import RosedVerif.Model.InstAFacts
set_option linter.unusedVariables false
set_option linter.unusedSectionVars false
set_option linter.unusedSimpArgs false
namespace RosedVerif.GenCodeEq
open RosedVerif

variable {α : Type} [DecidableEq α] (cx : Ctx α)

theorem editorCharCount_regenerated (h : Gen.Code.editorCharCount_extracted = true) (ed : Editor α) :
    Gen.Code.editorCharCount cx ed = pure (ed.charCount cx : Int) := by
  first
    | exact absurd h (by decide)
    | (unfold Gen.Code.editorCharCount Editor.charCount
       go_norm
       simp [Go.deref])

/-- the byte-offset search loop of `Chars` (state: chIdx, byteStart, byteEnd); `L = len(ed.Text)` -/
def chBody {ρ : Type} (rs re L : Int) (_i : Int) (byteIdx : Int) (s : Int × Int × Int) : R ((Int × Int × Int) × Go.Ctl ρ) :=
  if s.1 + 1 = rs then
    (if re ≥ L then pure ((s.1 + 1, byteIdx, s.2.2), Go.Ctl.brk)
     else if s.1 + 1 = re then pure ((s.1 + 1, byteIdx, byteIdx), Go.Ctl.brk)
     else pure ((s.1 + 1, byteIdx, s.2.2), Go.Ctl.next))
  else if s.1 + 1 = re then pure ((s.1 + 1, s.2.1, byteIdx), Go.Ctl.brk)
  else pure ((s.1 + 1, s.2.1, s.2.2), Go.Ctl.next)

/-- after the start was found: run on to the end position -/
theorem ch_loop_B2 {ρ : Type} (f : Nat → Int) (rs re : Nat) (L : Int) (hL : ¬ ((re : Int) ≥ L)) :
    ∀ (m k : Nat) (i bs be : Int), k ≤ re → re < k + m → rs < k →
      Go.forRangeCtlAux (ρ := ρ) (chBody rs re L) i ((List.range' k m).map f) ((k : Int) - 1, bs, be) =
        pure (((re : Int), bs, f re), none) := by
  intro m
  induction m with
  | zero => intro k i bs be h1 h2 _; omega
  | succ m ih =>
    intro k i bs be h1 h2 h3
    simp only [List.range'_succ, List.map_cons, Go.forRangeCtlAux, chBody]
    have e1 : ((k : Int) - 1 + 1) = (k : Int) := by omega
    have n1 : ¬ ((k : Int) = (rs : Int)) := by omega
    simp only [e1, n1, if_false]
    by_cases hk : k = re
    · subst hk
      simp
    · have n2 : ¬ ((k : Int) = (re : Int)) := by omega
      simp only [n2, if_false, pure_bind]
      have := ih (k + 1) (i + 1) bs be (by omega) (by omega) (by omega)
      simp only [Int.natCast_add, Int.cast_ofNat_Int, Int.add_sub_cancel] at this
      exact this

/-- an end position inside the text -/
theorem ch_loop_B1 {ρ : Type} (f : Nat → Int) (rs re : Nat) (L : Int) (hL : ¬ ((re : Int) ≥ L)) :
    ∀ (m k : Nat) (i bs be : Int), k ≤ rs → rs ≤ re → re < k + m →
      Go.forRangeCtlAux (ρ := ρ) (chBody rs re L) i ((List.range' k m).map f) ((k : Int) - 1, bs, be) =
        pure (((re : Int), f rs, f re), none) := by
  intro m
  induction m with
  | zero => intro k i bs be h1 h2 h3; omega
  | succ m ih =>
    intro k i bs be h1 h2 h3
    by_cases hk : k = rs
    · subst hk
      simp only [List.range'_succ, List.map_cons, Go.forRangeCtlAux, chBody]
      have e1 : ((k : Int) - 1 + 1) = (k : Int) := by omega
      simp only [e1, hL, if_true, if_false]
      by_cases hk2 : k = re
      · subst hk2; simp
      · have n2 : ¬ ((k : Int) = (re : Int)) := by omega
        simp only [n2, if_false, pure_bind]
        have := ch_loop_B2 (ρ := ρ) f k re L hL m (k + 1) (i + 1) (f k) be (by omega) (by omega) (by omega)
        simp only [Int.natCast_add, Int.cast_ofNat_Int, Int.add_sub_cancel] at this
        exact this
    · simp only [List.range'_succ, List.map_cons, Go.forRangeCtlAux, chBody]
      have e1 : ((k : Int) - 1 + 1) = (k : Int) := by omega
      have n1 : ¬ ((k : Int) = (rs : Int)) := by omega
      have n2 : ¬ ((k : Int) = (re : Int)) := by omega
      simp only [e1, n1, n2, if_false, pure_bind]
      have := ih (k + 1) (i + 1) bs be (by omega) h2 (by omega)
      simp only [Int.natCast_add, Int.cast_ofNat_Int, Int.add_sub_cancel] at this
      exact this

/-- the end position is the end of the text (`runeEnd = len(ed.Text)`): stop as soon as the start is found -/
theorem ch_loop_A {ρ : Type} (f : Nat → Int) (rs : Nat) (re L : Int) (hL : re ≥ L) :
    ∀ (m k : Nat) (i bs be : Int), k ≤ rs → rs < k + m → ((rs : Int) < re) →
      Go.forRangeCtlAux (ρ := ρ) (chBody rs re L) i ((List.range' k m).map f) ((k : Int) - 1, bs, be) =
        pure (((rs : Int), f rs, be), none) := by
  intro m
  induction m with
  | zero => intro k i bs be h1 h2 _; omega
  | succ m ih =>
    intro k i bs be h1 h2 h3
    simp only [List.range'_succ, List.map_cons, Go.forRangeCtlAux, chBody]
    have e1 : ((k : Int) - 1 + 1) = (k : Int) := by omega
    simp only [e1]
    by_cases hk : k = rs
    · subst hk
      simp [hL]
    · have n1 : ¬ ((k : Int) = (rs : Int)) := by omega
      have n2 : ¬ ((k : Int) = re) := by omega
      simp only [n1, n2, if_false, pure_bind]
      have := ih (k + 1) (i + 1) bs be (by omega) (by omega) h3
      simp only [Int.natCast_add, Int.cast_ofNat_Int, Int.add_sub_cancel] at this
      exact this

theorem editorSubEd_regenerated (h : Gen.Code.editorSubEd_extracted = true) (ed : Editor α) (a b : Int) :
    Gen.Code.editorSubEd cx ed a b = ed.subEd cx a b := by
  first
    | exact absurd h (by decide)
    | (unfold Gen.Code.editorSubEd Editor.subEd
       simp only [Go.strSlice, Go.edWithRef, Editor.withText]
       all_goals (cases ed <;> rfl))

theorem cOff_lt {e : List Nat} {n : Nat} (h : Part e n) (a : Nat) (ha : a < e.length) : cOff e a < n := by
  have hle : e[a] ≤ n := (h.pos _ (List.getElem_mem ha)).2
  unfold cOff
  split
  · have := (h.pos _ (List.getElem_mem ha)).1; omega
  · rename_i ha0
    have hlt : e[a - 1]'(by omega) < e[a] := by
      have := List.pairwise_iff_getElem.mp h.sorted (a - 1) a (by omega) ha (by omega)
      exact this
    have hg : e.getD (a - 1) 0 = e[a - 1]'(by omega) := by
      simp [List.getD_eq_getElem?_getD, show a - 1 < e.length by omega]
    omega

/- Tie the generated byte-offset search loop of `Chars` to the canonical `chBody` through a VIEW of its state: which
component is the rune counter / `byteStart` / `byteEnd`, and the offset `d` of the counter (0: incremented at the top
of the body, 1: at the bottom).  The code after the loop reads `byteStart` and `byteEnd` only.  A wrong view is
rejected by the first two side goals (code after the loop, initial state) before the body is looked at. -/
set_option hygiene false in
local macro "ch_view " re:term:max c:term:max bs:term:max be:term:max d:term:max " then " fin:tacticSeq : tactic => `(tactic| (
  refine Eq.trans (finRel_bind (fun s : Int × Int × Int => ($bs s, $be s)) (fun s : Int × Int × Int => (s.2.1, s.2.2))
    (K' := fun t => Editor.subEd cx ed t.1.2.1 (if t.1.2.2 = -1 then ((byteLen cx ed.text : Nat) : Int) else t.1.2.2))
    (forRangeCtlM_sim (fun s : Int × Int × Int => ($c s - $d, $bs s, $be s)) _ _ _ (chBody (((clusterSpan E stN).1 : Nat) : Int) $re ((byteLen cx ed.text : Nat) : Int)) (fun _ => rfl) _ _ ?step)
    ?hK) ?rest
  case hK =>
    intro r r' o hobs
    obtain ⟨h1, h2⟩ := Prod.mk.inj hobs
    (simp only [← h1, ← h2]) <;> first | rfl | ((repeat' split) <;> first | rfl | omega)
  case rest =>
    show Go.forRangeCtlAux (chBody _ _ _) 0 _ (-1, -1, -1) >>= _ = _
    (rw [hrun])
    ($fin)
  case step =>
    intro j byteIdx s hj
    simp only [chBody]
    (repeat' split) <;>
      first
        | omega
        | ((simp only [ctlRel_next, ctlRel_brk, ctlRel_ret, ctlRel_throw, Prod.mk.injEq]) <;>
            (repeat' apply And.intro) <;> first | rfl | trivial | omega)))

/- all views of a state of three integers -/
set_option hygiene false in
local macro "ch_views " re:term:max " then " fin:tacticSeq : tactic => `(tactic|
  first
    | ch_view $re (·.1) (·.2.1) (·.2.2) 0 then $fin
    | ch_view $re (·.1) (·.2.1) (·.2.2) 1 then $fin
    | ch_view $re (·.1) (·.2.2) (·.2.1) 0 then $fin
    | ch_view $re (·.1) (·.2.2) (·.2.1) 1 then $fin
    | ch_view $re (·.2.1) (·.1) (·.2.2) 0 then $fin
    | ch_view $re (·.2.1) (·.1) (·.2.2) 1 then $fin
    | ch_view $re (·.2.1) (·.2.2) (·.1) 0 then $fin
    | ch_view $re (·.2.1) (·.2.2) (·.1) 1 then $fin
    | ch_view $re (·.2.2) (·.1) (·.2.1) 0 then $fin
    | ch_view $re (·.2.2) (·.1) (·.2.1) 1 then $fin
    | ch_view $re (·.2.2) (·.2.1) (·.1) 0 then $fin
    | ch_view $re (·.2.2) (·.2.1) (·.1) 1 then $fin)

theorem editorChars_regenerated (h : Gen.Code.editorChars_extracted = true) (hwf : cx.WF) (ed : Editor α) (s e : Int) :
    Gen.Code.editorChars cx ed s e = ed.chars cx s e := by
  first
    | exact absurd h (by decide)
    | (unfold Gen.Code.editorChars Editor.chars
       simp only [editorSubEd_regenerated cx (by decide)]
       have hlen : Go.sliceLen (Go.gsGraphemeIndexes cx ed.text) = ((cx.ends ed.text).length : Int) := by
         simp [Go.sliceLen, Go.gsGraphemeIndexes]
       simp only [hlen, ite_pure_bind, pure_bind, Go.strLen, beq_iff_eq]
       generalize hst : (if s = Gen.endSentinel then ((cx.ends ed.text).length : Int) else s) = s'
       generalize hen : (if e = Gen.endSentinel then ((cx.ends ed.text).length : Int) else e) = e'
       have hb := rangeToIndexes_bounds ((cx.ends ed.text).length : Int) s' e' (Int.natCast_nonneg _)
       generalize hri : rangeToIndexes ((cx.ends ed.text).length : Int) s' e' = r at hb ⊢
       obtain ⟨st, en⟩ := r
       simp only [] at hb ⊢
       have hpart := hwf.1 ed.text
       have hpos := hwf.2
       generalize hE : cx.ends ed.text = E at *
       by_cases hge : st ≥ (E.length : Int)
       · simp only [hge, if_true]
       · simp only [hge, if_false]
         obtain ⟨stN, rfl⟩ : ∃ k : Nat, st = k := ⟨st.toNat, by omega⟩
         obtain ⟨enN, rfl⟩ : ∃ k : Nat, en = k := ⟨en.toNat, by omega⟩
         have hst1 : stN < E.length := by omega
         have hidx : ∀ (k : Nat) (K : Int → R (Editor α)), k < E.length →
             (Go.idx (Go.gsGraphemeIndexes cx ed.text) (k : Int) >>= fun t3 => Go.idx t3 0 >>= K) =
               K (((clusterSpan E k).1 : Nat) : Int) := by
           intro k K hk
           rw [idx_nat _ _ (by simp [Go.gsGraphemeIndexes, hE, hk])]
           simp [Go.gsGraphemeIndexes, hE, Go.idx]
         rw [hidx stN _ hst1]
         simp only [Int.toNat_natCast]
         have hN : ed.text.length ≤ byteLen cx ed.text := length_le_byteLen hpos ed.text
         have hrs : (clusterSpan E stN).1 < ed.text.length := by
           rw [clusterSpan_fst]; exact cOff_lt hpart stN hst1
         have hoffs : Go.strByteOffsets cx ed.text =
             (List.range' 0 ed.text.length).map (fun k => ((byteOff cx ed.text k : Nat) : Int)) := by
           simp [Go.strByteOffsets, List.range_eq_range']
         by_cases hen1 : (enN : Int) < (E.length : Int)
         · have hen2 : enN < E.length := by omega
           simp only [hen1, if_true, bind_assoc, pure_bind]
           rw [hidx enN _ hen2]
           have hre : (clusterSpan E enN).1 < ed.text.length := by
             rw [clusterSpan_fst]; exact cOff_lt hpart enN hen2
           have hle : (clusterSpan E stN).1 ≤ (clusterSpan E enN).1 := by
             rw [clusterSpan_fst, clusterSpan_fst]; exact hpart.cOff_mono (by omega) (by omega)
           have hL : ¬ ((((clusterSpan E enN).1 : Nat) : Int) ≥ ((byteLen cx ed.text : Nat) : Int)) := by omega
           have key := ch_loop_B1 (ρ := Editor α) (fun k => ((byteOff cx ed.text k : Nat) : Int))
             (clusterSpan E stN).1 (clusterSpan E enN).1 ((byteLen cx ed.text : Nat) : Int) hL
             ed.text.length 0 0 (-1) (-1) (by omega) hle (by omega)
           simp only [Int.natCast_zero, Int.zero_sub] at key
           have hrun := key
           rw [← hoffs] at hrun
           have hne : ¬ (((byteOff cx ed.text (clusterSpan E enN).1 : Nat) : Int) = -1) := by omega
           ch_views (((clusterSpan E enN).1 : Nat) : Int) then simp only [pure_bind, hne, if_false]
         · have hen2 : enN = E.length := by omega
           simp only [hen1, if_false, pure_bind]
           have hL : (((byteLen cx ed.text : Nat) : Int) ≥ ((byteLen cx ed.text : Nat) : Int)) := Int.le_refl _
           have key := ch_loop_A (ρ := Editor α) (fun k => ((byteOff cx ed.text k : Nat) : Int))
             (clusterSpan E stN).1 ((byteLen cx ed.text : Nat) : Int) ((byteLen cx ed.text : Nat) : Int) hL
             ed.text.length 0 0 (-1) (-1) (by omega) (by omega) (by omega)
           simp only [Int.natCast_zero, Int.zero_sub] at key
           have hrun := key
           rw [← hoffs] at hrun
           ch_views ((byteLen cx ed.text : Nat) : Int) then simp only [pure_bind, if_true])

theorem editorCharsFrom_regenerated (h : Gen.Code.editorCharsFrom_extracted = true) (hwf : cx.WF) (ed : Editor α) (start : Int) :
    Gen.Code.editorCharsFrom cx ed start = ed.charsFrom cx start := by
  first
    | exact absurd h (by decide)
    | (unfold Gen.Code.editorCharsFrom Editor.charsFrom
       simp only [editorChars_regenerated cx (by decide) hwf]
       go_norm
       all_goals simp)

theorem editorCharsTo_regenerated (h : Gen.Code.editorCharsTo_extracted = true) (hwf : cx.WF) (ed : Editor α) (e : Int) :
    Gen.Code.editorCharsTo cx ed e = ed.charsTo cx e := by
  first
    | exact absurd h (by decide)
    | (unfold Gen.Code.editorCharsTo Editor.charsTo
       simp only [editorChars_regenerated cx (by decide) hwf]
       go_norm
       all_goals simp)

theorem editorChars_cxA (h : Gen.Code.editorChars_extracted = true) (ed : Editor Int) (s e : Int) :
    Gen.Code.editorChars cxA ed s e = ed.chars cxA s e := editorChars_regenerated cxA h cxA_WF ed s e

end RosedVerif.GenCodeEq
